#!/bin/bash
# Re-checks the compiled development with Coq's independent checker and prints the axioms it relies on.
# usage: tools/coqchk.sh   (needs the .vo files: run `make` in coq/ first; takes many minutes)
cd "$(dirname "$0")/../coq"
mods=$(ls Properties/*.v | sed 's#/#.#; s#\.v$##; s#^#PV.#')
timeout 7200 coqchk -silent -o -Q . PV $mods

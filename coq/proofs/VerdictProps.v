(** The reported verdict is sound (C08), and a successful job ran every task exactly once (C02). Over System.reach:
    when a job's scheduler returns and the job is reported neither canceled nor with an error, every stage is done and
    every task's commands ended successfully (or failed while marked allow_failure) in this history. *)
From stdpp Require Import list.
From Coq Require Import ZArith Lia.
From PV Require Import Graph System Runner proofs.RunnerBase proofs.RunnerInv proofs.Refine proofs.SchedProps proofs.OnceProps proofs.StageProps.

Definition ran_ok (g : list obs) (id : nat) (n : name) : Prop := ORunBegan id n ∈ g ∧ ORunEnded id n true ∈ g.

(** the job is going to end with an error: one is recorded, or a stage that may not fail is about to report one *)
Definition failed (j : job) (sc : sched) : Prop :=
  sc_lasterr sc ≠ None ∨ ∃ n e, (n, Some e, false) ∈ sc_ending sc ∧ task_allow j n = false.

Record VJ (g : list obs) (id : nat) (j : job) (sc : sched) : Prop := {
  v_names : map fst (sc_stages sc) = map jt_name (j_tasks j);
  v_done : ∀ n, stage_status sc n = Some Done → ran_ok g id n ∨ sc_ctx sc = true;
  v_err : ∀ n, stage_status sc n = Some Error →
          (∃ e, (n, Some e, false) ∈ sc_ending sc) ∨ (task_allow j n = false ∧ sc_lasterr sc ≠ None);
  v_allow : ∀ n e b, (n, Some e, b) ∈ sc_ending sc → task_allow j n = true → sc_ctx sc = true;
  v_canc : ∀ n, stage_status sc n = Some Canceled → ∃ d, stage_status sc d = Some Error ∧ task_allow j d = false;
  v_exit : sc_phase sc = PExited → sc_cancelled sc = true ∨ is_done sc = true;
  v_cause : (0 < j_cancels j)%nat ∨ sc_ctx sc = true ∨ sc_cancelled sc = true →
            j_canceled j = true ∨ j_cancel_req j = true ∨ failed j sc;
  v_noskip : ∀ n, stage_status sc n ≠ Some Skipped;
  v_running : ∀ n, n ∈ sc_running sc → ORunBegan id n ∈ g }.

Definition VOK (g : list obs) (id : nat) (j : job) : Prop :=
  match j_sched j with
  | Some sc => VJ g id j sc
  | None => j_start j = None → j_cancels j = 0%nat
  end.

Definition VInv (s : state) : Prop := ∀ id j, st_jobs s !! id = Some j → VOK (st_ghost s) id j.

(** ** primitives *)
Lemma VJ_ghost g g' id j sc : (∀ o, o ∈ g → o ∈ g') → VJ g id j sc → VJ g' id j sc.
Proof.
  intros Hg [A B C D E F G H I]. split; try done.
  - intros n Hn. destruct (B n Hn) as [[Hr1 Hr2]|Hc]; [left; split; by apply Hg|by right].
  - intros n Hn. by apply Hg, I.
Qed.

Lemma VOK_ghost g g' id j : (∀ o, o ∈ g → o ∈ g') → VOK g id j → VOK g' id j.
Proof. intros Hg. unfold VOK. destruct (j_sched j); [by apply VJ_ghost|done]. Qed.

Lemma VInv_same s s' : st_jobs s' = st_jobs s → st_ghost s' = st_ghost s → VInv s → VInv s'.
Proof. intros Hj Hg H id j. rewrite Hj, Hg. apply (H id). Qed.

Lemma VInv_log s o : VInv s → VInv (log s o).
Proof. intros H id j Hl. simpl. eapply VOK_ghost; [|by apply (H id)]. intros x Hx. by right. Qed.

Lemma VInv_upd s id f :
  VInv s → (∀ j, st_jobs s !! id = Some j → VOK (st_ghost s) id j → VOK (st_ghost s) id (f j)) → VInv (upd_job s id f).
Proof.
  intros H Hf id' j'. simpl. destruct (decide (id = id')) as [<-|Hne].
  - rewrite list_lookup_alter. pose proof (H id) as Hid. destruct (st_jobs s !! id) as [j|] eqn:E; [|done].
    intros [= <-]. apply Hf; [done|]. by apply Hid.
  - rewrite list_lookup_alter_ne by done. apply (H id').
Qed.

Lemma VInv_append s j : VInv s → j_sched j = None → (j_start j = None → j_cancels j = 0%nat) → VInv (set_jobs s (st_jobs s ++ [j])).
Proof.
  intros H Hs Hc id j'. simpl. intros Hl. apply lookup_app_Some in Hl as [Hl|[_ Hl]]; [by apply (H id)|].
  destruct (id - length (st_jobs s))%nat; [|done]. simpl in Hl. injection Hl as <-. unfold VOK. by rewrite Hs.
Qed.

Lemma VInv_replace s s' id :
  VInv s → (∀ o, o ∈ st_ghost s → o ∈ st_ghost s') →
  (∀ id', id' ≠ id → st_jobs s' !! id' = st_jobs s !! id') → (∀ j', st_jobs s' !! id = Some j' → VOK (st_ghost s') id j') → VInv s'.
Proof.
  intros H Hg Ho Hid id' j' Hl. destruct (decide (id' = id)) as [->|Hne]; [by apply Hid|].
  rewrite Ho in Hl by done. eapply VOK_ghost; [exact Hg|]. by apply (H id').
Qed.

Lemma names_view j j' : tview j' = tview j → map jt_name (j_tasks j') = map jt_name (j_tasks j).
Proof.
  unfold tview. intros H. assert (H' := f_equal (map (fun x : name * taskdef * status => x.1.1)) H).
  rewrite !map_map in H'. exact H'.
Qed.

(** what the invariant reads of the job record *)
Definition jsame (j j' : job) : Prop :=
  map jt_name (j_tasks j') = map jt_name (j_tasks j) ∧ (∀ n, task_allow j' n = task_allow j n) ∧
  (j_canceled j = true → j_canceled j' = true) ∧ (j_cancel_req j = true → j_cancel_req j' = true).

Lemma failed_same j j' sc : (∀ n, task_allow j' n = task_allow j n) → failed j sc → failed j' sc.
Proof.
  intros Hv [H|(n & e & Hin & Ha)]; [by left|]. right. exists n, e. split; [done|]. by rewrite Hv.
Qed.

Lemma VJ_job g id j j' sc :
  jsame j j' →
  ((j_cancels j' ≤ j_cancels j)%nat ∨ j_cancel_req j' = true ∨ j_canceled j' = true ∨ failed j' sc ∨ sc_ctx sc = true) →
  VJ g id j sc → VJ g id j' sc.
Proof.
  intros (Hn & Ha & Hc & Hr) Hcn [A B C D E F G H I]. split; try done.
  - by rewrite Hn.
  - intros n Hs. destruct (C n Hs) as [?|[Hal ?]]; [by left|right]. by rewrite Ha.
  - intros n e b Hin Hal. apply (D n e b Hin). by rewrite <- Ha.
  - intros n Hs. destruct (E n Hs) as (d & Hd & Hal). exists d. split; [done|]. by rewrite Ha.
  - intros Hp.
    assert (Hold : (0 < j_cancels j)%nat ∨ sc_ctx sc = true ∨ sc_cancelled sc = true →
                   j_canceled j' = true ∨ j_cancel_req j' = true ∨ failed j' sc).
    { intros Hp'. destruct (G Hp') as [?|[?|?]]; auto. right. right. by apply (failed_same j). }
    destruct Hp as [Hp|Hp]; [|apply Hold; by right].
    destruct Hcn as [Hle|[?|[?|[?|Hctx]]]]; [apply Hold; left; lia|by right; left|by left|by right; right|apply Hold; right; by left].
Qed.

Lemma jsame_view j j' :
  tview j' = tview j → (j_canceled j = true → j_canceled j' = true) → (j_cancel_req j = true → j_cancel_req j' = true) → jsame j j'.
Proof. intros Hv Hc Hr. split; [by apply names_view|]. split; [intros n; by apply task_allow_view|done]. Qed.

Lemma names_hsc n st l : map jt_name (hsc_tasks n st l) = map jt_name l.
Proof. unfold hsc_tasks. rewrite map_map. apply map_ext. intros t. by destruct (Nat.eqb (jt_name t) n). Qed.

Lemma jsame_hsc j j' n st :
  j_tasks j' = hsc_tasks n st (j_tasks j) → (j_canceled j = true → j_canceled j' = true) → (j_cancel_req j = true → j_cancel_req j' = true) → jsame j j'.
Proof.
  intros Ht Hc Hr. split; [by rewrite Ht, names_hsc|]. split; [intros m; by apply (task_allow_hsc j j' n st)|done].
Qed.

(** changes of a job that leave scheduler and task view alone; cancels only grow together with a recorded request *)
Lemma VOK_keep g id j j' :
  j_sched j' = j_sched j → tview j' = tview j → (j_start j' = None → j_start j = None) →
  ((j_cancels j' ≤ j_cancels j)%nat ∨ (j_sched j ≠ None ∧ (j_cancel_req j' = true ∨ j_canceled j' = true))) →
  (j_canceled j = true → j_canceled j' = true) → (j_cancel_req j = true → j_cancel_req j' = true) →
  VOK g id j → VOK g id j'.
Proof.
  intros Hs Hv Hst Hcn Hc Hr. unfold VOK. rewrite Hs. destruct (j_sched j) as [sc|].
  - apply VJ_job; [by apply jsame_view|]. destruct Hcn as [?|[_ [?|?]]]; auto.
  - intros H H1. destruct Hcn as [Hle|[? _]]; [|done]. specialize (H (Hst H1)). lia.
Qed.

(** ** stage statuses *)
Lemma set_cases sc sc' n st :
  sc_stages sc' = sc_stages (set_stage sc n st) →
  (∀ m, m ≠ n → stage_status sc' m = stage_status sc m) ∧
  (∀ old, stage_status sc n = Some old → stage_status sc' n = Some st) ∧
  map fst (sc_stages sc') = map fst (sc_stages sc).
Proof.
  intros H.
  assert (Hst : ∀ m, stage_status sc' m = (fun x => if Nat.eqb m n then st else x) <$> stage_status sc m).
  { intros m. rewrite (stage_status_stages (set_stage sc n st)) by done. apply stage_status_set. }
  split; [|split].
  - intros m Hm. rewrite Hst. destruct (stage_status sc m); [|done]. simpl. by destruct (Nat.eqb_spec m n).
  - intros old Ho. rewrite Hst, Ho. simpl. by rewrite Nat.eqb_refl.
  - rewrite H. unfold set_stage. simpl. rewrite map_map. apply map_ext. intros [k x]. simpl. by destruct (Nat.eqb k n).
Qed.

Lemma is_done_status sc n st : is_done sc = true → stage_status sc n = Some st → st ≠ Waiting ∧ st ≠ Running.
Proof.
  unfold is_done, stage_status. rewrite forallb_forall. intros H Hf.
  destruct (find _ _) as [[k x]|] eqn:E; [|done]. simpl in Hf. injection Hf as ->.
  apply find_some in E as [Hin _]. specialize (H _ Hin). simpl in H. by destruct st.
Qed.

Lemma is_done_set sc sc' n st :
  sc_stages sc' = sc_stages (set_stage sc n st) → st ≠ Waiting → st ≠ Running → is_done sc = true → is_done sc' = true.
Proof.
  intros H H1 H2. unfold is_done. rewrite H. unfold set_stage. simpl. rewrite !forallb_forall. intros Hd x Hx.
  apply in_map_iff in Hx as ([k y] & <- & Hin). match goal with |- context [Nat.eqb ?u ?v] => destruct (Nat.eqb u v) end; simpl; [by destruct st|by apply (Hd (k, y))].
Qed.

Lemma is_done_stages sc sc' : sc_stages sc' = sc_stages sc → is_done sc' = is_done sc.
Proof. intros H. unfold is_done. by rewrite H. Qed.

(** ** the transitions of a job's scheduler *)
(** only phase / entry / running change *)
Lemma VJ_core g id j sc sc' :
  sc_stages sc' = sc_stages sc → sc_ctx sc' = sc_ctx sc → sc_cancelled sc' = sc_cancelled sc → sc_lasterr sc' = sc_lasterr sc →
  sc_ending sc' = sc_ending sc → (sc_phase sc' = PExited → sc_phase sc = PExited ∨ sc_cancelled sc = true ∨ is_done sc = true) →
  (∀ n, n ∈ sc_running sc' → n ∈ sc_running sc ∨ ORunBegan id n ∈ g) →
  VJ g id j sc → VJ g id j sc'.
Proof.
  intros H1 H2 H3 H4 H5 Hph Hrn [A B C D E F G H I].
  assert (Hst : ∀ m, stage_status sc' m = stage_status sc m) by (intros m; by apply stage_status_stages).
  split; [| | | | | | | |intros n Hn; destruct (Hrn n Hn); [by apply I|done]].
  - by rewrite H1.
  - intros n. rewrite Hst, H2. apply B.
  - intros n. rewrite Hst, H4, H5. apply C.
  - intros n e b. rewrite H5, H2. apply D.
  - intros n. rewrite Hst. intros Hn. destruct (E n Hn) as (d & Hd & Ha). exists d. by rewrite Hst.
  - intros Hp. rewrite H3, (is_done_stages sc sc' H1). destruct (Hph Hp) as [?|[?|?]]; auto.
  - rewrite H2, H3. intros Hp. destruct (G Hp) as [?|[?|Hf]]; auto. right. right.
    destruct Hf as [Hf|Hf]; [left; by rewrite H4|right; by rewrite H5].
  - intros n. rewrite Hst. apply H.
Qed.

Lemma failed_mono j sc sc' :
  (sc_lasterr sc ≠ None → sc_lasterr sc' ≠ None) →
  (∀ n e, (n, Some e, false) ∈ sc_ending sc → task_allow j n = false → sc_lasterr sc' ≠ None ∨ (n, Some e, false) ∈ sc_ending sc') →
  failed j sc → failed j sc'.
Proof.
  intros H1 H2 [H|(n & e & Hin & Ha)]; [left; by apply H1|].
  destruct (H2 n e Hin Ha) as [?|?]; [by left|]. right. by exists n, e.
Qed.

(** a waiting stage is launched *)
Lemma VJ_launch g id j sc sc' n :
  sc_stages sc' = sc_stages (set_stage sc n Running) → sc_ctx sc' = sc_ctx sc → sc_cancelled sc' = sc_cancelled sc →
  sc_lasterr sc' = sc_lasterr sc → sc_ending sc' = sc_ending sc → (sc_phase sc' = PExited → is_done sc' = true) →
  sc_running sc' = sc_running sc →
  stage_status sc n = Some Waiting → VJ g id j sc → VJ g id j sc'.
Proof.
  intros H1 H2 H3 H4 H5 Hph Hrn Hw [A B C D E F G H I].
  destruct (set_cases sc sc' n Running H1) as (Hsto & Hstn & Hnames). specialize (Hstn _ Hw).
  assert (Hold : ∀ m st, st ≠ Running → stage_status sc' m = Some st → stage_status sc m = Some st).
  { intros m st Hne Hm. destruct (decide (m = n)) as [->|Hmn]; [congruence|]. by rewrite <- Hsto. }
  split; [| | | | | | | |rewrite Hrn; apply I].
  - by rewrite Hnames.
  - intros m Hm. rewrite H2. apply B. by apply Hold.
  - intros m Hm. rewrite H4, H5. apply C. by apply Hold.
  - intros m e b. rewrite H5, H2. apply D.
  - intros m Hm. assert (Hm' : stage_status sc m = Some Canceled) by (by apply Hold). destruct (E m Hm') as (d & Hd & Ha). exists d. split; [|done].
    rewrite Hsto; [done|]. intros ->. congruence.
  - intros Hp. right. by apply Hph.
  - rewrite H2, H3. intros Hp. destruct (G Hp) as [?|[?|Hf]]; auto. right. right.
    eapply failed_mono; [| |exact Hf]; [by rewrite H4|]. intros m e Hin _. right. by rewrite H5.
  - intros m Hm. apply (H m). by apply Hold.
Qed.

(** a waiting stage is marked canceled because a dependency failed *)
Lemma VJ_cancel_stage g id j sc sc' n :
  sc_stages sc' = sc_stages (set_stage sc n Canceled) → sc_ctx sc' = sc_ctx sc → sc_cancelled sc' = sc_cancelled sc →
  sc_lasterr sc' = sc_lasterr sc → sc_ending sc' = sc_ending sc → (sc_phase sc' = PExited → is_done sc' = true) →
  sc_running sc' = sc_running sc →
  stage_status sc n = Some Waiting →
  (∃ d, (stage_status sc d = Some Error ∧ task_allow j d = false) ∨ stage_status sc d = Some Canceled) →
  VJ g id j sc → VJ g id j sc'.
Proof.
  intros H1 H2 H3 H4 H5 Hph Hrn Hw Hwhy [A B C D E F G H I].
  destruct (set_cases sc sc' n Canceled H1) as (Hsto & Hstn & Hnames). specialize (Hstn _ Hw).
  assert (Hold : ∀ m st, st ≠ Canceled → stage_status sc' m = Some st → stage_status sc m = Some st).
  { intros m st Hne Hm. destruct (decide (m = n)) as [->|Hmn]; [congruence|]. by rewrite <- Hsto. }
  assert (Hroot : ∃ d, stage_status sc d = Some Error ∧ task_allow j d = false).
  { destruct Hwhy as (d & [Hd|Hd]); [by exists d|by apply (E d)]. }
  split; [| | | | | | | |rewrite Hrn; apply I].
  - by rewrite Hnames.
  - intros m Hm. rewrite H2. apply B. by apply Hold.
  - intros m Hm. rewrite H4, H5. apply C. by apply Hold.
  - intros m e b. rewrite H5, H2. apply D.
  - intros m _. destruct Hroot as (d & Hd & Ha). exists d. split; [|done]. rewrite Hsto; [done|]. intros ->. congruence.
  - intros Hp. right. by apply Hph.
  - rewrite H2, H3. intros Hp. destruct (G Hp) as [?|[?|Hf]]; auto. right. right.
    eapply failed_mono; [| |exact Hf]; [by rewrite H4|]. intros m e Hin _. right. by rewrite H5.
  - intros m Hm. apply (H m). by apply Hold.
Qed.

(** a stage goroutine stores the result of Run *)
Lemma VJ_stage_end g id j sc sc' n r :
  let st := match r with Some _ => Error | None => Done end in
  sc_stages sc' = sc_stages (set_stage sc n st) → sc_ctx sc' = sc_ctx sc → sc_cancelled sc' = sc_cancelled sc →
  sc_lasterr sc' = sc_lasterr sc → sc_ending sc' = sc_ending sc ++ [(n, r, false)] → sc_phase sc' = sc_phase sc →
  sc_running sc' = remove_name n (sc_running sc) →
  stage_status sc n = Some Running →
  (r = None → ran_ok g id n) → (∀ e, r = Some e → task_allow j n = true → sc_ctx sc = true) →
  VJ g id j sc → VJ g id j sc'.
Proof.
  intros st H1 H2 H3 H4 H5 H6 Hrn Hrun Hok Hal [A B C D E F G H I].
  destruct (set_cases sc sc' n st H1) as (Hsto & Hstn & Hnames). specialize (Hstn _ Hrun).
  assert (Hold : ∀ m x, stage_status sc' m = Some x → (m = n ∧ x = st) ∨ (m ≠ n ∧ stage_status sc m = Some x)).
  { intros m x Hm. destruct (decide (m = n)) as [->|Hmn]; [left; split; congruence|right]. split; [done|]. by rewrite <- Hsto. }
  split; [| | | | | | | |intros m Hm; rewrite Hrn in Hm; apply elem_of_remove_name in Hm; by apply I].
  - by rewrite Hnames.
  - intros m Hm. rewrite H2. destruct (Hold _ _ Hm) as [[-> Hx]|[_ Hm']]; [|by apply B].
    left. apply Hok. unfold st in Hx. by destruct r.
  - intros m Hm. rewrite H4, H5. destruct (Hold _ _ Hm) as [[-> Hx]|[_ Hm']].
    + left. unfold st in Hx. destruct r as [e|]; [|done]. exists e. apply elem_of_app. right. left.
    + destruct (C m Hm') as [[e He]|?]; [|by right]. left. exists e. apply elem_of_app. by left.
  - intros m e b. rewrite H5, H2, elem_of_app, elem_of_list_singleton. intros [Hin|[= -> <- ->]]; [by apply (D m e b)|]. by apply (Hal e).
  - intros m Hm. destruct (Hold _ _ Hm) as [[-> Hx]|[_ Hm']]; [unfold st in Hx; by destruct r|].
    destruct (E m Hm') as (d & Hd & Ha). exists d. split; [|done]. rewrite Hsto; [done|]. intros ->. congruence.
  - rewrite H6, H3. intros Hp. destruct (F Hp) as [?|Hd]; [by left|]. destruct (is_done_status _ _ _ Hd Hrun). done.
  - rewrite H2, H3. intros Hp. destruct (G Hp) as [?|[?|Hf]]; auto. right. right.
    eapply failed_mono; [| |exact Hf]; [by rewrite H4|]. intros m e Hin _. right. rewrite H5. apply elem_of_app. by left.
  - intros m Hm. destruct (Hold _ _ Hm) as [[-> Hx]|[_ Hm']]; [unfold st in Hx; by destruct r|]. by apply (H m).
Qed.

Lemma elem_filter_named n (l : list (name * option err * bool)) x :
  x ∈ List.filter (not_named n) l ↔ x ∈ l ∧ x.1.1 ≠ n.
Proof.
  rewrite elem_of_list_In, filter_In, <- elem_of_list_In. unfold not_named. rewrite negb_true_iff, Nat.eqb_neq. done.
Qed.

(** the first notification of a failed allow_failure stage: it becomes done and is notified once more *)
Lemma VJ_notify_allow g id j sc sc' n e :
  sc_stages sc' = sc_stages (set_stage sc n Done) → sc_ctx sc' = sc_ctx sc → sc_cancelled sc' = sc_cancelled sc →
  sc_lasterr sc' = sc_lasterr sc → sc_ending sc' = List.filter (not_named n) (sc_ending sc) ++ [(n, Some e, true)] →
  sc_phase sc' = sc_phase sc → sc_running sc' = sc_running sc →
  stage_status sc n = Some Error → (n, Some e, false) ∈ sc_ending sc → task_allow j n = true →
  VJ g id j sc → VJ g id j sc'.
Proof.
  intros H1 H2 H3 H4 H5 H6 Hrn Herr Hin Hal [A B C D E F G H I].
  destruct (set_cases sc sc' n Done H1) as (Hsto & Hstn & Hnames). specialize (Hstn _ Herr).
  assert (Hctx : sc_ctx sc = true) by (by apply (D n e false)).
  assert (Hold : ∀ m x, stage_status sc' m = Some x → (m = n ∧ x = Done) ∨ (m ≠ n ∧ stage_status sc m = Some x)).
  { intros m x Hm. destruct (decide (m = n)) as [->|Hmn]; [left; split; congruence|right]. split; [done|]. by rewrite <- Hsto. }
  split; [| | | | | | | |rewrite Hrn; apply I].
  - by rewrite Hnames.
  - intros m Hm. rewrite H2. by right.
  - intros m Hm. rewrite H4, H5. destruct (Hold _ _ Hm) as [[-> Hx]|[Hmn Hm']]; [done|].
    destruct (C m Hm') as [[e' He]|?]; [|by right]. left. exists e'. apply elem_of_app. left. by apply elem_filter_named.
  - intros m e' b _ _. by rewrite H2.
  - intros m Hm. destruct (Hold _ _ Hm) as [[-> Hx]|[_ Hm']]; [done|].
    destruct (E m Hm') as (d & Hd & Ha). exists d. split; [|done]. rewrite Hsto; [done|]. intros ->. congruence.
  - rewrite H6, H3. intros Hp. destruct (F Hp) as [?|Hd]; [by left|]. right. by eapply is_done_set.
  - rewrite H2, H3. intros Hp. destruct (G Hp) as [?|[?|Hf]]; auto. right. right.
    eapply failed_mono; [| |exact Hf]; [by rewrite H4|]. intros m e' Hin' Ha. right. rewrite H5. apply elem_of_app. left.
    apply elem_filter_named. split; [done|]. simpl. intros ->. congruence.
  - intros m Hm. destruct (Hold _ _ Hm) as [[-> Hx]|[_ Hm']]; [done|]. by apply (H m).
Qed.

(** the notification of a failed stage that may not fail: the error becomes the scheduler's result *)
Lemma VJ_notify_fail g id j sc sc' n e :
  sc_stages sc' = sc_stages sc → sc_ctx sc' = sc_ctx sc → sc_cancelled sc' = sc_cancelled sc →
  sc_lasterr sc' = Some e → sc_ending sc' = List.filter (not_named n) (sc_ending sc) →
  sc_phase sc' = sc_phase sc → sc_running sc' = sc_running sc → task_allow j n = false →
  VJ g id j sc → VJ g id j sc'.
Proof.
  intros H1 H2 H3 H4 H5 H6 Hrn Hal [A B C D E F G H I].
  assert (Hst : ∀ m, stage_status sc' m = stage_status sc m) by (intros m; by apply stage_status_stages).
  split; [| | | | | | | |rewrite Hrn; apply I].
  - by rewrite H1.
  - intros m. rewrite Hst, H2. apply B.
  - intros m. rewrite Hst, H4, H5. intros Hm. destruct (decide (m = n)) as [->|Hmn]; [by right|].
    destruct (C m Hm) as [[e' He]|[? _]]; [|by right]. left. exists e'. by apply elem_filter_named.
  - intros m e' b. rewrite H5, H2. intros [Hin _]%elem_filter_named. by apply (D m e' b).
  - intros m. rewrite Hst. intros Hm. destruct (E m Hm) as (d & Hd & Ha). exists d. by rewrite Hst.
  - rewrite H6, H3, (is_done_stages sc sc' H1). apply F.
  - intros _. right. right. left. by rewrite H4.
  - intros m. rewrite Hst. apply H.
Qed.

(** the last notification of a stage (done) *)
Lemma VJ_notify_done g id j sc sc' n :
  sc_stages sc' = sc_stages sc → sc_ctx sc' = sc_ctx sc → sc_cancelled sc' = sc_cancelled sc →
  sc_lasterr sc' = sc_lasterr sc → sc_ending sc' = List.filter (not_named n) (sc_ending sc) →
  sc_phase sc' = sc_phase sc → sc_running sc' = sc_running sc → stage_status sc n = Some Done →
  (∀ e, (n, Some e, false) ∉ sc_ending sc) →
  VJ g id j sc → VJ g id j sc'.
Proof.
  intros H1 H2 H3 H4 H5 H6 Hrn Hdone Hno [A B C D E F G H I].
  assert (Hst : ∀ m, stage_status sc' m = stage_status sc m) by (intros m; by apply stage_status_stages).
  split; [| | | | | | | |rewrite Hrn; apply I].
  - by rewrite H1.
  - intros m. rewrite Hst, H2. apply B.
  - intros m. rewrite Hst, H4, H5. intros Hm. destruct (C m Hm) as [[e' He]|?]; [|by right]. left. exists e'.
    apply elem_filter_named. split; [done|]. simpl. intros ->. congruence.
  - intros m e' b. rewrite H5, H2. intros [Hin _]%elem_filter_named. by apply (D m e' b).
  - intros m. rewrite Hst. intros Hm. destruct (E m Hm) as (d & Hd & Ha). exists d. by rewrite Hst.
  - rewrite H6, H3, (is_done_stages sc sc' H1). apply F.
  - rewrite H2, H3. intros Hp. destruct (G Hp) as [?|[?|Hf]]; auto. right. right.
    eapply failed_mono; [| |exact Hf]; [by rewrite H4|]. intros m e' Hin' Ha. right. rewrite H5.
    apply elem_filter_named. split; [done|]. simpl. intros ->. by apply (Hno e').
  - intros m. rewrite Hst. apply H.
Qed.

(** Scheduler.Cancel is delivered *)
Lemma VJ_cancel_deliver g id j j' sc sc' :
  sc_stages sc' = sc_stages sc → sc_ctx sc' = true → sc_cancelled sc' = true →
  sc_lasterr sc' = sc_lasterr sc → sc_ending sc' = sc_ending sc → sc_phase sc' = sc_phase sc → sc_running sc' = sc_running sc →
  jsame j j' → (0 < j_cancels j)%nat →
  VJ g id j sc → VJ g id j' sc'.
Proof.
  intros H1 H2 H3 H4 H5 H6 Hrn (Hn & Ha & Hc & Hr) Hpos [A B C D E F G H I].
  assert (Hst : ∀ m, stage_status sc' m = stage_status sc m) by (intros m; by apply stage_status_stages).
  split; [| | | | | | | |rewrite Hrn; apply I].
  - by rewrite H1, Hn.
  - intros m _. by right.
  - intros m. rewrite Hst, H4, H5, Ha. apply C.
  - done.
  - intros m. rewrite Hst. intros Hm. destruct (E m Hm) as (d & Hd & Hal). exists d. by rewrite Hst, Ha.
  - intros _. by left.
  - intros _. destruct (G (or_introl Hpos)) as [?|[?|Hf]]; auto. right. right. apply (failed_same j); [done|].
    eapply failed_mono; [| |exact Hf]; [by rewrite H4|]. intros m e Hin _. right. by rewrite H5.
  - intros m. rewrite Hst. apply H.
Qed.

(** ** effects of the callbacks on the job list *)
Lemma hsc_ghost s id n st : st_ghost (handle_stage_change s id n st) = st_ghost s.
Proof. unfold handle_stage_change. destruct (find_job s id) as [j|]; [|done]. by destruct (find_task j n). Qed.

Lemma hsc_job_v s id n st j :
  st_jobs s !! id = Some j → j_removed j = false →
  ∃ j', st_jobs (handle_stage_change s id n st) !! id = Some j' ∧ j_tasks j' = hsc_tasks n st (j_tasks j) ∧ j_sched j' = j_sched j
        ∧ j_cancels j' = j_cancels j ∧ j_cancel_req j' = j_cancel_req j ∧ j_canceled j' = j_canceled j.
Proof.
  intros Hj Hr. unfold handle_stage_change, find_job, get_job. rewrite Hj, Hr.
  destruct (find_task j n) as [t0|] eqn:Hf.
  - simpl. rewrite list_lookup_alter, Hj. simpl. eexists. split; [done|]. simpl. done.
  - exists j. split; [done|]. split; [|done]. symmetry. by apply hsc_tasks_none.
Qed.

(** what a cancel of a started job does *)
Lemma cancel_started_v s id b j :
  st_jobs s !! id = Some j → is_Some (j_start j) →
  st_ghost (cancel_job s id b).1 = st_ghost s ∧
  (∀ id', id' ≠ id → st_jobs (cancel_job s id b).1 !! id' = st_jobs s !! id') ∧
  ∃ j', st_jobs (cancel_job s id b).1 !! id = Some j' ∧ j_sched j' = j_sched j ∧ j_tasks j' = j_tasks j
        ∧ j_start j' = j_start j ∧ j_canceled j' = j_canceled j ∧ (j_cancel_req j = true → j_cancel_req j' = true)
        ∧ (j_cancels j' = j_cancels j ∨ (j_sched j ≠ None ∧ (b = true → j_cancel_req j' = true))).
Proof.
  intros Hj [t Ht]. unfold cancel_job, find_job, get_job. rewrite Hj.
  assert (Hsame : st_ghost s = st_ghost s ∧ (∀ id', id' ≠ id → st_jobs s !! id' = st_jobs s !! id') ∧
    ∃ j', st_jobs s !! id = Some j' ∧ j_sched j' = j_sched j ∧ j_tasks j' = j_tasks j ∧ j_start j' = j_start j ∧ j_canceled j' = j_canceled j
          ∧ (j_cancel_req j = true → j_cancel_req j' = true) ∧ (j_cancels j' = j_cancels j ∨ (j_sched j ≠ None ∧ (b = true → j_cancel_req j' = true))))
    by (split; [done|]; split; [done|]; exists j; repeat split; auto).
  destruct (j_removed j) eqn:Hr; [exact Hsame|]. destruct (j_canceled j) eqn:Hc; [exact Hsame|]. destruct (j_completed j); [exact Hsame|].
  rewrite Ht in Hsame |- *. destruct (j_sched j) eqn:Hsc; [|exact Hsame]. simpl. split; [done|]. split.
  - intros id' Hne. by rewrite list_lookup_alter_ne.
  - rewrite list_lookup_alter, Hj. simpl. eexists. split; [done|]. simpl. rewrite Hsc, Ht, Hc.
    repeat split; try done.
    + intros ->. done.
    + right. split; [done|]. intros ->. apply orb_true_r.
Qed.

Lemma find_upd_task (l : list jtask) n (f : jtask → jtask) :
  (∀ t, jt_name (f t) = jt_name t) →
  find (fun t => Nat.eqb (jt_name t) n) (map (fun t => if Nat.eqb (jt_name t) n then f t else t) l) = f <$> find (fun t => Nat.eqb (jt_name t) n) l.
Proof.
  intros Hf. induction l as [|t l IH]; [done|]. simpl. destruct (Nat.eqb (jt_name t) n) eqn:E.
  - by rewrite Hf, E.
  - by rewrite E.
Qed.

(** HandleTaskChange on a started job *)
Lemma htc_effect_v s id n t j :
  st_jobs s !! id = Some j → is_Some (j_start j) →
  st_ghost (handle_task_change s id n t) = st_ghost s ∧
  (∀ id', id' ≠ id → st_jobs (handle_task_change s id n t) !! id' = st_jobs s !! id') ∧
  ∃ j', st_jobs (handle_task_change s id n t) !! id = Some j' ∧ j_sched j' = j_sched j ∧ tview j' = tview j
        ∧ j_start j' = j_start j ∧ j_canceled j' = j_canceled j ∧ (j_cancel_req j = true → j_cancel_req j' = true)
        ∧ (tn_err t = None → tn_errored t = false → j_cancels j' = j_cancels j).
Proof.
  intros Hj Hst. unfold handle_task_change.
  assert (Hsame : st_ghost s = st_ghost s ∧ (∀ id', id' ≠ id → st_jobs s !! id' = st_jobs s !! id') ∧
    ∃ j', st_jobs s !! id = Some j' ∧ j_sched j' = j_sched j ∧ tview j' = tview j ∧ j_start j' = j_start j ∧ j_canceled j' = j_canceled j
          ∧ (j_cancel_req j = true → j_cancel_req j' = true) ∧ (tn_err t = None → tn_errored t = false → j_cancels j' = j_cancels j))
    by (split; [done|]; split; [done|]; by exists j).
  destruct (find_job s id) as [jf|] eqn:Hfj; [|done].
  assert (jf = j ∧ j_removed j = false) as [-> Hrm].
  { unfold find_job, get_job in Hfj. rewrite Hj in Hfj. destruct (j_removed j); [done|]. by injection Hfj as <-. }
  destruct (find_task j n) as [t0|] eqn:Hft; [|done].
  set (upd := fun jt : jtask => _).
  set (s1 := upd_job s id (fun j => upd_task j n upd)).
  assert (Hj1 : st_jobs s1 !! id = Some (upd_task j n upd)) by (simpl; by rewrite list_lookup_alter, Hj).
  assert (Hname : ∀ x, jt_name (upd x) = jt_name x) by (intros x; unfold upd; by destruct (tn_err t) as [[]|]).
  assert (Hv : tview (upd_task j n upd) = tview j).
  { unfold tview. simpl. rewrite map_map. apply map_ext. intros a. destruct (Nat.eqb (jt_name a) n); [|done].
    unfold upd. by destruct (tn_err t) as [[]|]. }
  assert (Ho1 : ∀ id', id' ≠ id → st_jobs s1 !! id' = st_jobs s !! id') by (intros; simpl; by rewrite list_lookup_alter_ne).
  change (st_ghost (request_persist ?x)) with (st_ghost x). change (st_jobs (request_persist ?x)) with (st_jobs x).
  assert (Hs1 : st_ghost s1 = st_ghost s ∧ (∀ id', id' ≠ id → st_jobs s1 !! id' = st_jobs s !! id') ∧
    ∃ j', st_jobs s1 !! id = Some j' ∧ j_sched j' = j_sched j ∧ tview j' = tview j ∧ j_start j' = j_start j ∧ j_canceled j' = j_canceled j
          ∧ (j_cancel_req j = true → j_cancel_req j' = true) ∧ (tn_err t = None → tn_errored t = false → j_cancels j' = j_cancels j))
    by (split; [done|]; split; [done|]; by exists (upd_task j n upd)).
  assert (Herrd : find_job s1 id = Some (upd_task j n upd)).
  { unfold find_job, get_job. rewrite Hj1. simpl. by rewrite Hrm. }
  assert (Hfind : find_task (upd_task j n upd) n = Some (upd t0)).
  { unfold find_task in *. simpl. rewrite (find_upd_task _ _ _ Hname). by rewrite Hft. }
  rewrite Herrd, Hfind.
  destruct (jt_errored (upd t0)) eqn:Herr; [|exact Hs1].
  destruct (lookup_def _ _) as [d|]; [|exact Hs1]. destruct (pd_continue d); [exact Hs1|].
  destruct (cancel_started_v s1 id false (upd_task j n upd) Hj1 Hst) as (Hg & Ho & j' & Hl & H1 & H2 & H3 & H4 & H5 & H6).
  split; [by rewrite Hg|]. split; [intros id' Hne; rewrite Ho by done; by apply Ho1|].
  exists j'. split; [done|]. simpl in *. split; [congruence|]. split; [unfold tview; rewrite H2; exact Hv|].
  split; [congruence|]. split; [congruence|]. split; [exact H5|].
  intros He Hf. exfalso. unfold upd in Herr. rewrite He in Herr. simpl in Herr. congruence.
Qed.

(** ** the events *)
Lemma jsame_set_sched j x : jsame j (set_sched j x).
Proof. split; [done|]. split; [|done]. intros n. unfold task_allow, find_task. done. Qed.

Lemma VInv_put s id j sc sc' :
  VInv s → st_jobs s !! id = Some j → j_sched j = Some sc → (VJ (st_ghost s) id j sc → VJ (st_ghost s) id j sc') → VInv (put_sched s id sc').
Proof.
  intros Hi Hj Hs Hv. eapply VInv_replace; [exact Hi|done|intros; by apply put_other|].
  intros j'. rewrite put_lookup, Hj. simpl. intros [= <-]. unfold VOK. simpl.
  apply (VJ_job _ _ j); [apply jsame_set_sched|by left|]. apply Hv.
  pose proof (Hi id j Hj) as Hok. unfold VOK in Hok. by rewrite Hs in Hok.
Qed.

Lemma VInv_iter_begin s id s' : VInv s → do_iter_begin s id = Some s' → VInv s'.
Proof.
  intros Hi. unfold do_iter_begin, with_sched, get_job. destruct (st_jobs s !! id) as [j|] eqn:Hj; [|done].
  destruct (j_sched j) as [sc|] eqn:Hs; [|done]. destruct (sc_phase sc); try done. intros [= <-].
  eapply VInv_put; [done|exact Hj|exact Hs|]. apply VJ_core; try done; [|intros m Hm; by left]. simpl.
  destruct (sc_cancelled sc); [auto|done].
Qed.

(** checkStatus marks a stage canceled only because of a failed or canceled dependency *)
Lemma check_status_cancel sc j n :
  snd (check_status sc j n) = true →
  ∃ d, (stage_status sc d = Some Error ∧ task_allow j d = false) ∨ stage_status sc d = Some Canceled.
Proof.
  unfold check_status.
  assert (Hgen : ∀ deps acc,
    snd (fold_left (fun acc d =>
      match stage_status sc d with
      | Some Done | Some Skipped => acc
      | Some Error => let allow := match find_task j d with Some t => td_allow (jt_def t) | None => false end in
                      if allow then acc else (false, true)
      | Some Canceled => (false, true)
      | _ => (false, snd acc)
      end) deps acc) = true →
    snd acc = true ∨ ∃ d, (stage_status sc d = Some Error ∧ task_allow j d = false) ∨ stage_status sc d = Some Canceled).
  { induction deps as [|d ds IH]; intros acc; simpl; [by left|]. intros H. apply IH in H as [H|H]; [|by right].
    destruct (stage_status sc d) as [[]|] eqn:Hd; simpl in H; try (by left).
    - fold (task_allow j d) in H. destruct (task_allow j d) eqn:Ha; [by left|]. right. exists d. by left.
    - right. exists d. by right. }
  intros H. apply Hgen in H as [H|H]; done.
Qed.

Lemma VInv_visit s id n s' : VInv s → SInv s → do_visit s id n = Some s' → VInv s'.
Proof.
  intros Hi Hsi. unfold do_visit, with_sched, get_job. destruct (st_jobs s !! id) as [j|] eqn:Hj; [|done].
  destruct (j_sched j) as [sc|] eqn:Hs; [|done]. destruct (sc_phase sc) as [|todo|] eqn:Hph; try done.
  destruct (mem n todo); [|done].
  assert (Hvj : VJ (st_ghost s) id j sc) by (pose proof (Hi id j Hj) as Hok; unfold VOK in Hok; by rewrite Hs in Hok).
  assert (Hsj : SJ j sc) by (pose proof (Hsi id j Hj) as Hok; unfold SOK in Hok; by rewrite Hs in Hok).
  assert (Hsame : VInv (put_sched s id (set_phase sc (match remove_name n todo with [] => if is_done sc then PExited else PTop | _ => PScan (remove_name n todo) end)))).
  { eapply VInv_put; [done|exact Hj|exact Hs|]. apply VJ_core; try done; [|intros m Hm; by left]. simpl.
    destruct (remove_name n todo); [|done]. destruct (is_done sc) eqn:Hd; [auto|done]. }
  destruct (stage_status sc n) as [[]|] eqn:Hst; try (intros [= <-]; apply Hsame).
  destruct (check_status sc j n) as [ready cancel] eqn:Hcs. destruct ready.
  - intros [= <-].
    destruct (hsc_job_v s id n Running j Hj (sj_live _ _ Hsj)) as (j1 & Hl1 & Ht1 & Hs1 & Hc1 & Hr1 & Hcc1).
    eapply VInv_replace; [exact Hi| | |].
    + intros o. simpl. by rewrite hsc_ghost.
    + intros id' Hne. rewrite put_other by done. by apply hsc_other.
    + intros j'. rewrite put_lookup, Hl1. simpl. intros [= <-]. unfold VOK. simpl. rewrite hsc_ghost.
      apply (VJ_job _ _ j); [|left; simpl; lia|].
      { destruct (jsame_hsc j j1 n Running Ht1) as (A & B & C & D); [congruence|congruence|]. split; [done|]. split; [|simpl; split; congruence].
        intros m. rewrite <- B. unfold task_allow, find_task. done. }
      eapply (VJ_launch _ _ j sc _ n); try done. simpl.
      destruct (remove_name n todo); [|done]. match goal with |- context [if ?c then _ else _] => destruct c eqn:Hd end; [|done]. intros _. exact Hd.
  - destruct cancel; intros [= <-]; [|apply Hsame].
    eapply VInv_put; [done|exact Hj|exact Hs|]. intros _. eapply (VJ_cancel_stage _ _ j sc _ n); try done.
    + simpl. destruct (remove_name n todo); [|done]. match goal with |- context [if ?c then _ else _] => destruct c eqn:Hd end; [|done]. intros _. exact Hd.
    + apply (check_status_cancel sc j n). by rewrite Hcs.
Qed.

(** the stage goroutine stores its result, possibly after task notifications changed the job record ([s1], [j1]) *)
Lemma VInv_stage_end_gen s s1 id n r j j1 sc :
  VInv s → SInv s → st_jobs s !! id = Some j → j_sched j = Some sc →
  (∀ o, o ∈ st_ghost s → o ∈ st_ghost s1) →
  (∀ id', id' ≠ id → st_jobs s1 !! id' = st_jobs s !! id') →
  st_jobs s1 !! id = Some j1 → j_sched j1 = Some sc → jsame j j1 →
  ((j_cancels j1 ≤ j_cancels j)%nat ∨ (∃ e, r = Some e ∧ task_allow j n = false) ∨ sc_ctx sc = true) →
  n ∈ sc_entry sc ∨ n ∈ sc_running sc →
  (r = None → ran_ok (st_ghost s1) id n) → (∀ e, r = Some e → task_allow j n = true → sc_ctx sc = true) →
  VInv (stage_end s1 id n r).
Proof.
  intros Hi Hsi Hj Hs Hg Ho Hj1 Hs1 Hsame Hcn Hn Hok Hal.
  assert (Hvj : VJ (st_ghost s) id j sc) by (pose proof (Hi id j Hj) as H; unfold VOK in H; by rewrite Hs in H).
  assert (Hsj : SJ j sc) by (pose proof (Hsi id j Hj) as H; unfold SOK in H; by rewrite Hs in H).
  unfold stage_end, get_job. rewrite Hj1, Hs1.
  eapply VInv_replace; [exact Hi|exact Hg| |].
  - intros id' Hne. rewrite put_other by done. by apply Ho.
  - intros j'. rewrite put_lookup, Hj1. simpl. intros [= <-]. unfold VOK. simpl.
    set (sc' := Sched _ _ _ _ _ _ _ _).
    assert (Hend : VJ (st_ghost s1) id j sc').
    { eapply (VJ_stage_end _ _ j sc sc' n r); try done.
      - by apply (sj_run _ _ Hsj).
      - by eapply VJ_ghost. }
    apply (VJ_job _ _ j); [|clear Hend|exact Hend].
    + destruct Hsame as (A & B & C & D). split; [done|]. split; [|done]. intros m. rewrite <- B. unfold task_allow, find_task. done.
    + destruct Hcn as [Hle|[(e & -> & Hna)|Hctx]]; [left; simpl; lia| |by right; right; right; right].
      right. right. right. left. right. exists n, e. split.
      * simpl. apply elem_of_app. right. left.
      * destruct Hsame as (_ & B & _). rewrite <- Hna, <- (B n). unfold task_allow, find_task. done.
Qed.

Lemma jsame_refl j : jsame j j.
Proof. by split. Qed.

Lemma VInv_run_begin s id n s' : AInv s → VInv s → SInv s → do_run_begin s id n = Some s' → VInv s'.
Proof.
  intros Ha Hi Hsi. unfold do_run_begin, with_sched, get_job. destruct (st_jobs s !! id) as [j|] eqn:Hj; [|done].
  destruct (j_sched j) as [sc|] eqn:Hs; [|done]. destruct (mem n (sc_entry sc)) eqn:Hmem; [|done].
  apply mem_elem in Hmem.
  destruct (sc_ctx sc) eqn:Hctx.
  - intros [= <-]. apply (VInv_stage_end_gen s _ id n _ j j sc Hi Hsi Hj Hs).
    + intros o Ho. by right.
    + done.
    + done.
    + done.
    + apply jsame_refl.
    + by right; right.
    + by left.
    + done.
    + done.
  - destruct (match find_task j n with Some t => td_empty (jt_def t) | None => true end).
    + intros [= <-]. apply (VInv_stage_end_gen s _ id n _ j j sc Hi Hsi Hj Hs).
      * intros o Ho. simpl. right. by right.
      * done.
      * done.
      * done.
      * apply jsame_refl.
      * by left.
      * by left.
      * intros _. unfold ran_ok. simpl. split; [right; left|left].
      * done.
    + intros [= <-].
      set (sc1 := Sched (sc_stages sc) (sc_cancelled sc) false (sc_phase sc) (remove_name n (sc_entry sc)) (sc_running sc ++ [n]) (sc_lasterr sc) (sc_ending sc)).
      set (s0 := put_sched (log (add_log_dir s id) (ORunBegan id n)) id sc1).
      assert (H1 : VInv s0).
      { eapply (VInv_put _ id j sc); [apply VInv_log; by apply (VInv_same s)|done|done|]. apply VJ_core; try done; [simpl; auto|].
        simpl. intros m Hm. apply elem_of_app in Hm as [Hm|Hm]; [by left|]. apply elem_of_list_singleton in Hm as ->. right. left. }
      assert (Hj0 : st_jobs s0 !! id = Some (set_sched j (Some sc1))) by (unfold s0; rewrite put_lookup; simpl; by rewrite Hj).
      assert (Hst : is_Some (j_start (set_sched j (Some sc1)))) by (simpl; by eapply AInv_started).
      match goal with |- VInv (handle_task_change _ id n ?t) =>
        destruct (htc_effect_v s0 id n t _ Hj0 Hst) as (Hg & Ho & j' & Hl & Hs' & Hv & Hst' & Hc & Hr & Hq) end.
      eapply VInv_replace; [exact H1|by rewrite Hg|exact Ho|].
      intros j''. rewrite Hl. intros [= <-]. rewrite Hg. eapply VOK_keep; [exact Hs'|exact Hv| | | | |by apply (H1 id)].
      * by rewrite Hst'.
      * left. rewrite Hq; done.
      * by rewrite Hc.
      * exact Hr.
Qed.

Lemma jsame_trans j1 j2 j3 : jsame j1 j2 → jsame j2 j3 → jsame j1 j3.
Proof.
  intros (A1 & B1 & C1 & D1) (A2 & B2 & C2 & D2). split; [congruence|]. split; [intros n; by rewrite B2|]. split; auto.
Qed.

Lemma htc_v s0 id n t j0 :
  st_jobs s0 !! id = Some j0 → is_Some (j_start j0) →
  st_ghost (handle_task_change s0 id n t) = st_ghost s0 ∧
  (∀ id', id' ≠ id → st_jobs (handle_task_change s0 id n t) !! id' = st_jobs s0 !! id') ∧
  ∃ j1, st_jobs (handle_task_change s0 id n t) !! id = Some j1 ∧ j_sched j1 = j_sched j0 ∧ jsame j0 j1 ∧ is_Some (j_start j1)
        ∧ (tn_err t = None → tn_errored t = false → j_cancels j1 = j_cancels j0).
Proof.
  intros Hj Hst. destruct (htc_effect_v s0 id n t j0 Hj Hst) as (Hg & Ho & j' & Hl & Hs' & Hv & Hst' & Hc & Hr & Hq).
  split; [done|]. split; [done|]. exists j'. split; [done|]. split; [done|]. split; [|split; [by rewrite Hst'|done]].
  apply jsame_view; [done| |done]. by rewrite Hc.
Qed.

Lemma VInv_run_end s id n o s' : AInv s → VInv s → SInv s → do_run_end s id n o = Some s' → VInv s'.
Proof.
  intros Ha Hi Hsi. unfold do_run_end, with_sched, get_job. destruct (st_jobs s !! id) as [j|] eqn:Hj; [|done].
  destruct (j_sched j) as [sc|] eqn:Hs; [|done]. destruct (mem n (sc_running sc)) eqn:Hmem; [|done].
  apply mem_elem in Hmem.
  assert (Hst : is_Some (j_start j)) by (by eapply AInv_started).
  assert (Hbegan : ORunBegan id n ∈ st_ghost s).
  { pose proof (Hi id j Hj) as Hok. unfold VOK in Hok. rewrite Hs in Hok. by apply (v_running _ _ _ _ Hok). }
  fold (task_allow j n).
  (* one task notification after the log entry [ob] *)
  assert (Hone : ∀ ob t r,
    (tn_err t = None ∧ tn_errored t = false) ∨ (∃ e, r = Some e ∧ task_allow j n = false) ∨ sc_ctx sc = true →
    (r = None → ob = ORunEnded id n true) → (∀ e, r = Some e → task_allow j n = true → sc_ctx sc = true) →
    VInv (stage_end (handle_task_change (log s ob) id n t) id n r)).
  { intros ob t r Hq Hok Hal.
    destruct (htc_v (log s ob) id n t j Hj Hst) as (Hg & Ho & j1 & Hl & Hs1 & Hsame & _ & Hcq).
    apply (VInv_stage_end_gen s _ id n r j j1 sc Hi Hsi Hj Hs).
    - intros x Hx. rewrite Hg. by right.
    - exact Ho.
    - exact Hl.
    - by rewrite Hs1.
    - exact Hsame.
    - destruct Hq as [[H1 H2]|[H|H]]; [left; rewrite Hcq; done|by right; left|by right; right].
    - by right.
    - intros Hr. rewrite Hg. unfold ran_ok. simpl. rewrite (Hok Hr). split; [by right|left].
    - exact Hal. }
  destruct o as [|code|].
  - intros [= <-]. apply Hone; [by left|done|done].
  - destruct (task_allow j n) eqn:Hallow; intros [= <-].
    + (* two notifications *)
      set (ob := ORunEnded id n true).
      match goal with |- VInv (stage_end (handle_task_change (handle_task_change _ id n ?t1) id n ?t2) id n None) =>
        destruct (htc_v (log s ob) id n t1 j Hj Hst) as (Hg1 & Ho1 & j1 & Hl1 & Hs1 & Hsame1 & Hst1 & Hcq1);
        destruct (htc_v (handle_task_change (log s ob) id n t1) id n t2 j1 Hl1 Hst1) as (Hg2 & Ho2 & j2 & Hl2 & Hs2 & Hsame2 & _ & Hcq2) end.
      apply (VInv_stage_end_gen s _ id n None j j2 sc Hi Hsi Hj Hs).
      * intros x Hx. rewrite Hg2, Hg1. by right.
      * intros id' Hne. rewrite Ho2 by done. by apply Ho1.
      * exact Hl2.
      * by rewrite Hs2, Hs1.
      * by eapply jsame_trans.
      * left. rewrite Hcq2, Hcq1; done.
      * by right.
      * intros _. rewrite Hg2, Hg1. unfold ran_ok. simpl. split; [by right|left].
      * done.
    + apply Hone; [right; left; by exists EFail|done|]. intros e _ H. congruence.
  - destruct (sc_ctx sc) eqn:Hctx; [|done]. intros [= <-]. apply Hone; [by right; right|done|done].
Qed.

Lemma jsame_hsc_job j j1 n st x :
  j_tasks j1 = hsc_tasks n st (j_tasks j) → j_canceled j1 = j_canceled j → j_cancel_req j1 = j_cancel_req j → jsame j (set_sched j1 x).
Proof.
  intros Ht Hc Hr. eapply jsame_trans; [|apply jsame_set_sched]. apply (jsame_hsc j j1 n st Ht); congruence.
Qed.

Lemma VInv_notify s id n s' : VInv s → SInv s → do_notify s id n = Some s' → VInv s'.
Proof.
  intros Hi Hsi. unfold do_notify, with_sched, get_job. destruct (st_jobs s !! id) as [j|] eqn:Hj; [|done].
  destruct (j_sched j) as [sc|] eqn:Hs; [|done]. destruct (ending_of sc n) as [[r second]|] eqn:He; [|done].
  apply ending_of_in in He.
  assert (Hvj : VJ (st_ghost s) id j sc) by (pose proof (Hi id j Hj) as Hok; unfold VOK in Hok; by rewrite Hs in Hok).
  assert (Hsj : SJ j sc) by (pose proof (Hsi id j Hj) as Hok; unfold SOK in Hok; by rewrite Hs in Hok).
  pose proof (sj_live _ _ Hsj) as Hlive. pose proof (sj_end _ _ Hsj n r second He) as Hstat.
  fold (task_allow j n).
  (* the "done" notification *)
  assert (Hdone : note_status r second = Done → ∀ le, le = sc_lasterr sc →
            VInv (handle_stage_change (put_sched s id (drop_ending sc n [] le)) id n Done)).
  { intros Hns le ->. rewrite Hns in Hstat.
    destruct (hsc_job_v (put_sched s id (drop_ending sc n [] (sc_lasterr sc))) id n Done (set_sched j (Some (drop_ending sc n [] (sc_lasterr sc)))))
      as (j1 & Hl1 & Ht1 & Hs1 & Hc1 & Hr1 & Hcc1); [by rewrite put_lookup, Hj|done|].
    eapply VInv_replace; [exact Hi| | |].
    - intros o. by rewrite hsc_ghost.
    - intros id' Hne. rewrite hsc_other by done. by apply put_other.
    - intros j'. rewrite Hl1. intros [= <-]. unfold VOK. rewrite Hs1. simpl. rewrite hsc_ghost. simpl.
      apply (VJ_job _ _ j).
      + destruct (jsame_hsc j j1 n Done) as (A & B & C & D); [done|simpl in *; congruence|simpl in *; congruence|]. by split.
      + left. simpl in Hc1. lia.
      + eapply (VJ_notify_done _ _ j sc _ n); try done.
        * simpl. by rewrite app_nil_r.
        * intros e Hin. pose proof (sj_end _ _ Hsj n (Some e) false Hin) as H. simpl in H. congruence. }
  destruct r as [e|]; [destruct second|].
  - intros [= <-]. by apply Hdone.
  - simpl in Hstat.
    destruct (hsc_job_v s id n Error j Hj Hlive) as (j1 & Hl1 & Ht1 & Hs1 & Hc1 & Hr1 & Hcc1).
    destruct (task_allow j n) eqn:Hallow; intros [= <-].
    + eapply VInv_replace; [exact Hi| | |].
      * intros o. simpl. by rewrite hsc_ghost.
      * intros id' Hne. rewrite put_other by done. by apply hsc_other.
      * intros j'. rewrite put_lookup, Hl1. simpl. intros [= <-]. unfold VOK. simpl. rewrite hsc_ghost.
        apply (VJ_job _ _ j); [by eapply jsame_hsc_job|left; simpl; lia|].
        eapply (VJ_notify_allow _ _ j sc _ n e); try done.
    + eapply VInv_replace; [exact Hi| | |].
      * intros o. simpl. by rewrite hsc_ghost.
      * intros id' Hne. rewrite put_other by done. by apply hsc_other.
      * intros j'. rewrite put_lookup, Hl1. simpl. intros [= <-]. unfold VOK. simpl. rewrite hsc_ghost.
        apply (VJ_job _ _ j); [by eapply jsame_hsc_job|left; simpl; lia|].
        eapply (VJ_notify_fail _ _ j sc _ n e); try done. simpl. by rewrite app_nil_r.
  - intros [= <-]. by apply Hdone.
Qed.

Lemma VInv_cancel_deliver s id s' : VInv s → do_cancel_deliver s id = Some s' → VInv s'.
Proof.
  intros Hi. unfold do_cancel_deliver, get_job. destruct (st_jobs s !! id) as [j|] eqn:Hj; [|done].
  destruct (j_cancels j) as [|k] eqn:Hk; [done|].
  set (dec := fun j : job => _).
  destruct (j_sched j) as [sc|] eqn:Hs; intros [= <-].
  - apply VInv_log. eapply VInv_replace; [exact Hi|done| |].
    + intros id' Hne. rewrite put_other by done. simpl. by rewrite list_lookup_alter_ne.
    + intros j'. rewrite put_lookup. simpl. rewrite list_lookup_alter, Hj. simpl. intros [= <-]. unfold VOK. simpl.
      refine (VJ_cancel_deliver _ _ j _ sc (Sched (sc_stages sc) true true (sc_phase sc) (sc_entry sc) (sc_running sc) (sc_lasterr sc) (sc_ending sc)) eq_refl eq_refl eq_refl eq_refl eq_refl eq_refl eq_refl _ _ _).
      * split; [done|]. split; [|done]. intros m. unfold task_allow, find_task. done.
      * lia.
      * pose proof (Hi id j Hj) as Hok. unfold VOK in Hok. by rewrite Hs in Hok.
  - apply VInv_upd; [done|]. intros j0. rewrite Hj. intros [= <-] Hok. unfold VOK in *. rewrite Hs in Hok. simpl. rewrite Hs.
    intros Hst. specialize (Hok Hst). lia.
Qed.

Lemma init_sched_status j n st : stage_status (init_sched j) n = Some st → st = Waiting.
Proof.
  unfold stage_status, init_sched. simpl. destruct (find _ _) as [[k x]|] eqn:E; [|done]. simpl. intros [= <-].
  apply find_some in E as [Hin _]. apply in_map_iff in Hin as (t & [= <- <-] & _). done.
Qed.

Lemma VJ_init g id j j' :
  j_tasks j' = j_tasks j → j_cancels j' = 0%nat → VJ g id j' (init_sched j).
Proof.
  intros Ht Hc. split.
  - unfold init_sched. simpl. rewrite map_map. simpl. by rewrite Ht.
  - intros n Hn. apply init_sched_status in Hn. done.
  - intros n Hn. apply init_sched_status in Hn. done.
  - intros n e b Hin. unfold init_sched in Hin. simpl in Hin. by apply elem_of_nil in Hin.
  - intros n Hn. apply init_sched_status in Hn. done.
  - unfold init_sched. simpl. destruct (j_tasks j); simpl; [by right|done].
  - unfold init_sched. simpl. rewrite Hc. intros [H|[H|H]]; [lia|done|done].
  - intros n Hn. apply init_sched_status in Hn. done.
  - intros n Hn. unfold init_sched in Hn. simpl in Hn. by apply elem_of_nil in Hn.
Qed.

Lemma VInv_try_start s id :
  VInv s → (∀ j, st_jobs s !! id = Some j → j_canceled j = false → j_start j = None ∧ j_sched j = None) → VInv (try_start s id).1.
Proof.
  intros Hi Hun. unfold try_start, find_job, get_job. destruct (st_jobs s !! id) as [j|] eqn:Hj; [|done].
  destruct (j_removed j) eqn:Hr; [done|]. destruct (j_canceled j) eqn:Hc; [done|].
  destruct (Hun j eq_refl Hc) as [Hst Hsc].
  pose proof (Hi id j Hj) as Hok. unfold VOK in Hok. rewrite Hsc in Hok. specialize (Hok Hst).
  destruct (graph_ok j); cbn [fst].
  - apply VInv_log. apply VInv_upd; [by apply (VInv_same s)|]. simpl. intros j0. rewrite Hj. intros [= <-] _.
    unfold VOK. simpl. by apply VJ_init.
  - apply VInv_log. apply VInv_upd; [by apply (VInv_same s)|]. intros j0 _ Hok0.
    eapply VOK_keep; [| | | | | |exact Hok0]; try done. by left.
Qed.

Lemma VInv_dequeue_loop fuel s p : VInv s → Hp s p → VInv (dequeue_loop fuel s p).
Proof.
  revert s. induction fuel as [|x fuel IH]; intros s Hi [Hnd Hw]; simpl; [done|].
  destruct (wl_get (st_wait s) p) as [|h rest] eqn:Hwl; [done|].
  destruct (get_job s h) as [j|] eqn:Hj; [|done].
  destruct (bool_decide _ && negb (j_timer j)); [|done].
  apply NoDup_cons in Hnd as [Hh Hnd].
  apply IH.
  - apply VInv_try_start; [by apply (VInv_same s)|]. simpl. intros j0 Hj0 _.
    destruct (Hw h) as (jh & Hjh & H1 & H2); [by left|]. assert (j0 = jh) as -> by congruence. done.
  - split.
    + rewrite try_start_wait. simpl. by rewrite wl_get_set_eq.
    + intros id. rewrite try_start_wait. simpl. rewrite wl_get_set_eq. intros Hin.
      destruct (Hw id) as (ji & Hji & H1 & H2); [by right|]. exists ji. split; [|done].
      rewrite try_start_other; [done|]. intros ->. done.
Qed.

Lemma VInv_dequeue s p : VInv s → Hp s p → VInv (dequeue s p).
Proof. apply VInv_dequeue_loop. Qed.

(** CancelJob / the forced shutdown: the request is recorded on a running job *)
Lemma VInv_cancel s id : VInv s → (∀ p, Hp s p) → VInv (cancel_job s id true).1.
Proof.
  intros Hi HW. unfold cancel_job, find_job, get_job. destruct (st_jobs s !! id) as [j|] eqn:Hj; [|done].
  destruct (j_removed j); [done|]. destruct (j_canceled j); [done|]. destruct (j_completed j); [done|].
  destruct (j_start j) eqn:Hst.
  - destruct (j_sched j) eqn:Hs; [|done]. simpl. apply VInv_upd; [done|]. intros j0. rewrite Hj. intros [= <-] Hok.
    eapply VOK_keep; [| | | | | |exact Hok]; try done.
    + right. split; [by rewrite Hs|]. left. simpl. apply orb_true_r.
    + simpl. intros ->. done.
  - cbn [fst]. apply (VInv_same (dequeue (log (set_wait (upd_job s id mark_canceled) (j_pipe j)
        (remove_id id (wl_get (st_wait (upd_job s id mark_canceled)) (j_pipe j)))) (OFinished id true None)) (j_pipe j))); [done|done|].
    apply VInv_dequeue.
    + apply VInv_log. apply (VInv_same (upd_job s id mark_canceled)); [done|done|].
      apply VInv_upd; [done|]. intros j0 _ Hok. eapply VOK_keep; [| | | | | |exact Hok]; try done.
      * unfold tview. simpl. by rewrite map_map.
      * by left.
    + eapply (Hp_mono s); [| |apply HW]; simpl; rewrite wl_get_set_eq.
      * apply NoDup_remove_id. apply HW.
      * intros i Hin. apply elem_of_remove_id in Hin as [Hin Hne]. split; [done|]. intros ji Hji.
        exists ji. rewrite list_lookup_alter_ne by done. done.
Qed.

Lemma VInv_schedule s p v u : VInv s → (∀ q, Hp s q) → VInv (do_schedule s p v u).1.
Proof.
  intros Hi HW. unfold do_schedule. destruct (st_shut s); [done|]. destruct (lookup_def (st_defs s) p) as [d|]; [|by apply VInv_log].
  set (nj := new_job s p d v u).
  set (s1 := log (request_persist (set_jobs s (st_jobs s ++ [nj]))) (OAccepted (length (st_jobs s)) p)).
  assert (H1 : VInv s1).
  { apply VInv_log. apply (VInv_same (set_jobs s (st_jobs s ++ [nj]))); [done|done|]. by apply VInv_append. }
  assert (Hstart : VInv (start_job s1 (length (st_jobs s)) p)).
  { unfold start_job. destruct (try_start s1 (length (st_jobs s))) as [s' failed] eqn:Hts.
    assert (Hs' : s' = (try_start s1 (length (st_jobs s))).1) by (by rewrite Hts).
    assert (H2 : VInv s').
    { rewrite Hs'. apply VInv_try_start; [done|]. simpl. intros j0. rewrite lookup_app_r by lia. rewrite Nat.sub_diag. simpl. intros [= <-] _. done. }
    destruct failed; [|done]. apply VInv_dequeue; [done|].
    eapply (Hp_mono s); [| |apply HW]; rewrite Hs', try_start_wait; simpl.
    - apply HW.
    - intros i Hin. split; [done|]. intros ji Hji. exists ji. split; [|done].
      rewrite try_start_other; [|apply lookup_lt_Some in Hji; lia]. simpl. by rewrite lookup_app_l by (by eapply lookup_lt_Some). }
  destruct (resolve_action s p false); cbn [fst]; try done; try (by apply VInv_log).
  destruct (last _) as [prev|]; [|done]. cbn [fst]. apply VInv_log.
  match goal with |- VInv (set_wait ?x _ _) => apply (VInv_same x); [done|done|] end.
  apply VInv_upd; [done|]. intros j0 _ Hok. eapply VOK_keep; [| | | | | |exact Hok]; try done. by left.
Qed.

Lemma VInv_fire s id s' : VInv s → (∀ q, Hp s q) → do_fire_timer s id = Some s' → VInv s'.
Proof.
  intros Hi HW. unfold do_fire_timer. destruct (get_job s id) as [j|] eqn:Hj; [|done]. destruct (timer_due s j); [|done].
  assert (H1 : VInv (upd_job s id clear_timer)).
  { apply VInv_upd; [done|]. intros j0 _ Hok. eapply VOK_keep; [| | | | | |exact Hok]; try done. by left. }
  destruct (find_job s id); [|by intros [= <-]]. destruct (j_canceled j); intros [= <-]; [done|].
  apply VInv_dequeue; [done|]. eapply (Hp_mono s); [| |apply HW]; simpl.
  - apply HW.
  - intros i Hin. split; [done|]. intros ji Hji. destruct (decide (i = id)) as [->|Hne].
    + rewrite list_lookup_alter, Hji. simpl. eexists. split; [done|]. done.
    + exists ji. by rewrite list_lookup_alter_ne.
Qed.

Lemma VInv_sched_return s id s' : AInv s → VInv s → (∀ q, Hp s q) → do_sched_return s id = Some s' → VInv s'.
Proof.
  intros Ha Hi HW. unfold do_sched_return, with_sched. destruct (get_job s id) as [j|] eqn:Hj; [|done].
  destruct (j_sched j) as [sc|] eqn:Hs; [|done].
  destruct (sc_phase sc); try done. destruct (sc_entry sc); try done. destruct (sc_running sc); try done. destruct (sc_ending sc); try done.
  assert (H1 : VInv (upd_job s id (complete (st_now s) (sc_lasterr sc)))).
  { apply VInv_upd; [done|]. intros j0 Hj0 _. unfold VOK. simpl. intros Hst. exfalso.
    unfold get_job in Hj. assert (j0 = j) as -> by congruence.
    destruct (AInv_started s id j sc Ha Hj Hs) as [t Ht]. congruence. }
  destruct (j_removed j); intros [= <-]; [done|].
  match goal with |- VInv (request_persist ?x) => apply (VInv_same x); [done|done|] end.
  apply VInv_dequeue; [by apply VInv_log|].
  eapply (Hp_mono s); [| |apply HW]; simpl.
  - apply HW.
  - intros i Hin. split; [done|]. intros ji Hji. destruct (decide (i = id)) as [->|Hne].
    + destruct (HW (j_pipe j)) as [_ Hw]. destruct (Hw id Hin) as (jw & Hjw & _ & Hnone). unfold get_job in Hj. congruence.
    + exists ji. by rewrite list_lookup_alter_ne.
Qed.

Lemma VInv_save s : VInv s → VInv (do_save s).
Proof.
  intros Hi id j'. unfold do_save. cbn [st_jobs st_ghost]. rewrite list_lookup_imap.
  destruct (st_jobs s !! id) as [j|] eqn:Hj; [|done]. simpl. intros [= <-].
  pose proof (Hi id j Hj) as Hok.
  apply (VOK_ghost (st_ghost s)); [intros o Ho; apply elem_of_app; by right|].
  destruct (existsb _ _); [|done].
  eapply VOK_keep; [| | | | | |exact Hok]; try done. by left.
Qed.

Lemma VInv_restart s s' : do_restart s = Some s' → VInv s'.
Proof.
  unfold do_restart. destruct (st_shutg s); [done|]. destruct (all_quiet s); [|done]. intros [= <-].
  intros id j'. cbn [st_jobs]. rewrite list_lookup_imap. destruct (st_jobs s !! id) as [j|]; [|done]. simpl.
  destruct (find _ _) as [pj|]; intros [= <-]; unfold VOK; simpl; done.
Qed.

Lemma VInv_shutdown_begin s s' : VInv s → do_shutdown_begin s = Some s' → VInv s'.
Proof.
  intros Hi. unfold do_shutdown_begin. destruct (st_shutg s); [done|]. destruct (st_shut s); [done|]. intros [= <-].
  intros id j'. cbn [st_jobs st_ghost]. rewrite list_lookup_imap. destruct (st_jobs s !! id) as [j|] eqn:Hj; [|done]. simpl. intros [= <-].
  pose proof (Hi id j Hj) as Hok. destruct (existsb _ _); [|done]. eapply VOK_keep; [| | | | | |exact Hok]; try done. by left.
Qed.

Lemma vcancel_nw s id : VInv s → NW s → VInv (cancel_job s id true).1.
Proof.
  intros Hi Hnw. unfold cancel_job, find_job, get_job. destruct (st_jobs s !! id) as [j|] eqn:Hj; [|done].
  destruct (j_removed j) eqn:Hr; [done|]. destruct (j_canceled j) eqn:Hc; [done|]. destruct (j_completed j); [done|].
  destruct (Hnw id j Hj Hr Hc) as [t Ht]. rewrite Ht. destruct (j_sched j) eqn:Hs; [|done]. simpl.
  apply VInv_upd; [done|]. intros j0. rewrite Hj. intros [= <-] Hok. eapply VOK_keep; [| | | | | |exact Hok]; try done.
  - right. split; [by rewrite Hs|]. left. simpl. apply orb_true_r.
  - simpl. intros ->. done.
Qed.

Lemma VInv_fold_cancel l s : AInv s → VInv s → NW s → VInv (fold_left (fun s id => (cancel_job s id true).1) l s).
Proof.
  revert s. induction l as [|x l IH]; intros s Ha Hi Hnw; simpl; [done|].
  destruct (cancel_nw s x true Ha Hnw) as [H1 H2]. apply IH; [done| |done]. by apply vcancel_nw.
Qed.

Lemma VInv_shutdown_force s s' : AInv s → VInv s → RInv (abs s) → shutg_ok s → do_shutdown_force s = Some s' → VInv s'.
Proof.
  intros Ha Hi Hinv Hok. unfold do_shutdown_force. destruct (st_shutg s) as [[]|] eqn:Hg; try done.
  destruct (any_running s); [|done]. intros [= <-].
  set (x := fold_left (fun s id => (cancel_job s id true).1) (seq 0 (length (st_jobs s))) s).
  apply (VInv_same x); [done|done|].
  apply VInv_fold_cancel; [done|done|]. apply NW_of_RInv; [done|]. apply Hok. by rewrite Hg.
Qed.

Lemma VInv_shutdown_return s s' : VInv s → do_shutdown_return s = Some s' → VInv s'.
Proof.
  intros Hi. unfold do_shutdown_return. destruct (st_shutg s); [|done]. destruct (_ && _); [|done]. intros [= <-].
  apply (VInv_same (do_save s)); [done|done|]. by apply VInv_save.
Qed.

Lemma VInv_step s e s' r : reach s → VInv s → step s e = Some (s', r) → VInv s'.
Proof.
  intros Hr Hi. pose proof (reach_inv s Hr) as Hinv. pose proof (reach_AInv s Hr) as Ha. pose proof (reach_SInv s Hr) as Hsi.
  assert (HW : ∀ q, Hp (clear_req s) q) by (intros q; by apply Hp_of_RInv).
  assert (Hi' : VInv (clear_req s)) by (by apply (VInv_same s)).
  assert (Ha' : AInv (clear_req s)) by (by apply (AInv_same s)).
  assert (Hsi' : SInv (clear_req s)) by (by apply (SInv_same s)).
  unfold step. destruct e; cbn [fmap option_fmap option_map].
  - intros [= Heq]. replace s' with (do_schedule (clear_req s) p v user).1 by (by rewrite Heq). by apply VInv_schedule.
  - intros [= Heq]. replace s' with (cancel_job (clear_req s) id true).1 by (by rewrite Heq). by apply VInv_cancel.
  - intros [= <- _]. by apply (VInv_same s).
  - destruct (do_fire_timer (clear_req s) id) as [s1|] eqn:Hf; [|done]. intros [= <- _]. by eapply VInv_fire.
  - intros [= <- _]. by apply (VInv_same s).
  - destruct (do_iter_begin (clear_req s) id) as [s1|] eqn:Hf; [|done]. intros [= <- _]. by eapply VInv_iter_begin.
  - destruct (do_visit (clear_req s) id n) as [s1|] eqn:Hf; [|done]. intros [= <- _]. by eapply VInv_visit.
  - destruct (do_run_begin (clear_req s) id n) as [s1|] eqn:Hf; [|done]. intros [= <- _]. by eapply VInv_run_begin.
  - destruct (do_run_end (clear_req s) id n o) as [s1|] eqn:Hf; [|done]. intros [= <- _]. by eapply VInv_run_end.
  - destruct (do_notify (clear_req s) id n) as [s1|] eqn:Hf; [|done]. intros [= <- _]. by eapply VInv_notify.
  - destruct (do_cancel_deliver (clear_req s) id) as [s1|] eqn:Hf; [|done]. intros [= <- _]. by eapply VInv_cancel_deliver.
  - destruct (do_sched_return (clear_req s) id) as [s1|] eqn:Hf; [|done]. intros [= <- _]. by eapply VInv_sched_return.
  - intros [= <- _]. by apply VInv_save.
  - destruct (do_restart (clear_req s)) as [s1|] eqn:Hf; [|done]. intros [= <- _]. by eapply VInv_restart.
  - destruct (do_shutdown_begin (clear_req s)) as [s1|] eqn:Hf; [|done]. intros [= <- _]. by eapply VInv_shutdown_begin.
  - destruct (do_shutdown_force (clear_req s)) as [s1|] eqn:Hf; [|done]. intros [= <- _].
    eapply VInv_shutdown_force; [exact Ha'|exact Hi'|exact Hinv| |exact Hf]. apply (reach_shutg_ok s Hr).
  - destruct (do_shutdown_return (clear_req s)) as [s1|] eqn:Hf; [|done]. intros [= <- _]. by eapply (VInv_shutdown_return (clear_req s)).
Qed.

Lemma VInv_init ds : VInv (init ds).
Proof. intros id j H. simpl in H. by destruct id. Qed.

Lemma VInv_init_from ds pjs : VInv (init_from ds pjs).
Proof.
  intros id j. simpl. rewrite list_lookup_fmap. destruct (pjs !! id) as [pj|]; [|done]. intros [= <-]. unfold VOK. simpl. done.
Qed.

Theorem reach_VInv s : reach s → VInv s.
Proof.
  induction 1.
  - apply VInv_init.
  - apply VInv_init_from.
  - by eapply VInv_step.
Qed.

(** ** the consequences *)
Lemma stage_status_is_Some sc n : n ∈ map fst (sc_stages sc) → is_Some (stage_status sc n).
Proof.
  unfold stage_status. intros Hin. apply elem_of_list_fmap in Hin as ([k x] & -> & Hin). simpl.
  destruct (find _ _) as [y|] eqn:E; [by eexists|]. exfalso.
  apply elem_of_list_In in Hin. pose proof (find_none _ _ E _ Hin) as H. simpl in H. by rewrite Nat.eqb_refl in H.
Qed.

(** C08: when a job's scheduler returns and the verdict is "not canceled, no error", every stage is done and every task's
    commands began and ended successfully (or failed while marked allow_failure) in this history *)
Theorem verdict_sound s id s' r j sc :
  reach s → step s (EvSchedReturn id) = Some (s', r) → get_job s id = Some j → j_sched j = Some sc →
  j_canceled j = false → j_cancel_req j = false → sc_lasterr sc = None →
  ∀ t, t ∈ j_tasks j → stage_status sc (jt_name t) = Some Done ∧ ran_ok (st_ghost s) id (jt_name t).
Proof.
  intros Hr Hstep Hj Hs Hc Hq He t Ht.
  pose proof (reach_VInv s Hr id j Hj) as Hok. unfold VOK in Hok. rewrite Hs in Hok.
  unfold step in Hstep. simpl in Hstep. unfold do_sched_return, with_sched in Hstep.
  change (get_job (clear_req s) id) with (get_job s id) in Hstep. rewrite Hj, Hs in Hstep.
  destruct (sc_phase sc) eqn:Hph; try done. destruct (sc_entry sc) eqn:Hen; try done. destruct (sc_running sc) eqn:Hru; try done.
  destruct (sc_ending sc) eqn:Hend; try done.
  destruct Hok as [A B C D E F G H I].
  assert (Hnf : ¬ failed j sc).
  { intros [Hf|(n & e & Hin & _)]; [done|]. rewrite Hend in Hin. by apply elem_of_nil in Hin. }
  assert (Hquiet : sc_ctx sc = false ∧ sc_cancelled sc = false).
  { destruct (sc_ctx sc) eqn:H1; [|destruct (sc_cancelled sc) eqn:H2; [|done]].
    - destruct G as [?|[?|?]]; [auto|congruence|congruence|done].
    - destruct G as [?|[?|?]]; [auto|congruence|congruence|done]. }
  destruct Hquiet as [Hctx Hcan].
  assert (Hd : is_done sc = true) by (destruct (F Hph); [congruence|done]).
  assert (Hnoerr : ∀ m, stage_status sc m ≠ Some Error).
  { intros m Hm. destruct (C m Hm) as [[e Hin]|[_ Hle]]; [|done]. rewrite Hend in Hin. by apply elem_of_nil in Hin. }
  assert (Hin : jt_name t ∈ map fst (sc_stages sc)).
  { rewrite A. apply elem_of_list_fmap. by exists t. }
  destruct (stage_status_is_Some _ _ Hin) as [st Hst].
  destruct (is_done_status _ _ _ Hd Hst) as [Hw Hrn].
  assert (st = Done) as ->.
  { destruct st; try done.
    - by destruct (H _ Hst).
    - by destruct (Hnoerr _ Hst).
    - destruct (E _ Hst) as (d & Hd' & _). by destruct (Hnoerr _ Hd'). }
  split; [done|]. destruct (B _ Hst) as [?|?]; [done|congruence].
Qed.

(** C02: ... and each task of such a job began executing exactly once *)
Lemma began_elem g id n : ORunBegan id n ∈ g → (1 ≤ began g id n)%nat.
Proof.
  unfold began. intros Hin. induction g as [|o g IH]; [by apply elem_of_nil in Hin|]. simpl.
  apply elem_of_cons in Hin as [<-|Hin].
  - simpl. rewrite !Nat.eqb_refl. simpl. lia.
  - specialize (IH Hin). destruct (is_began id n o); simpl; lia.
Qed.

Theorem successful_job_ran_each_task_once s id s' r j sc :
  reach s → step s (EvSchedReturn id) = Some (s', r) → get_job s id = Some j → j_sched j = Some sc →
  j_canceled j = false → j_cancel_req j = false → sc_lasterr sc = None →
  ∀ t, t ∈ j_tasks j → began (st_ghost s) id (jt_name t) = 1%nat.
Proof.
  intros Hr Hstep Hj Hs Hc Hq He t Ht.
  destruct (verdict_sound s id s' r j sc Hr Hstep Hj Hs Hc Hq He t Ht) as [_ [Hb _]].
  pose proof (at_most_once s id (jt_name t) Hr). pose proof (began_elem _ _ _ Hb). lia.
Qed.

(** the verdict as reported after the return: the job record of the successor state *)
Theorem reported_verdict_sound s id s' r j j' :
  reach s → step s (EvSchedReturn id) = Some (s', r) → get_job s id = Some j → get_job s' id = Some j' →
  j_completed j' = true ∧
  (j_canceled j' = false → j_lasterr j' = None →
   ∀ t, t ∈ j_tasks j' → ran_ok (st_ghost s) id (jt_name t) ∧ began (st_ghost s) id (jt_name t) = 1%nat).
Proof.
  intros Hr Hstep Hj Hj'. pose proof (reach_SInv s Hr) as Hi. pose proof (reach_inv s Hr) as Hinv.
  pose proof Hstep as Hstep0.
  unfold step in Hstep. simpl in Hstep. destruct (do_sched_return (clear_req s) id) as [s1|] eqn:Hf; [|done]. injection Hstep as <- _.
  revert Hf. unfold do_sched_return, with_sched. change (get_job (clear_req s) id) with (get_job s id). rewrite Hj.
  destruct (j_sched j) as [sc|] eqn:Hs; [|done].
  destruct (sc_phase sc); try done. destruct (sc_entry sc) eqn:He; try done. destruct (sc_running sc) eqn:Hru; try done.
  destruct (sc_ending sc) eqn:Hen; try done.
  pose proof (Hi id j Hj) as Hok. unfold SOK in Hok. rewrite Hs in Hok.
  assert (Hc : ∀ s2, get_job s2 id = Some j' → st_jobs s2 !! id = Some (complete (st_now (clear_req s)) (sc_lasterr sc) j) →
     j_completed j' = true ∧
     (j_canceled j' = false → j_lasterr j' = None →
      ∀ t, t ∈ j_tasks j' → ran_ok (st_ghost s) id (jt_name t) ∧ began (st_ghost s) id (jt_name t) = 1%nat)).
  { intros s2 H1 H2. unfold get_job in H1. assert (j' = complete (st_now (clear_req s)) (sc_lasterr sc) j) as -> by congruence.
    split; [done|]. simpl. intros Hcan Hle t Ht.
    apply orb_false_iff in Hcan as [Hcan Hreq]. apply orb_false_iff in Hcan as [Hcan _].
    split.
    - by destruct (verdict_sound s id _ r j sc Hr Hstep0 Hj Hs Hcan Hreq Hle t Ht).
    - by apply (successful_job_ran_each_task_once s id _ r j sc Hr Hstep0 Hj Hs Hcan Hreq Hle t Ht). }
  destruct (j_removed j) eqn:Hrm; intros [= <-].
  - exfalso. by rewrite (sj_live _ _ Hok) in Hrm.
  - apply (Hc _ Hj'). change (st_jobs (request_persist ?x)) with (st_jobs x). unfold dequeue. rewrite dequeue_loop_other.
    + simpl. unfold get_job in Hj. by rewrite list_lookup_alter, Hj.
    + simpl. intros Hin. destruct (Hp_of_RInv s (j_pipe j) Hinv) as [_ Hw]. destruct (Hw id Hin) as (jw & Hjw & _ & Hnone).
      unfold get_job in Hj. congruence.
Qed.

package prunner

// helper shared by the defect demonstrations of the root package (copied along by run.sh)

import (
	"sync"

	"github.com/taskctl/taskctl/pkg/task"

	"github.com/Flowpack/prunner/taskctl"
	"github.com/Flowpack/prunner/test"
)

type gate struct {
	mx      sync.Mutex
	release map[string]chan struct{}
	runs    map[string]int
}

func newGate() *gate { return &gate{release: map[string]chan struct{}{}, runs: map[string]int{}} }
func (g *gate) ch(k string) chan struct{} {
	g.mx.Lock()
	defer g.mx.Unlock()
	c, ok := g.release[k]
	if !ok {
		c = make(chan struct{})
		g.release[k] = c
	}
	return c
}
func (g *gate) runner() func(j *PipelineJob) taskctl.Runner {
	return func(j *PipelineJob) taskctl.Runner {
		id := j.ID.String()
		return &test.MockRunner{OnRun: func(t *task.Task) error {
			g.mx.Lock()
			g.runs[id+"/"+t.Name]++
			g.mx.Unlock()
			<-g.ch(id + "/" + t.Name)
			return nil
		}}
	}
}
func (g *gate) count(k string) int { g.mx.Lock(); defer g.mx.Unlock(); return g.runs[k] }

#!/bin/bash
# runs seeded changes against a property's check, on a scratch worktree of /repo (VERIF_REPO), sequentially.
# usage: seedmatrix.sh <seed>[:<prop>] ...   (default prop = the seed's own property); appends to work/seedmatrix.txt
cd /verif
WT=/tmp/seedrepo-$$
git -C /repo worktree add --detach $WT HEAD >/dev/null 2>&1 || exit 2
trap 'git -C /repo worktree remove --force $WT >/dev/null 2>&1' EXIT
for spec in "$@"; do
  s=${spec%%:*}; prop=${spec##*:}; [ "$prop" = "$spec" ] && prop=${s%%-*}
  git -C $WT checkout -q -- . ; git -C $WT clean -fdq
  git -C $WT apply /verif/seeded/$s/patch.diff || { echo "$s APPLY-FAILED" >> work/seedmatrix.txt; continue; }
  VERIF_REPO=$WT VERIF_NO_EVIDENCE=1 ./check $prop --tier quick > work/seed-$s-$prop.log 2>&1; rc=$?
  v=$(grep -c "^VIOLATION" work/seed-$s-$prop.log); nf=$(grep -c "no-failing-input-found" work/seed-$s-$prop.log)
  echo "$s vs $prop rc=$rc violations=$v nofailinginput=$nf" >> work/seedmatrix.txt
done
echo DONE >> work/seedmatrix.txt

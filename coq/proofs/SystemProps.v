(** Lifting the abstract runner properties to the system model *)
From stdpp Require Import list sorting.
From Coq Require Import ZArith Lia.
From PV Require Import Runner proofs.RunnerBase proofs.RunnerInv proofs.RunnerProps proofs.Refine.
Local Open Scope Z_scope.

Definition no_reload (e : event) : Prop := ∀ ds, e ≠ EvReload ds.
Definition no_restart (e : event) : Prop := e ≠ EvRestart.

Lemma reach_exec s evs : reach s → reach (exec s evs).
Proof.
  revert s. induction evs as [|e evs IH]; intros s Hr; simpl; [done|].
  destruct (step s e) as [[s' r]|] eqn:Hs; [|by apply IH]. apply IH. by eapply reach_step.
Qed.

(** ** C01 *)
Lemma sys_count_ok s e s' r p :
  reach s → step s e = Some (s', r) →
  (running_count s' p <= running_count s p)%nat ∨ (running_count s' p <= pd_conc (def_or_zero (st_defs s') p))%nat.
Proof.
  intros Hr Hs. rewrite !abs_running_count.
  destruct (refine_step s e s' r (reach_inv _ Hr) (reach_store_ok _ Hr) Hs) as [[Ha _]|(re & Hre & _ & _)].
  - left. by rewrite Ha.
  - apply (rstep_count_ok _ _ _ _ p (reach_inv _ Hr) Hre).
Qed.

Definition sbounded (s : state) : Prop := ∀ p, (running_count s p <= pd_conc (def_or_zero (st_defs s) p))%nat.

Lemma sbounded_abs s : sbounded s ↔ bounded (abs s).
Proof. unfold sbounded, bounded. split; intros H p; specialize (H p); by rewrite abs_running_count in *. Qed.

Lemma sys_step_bounded s e s' r : reach s → sbounded s → step s e = Some (s', r) → no_reload e → sbounded s'.
Proof.
  intros Hr Hb Hs Hnr. apply sbounded_abs. apply sbounded_abs in Hb.
  destruct (refine_step s e s' r (reach_inv _ Hr) (reach_store_ok _ Hr) Hs) as [[Ha _]|(re & Hre & Hrel & _)].
  - by rewrite Ha.
  - eapply rstep_bounded; [by apply reach_inv|done|done|]. intros ds ->. by apply (Hnr ds), Hrel.
Qed.

Lemma sys_exec_bounded s evs : reach s → sbounded s → Forall no_reload evs → sbounded (exec s evs).
Proof.
  revert s. induction evs as [|e evs IH]; intros s Hr Hb Hnr; simpl; [done|].
  inversion Hnr as [|? ? He Hevs]; subst.
  destruct (step s e) as [[s' r]|] eqn:Hs; [|by apply IH].
  apply IH; [by eapply reach_step|by eapply sys_step_bounded|done].
Qed.

Lemma init_bounded ds : sbounded (init ds).
Proof. intros p. unfold running_count. simpl. lia. Qed.

Lemma sys_step_defs s e s' r : reach s → step s e = Some (s', r) → no_reload e → st_defs s' = st_defs s.
Proof.
  intros Hr Hs He. pose proof (reach_inv _ Hr) as Hinv.
  destruct (refine_step s e s' r Hinv (reach_store_ok _ Hr) Hs) as [[Ha _]|(re & Hre & Hrel & _)].
  - change (st_defs s') with (rs_defs (abs s')). by rewrite Ha.
  - change (st_defs s') with (rs_defs (abs s')). change (st_defs s) with (rs_defs (abs s)).
    eapply rstep_defs; [done|]. intros ds' ->. by apply (He ds'), Hrel.
Qed.

Lemma sys_exec_defs s evs : reach s → Forall no_reload evs → st_defs (exec s evs) = st_defs s.
Proof.
  revert s. induction evs as [|e evs IH]; intros s Hr Hnr; simpl; [done|].
  inversion Hnr as [|? ? He Hevs]; subst.
  destruct (step s e) as [[s' r]|] eqn:Hs; [|by apply IH].
  rewrite IH; [|by eapply reach_step|done]. by eapply sys_step_defs.
Qed.

Lemma sys_bounded_unchanged_defs ds evs p :
  Forall no_reload evs → (running_count (exec (init ds) evs) p <= pd_conc (def_or_zero ds p))%nat.
Proof.
  intros Hnr.
  pose proof (sys_exec_bounded (init ds) evs (reach_init ds) (init_bounded ds) Hnr p) as H.
  by rewrite (sys_exec_defs (init ds) evs (reach_init ds) Hnr) in H.
Qed.

(** a job whose scheduler exists (in particular: any job with a live or parked stage goroutine) is running *)
Lemma sched_is_running s id j sc : reach s → get_job s id = Some j → j_sched j = Some sc → is_running j = true.
Proof.
  intros Hr Hj Hsc. pose proof (reach_inv _ Hr) as Hinv.
  destruct (inv_live _ _ Hinv id (abs_job j)) as ([t Ht] & Hcomp & Hcan).
  - rewrite abs_lookup. unfold get_job in Hj. by rewrite Hj.
  - simpl. by rewrite Hsc.
  - simpl in *. unfold is_running. by rewrite Ht, Hcomp, Hcan.
Qed.

(** the slot is released (the job is reported finished) only when no stage goroutine of the job is left *)
Lemma sched_return_no_runs s id s' r :
  step s (EvSchedReturn id) = Some (s', r) →
  ∃ j sc, get_job s id = Some j ∧ j_sched j = Some sc ∧ sc_entry sc = [] ∧ sc_running sc = [] ∧ sc_ending sc = [] ∧ sc_phase sc = PExited.
Proof.
  unfold step. simpl. destruct (do_sched_return (clear_req s) id) as [s1|] eqn:H; [|done]. intros _.
  apply with_sched_live in H as (j & sc & Hj & Hsc & H). exists j, sc.
  destruct (sc_phase sc); try done. destruct (sc_entry sc); try done. destruct (sc_running sc); try done. destruct (sc_ending sc); try done.
Qed.

(** ** C03 / C05 / C06: wait lists *)
Definition sys_waiting_ids (s : state) (p : name) : list nat :=
  List.filter (fun id => match get_job s id with
                         | Some j => Nat.eqb (j_pipe j) p && is_waiting j && negb (j_removed j)
                         | None => false end) (seq 0 (length (st_jobs s))).

Lemma sys_waiting_ids_abs s p : sys_waiting_ids s p = waiting_ids (abs s) p.
Proof.
  unfold sys_waiting_ids, waiting_ids. simpl. rewrite map_length. apply filter_ext. intros id.
  unfold get_job. rewrite list_lookup_fmap. destruct (st_jobs s !! id) as [j|]; done.
Qed.

(** the wait list of a pipeline is exactly the list of its waiting jobs, in acceptance order, each once *)
Lemma sys_wait_list_exact s p : reach s → st_shut s = false → wl_get (st_wait s) p = sys_waiting_ids s p.
Proof.
  intros Hr Hs. rewrite sys_waiting_ids_abs. by apply (wait_list_is_waiting_set (abs s) p (reach_inv _ Hr)).
Qed.

Lemma sys_wait_sorted s p : reach s → StronglySorted lt (wl_get (st_wait s) p).
Proof. intros Hr. apply (inv_sorted _ _ (reach_inv _ Hr) p). Qed.

(** the dequeue loop hands out slots in queue order *)
Lemma sys_dequeue_fifo s p id id' :
  reach s → id ∈ wl_get (st_wait s) p → id' ∈ wl_get (st_wait s) p → (id' < id)%nat →
  abs_job <$> get_job (dequeue s p) id ≠ abs_job <$> get_job s id →
  id' ∉ wl_get (st_wait (dequeue s p)) p.
Proof.
  intros Hr Hid Hid' Hlt Hch.
  change (st_wait (dequeue s p)) with (rs_wait (abs (dequeue s p))). rewrite abs_dequeue.
  apply (dequeue_fifo (abs s) p id id' (reach_inv _ Hr)); try done.
  unfold get_job in Hch. rewrite <- abs_dequeue, !abs_lookup. done.
Qed.

Definition squeue_bounded (s : state) : Prop := queue_bounded (abs s).

Lemma sys_exec_queue_bounded s evs : reach s → squeue_bounded s → Forall no_reload evs → squeue_bounded (exec s evs).
Proof.
  revert s. induction evs as [|e evs IH]; intros s Hr Hb Hnr; simpl; [done|].
  inversion Hnr as [|? ? He Hevs]; subst.
  destruct (step s e) as [[s' r]|] eqn:Hs; [|by apply IH].
  apply IH; [by eapply reach_step| |done].
  destruct (refine_step s e s' r (reach_inv _ Hr) (reach_store_ok _ Hr) Hs) as [[Ha _]|(re & Hre & Hrel & _)].
  - unfold squeue_bounded. by rewrite Ha.
  - eapply rstep_queue_bounded; [by apply reach_inv|done|done|]. intros ds ->. by apply (He ds), Hrel.
Qed.

Lemma sys_waiting_bounded ds evs p d :
  Forall no_reload evs → lookup_def ds p = Some d →
  (∀ n, pd_qlimit d = Some n → (length (wl_get (st_wait (exec (init ds) evs)) p) <= n)%nat)
  ∧ (pd_replace d = true → (length (wl_get (st_wait (exec (init ds) evs)) p) <= 1)%nat).
Proof.
  intros Hnr Hd.
  assert (Hb0 : squeue_bounded (init ds)).
  { intros q. simpl. split; intros; simpl; lia. }
  pose proof (sys_exec_queue_bounded (init ds) evs (reach_init ds) Hb0 Hnr p) as [H1 H2].
  change (rs_defs (abs (exec (init ds) evs))) with (st_defs (exec (init ds) evs)) in *.
  rewrite (sys_exec_defs (init ds) evs (reach_init ds) Hnr) in *. simpl in *.
  unfold def_or_zero in *. rewrite Hd in *. simpl in *. done.
Qed.

(** ** monotone facts about jobs (C04, C07, C15, C16) *)
Lemma sys_step_mono s e s' r : reach s → step s e = Some (s', r) → no_restart e → state_mono (abs s) (abs s').
Proof.
  intros Hr Hs Hnr. destruct (refine_step s e s' r (reach_inv _ Hr) (reach_store_ok _ Hr) Hs) as [[-> _]|(re & Hre & _ & Hrs & _)].
  - apply state_mono_refl.
  - eapply rstep_mono; [done|]. intros js ->. by apply Hnr, (Hrs js).
Qed.

Lemma sys_exec_mono s evs : reach s → Forall no_restart evs → state_mono (abs s) (abs (exec s evs)).
Proof.
  revert s. induction evs as [|e evs IH]; intros s Hr Hnr; simpl; [apply state_mono_refl|].
  inversion Hnr as [|? ? He Hevs]; subst.
  destruct (step s e) as [[s' r]|] eqn:Hs; [|by apply IH].
  eapply state_mono_trans; [by eapply sys_step_mono|]. apply IH; [by eapply reach_step|done].
Qed.

Definition job_snapshot (j : job) := (j_pipe j, j_delay j, j_env j, j_vars j, j_user j, job_graph j).

(** everything a job took from its definition and request stays as it was, whatever happens later *)
Lemma sys_snapshot_immutable s evs id j :
  reach s → Forall no_restart evs → get_job s id = Some j →
  ∃ j', get_job (exec s evs) id = Some j' ∧ job_snapshot j' = job_snapshot j
        ∧ (j_canceled j = true → j_canceled j' = true) ∧ (j_completed j = true → j_completed j' = true)
        ∧ (is_Some (j_start j) → is_Some (j_start j'))
        ∧ (j_canceled j = true → j_start j = None → j_start j' = None ∧ j_sched j' = None).
Proof.
  intros Hr Hnr Hj. pose proof (sys_exec_mono s evs Hr Hnr id (abs_job j)) as H.
  rewrite abs_lookup in H. unfold get_job in *. rewrite Hj in H. destruct (H eq_refl) as (rj' & Hj' & Hm).
  rewrite abs_lookup in Hj'. destruct (st_jobs (exec s evs) !! id) as [j'|] eqn:E; [|done].
  injection Hj' as <-. exists j'. split; [done|].
  destruct Hm as (Hp & _ & Hd & Hc & Hs & Hst & Hk & _ & Hsn & _). simpl in *.
  split; [unfold job_snapshot; injection Hsn as -> -> -> ->; by rewrite Hp, Hd|].
  split; [done|]. split; [done|]. split; [done|].
  intros Hcan Hns. split; [by apply Hs|].
  pose proof (reach_inv _ (reach_exec s evs Hr)) as Hinv.
  destruct (j_sched j') as [sc|] eqn:Hsc; [|done].
  destruct (inv_live _ _ Hinv id (abs_job j')) as ([t Ht] & _).
  - by rewrite abs_lookup, E.
  - simpl. by rewrite Hsc.
  - simpl in Ht. rewrite (Hs Hcan Hns) in Ht. done.
Qed.

(** start delay is a lower bound *)
Lemma sys_start_after_delay s id j t :
  reach s → get_job s id = Some j → j_start j = Some t → (j_created j + Z.of_nat (j_delay j) <= t)%Z ∧ (t <= st_now s)%Z.
Proof.
  intros Hr Hj Ht. apply (inv_start _ _ (reach_inv _ Hr) id (abs_job j) t); [|done].
  rewrite abs_lookup. unfold get_job in Hj. by rewrite Hj.
Qed.

(** ** C04: results of cancel *)
Lemma cancel_results s id :
  match find_job s id with
  | None => cancel_job s id true = (s, RErrNotFound)
  | Some j =>
      if j_canceled j then cancel_job s id true = (s, ROk)
      else if j_completed j then cancel_job s id true = (s, RErrCompleted)
      else (cancel_job s id true).2 = ROk
  end.
Proof.
  unfold cancel_job. destruct (find_job s id) as [j|]; [|done].
  destruct (j_canceled j); [done|]. destruct (j_completed j); [done|].
  destruct (j_start j); [|done]. by destruct (j_sched j).
Qed.

(** an acknowledged cancel of a running job is recorded ... *)
Lemma cancel_running_records s id j sc :
  find_job s id = Some j → j_canceled j = false → j_completed j = false → is_Some (j_start j) → j_sched j = Some sc →
  ∃ j', get_job (cancel_job s id true).1 id = Some j' ∧ j_cancel_req j' = true.
Proof.
  intros Hf Hc Hk [t Ht] Hsc. unfold cancel_job. rewrite Hf, Hc, Hk, Ht, Hsc. simpl.
  unfold find_job in Hf. unfold get_job in *. destruct (st_jobs s !! id) as [j0|] eqn:E; [|done].
  destruct (j_removed j0); [done|]. injection Hf as ->.
  unfold upd_job. simpl. rewrite list_lookup_alter, E. simpl. eexists. split; [done|]. simpl. by rewrite orb_true_r.
Qed.

(** ... and makes the job end as canceled, whatever happens in between *)
Lemma cancel_request_ends_canceled s id j evs j' :
  reach s → Forall no_restart evs → get_job s id = Some j → j_cancel_req j = true →
  get_job (exec s evs) id = Some j' → j_completed j' = true → j_canceled j' = true.
Proof.
  intros Hr Hnr Hj Hq Hj' Hc'.
  pose proof (sys_exec_mono s evs Hr Hnr id (abs_job j)) as H.
  rewrite abs_lookup in H. unfold get_job in *. rewrite Hj in H. destruct (H eq_refl) as (rj' & Hrj' & Hm).
  rewrite abs_lookup, Hj' in Hrj'. injection Hrj' as <-.
  destruct Hm as (_ & _ & _ & _ & _ & _ & _ & Hq' & _). simpl in Hq'.
  apply (inv_creq _ _ (reach_inv _ (reach_exec s evs Hr)) id (abs_job j')); [|by auto|done].
  by rewrite abs_lookup, Hj'.
Qed.

(** once the stop has been delivered, a task whose Run is entered does not execute: it is refused *)
Lemma told_refuses s id n j sc s' r :
  get_job s id = Some j → j_sched j = Some sc → sc_ctx sc = true → step s (EvRunBegin id n) = Some (s', r) →
  ∃ g, st_ghost s' = g ++ ORunRefused id n :: st_ghost s ∧ ∀ o, o ∈ g → ∀ m, o ≠ ORunBegan id m.
Proof.
  intros Hj Hsc Hctx. unfold step. simpl. unfold do_run_begin, with_sched.
  change (get_job (clear_req s) id) with (get_job s id). rewrite Hj, Hsc.
  destruct (mem n (sc_entry sc)); [|done]. rewrite Hctx. simpl. intros [= <- <-].
  exists []. split; [|intros o Ho; by apply elem_of_nil in Ho].
  (* stage_end only updates jobs *)
  unfold stage_end. change (get_job (log (clear_req s) (ORunRefused id n)) id) with (get_job s id). rewrite Hj, Hsc. done.
Qed.

(** ** C05: the decision table, stated on what the API reports *)
Definition decision (conc delay : nat) (ql : option nat) (replace : bool) (running waiting : nat) : action :=
  if (running <? conc)%nat && (delay =? 0)%nat then AStart
  else match ql with
       | Some 0%nat => ANoQueue
       | _ => if replace && (0 <? waiting)%nat then AReplace
              else match ql with
                   | Some n => if (n <=? waiting)%nat then AQueueFull else AQueue
                   | None => AQueue
                   end
       end.

Lemma resolve_is_decision s p d :
  reach s → st_shut s = false → lookup_def (st_defs s) p = Some d →
  resolve_action s p false
  = decision (pd_conc d) (pd_delay d) (pd_qlimit d) (pd_replace d) (running_count s p) (length (sys_waiting_ids s p)).
Proof.
  intros Hr Hs Hd. rewrite <- (sys_wait_list_exact s p Hr Hs).
  unfold resolve_action, decision, def_or_zero. rewrite Hd. simpl.
  destruct (Nat.leb_spec (pd_conc d) (running_count s p)), (Nat.ltb_spec (running_count s p) (pd_conc d)); try lia;
    destruct (Nat.ltb_spec 0 (pd_delay d)), (Nat.eqb_spec (pd_delay d) 0); try lia; simpl; try done.
  all: destruct (pd_qlimit d) as [[|nq]|]; try done.
  all: destruct (Nat.eqb_spec (length (wl_get (st_wait s) p)) 0), (Nat.ltb_spec 0 (length (wl_get (st_wait s) p))); try lia; done.
Qed.

Lemma schedule_effects s p v u :
  st_shut s = false → is_Some (lookup_def (st_defs s) p) →
  let n := length (st_jobs s) in
  let s' := (do_schedule s p v u).1 in
  let r := (do_schedule s p v u).2 in
  match resolve_action s p false with
  | ANoQueue => r = RErrNoQueue ∧ st_jobs s' = st_jobs s ∧ st_wait s' = st_wait s ∧ st_defs s' = st_defs s
  | AQueueFull => r = RErrQueueFull ∧ st_jobs s' = st_jobs s ∧ st_wait s' = st_wait s ∧ st_defs s' = st_defs s
  | AQueue => r = RJob n ∧ wl_get (st_wait s') p = wl_get (st_wait s) p ++ [n]
              ∧ ∀ id j, get_job s id = Some j → get_job s' id = Some j
  | AReplace => r = RJob n ∧ ∃ prev, last (wl_get (st_wait s) p) = Some prev
                ∧ wl_get (st_wait s') p = removelast (wl_get (st_wait s) p) ++ [n]
                ∧ (∀ j, get_job s prev = Some j → get_job s' prev = Some (set_canceled_notimer j))
  | AStart => r = RJob n
  end.
Proof.
  intros Hs [d Hd]. unfold do_schedule. rewrite Hs, Hd.
  destruct (resolve_action s p false) eqn:Hact; simpl; try done.
  - split; [done|]. split; [by rewrite wl_get_set_eq|].
    intros id j Hj. unfold get_job in *. simpl. by apply lookup_app_l_Some.
  - unfold resolve_action in Hact. destruct (last (wl_get (st_wait s) p)) as [prev|] eqn:Hl; simpl.
    + split; [done|]. exists prev. split; [done|]. split; [by rewrite wl_get_set_eq|].
      intros j Hj. unfold get_job in *. simpl. rewrite list_lookup_alter. rewrite (lookup_app_l_Some _ _ _ _ Hj). done.
    + exfalso. apply last_None in Hl. rewrite Hl in Hact. simpl in Hact. rewrite andb_false_r in Hact.
      repeat case_match; discriminate.
Qed.

(** ** C15 *)
Lemma schedulable_iff_accepted s p v u :
  st_shut s = false → is_Some (lookup_def (st_defs s) p) →
  schedulable s p = true ↔ ∃ n, (do_schedule s p v u).2 = RJob n.
Proof.
  intros Hs [d Hd]. unfold schedulable, do_schedule. rewrite Hs, Hd.
  destruct (resolve_action s p false); simpl; split; try done; try (intros [n Hn]; discriminate); eauto.
  destruct (last _); simpl; eauto.
Qed.

Lemma pipeline_running_iff s p :
  pipeline_running s p = true ↔ ∃ id j, get_job s id = Some j ∧ j_pipe j = p ∧ j_removed j = false ∧ is_running j = true.
Proof.
  unfold pipeline_running, running_count. rewrite negb_true_iff, Nat.eqb_neq. split.
  - intros Hne. destruct (List.filter _ (st_jobs s)) as [|j l] eqn:E; [done|].
    assert (Hin : In j (List.filter (fun j => Nat.eqb (j_pipe j) p && negb (j_removed j) && is_running j) (st_jobs s))) by (rewrite E; by left).
    apply filter_In in Hin as [Hin Hp]. apply elem_of_list_In, elem_of_list_lookup in Hin as [id Hid].
    apply andb_true_iff in Hp as [Hp Hrun]. apply andb_true_iff in Hp as [Hp Hrem].
    exists id, j. apply Nat.eqb_eq in Hp. apply negb_true_iff in Hrem. done.
  - intros (id & j & Hj & Hp & Hrem & Hrun).
    assert (Hin : In j (List.filter (fun j => Nat.eqb (j_pipe j) p && negb (j_removed j) && is_running j) (st_jobs s))).
    { apply filter_In. split; [apply elem_of_list_In; by eapply elem_of_list_lookup_2|].
      rewrite Hp, Nat.eqb_refl, Hrem, Hrun. done. }
    destruct (List.filter _ (st_jobs s)); [done|]. simpl. lia.
Qed.

(** * C10 — Restart from any persisted snapshot recovers a consistent, faithful state
    (the JSON codec is not modelled: that [store.Load] returns what [store.Save] was given is validated by the
    correspondence run on real stores with generated payloads, not proved) *)
From stdpp Require Import list.
From Coq Require Import ZArith.
From PV Require Import Runner proofs.PersistProps.

(** after a restart every job is terminal: none is running or waiting, none has a scheduler or a timer ... *)
Theorem C10_all_terminal : ∀ s s' id j,
  do_restart s = Some s' → get_job s' id = Some j → j_removed j = false →
  is_running j = false ∧ is_waiting j = false ∧ j_sched j = None ∧ j_cancels j = 0%nat ∧ j_timer j = false.
Proof. exact restart_all_terminal. Qed.

(** ... wait lists are empty and no capacity is held by ghosts: every validly defined pipeline is schedulable and not running *)
Theorem C10_no_ghost_capacity : ∀ s s' p d,
  do_restart s = Some s' → lookup_def (st_defs s) p = Some d → (1 <= pd_conc d)%nat →
  ¬ ((0 < pd_delay d)%nat ∧ pd_qlimit d = Some 0%nat) →
  schedulable s' p = true ∧ pipeline_running s' p = false.
Proof. exact restart_pipelines_free. Qed.

(** no job is lost or duplicated: the reported jobs are exactly the stored ones *)
Theorem C10_no_loss_no_dup : ∀ s s' id,
  do_restart s = Some s' → (id < length (st_jobs s))%nat →
  (∃ j, get_job s' id = Some j ∧ j_removed j = false) ↔ (∃ pj, pj ∈ default [] (st_store s) ∧ pj_id pj = id).
Proof. exact restart_no_loss. Qed.

(** every finished job is reported exactly as before: flags, timestamps, tasks with results and errors, variables, user,
    last error (this holds for every job record, reachable or not) *)
Theorem C10_faithful : ∀ id j, finished j = true → reported (from_pjob (to_pjob id j)) = reported j.
Proof. exact restart_faithful. Qed.

(** jobs that were running or waiting come back canceled *)
Theorem C10_unfinished_canceled : ∀ id j, finished j = false → j_canceled (from_pjob (to_pjob id j)) = true.
Proof. exact restart_unfinished_canceled. Qed.

Definition ex_defs : defs := [(0%nat, PDef 1 None false 0 false 0 0 0 [(0%nat, TaskDef [] false false 0 0)])].
Example C10_ex :
  let s := exec (init ex_defs) [EvSchedule 0 VNone 0; EvSchedule 0 VNone 0; EvIterBegin 0; EvVisit 0 0; EvRunBegin 0 0; EvSave;
                                EvRunEnd 0 0 OutOk; EvNotify 0 0; EvIterBegin 0; EvVisit 0 0; EvSchedReturn 0;
                                EvIterBegin 1; EvVisit 1 0; EvRunBegin 1 0; EvRunEnd 1 0 OutOk; EvNotify 1 0; EvIterBegin 1; EvVisit 1 0; EvSchedReturn 1; EvRestart] in
  (fun j => (j_canceled j, j_completed j, map jt_status (j_tasks j))) <$> st_jobs s = [(true, false, [Canceled]); (true, false, [Waiting])].
Proof. vm_compute. done. Qed.

Print Assumptions C10_all_terminal.
Print Assumptions C10_no_ghost_capacity.
Print Assumptions C10_no_loss_no_dup.
Print Assumptions C10_faithful.
Print Assumptions C10_unfinished_canceled.

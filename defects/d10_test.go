package prunner

// Demonstration of defect D10 (jobs of a pipeline removed by reload are purged by SaveToStore although they still run or
// still sit on the wait list). Copy into /repo as zz_defects_test.go to run: go test -vet=off -count=1 -run 'TestDefectD10' .

import (
	"context"
	"testing"
	"time"

	"github.com/stretchr/testify/assert"
	"github.com/stretchr/testify/require"

	"github.com/Flowpack/prunner/definition"
	"github.com/Flowpack/prunner/test"
)

func d10defs(withP bool) *definition.PipelinesDef {
	d := &definition.PipelinesDef{Pipelines: map[string]definition.PipelineDef{
		"other": {Concurrency: 1, Tasks: map[string]definition.TaskDef{"a": {Script: []string{"x"}}}, SourcePath: "f"},
	}}
	if withP {
		d.Pipelines["p"] = definition.PipelineDef{Concurrency: 1, Tasks: map[string]definition.TaskDef{"a": {Script: []string{"x"}}}, SourcePath: "f"}
	}
	return d
}

func TestDefectD10_PurgedRunningJobNoLongerCountsAgainstConcurrency(t *testing.T) {
	g := newGate()
	r, err := NewPipelineRunner(context.Background(), d10defs(true), g.runner(), test.NewMockStore(), test.NewMockOutputStore())
	require.NoError(t, err)
	j1, err := r.ScheduleAsync("p", ScheduleOpts{})
	require.NoError(t, err)
	waitForStartedJobTask(t, r, j1.ID, "a")
	// the pipeline disappears from the definitions, a save happens, the pipeline comes back
	r.ReplaceDefinitions(d10defs(false))
	r.SaveToStore()
	r.ReplaceDefinitions(d10defs(true))
	// job 1 is still executing its task: a second job must not start
	j3, err := r.ScheduleAsync("p", ScheduleOpts{})
	require.NoError(t, err)
	time.Sleep(100 * time.Millisecond)
	assert.Equal(t, 0, g.count(j3.ID.String()+"/a"), "a second job of the pipeline executes while the first one still runs (concurrency 1)")
	close(g.ch(j1.ID.String() + "/a"))
	close(g.ch(j3.ID.String() + "/a"))
}

func TestDefectD10_PurgedWaitingJobIsStartedLater(t *testing.T) {
	g := newGate()
	r, err := NewPipelineRunner(context.Background(), d10defs(true), g.runner(), test.NewMockStore(), test.NewMockOutputStore())
	require.NoError(t, err)
	j1, err := r.ScheduleAsync("p", ScheduleOpts{})
	require.NoError(t, err)
	j2, err := r.ScheduleAsync("p", ScheduleOpts{})
	require.NoError(t, err)
	waitForStartedJobTask(t, r, j1.ID, "a")
	r.ReplaceDefinitions(d10defs(false))
	r.SaveToStore()
	// job 2 was waiting and has been purged: it is not reported any more
	assert.ErrorIs(t, r.ReadJob(j2.ID, func(j *PipelineJob) {}), ErrJobNotFound)
	r.ReplaceDefinitions(d10defs(true))
	close(g.ch(j1.ID.String() + "/a"))
	time.Sleep(100 * time.Millisecond)
	j3, err := r.ScheduleAsync("p", ScheduleOpts{})
	require.NoError(t, err)
	close(g.ch(j3.ID.String() + "/a"))
	time.Sleep(200 * time.Millisecond)
	assert.Equal(t, 0, g.count(j2.ID.String()+"/a"), "a purged job, which the API does not report any more, executes its task")
}

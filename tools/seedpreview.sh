#!/bin/bash
# usage: seedpreview.sh <seed-dir-name> <profile> [n]  — apply a seeded change to /repo, run the system correspondence, undo
s=$1; prof=${2:-mixed}; n=${3:-160}
git -C /repo apply /verif/seeded/$s/patch.diff || exit 2
python3 /verif/tools/sysdebug.py $prof $n 3 2>&1 | grep -E "histories|mismatching|failures|=== history" | head -5
git -C /repo checkout -- . ; git -C /repo status --short | head -3

(** Properties of the router model (C14) *)
From stdpp Require Import list strings.
From Coq Require Import String.
From PV Require Import Auth.
Local Open Scope string_scope.

(** every API endpoint (everything that is not the profiler mount) sits behind Verifier and Authenticator and under
    one of the authenticated sub-routers; checked on the router term for both profiling settings *)
Lemma all_endpoints_protected profiling e :
  e ∈ endpoints profiling → e_debug e = false → protected e = true ∧ in_protected (e_path e) = true.
Proof.
  intros Hin Hd.
  assert (H : forallb (fun e => e_debug e || (protected e && in_protected (e_path e))) (endpoints profiling) = true)
    by (destruct profiling; vm_compute; reflexivity).
  rewrite forallb_forall in H. specialize (H e). rewrite <- elem_of_list_In in H. specialize (H Hin).
  rewrite Hd in H. simpl in H. apply andb_true_iff in H. done.
Qed.

Lemma no_debug_when_off e : e ∈ endpoints false → e_debug e = false ∧ in_debug (e_path e) = false.
Proof.
  intros Hin.
  assert (H : forallb (fun e => negb (e_debug e) && negb (in_debug (e_path e))) (endpoints false) = true) by (vm_compute; reflexivity).
  rewrite forallb_forall in H. specialize (H e). rewrite <- elem_of_list_In in H. specialize (H Hin).
  apply andb_true_iff in H as [H1 H2]. by rewrite !negb_true_iff in H1, H2.
Qed.

(** a handler of the API runs only for a request whose effective credential is valid *)
Lemma handler_requires_valid profiling m path header cookie :
  serve profiling m path header cookie = RHandler → valid (effective header cookie) = true.
Proof.
  unfold serve. destruct (in_protected path).
  - destruct (valid (effective header cookie)); [done|]. simpl. discriminate.
  - destruct (in_debug path); [destruct profiling|]; discriminate.
Qed.

(** without a valid credential every path under the API answers 401 *)
Lemma invalid_gets_401 profiling m path header cookie :
  in_protected path = true → valid (effective header cookie) = false → serve profiling m path header cookie = R401.
Proof. intros Hp Hv. unfold serve. by rewrite Hp, Hv. Qed.

Lemma debug_absent_when_off m path header cookie : serve false m path header cookie ≠ RDebug.
Proof. unfold serve. destruct (in_protected path); [|destruct (in_debug path); done]. destruct (negb _); [done|]. repeat case_match; done. Qed.

(** validity means: HS256, the configured key, not expired, not before its time, not issued in the future *)
Lemma valid_spec t : valid t = true ↔ ∃ exp nbf, t = TokJWT HS256 true exp nbf false ∧ exp ≠ TPast ∧ nbf ≠ TFuture.
Proof.
  split.
  - destruct t as [| |[] [] exp nbf []]; simpl; try discriminate; destruct exp, nbf; simpl; try discriminate; intros _; eexists _, _; done.
  - intros (exp & nbf & -> & He & Hn). destruct exp, nbf; simpl; done.
Qed.

(** the header wins over the cookie *)
Lemma header_wins h c : h ≠ TokMissing → effective h c = h.
Proof. by destruct h. Qed.

(** profiling is on only when it was switched on explicitly *)
Lemma profiling_explicit flag env : profiling_config flag env = true ↔ flag = Some true ∨ (flag = None ∧ env = Some true).
Proof. destruct flag as [[]|], env as [[]|]; simpl; split; intros H; try done; try (by left); try (by right); destruct H as [H|[H1 H2]]; done. Qed.

Lemma config_off_no_debug flag env m path h c :
  ¬ (flag = Some true ∨ (flag = None ∧ env = Some true)) → serve (profiling_config flag env) m path h c ≠ RDebug.
Proof.
  intros Hn. destruct (profiling_config flag env) eqn:E.
  - apply profiling_explicit in E. done.
  - apply debug_absent_when_off.
Qed.

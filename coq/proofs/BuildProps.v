(** Graph construction (Graph.v add_stages / cycle_dfs): a task list in which every task comes after the tasks it
    depends on is accepted; a list that is accepted has an acyclic dependency relation *)
From stdpp Require Import list relations.
From Coq Require Import Lia.
From PV Require Import Graph.

Lemma mem_spec n l : mem n l = true ↔ n ∈ l.
Proof.
  unfold mem. rewrite existsb_exists. split.
  - intros (x & Hx & He). apply Nat.eqb_eq in He. subst. by apply elem_of_list_In.
  - intros H. exists n. split; [by apply elem_of_list_In|apply Nat.eqb_refl].
Qed.

Lemma succs_spec es n m : m ∈ succs es n ↔ (n, m) ∈ es.
Proof.
  unfold succs. rewrite elem_of_list_fmap. split.
  - intros ([a b] & -> & H). apply elem_of_list_In, filter_In in H as [H He]. simpl in *.
    apply Nat.eqb_eq in He. subst. by apply elem_of_list_In.
  - intros H. exists (n, m). split; [done|]. apply elem_of_list_In, filter_In. split; [by apply elem_of_list_In|apply Nat.eqb_refl].
Qed.

(** ** topologically ordered lists *)
(** every task's dependencies are names of tasks strictly earlier in the list; names are distinct *)
Definition topo (l : tasks) : Prop :=
  NoDup (map fst l) ∧ ∀ l1 x l2, l = l1 ++ x :: l2 → ∀ d, d ∈ td_deps (snd x) → d ∈ map fst l1.

Lemma succs_nil es n : (∀ e, e ∈ es → fst e ≠ n) → succs es n = [].
Proof.
  intros H. destruct (succs es n) as [|m l] eqn:E; [done|].
  assert (Hm : m ∈ succs es n) by (rewrite E; left). apply succs_spec in Hm. by apply H in Hm.
Qed.

Lemma add_edges_fresh fuel es n deps (prev : list name) :
  n ∉ prev → (∀ e, e ∈ es → fst e ∈ prev) → (∀ d, d ∈ deps → d ∈ prev) →
  ∃ es', add_edges (S fuel) es n deps = Some es' ∧ (∀ e, e ∈ es' → fst e ∈ prev).
Proof.
  intros Hn. revert es. induction deps as [|d deps IH]; intros es Hes Hd; [by exists es|].
  cbn [add_edges].
  assert (Hes' : ∀ e, e ∈ es ++ [(d, n)] → fst e ∈ prev).
  { intros e He. apply elem_of_app in He as [He|He]; [by apply Hes|]. apply elem_of_list_singleton in He. subst. simpl. apply Hd. left. }
  assert (Hs : succs (es ++ [(d, n)]) n = []).
  { apply succs_nil. intros e He Heq. apply Hes' in He. congruence. }
  cbn [cycle_dfs]. simpl mem. rewrite Hs.
  apply IH; [done|]. intros d' Hd'. apply Hd. by right.
Qed.

Lemma add_stages_topo fuel es (prev : list name) l :
  NoDup (prev ++ map fst l) →
  (∀ e, e ∈ es → fst e ∈ prev) →
  (∀ l1 x l2, l = l1 ++ x :: l2 → ∀ d, d ∈ td_deps (snd x) → d ∈ prev ++ map fst l1) →
  ∃ es', add_stages (S fuel) es l = Some es'.
Proof.
  revert es prev. induction l as [|[n t] l IH]; intros es prev Hnd Hes Hdeps; [by exists es|].
  cbn [add_stages].
  assert (Hn : n ∉ prev).
  { apply NoDup_app in Hnd as (_ & Hdis & _). intros Hin. apply (Hdis _ Hin). simpl. left. }
  destruct (add_edges_fresh fuel es n (td_deps t) prev Hn Hes) as (es' & -> & Hes').
  { intros d Hd. specialize (Hdeps [] (n, t) l eq_refl d Hd). by rewrite app_nil_r in Hdeps. }
  apply (IH es' (prev ++ [n])).
  - rewrite <- app_assoc. done.
  - intros e He. apply elem_of_app. left. by apply Hes'.
  - intros l1 x l2 -> d Hd. specialize (Hdeps ((n, t) :: l1) x l2 eq_refl d Hd).
    rewrite <- app_assoc. done.
Qed.

Theorem topo_accepted l : topo l → build_graph_ok l = true.
Proof.
  intros [Hnd Hdeps]. unfold build_graph_ok.
  destruct (add_stages_topo (S (length l)) [] [] l) as (es' & ->); try done.
  intros e He. by apply elem_of_nil in He.
Qed.

(** ** the depth-first search *)
Definition edge (es : edges) (x y : name) : Prop := (x, y) ∈ es.

(** what a successful search adds to the visited stack: every successor of an added node was added later (lies nearer
    to the head of the stack) *)
Definition closed_above (es : edges) (new : list name) : Prop :=
  ∀ i x y, new !! i = Some x → edge es x y → ∃ j, j < i ∧ new !! j = Some y.

Definition dfs_post (es : edges) (vis v new : list name) : Prop :=
  v = new ++ vis ∧ (NoDup vis → NoDup v) ∧ closed_above es new.

Lemma closed_above_app es new2 new1 : closed_above es new2 → closed_above es new1 → closed_above es (new2 ++ new1).
Proof.
  intros H2 H1 i x y Hi He. apply lookup_app_Some in Hi as [Hi|[Hlen Hi]].
  - destruct (H2 _ _ _ Hi He) as (j & Hj & Hy). exists j. split; [done|]. rewrite lookup_app_l; [done|]. by eapply lookup_lt_Some.
  - destruct (H1 _ _ _ Hi He) as (j & Hj & Hy). exists (length new2 + j). split; [lia|].
    rewrite lookup_app_r by lia. by replace (length new2 + j - length new2) with j by lia.
Qed.

Section dfs.
  Context (es : edges) (fuel : nat).
  Context (IH : ∀ t vis v, cycle_dfs fuel es t vis = Some v → ∃ new, dfs_post es vis v (new ++ [t])).

  Let go := (fix go (nexts : list name) (visited : list name) : option (list name) :=
           match nexts with
           | [] => Some visited
           | n :: nexts => match cycle_dfs fuel es n visited with
                           | None => None
                           | Some v => go nexts v
                           end
           end).

  Lemma go_spec ns v0 v : go ns v0 = Some v → ∃ new, dfs_post es v0 v new ∧ ∀ y, y ∈ ns → y ∈ new.
  Proof.
    revert v0. induction ns as [|n ns IHns]; intros v0 Hgo; simpl in Hgo.
    - injection Hgo as <-. exists []. split; [|by intros y Hy%elem_of_nil]. split; [done|]. split; [done|]. by intros i x y Hi.
    - destruct (cycle_dfs fuel es n v0) as [v1|] eqn:E1; [|done].
      destruct (IH _ _ _ E1) as (new1 & -> & Hnd1 & Hc1).
      destruct (IHns _ Hgo) as (new2 & (-> & Hnd2 & Hc2) & Hin2).
      exists (new2 ++ new1 ++ [n]). split.
      + split; [by rewrite <- !app_assoc|]. split; [by intros H; apply Hnd2, Hnd1|]. by apply closed_above_app.
      + intros y Hy. apply elem_of_cons in Hy as [->|Hy]; [|by apply elem_of_app; left; apply Hin2].
        apply elem_of_app. right. apply elem_of_app. right. left.
  Qed.
End dfs.

Lemma cycle_dfs_spec es fuel t vis v : cycle_dfs fuel es t vis = Some v → ∃ new, dfs_post es vis v (new ++ [t]).
Proof.
  revert t vis v. induction fuel as [|fuel IH]; intros t vis v H; [done|].
  cbn [cycle_dfs] in H. destruct (mem t vis) eqn:Em; [done|].
  apply go_spec in H as (new & (-> & Hnd & Hc) & Hin); [|exact IH].
  exists new. split; [by rewrite <- app_assoc|]. split.
  - intros Hv. apply Hnd. constructor; [|done]. intros Hin'. apply mem_spec in Hin'. congruence.
  - intros i x y Hi He. apply lookup_app_Some in Hi as [Hi|[Hlen Hi]].
    + destruct (Hc _ _ _ Hi He) as (j & Hj & Hy). exists j. split; [done|]. rewrite lookup_app_l; [done|]. by eapply lookup_lt_Some.
    + destruct (i - length new) as [|k] eqn:Ek; [|done]. simpl in Hi. injection Hi as <-.
      assert (Hy : y ∈ new) by (apply Hin; by apply succs_spec).
      apply elem_of_list_lookup in Hy as [j Hj]. exists j. split; [apply lookup_lt_Some in Hj; lia|].
      rewrite lookup_app_l; [done|]. by eapply lookup_lt_Some.
Qed.

(** a successful search from [t] with an empty visited set: [t] lies on no cycle *)
Lemma dfs_no_cycle es fuel t v : cycle_dfs fuel es t [] = Some v → ¬ tc (edge es) t t.
Proof.
  intros H Hc. apply cycle_dfs_spec in H as (new & -> & Hnd & Hcl).
  rewrite app_nil_r in Hnd. specialize (Hnd (NoDup_nil_2)).
  assert (Hpath : ∀ x z, tc (edge es) x z → ∀ i, (new ++ [t]) !! i = Some x → ∃ j, j < i ∧ (new ++ [t]) !! j = Some z).
  { induction 1 as [x z He|x y z He _ IHt]; intros i Hi; [by eapply Hcl|].
    destruct (Hcl _ _ _ Hi He) as (j & Hj & Hy). destruct (IHt _ Hy) as (k & Hk & Hz). exists k. split; [lia|done]. }
  assert (Ht : (new ++ [t]) !! length new = Some t).
  { rewrite lookup_app_r by lia. by rewrite Nat.sub_diag. }
  destruct (Hpath _ _ Hc _ Ht) as (j & Hj & Hz).
  assert (j = length new) by (eapply NoDup_lookup; done). lia.
Qed.

(** ** the edge set stays acyclic *)
Definition acyclic_es (es : edges) : Prop := ∀ x, ¬ tc (edge es) x x.

Lemma tc_new_edge es d n x y :
  tc (edge (es ++ [(d, n)])) x y → tc (edge es) x y ∨ (rtc (edge (es ++ [(d, n)])) x d ∧ rtc (edge (es ++ [(d, n)])) n y).
Proof.
  induction 1 as [x y He|x z y He Htc IHt].
  - unfold edge in He. apply elem_of_app in He as [He|He].
    + left. by apply tc_once.
    + apply elem_of_list_singleton in He. injection He as -> ->. right. done.
  - unfold edge in He. apply elem_of_app in He as [He|He].
    + destruct IHt as [IHt|[Hzd Hny]].
      * left. by eapply tc_l.
      * right. split; [|done]. eapply rtc_l; [|exact Hzd]. apply elem_of_app. by left.
    + apply elem_of_list_singleton in He. injection He as -> ->. right. split; [done|]. by apply tc_rtc.
Qed.

Lemma add_edge_acyclic es fuel d n v :
  acyclic_es es → cycle_dfs fuel (es ++ [(d, n)]) n [] = Some v → acyclic_es (es ++ [(d, n)]).
Proof.
  intros Hac Hdfs x Hx. apply tc_new_edge in Hx as [Hx|[Hxd Hnx]]; [by eapply Hac|].
  eapply dfs_no_cycle; [exact Hdfs|].
  eapply tc_rtc_l; [exact Hnx|]. eapply tc_rtc_l; [exact Hxd|]. apply tc_once. apply elem_of_app. right. left.
Qed.

Lemma add_edges_acyclic fuel es n deps es' :
  acyclic_es es → add_edges fuel es n deps = Some es' →
  acyclic_es es' ∧ (∀ e, e ∈ es → e ∈ es') ∧ ∀ d, d ∈ deps → (d, n) ∈ es'.
Proof.
  revert es. induction deps as [|d deps IH]; intros es Hac H; simpl in H.
  - injection H as <-. split; [done|]. split; [done|]. by intros d Hd%elem_of_nil.
  - destruct (cycle_dfs fuel (es ++ [(d, n)]) n []) as [v|] eqn:E; [|done].
    destruct (IH _ (add_edge_acyclic _ _ _ _ _ Hac E) H) as (Hac' & Hsub & Hdeps).
    split; [done|]. split.
    + intros e He. apply Hsub, elem_of_app. by left.
    + intros d' Hd'. apply elem_of_cons in Hd' as [->|Hd']; [|by apply Hdeps]. apply Hsub, elem_of_app. right. left.
Qed.

Lemma add_stages_acyclic fuel es l es' :
  acyclic_es es → add_stages fuel es l = Some es' →
  acyclic_es es' ∧ (∀ e, e ∈ es → e ∈ es') ∧ ∀ n t d, (n, t) ∈ l → d ∈ td_deps t → (d, n) ∈ es'.
Proof.
  revert es. induction l as [|[n t] l IH]; intros es Hac H; simpl in H.
  - injection H as <-. split; [done|]. split; [done|]. by intros n t d Hin%elem_of_nil.
  - destruct (add_edges fuel es n (td_deps t)) as [es1|] eqn:E; [|done].
    destruct (add_edges_acyclic _ _ _ _ _ Hac E) as (Hac1 & Hsub1 & Hd1).
    destruct (IH _ Hac1 H) as (Hac' & Hsub' & Hd').
    split; [done|]. split; [by intros e He; apply Hsub', Hsub1|].
    intros n' t' d Hin Hd. apply elem_of_cons in Hin as [Heq|Hin]; [|by eapply Hd'].
    injection Heq as -> ->. by apply Hsub', Hd1.
Qed.

Lemma lookup_task_elem l n t : lookup_task l n = Some t → (n, t) ∈ l.
Proof.
  induction l as [|[m t'] l IH]; simpl; [done|]. destruct (Nat.eqb_spec m n) as [->|Hne].
  - intros [= ->]. left.
  - intros H. right. by apply IH.
Qed.

Lemma lookup_task_NoDup l n t : NoDup (map fst l) → (n, t) ∈ l → lookup_task l n = Some t.
Proof.
  induction l as [|[m t'] l IH]; simpl; intros Hnd Hin; [by apply elem_of_nil in Hin|].
  apply NoDup_cons in Hnd as [Hm Hnd]. apply elem_of_cons in Hin as [Heq|Hin].
  - injection Heq as -> ->. by rewrite Nat.eqb_refl.
  - destruct (Nat.eqb_spec m n) as [->|Hne]; [|by apply IH].
    exfalso. apply Hm. apply elem_of_list_fmap. by exists (n, t).
Qed.

Lemma acyclic_es_nil : acyclic_es [].
Proof. intros x Hx. inversion Hx as [? ? He|? ? ? He]; by apply elem_of_nil in He. Qed.

Lemma tc_dep_edge l es x y :
  (∀ n t d, (n, t) ∈ l → d ∈ td_deps t → (d, n) ∈ es) → tc (dep_on l) x y → tc (edge es) y x.
Proof.
  intros Hd. induction 1 as [x y (t & Ht & Hin)|x z y (t & Ht & Hin) _ IHt].
  - apply tc_once. eapply Hd; [by apply lookup_task_elem|done].
  - eapply tc_r; [exact IHt|]. eapply Hd; [by apply lookup_task_elem|done].
Qed.

(** a list the graph builder accepts has an acyclic dependency relation (whatever its order) *)
Theorem accepted_acyclic l : build_graph_ok l = true → acyclic l.
Proof.
  unfold build_graph_ok. destruct (add_stages _ [] l) as [es|] eqn:E; [|done]. intros _.
  destruct (add_stages_acyclic _ _ _ _ acyclic_es_nil E) as (Hac & _ & Hd).
  intros n Hn. apply (Hac n). by eapply tc_dep_edge.
Qed.

(** a decision procedure for closedness (used for examples) *)
Definition closedb (ts : tasks) : bool :=
  forallb (fun nt => forallb (fun d => match lookup_task ts d with Some _ => true | None => false end) (td_deps (snd nt))) ts.
Lemma closedb_spec ts : closedb ts = true → deps_closed ts.
Proof.
  unfold closedb. rewrite forallb_forall. intros H n t d Hin Hd.
  apply elem_of_list_In in Hin. specialize (H _ Hin). simpl in H. rewrite forallb_forall in H.
  apply elem_of_list_In in Hd. specialize (H _ Hd). destruct (lookup_task ts d) as [t'|]; [by exists t'|done].
Qed.

(** * Graph: task ordering (prunner.go sortTasksByDependencies) and execution-graph construction with cycle
    detection (prunner.go buildPipelineGraph; upstream scheduler.NewExecutionGraph / AddStage / addEdge / cycleDfs).

    Model only. Task names are [nat]s; the harness maps them to fixed-width strings whose byte order is the
    order of the numbers. *)
From stdpp Require Import list relations.
From Coq Require Import ZArith.

Definition name := nat.

(** A task definition as far as the runner logic is concerned. [td_script] and [td_env] identify the script
    text and the task environment (opaque payloads that must reach the runner unchanged, C16/C18). *)
Record taskdef := TaskDef {
  td_deps : list name;
  td_allow : bool;
  td_empty : bool;          (* the script has no command *)
  td_script : nat;
  td_env : nat }.

Definition tasks := list (name * taskdef).

Fixpoint lookup_task (ts : tasks) (n : name) : option taskdef :=
  match ts with
  | [] => None
  | (m, t) :: ts => if Nat.eqb m n then Some t else lookup_task ts n
  end.

Definition mem (n : name) (l : list name) : bool := existsb (Nat.eqb n) l.
Definition remove_name (n : name) (l : list name) : list name := List.filter (fun m => negb (Nat.eqb m n)) l.

(** insertion into a list sorted by [<=] (sort.Strings on the queue) *)
Fixpoint insert_sorted (n : name) (l : list name) : list name :=
  match l with
  | [] => [n]
  | m :: l' => if Nat.leb n m then n :: l else m :: insert_sorted n l'
  end.
Definition sort_names (l : list name) : list name := foldr insert_sorted [] l.

(** ** Kahn's algorithm as written in sortTasksByDependencies.
    [inc]: the incoming sets; [queue]: kept sorted; [i]: next rank; [order]: assigned ranks. *)
Definition dedup (l : list name) : list name := foldr (fun n acc => if mem n acc then acc else n :: acc) [] l.

Fixpoint kahn (fuel : nat) (inc : list (name * list name)) (queue : list name) (i : nat)
    (order : list (name * nat)) : list (name * nat) :=
  match fuel with
  | 0 => order
  | S fuel =>
      match queue with
      | [] => order
      | n :: q =>
          let inc' := map (fun mi => (fst mi, remove_name n (snd mi))) inc in
          let newly := map fst (List.filter (fun mi => mem n (snd mi) && match remove_name n (snd mi) with [] => true | _ => false end) inc) in
          kahn fuel inc' (sort_names (q ++ newly)) (S i) ((n, i) :: order)
      end
  end.

Fixpoint rank_of (order : list (name * nat)) (n : name) : nat :=
  match order with
  | [] => 0                         (* tasks never processed (on or behind a cycle) keep rank 0 *)
  | (m, r) :: o => if Nat.eqb m n then r else rank_of o n
  end.

Definition task_ranks (ts : tasks) : list (name * nat) :=
  let inc := map (fun nt => (fst nt, dedup (td_deps (snd nt)))) ts in
  let q0 := sort_names (map fst (List.filter (fun mi => match snd mi with [] => true | _ => false end) inc)) in
  kahn (length ts) inc q0 0 [].

(** the final sort.Slice by (rank, name) — a total order on distinct names, so the unstable sort is deterministic *)
Definition key_le (k1 k2 : nat * name) : bool :=
  if Nat.eqb (fst k1) (fst k2) then Nat.leb (snd k1) (snd k2) else Nat.ltb (fst k1) (fst k2).

Fixpoint insert_task (ranks : list (name * nat)) (x : name * taskdef) (l : tasks) : tasks :=
  match l with
  | [] => [x]
  | y :: l' => if key_le (rank_of ranks (fst x), fst x) (rank_of ranks (fst y), fst y) then x :: l else y :: insert_task ranks x l'
  end.

Definition sort_tasks (ts : tasks) : tasks :=
  let ranks := task_ranks ts in foldr (insert_task ranks) [] ts.

(** ** Execution graph construction: stages are added in the given order; every dependency adds an edge
    dep -> stage followed by a depth-first search from the stage along the edges added so far, with one shared
    visited set per search; meeting a visited node again is reported as a cycle. *)
Definition edges := list (name * name).          (* (from, to), in insertion order *)
Definition succs (es : edges) (n : name) : list name := map snd (List.filter (fun e => Nat.eqb (fst e) n) es).

(** [None] = ErrCycleDetected. [fuel] bounds the recursion depth; a search that does not report a cycle marks a
    new node on every call, so depth ≤ number of nodes + 1. Running out of fuel is reported as a cycle and is
    excluded by the theorems (it cannot happen with the fuel [build_graph] passes). *)
Fixpoint cycle_dfs (fuel : nat) (es : edges) (t : name) (visited : list name) : option (list name) :=
  match fuel with
  | 0 => None
  | S fuel =>
      if mem t visited then None
      else
        (fix go (nexts : list name) (visited : list name) : option (list name) :=
           match nexts with
           | [] => Some visited
           | n :: nexts => match cycle_dfs fuel es n visited with
                           | None => None
                           | Some v => go nexts v
                           end
           end) (succs es t) (t :: visited)
  end.

Fixpoint add_edges (fuel : nat) (es : edges) (stage : name) (deps : list name) : option edges :=
  match deps with
  | [] => Some es
  | d :: deps =>
      let es' := es ++ [(d, stage)] in
      match cycle_dfs fuel es' stage [] with
      | None => None
      | Some _ => add_edges fuel es' stage deps
      end
  end.

Fixpoint add_stages (fuel : nat) (es : edges) (ts : tasks) : option edges :=
  match ts with
  | [] => Some es
  | (n, t) :: ts => match add_edges fuel es n (td_deps t) with
                    | None => None
                    | Some es' => add_stages fuel es' ts
                    end
  end.

(** NewExecutionGraph on the job's (sorted) task list: [true] = graph built *)
Definition build_graph_ok (ts : tasks) : bool :=
  match add_stages (S (S (length ts))) [] ts with Some _ => true | None => false end.

(** ** Specification side *)
(** [n] depends (directly) on [d] *)
Definition dep_on (ts : tasks) (n d : name) : Prop :=
  ∃ t, lookup_task ts n = Some t ∧ d ∈ td_deps t.

(** dependencies are closed: every dependency names a task of the same pipeline (what validate guarantees) *)
Definition deps_closed (ts : tasks) : Prop :=
  ∀ n t d, (n, t) ∈ ts → d ∈ td_deps t → ∃ t', lookup_task ts d = Some t'.

Definition acyclic (ts : tasks) : Prop := ∀ n, ¬ tc (dep_on ts) n n.

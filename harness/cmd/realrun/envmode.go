package main

func envMode(seed uint64, rounds int) {}

(** * System: the pipeline runner state machine (prunner.go) together with the per-job scheduler
    (taskctl/scheduler.go) and the contract of the task runner (taskctl/runner.go), at the granularity of
    one event = one goroutine running from park point to park point (DESIGN.md section 2).

    Model only: total computable functions, no proofs. The model is of the code as repaired by the fix:
    commits; the unrepaired variants needed for the [_refuted] witnesses are at the end. *)
From stdpp Require Import list.
From Coq Require Import ZArith.
From PV Require Export Graph.
Local Open Scope Z_scope.

(** ** Definitions *)
Record pdef := PDef {
  pd_conc : nat;
  pd_qlimit : option nat;
  pd_replace : bool;
  pd_delay : nat;                 (* start delay in ticks of the logical clock; 0 = none *)
  pd_continue : bool;             (* continue_running_tasks_after_failure *)
  pd_retp : Z;                    (* retention period in ticks; 0 = none *)
  pd_retc : nat;                  (* retention count; 0 = none *)
  pd_env : nat;
  pd_tasks : tasks }.

Definition defs := list (name * pdef).
Fixpoint lookup_def (ds : defs) (p : name) : option pdef :=
  match ds with
  | [] => None
  | (q, d) :: ds => if Nat.eqb q p then Some d else lookup_def ds p
  end.
(** r.defs.Pipelines[p] of a missing key: the zero value *)
Definition zero_def : pdef := PDef 0 None false 0 false 0 0 0 [].
Definition def_or_zero (ds : defs) (p : name) : pdef := default zero_def (lookup_def ds p).

(** ** Jobs *)
Inductive err := ECanceled | EFail | EGraph.           (* context.Canceled / a task failed / graph build error *)
Inductive status := Waiting | Running | Skipped | Done | Error | Canceled.
Inductive vkind := VNone | VPlain (n : nat) | VReserved.   (* job variables; VReserved: contain the name "__jobID" *)

Global Instance err_eq_dec : EqDecision err. Proof. solve_decision. Defined.
Global Instance status_eq_dec : EqDecision status. Proof. solve_decision. Defined.
Global Instance vkind_eq_dec : EqDecision vkind. Proof. solve_decision. Defined.

Record jtask := JTask {
  jt_name : name;
  jt_def : taskdef;
  jt_status : status;
  jt_start : option Z;
  jt_end : option Z;
  jt_skipped : bool;
  jt_exit : Z;
  jt_errored : bool;
  jt_err : option err;
  jt_canceled : bool }.

Inductive phase :=
  | PTop                          (* parked at the top of the loop body (before the cancelled check) *)
  | PScan (todo : list name)      (* inside the range over the stages; [todo] not yet visited *)
  | PExited.                      (* loop left; waiting for the stage goroutines, then parked before returning *)

Record sched := Sched {
  sc_stages : list (name * status);     (* stage statuses of the execution graph *)
  sc_cancelled : bool;                  (* Scheduler.cancelled *)
  sc_ctx : bool;                        (* the runner's context is canceled: running tasks have been told to stop *)
  sc_phase : phase;
  sc_entry : list name;                 (* stage goroutines parked at the entry of Run *)
  sc_running : list name;               (* Run in progress (task started, not finished) *)
  sc_lasterr : option err;
  sc_ending : list (name * option err * bool) }.
                                        (* stage goroutines whose Run has returned (with this result) and that are parked
                                           before a stage-change notification; the flag: the error of an allow_failure
                                           stage has been notified, "done" is next *)

Record job := Job {
  j_pipe : name;
  j_created : Z;
  j_start : option Z;
  j_end : option Z;
  j_completed : bool;
  j_canceled : bool;
  j_delay : nat;
  j_timer : bool;                       (* startTimer != nil *)
  j_tasks : list jtask;
  j_env : nat;
  j_vars : vkind;
  j_user : nat;
  j_lasterr : option err;
  j_sched : option sched;               (* the scheduler goroutine of the job exists *)
  j_cancels : nat;                      (* cancel goroutines parked at the entry of Scheduler.Cancel *)
  j_cancel_req : bool;                  (* cancelRequested *)
  j_removed : bool }.                   (* deleted from the runner's maps by SaveToStore; its goroutines may live on *)

(** ghost history: what a client / the task runner could observe, newest first *)
Inductive obs :=
  | OAccepted (j : nat) (p : name)
  | ORejected (p : name)
  | OStarted (j : nat)
  | OReplaced (old new : nat)
  | ORunBegan (j : nat) (n : name)          (* a task actually began executing *)
  | ORunRefused (j : nat) (n : name)        (* Run entered after the stop was delivered: returned the context error *)
  | ORunEnded (j : nat) (n : name) (ok : bool)
  | OTold (j : nat)                         (* the job's running tasks were told to stop *)
  | OFinished (j : nat) (canceled : bool) (e : option err)
  | ORemoved (j : nat).

(** what the store holds for a job (store.PersistedJob / PersistedTask): no task environments, no pipeline
    environment, no start delay, no task-level canceled flag *)
Record ptask := PTask {
  pt_name : name; pt_deps : list name; pt_allow : bool; pt_empty : bool; pt_script : nat;
  pt_status : status; pt_start : option Z; pt_end : option Z; pt_skipped : bool; pt_exit : Z; pt_errored : bool;
  pt_err : option err }.
Record pjob := PJob {
  pj_id : nat; pj_pipe : name; pj_completed : bool; pj_canceled : bool; pj_created : Z; pj_start : option Z;
  pj_end : option Z; pj_vars : vkind; pj_user : nat; pj_lasterr : option err; pj_tasks : list ptask }.

Record state := State {
  st_defs : defs;
  st_jobs : list job;                   (* index = job id = acceptance order *)
  st_wait : list (name * list nat);     (* waitListByPipeline *)
  st_shut : bool;                       (* isShuttingDown *)
  st_now : Z;
  st_req : bool;                        (* a persist request was made by the current event *)
  st_ghost : list obs;
  st_store : option (list pjob);        (* content of the data store (None: never saved) *)
  st_logs : list nat;                   (* jobs that have a log directory in the output store *)
  st_shutg : option bool }.             (* a Shutdown call is in progress; Some true: its context has ended (forced) *)

(** ** Small accessors and updaters *)
Fixpoint wl_get (w : list (name * list nat)) (p : name) : list nat :=
  match w with
  | [] => []
  | (q, l) :: w => if Nat.eqb q p then l else wl_get w p
  end.
Fixpoint wl_set (w : list (name * list nat)) (p : name) (l : list nat) : list (name * list nat) :=
  match w with
  | [] => [(p, l)]
  | (q, l') :: w => if Nat.eqb q p then (q, l) :: w else (q, l') :: wl_set w p l
  end.

Definition get_job (s : state) (id : nat) : option job := st_jobs s !! id.
(** the job as the runner finds it in jobsByID *)
Definition find_job (s : state) (id : nat) : option job :=
  match get_job s id with Some j => if j_removed j then None else Some j | None => None end.
Definition set_jobs (s : state) (js : list job) : state :=
  State (st_defs s) js (st_wait s) (st_shut s) (st_now s) (st_req s) (st_ghost s) (st_store s) (st_logs s) (st_shutg s).
Definition upd_job (s : state) (id : nat) (f : job → job) : state := set_jobs s (alter f id (st_jobs s)).
Definition set_wait (s : state) (p : name) (l : list nat) : state :=
  State (st_defs s) (st_jobs s) (wl_set (st_wait s) p l) (st_shut s) (st_now s) (st_req s) (st_ghost s) (st_store s) (st_logs s) (st_shutg s).
Definition request_persist (s : state) : state :=
  State (st_defs s) (st_jobs s) (st_wait s) (st_shut s) (st_now s) true (st_ghost s) (st_store s) (st_logs s) (st_shutg s).
Definition log (s : state) (o : obs) : state :=
  State (st_defs s) (st_jobs s) (st_wait s) (st_shut s) (st_now s) (st_req s) (o :: st_ghost s) (st_store s) (st_logs s) (st_shutg s).

Definition is_running (j : job) : bool :=
  match j_start j with Some _ => negb (j_completed j) && negb (j_canceled j) | None => false end.
(** a job that is still waiting: not started and not canceled *)
Definition is_waiting (j : job) : bool :=
  match j_start j with Some _ => false | None => negb (j_canceled j) end.

(** runningJobsCount over jobsByPipeline[p] *)
Definition running_count (s : state) (p : name) : nat :=
  length (List.filter (fun j => Nat.eqb (j_pipe j) p && negb (j_removed j) && is_running j) (st_jobs s)).

(** ** The admission decision (resolveScheduleAction) *)
Inductive action := AStart | AQueue | AReplace | ANoQueue | AQueueFull.
Global Instance action_eq_dec : EqDecision action. Proof. solve_decision. Defined.

Definition resolve_action (s : state) (p : name) (ignore_delay : bool) : action :=
  let d := def_or_zero (st_defs s) p in
  let wl := wl_get (st_wait s) p in
  if Nat.leb (pd_conc d) (running_count s p) || (Nat.ltb 0 (pd_delay d) && negb ignore_delay) then
    match pd_qlimit d with
    | Some 0%nat => ANoQueue
    | ql =>
        if pd_replace d && negb (Nat.eqb (length wl) 0) then AReplace
        else match ql with
             | Some n => if Nat.leb n (length wl) then AQueueFull else AQueue
             | None => AQueue
             end
    end
  else AStart.

(** resolveDequeueJobAction *)
Definition resolve_dequeue (s : state) (j : job) : action :=
  resolve_action s (j_pipe j) (negb (j_timer j)).

(** isSchedulable *)
Definition schedulable (s : state) (p : name) : bool :=
  match resolve_action s p false with AStart | AQueue | AReplace => true | _ => false end.
Definition pipeline_running (s : state) (p : name) : bool := negb (Nat.eqb (running_count s p) 0).

(** ** Starting a job *)
Definition build_tasks (ts : tasks) : list jtask :=
  map (fun nt => JTask (fst nt) (snd nt) Waiting None None false 0 false None false) (sort_tasks ts).

Definition job_graph (j : job) : tasks := map (fun t => (jt_name t, jt_def t)) (j_tasks j).

(** buildPipelineGraph succeeds *)
Definition graph_ok (j : job) : bool :=
  match j_vars j, j_tasks j with
  | VReserved, _ :: _ => false          (* the reserved name is checked per task: a job without tasks passes *)
  | _, _ => build_graph_ok (job_graph j)
  end.

Definition init_sched (j : job) : sched :=
  let st := map (fun t => (jt_name t, Waiting)) (j_tasks j) in
  Sched st false false (match st with [] => PExited | _ => PTop end) [] [] None [].

(** startJob without the nested wait-list processing; the bool says whether the graph could not be built *)
Definition try_start (s : state) (id : nat) : state * bool :=
  match find_job s id with
  | None => (s, false)
  | Some j =>
      if j_canceled j then (s, false)
      else
        let s := request_persist s in
        if graph_ok j then
          let now := st_now s in
          (log (upd_job s id (fun j => Job (j_pipe j) (j_created j) (Some now) (j_end j) (j_completed j) (j_canceled j)
                                          (j_delay j) (j_timer j) (j_tasks j) (j_env j) (j_vars j) (j_user j) (j_lasterr j)
                                          (Some (init_sched j)) (j_cancels j) (j_cancel_req j) (j_removed j)))
               (OStarted id), false)
        else
          (log (upd_job s id (fun j => Job (j_pipe j) (j_created j) (j_start j) (j_end j) (j_completed j) true
                                          (j_delay j) (j_timer j) (j_tasks j) (j_env j) (j_vars j) (j_user j) (Some EGraph)
                                          (j_sched j) (j_cancels j) (j_cancel_req j) (j_removed j)))
               (OFinished id true (Some EGraph)), true)
  end.

(** startJobsOnWaitList: pop and start jobs from the head of the wait list while the head is eligible. A job that
    cannot be started (graph error) makes startJob process the wait list itself; with the wait list written
    back before startJob (repair of D1) the nested and the outer loop together are this single loop. The first
    argument only bounds the number of iterations (one per queued job). *)
Fixpoint dequeue_loop (fuel : list nat) (s : state) (p : name) : state :=
  match fuel with
  | [] => s
  | _ :: fuel =>
      match wl_get (st_wait s) p with
      | [] => s
      | h :: rest =>
          match get_job s h with
          | None => s
          | Some j =>
              if bool_decide (resolve_dequeue s j = AStart) && negb (j_timer j) then
                dequeue_loop fuel (fst (try_start (set_wait s p rest) h)) p
              else s
          end
      end
  end.
Definition dequeue (s : state) (p : name) : state := dequeue_loop (wl_get (st_wait s) p) s p.

(** startJob *)
Definition start_job (s : state) (id : nat) (p : name) : state :=
  let '(s', failed) := try_start s id in if failed then dequeue s' p else s'.

(** ** Events *)
Inductive outcome :=
  | OutOk                       (* all commands succeeded *)
  | OutFail (code : Z)          (* a command exited with a non-zero status *)
  | OutCtx.                     (* killed because the context was canceled *)

Inductive event :=
  | EvSchedule (p : name) (v : vkind) (user : nat)
  | EvCancel (id : nat)
  | EvTick (d : nat)
  | EvFireTimer (id : nat)
  | EvReload (ds : defs)
  | EvIterBegin (id : nat)
  | EvVisit (id : nat) (n : name)
  | EvRunBegin (id : nat) (n : name)
  | EvRunEnd (id : nat) (n : name) (o : outcome)
  | EvNotify (id : nat) (n : name)
  | EvCancelDeliver (id : nat)
  | EvSchedReturn (id : nat)
  | EvSave
  | EvRestart
  | EvShutdownBegin
  | EvShutdownForce
  | EvShutdownReturn.

Inductive result :=
  | RNone
  | RJob (id : nat)
  | ROk
  | RErrShutdown | RErrUndefined | RErrNoQueue | RErrQueueFull | RErrNotFound | RErrCompleted.
Global Instance result_eq_dec : EqDecision result. Proof. solve_decision. Defined.

(** *** ScheduleAsync *)
Definition new_job (s : state) (p : name) (d : pdef) (v : vkind) (user : nat) : job :=
  Job p (st_now s) None None false false (pd_delay d) (Nat.ltb 0 (pd_delay d)) (build_tasks (pd_tasks d))
      (pd_env d) v user None None 0 false false.

Definition set_canceled_notimer (j : job) : job :=
  Job (j_pipe j) (j_created j) (j_start j) (j_end j) (j_completed j) true (j_delay j) false (j_tasks j) (j_env j)
      (j_vars j) (j_user j) (j_lasterr j) (j_sched j) (j_cancels j) (j_cancel_req j) (j_removed j).

Definition do_schedule (s : state) (p : name) (v : vkind) (user : nat) : state * result :=
  if st_shut s then (s, RErrShutdown)
  else match lookup_def (st_defs s) p with
  | None => (log s (ORejected p), RErrUndefined)
  | Some d =>
      match resolve_action s p false with
      | ANoQueue => (log s (ORejected p), RErrNoQueue)
      | AQueueFull => (log s (ORejected p), RErrQueueFull)
      | act =>
          let id := length (st_jobs s) in
          let s1 := log (request_persist (set_jobs s (st_jobs s ++ [new_job s p d v user]))) (OAccepted id p) in
          match act with
          | AQueue => (set_wait s1 p (wl_get (st_wait s1) p ++ [id]), RJob id)
          | AReplace =>
              let wl := wl_get (st_wait s1) p in
              match last wl with
              | Some prev =>
                  (log (set_wait (upd_job s1 prev set_canceled_notimer) p (removelast wl ++ [id])) (OReplaced prev id), RJob id)
              | None => (s1, RJob id)     (* unreachable: AReplace needs a non-empty wait list *)
              end
          | _ => (start_job s1 id p, RJob id)
          end
      end
  end.

(** *** cancelJobInternal / CancelJob *)
Definition mark_canceled (j : job) : job :=
  Job (j_pipe j) (j_created j) (j_start j) (j_end j) (j_completed j) true (j_delay j) false
      (map (fun t => JTask (jt_name t) (jt_def t) (jt_status t) (jt_start t) (jt_end t) (jt_skipped t) (jt_exit t)
                            (jt_errored t) (jt_err t) true) (j_tasks j))
      (j_env j) (j_vars j) (j_user j) (j_lasterr j) (j_sched j) (j_cancels j) (j_cancel_req j) (j_removed j).

Definition add_cancel (by_request : bool) (j : job) : job :=
  Job (j_pipe j) (j_created j) (j_start j) (j_end j) (j_completed j) (j_canceled j) (j_delay j) (j_timer j) (j_tasks j)
      (j_env j) (j_vars j) (j_user j) (j_lasterr j) (j_sched j) (S (j_cancels j)) (j_cancel_req j || by_request) (j_removed j).

Definition remove_id (id : nat) (l : list nat) : list nat := List.filter (fun i => negb (Nat.eqb i id)) l.

(** [by_request]: CancelJob / forced shutdown (records the request on a running job); false: fail-fast *)
Definition cancel_job (s : state) (id : nat) (by_request : bool) : state * result :=
  match find_job s id with
  | None => (s, RErrNotFound)
  | Some j =>
      if j_canceled j then (s, ROk)
      else if j_completed j then (s, RErrCompleted)
      else match j_start j with
      | None =>
          let p := j_pipe j in
          let s1 := upd_job s id mark_canceled in
          let s2 := set_wait s1 p (remove_id id (wl_get (st_wait s1) p)) in
          let s3 := log s2 (OFinished id true None) in
          (request_persist (dequeue s3 p), ROk)
      | Some _ =>
          match j_sched j with
          | None => (s, ROk)            (* "failed assertion": unreachable *)
          | Some _ => (upd_job s id (add_cancel by_request), ROk)
          end
      end
  end.

(** *** StartDelayedJob *)
Definition clear_timer (j : job) : job :=
  Job (j_pipe j) (j_created j) (j_start j) (j_end j) (j_completed j) (j_canceled j) (j_delay j) false (j_tasks j)
      (j_env j) (j_vars j) (j_user j) (j_lasterr j) (j_sched j) (j_cancels j) (j_cancel_req j) (j_removed j).

Definition timer_due (s : state) (j : job) : bool :=
  j_timer j && (j_created j + Z.of_nat (j_delay j) <=? st_now s).

Definition do_fire_timer (s : state) (id : nat) : option state :=
  match get_job s id with
  | None => None
  | Some j =>
      if timer_due s j then
        match find_job s id with
        | None => Some (upd_job s id clear_timer)      (* job purged: "failed to find job"; the timer is spent *)
        | Some _ =>
            if j_canceled j then Some (upd_job s id clear_timer)   (* canceled at shutdown: nothing happens *)
            else Some (dequeue (upd_job s id clear_timer) (j_pipe j))
        end
      else None
  end.

(** *** Callbacks of a running job *)
Definition upd_task (j : job) (n : name) (f : jtask → jtask) : job :=
  Job (j_pipe j) (j_created j) (j_start j) (j_end j) (j_completed j) (j_canceled j) (j_delay j) (j_timer j)
      (map (fun t => if Nat.eqb (jt_name t) n then f t else t) (j_tasks j))
      (j_env j) (j_vars j) (j_user j) (j_lasterr j) (j_sched j) (j_cancels j) (j_cancel_req j) (j_removed j).

Definition set_sched (j : job) (sc : option sched) : job :=
  Job (j_pipe j) (j_created j) (j_start j) (j_end j) (j_completed j) (j_canceled j) (j_delay j) (j_timer j) (j_tasks j)
      (j_env j) (j_vars j) (j_user j) (j_lasterr j) sc (j_cancels j) (j_cancel_req j) (j_removed j).

Definition find_task (j : job) (n : name) : option jtask := find (fun t => Nat.eqb (jt_name t) n) (j_tasks j).

Definition to_status (st : status) : status := st.

(** HandleStageChange: the reported status follows the stage, unless the task is flagged canceled *)
Definition handle_stage_change (s : state) (id : nat) (n : name) (st : status) : state :=
  match find_job s id with
  | None => s
  | Some j =>
      match find_task j n with
      | None => s
      | Some _ =>
          request_persist (upd_job s id (fun j => upd_task j n (fun t =>
            JTask (jt_name t) (jt_def t) (if jt_canceled t then Canceled else st) (jt_start t) (jt_end t) (jt_skipped t)
                  (jt_exit t) (jt_errored t) (jt_err t) (jt_canceled t))))
      end
  end.

(** the fields of the task.Task object at the moment of a notification *)
Record tnote := TNote { tn_start : option Z; tn_end : option Z; tn_exit : Z; tn_errored : bool; tn_err : option err }.

(** HandleTaskChange *)
Definition handle_task_change (s : state) (id : nat) (n : name) (t : tnote) : state :=
  match find_job s id with
  | None => s
  | Some j =>
      match find_task j n with
      | None => s
      | Some _ =>
          let upd (jt : jtask) : jtask :=
            let st' := match tn_start t with Some x => Some x | None => jt_start jt end in
            let en' := match tn_end t with Some x => Some x | None => jt_end jt end in
            match tn_err t with
            | Some ECanceled => JTask (jt_name jt) (jt_def jt) (jt_status jt) st' en' false (tn_exit t) (jt_errored jt) (jt_err jt) true
            | e => JTask (jt_name jt) (jt_def jt) (jt_status jt) st' en' false (tn_exit t) (tn_errored t) e (jt_canceled jt)
            end in
          let s1 := upd_job s id (fun j => upd_task j n upd) in
          let errored := match find_job s1 id with
                         | Some j1 => match find_task j1 n with Some jt => jt_errored jt | None => false end
                         | None => false end in
          let s2 := if errored then
                      match lookup_def (st_defs s1) (j_pipe j) with
                      | Some d => if pd_continue d then s1 else fst (cancel_job s1 id false)
                      | None => s1
                      end
                    else s1 in
          request_persist s2
      end
  end.

Definition stage_status (sc : sched) (n : name) : option status :=
  snd <$> find (fun x => Nat.eqb (fst x) n) (sc_stages sc).
Definition set_stage (sc : sched) (n : name) (st : status) : sched :=
  Sched (map (fun x => if Nat.eqb (fst x) n then (fst x, st) else x) (sc_stages sc)) (sc_cancelled sc) (sc_ctx sc)
        (sc_phase sc) (sc_entry sc) (sc_running sc) (sc_lasterr sc) (sc_ending sc).
Definition set_phase (sc : sched) (ph : phase) : sched :=
  Sched (sc_stages sc) (sc_cancelled sc) (sc_ctx sc) ph (sc_entry sc) (sc_running sc) (sc_lasterr sc) (sc_ending sc).

(** isDone *)
Definition is_done (sc : sched) : bool :=
  forallb (fun x => match snd x with Waiting | Running => false | _ => true end) (sc_stages sc).

(** checkStatus: (ready, the stage gets marked canceled) — walks all dependencies (g.To), no early exit *)
Definition check_status (sc : sched) (j : job) (n : name) : bool * bool :=
  let deps := match find_task j n with Some t => td_deps (jt_def t) | None => [] end in
  fold_left (fun acc d =>
    match stage_status sc d with
    | Some Done | Some Skipped => acc
    | Some Error =>
        let allow := match find_task j d with Some t => td_allow (jt_def t) | None => false end in
        if allow then acc else (false, true)
    | Some Canceled => (false, true)
    | _ => (false, snd acc)
    end) deps (true, false).

Definition with_sched (s : state) (id : nat) (f : job → sched → option state) : option state :=
  match get_job s id with
  | Some j => match j_sched j with Some sc => f j sc | None => None end
  | None => None
  end.
Definition put_sched (s : state) (id : nat) (sc : sched) : state := upd_job s id (fun j => set_sched j (Some sc)).

(** top of the loop body: the cancelled check *)
Definition do_iter_begin (s : state) (id : nat) : option state :=
  with_sched s id (fun j sc =>
    match sc_phase sc with
    | PTop => Some (put_sched s id (set_phase sc (if sc_cancelled sc then PExited else PScan (map fst (sc_stages sc)))))
    | _ => None
    end).

(** one iteration of the range over the stages; after the last one: pause, isDone, next iteration or exit *)
Definition do_visit (s : state) (id : nat) (n : name) : option state :=
  with_sched s id (fun j sc =>
    match sc_phase sc with
    | PScan todo =>
        if mem n todo then
          let todo' := remove_name n todo in
          let '(s1, sc1) :=
            match stage_status sc n with
            | Some Waiting =>
                let '(ready, cancel) := check_status sc j n in
                if ready then
                  let sc1 := set_stage sc n Running in
                  let sc1 := Sched (sc_stages sc1) (sc_cancelled sc1) (sc_ctx sc1) (sc_phase sc1) (sc_entry sc1 ++ [n])
                                   (sc_running sc1) (sc_lasterr sc1) (sc_ending sc1) in
                  (handle_stage_change s id n Running, sc1)
                else if cancel then (s, set_stage sc n Canceled) else (s, sc)
            | _ => (s, sc)
            end in
          let ph := match todo' with
                    | [] => if is_done sc1 then PExited else PTop
                    | _ => PScan todo'
                    end in
          Some (put_sched s1 id (set_phase sc1 ph))
        else None
    | _ => None
    end).

(** the stage goroutine after Run returned [r]: the stage status is stored and the goroutine is about to notify it *)
Definition stage_end (s : state) (id : nat) (n : name) (r : option err) : state :=
  match get_job s id with
  | None => s
  | Some j =>
      match j_sched j with
      | None => s
      | Some sc =>
          let sc1 := set_stage sc n (match r with Some _ => Error | None => Done end) in
          put_sched s id (Sched (sc_stages sc1) (sc_cancelled sc1) (sc_ctx sc1) (sc_phase sc1) (remove_name n (sc_entry sc1))
                                (remove_name n (sc_running sc1)) (sc_lasterr sc1) (sc_ending sc1 ++ [(n, r, false)]))
      end
  end.

Definition ending_of (sc : sched) (n : name) : option (option err * bool) :=
  (fun x : name * option err * bool => (x.1.2, x.2)) <$> find (fun x : name * option err * bool => Nat.eqb x.1.1 n) (sc_ending sc).
Definition drop_ending (sc : sched) (n : name) (next : list (name * option err * bool)) (le : option err) : sched :=
  Sched (sc_stages sc) (sc_cancelled sc) (sc_ctx sc) (sc_phase sc) (sc_entry sc) (sc_running sc) le
        (List.filter (fun x : name * option err * bool => negb (Nat.eqb x.1.1 n)) (sc_ending sc) ++ next).

(** a parked stage goroutine delivers its stage-change notification (HandleStageChange) and goes on: an errored
    allow_failure stage becomes "done" and is notified once more; otherwise the goroutine ends (wg.Done) *)
Definition do_notify (s : state) (id : nat) (n : name) : option state :=
  with_sched s id (fun j sc =>
    match ending_of sc n with
    | None => None
    | Some (r, second) =>
        let allow := match find_task j n with Some t => td_allow (jt_def t) | None => false end in
        match r, second with
        | Some e, false =>
            let s1 := handle_stage_change s id n Error in
            if allow then Some (put_sched s1 id (drop_ending (set_stage sc n Done) n [(n, r, true)] (sc_lasterr sc)))
            else Some (put_sched s1 id (drop_ending sc n [] (Some e)))
        | _, _ =>
            Some (handle_stage_change (put_sched s id (drop_ending sc n [] (sc_lasterr sc))) id n Done)
        end
    end).

Definition add_log_dir (s : state) (id : nat) : state :=
  State (st_defs s) (st_jobs s) (st_wait s) (st_shut s) (st_now s) (st_req s) (st_ghost s) (st_store s)
        (if existsb (Nat.eqb id) (st_logs s) then st_logs s else st_logs s ++ [id]) (st_shutg s).

(** the stage goroutine enters Run *)
Definition do_run_begin (s : state) (id : nat) (n : name) : option state :=
  with_sched s id (fun j sc =>
    if mem n (sc_entry sc) then
      if sc_ctx sc then
        (* ctx.Err() != nil: return it, nothing is notified *)
        Some (stage_end (log s (ORunRefused id n)) id n (Some ECanceled))
      else
        let empty := match find_task j n with Some t => td_empty (jt_def t) | None => true end in
        let s := add_log_dir s id in        (* the task's output files are created in the job's log directory *)
        if empty then
          (* no command: nothing is executed and nothing is notified *)
          Some (stage_end (log (log s (ORunBegan id n)) (ORunEnded id n true)) id n None)
        else
          let sc1 := Sched (sc_stages sc) (sc_cancelled sc) (sc_ctx sc) (sc_phase sc) (remove_name n (sc_entry sc))
                           (sc_running sc ++ [n]) (sc_lasterr sc) (sc_ending sc) in
          let s1 := put_sched (log s (ORunBegan id n)) id sc1 in
          Some (handle_task_change s1 id n (TNote (Some (st_now s)) None (-1) false None))
    else None).

(** the task's commands end *)
Definition do_run_end (s : state) (id : nat) (n : name) (o : outcome) : option state :=
  with_sched s id (fun j sc =>
    if mem n (sc_running sc) then
      let allow := match find_task j n with Some t => td_allow (jt_def t) | None => false end in
      let start := match find_task j n with Some t => jt_start t | None => None end in
      let now := st_now s in
      match o with
      | OutOk =>
          let s1 := handle_task_change (log s (ORunEnded id n true)) id n (TNote start (Some now) (-1) false None) in
          Some (stage_end s1 id n None)
      | OutFail code =>
          if allow then
            let s1 := handle_task_change (log s (ORunEnded id n true)) id n (TNote start None code false None) in
            let s2 := handle_task_change s1 id n (TNote start (Some now) code false None) in
            Some (stage_end s2 id n None)
          else
            let s1 := handle_task_change (log s (ORunEnded id n false)) id n (TNote start None code true (Some EFail)) in
            Some (stage_end s1 id n (Some EFail))
      | OutCtx =>
          if sc_ctx sc then
            let s1 := handle_task_change (log s (ORunEnded id n false)) id n (TNote start None (-1) true (Some ECanceled)) in
            Some (stage_end s1 id n (Some ECanceled))
          else None
      end
    else None).

(** a cancel goroutine runs Scheduler.Cancel: the flag, then the runner's context *)
Definition do_cancel_deliver (s : state) (id : nat) : option state :=
  match get_job s id with
  | None => None
  | Some j =>
      match j_cancels j with
      | O => None
      | S k =>
          let dec (j : job) := Job (j_pipe j) (j_created j) (j_start j) (j_end j) (j_completed j) (j_canceled j) (j_delay j)
                                   (j_timer j) (j_tasks j) (j_env j) (j_vars j) (j_user j) (j_lasterr j) (j_sched j) k
                                   (j_cancel_req j) (j_removed j) in
          let s1 := upd_job s id dec in
          match j_sched j with
          | None => Some s1                 (* the job has completed meanwhile: nothing left to cancel *)
          | Some sc =>
              Some (log (put_sched s1 id (Sched (sc_stages sc) true true (sc_phase sc) (sc_entry sc) (sc_running sc) (sc_lasterr sc) (sc_ending sc)))
                        (OTold id))
          end
      end
  end.

(** Schedule returns, JobCompleted *)
Definition complete (now : Z) (e : option err) (j : job) : job :=
  Job (j_pipe j) (j_created j) (j_start j) (Some now) true
      (j_canceled j || bool_decide (e = Some ECanceled) || j_cancel_req j)
      (j_delay j) (j_timer j) (j_tasks j) (j_env j) (j_vars j) (j_user j) e None (j_cancels j) (j_cancel_req j) (j_removed j).

Definition do_sched_return (s : state) (id : nat) : option state :=
  with_sched s id (fun j sc =>
    match sc_phase sc, sc_entry sc, sc_running sc, sc_ending sc with
    | PExited, [], [], [] =>
        let s1 := upd_job s id (complete (st_now s) (sc_lasterr sc)) in
        if j_removed j then Some s1        (* JobCompleted does not find the job: returns early *)
        else
          let canceled := j_canceled j || bool_decide (sc_lasterr sc = Some ECanceled) || j_cancel_req j in
          Some (request_persist (dequeue (log s1 (OFinished id canceled (sc_lasterr sc))) (j_pipe j)))
    | _, _, _, _ => None
    end).

(** ** Persistence: SaveToStore (retention), restart from the store, shutdown *)
Definition to_ptask (t : jtask) : ptask :=
  PTask (jt_name t) (td_deps (jt_def t)) (td_allow (jt_def t)) (td_empty (jt_def t)) (td_script (jt_def t))
        (jt_status t) (jt_start t) (jt_end t) (jt_skipped t) (jt_exit t) (jt_errored t) (jt_err t).
Definition to_pjob (id : nat) (j : job) : pjob :=
  PJob id (j_pipe j) (j_completed j) (j_canceled j) (j_created j) (j_start j) (j_end j) (j_vars j) (j_user j) (j_lasterr j)
       (map to_ptask (j_tasks j)).

Definition from_ptask (t : ptask) : jtask :=
  JTask (pt_name t) (TaskDef (pt_deps t) (pt_allow t) (pt_empty t) (pt_script t) 0) (pt_status t) (pt_start t) (pt_end t)
        (pt_skipped t) (pt_exit t) (pt_errored t) (pt_err t) false.
(** buildJobFromPersistedJob followed by the normalisation of initialLoadFromStore *)
Definition from_pjob (pj : pjob) : job :=
  let was_running := match pj_start pj with Some _ => negb (pj_completed pj) && negb (pj_canceled pj) | None => false end in
  let tasks := map from_ptask (pj_tasks pj) in
  let tasks := if was_running
               then map (fun t => match jt_status t with
                                  | Waiting | Running => JTask (jt_name t) (jt_def t) Canceled (jt_start t) (jt_end t) (jt_skipped t)
                                                               (jt_exit t) (jt_errored t) (jt_err t) (jt_canceled t)
                                  | _ => t end) tasks
               else tasks in
  let canceled := pj_canceled pj || was_running || match pj_start pj with None => true | Some _ => false end in
  Job (pj_pipe pj) (pj_created pj) (pj_start pj) (pj_end pj) (pj_completed pj) canceled 0 false tasks 0 (pj_vars pj) (pj_user pj)
      (pj_lasterr pj) None 0 false false.

(** the wall clock does not advance noticeably during a controlled run: jobs loaded from an earlier run have the age
    they were given (negative creation time), jobs of this run have age 0 *)
Definition age (j : job) : Z := Z.max 0 (- j_created j).

(** position of the job in its pipeline's list sorted newest first (all jobs count, finished or not) *)
Definition rank (s : state) (id : nat) (j : job) : nat :=
  length (List.filter (fun ij => Nat.eqb (j_pipe (snd ij)) (j_pipe j) && negb (j_removed (snd ij)) && Nat.ltb id (fst ij))
                      (imap (fun i j => (i, j)) (st_jobs s))).

(** determineIfJobShouldBeRemoved *)
Definition should_remove (s : state) (id : nat) (j : job) : bool :=
  match lookup_def (st_defs s) (j_pipe j) with
  | None => negb (is_running j)      (* a running job of a removed pipeline is kept until it has finished *)
  | Some d =>
      if is_waiting j then false
      else if negb (j_completed j) && negb (j_canceled j) then false
      else ((0 <? pd_retp d) && (pd_retp d <? age j)) || (Nat.ltb 0 (pd_retc d) && Nat.leb (pd_retc d) (rank s id j))
  end.

Definition remove_job (j : job) : job :=
  Job (j_pipe j) (j_created j) (j_start j) (j_end j) (j_completed j) (j_canceled j) (j_delay j) false (j_tasks j) (j_env j)
      (j_vars j) (j_user j) (j_lasterr j) (j_sched j) (j_cancels j) (j_cancel_req j) true.

Definition do_save (s : state) : state :=
  let rm := List.filter (fun ij => negb (j_removed (snd ij)) && should_remove s (fst ij) (snd ij)) (imap (fun i j => (i, j)) (st_jobs s)) in
  let rmids := map fst rm in
  let jobs' := imap (fun i j => if existsb (Nat.eqb i) rmids then remove_job j else j) (st_jobs s) in
  let wait' := map (fun pl => (fst pl, List.filter (fun i => negb (existsb (Nat.eqb i) rmids)) (snd pl))) (st_wait s) in
  let logs' := List.filter (fun i => negb (existsb (Nat.eqb i) rmids)) (st_logs s) in
  let stored := omap (fun ij => if j_removed (snd ij) then None else Some (to_pjob (fst ij) (snd ij))) (imap (fun i j => (i, j)) jobs') in
  State (st_defs s) jobs' wait' (st_shut s) (st_now s) (st_req s) (map ORemoved rmids ++ st_ghost s) (Some stored) logs' (st_shutg s).

(** no goroutine of the runner is left: nothing holds its wait group *)
Definition all_quiet (s : state) : bool :=
  forallb (fun j => match j_sched j with None => Nat.eqb (j_cancels j) 0 | Some _ => false end) (st_jobs s).

Definition any_running (s : state) : bool :=
  existsb (fun j => negb (j_removed j) && is_running j) (st_jobs s).

(** a new runner on the same store (NewPipelineRunner / initialLoadFromStore); jobs that are not in the store are gone *)
(** a job that the store does not know: it is gone (the record only keeps the job ids stable) *)
Definition tombstone (j : job) : job :=
  Job (j_pipe j) (j_created j) (j_start j) (j_end j) (j_completed j) true (j_delay j) false (j_tasks j) (j_env j)
      (j_vars j) (j_user j) (j_lasterr j) None 0 false true.

Definition do_restart (s : state) : option state :=
  match st_shutg s with
  | None =>
      if all_quiet s then
        let pjs := default [] (st_store s) in       (* no store file: an empty state is loaded *)
        let jobs' := imap (fun i j => match find (fun pj => Nat.eqb (pj_id pj) i) pjs with
                                      | Some pj => from_pjob pj
                                      | None => tombstone j
                                      end) (st_jobs s) in
        Some (State (st_defs s) jobs' [] false (st_now s) false (st_ghost s) (st_store s) (st_logs s) None)
      else None
  | _ => None
  end.

Definition set_canceled (j : job) : job :=
  Job (j_pipe j) (j_created j) (j_start j) (j_end j) (j_completed j) true (j_delay j) (j_timer j) (j_tasks j) (j_env j)
      (j_vars j) (j_user j) (j_lasterr j) (j_sched j) (j_cancels j) (j_cancel_req j) (j_removed j).

(** first critical section of Shutdown: no more admissions, waiting jobs are marked canceled, wait lists deleted *)
Definition do_shutdown_begin (s : state) : option state :=
  match st_shutg s with
  | Some _ => None
  | None =>
      if st_shut s then None
      else
        (* every job on the wait list of its pipeline *)
        let jobs' := imap (fun i j => if existsb (Nat.eqb i) (wl_get (st_wait s) (j_pipe j)) then set_canceled j else j) (st_jobs s) in
        Some (State (st_defs s) jobs' [] true (st_now s) (st_req s) (st_ghost s) (st_store s) (st_logs s) (Some false))
  end.

(** the context of Shutdown ends while a pipeline is still running: every job gets a cancel request *)
Definition do_shutdown_force (s : state) : option state :=
  match st_shutg s with
  | Some false =>
      if any_running s then
        let s' := fold_left (fun s id => fst (cancel_job s id true)) (seq 0 (length (st_jobs s))) s in
        Some (State (st_defs s') (st_jobs s') (st_wait s') (st_shut s') (st_now s') (st_req s') (st_ghost s') (st_store s')
                    (st_logs s') (Some true))
      else None
  | _ => None
  end.

(** Shutdown returns: no pipeline is running any more (or the shutdown was forced), nothing holds the wait group;
    a final save is made *)
Definition do_shutdown_return (s : state) : option state :=
  match st_shutg s with
  | Some forced =>
      if (forced || negb (any_running s)) && all_quiet s then
        let s' := do_save s in
        Some (State (st_defs s') (st_jobs s') (st_wait s') (st_shut s') (st_now s') (st_req s') (st_ghost s') (st_store s')
                    (st_logs s') None)
      else None
  | None => None
  end.

(** a runner created on a store that already holds jobs (from an earlier run) *)
Definition init_from (ds : defs) (pjs : list pjob) : state :=
  State ds (map from_pjob pjs) [] false 0 false [] (Some pjs)
        (map pj_id (List.filter (fun pj => match pj_start pj with Some _ => true | None => false end) pjs)) None.

(** ** The step function. [None]: the event is not enabled in this state. *)
Definition clear_req (s : state) : state :=
  State (st_defs s) (st_jobs s) (st_wait s) (st_shut s) (st_now s) false (st_ghost s) (st_store s) (st_logs s) (st_shutg s).

Definition step (s0 : state) (e : event) : option (state * result) :=
  let s := clear_req s0 in
  match e with
  | EvSchedule p v u => Some (do_schedule s p v u)
  | EvCancel id => Some (cancel_job s id true)
  | EvTick d => Some (State (st_defs s) (st_jobs s) (st_wait s) (st_shut s) (st_now s + Z.of_nat d) false (st_ghost s) (st_store s) (st_logs s) (st_shutg s), RNone)
  | EvFireTimer id => (fun s' => (s', RNone)) <$> do_fire_timer s id
  | EvReload ds => Some (State ds (st_jobs s) (st_wait s) (st_shut s) (st_now s) false (st_ghost s) (st_store s) (st_logs s) (st_shutg s), RNone)
  | EvIterBegin id => (fun s' => (s', RNone)) <$> do_iter_begin s id
  | EvVisit id n => (fun s' => (s', RNone)) <$> do_visit s id n
  | EvRunBegin id n => (fun s' => (s', RNone)) <$> do_run_begin s id n
  | EvRunEnd id n o => (fun s' => (s', RNone)) <$> do_run_end s id n o
  | EvNotify id n => (fun s' => (s', RNone)) <$> do_notify s id n
  | EvCancelDeliver id => (fun s' => (s', RNone)) <$> do_cancel_deliver s id
  | EvSchedReturn id => (fun s' => (s', RNone)) <$> do_sched_return s id
  | EvSave => Some (do_save s, RNone)
  | EvRestart => (fun s' => (s', RNone)) <$> do_restart s
  | EvShutdownBegin => (fun s' => (s', RNone)) <$> do_shutdown_begin s
  | EvShutdownForce => (fun s' => (s', RNone)) <$> do_shutdown_force s
  | EvShutdownReturn => (fun s' => (s', RNone)) <$> do_shutdown_return s
  end.

Definition init (ds : defs) : state := State ds [] [] false 0 false [] None [] None.

(** run a history, skipping events that are not enabled *)
Definition exec (s : state) (evs : list event) : state :=
  fold_left (fun s e => match step s e with Some (s', _) => s' | None => s end) evs s.

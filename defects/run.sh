#!/bin/bash
# usage: defects/run.sh <testfile> <pkgdir-relative-to-repo> [repo]  — copies a demonstration into the repo, runs it, removes it
export GOFLAGS=-mod=mod GOPROXY=off GOSUMDB=off GOTOOLCHAIN=local
f=$1; pkg=${2:-.}; repo=${3:-/repo}
cp "$(dirname "$0")/$f" "$repo/$pkg/zz_defects_test.go"
(cd "$repo/$pkg" && go test -vet=off -count=1 -run 'TestDefect' . 2>&1 | grep -E "^(---|ok|FAIL|panic|\s+Error:|\s+Messages|#|\./)")
rc=$?
rm -f "$repo/$pkg/zz_defects_test.go"

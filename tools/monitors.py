"""Monitors: the properties evaluated directly on the implementation's recorded histories (independent of the Coq model).
Each monitor takes a history (dict: sets, steps[{ev,res,snap}]) and returns a list of (step_index, message)."""


def _defs_at(h):
    """cur[k] = definition set in force BEFORE step k; cur[len] after the last step."""
    cur, out = 0, []
    for st in h["steps"]:
        out.append(cur)
        if st["ev"]["t"] == "reload":
            cur = st["ev"].get("ds", 0)
    out.append(cur)
    return out


def _pipe(h, ds, p):
    for q in h["sets"][ds]["pipes"] or []:
        if q["name"] == p:
            return q
    return None


def _jobs(snap):
    return {j["id"]: j for j in snap["jobs"]}


def _running(j):
    return j["start"] and not j["completed"] and not j["canceled"]


def _waiting(j):
    return not j["start"] and not j["canceled"]


def _count_running(snap, p):
    return sum(1 for j in snap["jobs"] if j["pipe"] == p and _running(j))


def _waiting_ids(snap, p):
    return sorted(j["id"] for j in snap["jobs"] if j["pipe"] == p and _waiting(j))


EMPTY = {"jobs": [], "wait": {}, "pipes": [], "req": False}


def _reload_seen(h):
    seen, out = False, []
    for st in h["steps"]:
        out.append(seen)
        if st["ev"]["t"] == "reload":
            seen = True
    out.append(seen)
    return out


def _shut_at(h):
    shut, out = False, []
    for st in h["steps"]:
        out.append(shut)
        if st["ev"]["t"] == "shutdown":
            shut = True
    out.append(shut)
    return out


def mon_C01(h):
    bad = []
    cur = _defs_at(h)
    prev = h.get("snap0") or EMPTY     # the state before the first event: jobs restored from a preloaded store are there
    for k, st in enumerate(h["steps"]):
        sn = st["snap"]
        pipes = {j["pipe"] for j in sn["jobs"]}
        for p in pipes:
            c1, c0 = _count_running(sn, p), _count_running(prev, p)
            if c1 > c0:
                d = _pipe(h, cur[k + 1], p)
                conc = d["conc"] if d else 0
                if c1 > conc:
                    bad.append((k, "pipeline %d: %d jobs execute, concurrency %d" % (p, c1, conc)))
        for j in sn["jobs"]:
            sc = j["sched"]
            if sc and (sc["entry"] or sc["running"]) and not _running(j):
                bad.append((k, "job %d has task runs in progress but is not reported as executing" % j["id"]))
        pj = _jobs(prev)
        for j in sn["jobs"]:
            if j["completed"] and j["id"] in pj and not pj[j["id"]]["completed"]:
                sc = pj[j["id"]]["sched"]
                if sc and (sc["entry"] or sc["running"]):
                    bad.append((k, "job %d reported completed while task runs were in progress" % j["id"]))
        prev = sn
    return bad


def _expected_admission(h, ds, snap, p, shut=False):
    """The decision table of C05 evaluated on what the API reports. Returns (kind, info)."""
    if shut:
        return "err:shutdown", None
    d = _pipe(h, ds, p)
    if d is None:
        return "err:undefined", None
    running = _count_running(snap, p)
    waiting = _waiting_ids(snap, p)
    if running < d["conc"] and d["delay"] == 0:
        return "start", None
    if d["qlimit"] == 0:
        return "err:noqueue", None
    if d["replace"] and waiting:
        return "replace", waiting[-1]
    if d["qlimit"] is not None and len(waiting) >= d["qlimit"]:
        return "err:queuefull", None
    return "append", None


def mon_C05(h):
    bad = []
    cur = _defs_at(h)
    reloaded = _reload_seen(h)
    shut = _shut_at(h)
    prev = h.get("snap0") or EMPTY     # the state before the first event: jobs restored from a preloaded store are there
    for k, st in enumerate(h["steps"]):
        sn, ev = st["snap"], st["ev"]
        if ev["t"] == "schedule":
            p = ev.get("p", 0)
            exp, info = _expected_admission(h, cur[k], prev, p, shut[k])
            res = st["res"]
            pj, nj = _jobs(prev), _jobs(sn)
            if exp.startswith("err:"):
                if res != exp:
                    bad.append((k, "schedule on pipeline %d: expected %s, got %s" % (p, exp, res)))
                if [(j["id"], j["canceled"], j["start"]) for j in sn["jobs"]] != [(j["id"], j["canceled"], j["start"]) for j in prev["jobs"]] \
                        or sn["wait"] != prev["wait"] and all(q in prev["wait"] for q in sn["wait"]):
                    bad.append((k, "rejected request left a trace"))
            else:
                if not res.startswith("job:"):
                    bad.append((k, "schedule on pipeline %d: expected %s, got %s" % (p, exp, res)))
                else:
                    n = int(res[4:])
                    j = nj.get(n)
                    if j is None:
                        bad.append((k, "accepted job %d is not reported" % n))
                    elif exp == "start":
                        if not (j["start"] or (j["canceled"] and j["lasterr"] == "graph")):
                            bad.append((k, "job %d should have started at once (free slot, no delay) but is queued" % n))
                    elif exp == "append":
                        if j["start"] or j["canceled"]:
                            bad.append((k, "job %d should have been queued but started" % n))
                        if _waiting_ids(sn, p) != _waiting_ids(prev, p) + [n]:
                            bad.append((k, "append changed the queue other than by adding job %d at the end" % n))
                    elif exp == "replace":
                        old = nj.get(info)
                        if old is None or not old["canceled"] or old["start"]:
                            bad.append((k, "replaced job %s is not reported canceled" % info))
                        if j["start"] or j["canceled"]:
                            bad.append((k, "replacing job %d is not waiting" % n))
                        exp_w = [i for i in _waiting_ids(prev, p) if i != info] + [n]
                        if _waiting_ids(sn, p) != exp_w:
                            bad.append((k, "replace did not replace exactly the most recently queued job"))
        if not reloaded[k + 1]:
            for p in {j["pipe"] for j in sn["jobs"]}:
                d = _pipe(h, cur[k + 1], p)
                if d is None:
                    continue
                w = len(_waiting_ids(sn, p))
                if d["qlimit"] is not None and w > d["qlimit"]:
                    bad.append((k, "pipeline %d: %d jobs waiting, queue_limit %d" % (p, w, d["qlimit"])))
                if d["replace"] and w > 1:
                    bad.append((k, "pipeline %d: %d jobs waiting under the replace strategy" % (p, w)))
        prev = sn
    return bad


def mon_C06(h):
    bad = []
    reloaded = _reload_seen(h)
    prev = h.get("snap0") or EMPTY     # the state before the first event: jobs restored from a preloaded store are there
    for k, st in enumerate(h["steps"]):
        sn = st["snap"]
        if not reloaded[k + 1]:
            pj = _jobs(prev)
            for j in sn["jobs"]:
                if j["start"] and j["id"] in pj and _waiting(pj[j["id"]]):
                    earlier = [i for i in _waiting_ids(sn, j["pipe"]) if i < j["id"]]
                    if earlier:
                        bad.append((k, "job %d started while job %d, accepted before it, is still waiting" % (j["id"], earlier[0])))
                if j["start"] and j["id"] not in pj and st["ev"]["t"] == "schedule":
                    # accepted and started in one step: it must not overtake jobs that were accepted before it and still wait
                    earlier = [i for i in _waiting_ids(sn, j["pipe"]) if i < j["id"]]
                    if earlier:
                        bad.append((k, "job %d was started at once although job %d, accepted before it, is still waiting" % (j["id"], earlier[0])))
        prev = sn
    return bad


def mon_C03(h):
    bad = []
    cur = _defs_at(h)
    reloaded = _reload_seen(h)
    shut = _shut_at(h)
    prev = h.get("snap0") or EMPTY
    for k, st in enumerate(h["steps"]):
        sn = st["snap"]
        # a waiting job of a pipeline that is still defined never just disappears (it starts, or it is reported canceled)
        if not st.get("skip") and st["ev"]["t"] != "restart":
            now = _jobs(sn)
            for j in prev["jobs"]:
                if _waiting(j) and j["id"] not in now and _pipe(h, cur[k], j["pipe"]) is not None and _pipe(h, cur[k + 1], j["pipe"]) is not None:
                    bad.append((k, "job %d was waiting and is gone after %s (its pipeline is still defined): it neither started nor was it reported canceled" % (j["id"], st["ev"]["t"])))
        prev = sn
        for p, ids in sn["wait"].items():
            if shut[k + 1]:
                continue
            if sorted(ids) != _waiting_ids(sn, int(p)) and _pipe(h, cur[k + 1], int(p)) is not None:
                bad.append((k, "pipeline %s: wait list %s differs from the waiting jobs %s" % (p, ids, _waiting_ids(sn, int(p)))))
        if not reloaded[k + 1] and not shut[k + 1]:
            jobs = _jobs(sn)
            for p in {j["pipe"] for j in sn["jobs"]}:
                d = _pipe(h, cur[k + 1], p)
                w = _waiting_ids(sn, p)
                if d is None or not w:
                    continue
                head = jobs[w[0]]
                if not head["timer"] and _count_running(sn, p) < d["conc"]:
                    bad.append((k, "pipeline %d: free slot and job %d has waited its delay, but it was not started" % (p, w[0])))
    # after the drain nothing may be left waiting (defined pipelines, unchanged definitions or not)
    if h["steps"] and not h.get("failure"):
        sn = h["steps"][-1]["snap"]
        last = len(h["steps"])
        if h.get("drained", True) and not shut[last]:
            for j in sn["jobs"]:
                # "of a pipeline that remains defined": defined after every step at which the job was already waiting
                since = min([k for k, st in enumerate(h["steps"]) if any(x["id"] == j["id"] for x in st["snap"]["jobs"])] or [0])
                remained = all(_pipe(h, cur[k], j["pipe"]) is not None for k in range(since, last + 1))
                if _waiting(j) and remained:
                    bad.append((last - 1, "job %d is still waiting after everything drained" % j["id"]))
    return bad


def mon_C07(h):
    bad = []
    cur = _defs_at(h)
    reloaded = _reload_seen(h)
    shut = _shut_at(h)
    clock, created = 0, {}
    prev = h.get("snap0") or EMPTY     # the state before the first event: jobs restored from a preloaded store are there
    dead = set()
    for k, st in enumerate(h["steps"]):
        sn, ev = st["snap"], st["ev"]
        if ev["t"] == "tick":
            clock += ev.get("d", 0)
        if ev["t"] == "schedule" and st["res"].startswith("job:"):
            created[int(st["res"][4:])] = clock
            # replace strategy (definition unchanged since the start): the burst converges to the newest request
            nid = int(st["res"][4:])
            nj = _jobs(sn).get(nid)
            d = _pipe(h, cur[k + 1], nj["pipe"]) if nj else None
            if d and d.get("replace") and not reloaded[k + 1]:
                older = [i for i in _waiting_ids(sn, nj["pipe"]) if i != nid]
                if older:
                    bad.append((k, "pipeline %d (queue_strategy replace, queue_limit %s): after job %d was accepted the older job(s) %s are still waiting: the burst does not converge to the newest request"
                                % (nj["pipe"], d.get("qlimit"), nid, older)))
        pj = _jobs(prev)
        for j in sn["jobs"]:
            was = pj.get(j["id"])
            if j["start"] and (was is None or not was["start"]):
                if clock < created.get(j["id"], 0) + j["delay"]:
                    bad.append((k, "job %d started at %d, before accepted %d + delay %d" % (j["id"], clock, created.get(j["id"], 0), j["delay"])))
                if j["id"] in dead:
                    bad.append((k, "job %d started although it had been canceled / replaced while waiting" % j["id"]))
            if j["canceled"] and not j["start"]:
                dead.add(j["id"])
        if ev["t"] in ("runbegin",) and ev["id"] in dead:
            bad.append((k, "a task of the replaced / canceled job %d runs" % ev["id"]))
        # "the most recently accepted job ... eventually runs": a waiting job of a defined pipeline never just disappears
        if not st.get("skip") and ev["t"] != "restart":
            nowj = _jobs(sn)
            for j in prev["jobs"]:
                if _waiting(j) and j["id"] not in nowj and _pipe(h, cur[k], j["pipe"]) is not None and _pipe(h, cur[k + 1], j["pipe"]) is not None:
                    bad.append((k, "job %d was waiting and is gone after %s (its pipeline is still defined): it can never run" % (j["id"], ev["t"])))
        # the delay is the only wait: once it has passed and a slot is free, the oldest waiting job is started
        if not reloaded[k + 1] and not shut[k + 1]:
            jobs = _jobs(sn)
            for p in {j["pipe"] for j in sn["jobs"]}:
                d = _pipe(h, cur[k + 1], p)
                w = _waiting_ids(sn, p)
                if d is None or not w or not d.get("delay"):
                    continue
                head = jobs[w[0]]
                if not head["timer"] and _count_running(sn, p) < d["conc"]:
                    bad.append((k, "pipeline %d: the start delay of job %d has passed and a slot is free, but it is still waiting" % (p, w[0])))
        prev = sn
    return bad


def mon_C04(h):
    bad = []
    prev = h.get("snap0") or EMPTY     # the state before the first event: jobs restored from a preloaded store are there
    acked = {}     # job id -> step of an acknowledged cancel while unfinished
    for k, st in enumerate(h["steps"]):
        sn, ev = st["snap"], st["ev"]
        pj, nj = _jobs(prev), _jobs(sn)
        if ev["t"] == "cancel":
            j = pj.get(ev["id"])
            res = st["res"]
            if j is None:
                if res != "err:notfound":
                    bad.append((k, "cancel of unknown job answered %s" % res))
            elif j["canceled"]:
                if res != "ok":
                    bad.append((k, "cancel of canceled job %d answered %s" % (j["id"], res)))
                if nj.get(j["id"]) != j:
                    bad.append((k, "cancel of canceled job %d changed it" % j["id"]))
            elif j["completed"]:
                if res != "err:completed":
                    bad.append((k, "cancel of finished job %d answered %s" % (j["id"], res)))
                if nj.get(j["id"]) != j:
                    bad.append((k, "cancel of finished job %d changed it" % j["id"]))
            else:
                if res != "ok":
                    bad.append((k, "cancel of unfinished job %d answered %s" % (j["id"], res)))
                else:
                    acked.setdefault(j["id"], k)
                    if not j["start"]:
                        n = nj.get(j["id"])
                        if n is None or not n["canceled"]:
                            bad.append((k, "waiting job %d not reported canceled after acknowledged cancel" % j["id"]))
        if ev["t"] == "runbegin":
            j = pj.get(ev["id"])
            if j is not None and j["ctx"]:
                n = nj.get(ev["id"])
                t = [t for t in (n["tasks"] if n else []) if t["name"] == ev.get("n", 0)]
                if t and t[0]["start"] and not [u for u in j["tasks"] if u["name"] == ev.get("n", 0)][0]["start"]:
                    bad.append((k, "task %d of job %d began executing after the stop had been delivered" % (ev.get("n", 0), ev["id"])))
        for j in sn["jobs"]:
            if j["id"] in acked:
                was = pj.get(j["id"])
                if j["start"] and was is not None and not was["start"] and acked[j["id"]] < k and not was["start"]:
                    bad.append((k, "job %d started after its cancel was acknowledged while it was waiting" % j["id"]))
                if j["completed"] and not j["canceled"]:
                    bad.append((k, "job %d: cancel acknowledged at step %d, but it ended as completed, not canceled" % (j["id"], acked[j["id"]])))
        prev = sn
    return bad


def _ancestors_failed(tasks, failed):
    """names of tasks that transitively depend on a task in `failed`"""
    deps = {t["name"]: t["deps"] for t in tasks}
    out = set()
    changed = True
    while changed:
        changed = False
        for n, ds in deps.items():
            if n not in out and any(d in failed or d in out for d in ds):
                out.add(n)
                changed = True
    return out


def mon_C08(h):
    bad = []
    cur = _defs_at(h)
    prev = h.get("snap0") or EMPTY     # the state before the first event: jobs restored from a preloaded store are there
    failed = {}      # job -> set of task names that failed (not allow_failure)
    for k, st in enumerate(h["steps"]):
        sn, ev = st["snap"], st["ev"]
        pj, nj = _jobs(prev), _jobs(sn)
        if ev["t"] == "runend" and ev.get("o") == "fail":
            j = nj.get(ev["id"])
            if j is not None:
                t = [t for t in j["tasks"] if t["name"] == ev.get("n", 0)]
                if t and not t[0]["allow"]:
                    failed.setdefault(j["id"], set()).add(t[0]["name"])
                    d = _pipe(h, cur[k], j["pipe"])
                    was = pj.get(j["id"])
                    if d is not None and was is not None:
                        if not d["continue"] and j["cancels"] != was["cancels"] + 1:
                            bad.append((k, "job %d: task %d failed but the other tasks are not being told to stop" % (j["id"], t[0]["name"])))
                        if d["continue"] and j["cancels"] > was["cancels"]:
                            bad.append((k, "job %d: failure cancels the job although continue_running_tasks_after_failure is set" % j["id"]))
                    if not j["tasks"] or not [u for u in j["tasks"] if u["name"] == t[0]["name"]][0]["errored"]:
                        bad.append((k, "job %d: failed task %d not reported as errored" % (j["id"], t[0]["name"])))
                elif t and t[0]["allow"]:
                    was = pj.get(j["id"])
                    if was is not None and j["cancels"] > was["cancels"]:
                        bad.append((k, "job %d: failure of allow_failure task %d cancels the job" % (j["id"], t[0]["name"])))
        if ev["t"] == "runbegin":
            j = nj.get(ev["id"])
            if j is not None and j["id"] in failed:
                blocked = _ancestors_failed(j["tasks"], failed[j["id"]])
                if ev.get("n", 0) in blocked:
                    t = [t for t in j["tasks"] if t["name"] == ev.get("n", 0)][0]
                    if t["start"]:
                        bad.append((k, "job %d: task %d runs although it depends on a failed task" % (j["id"], t["name"])))
        for j in sn["jobs"]:
            if j["completed"]:
                if any(t["status"] == "running" for t in j["tasks"]):
                    bad.append((k, "job %d completed but a task is reported running" % j["id"]))
                if not j["canceled"] and j["lasterr"] == "none":
                    notdone = [t["name"] for t in j["tasks"] if t["status"] != "done"]
                    if notdone:
                        bad.append((k, "job %d reported as plain success but tasks %s did not finish" % (j["id"], notdone)))
                if j["id"] in failed and j["lasterr"] == "none" and not j["canceled"]:
                    bad.append((k, "job %d had a failed task but is reported without error" % j["id"]))
        prev = sn
    return bad


def mon_C02(h):
    bad = []
    pre_ids = {p["id"] for p in (h.get("pre") or [])}     # jobs of an earlier process: their tasks ran there
    prev = h.get("snap0") or EMPTY     # the state before the first event: jobs restored from a preloaded store are there
    began = {}       # (job, task) -> count of real begins
    ended_ok = {}    # (job, task) -> True if ended ok / fail-allowed
    for k, st in enumerate(h["steps"]):
        sn, ev = st["snap"], st["ev"]
        pj, nj = _jobs(prev), _jobs(sn)
        if ev["t"] == "runbegin":
            was, j = pj.get(ev["id"]), nj.get(ev["id"])
            n = ev.get("n", 0)
            if was is not None and j is not None and not was["ctx"]:
                key = (ev["id"], n)
                began[key] = began.get(key, 0) + 1
                if began[key] > 1:
                    bad.append((k, "task %d of job %d executes a second time" % (n, ev["id"])))
                t = [t for t in j["tasks"] if t["name"] == n]
                if t:
                    for d in t[0]["deps"]:
                        if not ended_ok.get((ev["id"], d)):
                            bad.append((k, "task %d of job %d begins before its dependency %d finished successfully" % (n, ev["id"], d)))
                    if t[0]["empty"]:
                        ended_ok[key] = True
        if ev["t"] == "runend":
            j = nj.get(ev["id"])
            n = ev.get("n", 0)
            if j is not None:
                t = [t for t in j["tasks"] if t["name"] == n]
                if ev["o"] == "ok" or (ev["o"] == "fail" and t and t[0]["allow"]):
                    ended_ok[(ev["id"], n)] = True
        for j in sn["jobs"]:
            if j["lasterr"] == "graph":
                if j["sched"] or j["start"] or not j["canceled"]:
                    bad.append((k, "job %d with an unbuildable graph is not simply reported canceled" % j["id"]))
                names = {t["name"] for t in j["tasks"]}
                if j["vars"] != "reserved" and _acyclic(j["tasks"]) and all(d in names for t in j["tasks"] for d in t["deps"]) and j["id"] not in pre_ids:
                    bad.append((k, "job %d: an acyclic dependency graph (%s) was rejected as cyclic" % (j["id"], [(t["name"], t["deps"]) for t in j["tasks"]])))
            if j["completed"] and not j["canceled"] and j["lasterr"] == "none" and j["id"] not in pre_ids:
                for t in j["tasks"]:
                    if began.get((j["id"], t["name"]), 0) != 1:
                        bad.append((k, "job %d reported successful but task %d executed %d times" % (j["id"], t["name"], began.get((j["id"], t["name"]), 0))))
        prev = sn
    for (jid, n), c in began.items():
        pass
    return bad


def _topo_ok(tasks):
    pos = {t["name"]: i for i, t in enumerate(tasks)}
    for t in tasks:
        for d in t["deps"]:
            if d in pos and d != t["name"] and pos[d] > pos[t["name"]]:
                return False
    return True


def _acyclic(tasks):
    deps = {t["name"]: [d for d in t["deps"]] for t in tasks}
    state = {}

    def visit(n):
        if state.get(n) == 1:
            return False
        if state.get(n) == 2:
            return True
        state[n] = 1
        for d in deps.get(n, []):
            if d in deps and not visit(d):
                return False
        state[n] = 2
        return True
    return all(visit(n) for n in deps)


def mon_C15(h):
    bad = []
    pre_ids = {p["id"] for p in (h.get("pre") or [])}
    cur = _defs_at(h)
    shut = _shut_at(h)
    accepted = set()
    removed = set()
    orders = {}
    for k, st in enumerate(h["steps"]):
        sn, ev = st["snap"], st["ev"]
        if ev["t"] == "schedule" and st["res"].startswith("job:"):
            accepted.add(int(st["res"][4:]))
        if ev["t"] in ("save", "restart", "shutdown_return", "shutdown"):
            removed |= accepted - {j["id"] for j in sn["jobs"]}
        if sn.get("http"):
            bad.append((k, "the HTTP API (GET /pipelines/jobs, /job/detail) differs from the runner state: " + sn["http"]))
        present = {j["id"] for j in sn["jobs"]}
        for i in accepted - removed:
            if i not in present:
                bad.append((k, "accepted job %d is no longer reported although no save removed it" % i))
        if not shut[k + 1]:
            for pi in sn["pipes"]:
                p = pi["p"]
                exp, _ = _expected_admission(h, cur[k + 1], sn, p)
                if pi["schedulable"] != (not exp.startswith("err:")):
                    bad.append((k, "pipeline %d listed schedulable=%s but an immediate request would be %s" % (p, pi["schedulable"], exp)))
                if pi["running"] != (_count_running(sn, p) > 0):
                    bad.append((k, "pipeline %d listed running=%s but %d of its jobs execute" % (p, pi["running"], _count_running(sn, p))))
        ids = [j["id"] for j in sn["jobs"]]
        for j in sn["jobs"]:
            if not j.get("time_ok", True):
                bad.append((k, "job %d: timestamps out of order" % j["id"]))
            # jobs restored from a preloaded store keep the task order of the store file the harness generated
            if j["id"] not in pre_ids and _acyclic(j["tasks"]) and not _topo_ok(j["tasks"]):
                bad.append((k, "job %d: a task is listed before a task it depends on" % j["id"]))
            key = repr(sorted((t["name"], tuple(t["deps"])) for t in j["tasks"]))
            order = [t["name"] for t in j["tasks"]]
            if j["id"] not in pre_ids and orders.setdefault(key, order) != order:
                bad.append((k, "job %d: task order %s differs from %s for the same definition" % (j["id"], order, orders[key])))
    return bad


def mon_C16(h):
    bad = []
    cur = _defs_at(h)
    shut = _shut_at(h)
    snapdef = {}
    clock, created = 0, {}
    prev = h.get("snap0") or EMPTY     # the state before the first event: jobs restored from a preloaded store are there
    for k, st in enumerate(h["steps"]):
        sn, ev = st["snap"], st["ev"]
        if ev["t"] == "tick":
            clock += ev.get("d", 0)
        if ev["t"] == "schedule" and st["res"].startswith("job:"):
            created[int(st["res"][4:])] = clock
        # a job waits exactly as long as the definition it was accepted with says - whatever was reloaded since:
        pj = _jobs(prev)
        for j in sn["jobs"]:
            was = pj.get(j["id"])
            if j["start"] and was is not None and not was["start"] and j["id"] in created and clock < created[j["id"]] + j["delay"]:
                bad.append((k, "job %d (accepted with start delay %d at %d) started at %d, before its own delay has passed" % (j["id"], j["delay"], created[j["id"]], clock)))
        # ... and no longer: after an event that makes the runner look at the wait list of a pipeline (a job of it ended, a timer of it
        # fired, a waiting job of it was canceled) the oldest waiting job without pending timer does not stay waiting beside a free slot
        if ev["t"] in ("return", "fire", "cancel") and not shut[k + 1] and not st.get("skip"):
            src = pj.get(ev.get("id"))
            if src is not None and (ev["t"] != "cancel" or (st["res"] == "ok" and _waiting(src))):
                p = src["pipe"]
                d = _pipe(h, cur[k + 1], p)
                w = _waiting_ids(sn, p)
                if d is not None and w:
                    head = _jobs(sn)[w[0]]
                    if not head["timer"] and _count_running(sn, p) < d["conc"]:
                        bad.append((k, "pipeline %d: after %s of job %s a slot is free and the waiting job %d has no pending start timer (its own delay %d has passed), but it was not started"
                                    % (p, ev["t"], ev.get("id"), w[0], head["delay"])))
        if ev["t"] == "schedule" and st["res"].startswith("job:"):
            n = int(st["res"][4:])
            d = _pipe(h, cur[k], ev.get("p", 0))
            if d is not None:
                snapdef[n] = d
        for j in sn["jobs"]:
            d = snapdef.get(j["id"])
            if d is None:
                continue
            want = sorted((t["name"], tuple(t["deps"]), t["allow"], t["empty"], 0 if t["empty"] else t["script"], t["env"]) for t in (d["tasks"] or []))
            got = sorted((t["name"], tuple(t["deps"]), t["allow"], t["empty"], t["script"], t["tenv"]) for t in j["tasks"])
            if want != got:
                bad.append((k, "job %d does not carry the tasks its pipeline defined when it was accepted" % j["id"]))
            if j["env"] != d["env"] or j["delay"] != d["delay"]:
                bad.append((k, "job %d does not carry the environment / start delay defined when it was accepted" % j["id"]))
        if ev["t"] == "reload":
            a = [(j["id"], j["start"], j["completed"], j["canceled"]) for j in prev["jobs"]]
            b = [(j["id"], j["start"], j["completed"], j["canceled"]) for j in sn["jobs"]]
            if a != b:
                bad.append((k, "the reload changed the state of existing jobs"))
        prev = sn
    return bad


MONITORS = {"C01": mon_C01, "C02": mon_C02, "C03": mon_C03, "C04": mon_C04, "C05": mon_C05, "C06": mon_C06, "C07": mon_C07,
            "C08": mon_C08, "C15": mon_C15, "C16": mon_C16}


# ---------------------------------------------------------------- persistence

def _pview(j):
    """what a save would write for a reported job (without times)"""
    return (j["id"], j["pipe"], j["completed"], j["canceled"], j["start"], j["end"], j["lasterr"], j["vars"], j["vn"], j["user"],
            tuple((t["name"], t["status"], t["start"], t["end"], t["skipped"], t["exit"], t["errored"], t["err"]) for t in j["tasks"]))


def _sview(p):
    return (p["id"], p["pipe"], p["completed"], p["canceled"], p["start"], p["end"], p["lasterr"], p["vars"], p["vn"], p["user"],
            tuple((t["name"], t["status"], t["start"], t["end"], t["skipped"], t["exit"], t["errored"], t["err"]) for t in p["tasks"]))


def _finished(j):
    return (j["completed"] or j["canceled"]) and not _waiting(j)


def mon_C12(h):
    bad = []
    cur = _defs_at(h)
    ages = {p["id"]: p["age"] for p in (h.get("pre") or [])}
    prev = h.get("snap0") or {"jobs": [], "logs": [], "store": None}
    for k, st in enumerate(h["steps"]):
        sn, ev = st["snap"], st["ev"]
        if st.get("skip"):
            continue
        if ev["t"] in ("save", "shutdown_return") and sn.get("store") is not None and prev is not None:
            ds = cur[k]
            before, after = _jobs(prev), _jobs(sn)
            store_ids = sorted(p["id"] for p in sn["store"])
            if store_ids != sorted(after):
                bad.append((k, "after the save the API reports jobs %s but the store holds %s" % (sorted(after), store_ids)))
            for p in sn["store"]:
                if p["id"] in after and _sview(p) != _pview(after[p["id"]]):
                    bad.append((k, "job %d: the store does not hold what the API reports" % p["id"]))
            for i, j in before.items():
                d = _pipe(h, ds, j["pipe"])
                gone = i not in after
                if d is not None and gone and (_waiting(j) or _running(j)):
                    bad.append((k, "the save removed job %d, which was waiting or running" % i))
                if d is not None and gone and d["retp"] == 0 and d["retc"] == 0:
                    bad.append((k, "the save removed job %d although its pipeline has no retention settings" % i))
                if d is None and not _running(j) and not gone:
                    bad.append((k, "job %d of an undefined pipeline survived the save" % i))
            for p in {j["pipe"] for j in before.values()}:
                d = _pipe(h, ds, p)
                if d is None:
                    continue
                fin_before = sorted(i for i, j in before.items() if j["pipe"] == p and _finished(j))
                kept = [i for i in fin_before if i in after]
                if d["retc"] > 0 and len(kept) > d["retc"]:
                    bad.append((k, "pipeline %d: %d finished jobs remain, retention_count %d" % (p, len(kept), d["retc"])))
                if d["retp"] > 0:
                    for i in kept:
                        if ages.get(i, 0) > d["retp"]:
                            bad.append((k, "pipeline %d: job %d of age %d remains, retention_period %d" % (p, i, ages.get(i, 0), d["retp"])))
                if kept:
                    newer_removed = [i for i in fin_before if i > min(kept) and i not in after]
                    if newer_removed:
                        bad.append((k, "pipeline %d: finished job %d was removed although the older job %d is kept" % (p, newer_removed[0], min(kept))))
            removed = set(before) - set(after)
            for i in removed:
                if i in sn["logs"]:
                    bad.append((k, "the logs of the removed job %d are still there" % i))
            for i in prev.get("logs") or []:
                if i in after and i not in sn["logs"]:
                    bad.append((k, "the logs of the kept job %d are gone" % i))
            # jobs that were in the store when the process started: once they are neither reported nor stored their logs have to be gone
            # (jobs that were lost by a restart before any save reached the store are nobody's "removed jobs": their logs are not judged)
            for i in sn["logs"]:
                if i not in after and i in ages:
                    bad.append((k, "after the save the log directory of job %d (loaded from the store at start) is still there although the job is neither reported nor stored" % i))
        prev = sn
    return bad


def mon_C10(h):
    bad = []
    cur = _defs_at(h)
    last_store, last_store_snap = None, None
    for k, st in enumerate(h["steps"]):
        sn, ev = st["snap"], st["ev"]
        if st.get("skip"):
            continue
        if ev["t"] == "restart":
            stored = {p["id"]: p for p in (sn.get("store") or [])}
            after = _jobs(sn)
            if sorted(stored) != sorted(after):
                bad.append((k, "after the restart jobs %s are reported, the store holds %s" % (sorted(after), sorted(stored))))
            for j in sn["jobs"]:
                if _running(j) or _waiting(j) or j["sched"] or j["timer"]:
                    bad.append((k, "job %d is not terminal after the restart" % j["id"]))
            if sn["wait"] and any(sn["wait"].values()):
                bad.append((k, "a wait list is not empty after the restart"))
            for pi in sn["pipes"]:
                d = _pipe(h, cur[k + 1], pi["p"])
                if d and (pi["running"] or not pi["schedulable"]) and d["conc"] >= 1 and not (d["delay"] > 0 and d["qlimit"] == 0):
                    bad.append((k, "pipeline %d is reported running / not schedulable right after the restart" % pi["p"]))
            if last_store_snap is not None:
                was = _jobs(last_store_snap)
                for i, j in after.items():
                    b = was.get(i)
                    if b is None:
                        continue
                    if _finished(b):
                        if _pview(b) != _pview(j):
                            bad.append((k, "finished job %d is reported differently after the restart" % i))
                        if last_store_snap.get("times", {}).get(str(i)) != sn.get("times", {}).get(str(i)):
                            bad.append((k, "finished job %d: timestamps or error texts changed across the restart" % i))
                        if b.get("hview") and j.get("hview") and b["hview"] != j["hview"]:
                            bad.append((k, "finished job %d: the API (GET /pipelines/jobs) reports it differently after the restart: %s  ->  %s" % (i, b["hview"][:400], j["hview"][:400])))
                    elif not j["canceled"]:
                        bad.append((k, "job %d was unfinished when saved but is not reported canceled after the restart" % i))
        if sn.get("store") is not None and ev["t"] in ("save", "shutdown_return"):
            last_store, last_store_snap = sn["store"], sn
    return bad


def mon_C11(h):
    bad = []
    shut = _shut_at(h)
    prev = h.get("snap0") or EMPTY     # the state before the first event: jobs restored from a preloaded store are there
    forced = False
    force_running = set()
    for k, st in enumerate(h["steps"]):
        sn, ev = st["snap"], st["ev"]
        if ev["t"] == "force":
            forced = True
        if ev["t"] == "restart":
            forced = False
            force_running = set()
        if st.get("skip"):
            prev = sn
            continue
        if shut[k] and ev["t"] == "schedule" and st["res"] != "err:shutdown":
            bad.append((k, "a schedule request was answered %s while shutting down" % st["res"]))
        if ev["t"] == "shutdown":
            pj = _jobs(prev)
            for j in sn["jobs"]:
                b = pj.get(j["id"])
                if b is None:
                    continue
                if _waiting(b) and not j["canceled"]:
                    bad.append((k, "waiting job %d is not canceled by the shutdown" % j["id"]))
                if _running(b) and (j["cancels"] != b["cancels"] or j["ctx"] != b["ctx"] or j["canceled"]):
                    bad.append((k, "a graceful shutdown interferes with the running job %d" % j["id"]))
        if ev["t"] == "force":
            for j in sn["jobs"]:
                if _running(j) and j["cancels"] == 0 and not j["ctx"]:
                    bad.append((k, "forced shutdown: the running job %d is not being canceled" % j["id"]))
            for j in prev["jobs"]:
                if _running(j):
                    force_running.add(j["id"])
        for j in sn["jobs"]:
            if j["id"] in force_running and j["completed"] and not j["canceled"]:
                bad.append((k, "job %d was running when the shutdown was forced, but it ended as completed, not canceled" % j["id"]))
                force_running.discard(j["id"])
        if ev["t"] == "shutdown_return":
            if st["res"] != "none":
                bad.append((k, "Shutdown returned although a pipeline was running or an operation pending"))
            for j in sn["jobs"]:
                if _running(j) or _waiting(j) or j["sched"]:
                    bad.append((k, "job %d is not terminal when Shutdown returns" % j["id"]))
            store = {p["id"]: p for p in (sn.get("store") or [])}
            jobs = _jobs(sn)
            if sorted(store) != sorted(jobs):
                bad.append((k, "the store does not hold exactly the reported jobs when Shutdown returns"))
            for i, p in store.items():
                if i in jobs and _sview(p) != _pview(jobs[i]):
                    bad.append((k, "the store does not hold the final state of job %d" % i))
        # every change of what a save would write must have asked for a save (outside the shutdown sequence)
        if not shut[k + 1] and ev["t"] not in ("save", "restart", "shutdown_return"):
            a = sorted(_pview(j) for j in prev["jobs"])
            b = sorted(_pview(j) for j in sn["jobs"])
            if a != b and not sn["req"] and k > 0:
                bad.append((k, "the reported state changed but no save was requested"))
        prev = sn
    return bad


MONITORS.update({"C10": mon_C10, "C11": mon_C11, "C12": mon_C12})

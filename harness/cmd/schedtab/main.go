// schedtab: the dependency check of the scheduling loop (taskctl/scheduler.go checkStatus) as a decision table.
// For a stage with 0-3 dependencies in every combination of status and allow_failure, in the given depends_on order, the
// real function is called on a fresh execution graph; printed: whether the stage is ready and whether it was canceled.
package main

import (
	"flag"
	"os"

	"github.com/taskctl/taskctl/pkg/scheduler"
	"github.com/taskctl/taskctl/pkg/task"

	"github.com/Flowpack/prunner/taskctl"

	"verifharness/hutil"
)

var statusNames = []string{"Waiting", "Running", "Skipped", "Done", "Error", "Canceled"}
var statusVals = []int32{scheduler.StatusWaiting, scheduler.StatusRunning, scheduler.StatusSkipped, scheduler.StatusDone, scheduler.StatusError, scheduler.StatusCanceled}

type dep struct {
	Status int  `json:"status"` // index into statusNames
	Allow  bool `json:"allow"`
}

func run(deps []dep) (bool, bool) {
	var stages []*scheduler.Stage
	var names []string
	for i, d := range deps {
		n := string(rune('a' + i))
		names = append(names, n)
		s := &scheduler.Stage{Name: n, Task: task.FromCommands("x"), AllowFailure: d.Allow}
		stages = append(stages, s)
	}
	t := &scheduler.Stage{Name: "t", Task: task.FromCommands("x"), DependsOn: names}
	stages = append(stages, t)
	g, err := scheduler.NewExecutionGraph(stages...)
	if err != nil {
		panic(err)
	}
	for i, d := range deps {
		stages[i].UpdateStatus(statusVals[d.Status])
	}
	ready := taskctl.VerifCheckStatus(g, t)
	return ready, t.ReadStatus() == scheduler.StatusCanceled
}

func main() {
	out := flag.String("out", "", "output file")
	flag.Parse()
	w := os.Stdout
	if *out != "" {
		f, err := os.Create(*out)
		if err != nil {
			panic(err)
		}
		defer f.Close()
		w = f
	}
	var rec func(k int, cur []dep)
	rec = func(k int, cur []dep) {
		if len(cur) == k {
			ready, canceled := run(cur)
			hutil.JSONLine(w, map[string]interface{}{"kind": "checkstatus", "deps": append([]dep{}, cur...), "ready": ready, "canceled": canceled})
			return
		}
		for s := range statusNames {
			for _, a := range []bool{false, true} {
				rec(k, append(cur, dep{s, a}))
			}
		}
	}
	for k := 0; k <= 3; k++ {
		rec(k, nil)
	}
}

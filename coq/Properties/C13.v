(** * C13 — The runner's public API is free of data races under concurrent use
    PARTIAL: the discipline is proved sufficient (and necessary) for race freedom over an abstract readers-writer lock; that
    prunner.go follows the discipline is established by the translator locktab, whose table is regenerated and checked
    (table_ok) on every run — the translator and the listed exemptions (accesses ordered by a go statement / program order
    rather than by the mutex) are trusted. Happens-before edges other than the mutex and the Go memory model itself are not
    modelled. "Every operation sees and leaves a consistent state": operations are the atomic events of System.v, whose
    invariants (C01, C03, C06 ...) hold at every critical-section boundary. *)
From stdpp Require Import list.
From PV Require Import Locks proofs.LocksProps.

(** for any number of concurrent callers, each following the lock discipline (writes only under the write lock, reads only
    under the lock), and every interleaving: no reachable configuration has two conflicting accesses enabled *)
Theorem C13_discipline_race_free : ∀ (ts : list (list act)) c,
  Forall (fun acts => disciplined Free acts = true) ts →
  reach (map (fun acts => (Free, acts)) ts) c → ¬ race c.
Proof. exact discipline_race_free. Qed.

(** every path through access sites whose computed lock modes are consistent with the lock operations and satisfy the
    table rule is a disciplined thread *)
Theorem C13_sites_disciplined : ∀ m p, consistent m p = true → forallb site_ok p = true → disciplined m (map erase p) = true.
Proof. exact sites_disciplined. Qed.

(** a mutator that only takes the read lock (defect D7, SaveToStore deleting under RLock) does race *)
Theorem C13_rlock_write_refuted : ∃ c, reach [(Free, [AcqR; Wr 0; Rel]); (Free, [AcqR; Rd 0; Rel])] c ∧ race c.
Proof. exact rlock_write_races. Qed.

Example C13_ex : disciplined Free [AcqW; Rd 1; Wr 1; Rel; AcqR; Rd 2; Rel] = true ∧ disciplined Free [AcqR; Wr 1; Rel] = false.
Proof. done. Qed.

Print Assumptions C13_discipline_race_free.
Print Assumptions C13_sites_disciplined.
Print Assumptions C13_rlock_write_refuted.

"""Shared orchestration for the /verif checks: Coq build, harness build, Coq term emission, evidence, verdicts."""
import fcntl
import hashlib
import json
import os
import re
import shutil
import subprocess
import sys
import time

VERIF = os.path.dirname(os.path.dirname(os.path.abspath(__file__)))
COQ = os.path.join(VERIF, "coq")
REPO = os.environ.get("VERIF_REPO", "/repo")
WORK = os.path.join(VERIF, "work")
GOENV = dict(os.environ, GOFLAGS="-mod=mod", GOPROXY="off", GOSUMDB="off", GOTOOLCHAIN="local")

FORBIDDEN = re.compile(
    r"\b(Admitted|admit|Axiom|Axioms|Parameter|Parameters|Conjecture|Conjectures|Hypothesis|Hypotheses|Variable|Variables|"
    r"Admit Obligations|Unset Guard Checking|Unset Positivity Checking|Unset Universe Checking|bypass_check|"
    r"native_compute|Extraction|Extract)\b")


class Ctx:
    """One check invocation"""

    def __init__(self, prop, argv):
        self.prop = prop
        self.t0 = time.time()
        self.tier = os.environ.get("VERIF_TIER", "quick")
        self.replay = None
        args = list(argv)
        while args:
            a = args.pop(0)
            if a == "--tier":
                self.tier = args.pop(0)
            elif a == "--replay":
                self.replay = args.pop(0)
            elif a == "--seed":
                os.environ["VERIF_SEED"] = args.pop(0)
        if self.tier not in ("quick", "thorough"):
            self.tier = "quick"
        try:
            self.seed = int(os.environ.get("VERIF_SEED", "1"))
        except ValueError:
            self.seed = 1
        self.run = os.path.join(WORK, "run-%s-%d" % (prop, os.getpid()))
        os.makedirs(self.run, exist_ok=True)
        self.violations = []      # (replay_path, suffix)
        self.known = []           # known-finding lines
        self.coverage = {}
        self.assumptions = []
        self.log_lines = []

    def log(self, *a):
        msg = " ".join(str(x) for x in a)
        self.log_lines.append(msg)
        print("[%s %6.1fs] %s" % (self.prop, time.time() - self.t0, msg), flush=True)

    def cleanup(self):
        shutil.rmtree(self.run, ignore_errors=True)


def sh(cmd, cwd=None, env=None, timeout=None, check=False, stdin=None):
    p = subprocess.run(cmd, cwd=cwd, env=env, timeout=timeout, stdout=subprocess.PIPE, stderr=subprocess.STDOUT,
                       text=True, input=stdin, shell=isinstance(cmd, str))
    if check and p.returncode != 0:
        raise RuntimeError("command failed (%d): %s\n%s" % (p.returncode, cmd, p.stdout[-4000:]))
    return p.returncode, p.stdout


# ---------------------------------------------------------------- Coq development

def coq_sources():
    out = []
    for root, _, files in os.walk(COQ):
        if "/gen" in root:
            continue
        for f in files:
            if f.endswith(".v"):
                out.append(os.path.join(root, f))
    return sorted(out)


def strip_comments(src):
    out, depth, i = [], 0, 0
    while i < len(src):
        if src.startswith("(*", i):
            depth += 1
            i += 2
        elif src.startswith("*)", i) and depth > 0:
            depth -= 1
            i += 2
        else:
            if depth == 0:
                out.append(src[i])
            i += 1
    return "".join(out)


def forbidden_vernacular():
    """The development may contain no Admitted/admit/Axiom/Parameter/... ; Variable/Hypothesis only inside a Section."""
    hits = []
    for f in coq_sources():
        src = strip_comments(open(f).read())
        sections = []
        for ln, line in enumerate(src.split("\n"), 1):
            m = re.match(r"\s*Section\s+([A-Za-z0-9_']+)\s*\.", line)
            if m:
                sections.append(m.group(1))
            m = re.match(r"\s*End\s+([A-Za-z0-9_']+)\s*\.", line)
            if m and sections and sections[-1] == m.group(1):
                sections.pop()
            for m in FORBIDDEN.finditer(line):
                w = m.group(0)
                if w in ("Hypothesis", "Hypotheses", "Variable", "Variables") and sections:
                    continue
                hits.append("%s:%d: %s" % (os.path.relpath(f, VERIF), ln, w))
    return hits


def coq_build(ctx):
    """(Re)build the Coq development under a file lock; a no-op when the .vo files are fresh."""
    os.makedirs(WORK, exist_ok=True)
    with open(os.path.join(WORK, ".coq.lock"), "w") as lk:
        fcntl.flock(lk, fcntl.LOCK_EX)
        if not os.path.exists(os.path.join(COQ, "Makefile")) or \
                os.path.getmtime(os.path.join(COQ, "Makefile")) < os.path.getmtime(os.path.join(COQ, "_CoqProject")):
            sh(["coq_makefile", "-f", "_CoqProject", "-o", "Makefile"], cwd=COQ, check=True)
        rc, out = sh(["timeout", "1500", "make", "-j16"], cwd=COQ)
    if rc != 0:
        ctx.log("Coq build FAILED:\n" + out[-3000:])
    return rc == 0, out


def coq_cone(prop_file):
    """Local .v files the given file depends on (transitively), via coqdep."""
    rc, out = sh("coqdep -Q . PV $(find . -name '*.v' -not -path './gen/*')", cwd=COQ)
    deps = {}
    for line in out.splitlines():
        if ":" not in line:
            continue
        lhs, rhs = line.split(":", 1)
        tgt = [t for t in lhs.split() if t.endswith(".vo")]
        if not tgt:
            continue
        src = tgt[0][:-1]
        deps[os.path.normpath(src)] = [os.path.normpath(d[:-1]) for d in rhs.split() if d.endswith(".vo") and not d.startswith("/")]
    cone, todo = set(), [os.path.normpath(prop_file)]
    while todo:
        f = todo.pop()
        if f in cone:
            continue
        cone.add(f)
        todo.extend(deps.get(f, []))
    return sorted(cone)


STMT = re.compile(r"^\s*(?:Local\s+|Global\s+|Program\s+)*(Lemma|Theorem|Example|Corollary|Fact|Remark|Proposition)\s+([A-Za-z0-9_']+)", re.M)


def obligations(files):
    """Count statements and closed proofs in the given files (relative to coq/)."""
    stmts, qeds, bad = 0, 0, 0
    names = []
    for f in files:
        src = strip_comments(open(os.path.join(COQ, f)).read())
        found = STMT.findall(src)
        stmts += len(found)
        names += [n for _, n in found]
        qeds += len(re.findall(r"\bQed\.", src))
        bad += len(re.findall(r"\b(Admitted|Abort)\b", src))
    return stmts, qeds, bad, names


def print_assumptions(ctx, module, theorems):
    """Run Print Assumptions for each theorem in a scratch file; returns {theorem: text}."""
    src = "From PV Require Import %s.\n" % module
    for t in theorems:
        src += 'Print Assumptions %s.\n' % t
    path = os.path.join(ctx.run, "Assum.v")
    open(path, "w").write(src)
    rc, out = sh(["timeout", "600", "coqc", "-Q", COQ, "PV", "-w", "none", path], cwd=ctx.run)
    res = {}
    if rc != 0:
        ctx.log("Print Assumptions failed:\n" + out[-2000:])
        return None
    chunks = re.split(r"(?=Closed under the global context|Axioms:)", out)
    chunks = [c.strip() for c in chunks if c.strip()]
    for t, c in zip(theorems, chunks):
        res[t] = c
    if len(chunks) != len(theorems):
        res["_raw"] = out
    return res


def property_theorems(prop):
    src = strip_comments(open(os.path.join(COQ, "Properties", prop + ".v")).read())
    return re.findall(r"^\s*Theorem\s+([A-Za-z0-9_']+)", src, re.M)


def proof_evidence(ctx, extra_files=()):
    """Build, grep, count obligations in the cone of Properties/<id>.v, Print Assumptions. Returns False if the proof side is broken."""
    ok, out = coq_build(ctx)
    if not ok:
        ctx.coverage["coq_build"] = "failed"
        return False
    hits = forbidden_vernacular()
    if hits:
        ctx.log("forbidden vernacular:", hits[:5])
        ctx.coverage["forbidden_vernacular"] = hits
        return False
    cone = coq_cone(os.path.join("Properties", ctx.prop + ".v"))
    for f in extra_files:
        for g in coq_cone(f):
            if g not in cone:
                cone.append(g)
    stmts, qeds, bad, names = obligations(cone)
    thms = property_theorems(ctx.prop)
    assum = print_assumptions(ctx, "Properties." + ctx.prop, thms)
    if assum is None:
        return False
    axioms = sorted({a for t in thms for a in re.findall(r"^\s*([A-Za-z0-9_.']+)\s*:", assum.get(t, ""), re.M)
                     if "Closed under" not in assum.get(t, "")})
    ctx.coverage.update({
        "obligations": stmts,
        "discharged": qeds if bad == 0 else 0,
        "checker_cmd": "make -C coq (coq_makefile, coqc 8.16.1, full .vo build) + coqc Print Assumptions",
        "cone_files": cone,
        "property_theorems": thms,
        "print_assumptions": {t: assum.get(t, "?") for t in thms},
        "axioms_used": axioms,
    })
    if qeds < stmts or bad:
        ctx.log("statements %d, Qed %d, Admitted/Abort %d" % (stmts, qeds, bad))
        return False
    if ctx.tier == "thorough":
        # the compiled theorem file and everything it depends on re-checked by Coq's independent checker; axioms it reports
        rc, out = sh(["timeout", "1800", "coqchk", "-silent", "-o", "-Q", COQ, "PV", "PV.Properties." + ctx.prop], cwd=COQ, timeout=1900)
        m = re.search(r"\* Axioms:\s*(.*?)\n\s*\n", out, re.S)
        ctx.coverage["coqchk"] = {"exit": rc, "axioms": (m.group(1).strip() if m else "?")}
        if rc != 0 or not m or m.group(1).strip() != "<none>":
            ctx.log("coqchk: exit %d, axioms %s" % (rc, m.group(1).strip() if m else out[-400:]))
            return False
    return True


TRUSTED_COMMON = [
    "Coq 8.16.1 kernel (coqc; vm_compute bytecode VM for correspondence evaluation and concrete witnesses; no native_compute, no extraction)",
    "axioms: none declared by this development; Print Assumptions output per property theorem is in coverage.print_assumptions",
    "hand-written Gallina model (coq/*.v) tied to the Go code by the correspondence run of this check",
    "Go harness (/verif/harness), python glue (/verif/tools) and the monitors that evaluate the property on the implementation's trace",
]


# ---------------------------------------------------------------- harness

def build_harness(ctx, cmds, race=False):
    """Copy the harness sources, point the module at the repo working tree, build the given commands with -tags verif."""
    hb = os.path.join(ctx.run, "hb")
    if os.path.exists(hb):
        shutil.rmtree(hb)
    shutil.copytree(os.path.join(VERIF, "harness"), hb)
    mod = open(os.path.join(hb, "go.mod.tmpl")).read().replace("@REPO@", REPO)
    open(os.path.join(hb, "go.mod"), "w").write(mod)
    shutil.copy(os.path.join(REPO, "go.sum"), os.path.join(hb, "go.sum"))
    bins = {}
    for c in cmds:
        out = os.path.join(ctx.run, c + ("-race" if race else ""))
        cmd = ["go", "build", "-tags", "verif"] + (["-race"] if race else []) + ["-o", out, "./cmd/" + c]
        rc, o = sh(cmd, cwd=hb, env=GOENV, timeout=900)
        if rc != 0:
            ctx.log("harness build failed for %s:\n%s" % (c, o[-3000:]))
            return None
        bins[c] = out
    return bins


# ---------------------------------------------------------------- Coq term emission

def cq_str(s):
    b = s.encode("utf-8") if isinstance(s, str) else s
    if all(32 <= c < 127 for c in b):
        return '"' + b.decode("ascii").replace('"', '""') + '"'
    return "(bs [" + ";".join(str(c) for c in b) + "]%N)"


def cq_z(i):
    return "(%d)%%Z" % i


def cq_nat(i):
    return "%d%%nat" % i


def cq_bool(b):
    return "true" if b else "false"


def cq_opt(x, f):
    return "None" if x is None else "(Some %s)" % f(x)


def cq_list(xs, f):
    return "[" + "; ".join(f(x) for x in xs) + "]"


def cq_pair(a, b):
    return "(%s, %s)" % (a, b)


def run_cases(ctx, name, header, case_terms, case_type="(nat * bool)", shards=16, mism="mismatches", per_file=300, parallel=8):
    """Write bounded cases files (at most per_file cases each: a vm_compute over thousands of cases needs gigabytes); each evaluates
    `mism cases` by vm_compute and prints it; at most `parallel` coqc run at once. Returns the list of bad ids."""
    if not case_terms:
        return []
    nfiles = max(1, min(shards, (len(case_terms) + 19) // 20), (len(case_terms) + per_file - 1) // per_file)
    pending = []
    for k in range(nfiles):
        part = case_terms[k::nfiles]
        src = header + "\nDefinition cases : list %s := [\n" % case_type + ";\n".join(part) + "\n].\n"
        src += "Definition bad := Eval vm_compute in %s cases.\nPrint bad.\n" % mism
        path = os.path.join(ctx.run, "%s_%d.v" % (name, k))
        open(path, "w").write(src)
        pending.append(path)
    bad = []
    running = []

    def reap(path, p, retry):
        out, _ = p.communicate()
        if p.returncode != 0:
            if retry and not out.strip():
                # killed without a message (memory pressure): once more, alone
                p2 = subprocess.run(["timeout", "1200", "coqc", "-Q", COQ, "PV", "-w", "none", path], cwd=ctx.run, stdout=subprocess.PIPE,
                                    stderr=subprocess.STDOUT, text=True)
                out = p2.stdout
                if p2.returncode == 0:
                    return out
            ctx.log("coqc failed on %s:\n%s" % (path, out[-3000:]))
            raise RuntimeError("generated cases file does not check: " + path)
        return out

    def parse(out):
        m = re.search(r"bad\s*=\s*(.*?)\s*:\s*list", out, re.S)
        if not m:
            raise RuntimeError("cannot parse coqc output: " + out[-500:])
        return [int(x) for x in re.findall(r"\d+", m.group(1).strip())]

    while pending or running:
        while pending and len(running) < parallel:
            path = pending.pop(0)
            running.append((path, subprocess.Popen(["timeout", "1200", "coqc", "-Q", COQ, "PV", "-w", "none", path], cwd=ctx.run,
                                                   stdout=subprocess.PIPE, stderr=subprocess.STDOUT, text=True)))
        path, p = running.pop(0)
        bad += parse(reap(path, p, True))
    return sorted(bad)


# ---------------------------------------------------------------- verdicts / evidence

def known_findings():
    path = os.path.join(VERIF, "known_findings.txt")
    out = []
    if os.path.exists(path):
        for l in open(path):
            l = l.strip()
            if l.startswith("finding:"):
                kv = dict(re.findall(r"(\w+)=(\S+)", l))
                out.append({"property": kv.get("property"), "key": kv.get("key"), "line": l})
    return out


def write_replay(ctx, payload):
    os.makedirs(os.path.join(VERIF, "replays"), exist_ok=True)
    blob = json.dumps(payload, sort_keys=True, indent=1, default=str)
    h = hashlib.sha1(blob.encode()).hexdigest()[:10]
    path = os.path.join(VERIF, "replays", "%s-%s.json" % (ctx.prop, h))
    open(path, "w").write(blob)
    return os.path.relpath(path, VERIF)


def violation(ctx, payload, found_input=True):
    payload = dict(payload)
    payload.setdefault("property", ctx.prop)
    payload.setdefault("seed", ctx.seed)
    payload.setdefault("tier", ctx.tier)
    path = write_replay(ctx, payload)
    ctx.violations.append((path, "" if found_input else " no-failing-input-found"))


def finish(ctx, level="proof"):
    ev = {
        "property_id": ctx.prop,
        "tier": ctx.tier,
        "seed": ctx.seed,
        "level": level,
        "coverage": ctx.coverage,
        "assumptions": ctx.assumptions,
        "wall_s": round(time.time() - ctx.t0, 2),
        "violations": len(ctx.violations),
    }
    ctx.coverage.setdefault("trusted_base", TRUSTED_COMMON)
    if not ctx.replay and not os.environ.get("VERIF_NO_EVIDENCE"):
        os.makedirs(os.path.join(VERIF, "evidence"), exist_ok=True)
        tmp = os.path.join(VERIF, "evidence", ".%s.%d.tmp" % (ctx.prop, os.getpid()))
        open(tmp, "w").write(json.dumps(ev, indent=1, default=str))
        os.replace(tmp, os.path.join(VERIF, "evidence", ctx.prop + ".json"))
    for l in ctx.known:
        print("KNOWN-FINDING: property=%s %s" % (ctx.prop, l))
    for path, suffix in ctx.violations:
        print("VIOLATION property=%s replay=%s%s" % (ctx.prop, path, suffix))
    ctx.cleanup()
    sys.stdout.flush()
    sys.exit(1 if ctx.violations else 0)

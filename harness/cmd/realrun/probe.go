package main

import (
	"encoding/json"
	"os"
	"time"
)

// probeMode: run the pipelines of a JSON file once each and print details and logs (debugging aid)
func probeMode(file string) {
	b, err := os.ReadFile(file)
	if err != nil {
		panic(err)
	}
	var defs map[string]PipeDef
	if err := json.Unmarshal(b, &defs); err != nil {
		panic(err)
	}
	a, err := startApp(defs)
	if err != nil {
		panic(err)
	}
	defer a.Stop()
	for name, d := range defs {
		id, st, msg := a.Schedule(name, map[string]interface{}{"v": "x"})
		res, _ := a.WaitDone(id, 30*time.Second)
		rec := map[string]interface{}{"kind": "probe", "pipeline": name, "status": st, "msg": msg, "job": res}
		logs := map[string]interface{}{}
		for t := range d.Tasks {
			o, _ := a.LogFile(id, t, "stdout")
			e, _ := a.LogFile(id, t, "stderr")
			logs[t] = []string{string(o), string(e)}
		}
		rec["logs"] = logs
		emit(rec)
	}
}

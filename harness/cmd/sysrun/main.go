// sysrun: controlled-mode correspondence driver for the runner state machine (properties C01-C08, C10-C12, C15, C16).
//
// Drives the real prunner.PipelineRunner through generated event histories under full schedule control (package control)
// and records, after every event, what the API and the controlled task runner observe. The same histories are replayed
// through the Coq model's step function by tools/ (cases_*.v + vm_compute).
//
// usage: sysrun -seed N -n HISTORIES -profile NAME -out FILE [-replay FILE -hid K]
package main

import (
	"bytes"
	"context"
	"encoding/json"
	"errors"
	"flag"
	"fmt"
	"net/http"
	"net/http/httptest"
	"os"
	"path/filepath"
	"sort"
	"strings"
	"time"

	"github.com/apex/log"
	"github.com/apex/log/handlers/discard"
	"github.com/go-chi/jwtauth/v5"
	"github.com/gofrs/uuid"
	"github.com/lestrrat-go/jwx/jwa"
	"github.com/lestrrat-go/jwx/jwt"

	"github.com/Flowpack/prunner"
	"github.com/Flowpack/prunner/definition"
	"github.com/Flowpack/prunner/server"
	"github.com/Flowpack/prunner/store"
	"github.com/Flowpack/prunner/taskctl"

	"verifharness/control"
	"verifharness/hutil"
)

// ---------- configuration ----------

type TaskCfg struct {
	Name   int   `json:"name"`
	Deps   []int `json:"deps"`
	Allow  bool  `json:"allow"`
	Empty  bool  `json:"empty"`
	Script int   `json:"script"`
	Env    int   `json:"env"`
}

type PipeCfg struct {
	Name     int       `json:"name"`
	Conc     int       `json:"conc"`
	QLimit   *int      `json:"qlimit"`
	Replace  bool      `json:"replace"`
	Delay    int       `json:"delay"`
	Continue bool      `json:"continue"`
	RetP     int       `json:"retp"`
	RetC     int       `json:"retc"`
	Env      int       `json:"env"`
	Tasks    []TaskCfg `json:"tasks"`
}

type DefSet struct {
	Pipes []PipeCfg `json:"pipes"`
}

func pname(i int) string { return fmt.Sprintf("p%02d", i) }
func tname(i int) string { return fmt.Sprintf("t%02d", i) }
func num(s string) int {
	n := 0
	fmt.Sscanf(s[1:], "%d", &n)
	return n
}

// one tick of the logical clock; real timers are armed with hours and never fire during a run
const tick = time.Hour

func (d DefSet) toDefs() *definition.PipelinesDef {
	out := &definition.PipelinesDef{Pipelines: map[string]definition.PipelineDef{}}
	for _, p := range d.Pipes {
		pd := definition.PipelineDef{Concurrency: p.Conc, QueueLimit: p.QLimit, StartDelay: time.Duration(p.Delay) * tick,
			ContinueRunningTasksAfterFailure: p.Continue, RetentionPeriod: time.Duration(p.RetP) * tick, RetentionCount: p.RetC,
			Tasks: map[string]definition.TaskDef{}, SourcePath: "gen"}
		if p.Env != 0 {
			// environment 0 is "no env section at all" (a nil map)
			pd.Env = map[string]string{"E": fmt.Sprint(p.Env)}
		}
		if p.Replace {
			pd.QueueStrategy = definition.QueueStrategyReplace
		}
		for _, t := range p.Tasks {
			td := definition.TaskDef{AllowFailure: t.Allow, Env: map[string]string{"E": fmt.Sprint(t.Env)}}
			if !t.Empty {
				td.Script = []string{fmt.Sprintf("s%d", t.Script)}
			}
			for _, d := range t.Deps {
				td.DependsOn = append(td.DependsOn, tname(d))
			}
			pd.Tasks[tname(t.Name)] = td
		}
		out.Pipelines[pname(p.Name)] = pd
	}
	return out
}

func genTasks(rng *hutil.Rng, prof string) []TaskCfg {
	var nt int
	switch prof {
	case "graph", "fail", "cancel":
		nt = 1 + rng.Pick([]int{2, 4, 5, 4, 3, 2, 1})
	default:
		nt = rng.Pick([]int{1, 8, 4, 2})
	}
	if prof == "graph" && rng.Chance(1, 8) {
		// a shape that punishes a ranking which is not the order of removal: a chain, a root whose name sorts last, and a diamond below both
		mk := func(n int, deps ...int) TaskCfg {
			return TaskCfg{Name: n, Allow: false, Empty: rng.Chance(1, 10), Script: rng.Intn(4), Env: rng.Intn(3), Deps: append([]int{}, deps...)}
		}
		// (chain 0 -> 1 -> 5; root 7 is removed last; 3 needs 5 and 7; 4 needs 5 and 3: with a wrong ranking 5 is added to the graph after
		// both 3 and 4, and the search from 5 meets 4 twice)
		return []TaskCfg{mk(0), mk(1, 0), mk(3, 5, 7), mk(4, 5, 3), mk(5, 1), mk(7)}
	}
	ts := make([]TaskCfg, nt)
	// task numbers are a random injection into 0..7 so that name order and dependency order are unrelated
	perm := []int{0, 1, 2, 3, 4, 5, 6, 7}
	for i := len(perm) - 1; i > 0; i-- {
		j := rng.Intn(i + 1)
		perm[i], perm[j] = perm[j], perm[i]
	}
	dense := 1 + rng.Intn(2) // sparse and dense graphs
	for i := range ts {
		ts[i] = TaskCfg{Name: perm[i], Allow: rng.Chance(1, 5), Empty: rng.Chance(1, 10), Script: rng.Intn(4), Env: rng.Intn(3), Deps: []int{}}
		for k := 0; k < i; k++ {
			if rng.Chance(dense, 5) {
				ts[i].Deps = append(ts[i].Deps, ts[k].Name)
			}
		}
		if len(ts[i].Deps) > 0 && rng.Chance(1, 10) {
			ts[i].Deps = append(ts[i].Deps, ts[i].Deps[0]) // duplicate depends_on entry
		}
	}
	// cycles: self-loop, back edge
	if nt > 0 && rng.Chance(1, 12) {
		if rng.Chance(1, 3) {
			i := rng.Intn(nt)
			ts[i].Deps = append(ts[i].Deps, ts[i].Name)
		} else if nt >= 2 {
			i := rng.Intn(nt - 1)
			k := i + 1 + rng.Intn(nt-i-1)
			ts[i].Deps = append(ts[i].Deps, ts[k].Name)
		}
	}
	sort.Slice(ts, func(a, b int) bool { return ts[a].Name < ts[b].Name })
	return ts
}

func genPipe(rng *hutil.Rng, name int, prof string) PipeCfg {
	p := PipeCfg{Name: name, Conc: 1 + rng.Pick([]int{5, 3, 2}), Env: rng.Intn(3)}
	switch rng.Intn(5) {
	case 0:
		v := 0
		p.QLimit = &v
	case 1, 2:
		v := 1 + rng.Intn(3)
		p.QLimit = &v
	}
	p.Replace = rng.Chance(1, 3)
	delayNum := 1
	if prof == "delay" {
		delayNum = 3
	}
	if rng.Chance(delayNum, 5) && !(p.QLimit != nil && *p.QLimit == 0) {
		p.Delay = 1 + rng.Intn(4)
	}
	p.Continue = rng.Chance(1, 3)
	p.Tasks = genTasks(rng, prof)
	retNum := 1
	if prof == "retain" {
		retNum = 4
	}
	if rng.Chance(retNum, 6) {
		p.RetC = 1 + rng.Intn(3)
	}
	if rng.Chance(retNum, 6) {
		// ages of preloaded jobs are even numbers of ticks (hours), periods odd: never closer than one hour to a threshold
		p.RetP = 1 + 2*rng.Intn(4)
	}
	return p
}

func genDefSets(rng *hutil.Rng, prof string) []DefSet {
	np := 1 + rng.Pick([]int{5, 3, 1})
	if prof == "shutdown" {
		// more histories with several pipelines: a reload that removes a pipeline while one of its jobs runs,
		// followed by a (forced) shutdown, needs at least two (seeded change C11-I)
		np = 1 + rng.Pick([]int{2, 4, 2})
	}
	base := DefSet{}
	for i := 0; i < np; i++ {
		base.Pipes = append(base.Pipes, genPipe(rng, i, prof))
	}
	sets := []DefSet{base}
	// variants for reloads
	for v := 0; v < 3; v++ {
		alt := DefSet{}
		victim := -1
		if prof == "shutdown" && v == 0 && len(base.Pipes) > 1 {
			victim = rng.Intn(len(base.Pipes)) // the first variant always lacks one pipeline
		}
		for pi, p := range base.Pipes {
			if pi == victim {
				continue
			}
			q := p
			q.Tasks = append([]TaskCfg(nil), p.Tasks...)
			switch rng.Intn(7) {
			case 0:
				q.Conc = 1 + rng.Intn(3)
			case 1:
				if q.QLimit == nil || *q.QLimit != 0 {
					q.Delay = []int{0, 2, 3}[rng.Intn(3)]
				}
			case 2:
				q.Tasks = genTasks(rng, prof)
			case 3:
				q.Continue = !q.Continue
				q.Env = 7
			case 4:
				q.Replace = !q.Replace
				v := 1 + rng.Intn(2)
				q.QLimit = &v
			case 5:
				if len(base.Pipes) > 1 && rng.Chance(1, 2) {
					continue // pipeline removed
				}
			}
			alt.Pipes = append(alt.Pipes, q)
		}
		sets = append(sets, alt)
	}
	return sets
}

// ---------- events ----------

type Ev struct {
	T    string `json:"t"`
	P    int    `json:"p,omitempty"`
	V    string `json:"v,omitempty"`
	VN   int    `json:"vn,omitempty"`
	U    int    `json:"u,omitempty"`
	ID   int    `json:"id"`
	N    int    `json:"n,omitempty"`
	D    int    `json:"d,omitempty"`
	DS   int    `json:"ds,omitempty"`
	O    string `json:"o,omitempty"`
	Code int    `json:"code,omitempty"`
}

type TaskSnap struct {
	Name     int    `json:"name"`
	Status   string `json:"status"`
	Start    bool   `json:"start"`
	End      bool   `json:"end"`
	Skipped  bool   `json:"skipped"`
	Exit     int    `json:"exit"`
	Errored  bool   `json:"errored"`
	Err      string `json:"err"`
	Canceled bool   `json:"canceled"`
	Deps     []int  `json:"deps"`
	Allow    bool   `json:"allow"`
	Empty    bool   `json:"empty"`
	Script   int    `json:"script"`
	TEnv     int    `json:"tenv"`
}

type SchedSnap struct {
	Phase   string `json:"phase"`
	Todo    []int  `json:"todo"`
	Entry   []int  `json:"entry"`
	Running []int  `json:"running"`
	NErr    []int  `json:"nerr"`  // stage goroutines parked before notifying "error"
	NDone   []int  `json:"ndone"` // ... before notifying "done"
}

type JobSnap struct {
	HView     string     `json:"hview,omitempty"`
	ID        int        `json:"id"`
	Pipe      int        `json:"pipe"`
	Start     bool       `json:"start"`
	End       bool       `json:"end"`
	Completed bool       `json:"completed"`
	Canceled  bool       `json:"canceled"`
	LastErr   string     `json:"lasterr"`
	Timer     bool       `json:"timer"`
	Delay     int        `json:"delay"`
	Env       int        `json:"env"`
	Vars      string     `json:"vars"`
	VN        int        `json:"vn"`
	User      int        `json:"user"`
	Tasks     []TaskSnap `json:"tasks"`
	Sched     *SchedSnap `json:"sched"`
	Cancels   int        `json:"cancels"`
	Ctx       bool       `json:"ctx"`
	// real-time order facts (monitor only): created<=start<=end, task start<=end
	TimeOrderOK bool `json:"time_ok"`
}

type PTaskSnap struct {
	Name    int    `json:"name"`
	Deps    []int  `json:"deps"`
	Allow   bool   `json:"allow"`
	Empty   bool   `json:"empty"`
	Script  int    `json:"script"`
	Status  string `json:"status"`
	Start   bool   `json:"start"`
	End     bool   `json:"end"`
	Skipped bool   `json:"skipped"`
	Exit    int    `json:"exit"`
	Errored bool   `json:"errored"`
	Err     string `json:"err"`
}

type PJobSnap struct {
	ID        int         `json:"id"`
	Pipe      int         `json:"pipe"`
	Completed bool        `json:"completed"`
	Canceled  bool        `json:"canceled"`
	Age       int         `json:"age"` // only for preloaded jobs: age in ticks
	Start     bool        `json:"start"`
	End       bool        `json:"end"`
	Vars      string      `json:"vars"`
	VN        int         `json:"vn"`
	User      int         `json:"user"`
	LastErr   string      `json:"lasterr"`
	Tasks     []PTaskSnap `json:"tasks"`
}

type PipeSnap struct {
	P           int  `json:"p"`
	Schedulable bool `json:"schedulable"`
	Running     bool `json:"running"`
}

type Snap struct {
	Jobs  []JobSnap        `json:"jobs"`
	Wait  map[string][]int `json:"wait"`
	Pipes []PipeSnap       `json:"pipes"`
	// HTTP: how the HTTP API (GET /pipelines/jobs, GET /job/detail) differs from what the runner reports ("" = agrees)
	HTTP string `json:"http,omitempty"`
	Req   bool             `json:"req"`
	Logs  []int            `json:"logs"`
	Store []PJobSnap       `json:"store"` // content of the store (only after events that write or load it), nil otherwise
	// real-time strings of the reported jobs (monitor only, not compared with the model)
	Times map[string][]string `json:"times,omitempty"`
}

type Step struct {
	Kind string `json:"kind"`
	Ev   Ev     `json:"ev"`
	Res  string `json:"res"`
	Snap Snap   `json:"snap"`
	// Skip: the snapshot was taken after a following automatic event as well (Shutdown returned): it is not compared
	Skip bool `json:"skip,omitempty"`
}

// ---------- one history ----------

type hist struct {
	h         *control.H
	r         *prunner.PipelineRunner
	rng       *hutil.Rng
	sets      []DefSet
	cur       int
	clock     int
	created   map[int]int  // job idx -> logical time of acceptance
	delay     map[int]int  // job idx -> delay in ticks
	armed     map[int]bool // timer created and neither fired nor seen stopped
	alive     map[int]bool // scheduler goroutine seen and not yet returned
	pipesSeen map[int]bool
	srv       http.Handler
	out       *os.File
	prof      string
	steps     int
	failure   string
	// persistence
	dir       string
	st        *store.JsonDataStore
	ost       *taskctl.FileOutputStore
	readStore bool
	// shutdown
	shutting     bool
	forced       bool
	shutDone     chan error
	shutCancel   context.CancelFunc
	shutReturned bool
	restarts     int
}

func errKind(err error) string {
	if err == nil {
		return "none"
	}
	if errors.Is(err, context.Canceled) || err.Error() == context.Canceled.Error() {
		return "canceled"
	}
	s := err.Error()
	if strings.Contains(s, "building execution graph") || strings.Contains(s, "reserved for internal use") {
		return "graph"
	}
	return "fail"
}

func (x *hist) snapshot() Snap {
	s := Snap{Wait: map[string][]int{}, Jobs: []JobSnap{}, Pipes: []PipeSnap{}}
	parked := x.h.ParkedList()
	for _, p := range parked {
		if p.Kind == control.KTop || p.Kind == control.KVisit || p.Kind == control.KReturn {
			x.alive[p.Job.Idx] = true
		}
	}
	x.r.IterateJobs(func(j *prunner.PipelineJob) {
		jh := x.h.ByUUID[j.ID.String()]
		if jh == nil {
			x.failure = "job unknown to the harness: " + j.ID.String()
			return
		}
		js := JobSnap{ID: jh.Idx, Pipe: num(j.Pipeline), Start: j.Start != nil, End: j.End != nil, Completed: j.Completed, Canceled: j.Canceled,
			LastErr: errKind(j.LastError), Timer: j.VerifHasTimer() && !j.Canceled, Delay: int(j.StartDelay / tick), User: num("u" + strings.TrimPrefix(j.User, "u")),
			Tasks: []TaskSnap{}, TimeOrderOK: true}
		if e, ok := j.Env["E"]; ok {
			fmt.Sscanf(e, "%d", &js.Env)
		}
		switch {
		case j.Variables == nil:
			js.Vars = "none"
		default:
			if _, ok := j.Variables["__jobID"]; ok {
				js.Vars = "reserved"
			} else {
				js.Vars = "plain"
				switch v := j.Variables["v"].(type) {
				case int:
					js.VN = v
				case float64:
					js.VN = int(v)
				}
			}
		}
		if j.Start != nil && j.Start.Before(j.Created) {
			js.TimeOrderOK = false
		}
		if j.End != nil && (j.Start == nil || j.End.Before(*j.Start)) {
			js.TimeOrderOK = false
		}
		for _, t := range j.Tasks {
			ts := TaskSnap{Name: num(t.Name), Status: t.Status, Start: t.Start != nil, End: t.End != nil, Skipped: t.Skipped, Exit: int(t.ExitCode),
				Errored: t.Errored, Err: errKind(t.Error), Canceled: t.Canceled, Allow: t.AllowFailure, Empty: len(t.Script) == 0, Deps: []int{}}
			for _, d := range t.DependsOn {
				ts.Deps = append(ts.Deps, num(d))
			}
			if len(t.Script) > 0 {
				fmt.Sscanf(t.Script[0], "s%d", &ts.Script)
			}
			if e, ok := t.Env["E"]; ok {
				fmt.Sscanf(e, "%d", &ts.TEnv)
			}
			if t.Start != nil && t.End != nil && t.End.Before(*t.Start) {
				js.TimeOrderOK = false
			}
			js.Tasks = append(js.Tasks, ts)
		}
		if jh.Runner != nil {
			js.Ctx = jh.Runner.CtxCanceled()
		}
		sc := &SchedSnap{Phase: "", Todo: []int{}, Entry: []int{}, Running: []int{}, NErr: []int{}, NDone: []int{}}
		for _, p := range parked {
			if p.Job != jh {
				continue
			}
			switch p.Kind {
			case control.KTop:
				sc.Phase = "top"
			case control.KVisit:
				sc.Phase = "scan"
			case control.KReturn:
				sc.Phase = "exited"
			case control.KRunEntry:
				sc.Entry = append(sc.Entry, num(p.Stage))
			case control.KRunBody:
				sc.Running = append(sc.Running, num(p.Stage))
			case control.KNotify:
				if p.Err {
					sc.NErr = append(sc.NErr, num(p.Stage))
				} else {
					sc.NDone = append(sc.NDone, num(p.Stage))
				}
			case control.KCancel:
				js.Cancels++
			}
		}
		if x.alive[jh.Idx] {
			if sc.Phase == "" {
				sc.Phase = "exited" // waiting for its stage goroutines
			}
			if sc.Phase == "scan" {
				for t := range jh.Todo {
					sc.Todo = append(sc.Todo, num(t))
				}
				sort.Ints(sc.Todo)
			}
			sort.Ints(sc.NErr)
			sort.Ints(sc.NDone)
			sort.Ints(sc.Entry)
			sort.Ints(sc.Running)
			js.Sched = sc
		}
		s.Jobs = append(s.Jobs, js)
	})
	sort.Slice(s.Jobs, func(a, b int) bool { return s.Jobs[a].ID < s.Jobs[b].ID })
	for p := range x.pipesSeen {
		ids := []int{}
		for _, u := range x.r.VerifWaitListIDs(pname(p)) {
			if jh := x.h.ByUUID[u]; jh != nil {
				ids = append(ids, jh.Idx)
			} else {
				ids = append(ids, -1)
			}
		}
		s.Wait[fmt.Sprint(p)] = ids
	}
	for _, pi := range x.r.ListPipelines() {
		s.Pipes = append(s.Pipes, PipeSnap{P: num(pi.Pipeline), Schedulable: pi.Schedulable, Running: pi.Running})
	}
	s.Req = x.r.VerifTakePersistRequest()
	s.Logs = []int{}
	if ents, err := os.ReadDir(filepath.Join(x.dir, "logs")); err == nil {
		for _, e := range ents {
			if jh := x.h.ByUUID[e.Name()]; jh != nil {
				s.Logs = append(s.Logs, jh.Idx)
			} else {
				s.Logs = append(s.Logs, -1)
			}
		}
	}
	sort.Ints(s.Logs)
	if x.readStore {
		x.readStore = false
		s.Store = x.storeSnap()
	}
	s.Times = map[string][]string{}
	x.r.IterateJobs(func(j *prunner.PipelineJob) {
		jh := x.h.ByUUID[j.ID.String()]
		if jh == nil {
			return
		}
		ts := []string{j.Created.Format(time.RFC3339Nano), tstr(j.Start), tstr(j.End)}
		for _, t := range j.Tasks {
			ts = append(ts, tstr(t.Start), tstr(t.End))
			if t.Error != nil {
				ts = append(ts, t.Error.Error())
			}
		}
		if j.LastError != nil {
			ts = append(ts, j.LastError.Error())
		}
		s.Times[fmt.Sprint(jh.Idx)] = ts
	})
	s.HTTP = x.httpDiff(&s)
	return s
}

func tstr(t *time.Time) string {
	if t == nil {
		return ""
	}
	return t.Format(time.RFC3339Nano)
}

func strErrKind(s *string) string {
	if s == nil || *s == "" {
		return "none"
	}
	return errKind(errors.New(*s))
}

func (x *hist) storeSnap() []PJobSnap {
	out := []PJobSnap{}
	data, err := x.st.Load()
	if err != nil {
		x.failure = "store cannot be loaded: " + err.Error()
		return out
	}
	for _, pj := range data.Jobs {
		jh := x.h.ByUUID[pj.ID.String()]
		if jh == nil {
			x.failure = "store holds a job unknown to the harness: " + pj.ID.String()
			continue
		}
		ps := PJobSnap{ID: jh.Idx, Pipe: num(pj.Pipeline), Completed: pj.Completed, Canceled: pj.Canceled, Start: pj.Start != nil, End: pj.End != nil,
			User: num("u" + strings.TrimPrefix(pj.User, "u")), LastErr: strErrKind(pj.LastError), Tasks: []PTaskSnap{}}
		switch {
		case pj.Variables == nil:
			ps.Vars = "none"
		default:
			if _, ok := pj.Variables["__jobID"]; ok {
				ps.Vars = "reserved"
			} else {
				ps.Vars = "plain"
				switch v := pj.Variables["v"].(type) {
				case int:
					ps.VN = v
				case float64:
					ps.VN = int(v)
				}
			}
		}
		for _, t := range pj.Tasks {
			pt := PTaskSnap{Name: num(t.Name), Allow: t.AllowFailure, Empty: len(t.Script) == 0, Status: t.Status, Start: t.Start != nil, End: t.End != nil,
				Skipped: t.Skipped, Exit: int(t.ExitCode), Errored: t.Errored, Err: strErrKind(t.Error), Deps: []int{}}
			for _, d := range t.DependsOn {
				pt.Deps = append(pt.Deps, num(d))
			}
			if len(t.Script) > 0 {
				fmt.Sscanf(t.Script[0], "s%d", &pt.Script)
			}
			ps.Tasks = append(ps.Tasks, pt)
		}
		out = append(out, ps)
	}
	sort.Slice(out, func(a, b int) bool { return out[a].ID < out[b].ID })
	return out
}

func (x *hist) quiesce() bool {
	if err := x.h.Quiesce(5*time.Second, "PipelineRunner).Shutdown("); err != nil {
		x.failure = err.Error()
		return false
	}
	return true
}

type cand struct {
	ev     Ev
	weight int
	parked *control.Parked
}

func (x *hist) weights() map[string]int {
	w := map[string]int{"schedule": 10, "cancel": 3, "tick": 3, "fire": 6, "reload": 1, "iter": 8, "visit": 10, "runbegin": 8, "runend": 6, "notify": 7,
		"deliver": 6, "return": 8, "badcancel": 1, "badschedule": 1, "save": 1, "shutdown": 0, "force": 0}
	switch x.prof {
	case "admit":
		w["schedule"], w["cancel"], w["runend"] = 16, 5, 4
	case "cancel":
		w["cancel"], w["deliver"] = 8, 5
	case "delay":
		w["tick"], w["fire"], w["schedule"] = 6, 8, 12
	case "reload":
		w["reload"] = 5
	case "graph", "fail":
		w["schedule"], w["runend"], w["cancel"] = 5, 9, 1
	case "fifo":
		w["schedule"], w["cancel"], w["reload"] = 14, 4, 0
	case "retain":
		w["save"], w["reload"], w["runend"], w["schedule"] = 5, 2, 10, 12
	case "restart":
		w["save"] = 4
	case "shutdown":
		w["shutdown"], w["force"], w["save"], w["reload"] = 2, 3, 2, 3
	}
	return w
}

func (x *hist) candidates(drain bool) []cand {
	w := x.weights()
	var cs []cand
	parked := x.h.ParkedList()
	for _, p := range parked {
		id := p.Job.Idx
		switch p.Kind {
		case control.KTop:
			cs = append(cs, cand{Ev{T: "iter", ID: id}, w["iter"], p})
		case control.KVisit:
			cs = append(cs, cand{Ev{T: "visit", ID: id, N: num(p.Stage)}, w["visit"], p})
		case control.KRunEntry:
			cs = append(cs, cand{Ev{T: "runbegin", ID: id, N: num(p.Stage)}, w["runbegin"], p})
		case control.KRunBody:
			okW, failW, ctxW := 6, 2, 0
			if x.prof == "fail" || x.prof == "graph" {
				failW = 5
			}
			if p.Job.Runner != nil && p.Job.Runner.CtxCanceled() {
				ctxW = 10
			}
			if drain {
				// a task that was told to stop ends (mostly by being killed), others succeed
				failW = 0
			}
			k := x.rng.Pick([]int{okW, failW, ctxW})
			ev := Ev{T: "runend", ID: id, N: num(p.Stage), O: []string{"ok", "fail", "ctx"}[k]}
			if k == 1 {
				ev.Code = 1 + x.rng.Intn(3)
			}
			cs = append(cs, cand{ev, w["runend"], p})
		case control.KNotify:
			cs = append(cs, cand{Ev{T: "notify", ID: id, N: num(p.Stage)}, w["notify"], p})
		case control.KCancel:
			cs = append(cs, cand{Ev{T: "deliver", ID: id}, w["deliver"], p})
		case control.KReturn:
			cs = append(cs, cand{Ev{T: "return", ID: id}, w["return"], p})
		}
	}
	// timers
	anyArmed := false
	for id, a := range x.armed {
		if !a {
			continue
		}
		anyArmed = true
		if x.created[id]+x.delay[id] <= x.clock {
			cs = append(cs, cand{Ev{T: "fire", ID: id}, w["fire"], nil})
		}
	}
	if drain {
		if len(cs) == 0 && anyArmed {
			cs = append(cs, cand{Ev{T: "tick", D: 1 + x.rng.Intn(3)}, 1, nil})
		}
		return cs
	}
	// API operations
	ds := x.sets[x.cur]
	for _, p := range ds.Pipes {
		ev := Ev{T: "schedule", P: p.Name, V: []string{"none", "none", "plain", "plain", "plain", "reserved"}[x.rng.Intn(6)], VN: x.rng.Intn(5), U: x.rng.Intn(3)}
		if x.rng.Chance(1, 25) {
			ev.V = "reserved"
		}
		cs = append(cs, cand{ev, w["schedule"] / len(ds.Pipes), nil})
	}
	cs = append(cs, cand{Ev{T: "schedule", P: 99, V: "none"}, w["badschedule"], nil})
	n := len(x.h.Jobs)
	if n > 0 {
		cs = append(cs, cand{Ev{T: "cancel", ID: x.rng.Intn(n)}, w["cancel"], nil})
		// prefer jobs that are not finished yet
		var open []int
		x.r.IterateJobs(func(j *prunner.PipelineJob) {
			if !j.Completed && !j.Canceled {
				if jh := x.h.ByUUID[j.ID.String()]; jh != nil {
					open = append(open, jh.Idx)
				}
			}
		})
		sort.Ints(open)
		if len(open) > 0 {
			cs = append(cs, cand{Ev{T: "cancel", ID: open[x.rng.Intn(len(open))]}, 2 * w["cancel"], nil})
		}
	}
	cs = append(cs, cand{Ev{T: "cancel", ID: n + 5}, w["badcancel"], nil})
	cs = append(cs, cand{Ev{T: "tick", D: 1 + x.rng.Intn(3)}, w["tick"], nil})
	if len(x.sets) > 1 {
		cs = append(cs, cand{Ev{T: "reload", DS: x.rng.Intn(len(x.sets))}, w["reload"], nil})
	}
	cs = append(cs, cand{Ev{T: "save"}, w["save"], nil})
	if !x.shutting {
		cs = append(cs, cand{Ev{T: "shutdown"}, w["shutdown"], nil})
	} else if !x.forced && !x.shutReturned && x.anyRunning() {
		// the deadline of Shutdown only matters while it still polls a running pipeline
		cs = append(cs, cand{Ev{T: "force"}, w["force"], nil})
	}
	return cs
}

func (x *hist) apply(c cand) string {
	ev := c.ev
	switch ev.T {
	case "schedule":
		opts := prunner.ScheduleOpts{User: fmt.Sprintf("u%d", ev.U)}
		switch ev.V {
		case "plain":
			opts.Variables = map[string]interface{}{"v": ev.VN}
		case "reserved":
			opts.Variables = map[string]interface{}{"__jobID": "x", "v": ev.VN}
		}
		x.pipesSeen[ev.P] = true
		// the request goes through the HTTP handler (POST /pipelines/schedule), as every request of a real client does
		body, _ := json.Marshal(map[string]interface{}{"pipeline": pname(ev.P), "variables": opts.Variables})
		code, resp := x.httpDo("POST", "/pipelines/schedule", opts.User, body)
		if code != http.StatusAccepted {
			msg := string(resp)
			switch {
			case code == http.StatusServiceUnavailable:
				return "err:shutdown"
			case strings.Contains(msg, "is not defined"):
				return "err:undefined"
			case strings.Contains(msg, "queueing disabled"):
				return "err:noqueue"
			case strings.Contains(msg, "queue limit reached"):
				return "err:queuefull"
			}
			return fmt.Sprintf("err:other:%d:%s", code, msg)
		}
		var accepted struct {
			JobID string `json:"jobId"`
		}
		if err := json.Unmarshal(resp, &accepted); err != nil || accepted.JobID == "" {
			return "err:other:schedule response " + string(resp)
		}
		var j *prunner.PipelineJob
		_ = x.r.ReadJob(uuid.FromStringOrNil(accepted.JobID), func(pj *prunner.PipelineJob) { j = pj })
		if j == nil {
			return "err:other:accepted job " + accepted.JobID + " is not known to the runner"
		}
		jh := x.h.Accepted(j.ID.String(), j.Pipeline)
		x.created[jh.Idx] = x.clock
		x.delay[jh.Idx] = int(j.StartDelay / tick)
		if j.StartDelay > 0 {
			x.armed[jh.Idx] = true
		}
		return fmt.Sprintf("job:%d", jh.Idx)
	case "cancel":
		var id uuid.UUID
		if ev.ID < len(x.h.Jobs) {
			id = uuid.FromStringOrNil(x.h.Jobs[ev.ID].UUID)
		} else {
			id, _ = uuid.NewV4()
		}
		// POST /job/cancel through the HTTP handler
		code, resp := x.httpDo("POST", "/job/cancel?id="+id.String(), "u0", nil)
		var err error = fmt.Errorf("%d %s", code, resp)
		switch code {
		case http.StatusOK:
			return "ok"
		case http.StatusNotFound:
			return "err:notfound"
		case http.StatusInternalServerError:
			// the API does not say more; the only error of CancelJob besides "not found" is "already completed"
			return "err:completed"
		}
		return "err:other:" + err.Error()
	case "tick":
		x.clock += ev.D
	case "fire":
		x.armed[ev.ID] = false
		x.r.StartDelayedJob(uuid.FromStringOrNil(x.h.Jobs[ev.ID].UUID))
	case "reload":
		x.cur = ev.DS
		x.r.ReplaceDefinitions(x.sets[ev.DS].toDefs())
		for _, p := range x.sets[ev.DS].Pipes {
			x.pipesSeen[p.Name] = true
		}
	case "save":
		x.r.SaveToStore()
		x.readStore = true
	case "restart":
		x.doRestart()
	case "shutdown":
		x.shutting = true
		ctx, cancel := context.WithCancel(context.Background())
		x.shutCancel = cancel
		x.shutDone = make(chan error, 1)
		r := x.r
		go func() { x.shutDone <- r.Shutdown(ctx) }()
	case "force":
		x.forced = true
		x.shutCancel()
	case "iter":
		jh := c.parked.Job
		jh.Todo = map[string]bool{}
		x.h.Release(c.parked, control.Outcome{})
	case "visit":
		jh := c.parked.Job
		delete(jh.Todo, c.parked.Stage)
		x.h.Release(c.parked, control.Outcome{})
	case "runbegin", "deliver", "notify":
		x.h.Release(c.parked, control.Outcome{})
	case "return":
		x.alive[c.parked.Job.Idx] = false
		x.h.Release(c.parked, control.Outcome{})
	case "runend":
		o := control.Outcome{}
		switch ev.O {
		case "fail":
			o = control.Outcome{Kind: control.OutFail, Code: int16(ev.Code)}
		case "ctx":
			o = control.Outcome{Kind: control.OutCtx}
		}
		x.h.Release(c.parked, o)
	}
	return "none"
}

// after an iteration began the harness learns the stage set from the job's task list
func (x *hist) fillTodo(c cand) {
	if c.ev.T != "iter" {
		return
	}
	jh := c.parked.Job
	if jh.Runner != nil && jh.Sched != nil {
		// cancelled => the loop is left, no scan
	}
	id := uuid.FromStringOrNil(jh.UUID)
	_ = x.r.ReadJob(id, func(j *prunner.PipelineJob) {
		for _, t := range j.Tasks {
			jh.Todo[t.Name] = true
		}
	})
}

func (x *hist) run(maxSteps int) {
	for phase := 0; phase < 2; phase++ {
		drain := phase == 1
		limit := maxSteps
		if drain {
			limit = 400
		}
		for i := 0; i < limit; i++ {
			cs := x.candidates(drain)
			if len(cs) == 0 {
				break
			}
			ws := make([]int, len(cs))
			for k, c := range cs {
				ws[k] = c.weight
				if ws[k] <= 0 && drain {
					ws[k] = 1
				}
			}
			k := x.rng.Pick(ws)
			if k < 0 {
				break
			}
			c := cs[k]
			// timers stopped by the runner (replace, cancel) are not fireable any more
			if c.ev.T == "fire" {
				stopped := false
				if err := x.r.ReadJob(uuid.FromStringOrNil(x.h.Jobs[c.ev.ID].UUID), func(j *prunner.PipelineJob) { stopped = !j.VerifHasTimer() }); err != nil {
					stopped = true // the job is gone (removed by a save): its timer was stopped
				}
				if stopped {
					x.armed[c.ev.ID] = false
					continue
				}
			}
			res := x.apply(c)
			if !x.quiesce() {
				return
			}
			x.fillTodo(c)
			x.emit(c.ev, res)
			if x.failure != "" {
				return
			}
		}
	}
}

func (x *hist) newRunner(defs *definition.PipelinesDef) error {
	ctx, cancel := context.WithCancel(context.Background())
	cancel() // no persist loop: saves are explicit events
	r, err := prunner.NewPipelineRunner(ctx, defs, x.h.CreateTaskRunner, x.st, x.ost)
	if err != nil {
		return err
	}
	r.ShutdownPollInterval = time.Millisecond
	x.r = r
	x.srv = server.NewServer(r, x.ost, func(h http.Handler) http.Handler { return h }, jwtauth.New("HS256", []byte(httpSecret), nil), false)
	// wait until the persist loop goroutine (started with an already canceled context) has ended
	_ = x.h.Quiesce(2 * time.Second)
	return nil
}

func (x *hist) anyRunning() bool {
	running := false
	x.r.IterateJobs(func(j *prunner.PipelineJob) {
		if j.Start != nil && !j.Completed && !j.Canceled {
			running = true
		}
	})
	return running
}

func (x *hist) canRestart() bool {
	return x.quietForShutdown() && (!x.shutting || x.shutReturned)
}

func (x *hist) doRestart() {
	if err := x.newRunner(x.sets[x.cur].toDefs()); err != nil {
		x.failure = "restart: " + err.Error()
		return
	}
	x.restarts++
	x.shutting, x.forced, x.shutReturned = false, false, false
	x.armed = map[int]bool{}
	x.alive = map[int]bool{}
	x.readStore = true
}

// quietForShutdown: nothing holds the runner's wait group any more, as far as the harness can see
func (x *hist) quietForShutdown() bool {
	for _, p := range x.h.ParkedList() {
		_ = p
		return false
	}
	for _, a := range x.alive {
		if a {
			return false
		}
	}
	return true
}

// emit records the step for an executed event. While a Shutdown call is in progress it first finds out whether Shutdown
// returns now: it must return exactly when no pipeline is running any more (or it was forced) and nothing holds the wait
// group. The Shutdown goroutine cannot be parked, so the event and the return are observed together: the event's own
// snapshot is marked as not comparable and a synthetic shutdown_return step follows.
func (x *hist) emit(ev Ev, res string) {
	if x.shutting && !x.shutReturned {
		running := false
		x.r.IterateJobs(func(j *prunner.PipelineJob) {
			if j.Start != nil && !j.Completed && !j.Canceled {
				running = true
			}
		})
		if x.quietForShutdown() && (x.forced || !running) {
			select {
			case <-x.shutDone:
			case <-time.After(5 * time.Second):
				x.failure = "Shutdown did not return although no pipeline is running and nothing is pending"
				return
			}
			x.shutReturned = true
			if !x.quiesce() {
				return
			}
			hutil.JSONLine(x.out, Step{Kind: "step", Ev: ev, Res: res, Snap: x.snapshot(), Skip: true})
			x.readStore = true
			hutil.JSONLine(x.out, Step{Kind: "step", Ev: Ev{T: "shutdown_return"}, Res: "none", Snap: x.snapshot()})
			x.steps += 2
			return
		}
		select {
		case <-x.shutDone:
			x.shutReturned = true
			x.failure = "Shutdown returned although a pipeline is still running or an operation is pending"
		case <-time.After(3 * time.Millisecond):
		}
	}
	hutil.JSONLine(x.out, Step{Kind: "step", Ev: ev, Res: res, Snap: x.snapshot()})
	x.steps++
}

// findCand maps a recorded event to an enabled candidate of the current state (nil: not enabled, the event is skipped)
func (x *hist) findCand(ev Ev) *cand {
	kinds := map[string]control.Kind{"iter": control.KTop, "visit": control.KVisit, "runbegin": control.KRunEntry, "runend": control.KRunBody,
		"deliver": control.KCancel, "return": control.KReturn, "notify": control.KNotify}
	switch ev.T {
	case "shutdown_return":
		return nil // synthetic: emitted by the harness when Shutdown returns
	case "save":
		return &cand{ev: ev}
	case "shutdown":
		if !x.shutting {
			return &cand{ev: ev}
		}
		return nil
	case "force":
		if x.shutting && !x.forced && !x.shutReturned && x.anyRunning() {
			return &cand{ev: ev}
		}
		return nil
	case "restart":
		if x.canRestart() {
			return &cand{ev: ev}
		}
		return nil
	case "schedule", "cancel", "tick":
		return &cand{ev: ev}
	case "reload":
		if ev.DS < len(x.sets) {
			return &cand{ev: ev}
		}
		return nil
	case "fire":
		if ev.ID < len(x.h.Jobs) && x.armed[ev.ID] && x.created[ev.ID]+x.delay[ev.ID] <= x.clock {
			return &cand{ev: ev}
		}
		return nil
	}
	k, ok := kinds[ev.T]
	if !ok {
		return nil
	}
	for _, p := range x.h.ParkedList() {
		if p.Kind != k || p.Job.Idx != ev.ID {
			continue
		}
		if (k == control.KVisit || k == control.KRunEntry || k == control.KRunBody || k == control.KNotify) && num(p.Stage) != ev.N {
			continue
		}
		if ev.T == "runend" && ev.O == "ctx" && (p.Job.Runner == nil || !p.Job.Runner.CtxCanceled()) {
			return nil
		}
		return &cand{ev: ev, parked: p}
	}
	return nil
}

func (x *hist) replay(events []Ev) {
	for _, ev := range events {
		c := x.findCand(ev)
		if c == nil {
			continue
		}
		if c.ev.T == "fire" {
			stopped := false
			if err := x.r.ReadJob(uuid.FromStringOrNil(x.h.Jobs[c.ev.ID].UUID), func(j *prunner.PipelineJob) { stopped = !j.VerifHasTimer() }); err != nil {
				stopped = true
			}
			if stopped {
				x.armed[c.ev.ID] = false
				continue
			}
		}
		res := x.apply(*c)
		if !x.quiesce() {
			return
		}
		x.fillTodo(*c)
		x.emit(c.ev, res)
		if x.failure != "" {
			return
		}
	}
}

type replayFile struct {
	Sets   []DefSet   `json:"sets"`
	Pre    []PJobSnap `json:"pre"`
	Events []Ev       `json:"events"`
}

// genPreload invents the content of the store left behind by an earlier run: finished, failed and canceled jobs of
// various ages, and leftovers of a crash (running / waiting jobs)
func genPreload(rng *hutil.Rng, ds DefSet, prof string) []PJobSnap {
	var n int
	switch prof {
	case "retain":
		n = 2 + rng.Intn(6)
	case "restart", "shutdown":
		n = rng.Intn(4)
	default:
		if rng.Chance(1, 4) {
			n = 1 + rng.Intn(3)
		}
	}
	pre := []PJobSnap{}
	age := 2 * (n + 2)
	for i := 0; i < n && len(ds.Pipes) > 0; i++ {
		p := ds.Pipes[rng.Intn(len(ds.Pipes))]
		pipe := p.Name
		if rng.Chance(1, 10) {
			pipe = 98 // a pipeline that is not defined any more
		}
		pj := PJobSnap{ID: i, Pipe: pipe, Age: age, Vars: []string{"none", "plain"}[rng.Intn(2)], VN: rng.Intn(5), User: rng.Intn(3), LastErr: "none", Tasks: []PTaskSnap{}}
		age -= 2 * rng.Intn(2) // ages are even, newest last, equal ages possible only through the same value (ranking then follows the id)
		if age < 2 {
			age = 2
		}
		kind := rng.Pick([]int{6, 2, 2, 1, 1})
		for _, t := range p.Tasks {
			pt := PTaskSnap{Name: t.Name, Deps: append([]int{}, t.Deps...), Allow: t.Allow, Empty: t.Empty, Script: t.Script, Status: "done", Start: !t.Empty, End: !t.Empty, Exit: -1, Err: "none"}
			if t.Empty {
				pt.Script = 0
			}
			pj.Tasks = append(pj.Tasks, pt)
		}
		switch kind {
		case 0: // done
			pj.Completed, pj.Start, pj.End = true, true, true
		case 1: // failed
			pj.Completed, pj.Start, pj.End, pj.LastErr = true, true, true, "fail"
			if len(pj.Tasks) > 0 {
				pj.Tasks[0].Status, pj.Tasks[0].Errored, pj.Tasks[0].Err, pj.Tasks[0].Exit, pj.Tasks[0].End = "error", true, "fail", 2, false
				for k := 1; k < len(pj.Tasks); k++ {
					pj.Tasks[k].Status, pj.Tasks[k].Start, pj.Tasks[k].End = "waiting", false, false
				}
			}
		case 2: // canceled while running
			pj.Completed, pj.Canceled, pj.Start, pj.End, pj.LastErr = true, true, true, true, "canceled"
			for k := range pj.Tasks {
				pj.Tasks[k].Status, pj.Tasks[k].End = "canceled", false
			}
		case 3: // was running when the process died
			pj.Start = true
			for k := range pj.Tasks {
				pj.Tasks[k].Status, pj.Tasks[k].End = []string{"running", "waiting", "done"}[rng.Intn(3)], false
				if pj.Tasks[k].Status == "waiting" {
					pj.Tasks[k].Start = false
				}
			}
		case 4: // was waiting when the process died
			for k := range pj.Tasks {
				pj.Tasks[k].Status, pj.Tasks[k].Start, pj.Tasks[k].End = "waiting", false, false
			}
		}
		pre = append(pre, pj)
	}
	// ages must be non-increasing with the id (creation order)
	for i := 1; i < len(pre); i++ {
		if pre[i].Age > pre[i-1].Age {
			pre[i].Age = pre[i-1].Age
		}
	}
	return pre
}

func errFromKind(k string) *string {
	var s string
	switch k {
	case "canceled":
		s = context.Canceled.Error()
	case "fail":
		s = "exit status 2 (preloaded)"
	case "graph":
		s = "building execution graph: cycle detected"
	default:
		return nil
	}
	return &s
}

func (x *hist) writePreload(pre []PJobSnap) error {
	data := &store.PersistedData{}
	now := time.Now()
	for k, pj := range pre {
		id, _ := uuid.NewV4()
		jh := x.h.Accepted(id.String(), pname(pj.Pipe))
		if jh.Idx != pj.ID {
			return fmt.Errorf("preload index mismatch")
		}
		// strictly increasing creation times in id order, also for equal ages
		created := now.Add(-time.Duration(pj.Age)*tick + time.Duration(k)*time.Second)
		p := store.PersistedJob{ID: id, Pipeline: pname(pj.Pipe), Completed: pj.Completed, Canceled: pj.Canceled, Created: created,
			User: fmt.Sprintf("u%d", pj.User), LastError: errFromKind(pj.LastErr)}
		if pj.Vars == "plain" {
			p.Variables = map[string]interface{}{"v": pj.VN}
		}
		if pj.Start {
			t := created.Add(time.Second)
			p.Start = &t
		}
		if pj.End {
			t := created.Add(2 * time.Second)
			p.End = &t
		}
		for _, t := range pj.Tasks {
			pt := store.PersistedTask{Name: tname(t.Name), AllowFailure: t.Allow, Status: t.Status, Skipped: t.Skipped, ExitCode: int16(t.Exit),
				Errored: t.Errored, Error: errFromKind(t.Err)}
			if !t.Empty {
				pt.Script = []string{fmt.Sprintf("s%d", t.Script)}
			}
			for _, d := range t.Deps {
				pt.DependsOn = append(pt.DependsOn, tname(d))
			}
			if t.Start {
				ts := created.Add(time.Second)
				pt.Start = &ts
			}
			if t.End {
				te := created.Add(2 * time.Second)
				pt.End = &te
			}
			p.Tasks = append(p.Tasks, pt)
		}
		data.Jobs = append(data.Jobs, p)
		x.created[jh.Idx] = -pj.Age
		// a log directory for some of them
		if pj.Start {
			if w, err := x.ost.Writer(id.String(), "t00", "stdout"); err == nil {
				_ = w.Close()
			}
		}
	}
	if len(pre) == 0 {
		return nil
	}
	return x.st.Save(data)
}

func runHistory(out *os.File, hid int, seed uint64, prof string, maxSteps int, rp *replayFile, scratch string) (string, int) {
	rng := hutil.NewRng(seed)
	sets := genDefSets(rng, prof)
	pre := genPreload(rng, sets[0], prof)
	if rp != nil {
		sets = rp.Sets
		pre = rp.Pre
	}
	h := control.New()
	defer h.Close()
	dir := filepath.Join(scratch, fmt.Sprintf("h%d-%d", os.Getpid(), hid))
	_ = os.RemoveAll(dir)
	defer os.RemoveAll(dir)
	st, err := store.NewJSONDataStore(dir)
	if err != nil {
		return err.Error(), 0
	}
	ost, err := taskctl.NewOutputStore(filepath.Join(dir, "logs"))
	if err != nil {
		return err.Error(), 0
	}
	h.OutputStore = ost
	x := &hist{h: h, rng: rng, sets: sets, created: map[int]int{}, delay: map[int]int{}, armed: map[int]bool{}, alive: map[int]bool{},
		pipesSeen: map[int]bool{}, out: out, prof: prof, dir: dir, st: st, ost: ost}
	if err := x.writePreload(pre); err != nil {
		return err.Error(), 0
	}
	if err := x.newRunner(sets[0].toDefs()); err != nil {
		return err.Error(), 0
	}
	for _, p := range sets[0].Pipes {
		x.pipesSeen[p.Name] = true
	}
	for _, pj := range pre {
		x.pipesSeen[pj.Pipe] = true
	}
	// snap0: what the API reports before the first event (the jobs restored from a preloaded store)
	hutil.JSONLine(out, map[string]interface{}{"kind": "begin", "hid": hid, "seed": seed, "profile": prof, "sets": sets, "pre": pre, "snap0": x.snapshot()})
	if rp != nil {
		x.replay(rp.Events)
	} else {
		x.run(maxSteps)
		if x.failure == "" && (prof == "restart" || (prof == "retain" && rng.Chance(1, 2))) && x.canRestart() {
			// a new process on the same store, then some more activity
			c := cand{ev: Ev{T: "restart"}}
			res := x.apply(c)
			if x.quiesce() {
				x.emit(c.ev, res)
				x.run(maxSteps / 3)
			}
		}
	}
	// let everything that is still parked end, so that no goroutine leaks into the next history
	if x.shutting && !x.forced && x.shutCancel != nil {
		x.shutCancel()
	}
	for k := 0; k < 2000; k++ {
		ps := h.ParkedList()
		if len(ps) == 0 {
			break
		}
		h.Release(ps[0], control.Outcome{})
		_ = h.Quiesce(2*time.Second, "PipelineRunner).Shutdown(")
	}
	hutil.JSONLine(out, map[string]interface{}{"kind": "end", "hid": hid, "steps": x.steps, "failure": x.failure})
	return x.failure, x.steps
}

func main() {
	seed := flag.Uint64("seed", 1, "seed")
	n := flag.Int("n", 10, "histories")
	prof := flag.String("profile", "mixed", "generator profile")
	outp := flag.String("out", "", "output file")
	maxSteps := flag.Int("steps", 60, "max events per history before the drain")
	only := flag.Int("hid", -1, "only this history")
	replay := flag.String("replay", "", "replay the events of this file (JSON: sets, events) instead of generating")
	scratch := flag.String("dir", os.TempDir(), "scratch directory for stores and logs")
	flag.Parse()
	out := os.Stdout
	if *outp != "" {
		f, err := os.Create(*outp)
		if err != nil {
			panic(err)
		}
		defer f.Close()
		out = f
	}
	log.SetHandler(discard.Default)
	if *replay != "" {
		b, err := os.ReadFile(*replay)
		if err != nil {
			panic(err)
		}
		var rp replayFile
		if err := json.Unmarshal(b, &rp); err != nil {
			panic(err)
		}
		if fail, _ := runHistory(out, 0, *seed, *prof, *maxSteps, &rp, *scratch); fail != "" {
			fmt.Fprintf(os.Stderr, "replay: %s\n", fail)
		}
		return
	}
	master := hutil.NewRng(*seed)
	for i := 0; i < *n; i++ {
		s := master.Next()
		if *only >= 0 && *only != i {
			continue
		}
		fail, _ := runHistory(out, i, s, *prof, *maxSteps, nil, *scratch)
		if fail != "" {
			fmt.Fprintf(os.Stderr, "history %d: %s\n", i, fail)
		}
	}
}

// ---------- the HTTP view ----------

const httpSecret = "0123456789abcdef0123456789abcdef"

var httpToken = func() string {
	tok := jwt.New()
	_ = tok.Set("sub", "sysrun")
	b, err := jwt.Sign(tok, jwa.HS256, []byte(httpSecret))
	if err != nil {
		panic(err)
	}
	return string(b)
}()

type httpTask struct {
	Name     string     `json:"name"`
	Status   string     `json:"status"`
	Start    *time.Time `json:"start"`
	End      *time.Time `json:"end"`
	Skipped  bool       `json:"skipped"`
	ExitCode int        `json:"exitCode"`
	Errored  bool       `json:"errored"`
	Error    *string    `json:"error"`
}

// the variables are part of the API result as well
type httpJob struct {
	Variables map[string]interface{} `json:"variables"`
	Created   *time.Time             `json:"created"`
	ID        string     `json:"id"`
	Pipeline  string     `json:"pipeline"`
	Tasks     []httpTask `json:"tasks"`
	Completed bool       `json:"completed"`
	Canceled  bool       `json:"canceled"`
	Errored   bool       `json:"errored"`
	Start     *time.Time `json:"start"`
	End       *time.Time `json:"end"`
	LastError *string    `json:"lastError"`
	User      string     `json:"user"`
}

type httpPipe struct {
	Pipeline    string `json:"pipeline"`
	Schedulable bool   `json:"schedulable"`
	Running     bool   `json:"running"`
}

var userTokens = map[string]string{}

func tokenFor(user string) string {
	if t, ok := userTokens[user]; ok {
		return t
	}
	tok := jwt.New()
	_ = tok.Set("sub", user)
	b, err := jwt.Sign(tok, jwa.HS256, []byte(httpSecret))
	if err != nil {
		panic(err)
	}
	userTokens[user] = string(b)
	return string(b)
}

func (x *hist) httpDo(method, path, user string, body []byte) (int, []byte) {
	req := httptest.NewRequest(method, path, bytes.NewReader(body))
	req.Header.Set("Authorization", "Bearer "+tokenFor(user))
	rec := httptest.NewRecorder()
	x.srv.ServeHTTP(rec, req)
	return rec.Code, rec.Body.Bytes()
}

func (x *hist) httpGet(path string, v interface{}) (int, error) {
	req := httptest.NewRequest("GET", path, nil)
	req.Header.Set("Authorization", "Bearer "+httpToken)
	rec := httptest.NewRecorder()
	x.srv.ServeHTTP(rec, req)
	if rec.Code != 200 {
		return rec.Code, nil
	}
	return rec.Code, json.Unmarshal(rec.Body.Bytes(), v)
}

func cmpJob(js *JobSnap, hj *httpJob) string {
	if hj.Completed != js.Completed || hj.Canceled != js.Canceled || (hj.Start != nil) != js.Start || (hj.End != nil) != js.End ||
		(hj.LastError != nil) != (js.LastErr != "none") || num(hj.Pipeline) != js.Pipe || num("u"+strings.TrimPrefix(hj.User, "u")) != js.User {
		return fmt.Sprintf("job %d: flags differ (http %+v)", js.ID, *hj)
	}
	errored := false
	if len(hj.Tasks) != len(js.Tasks) {
		return fmt.Sprintf("job %d: %d tasks over HTTP, %d in the runner", js.ID, len(hj.Tasks), len(js.Tasks))
	}
	for i, t := range js.Tasks {
		ht := hj.Tasks[i]
		if num(ht.Name) != t.Name || ht.Status != t.Status || (ht.Start != nil) != t.Start || (ht.End != nil) != t.End || ht.Skipped != t.Skipped ||
			ht.ExitCode != t.Exit || ht.Errored != t.Errored || (ht.Error != nil) != (t.Err != "none") {
			return fmt.Sprintf("job %d task %d: http %+v, runner %+v", js.ID, t.Name, ht, t)
		}
		errored = errored || t.Errored
	}
	if hj.Errored != errored {
		return fmt.Sprintf("job %d: errored=%v over HTTP, but a task with an error: %v", js.ID, hj.Errored, errored)
	}
	return ""
}

// httpDiff compares GET /pipelines/jobs (and GET /job/detail of one job) with what the runner reports in the snapshot
func (x *hist) httpDiff(s *Snap) string {
	if x.srv == nil {
		return ""
	}
	var resp struct {
		Pipelines []httpPipe `json:"pipelines"`
		Jobs      []httpJob  `json:"jobs"`
	}
	if code, err := x.httpGet("/pipelines/jobs", &resp); code != 200 || err != nil {
		return fmt.Sprintf("GET /pipelines/jobs: %d %v", code, err)
	}
	byID := map[int]*httpJob{}
	prevIdx := -1
	for i := range resp.Jobs {
		if jh := x.h.ByUUID[resp.Jobs[i].ID]; jh != nil {
			byID[jh.Idx] = &resp.Jobs[i]
			// the list is newest first; job indices are acceptance order
			if i > 0 && jh.Idx > prevIdx {
				return fmt.Sprintf("GET /pipelines/jobs is not sorted newest first: job %d is listed after the older job %d", jh.Idx, prevIdx)
			}
			prevIdx = jh.Idx
		} else {
			return "GET /pipelines/jobs lists a job the harness does not know: " + resp.Jobs[i].ID
		}
	}
	if len(byID) != len(s.Jobs) {
		return fmt.Sprintf("%d jobs over HTTP, %d reported by the runner", len(byID), len(s.Jobs))
	}
	for i := range s.Jobs {
		hj := byID[s.Jobs[i].ID]
		if hj == nil {
			return fmt.Sprintf("job %d is not listed over HTTP", s.Jobs[i].ID)
		}
		if b, err := json.Marshal(hj); err == nil {
			s.Jobs[i].HView = string(b) // what the API says about the job, verbatim (compared across restarts)
		}
		if d := cmpJob(&s.Jobs[i], hj); d != "" {
			return d
		}
	}
	hp := map[int]httpPipe{}
	for _, p := range resp.Pipelines {
		hp[num(p.Pipeline)] = p
	}
	if len(hp) != len(s.Pipes) {
		return fmt.Sprintf("%d pipelines over HTTP, %d reported by the runner", len(hp), len(s.Pipes))
	}
	for _, p := range s.Pipes {
		if q, ok := hp[p.P]; !ok || q.Schedulable != p.Schedulable || q.Running != p.Running {
			return fmt.Sprintf("pipeline %d: http %+v, runner %+v", p.P, q, p)
		}
	}
	// the detail view of the newest job
	if n := len(s.Jobs); n > 0 {
		js := &s.Jobs[n-1]
		for uuid, jh := range x.h.ByUUID {
			if jh.Idx == js.ID {
				var hj httpJob
				if code, err := x.httpGet("/job/detail?id="+uuid, &hj); code != 200 || err != nil {
					return fmt.Sprintf("GET /job/detail of job %d: %d %v", js.ID, code, err)
				}
				if d := cmpJob(js, &hj); d != "" {
					return "detail: " + d
				}
			}
		}
	}
	return ""
}

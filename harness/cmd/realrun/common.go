// realrun: drivers for the properties about real task processes (C18 environment/variables, C19 output capture, C20 process
// cleanup). The real CLI application (app.New, as cmd/prunner runs it) is started in this process on a local port with a
// generated pipelines.yml; jobs are scheduled, canceled and read through its HTTP API, logs are also read from the data directory.
package main

import (
	"bytes"
	"context"
	"encoding/json"
	"fmt"
	"io"
	"net"
	"net/http"
	"net/url"
	"os"
	"path/filepath"
	"time"

	"github.com/lestrrat-go/jwx/jwa"
	"github.com/lestrrat-go/jwx/jwt"
	"gopkg.in/yaml.v2"

	"github.com/Flowpack/prunner/app"
)

const secret = "0123456789abcdef0123456789abcdef"

type TaskDef struct {
	Script       []string          `yaml:"script" json:"script"`
	DependsOn    []string          `yaml:"depends_on,omitempty" json:"depends_on,omitempty"`
	AllowFailure bool              `yaml:"allow_failure,omitempty" json:"allow_failure,omitempty"`
	Env          map[string]string `yaml:"env,omitempty" json:"env,omitempty"`
}

type PipeDef struct {
	Concurrency    int                `yaml:"concurrency" json:"concurrency"`
	QueueLimit     *int               `yaml:"queue_limit,omitempty" json:"queue_limit,omitempty"`
	ContinueAfter  bool               `yaml:"continue_running_tasks_after_failure,omitempty" json:"continue,omitempty"`
	Env            map[string]string  `yaml:"env,omitempty" json:"env,omitempty"`
	RetentionCount int                `yaml:"retention_count,omitempty" json:"retention_count,omitempty"`
	Tasks          map[string]TaskDef `yaml:"tasks" json:"tasks"`
}

type App struct {
	Dir    string
	Base   string
	Token  string
	cancel context.CancelFunc
	done   chan error
}

// WriteDefs replaces pipelines.yml (atomically, so that a poll never reads half a file)
func (a *App) WriteDefs(pipes map[string]PipeDef) error { return writeDefs(a.Dir, pipes) }

func writeDefs(dir string, pipes map[string]PipeDef) error {
	doc := map[string]interface{}{"pipelines": pipes}
	b, err := yaml.Marshal(doc)
	if err != nil {
		return err
	}
	tmp := filepath.Join(dir, ".pipelines.tmp")
	if err := os.WriteFile(tmp, b, 0644); err != nil {
		return err
	}
	return os.Rename(tmp, filepath.Join(dir, "pipelines.yml"))
}

func startApp(pipes map[string]PipeDef, extraArgs ...string) (*App, error) {
	dir, err := os.MkdirTemp("", "realrun")
	if err != nil {
		return nil, err
	}
	if err := writeDefs(dir, pipes); err != nil {
		return nil, err
	}
	l, err := net.Listen("tcp", "127.0.0.1:0")
	if err != nil {
		return nil, err
	}
	address := l.Addr().String()
	_ = l.Close()
	args := []string{"prunner", "--jwt-secret", secret, "--config", filepath.Join(dir, ".prunner.yml"), "--data", filepath.Join(dir, ".prunner"),
		"--path", dir, "--env-files", "", "--address", address}
	args = append(args, extraArgs...)
	ctx, cancel := context.WithCancel(context.Background())
	a := &App{Dir: dir, Base: "http://" + address, cancel: cancel, done: make(chan error, 1)}
	tok := jwt.New()
	_ = tok.Set("sub", "realrun")
	signed, err := jwt.Sign(tok, jwa.HS256, []byte(secret))
	if err != nil {
		return nil, err
	}
	a.Token = string(signed)
	go func() { a.done <- app.New(app.Info{Version: "verif"}).RunContext(ctx, args) }()
	deadline := time.Now().Add(15 * time.Second)
	for {
		resp, err := http.Get(a.Base + "/pipelines/")
		if err == nil {
			_ = resp.Body.Close()
			return a, nil
		}
		select {
		case err := <-a.done:
			return nil, fmt.Errorf("application exited: %v", err)
		default:
		}
		if time.Now().After(deadline) {
			return nil, fmt.Errorf("application did not come up: %v", err)
		}
		time.Sleep(5 * time.Millisecond)
	}
}

func (a *App) Stop() {
	a.cancel()
	select {
	case <-a.done:
	case <-time.After(20 * time.Second):
	}
	_ = os.RemoveAll(a.Dir)
}

func (a *App) req(method, path string, body []byte) (int, []byte, error) {
	r, err := http.NewRequest(method, a.Base+path, bytes.NewReader(body))
	if err != nil {
		return 0, nil, err
	}
	r.Header.Set("Authorization", "Bearer "+a.Token)
	resp, err := http.DefaultClient.Do(r)
	if err != nil {
		return 0, nil, err
	}
	defer resp.Body.Close()
	b, err := io.ReadAll(resp.Body)
	return resp.StatusCode, b, err
}

func (a *App) Schedule(pipeline string, vars map[string]interface{}) (string, int, string) {
	body, _ := json.Marshal(map[string]interface{}{"pipeline": pipeline, "variables": vars})
	st, b, err := a.req("POST", "/pipelines/schedule", body)
	if err != nil {
		return "", -1, err.Error()
	}
	var out struct {
		JobID string `json:"jobId"`
		Error string `json:"error"`
	}
	_ = json.Unmarshal(b, &out)
	return out.JobID, st, out.Error
}

type TaskResult struct {
	Name     string  `json:"name"`
	Status   string  `json:"status"`
	ExitCode int     `json:"exitCode"`
	Errored  bool    `json:"errored"`
	Error    *string `json:"error"`
}

type JobResult struct {
	ID        string       `json:"id"`
	Pipeline  string       `json:"pipeline"`
	Tasks     []TaskResult `json:"tasks"`
	Completed bool         `json:"completed"`
	Canceled  bool         `json:"canceled"`
	Errored   bool         `json:"errored"`
	LastError *string      `json:"lastError"`
}

func (a *App) Detail(id string) (*JobResult, int) {
	st, b, err := a.req("GET", "/job/detail?id="+url.QueryEscape(id), nil)
	if err != nil || st != 200 {
		return nil, st
	}
	var j JobResult
	if json.Unmarshal(b, &j) != nil {
		return nil, st
	}
	return &j, st
}

func (a *App) WaitDone(id string, timeout time.Duration) (*JobResult, bool) {
	deadline := time.Now().Add(timeout)
	for {
		j, _ := a.Detail(id)
		if j != nil && j.Completed {
			return j, true
		}
		if time.Now().After(deadline) {
			return j, false
		}
		time.Sleep(2 * time.Millisecond)
	}
}

func (a *App) Cancel(id string) int {
	st, _, _ := a.req("POST", "/job/cancel?id="+url.QueryEscape(id), nil)
	return st
}

type Logs struct {
	Stdout string `json:"stdout"`
	Stderr string `json:"stderr"`
}

func (a *App) Logs(id, task string) (*Logs, int) {
	st, b, err := a.req("GET", "/job/logs?id="+url.QueryEscape(id)+"&task="+url.QueryEscape(task), nil)
	if err != nil || st != 200 {
		return nil, st
	}
	var l Logs
	if json.Unmarshal(b, &l) != nil {
		return nil, st
	}
	return &l, st
}

func (a *App) LogFile(id, task, stream string) ([]byte, error) {
	return os.ReadFile(filepath.Join(a.Dir, ".prunner", "logs", id, task+"-"+stream+".log"))
}

(** Correspondence functions for the system model: replay of recorded histories (vm_compute on generated cases) *)
From stdpp Require Import list.
From Coq Require Import ZArith.
From PV Require Import System.
Local Open Scope Z_scope.

Global Instance taskdef_eq_dec : EqDecision taskdef. Proof. solve_decision. Defined.

(** what the harness records after every event *)
Record tsnap := TSnap {
  ts_name : name; ts_status : status; ts_start : bool; ts_end : bool; ts_skipped : bool; ts_exit : Z; ts_errored : bool;
  ts_err : option err; ts_canceled : bool; ts_def : taskdef }.
Inductive phase_kind := KTop | KScan | KExited.
Record ssnap := SSnap { ss_phase : phase_kind; ss_todo : list name; ss_entry : list name; ss_running : list name;
  ss_notify_err : list name; ss_notify_done : list name (* stage goroutines parked before notifying "error" / "done" *) }.
Record jsnap := JSnap {
  js_id : nat; js_pipe : name; js_start : bool; js_end : bool; js_completed : bool; js_canceled : bool; js_lasterr : option err;
  js_timer : bool; js_delay : nat; js_env : nat; js_vars : vkind; js_user : nat; js_tasks : list tsnap; js_sched : option ssnap;
  js_cancels : nat; js_ctx : bool }.
(** what the store holds for a job, as far as it is compared (no timestamps) *)
Record ptsnap := PTSnap {
  pts_name : name; pts_deps : list name; pts_allow : bool; pts_empty : bool; pts_script : nat; pts_status : status;
  pts_start : bool; pts_end : bool; pts_skipped : bool; pts_exit : Z; pts_errored : bool; pts_err : option err }.
Record pjsnap := PJSnap {
  pjs_id : nat; pjs_pipe : name; pjs_completed : bool; pjs_canceled : bool; pjs_start : bool; pjs_end : bool; pjs_vars : vkind;
  pjs_user : nat; pjs_lasterr : option err; pjs_tasks : list ptsnap }.
Global Instance ptsnap_eq_dec : EqDecision ptsnap. Proof. solve_decision. Defined.
Global Instance pjsnap_eq_dec : EqDecision pjsnap. Proof. solve_decision. Defined.

Record snap := Snap {
  sn_jobs : list jsnap;
  sn_wait : list (name * list nat);          (* for the pipelines the harness asked about, sorted by name *)
  sn_pipes : list (name * bool * bool);      (* ListPipelines: name, schedulable, running *)
  sn_req : bool;
  sn_logs : list nat;                        (* log directories present, sorted *)
  sn_store : option (list pjsnap) }.         (* store content sorted by id, when the harness read it *)

Global Instance tsnap_eq_dec : EqDecision tsnap. Proof. solve_decision. Defined.
Global Instance phase_kind_eq_dec : EqDecision phase_kind. Proof. solve_decision. Defined.
Global Instance ssnap_eq_dec : EqDecision ssnap. Proof. solve_decision. Defined.
Global Instance jsnap_eq_dec : EqDecision jsnap. Proof. solve_decision. Defined.
Global Instance snap_eq_dec : EqDecision snap. Proof. solve_decision. Defined.

Definition is_some {A} (o : option A) : bool := match o with Some _ => true | None => false end.

Definition obs_task (t : jtask) : tsnap :=
  TSnap (jt_name t) (jt_status t) (is_some (jt_start t)) (is_some (jt_end t)) (jt_skipped t) (jt_exit t) (jt_errored t)
        (jt_err t) (jt_canceled t) (jt_def t).

Definition is_err_note (x : name * option err * bool) : bool := match x.1.2 with Some _ => negb x.2 | None => false end.
Definition notify_err (sc : sched) : list name := sort_names (map (fun x : name * option err * bool => x.1.1) (List.filter is_err_note (sc_ending sc))).
Definition notify_done (sc : sched) : list name :=
  sort_names (map (fun x : name * option err * bool => x.1.1) (List.filter (fun x => negb (is_err_note x)) (sc_ending sc))).
Definition obs_sched (sc : sched) : ssnap :=
  match sc_phase sc with
  | PTop => SSnap KTop [] (sort_names (sc_entry sc)) (sort_names (sc_running sc)) (notify_err sc) (notify_done sc)
  | PScan todo => SSnap KScan (sort_names todo) (sort_names (sc_entry sc)) (sort_names (sc_running sc)) (notify_err sc) (notify_done sc)
  | PExited => SSnap KExited [] (sort_names (sc_entry sc)) (sort_names (sc_running sc)) (notify_err sc) (notify_done sc)
  end.

Definition obs_job (id : nat) (j : job) : jsnap :=
  JSnap id (j_pipe j) (is_some (j_start j)) (is_some (j_end j)) (j_completed j) (j_canceled j) (j_lasterr j)
        (j_timer j && negb (j_canceled j)) (j_delay j) (j_env j) (j_vars j) (j_user j) (map obs_task (j_tasks j))
        (obs_sched <$> j_sched j) (j_cancels j)
        (match j_sched j with Some sc => sc_ctx sc | None => false end).

Definition obs_jobs (s : state) : list jsnap :=
  omap (fun ij => if j_removed (snd ij) then None else Some (obs_job (fst ij) (snd ij))) (imap (fun i j => (i, j)) (st_jobs s)).

(** ListPipelines iterates the definitions, sorted by name *)
Definition obs_pipes (s : state) : list (name * bool * bool) :=
  map (fun p => (p, schedulable s p, pipeline_running s p)) (sort_names (map fst (st_defs s))).

Definition obs_ptask (t : ptask) : ptsnap :=
  PTSnap (pt_name t) (pt_deps t) (pt_allow t) (pt_empty t) (pt_script t) (pt_status t) (is_some (pt_start t)) (is_some (pt_end t))
         (pt_skipped t) (pt_exit t) (pt_errored t) (pt_err t).
Definition obs_pjob (pj : pjob) : pjsnap :=
  PJSnap (pj_id pj) (pj_pipe pj) (pj_completed pj) (pj_canceled pj) (is_some (pj_start pj)) (is_some (pj_end pj)) (pj_vars pj)
         (pj_user pj) (pj_lasterr pj) (map obs_ptask (pj_tasks pj)).

(** [with_store]: the harness read the store after this event *)
Definition obs_state (s : state) (asked : list name) (with_store : bool) : snap :=
  Snap (obs_jobs s) (map (fun p => (p, wl_get (st_wait s) p)) asked) (obs_pipes s) (st_req s) (sort_names (st_logs s))
       (if with_store then Some (map obs_pjob (default [] (st_store s))) else None).

(** the context flag of a finished job is not observable through the model (the scheduler record is gone): the
    harness reports it only while the scheduler is alive; normalise the implementation side the same way *)
Definition norm_jsnap (j : jsnap) : jsnap :=
  JSnap (js_id j) (js_pipe j) (js_start j) (js_end j) (js_completed j) (js_canceled j) (js_lasterr j) (js_timer j) (js_delay j)
        (js_env j) (js_vars j) (js_user j) (js_tasks j) (js_sched j) (js_cancels j)
        (match js_sched j with Some _ => js_ctx j | None => false end).
Definition norm_snap (sn : snap) : snap := Snap (map norm_jsnap (sn_jobs sn)) (sn_wait sn) (sn_pipes sn) (sn_req sn) (sn_logs sn) (sn_store sn).

(** ** projections: which observables a property is about (DESIGN.md 3.3, comparison rule) *)
Record groups := Groups {
  g_flags : bool; g_lasterr : bool; g_timer : bool; g_meta : bool; g_tstatus : bool; g_tdef : bool; g_sched : bool;
  g_cancels : bool; g_wait : bool; g_pipes : bool; g_req : bool; g_store : bool }.

Definition blank_task (g : groups) (t : tsnap) : tsnap :=
  TSnap (ts_name t)
        (if g_tstatus g then ts_status t else Waiting) (g_tstatus g && ts_start t) (g_tstatus g && ts_end t) (g_tstatus g && ts_skipped t)
        (if g_tstatus g then ts_exit t else 0) (g_tstatus g && ts_errored t) (if g_tstatus g then ts_err t else None)
        (g_tstatus g && ts_canceled t) (if g_tdef g then ts_def t else TaskDef [] false false 0 0).

Definition blank_job (g : groups) (j : jsnap) : jsnap :=
  JSnap (js_id j) (js_pipe j) (g_flags g && js_start j) (g_flags g && js_end j) (g_flags g && js_completed j) (g_flags g && js_canceled j)
        (if g_lasterr g then js_lasterr j else None) (g_timer g && js_timer j)
        (if g_meta g then js_delay j else 0%nat) (if g_meta g then js_env j else 0%nat) (if g_meta g then js_vars j else VNone)
        (if g_meta g then js_user j else 0%nat)
        (if g_tstatus g || g_tdef g then map (blank_task g) (js_tasks j) else [])
        (if g_sched g then js_sched j else None) (if g_cancels g then js_cancels j else 0%nat) (g_cancels g && js_ctx j).

Definition proj (g : groups) (sn : snap) : snap :=
  Snap (map (blank_job g) (sn_jobs sn)) (if g_wait g then sn_wait sn else []) (if g_pipes g then sn_pipes sn else []) (g_req g && sn_req sn)
       (if g_store g then sn_logs sn else []) (if g_store g then sn_store sn else None).

Definition groups_of (prop : nat) : groups :=
  match prop with
  | 1 => Groups true false false false false false true false false true false false
  | 2 => Groups true true false false true true true false false false false false
  | 3 => Groups true false true false false false false false true false false false
  | 4 => Groups true true false false true false true true false false false false
  | 5 => Groups true false false false false false false false true true false false
  | 6 => Groups true false false false false false false false true false false false
  | 7 => Groups true false true false false false false false true false false false
  | 8 => Groups true true false false true false true true false false false false
  | 10 => Groups true true false false true true false false false true false true
  | 12 => Groups true false false false false false false false false false false true
  | 11 => Groups true true false false true false true true true true true true
  | 15 => Groups true false false false true true false false false true false false
  | 16 => Groups true false false true false true false false false false false false
  | _ => Groups true true true true true true true true true true true true
  end%nat.

Inductive diff := DNotEnabled | DResult | DSnap | DOther.   (* DOther: the snapshots differ, but not in the property's projection *)

Record history := History {
  h_id : nat;
  h_defs : defs;
  h_pre : list pjob;                          (* jobs left in the store by an earlier run *)
  h_steps : list (event * result * option snap) }.   (* None: the snapshot of this step is not comparable *)

Definition h_init (h : history) : state :=
  match h_pre h with [] => init (h_defs h) | pre => init_from (h_defs h) pre end.

(** walk the history; report the index of the first step where model and implementation differ *)
Fixpoint replay_from (g : groups) (s : state) (i : nat) (steps : list (event * result * option snap)) : option (nat * diff) :=
  match steps with
  | [] => None
  | (e, r, osn) :: steps =>
      match step s e with
      | None => Some (i, DNotEnabled)
      | Some (s', r') =>
          if negb (bool_decide (r = r')) then Some (i, DResult)
          else
            match osn with
            | None => replay_from g s' (S i) steps
            | Some sn =>
                let mo := obs_state s' (map fst (sn_wait sn)) (is_some (sn_store sn)) in
                let io := norm_snap sn in
                if bool_decide (mo = io) then replay_from g s' (S i) steps
                else if bool_decide (proj g mo = proj g io) then Some (i, DOther) else Some (i, DSnap)
            end
      end
  end.

Definition replay (prop : nat) (h : history) : option (nat * diff) :=
  replay_from (groups_of prop) (h_init h) 0 (h_steps h).

Definition mismatches_for (prop : nat) (hs : list history) : list (nat * nat * diff) :=
  omap (fun h => match replay prop h with Some (i, d) => Some (h_id h, i, d) | None => None end) hs.
Definition mismatches := mismatches_for 0.

(** the model's snapshot at the diverging step, for diagnosis *)
Fixpoint state_at (s : state) (i : nat) (steps : list (event * result * option snap)) : option (state * option (state * result)) :=
  match steps with
  | [] => None
  | (e, r, sn) :: steps =>
      match i with
      | O => Some (s, step s e)
      | S i => match step s e with Some (s', _) => state_at s' i steps | None => None end
      end
  end.

(** diagnosis: which components of two snapshots differ (1 jobs, 2 wait, 3 pipes, 4 req, 5 logs, 6 store), and the ids of differing jobs *)
Definition diff_where (a b : snap) : list nat * list nat :=
  ((if bool_decide (sn_jobs a = sn_jobs b) then [] else [1%nat]) ++ (if bool_decide (sn_wait a = sn_wait b) then [] else [2%nat])
   ++ (if bool_decide (sn_pipes a = sn_pipes b) then [] else [3%nat]) ++ (if bool_decide (sn_req a = sn_req b) then [] else [4%nat])
   ++ (if bool_decide (sn_logs a = sn_logs b) then [] else [5%nat]) ++ (if bool_decide (sn_store a = sn_store b) then [] else [6%nat]),
   omap (fun ab => if bool_decide (fst ab = snd ab) then None else Some (js_id (fst ab))) (zip (sn_jobs a) (sn_jobs b))
   ++ (if Nat.eqb (length (sn_jobs a)) (length (sn_jobs b)) then [] else [999%nat])).

(** ** the dependency check of the scheduling loop as a decision table (harness schedtab): a stage "t" (name 100) whose
    dependencies 0..k-1 have the given status and allow_failure, in this depends_on order *)
Definition check_status_case (deps : list (status * bool)) : bool * bool :=
  let names := seq 0%nat (length deps) in
  let mk (n : nat) (ds : list nat) (allow : bool) (st : status) :=
    JTask n (TaskDef ds allow false 0%nat 0%nat) st None None false 0%Z false None false in
  let tasks := imap (fun i d => mk i [] (snd d) (fst d)) deps ++ [mk 100%nat names false Waiting] in
  let j := Job 0%nat 0%Z None None false false 0%nat false tasks 0%nat VNone 0%nat None None 0%nat false false in
  let sc := Sched (imap (fun i d => (i, fst d)) deps ++ [(100%nat, Waiting)]) false false PTop [] [] None [] in
  check_status sc j 100%nat.

Definition check_status_mismatches (cs : list (nat * list (status * bool) * bool * bool)) : list nat :=
  map (fun c => c.1.1.1) (List.filter (fun c : nat * list (status * bool) * bool * bool =>
    negb (bool_decide (check_status_case c.1.1.2 = (c.1.2, c.2)))) cs).

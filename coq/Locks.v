(** * Locks: threads over one readers-writer lock, data races, and the lock discipline of the runner.
    (prunner.go: PipelineRunner.mx and every field it guards). Threads are sequences of lock operations and accesses;
    the Go memory model is abstracted to: two conflicting accesses that are simultaneously enabled form a race, and the
    only synchronisation considered is the mutex (channels, go statements, WaitGroup are not modelled). *)
From stdpp Require Import list.

Inductive mode := Free | HoldR | HoldW.
Global Instance mode_eq_dec : EqDecision mode. Proof. solve_decision. Defined.

Inductive act :=
  | AcqR | AcqW | Rel
  | Rd (l : nat) | Wr (l : nat).

Definition thread : Type := mode * list act.   (* the mode in which it holds the lock, what it still has to do *)
Definition config := list thread.

Definition no_writer (c : config) : bool := forallb (fun t : thread => negb (bool_decide (t.1 = HoldW))) c.
Definition all_free (c : config) : bool := forallb (fun t : thread => bool_decide (t.1 = Free)) c.

(** RWMutex: RLock succeeds when nobody holds the write lock, Lock when nobody holds the lock at all *)
Definition step (c : config) (i : nat) : option config :=
  match c !! i with
  | Some (m, a :: rest) =>
      match a with
      | AcqR => if bool_decide (m = Free) && no_writer c then Some (<[i := (HoldR, rest)]> c) else None
      | AcqW => if bool_decide (m = Free) && all_free c then Some (<[i := (HoldW, rest)]> c) else None
      | Rel => if bool_decide (m = Free) then None else Some (<[i := (Free, rest)]> c)
      | Rd _ | Wr _ => Some (<[i := (m, rest)]> c)
      end
  | _ => None
  end.

Inductive reach : config → config → Prop :=
  | reach_refl c : reach c c
  | reach_step c c' c'' i : reach c c' → step c' i = Some c'' → reach c c''.

Definition next (c : config) (i : nat) : option act := match c !! i with Some (_, a :: _) => Some a | _ => None end.

(** a data race: two different threads are about to access the same location, at least one of them writing *)
Definition race (c : config) : Prop :=
  ∃ i j l, i ≠ j ∧ next c i = Some (Wr l) ∧ (next c j = Some (Rd l) ∨ next c j = Some (Wr l)).

(** the lock discipline, checked along a thread: writes only with the write lock, reads only with the lock in either mode,
    the lock is not taken twice *)
Fixpoint disciplined (m : mode) (acts : list act) : bool :=
  match acts with
  | [] => true
  | AcqR :: r => bool_decide (m = Free) && disciplined HoldR r
  | AcqW :: r => bool_decide (m = Free) && disciplined HoldW r
  | Rel :: r => negb (bool_decide (m = Free)) && disciplined Free r
  | Rd _ :: r => negb (bool_decide (m = Free)) && disciplined m r
  | Wr _ :: r => bool_decide (m = HoldW) && disciplined m r
  end.

(** ** access sites with the statically computed mode (what the translator locktab emits) *)
Inductive site :=
  | SLock (w : bool) | SUnlock
  | SAccess (l : nat) (write : bool) (held : mode).   (* held: the mode the analysis computed for this site *)

Definition site_ok (s : site) : bool :=
  match s with
  | SAccess _ true held => bool_decide (held = HoldW)
  | SAccess _ false held => negb (bool_decide (held = Free))
  | _ => true
  end.

Definition erase (s : site) : act :=
  match s with SLock true => AcqW | SLock false => AcqR | SUnlock => Rel | SAccess l true _ => Wr l | SAccess l false _ => Rd l end.

(** the annotation of a path is consistent when it equals the mode obtained by tracking the lock operations, and the lock
    operations themselves are well-formed *)
Fixpoint consistent (m : mode) (p : list site) : bool :=
  match p with
  | [] => true
  | SLock w :: r => bool_decide (m = Free) && consistent (if w then HoldW else HoldR) r
  | SUnlock :: r => negb (bool_decide (m = Free)) && consistent Free r
  | SAccess _ _ held :: r => bool_decide (held = m) && consistent m r
  end.

(** ** the table: one row per access site *)
Record row := Row { r_obj : nat; r_write : bool; r_mode : mode; r_immutable : bool (* no write site for this object anywhere *); r_exempt : bool }.

Definition row_ok (r : row) : bool :=
  r_exempt r || (if r_write r then bool_decide (r_mode r = HoldW) else (r_immutable r || negb (bool_decide (r_mode r = Free)))).

Definition table_ok (t : list row) : bool := forallb row_ok t.
Definition offenders (t : list (nat * row)) : list nat := map fst (List.filter (fun x => negb (row_ok x.2)) t).

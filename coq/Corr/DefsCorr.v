(** Correspondence functions for C17: evaluated by vm_compute on generated cases *)
From stdpp Require Import gmap strings.
From Coq Require Import ZArith Ascii.
From PV Require Import Defs.

Global Instance taskdef_eq_dec : EqDecision taskdef.
Proof. solve_decision. Defined.
Global Instance pdef_eq_dec : EqDecision pdef.
Proof. solve_decision. Defined.

(** strings with arbitrary bytes are emitted as byte lists *)
Definition bs (l : list N) : string := string_of_list_ascii (map ascii_of_N l).

Definition mk_env (l : list (string * string)) : gmap string string := list_to_map l.
Definition mk_tasks (l : list (string * taskdef)) : gmap string taskdef := list_to_map l.
Definition mk_defs (l : list (string * pdef)) : gmap string pdef := list_to_map l.

(** implementation result of LoadRecursively vs model *)
Definition check_load (fs : list file) (expected : option (gmap string pdef)) : bool :=
  bool_decide (load fs = expected).

(** implementation result of Equals vs model *)
Definition check_equals (a b : gmap string pdef) (r : bool) : bool :=
  Bool.eqb (pdefs_equals a b) r.

Definition mismatches (cases : list (nat * bool)) : list nat :=
  map fst (filter (fun c => negb (snd c)) cases).

package main

import (
	"encoding/json"
	"fmt"
	"os"
	"path/filepath"
	"strings"
	"syscall"
	"time"
)

// shutdown mode (C11, the part only app/app.go contains): the real application receives SIGINT (graceful) while one job runs
// and one waits, and in a second round its contexts end (SIGTERM: forced) while a job with an interrupt-ignoring child runs.
// After the application has returned the store file is read: it must hold the final state of every job.

type storedTask struct {
	Name   string
	Status string
}
type storedJob struct {
	ID        string
	Pipeline  string
	Completed bool
	Canceled  bool
	Start     *time.Time
	End       *time.Time
	Tasks     []storedTask
}

func readStore(dir string) ([]storedJob, error) {
	b, err := os.ReadFile(filepath.Join(dir, ".prunner", "data.json"))
	if err != nil {
		return nil, err
	}
	var d struct{ Jobs []storedJob }
	if err := json.Unmarshal(b, &d); err != nil {
		return nil, err
	}
	return d.Jobs, nil
}

func shutdownMode(seed uint64) {
	gracefulRound()
	dir, err := os.MkdirTemp("", "realrun-shut")
	if err != nil {
		panic(err)
	}
	defer os.RemoveAll(dir)
	forcedShutdownRound(&renderer{dir: dir}, dir, seed, false)
	forcedShutdownRound(&renderer{dir: dir}, dir, seed, true)
}

func gracefulRound() {
	defs := map[string]PipeDef{"g": {Concurrency: 1, Tasks: map[string]TaskDef{
		"a": {Script: []string{"sleep 0.6", "echo natural-end-a"}},
		"b": {Script: []string{"sleep 0.2", "echo natural-end-b"}, DependsOn: []string{"a"}}}}}
	a, err := startApp(defs)
	if err != nil {
		emit(map[string]interface{}{"kind": "error", "what": err.Error()})
		return
	}
	rec := map[string]interface{}{"kind": "shutdown", "round": "graceful", "ok": false}
	defer func() { emit(rec); _ = os.RemoveAll(a.Dir) }()
	id1, st1, _ := a.Schedule("g", nil)
	id2, st2, _ := a.Schedule("g", nil)
	if st1 != 202 || st2 != 202 {
		rec["what"] = fmt.Sprintf("schedule: %d %d", st1, st2)
		a.Stop()
		return
	}
	time.Sleep(150 * time.Millisecond)
	t0 := time.Now()
	// SIGINT to this process: the application (and only it) has registered for it
	_ = syscall.Kill(os.Getpid(), syscall.SIGINT)
	time.Sleep(100 * time.Millisecond)
	_, st3, _ := a.Schedule("g", nil)
	rec["schedule_during_shutdown_status"] = st3
	returned := false
	select {
	case <-a.done:
		returned = true
	case <-time.After(15 * time.Second):
	}
	rec["returned"], rec["return_ms"] = returned, time.Since(t0).Milliseconds()
	if !returned {
		rec["what"] = "the application did not return within 15 s after SIGINT although the running job needs less than a second"
		a.cancel()
		return
	}
	jobs, err := readStore(a.Dir)
	if err != nil {
		rec["what"] = "store after shutdown: " + err.Error()
		return
	}
	var what []string
	found := 0
	for _, j := range jobs {
		switch j.ID {
		case id1:
			found++
			if !j.Completed || j.Canceled {
				what = append(what, fmt.Sprintf("graceful shutdown: the running job is stored completed=%v canceled=%v (it must run to its natural end)", j.Completed, j.Canceled))
			}
			for _, t := range j.Tasks {
				if t.Status != "done" {
					what = append(what, fmt.Sprintf("graceful shutdown: task %s of the running job is stored as %q", t.Name, t.Status))
				}
			}
		case id2:
			found++
			if !j.Canceled || j.Start != nil {
				what = append(what, fmt.Sprintf("graceful shutdown: the waiting job is stored canceled=%v started=%v", j.Canceled, j.Start != nil))
			}
		}
	}
	if found != 2 {
		what = append(what, fmt.Sprintf("the store holds %d of the 2 accepted jobs after the shutdown", found))
	}
	for _, tn := range []string{"a", "b"} {
		b, _ := a.LogFile(id1, tn, "stdout")
		if strings.TrimSpace(string(b)) != "natural-end-"+tn {
			what = append(what, fmt.Sprintf("graceful shutdown: task %s of the running job did not run to its natural end (stdout %q)", tn, string(b)))
		}
	}
	if st3 == 202 {
		what = append(what, "a schedule request issued during the shutdown was accepted")
	}
	if len(what) == 0 {
		rec["ok"] = true
	} else {
		rec["what"] = strings.Join(what, "; ")
	}
}

(** * Output: the file-backed log store (taskctl/output_store.go), the capture of a task run (taskctl/runner.go Run:
    one writer per stream, opened per task run and handed to the interpreter for all commands) and the log request
    (server/server.go jobLogs). *)
From stdpp Require Import list strings.
From Coq Require Import NArith.

Inductive stream := Stdout | Stderr.
Global Instance stream_eq_dec : EqDecision stream. Proof. solve_decision. Defined.

Definition bytes := list N.

(** a log is identified by job id, task name and stream *)
Definition key : Type := string * string * stream.
Global Instance key_eq_dec : EqDecision key. Proof. solve_decision. Defined.

Definition stream_name (s : stream) : string := match s with Stdout => "stdout"%string | Stderr => "stderr"%string end.

(** buildPath: <base>/<jobID>/<task>-<stream>.log — directory and file component *)
Definition file_name (task : string) (s : stream) : string := (task ++ "-" ++ stream_name s ++ ".log")%string.
Definition build_path (k : key) : string * string := let '(j, t, s) := k in (j, file_name t s).

(** the store: contents by key; None = no such file *)
Definition fs := key → option bytes.
Definition fs0 : fs := fun _ => None.
Definition fs_set (f : fs) (k : key) (v : option bytes) : fs := fun k' => if decide (k' = k) then v else f k'.

Inductive ev :=
  | EOpen (k : key)               (* Writer: os.Create — creates or truncates *)
  | EWrite (k : key) (d : bytes)  (* one write through the open file *)
  | ERemove (job : string).       (* Remove: the job's directory *)

Definition ev_job (e : ev) : string := match e with EOpen (j, _, _) | EWrite (j, _, _) _ => j | ERemove j => j end.

Definition apply (f : fs) (e : ev) : fs :=
  match e with
  | EOpen k => fs_set f k (Some [])
  | EWrite k d => match f k with Some c => fs_set f k (Some (c ++ d)) | None => f end
  | ERemove j => fun k => if decide (k.1.1 = j) then None else f k
  end.

Definition exec (tr : list ev) (f : fs) : fs := fold_left apply tr f.

(** ** a task run: commands, each a sequence of writes to one of the two streams *)
Definition chunk : Type := stream * bytes.
Definition cmd := list chunk.

Definition run_events (j t : string) (cmds : list cmd) : list ev :=
  EOpen (j, t, Stdout) :: EOpen (j, t, Stderr) :: map (fun c : chunk => EWrite (j, t, c.1) c.2) (concat cmds).

(** what a stream of the run must contain: the chunks of that stream, in order, across all commands *)
Definition stream_of (s : stream) (cmds : list cmd) : bytes :=
  concat (map snd (List.filter (fun c : chunk => bool_decide (c.1 = s)) (concat cmds))).

(** does the event belong to the run (job, task)? *)
Definition of_run (j t : string) (e : ev) : bool :=
  match e with
  | EOpen (j', t', _) | EWrite (j', t', _) _ => bool_decide (j' = j) && bool_decide (t' = t)
  | ERemove j' => bool_decide (j' = j)
  end.

(** ** the log request: refused unless the task is one of the job's tasks *)
Definition logs_request (f : fs) (job : string) (tasks : list string) (t : string) : option (bytes * bytes) :=
  if bool_decide (t ∈ tasks) then Some (default [] (f (job, t, Stdout)), default [] (f (job, t, Stderr))) else None.

(** interleavings of several event sequences *)
Inductive interleave {A} : list (list A) → list A → Prop :=
  | il_nil ls : Forall (fun l => l = []) ls → interleave ls []
  | il_step ls i x l tr : ls !! i = Some (x :: l) → interleave (<[i:=l]> ls) tr → interleave ls (x :: tr).

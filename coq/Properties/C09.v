(** * C09 — The job store on disk is always a complete snapshot
    (partial: atomicity of rename(2) and the survival of completed writes across a process kill are properties of the
    kernel, assumed by the model; power loss is outside the property; the JSON codec round trip is a section hypothesis) *)
From stdpp Require Import list.
From PV Require Import StoreFS proofs.StoreProps.

(** for every sequence of saves, every chunking of their writes, every interleaving of overlapping saves and every
    instant (prefix) — in particular every point at which the process can be killed or a reader can look — data.json is
    absent or the complete encoding of a snapshot whose save reached its rename: never truncated, empty or mixed *)
Theorem C09_always_complete : ∀ es b, d_data (fsrun dir0 es) = Some b → b ∈ d_renamed (fsrun dir0 es).
Proof. exact always_complete. Qed.

(** the encodings that reach a rename are complete encodings some save was started with *)
Theorem C09_renamed_are_saved : ∀ d e d' b,
  fsstep d e = Some d' → b ∈ d_renamed d' → b ∈ d_renamed d ∨ ∃ p, p ∈ d_procs d ∧ p_content p = b.
Proof. exact renamed_are_started. Qed.

(** a save that has run to its rename is what data.json holds (until a later rename) *)
Theorem C09_load_after_save : ∀ d n p,
  fsinv d → find (fun p => Nat.eqb (p_tmp p) n) (d_procs d) = Some p → p_todo p = [] → p_closed p = true →
  ∃ d', fsstep d (FStep n) = Some d' ∧ d_data d' = Some (p_content p).
Proof. exact load_after_save. Qed.

(** hence, with a codec that round-trips, whatever is on disk loads to one of the snapshots passed to a save *)
Theorem C09_loadable : ∀ {A} (encode : A → bytes) (decode : bytes → option A),
  (∀ a, decode (encode a) = Some a) →
  ∀ es b (snaps : list A),
    (∀ c, c ∈ d_renamed (fsrun dir0 es) → ∃ a, a ∈ snaps ∧ c = encode a) →
    d_data (fsrun dir0 es) = Some b → ∃ a, a ∈ snaps ∧ decode b = Some a.
Proof. intros A encode decode H. exact (loadable_when_present encode decode H). Qed.

(** writing data.json in place would not have the property *)
Theorem C09_direct_write_refuted :
  ∃ (content : bytes) (es : list ipevent) (data : option bytes),
    fold_left (fun d e => ipstep d e) es (Some [1;2;3]) = data ∧ concat [[4]; [5]] = content
    ∧ data ≠ Some [1;2;3] ∧ data ≠ Some content.
Proof. exact direct_write_refuted. Qed.

(** two overlapping saves, one killed between two writes *)
Example C09_ex :
  let d := fsrun dir0 [FStart 1 [[1];[2]]; FStart 2 [[7;8]]; FStep 1; FStep 2; FStep 2; FStep 2; FCrash 1] in
  d_data d = Some [7;8] ∧ d_tmps d = [(1, [1])].
Proof. vm_compute. done. Qed.

Print Assumptions C09_always_complete.
Print Assumptions C09_renamed_are_saved.
Print Assumptions C09_load_after_save.
Print Assumptions C09_loadable.
Print Assumptions C09_direct_write_refuted.

#!/usr/bin/env python3
"""C14 — no API route works without a valid token, and rejected requests do nothing. Proof: coq/Properties/C14.v over Auth.v.
Tie to server/server.go and app/app.go: authrun builds the real server for both profiling settings, discovers its routes from the
live chi router and sends every method x path x credential class x transport; the discovered route list and every response class are
compared with the router model in Coq (Corr/AuthCorr.v); an independent monitor states the property on the observed responses.
The CLI application (app.New) is started on a local port for every combination of --enable-profiling / PRUNNER_ENABLE_PROFILING."""
import json
import os
import sys

sys.path.insert(0, os.path.dirname(os.path.abspath(__file__)))
from common import *  # noqa

HEADER = "From stdpp Require Import list strings.\nFrom Coq Require Import String.\nFrom PV Require Import Auth Corr.AuthCorr.\nLocal Open Scope string_scope.\n"
METHODS = ["GET", "POST", "PUT", "DELETE", "PATCH", "HEAD", "OPTIONS"]
TRI = {"past": "TPast", "future": "TFuture", "absent": "TAbsent", "": "TAbsent", None: "TAbsent"}
ALG = {"HS256": "HS256", "HS384": "HS384", "HS512": "HS512", "RS256": "RS256", "none": "AlgNone"}


def cq_token(t):
    if t is None or t["kind"] == "missing":
        return "TokMissing"
    if t["kind"] == "malformed":
        return "TokMalformed"
    return "(TokJWT %s %s %s %s %s)" % (ALG[t["alg"]], cq_bool(t.get("key_ok", False)), TRI[t.get("exp")], TRI[t.get("nbf")], cq_bool(t.get("iat_future", False)))


def py_valid(t):
    """the property's own notion of a valid credential (independent of the Coq model)"""
    return bool(t and t["kind"] == "jwt" and t["alg"] == "HS256" and t.get("key_ok") and t.get("exp") != "past"
                and t.get("nbf") != "future" and not t.get("iat_future"))


def effective(c):
    h = c.get("header")
    if h is not None and h["kind"] != "missing":
        return h
    return c.get("cookie")


def resp_class(c):
    st = c["status"]
    if st == 401:
        return "R401"
    if st == 404 and not c["json"]:
        return "R404"
    if st == 405:
        return "R405"
    if c["path"].startswith("/debug"):
        return "RDebug"
    return "RHandler"


def run_authrun(ctx, bins, mode, full, tag):
    out = os.path.join(ctx.run, "auth-%s-%s.jsonl" % (mode, tag))
    cmd = [bins["authrun"], "-mode", mode, "-seed", str(ctx.seed), "-out", out] + (["-full"] if full else [])
    rc, o = sh(cmd, cwd=ctx.run, timeout=3000)
    if rc != 0:
        ctx.log("authrun failed:", o[-2000:])
        return None
    return [json.loads(l) for l in open(out)]


def monitor(cases, routes):
    """the property on the observed responses; returns concrete failing requests"""
    bad = []
    for c in cases:
        api = not c["path"].startswith("/debug")
        ok_tok = py_valid(effective(c))
        if api and not ok_tok:
            if c["registered"] and c["status"] != 401:
                bad.append(("request without a valid token on an API route is not answered 401", c))
            elif c["changed"]:
                bad.append(("request without a valid token changed the runner state", c))
            elif c["leaks"]:
                bad.append(("request without a valid token received job or pipeline data", c))
            elif c["status"] // 100 == 2:
                bad.append(("request without a valid token succeeded", c))
        if api and ok_tok and c["registered"] and c["status"] in (401, 403):
            bad.append(("valid token rejected on an API route", c))
        if not api and not c["profiling"] and c["status"] != 404:
            bad.append(("profiling route answers although profiling is disabled", c))
    for prof, rs in routes.items():
        for m, p in rs:
            if p.startswith("/debug") and not prof:
                bad.append(("profiling route registered although profiling is disabled", {"profiling": prof, "method": m, "path": p}))
    return bad


def main():
    ctx = Ctx("C14", sys.argv[1:])
    proof_ok = proof_evidence(ctx, extra_files=["Corr/AuthCorr.v"])
    bins = build_harness(ctx, ["authrun"])
    if bins is None:
        violation(ctx, {"what": "harness does not build against the repository working tree", "broken": "correspondence authrun"}, found_input=False)
        finish(ctx)
    full = ctx.tier == "thorough"
    if ctx.replay:
        full = True
    recs = run_authrun(ctx, bins, "server", full, "s")
    apps = run_authrun(ctx, bins, "app", False, "a")
    if recs is None or apps is None:
        violation(ctx, {"what": "authrun did not complete", "broken": "correspondence authrun"}, found_input=False)
        finish(ctx)
    routes = {r["profiling"]: [tuple(x) for x in r["routes"]] for r in recs if r["kind"] == "routes"}
    cases = [r["c"] for r in recs if r["kind"] == "case"]
    appc = [r["c"] for r in apps if r["kind"] == "app"]
    if ctx.replay:
        rp = json.load(open(ctx.replay if os.path.isabs(ctx.replay) else os.path.join(VERIF, ctx.replay)))
        key = rp.get("case") or {}
        hit = [b for b in monitor(cases, routes) if all(b[1].get(k) == key.get(k) for k in ("profiling", "method", "path", "header", "cookie"))]
        hit += [c for c in appc if rp.get("app") and c["flag"] == rp["app"]["flag"] and c["env"] == rp["app"]["env"] and app_bad(c)]
        ctx.log("replay:", hit[:2])
        if hit:
            violation(ctx, rp)
        finish(ctx)
    # ---- model vs implementation
    route_terms = []
    for prof in (False, True):
        api = [(m, p) for m, p in routes.get(prof, []) if not p.startswith("/debug")]
        api = [(m, p) for m, p in api if m in METHODS]
        route_terms.append("(%d%%nat, same_routes %s %s)" % (1 if prof else 0, cq_bool(prof), cq_list(api, lambda x: "(%s, %s)" % (x[0], cq_str(x[1])))))
    bad_routes = run_cases(ctx, "routes", HEADER + "Definition mm (l : list (nat * bool)) := map fst (List.filter (fun r => negb (snd r)) l).\n",
                           route_terms, mism="mm", shards=1)
    terms = []
    for i, c in enumerate(cases):
        terms.append("(%d%%nat, %s, %s, %s, %s, %s, %s, %s, %s)" % (i, cq_bool(c["profiling"]), c["method"], cq_str(c["path"].rstrip("*") if c["path"].endswith("/*") else c["path"]),
                                                              cq_token(c.get("header")), cq_token(c.get("cookie")), resp_class(c), cq_bool(c["changed"]), cq_bool(c["leaks"])))
    bad_cases = run_cases(ctx, "cases", HEADER, terms, case_type="(nat * bool * method * string * token * token * response * bool * bool)")
    ob = {"absent": "None", "bare": "(Some true)", "true": "(Some true)", "false": "(Some false)", "1": "(Some true)", "0": "(Some false)"}
    aterms = []
    for i, c in enumerate(appc):
        st = c["status"]
        dbg = [st.get(k) for k in ("debug_pprof", "debug_cmdline", "debug_goroutine", "debug_vars")]
        present = any(x != 404 for x in dbg)
        aterms.append("(%d%%nat, %s, %s, %s, %s, %s, %s)" % (i, ob[c["flag"]], ob[c["env"]], cq_bool(present), cq_bool(st.get("api_none") == 401),
                                                        cq_bool(st.get("api_good") == 200), cq_bool(st.get("api_bad") == 401)))
    bad_apps = run_cases(ctx, "apps", HEADER, aterms, case_type="(nat * option bool * option bool * bool * bool * bool * bool)", mism="app_mismatches", shards=1)
    # ---- the property on the observations
    mon = monitor(cases, routes)
    mon_app = [c for c in appc if app_bad(c)]
    classes = {}
    for c in cases:
        t = effective(c)
        k = "%s/%s/%s" % (resp_class(c), "valid" if py_valid(t) else (t["kind"] if t and t["kind"] != "jwt" else ("jwt-invalid" if t else "missing")),
                          "registered" if c["registered"] else "other")
        classes[k] = classes.get(k, 0) + 1
    ctx.coverage.update({
        "evaluations": len(cases) + len(appc),
        "distinct_nontrivial": len({(c["profiling"], c["method"], c["path"], json.dumps(c.get("header"), sort_keys=True), json.dumps(c.get("cookie"), sort_keys=True)) for c in cases}),
        "rule": "every discovered route and every other method on the same paths plus unrouted paths x credential classes (missing, 6 malformed, "
                "alg {HS256,HS384,HS512,RS256,none} x key {right,wrong} x exp/nbf {past,future,absent} x iat future) x transport (header, cookie, both) "
                "for profiling off/on on server.NewServer; " + ("all combinations" if full else "reduced: tokens invalid for two reasons and most non-registered methods sampled")
                + "; CLI application on a local port for flag {absent,bare,=true,=false} x env {absent,true,1,false,0}",
        "routes": {str(k): ["%s %s" % x for x in v] for k, v in routes.items()},
        "classes": classes,
        "app_configs": len(appc),
        "samples": cases[:2] + appc[:1],
        "model_mismatches": {"routes": bad_routes, "cases": len(bad_cases), "apps": bad_apps},
        "traces_validated_against_impl": len(cases) + len(appc) + 2,
    })
    ctx.assumptions = ["JWT parsing and HMAC verification (lestrrat-go/jwx), chi's pattern matching and net/http are exercised through the enumeration, not modelled",
                       "token classes are represented by one token each (claims 1 h in the past / future)",
                       "the profiling handlers are only requested with GET (some block for the sampling time)"]
    if not proof_ok:
        violation(ctx, {"what": "Coq development for C14 does not check", "broken": "Properties/C14.v or its dependencies"}, found_input=False)
    seen = set()
    for what, c in mon:
        k = (what, c.get("path"), c.get("method"))
        if k in seen or len(seen) >= 3:
            continue
        seen.add(k)
        violation(ctx, {"what": what, "case": c})
    for c in mon_app[:2]:
        violation(ctx, {"what": "CLI application: " + app_bad(c), "app": c})
    if not mon and not mon_app and (bad_routes or bad_cases or bad_apps):
        ex = [cases[i] for i in bad_cases[:5]]
        violation(ctx, {"what": "the server's routes or responses differ from the router model of Auth.v, but no request without a valid token got through",
                        "broken": "correspondence Corr/AuthCorr.v (same_routes / check_case / check_app): the theorems of Properties/C14.v are about a router the code no longer has",
                        "route_sets_differ_for_profiling": bad_routes, "cases": ex, "apps": [appc[i] for i in bad_apps[:3]],
                        "model_says": "see coq/Auth.v serve"}, found_input=False)
    finish(ctx)


def app_bad(c):
    st = c["status"]
    on = c["flag"] in ("bare", "true") or (c["flag"] == "absent" and c["env"] in ("true", "1"))
    if not c["up"]:
        return "the application did not start"
    if st.get("api_none") != 401 or st.get("api_bad") != 401:
        return "API answered a request without a valid token with %s/%s" % (st.get("api_none"), st.get("api_bad"))
    if c.get("leak"):
        return "an unauthenticated response contains the JWT secret"
    if not on:
        for k in ("debug_pprof", "debug_cmdline", "debug_goroutine", "debug_vars"):
            if st.get(k) != 404:
                return "profiling route %s answers %s although profiling was not enabled (flag %s, env %s)" % (k, st.get(k), c["flag"], c["env"])
    return ""


if __name__ == "__main__":
    main()

(** Refinement: every step of the system model is a step of the abstract runner machine on the abstraction of the
    state, or leaves the abstraction unchanged. Hence abstractions of reachable system states are reachable in the
    abstract machine, and its invariants transfer. *)
From stdpp Require Import list.
From Coq Require Import ZArith Lia.
From PV Require Import Runner proofs.RunnerBase proofs.RunnerInv.
Local Open Scope Z_scope.

Lemma filter_map_length {A B} (f : B → bool) (g : A → B) (l : list A) :
  length (List.filter f (map g l)) = length (List.filter (fun x => f (g x)) l).
Proof. induction l as [|x l IH]; simpl; [done|]. destruct (f (g x)); simpl; by rewrite IH. Qed.

Lemma abs_running_count s p : running_count s p = r_running_count (abs s) p.
Proof.
  unfold running_count, r_running_count. simpl. rewrite filter_map_length. done.
Qed.

Lemma abs_resolve s p i : resolve_action s p i = r_resolve_action (abs s) p i.
Proof. unfold resolve_action, r_resolve_action. by rewrite abs_running_count. Qed.

Lemma abs_lookup s id : rs_jobs (abs s) !! id = abs_job <$> (st_jobs s !! id).
Proof. simpl. by rewrite list_lookup_fmap. Qed.

Lemma abs_find s id : r_find (abs s) id = abs_job <$> find_job s id.
Proof.
  unfold r_find, find_job, get_job. rewrite abs_lookup.
  destruct (st_jobs s !! id) as [j|]; simpl; [|done]. by destruct (j_removed j).
Qed.

Lemma abs_upd s id f g : (∀ j, abs_job (f j) = g (abs_job j)) → abs (upd_job s id f) = r_upd (abs s) id g.
Proof.
  intros H. unfold abs, upd_job, r_upd, r_set_jobs. simpl. f_equal.
  change (map abs_job) with (fmap (M:=list) abs_job).
  apply list_alter_fmap. apply Forall_forall. intros x _. apply H.
Qed.

Lemma abs_upd_same s id f : (∀ j, abs_job (f j) = abs_job j) → abs (upd_job s id f) = abs s.
Proof.
  intros H. rewrite (abs_upd s id f (fun x => x)) by done. unfold r_upd, r_set_jobs. destruct (abs s). simpl. f_equal.
  apply list_alter_id. done.
Qed.

Lemma abs_log s o : abs (log s o) = abs s. Proof. done. Qed.
Lemma abs_req s : abs (request_persist s) = abs s. Proof. done. Qed.
Lemma abs_clear_req s : abs (clear_req s) = abs s. Proof. done. Qed.
Lemma abs_set_wait s p l : abs (set_wait s p l) = r_set_wait (abs s) p l. Proof. done. Qed.

(** the graph decision only looks at the job's variables and the names / definitions of its tasks *)
Lemma graph_ok_ext j j' :
  j_vars j' = j_vars j → map (fun t => (jt_name t, jt_def t)) (j_tasks j') = map (fun t => (jt_name t, jt_def t)) (j_tasks j) →
  graph_ok j' = graph_ok j.
Proof.
  intros Hv Ht. unfold graph_ok, job_graph. rewrite Hv, Ht.
  destruct (j_vars j); try done.
  destruct (j_tasks j') as [|a l], (j_tasks j) as [|b l']; simpl in *; try done.
Qed.

Ltac absjob :=
  unfold abs_job; simpl; f_equal;
  try done;
  try (apply graph_ok_ext; [done|simpl; rewrite ?map_map; simpl; done]);
  try (f_equal; unfold job_graph; simpl; rewrite ?map_map; simpl; done);
  try (by rewrite ?orb_true_r, ?orb_false_r).

Lemma abs_try_start s id :
  (abs (try_start s id).1, (try_start s id).2) = r_try_start (abs s) id.
Proof.
  unfold try_start, r_try_start. rewrite abs_find.
  destruct (find_job s id) as [j|] eqn:Hf; simpl; [|done].
  destruct (j_canceled j) eqn:Hc; [done|].
  destruct (graph_ok j) eqn:Hg; simpl.
  - rewrite abs_log. f_equal. erewrite abs_upd; [done|].
    intros j0. unfold r_started. absjob.
  - rewrite abs_log. f_equal. erewrite abs_upd; [done|].
    intros j0. unfold r_failed. absjob.
Qed.

Lemma abs_dequeue_loop fuel s p : abs (dequeue_loop fuel s p) = r_dequeue_loop fuel (abs s) p.
Proof.
  revert s. induction fuel as [|x0 fuel IH]; intros s; [done|].
  cbn [dequeue_loop r_dequeue_loop].
  change (rs_wait (abs s)) with (st_wait s).
  destruct (wl_get (st_wait s) p) as [|h rest]; [done|].
  unfold get_job. rewrite abs_lookup.
  destruct (st_jobs s !! h) as [j|]; [|done].
  cbn [fmap option_fmap option_map].
  unfold resolve_dequeue. rewrite abs_resolve.
  change (r_pipe (abs_job j)) with (j_pipe j). change (r_timer (abs_job j)) with (j_timer j).
  destruct (bool_decide _ && negb (j_timer j)); [|done].
  rewrite IH. f_equal.
  pose proof (abs_try_start (set_wait s p rest) h) as H. rewrite abs_set_wait in H.
  by rewrite <- H.
Qed.

Lemma abs_dequeue s p : abs (dequeue s p) = r_dequeue (abs s) p.
Proof. apply abs_dequeue_loop. Qed.

Lemma abs_start_job s id p : abs (start_job s id p) = r_start_job (abs s) id p.
Proof.
  unfold start_job, r_start_job. pose proof (abs_try_start s id) as H.
  destruct (try_start s id) as [s' failed]. destruct (r_try_start (abs s) id) as [rs' rfailed].
  simpl in H. injection H as <- <-. destruct failed; [apply abs_dequeue|done].
Qed.

Lemma abs_append s j : abs (set_jobs s (st_jobs s ++ [j])) = r_set_jobs (abs s) (rs_jobs (abs s) ++ [abs_job j]).
Proof. unfold abs, set_jobs, r_set_jobs. simpl. by rewrite map_app. Qed.

Lemma abs_schedule s p v u :
  (abs (do_schedule s p v u).1, (do_schedule s p v u).2)
  = r_schedule (abs s) p (graph_ok (new_job s p (default zero_def (lookup_def (st_defs s) p)) v u))
               (r_snap (abs_job (new_job s p (default zero_def (lookup_def (st_defs s) p)) v u))).
Proof.
  unfold do_schedule, r_schedule. change (rs_shut (abs s)) with (st_shut s). change (rs_defs (abs s)) with (st_defs s).
  destruct (st_shut s); [done|].
  destruct (lookup_def (st_defs s) p) as [d|]; [|done].
  change (default zero_def (Some d)) with d.
  rewrite <- abs_resolve.
  assert (Hlen : length (rs_jobs (abs s)) = length (st_jobs s)) by (simpl; by rewrite map_length).
  assert (Hnj : abs_job (new_job s p d v u) = r_new_job (abs s) p d (graph_ok (new_job s p d v u)) (r_snap (abs_job (new_job s p d v u)))) by done.
  destruct (resolve_action s p false) eqn:Hact; cbn [fst snd]; try done.
  - rewrite abs_start_job, abs_log, abs_req, abs_append, Hnj, Hlen. done.
  - rewrite abs_set_wait, abs_log, abs_req, abs_append, Hnj, Hlen. done.
  - change (rs_wait (r_set_jobs (abs s) (rs_jobs (abs s) ++ [r_new_job (abs s) p d (graph_ok (new_job s p d v u)) (r_snap (abs_job (new_job s p d v u)))])))
      with (st_wait s).
    change (st_wait (log (request_persist (set_jobs s (st_jobs s ++ [new_job s p d v u]))) (OAccepted (length (st_jobs s)) p)))
      with (st_wait s).
    destruct (last (wl_get (st_wait s) p)) as [prev|]; cbn [fst snd].
    + rewrite abs_log, abs_set_wait.
      rewrite (abs_upd _ prev set_canceled_notimer r_cancel_notimer).
      2:{ intros j0. unfold set_canceled_notimer, r_cancel_notimer. absjob. }
      rewrite abs_log, abs_req, abs_append, Hnj, Hlen. done.
    + rewrite abs_log, abs_req, abs_append, Hnj, Hlen. done.
Qed.

Lemma abs_cancel_request s id :
  (abs (cancel_job s id true).1, (cancel_job s id true).2) = r_cancel (abs s) id.
Proof.
  unfold cancel_job, r_cancel. rewrite abs_find.
  destruct (find_job s id) as [j|]; simpl; [|done].
  destruct (j_canceled j); [done|]. destruct (j_completed j); [done|].
  destruct (j_start j); simpl.
  - destruct (j_sched j); simpl; [|done]. f_equal. rewrite (abs_upd _ id (add_cancel true) r_set_creq); [done|].
    intros j0. unfold add_cancel, r_set_creq. absjob.
  - rewrite abs_req, abs_dequeue, abs_log, abs_set_wait. f_equal. f_equal. f_equal.
    rewrite (abs_upd _ id mark_canceled r_cancel_notimer); [done|].
    intros j0. unfold mark_canceled, r_cancel_notimer. absjob.
Qed.

(** fail-fast cancel of a job whose scheduler is alive does not change the abstraction *)
Lemma abs_cancel_failfast s id :
  RInv (abs s) → (∃ j sc, st_jobs s !! id = Some j ∧ j_sched j = Some sc) →
  abs (cancel_job s id false).1 = abs s.
Proof.
  intros Hinv (j & sc & Hj & Hsc). unfold cancel_job, find_job, get_job. rewrite Hj.
  destruct (j_removed j); [done|].
  assert (Hl : r_live (abs_job j) = true) by (simpl; by rewrite Hsc).
  destruct (inv_live _ _ Hinv id (abs_job j)) as ([t Ht] & Hcomp & Hcan); [by rewrite abs_lookup, Hj|done|].
  simpl in Ht, Hcomp, Hcan. rewrite Hcan, Hcomp, Ht, Hsc. simpl.
  apply abs_upd_same. intros j0. unfold add_cancel. absjob.
Qed.

Lemma abs_fire s id :
  abs <$> do_fire_timer s id = r_fire (abs s) id.
Proof.
  unfold do_fire_timer, r_fire, get_job. rewrite abs_lookup, abs_find.
  destruct (st_jobs s !! id) as [j|] eqn:Hj; simpl; [|done].
  change (r_timer_due (abs s) (abs_job j)) with (timer_due s j).
  destruct (timer_due s j); [|done].
  assert (Hct : ∀ j0, abs_job (clear_timer j0) = r_clear_timer (abs_job j0)).
  { intros j0. unfold clear_timer, r_clear_timer. absjob. }
  destruct (find_job s id) as [j'|]; simpl.
  - destruct (j_canceled j); simpl.
    + f_equal. by apply abs_upd.
    + f_equal. rewrite abs_dequeue. f_equal. by apply abs_upd.
  - f_equal. by apply abs_upd.
Qed.

Lemma abs_sched_return s id s' :
  do_sched_return s id = Some s' →
  ∃ ec, r_complete (abs s) id ec = Some (abs s').
Proof.
  unfold do_sched_return, with_sched, get_job. intros H.
  destruct (st_jobs s !! id) as [j|] eqn:Hj; [|done].
  destruct (j_sched j) as [sc|] eqn:Hsc; [|done].
  destruct (sc_phase sc); try done. destruct (sc_entry sc); try done. destruct (sc_running sc); try done. destruct (sc_ending sc); try done.
  exists (bool_decide (sc_lasterr sc = Some ECanceled)).
  unfold r_complete. rewrite abs_lookup, Hj. simpl. rewrite Hsc.
  assert (Hc : ∀ j0, abs_job (complete (st_now s) (sc_lasterr sc) j0)
                     = r_complete_job (rs_now (abs s)) (bool_decide (sc_lasterr sc = Some ECanceled)) (abs_job j0)).
  { intros j0. unfold complete, r_complete_job. absjob. }
  destruct (j_removed j); injection H as <-; f_equal.
  - symmetry. by apply abs_upd.
  - rewrite abs_req, abs_dequeue, abs_log. f_equal. symmetry. by apply abs_upd.
Qed.

(** ** events inside a job: the abstraction does not move *)
Definition live (s : state) (id : nat) : Prop := ∃ j sc, st_jobs s !! id = Some j ∧ j_sched j = Some sc.

Lemma live_abs s s' id : abs s' = abs s → live s id → live s' id.
Proof.
  intros Ha (j & sc & Hj & Hsc).
  assert (H : rs_jobs (abs s') !! id = rs_jobs (abs s) !! id) by (by rewrite Ha).
  rewrite !abs_lookup, Hj in H. destruct (st_jobs s' !! id) as [j'|] eqn:Hj'; [|done].
  simpl in H. assert (Hl : r_live (abs_job j') = r_live (abs_job j)) by congruence.
  simpl in Hl. rewrite Hsc in Hl.
  destruct (j_sched j') as [sc'|] eqn:E; [|done]. by exists j', sc'.
Qed.

Lemma abs_put_sched s id sc : live s id → abs (put_sched s id sc) = abs s.
Proof.
  intros (j & sc0 & Hj & Hsc). unfold put_sched, upd_job, abs, set_jobs. simpl. f_equal.
  apply list_eq. intros i. rewrite !list_lookup_fmap. destruct (decide (id = i)) as [<-|Hne].
  - rewrite list_lookup_alter, Hj. simpl. f_equal. unfold abs_job. simpl. rewrite Hsc. f_equal.
  - by rewrite list_lookup_alter_ne.
Qed.

Lemma abs_job_upd_task j n f :
  (∀ t, jt_name (f t) = jt_name t ∧ jt_def (f t) = jt_def t) → abs_job (upd_task j n f) = abs_job j.
Proof.
  intros Hf.
  assert (Hg : job_graph (upd_task j n f) = job_graph j).
  { unfold job_graph. simpl. rewrite map_map. apply map_ext. intros t. destruct (jt_name t =? n)%nat; [|done].
    destruct (Hf t) as [-> ->]. done. }
  unfold abs_job. simpl. f_equal; [|by rewrite Hg]. by apply graph_ok_ext.
Qed.

Lemma abs_handle_stage_change s id n st : abs (handle_stage_change s id n st) = abs s.
Proof.
  unfold handle_stage_change. destruct (find_job s id) as [j|]; [|done].
  destruct (find_task j n); [|done]. rewrite abs_req. apply abs_upd_same.
  intros jx. apply abs_job_upd_task. done.
Qed.

Lemma abs_handle_task_change s id n t :
  RInv (abs s) → live s id → abs (handle_task_change s id n t) = abs s.
Proof.
  intros Hinv Hlive. unfold handle_task_change. destruct (find_job s id) as [j|] eqn:Hf; [|done].
  destruct (find_task j n); [|done]. rewrite abs_req.
  match goal with |- abs (if _ then _ else ?s1) = _ => set (s1' := s1) end.
  assert (Hs1 : abs s1' = abs s).
  { subst s1'. apply abs_upd_same. intros jx. apply abs_job_upd_task. intros t0.
    destruct (tn_err t) as [[]|]; done. }
  match goal with |- abs (if ?c then _ else _) = _ => destruct c end; [|done].
  destruct (lookup_def (st_defs s1') (j_pipe j)) as [d|]; [|done].
  destruct (pd_continue d); [done|].
  rewrite abs_cancel_failfast; [done|by rewrite Hs1|by eapply live_abs].
Qed.

Lemma abs_stage_end s id n r : abs (stage_end s id n r) = abs s.
Proof.
  unfold stage_end, get_job. destruct (st_jobs s !! id) as [j|] eqn:Hj; [|done].
  destruct (j_sched j) as [sc|] eqn:Hsc; [|done].
  assert (Hl : live s id) by (by exists j, sc).
  by rewrite abs_put_sched.
Qed.

Lemma abs_notify s id n s' : do_notify s id n = Some s' → abs s' = abs s.
Proof.
  unfold do_notify, with_sched, get_job. destruct (st_jobs s !! id) as [j|] eqn:Hj; [|done].
  destruct (j_sched j) as [sc|] eqn:Hsc; [|done].
  assert (Hl : live s id) by (by exists j, sc).
  destruct (ending_of sc n) as [[r second]|]; [|done].
  assert (H1 : abs (handle_stage_change s id n Error) = abs s) by (by rewrite abs_handle_stage_change).
  assert (Hdone : ∀ sc', abs (handle_stage_change (put_sched s id sc') id n Done) = abs s)
    by (intros sc'; by rewrite abs_handle_stage_change, abs_put_sched).
  destruct r as [e|]; [destruct second|].
  - intros [= <-]. apply Hdone.
  - destruct (match find_task j n with Some t => td_allow (jt_def t) | None => false end); intros [= <-];
      (rewrite abs_put_sched; [done|by eapply live_abs]).
  - intros [= <-]. apply Hdone.
Qed.


Lemma with_sched_live s id f s' : with_sched s id f = Some s' → ∃ j sc, st_jobs s !! id = Some j ∧ j_sched j = Some sc ∧ f j sc = Some s'.
Proof.
  unfold with_sched, get_job. destruct (st_jobs s !! id) as [j|]; [|done].
  destruct (j_sched j) as [sc|] eqn:Hsc; [|done]. intros H. exists j, sc. done.
Qed.

Lemma abs_iter_begin s id s' : do_iter_begin s id = Some s' → abs s' = abs s.
Proof.
  intros (j & sc & Hj & Hsc & H)%with_sched_live. destruct (sc_phase sc); try done.
  injection H as <-. apply abs_put_sched. by exists j, sc.
Qed.

Lemma abs_visit s id n s' : do_visit s id n = Some s' → abs s' = abs s.
Proof.
  intros (j & sc & Hj & Hsc & H)%with_sched_live.
  assert (Hl : live s id) by (by exists j, sc).
  destruct (sc_phase sc) as [|todo|]; try done. destruct (mem n todo); [|done].
  destruct (stage_status sc n) as [[]|]; try (injection H as <-; by apply abs_put_sched).
  destruct (check_status sc j n) as [ready cancel]. destruct ready.
  - injection H as <-. rewrite abs_put_sched; [apply abs_handle_stage_change|].
    eapply live_abs; [apply abs_handle_stage_change|done].
  - destruct cancel; injection H as <-; by apply abs_put_sched.
Qed.

Lemma abs_run_begin s id n s' : RInv (abs s) → do_run_begin s id n = Some s' → abs s' = abs s.
Proof.
  intros Hinv (j & sc & Hj & Hsc & H)%with_sched_live.
  assert (Hl : live s id) by (by exists j, sc).
  destruct (mem n (sc_entry sc)); [|done]. destruct (sc_ctx sc).
  - injection H as <-. by rewrite abs_stage_end.
  - destruct (match find_task j n with Some t => td_empty (jt_def t) | None => true end).
    + injection H as <-. by rewrite abs_stage_end.
    + injection H as <-. rewrite abs_handle_task_change.
      * by rewrite abs_put_sched.
      * by rewrite abs_put_sched.
      * eapply live_abs; [|exact Hl]. by rewrite abs_put_sched.
Qed.

Lemma abs_run_end s id n o s' : RInv (abs s) → do_run_end s id n o = Some s' → abs s' = abs s.
Proof.
  intros Hinv (j & sc & Hj & Hsc & H)%with_sched_live.
  assert (Hl : live s id) by (by exists j, sc).
  assert (Htc : ∀ o t, abs (handle_task_change (log s o) id n t) = abs s).
  { intros o0 t. etrans; [apply abs_handle_task_change; [exact Hinv|exact Hl]|done]. }
  destruct (mem n (sc_running sc)); [|done].
  destruct o as [|code|].
  - injection H as <-. by rewrite abs_stage_end.
  - destruct (match find_task j n with Some t => td_allow (jt_def t) | None => false end).
    + injection H as <-. rewrite abs_stage_end.
      rewrite abs_handle_task_change; [by rewrite Htc|by rewrite Htc|].
      eapply live_abs; [apply Htc|done].
    + injection H as <-. by rewrite abs_stage_end.
  - destruct (sc_ctx sc); [|done]. injection H as <-. by rewrite abs_stage_end.
Qed.

Lemma abs_cancel_deliver s id s' : do_cancel_deliver s id = Some s' → abs s' = abs s.
Proof.
  unfold do_cancel_deliver, get_job. destruct (st_jobs s !! id) as [j|] eqn:Hj; [|done].
  destruct (j_cancels j) as [|k]; [done|].
  match goal with |- context [upd_job s id ?f] => set (dec := f) end.
  assert (H1 : abs (upd_job s id dec) = abs s).
  { apply abs_upd_same. intros j0. unfold dec. absjob. }
  destruct (j_sched j) as [sc|] eqn:Hsc; intros [= <-]; [|done].
  rewrite abs_log, abs_put_sched; [done|]. eapply live_abs; [exact H1|]. by exists j, sc.
Qed.

(** ** save, restart, shutdown *)
Definition rmids (s : state) : list nat :=
  map fst (List.filter (fun ij => negb (j_removed (snd ij)) && should_remove s (fst ij) (snd ij)) (imap (fun i j => (i, j)) (st_jobs s))).

Lemma map_imap_abs (f : nat → job → job) (g : nat → rjob → rjob) (l : list job) :
  (∀ i j, abs_job (f i j) = g i (abs_job j)) → map abs_job (imap f l) = imap g (map abs_job l).
Proof.
  intros H. apply list_eq. intros i. change (map abs_job) with (fmap (M:=list) abs_job).
  rewrite list_lookup_fmap, !list_lookup_imap, list_lookup_fmap. destruct (l !! i); simpl; [|done]. by rewrite H.
Qed.

Lemma abs_save s : abs (do_save s) = r_save (abs s) (rmids s).
Proof.
  unfold do_save, r_save, abs. simpl. f_equal.
  apply map_imap_abs. intros i j. fold (rmids s). unfold in_ids. destruct (existsb (Nat.eqb i) (rmids s)); [|done].
  unfold remove_job, r_remove. absjob.
Qed.

Definition store_ok (s : state) : Prop := Forall (pjob_ok (st_now s)) (default [] (st_store s)).

Lemma pjob_ok_mono now now' pj : (now <= now')%Z → pjob_ok now pj → pjob_ok now' pj.
Proof. intros Hle [H1 H2]. split; [lia|]. intros t Ht. destruct (H2 t Ht). lia. Qed.

Lemma save_store_ok s : RInv (abs s) → store_ok (do_save s).
Proof.
  intros Hinv. unfold store_ok, do_save. simpl. apply Forall_forall. intros pj Hpj.
  apply elem_of_list_omap in Hpj as ([i j'] & Hin & Hsome). simpl in Hsome. destruct (j_removed j') eqn:Hr; [done|].
  injection Hsome as <-. apply elem_of_lookup_imap in Hin as (i' & j0 & Heq & Hlk). injection Heq as <- <-.
  rewrite list_lookup_imap in Hlk. destruct (st_jobs s !! i) as [j|] eqn:Hj; [|done]. simpl in Hlk. injection Hlk as <-.
  assert (Hj' : rs_jobs (abs s) !! i = Some (abs_job j)) by (by rewrite abs_lookup, Hj).
  assert (Hsame : ∀ b : bool, j_created (if b then remove_job j else j) = j_created j ∧ j_start (if b then remove_job j else j) = j_start j)
    by (by intros []).
  destruct (Hsame (existsb (Nat.eqb i) (map fst (List.filter (fun ij => negb (j_removed ij.2) && should_remove s ij.1 ij.2)
                                                  (imap (fun i j => (i, j)) (st_jobs s)))))) as [Hc Hs].
  split; simpl.
  - rewrite Hc. apply (inv_created _ _ Hinv i (abs_job j) Hj').
  - intros t Ht. rewrite Hs in Ht. rewrite Hc.
    destruct (inv_start _ _ Hinv i (abs_job j) t Hj' Ht) as [H1 H2]. simpl in H1, H2. lia.
Qed.

Lemma from_pjob_terminal now pj : pjob_ok now pj → r_terminal now (abs_job (from_pjob pj)) = true.
Proof.
  intros [Hc Hs]. apply terminal_spec. unfold abs_job, from_pjob, r_is_running, r_is_waiting. simpl.
  destruct (pj_start pj) as [t|] eqn:Hst; simpl.
  - destruct (Hs t eq_refl).
    split; [by destruct (pj_completed pj), (pj_canceled pj)|].
    split; [done|]. split; [done|]. split; [done|]. split; [done|]. split; [done|].
    intros tt [= <-]. lia.
  - rewrite orb_true_r. repeat split; try done.
Qed.

Lemma tombstone_terminal s i j :
  RInv (abs s) → st_jobs s !! i = Some j → r_terminal (st_now s) (abs_job (tombstone j)) = true.
Proof.
  intros Hinv Hj. assert (Hj' : rs_jobs (abs s) !! i = Some (abs_job j)) by (by rewrite abs_lookup, Hj).
  apply terminal_spec. unfold abs_job, tombstone, r_is_running, r_is_waiting. simpl.
  split; [destruct (j_start j); [by rewrite andb_false_r|done]|].
  split; [done|]. split; [by destruct (j_start j)|]. split; [done|].
  split; [apply (inv_created _ _ Hinv i (abs_job j) Hj')|]. split; [done|].
  intros t Ht. apply (inv_start _ _ Hinv i (abs_job j) t Hj' Ht).
Qed.

Lemma abs_restart s s' :
  RInv (abs s) → store_ok s → do_restart s = Some s' → ∃ js, r_restart (abs s) js = Some (abs s').
Proof.
  intros Hinv Hst. unfold do_restart. destruct (st_shutg s); [done|]. destruct (all_quiet s); [|done].
  intros [= <-].
  set (jobs' := imap (fun i j => match find (fun pj => Nat.eqb (pj_id pj) i) (default [] (st_store s)) with
                                | Some pj => from_pjob pj | None => tombstone j end) (st_jobs s)).
  exists (map abs_job jobs'). unfold r_restart. simpl.
  assert (Hall : forallb (r_terminal (st_now s)) (map abs_job jobs') = true).
  { apply forallb_forall. intros rj Hin. apply elem_of_list_In in Hin. change (map abs_job) with (fmap (M:=list) abs_job) in Hin.
    apply elem_of_list_fmap in Hin as (j' & -> & Hin).
    apply elem_of_lookup_imap in Hin as (i & j & -> & Hj).
    destruct (find _ (default [] (st_store s))) as [pj|] eqn:Hf.
    - apply from_pjob_terminal. apply find_some in Hf as [Hin _]. unfold store_ok in Hst. rewrite Forall_forall in Hst.
      apply Hst. by apply elem_of_list_In.
    - by eapply tombstone_terminal. }
  rewrite Hall. done.
Qed.

Lemma abs_shutdown_begin s s' : do_shutdown_begin s = Some s' → abs s' = r_shutdown (abs s).
Proof.
  unfold do_shutdown_begin. destruct (st_shutg s); [done|]. destruct (st_shut s); [done|]. intros [= <-].
  unfold abs, r_shutdown. simpl. f_equal. apply map_imap_abs. intros i j. unfold in_ids. simpl.
  destruct (existsb _ _); [|done]. unfold set_canceled, r_set_canceled. absjob.
Qed.

Lemma abs_cancel_fold l s :
  abs (fold_left (fun s id => (cancel_job s id true).1) l s) = fold_left (fun s id => (r_cancel s id).1) l (abs s).
Proof.
  revert s. induction l as [|id l IH]; intros s; simpl; [done|]. rewrite IH. f_equal.
  pose proof (abs_cancel_request s id) as H. by rewrite <- H.
Qed.

Lemma abs_shutdown_force s s' : do_shutdown_force s = Some s' → abs s' = r_cancel_all (abs s).
Proof.
  unfold do_shutdown_force. destruct (st_shutg s) as [[]|]; try done. destruct (any_running s); [|done]. intros [= <-].
  unfold r_cancel_all. assert (Hl : length (rs_jobs (abs s)) = length (st_jobs s)) by (simpl; apply map_length).
  rewrite Hl, <- abs_cancel_fold. reflexivity.
Qed.

Lemma abs_shutdown_return s s' : do_shutdown_return s = Some s' → abs s' = r_save (abs s) (rmids s).
Proof.
  unfold do_shutdown_return. destruct (st_shutg s) as [f|]; [|done]. destruct (_ && _); [|done]. intros [= <-].
  rewrite <- abs_save. done.
Qed.

(** ** the refinement theorem *)
Theorem refine_step s e s' r :
  RInv (abs s) → store_ok s → step s e = Some (s', r) →
  (abs s' = abs s ∧ r = RNone) ∨ ∃ re, rstep (abs s) re = Some (abs s', r) ∧ (∀ ds, re = RvReload ds → e = EvReload ds) ∧ (∀ js, re = RvRestart js → e = EvRestart)
    ∧ (∀ rm, re = RvSave rm → rm = rmids (clear_req s)) ∧ (re = RvCancelAll → e = EvShutdownForce).
Proof.
  intros Hinv Hst. unfold step.
  assert (Hinv' : RInv (abs (clear_req s))) by done.
  destruct e as [p v u|id|d|id|ds|id|id n|id n|id n o|id n|id|id| | | | | ]; simpl.
  - intros [= Heq]. right. exists (RvSchedule p (graph_ok (new_job (clear_req s) p (default zero_def (lookup_def (st_defs s) p)) v u))
                       (r_snap (abs_job (new_job (clear_req s) p (default zero_def (lookup_def (st_defs s) p)) v u)))).
    split; [|by repeat split]. simpl. rewrite <- (abs_schedule (clear_req s)). simpl. by rewrite Heq.
  - intros [= Heq]. right. exists (RvCancel id). split; [|by repeat split]. simpl. rewrite <- (abs_cancel_request (clear_req s)). by rewrite Heq.
  - intros [= <- <-]. right. exists (RvTick d). split; [done|by repeat split].
  - destruct (do_fire_timer (clear_req s) id) as [s1|] eqn:Hf; simpl; [|done]. intros [= <- <-].
    right. exists (RvFire id). split; [|by repeat split]. simpl. rewrite <- (abs_fire (clear_req s)). by rewrite Hf.
  - intros [= <- <-]. right. exists (RvReload ds). split; [done|]. split; [by intros ds' [= ->]|by repeat split].
  - destruct (do_iter_begin (clear_req s) id) as [s1|] eqn:Hf; simpl; [|done]. intros [= <- <-].
    left. split; [|by repeat split]. by rewrite (abs_iter_begin _ _ _ Hf).
  - destruct (do_visit (clear_req s) id n) as [s1|] eqn:Hf; simpl; [|done]. intros [= <- <-].
    left. split; [|by repeat split]. by rewrite (abs_visit _ _ _ _ Hf).
  - destruct (do_run_begin (clear_req s) id n) as [s1|] eqn:Hf; simpl; [|done]. intros [= <- <-].
    left. split; [|by repeat split]. by rewrite (abs_run_begin _ _ _ _ Hinv' Hf).
  - destruct (do_run_end (clear_req s) id n o) as [s1|] eqn:Hf; simpl; [|done]. intros [= <- <-].
    left. split; [|by repeat split]. by rewrite (abs_run_end _ _ _ _ _ Hinv' Hf).
  - destruct (do_notify (clear_req s) id n) as [s1|] eqn:Hf; simpl; [|done]. intros [= <- <-].
    left. split; [|by repeat split]. by rewrite (abs_notify _ _ _ _ Hf).
  - destruct (do_cancel_deliver (clear_req s) id) as [s1|] eqn:Hf; simpl; [|done]. intros [= <- <-].
    left. split; [|by repeat split]. by rewrite (abs_cancel_deliver _ _ _ Hf).
  - destruct (do_sched_return (clear_req s) id) as [s1|] eqn:Hf; simpl; [|done]. intros [= <- <-].
    right. destruct (abs_sched_return _ _ _ Hf) as [ec Hec]. exists (RvComplete id ec). split; [|by repeat split]. simpl.
    change (abs (clear_req s)) with (abs s) in Hec. by rewrite Hec.
  - intros [= <- <-]. right. exists (RvSave (rmids (clear_req s))). split; [simpl; by rewrite abs_save|]. repeat split; try done. by intros rm [= <-].
  - destruct (do_restart (clear_req s)) as [s1|] eqn:Hf; simpl; [|done]. intros [= <- <-].
    destruct (abs_restart (clear_req s) s1 Hinv' Hst Hf) as [js Hjs]. right. exists (RvRestart js). split; [|by repeat split].
    simpl. change (abs (clear_req s)) with (abs s) in Hjs. by rewrite Hjs.
  - destruct (do_shutdown_begin (clear_req s)) as [s1|] eqn:Hf; simpl; [|done]. intros [= <- <-].
    right. exists RvShutdown. split; [|by repeat split]. simpl. by rewrite (abs_shutdown_begin _ _ Hf).
  - destruct (do_shutdown_force (clear_req s)) as [s1|] eqn:Hf; simpl; [|done]. intros [= <- <-].
    right. exists RvCancelAll. split; [|by repeat split]. simpl. by rewrite (abs_shutdown_force _ _ Hf).
  - destruct (do_shutdown_return (clear_req s)) as [s1|] eqn:Hf; simpl; [|done]. intros [= <- <-].
    right. exists (RvSave (rmids (clear_req s))). split; [simpl; by rewrite (abs_shutdown_return _ _ Hf)|]. repeat split; try done. by intros rm [= <-].
Qed.

(** the store and the clock are touched by very few events *)
Definition keeps (s s' : state) : Prop :=
  st_store s' = st_store s ∧ st_now s' = st_now s ∧ st_shut s' = st_shut s ∧ st_shutg s' = st_shutg s.
Lemma keeps_refl s : keeps s s. Proof. done. Qed.
Lemma keeps_trans s1 s2 s3 : keeps s1 s2 → keeps s2 s3 → keeps s1 s3.
Proof. intros (?&?&?&?) (?&?&?&?). repeat split; congruence. Qed.
Lemma keeps_upd s id f : keeps s (upd_job s id f). Proof. done. Qed.
Lemma keeps_wait s p l : keeps s (set_wait s p l). Proof. done. Qed.
Lemma keeps_log s o : keeps s (log s o). Proof. done. Qed.
Lemma keeps_req s : keeps s (request_persist s). Proof. done. Qed.
Lemma keeps_put s id sc : keeps s (put_sched s id sc). Proof. done. Qed.
Lemma keeps_logdir s id : keeps s (add_log_dir s id). Proof. done. Qed.

Lemma keeps_try_start s id : keeps s (try_start s id).1.
Proof.
  unfold try_start. destruct (find_job s id) as [j|]; [|done]. destruct (j_canceled j); [done|].
  destruct (graph_ok j); done.
Qed.

Lemma keeps_dequeue_loop fuel s p : keeps s (dequeue_loop fuel s p).
Proof.
  revert s. induction fuel as [|x fuel IH]; intros s; simpl; [done|].
  destruct (wl_get (st_wait s) p) as [|h rest]; [done|]. destruct (get_job s h) as [j|]; [|done].
  destruct (_ && _); [|done]. eapply keeps_trans; [|apply IH].
  eapply keeps_trans; [apply (keeps_wait s p rest)|apply keeps_try_start].
Qed.

Lemma keeps_start_job s id p : keeps s (start_job s id p).
Proof.
  unfold start_job. pose proof (keeps_try_start s id) as H. destruct (try_start s id) as [s1 failed]. simpl in H.
  destruct failed; [|done]. eapply keeps_trans; [exact H|apply keeps_dequeue_loop].
Qed.

Lemma keeps_cancel s id b : keeps s (cancel_job s id b).1.
Proof.
  unfold cancel_job. destruct (find_job s id) as [j|]; [|done]. destruct (j_canceled j); [done|].
  destruct (j_completed j); [done|]. destruct (j_start j); simpl.
  - by destruct (j_sched j).
  - eapply keeps_trans; [|apply keeps_req]. eapply keeps_trans; [|apply keeps_dequeue_loop]. done.
Qed.

Lemma keeps_hsc s id n st : keeps s (handle_stage_change s id n st).
Proof. unfold handle_stage_change. destruct (find_job s id) as [j|]; [|done]. by destruct (find_task j n). Qed.

Lemma keeps_htc s id n t : keeps s (handle_task_change s id n t).
Proof.
  unfold handle_task_change. destruct (find_job s id) as [j|]; [|done]. destruct (find_task j n); [|done].
  eapply keeps_trans; [|apply keeps_req].
  match goal with |- keeps s (if ?c then _ else ?s1) => destruct c; [|done] end.
  destruct (lookup_def _ _) as [d|]; [|done]. destruct (pd_continue d); [done|].
  eapply keeps_trans; [|apply keeps_cancel]. done.
Qed.

Lemma keeps_stage_end s id n r : keeps s (stage_end s id n r).
Proof.
  unfold stage_end. destruct (get_job s id) as [j|]; [|done]. destruct (j_sched j) as [sc|]; [|done]. done.
Qed.

Lemma keeps_notify s id n s' : do_notify s id n = Some s' → keeps s s'.
Proof.
  unfold do_notify, with_sched. destruct (get_job s id) as [j|]; [|done]. destruct (j_sched j) as [sc|]; [|done].
  destruct (ending_of sc n) as [[r second]|]; [|done].
  destruct r as [e|]; [destruct second|].
  - intros [= <-]. eapply keeps_trans; [|apply keeps_hsc]. done.
  - destruct (match find_task j n with Some t => td_allow (jt_def t) | None => false end); intros [= <-];
      (eapply keeps_trans; [|apply keeps_put]; apply keeps_hsc).
  - intros [= <-]. eapply keeps_trans; [|apply keeps_hsc]. done.
Qed.


Lemma keeps_fold_cancel l s : keeps s (fold_left (fun s id => (cancel_job s id true).1) l s).
Proof.
  revert s. induction l as [|x l IH]; intros s; simpl; [done|]. eapply keeps_trans; [apply keeps_cancel|apply IH].
Qed.

Lemma keeps_step s e s' r :
  step s e = Some (s', r) →
  match e with
  | EvTick d => st_store s' = st_store s ∧ st_now s' = (st_now s + Z.of_nat d)%Z ∧ st_shut s' = st_shut s ∧ st_shutg s' = st_shutg s
  | EvSave => s' = do_save (clear_req s)
  | EvShutdownReturn => st_store s' = st_store (do_save (clear_req s)) ∧ st_now s' = st_now s ∧ st_shut s' = st_shut s ∧ st_shutg s' = None
  | EvRestart => st_store s' = st_store s ∧ st_now s' = st_now s ∧ st_shut s' = false ∧ st_shutg s' = None ∧ st_shutg s = None
  | EvShutdownBegin => st_store s' = st_store s ∧ st_now s' = st_now s ∧ st_shut s' = true ∧ st_shutg s' = Some false
  | EvShutdownForce => st_store s' = st_store s ∧ st_now s' = st_now s ∧ st_shut s' = st_shut s ∧ st_shutg s' = Some true ∧ st_shutg s = Some false
  | _ => keeps s s'
  end.
Proof.
  unfold step. change (st_store s) with (st_store (clear_req s)). change (st_now s) with (st_now (clear_req s)).
  change (st_shut s) with (st_shut (clear_req s)). change (st_shutg s) with (st_shutg (clear_req s)).
  assert (Hk : keeps s (clear_req s)) by done. generalize dependent (clear_req s). intros s0 Hk.
  assert (Hfin : ∀ s1, keeps s0 s1 → keeps s s1) by (intros s1; by apply keeps_trans).
  destruct e as [p v u|id|d|id|ds|id|id n|id n|id n o|id n|id|id| | | | | ]; simpl.
  - intros [= Heq]. replace s' with (do_schedule s0 p v u).1 by (by rewrite Heq). apply Hfin.
    unfold do_schedule. destruct (st_shut _); [done|]. destruct (lookup_def _ _) as [d|]; [|done].
    destruct (resolve_action _ _ _); try done; cbn [fst].
    + eapply keeps_trans; [|apply keeps_start_job]. done.
    + destruct (last _); done.
  - intros [= Heq]. replace s' with (cancel_job s0 id true).1 by (by rewrite Heq). apply Hfin, keeps_cancel.
  - by intros [= <- _].
  - unfold do_fire_timer. destruct (get_job _ id) as [j|]; [|done]. destruct (timer_due _ j); [|done].
    destruct (find_job _ id); simpl.
    + destruct (j_canceled j); simpl; intros [= <- _]; apply Hfin; [done|]. eapply keeps_trans; [|apply keeps_dequeue_loop]. done.
    + intros [= <- _]. by apply Hfin.
  - intros [= <- _]. by apply Hfin.
  - unfold do_iter_begin, with_sched. destruct (get_job _ id) as [j|]; [|done]. destruct (j_sched j) as [sc|]; [|done].
    destruct (sc_phase sc); try done. simpl. intros [= <- _]. by apply Hfin.
  - unfold do_visit, with_sched. destruct (get_job _ id) as [j|]; [|done]. destruct (j_sched j) as [sc|]; [|done].
    destruct (sc_phase sc) as [|todo|]; try done. destruct (mem n todo); [|done].
    destruct (stage_status sc n) as [[]|]; simpl; try (intros [= <- _]; by apply Hfin).
    destruct (check_status sc j n) as [[] []]; simpl; intros [= <- _]; apply Hfin; try done.
    all: eapply keeps_trans; [|apply keeps_put]; apply keeps_hsc.
  - unfold do_run_begin, with_sched. destruct (get_job _ id) as [j|]; [|done]. destruct (j_sched j) as [sc|]; [|done].
    destruct (mem n (sc_entry sc)); [|done]. destruct (sc_ctx sc); simpl.
    + intros [= <- _]. apply Hfin. eapply keeps_trans; [|apply keeps_stage_end]. done.
    + destruct (match find_task j n with Some t => td_empty (jt_def t) | None => true end); simpl; intros [= <- _]; apply Hfin.
      * eapply keeps_trans; [|apply keeps_stage_end]. done.
      * eapply keeps_trans; [|apply keeps_htc]. done.
  - unfold do_run_end, with_sched. destruct (get_job _ id) as [j|]; [|done]. destruct (j_sched j) as [sc|]; [|done].
    destruct (mem n (sc_running sc)); [|done]. destruct o as [|code|]; simpl.
    + intros [= <- _]. apply Hfin. eapply keeps_trans; [|apply keeps_stage_end]. eapply keeps_trans; [|apply keeps_htc]. done.
    + destruct (match find_task j n with Some t => td_allow (jt_def t) | None => false end); simpl; intros [= <- _]; apply Hfin.
      * eapply keeps_trans; [|apply keeps_stage_end]. eapply keeps_trans; [|apply keeps_htc]. eapply keeps_trans; [|apply keeps_htc]. done.
      * eapply keeps_trans; [|apply keeps_stage_end]. eapply keeps_trans; [|apply keeps_htc]. done.
    + destruct (sc_ctx sc); [|done]. simpl. intros [= <- _]. apply Hfin.
      eapply keeps_trans; [|apply keeps_stage_end]. eapply keeps_trans; [|apply keeps_htc]. done.
  - destruct (do_notify s0 id n) as [s1|] eqn:Hn; [|done]. simpl. intros [= <- _]. apply Hfin. by eapply keeps_notify.
  - unfold do_cancel_deliver. destruct (get_job _ id) as [j|]; [|done]. destruct (j_cancels j); [done|].
    destruct (j_sched j); simpl; intros [= <- _]; by apply Hfin.
  - unfold do_sched_return, with_sched. destruct (get_job _ id) as [j|]; [|done]. destruct (j_sched j) as [sc|]; [|done].
    destruct (sc_phase sc); try done. destruct (sc_entry sc); try done. destruct (sc_running sc); try done. destruct (sc_ending sc); try done.
    destruct (j_removed j); simpl; intros [= <- _]; apply Hfin; [done|].
    eapply keeps_trans; [|apply keeps_req]. eapply keeps_trans; [|apply keeps_dequeue_loop]. done.
  - by intros [= <- _].
  - unfold do_restart. destruct (st_shutg _) eqn:Hg; [done|]. destruct (all_quiet _); [|done]. simpl. intros [= <- _]. done.
  - unfold do_shutdown_begin. destruct (st_shutg _); [done|]. destruct (st_shut _); [done|]. simpl. intros [= <- _]. done.
  - unfold do_shutdown_force. destruct (st_shutg _) as [[]|]; try done. destruct (any_running _); [|done]. simpl. intros [= <- _].
    destruct (keeps_fold_cancel (seq 0 (length (st_jobs s0))) s0) as (H1 & H2 & H3 & H4). repeat split; simpl; done.
  - unfold do_shutdown_return. destruct (st_shutg _); [|done]. destruct (_ && _); [|done]. simpl. intros [= <- _].
    repeat split; done.
Qed.

(** the store stays consistent with the clock *)
Lemma store_ok_step s e s' r : RInv (abs s) → store_ok s → step s e = Some (s', r) → store_ok s'.
Proof.
  intros Hinv Hst Hs. pose proof (keeps_step s e s' r Hs) as Hk.
  assert (Hkeep : st_store s' = st_store s → st_now s' = st_now s → store_ok s') by (intros H1 H2; unfold store_ok; by rewrite H1, H2).
  destruct e; try (destruct Hk as (H1 & H2 & _); by apply Hkeep).
  - destruct Hk as (H1 & H2 & _). unfold store_ok in *. rewrite H1, H2. eapply Forall_impl; [exact Hst|].
    intros pj. apply pjob_ok_mono. lia.
  - subst s'. by apply save_store_ok.
  - destruct Hk as (H1 & H2 & _). unfold store_ok. rewrite H1, H2.
    pose proof (save_store_ok (clear_req s) Hinv) as H. unfold store_ok in H. done.
Qed.

(** while a Shutdown call is in progress the runner is shutting down *)
Definition shutg_ok (s : state) : Prop := is_Some (st_shutg s) → st_shut s = true.

Lemma shutg_ok_step s e s' r : shutg_ok s → step s e = Some (s', r) → shutg_ok s'.
Proof.
  intros Hok Hs. pose proof (keeps_step s e s' r Hs) as Hk. unfold shutg_ok in *.
  destruct e; try (destruct Hk as (_ & _ & -> & ->); done).
  - subst s'. done.
  - destruct Hk as (_ & _ & _ & -> & _). by intros [? ?].
  - destruct Hk as (_ & _ & -> & _ & Hg). intros _. apply Hok. by rewrite Hg.
  - destruct Hk as (_ & _ & _ & ->). by intros [? ?].
Qed.

Definition SInv (s : state) : Prop := RInv (abs s) ∧ store_ok s ∧ shutg_ok s.

Theorem reach_sinv s : reach s → SInv s ∧ rreach (abs s).
Proof.
  induction 1 as [ds|ds pjs Hok|s e s' r Hr [(Hinv & Hst & Hg) Hrr] Hs].
  - split; [split; [apply init_inv|split; [by constructor|by intros [? ?]]]|apply rreach_init].
  - assert (Hterm : forallb (r_terminal 0) (map abs_job (map from_pjob pjs)) = true).
    { apply forallb_forall. intros rj Hin. apply elem_of_list_In in Hin. rewrite map_map in Hin.
      change (map (fun x => abs_job (from_pjob x))) with (fmap (M:=list) (fun x => abs_job (from_pjob x))) in Hin.
      apply elem_of_list_fmap in Hin as (pj & -> & Hin). apply from_pjob_terminal.
      rewrite Forall_forall in Hok. by apply Hok. }
    split; [split; [|split]|].
    + by apply terminal_inv.
    + done.
    + by intros [? ?].
    + by apply rreach_init_from.
  - split; [split; [|split]|].
    + destruct (refine_step s e s' r Hinv Hst Hs) as [[-> _]|(re & Hre & _)]; [done|]. by eapply rstep_inv.
    + by eapply store_ok_step.
    + by eapply shutg_ok_step.
    + destruct (refine_step s e s' r Hinv Hst Hs) as [[-> _]|(re & Hre & _)]; [done|]. by eapply rreach_step.
Qed.

Theorem reach_refines s : reach s → rreach (abs s).
Proof. intros H. by apply reach_sinv. Qed.

Corollary reach_inv s : reach s → RInv (abs s).
Proof. intros H. by apply reach_sinv. Qed.

Corollary reach_store_ok s : reach s → store_ok s.
Proof. intros H. by apply reach_sinv. Qed.

Corollary reach_shutg_ok s : reach s → shutg_ok s.
Proof. intros H. by apply reach_sinv. Qed.

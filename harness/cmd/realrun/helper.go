package main

import (
	"fmt"
	"os"
	"strconv"

	"verifharness/hutil"
)

// Chunk is one write of a command to one of its output streams
type Chunk struct {
	Stream int    // 1 stdout, 2 stderr
	Data   []byte `json:"-"`
}

// genChunks is the deterministic output of `helper out <seed> <n> <max> <flavour>`
// flavours: text (printable lines, partial last line), bin (all byte values), big (few large chunks)
func genChunks(seed uint64, n, max int, flavour string) []Chunk {
	r := hutil.NewRng(seed)
	var cs []Chunk
	for i := 0; i < n; i++ {
		c := Chunk{Stream: 1 + r.Intn(2)}
		l := 0
		if max > 0 {
			l = r.Intn(max + 1)
		}
		if flavour == "big" {
			l = max/2 + r.Intn(max/2+1)
		}
		c.Data = make([]byte, l)
		for k := range c.Data {
			switch flavour {
			case "bin":
				c.Data[k] = byte(r.Intn(256))
			case "big":
				c.Data[k] = byte('a' + (k+int(seed)+i)%26)
				if k%97 == 96 {
					c.Data[k] = '\n'
				}
			default:
				x := r.Intn(40)
				switch {
				case x == 0:
					c.Data[k] = '\n'
				case x == 1:
					c.Data[k] = ' '
				case x == 2:
					c.Data[k] = '\t'
				default:
					c.Data[k] = byte(33 + r.Intn(94))
				}
			}
		}
		cs = append(cs, c)
	}
	return cs
}

func helperMain(args []string) {
	if len(args) == 0 {
		os.Exit(2)
	}
	switch args[0] {
	case "out":
		seed, _ := strconv.ParseUint(args[1], 10, 64)
		n, _ := strconv.Atoi(args[2])
		max, _ := strconv.Atoi(args[3])
		for _, c := range genChunks(seed, n, max, args[4]) {
			f := os.Stdout
			if c.Stream == 2 {
				f = os.Stderr
			}
			if _, err := f.Write(c.Data); err != nil {
				os.Exit(3)
			}
		}
		if len(args) > 5 {
			code, _ := strconv.Atoi(args[5])
			os.Exit(code)
		}
	default:
		fmt.Fprintln(os.Stderr, "unknown helper")
		os.Exit(2)
	}
}

(** * C20 — Canceling a job leaves no process of its tasks behind
    PARTIAL: kernel semantics of signals and process groups are assumptions of the model (SIGKILL cannot be ignored;
    children stay in their parent's group — setsid/setpgid escapes are excluded by the property; a group signal is atomic
    with respect to fork). The report step of the model requires every command's handler to have returned: true of the
    code since repair D12 (background commands of the interpreter are waited for after a cancel). KNOWN FINDING (C20_earlier_line_refuted): what a script line that has already returned left
    running is only guaranteed dead by the kill timeout, not at the report. *)
From stdpp Require Import list.
From PV Require Import Proc proofs.ProcProps.

(** for every process tree, every sequence of forks, voluntary exits, command starts and returns, and every instant of the
    cancel: once the kill timeout has passed no process of any command of the task is alive *)
Theorem C20_dead_by_timeout : ∀ es s,
  run init es = Some s → timed_out s = true → ∀ gr, gr ∈ groups s → all_dead (g_procs gr) = true.
Proof. exact dead_by_timeout. Qed.

(** ... and when the job is reported finished, every command that was running when the context ended has returned and
    no process of its group is alive — leader, children, grandchildren, whether or not they ignore the interrupt or hold
    the output pipes *)
Theorem C20_dead_at_report : ∀ es s,
  run init es = Some s → reported s = true → ∀ gr, gr ∈ groups s → g_running_at_cancel gr = true → all_dead (g_procs gr) = true.
Proof. exact dead_at_report. Qed.

(** the report cannot be later than the kill timeout: after it every handler is able to return *)
Theorem C20_report_by_timeout : ∀ es s,
  run init es = Some s → timed_out s = true → ∀ g gr, groups s !! g = Some gr → g_returned gr = false → is_Some (step s (EWaitReturn g)).
Proof. exact report_enabled_after_timeout. Qed.

(** a runner configured with a kill timeout <= 0 gives no grace period: from the cancel on nothing of the task is alive *)
Theorem C20_immediate : ∀ es s,
  run_immediate init es = Some s → canceled s = true → ∀ gr, gr ∈ groups s → all_dead (g_procs gr) = true.
Proof. exact immediate_dead_after_cancel. Qed.

(** processes of other tasks and jobs are untouched *)
Theorem C20_others_untouched : ∀ ss i e ss' j, sys_step ss i e = Some ss' → j ≠ i → ss' !! j = ss !! j.
Proof. exact other_tasks_untouched. Qed.

(** the handler without the repair (defect D9) violates the second theorem; the repaired one does not on that trace *)
Theorem C20_unrepaired_refuted :
  ∃ s gr, run_unrepaired init d9_trace = Some s ∧ reported s = true ∧ gr ∈ groups s ∧ g_running_at_cancel gr = true ∧ all_dead (g_procs gr) = false.
Proof. exact d9_refuted. Qed.
Theorem C20_repaired_on_d9 : ∃ s, run init d9_trace = Some s ∧ reported s = true ∧ Forall (fun gr => all_dead (g_procs gr) = true) (groups s).
Proof. exact d9_repaired. Qed.

(** KNOWN FINDING: the full statement ("no process started by its tasks is alive at the report") is false of the model
    and of the code for what an already returned script line left behind *)
Theorem C20_earlier_line_refuted :
  ∃ s gr, run init earlier_line_trace = Some s ∧ reported s = true ∧ gr ∈ groups s ∧ all_dead (g_procs gr) = false.
Proof. exact earlier_line_refuted. Qed.

Print Assumptions C20_dead_by_timeout.
Print Assumptions C20_dead_at_report.
Print Assumptions C20_report_by_timeout.
Print Assumptions C20_immediate.
Print Assumptions C20_others_untouched.
Print Assumptions C20_unrepaired_refuted.
Print Assumptions C20_repaired_on_d9.
Print Assumptions C20_earlier_line_refuted.

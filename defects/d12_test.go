package taskctl

// Demonstration of defect D12 (see /verif/DESIGN.md section 5). Copy into /repo/taskctl as zz_defects_test.go.
// A command started in the background by the interpreter itself ("cmd & ...; wait"): after a cancel the interpreter skips
// the wait and returns, so Run returned - the job was reported finished - while the background command (here one that
// ignores the interrupt) was still alive until the kill timeout.

import (
	"bytes"
	"fmt"
	"os"
	"strconv"
	"testing"
	"time"

	"github.com/stretchr/testify/require"
	"github.com/taskctl/taskctl/pkg/task"
	"github.com/taskctl/taskctl/pkg/variables"
)

func defect12ProcsWithMark(mark string) []int {
	needle := []byte("VERIF_MARK=" + mark + "\x00")
	ents, _ := os.ReadDir("/proc")
	var pids []int
	for _, e := range ents {
		pid, err := strconv.Atoi(e.Name())
		if err != nil {
			continue
		}
		b, _ := os.ReadFile("/proc/" + e.Name() + "/environ")
		if bytes.Contains(append(b, 0), needle) {
			st, _ := os.ReadFile("/proc/" + e.Name() + "/stat")
			if i := bytes.LastIndexByte(st, ')'); i >= 0 && i+2 < len(st) && st[i+2] == 'Z' {
				continue
			}
			pids = append(pids, pid)
		}
	}
	return pids
}

func TestDefectD12_BackgroundCommandOfTheInterpreterDoesNotOutliveACanceledRun(t *testing.T) {
	mark := fmt.Sprintf("d12_%d", os.Getpid())
	r, err := NewTaskRunner(nil, WithKillTimeout(300*time.Millisecond))
	require.NoError(t, err)
	r.Stdout, r.Stderr = os.Stderr, os.Stderr
	tk := task.FromCommands("export VERIF_MARK=" + mark + "; bash -c 'trap \"\" INT; sleep 300' & sleep 300; wait")
	tk.Name = "t"
	tk.Variables = variables.FromMap(map[string]string{JobIDVariableName: "job"})
	done := make(chan error, 1)
	go func() { done <- r.Run(tk) }()
	for i := 0; i < 1000 && len(defect12ProcsWithMark(mark)) < 2; i++ {
		time.Sleep(5 * time.Millisecond)
	}
	require.GreaterOrEqual(t, len(defect12ProcsWithMark(mark)), 2, "the background command and the foreground sleep are running")

	r.Cancel() // returns when all runs have returned: from here on the job is reported finished
	<-done
	time.Sleep(100 * time.Millisecond) // scheduling latency for a killed process to be gone
	left := defect12ProcsWithMark(mark)
	for _, p := range left {
		defer func(p int) { _ = (&os.Process{Pid: p}).Kill() }(p)
	}
	require.Empty(t, left, "processes of the canceled task still alive after the run was reported finished")
}

#!/bin/bash
# usage: seedtest.sh <seed-dir-name | path-to-patch> <property-id> [tier] — apply a change to /repo, run the check, undo the change
s=$1; prop=$2; tier=${3:-quick}
patch=$s; [ -f "$patch" ] || patch=/verif/seeded/$s/patch.diff
git -C /repo apply $patch || exit 2
cd /verif && ./check $prop --tier $tier > work/seedtest-$$.log 2>&1; rc=$?
git -C /repo checkout -- . ; git -C /repo status --short | head -3
echo "== $s vs $prop: rc=$rc"; grep -E "VIOLATION|KNOWN" work/seedtest-$$.log | head -4; rm -f work/seedtest-$$.log

#!/usr/bin/env python3
import json, glob, sys
import jsonschema
ok = True
jsonschema.validate(json.load(open('/verif/MANIFEST.json')), json.load(open('/root/.vp/MANIFEST.schema.json')))
es = json.load(open('/root/.vp/EVIDENCE.schema.json'))
for f in sorted(glob.glob('/verif/evidence/*.json')):
    try:
        jsonschema.validate(json.load(open(f)), es)
    except Exception as e:
        ok = False
        print(f, 'INVALID', str(e)[:300])
man = json.load(open('/verif/MANIFEST.json'))
ids = {c['property_id'] for c in man['checks']} | {n['property_id'] for n in man.get('not_applicable', [])}
print('manifest ok; claimed', len(man['checks']), 'not_applicable', len(man.get('not_applicable', [])), 'total', len(ids), 'evidence ok' if ok else 'EVIDENCE INVALID')

(** Correspondence for C20: the signal-related system calls of the real exec handler (strace) against the protocol of Proc.v:
    own group per command, SIGINT to every group when the context ends, SIGKILL to the group of a command that returns
    after the context ended (before the report), SIGKILL to every group at the kill timeout, no other signals. *)
From stdpp Require Import list.
From Coq Require Import ZArith.
Local Open Scope Z_scope.

Inductive sop :=
  | SSpawn (p : Z)                     (* a child of the runner made itself a group leader: setpgid(0, 0) *)
  | SLeaderGone (p : Z)                (* that process exited / was killed *)
  | SKillGroup (p : Z) (kill9 : bool)  (* the runner called kill(-p, SIGINT | SIGKILL) *)
  | SKillOther (target sig : Z)        (* any other kill by the runner *)
  | SCancel | SReport | SEnd.          (* markers of the harness: cancel requested, run reported finished, timeout + slack elapsed *)

Record cst := CSt { c_phase : nat; c_spawned : list Z; c_gone_early : list Z; c_int : list Z; c_kill_mid : list Z; c_kill_any : list Z; c_bad : list nat }.

Definition mem (x : Z) (l : list Z) : bool := existsb (Z.eqb x) l.

(** [immediate]: the runner was configured with a kill timeout <= 0, which means SIGKILL at once, no SIGINT *)
Definition cstep (immediate : bool) (c : cst) (o : sop) : cst :=
  let '(CSt ph sp ge it km ka bad) := c in
  match o with
  | SSpawn p => CSt ph (p :: sp) ge it km ka (if Nat.eqb ph 0 then bad else 7%nat :: bad)
  | SLeaderGone p => if Nat.eqb ph 0 && mem p sp then CSt ph sp (p :: ge) it km ka bad else c
  | SKillGroup p k9 =>
      let bad1 := if mem p sp then bad else 1%nat :: bad in                       (* 1: signal to a group the task did not start *)
      let bad2 := if Nat.eqb ph 0 then 2%nat :: bad1 else bad1 in                  (* 2: signal before any cancel *)
      let bad3 := if k9 && negb (mem p it) && negb immediate then 6%nat :: bad2 else bad2 in          (* 6: SIGKILL without a preceding SIGINT *)
      if k9 then CSt ph sp ge it (if Nat.eqb ph 1 then p :: km else km) (p :: ka) bad3
      else CSt ph sp ge (p :: it) km ka bad3
  | SKillOther t sg => CSt ph sp ge it km ka (3%nat :: bad)                        (* 3: a signal to something that is not one of the task's groups *)
  | SCancel => CSt 1 sp ge it km ka bad
  | SReport => CSt 2 sp ge it km ka bad
  | SEnd => CSt 3 sp ge it km ka bad
  end.

(** codes of the violated protocol rules (empty = conforms) *)
Definition conforms (immediate : bool) (ops : list sop) : list nat :=
  let c := fold_left (cstep immediate) ops (CSt 0 [] [] [] [] [] []) in
  c_bad c
  ++ (if immediate || forallb (fun p => mem p (c_int c)) (c_spawned c) then [] else [4%nat])                                   (* 4: a group got no SIGINT *)
  ++ (if forallb (fun p => mem p (c_gone_early c) || mem p (c_kill_mid c)) (c_spawned c) then [] else [5%nat])   (* 5: a command running at the cancel returned without its group being killed before the report *)
  ++ (if forallb (fun p => mem p (c_kill_any c)) (c_spawned c) then [] else [8%nat])                              (* 8: a group got no SIGKILL by the timeout *)
  ++ (if Nat.eqb (c_phase c) 3 then [] else [9%nat]).                                                            (* 9: incomplete trace *)

Definition conforms_all (cs : list (nat * bool * list sop)) : list (nat * list nat) :=
  List.filter (fun r => negb (bool_decide (r.2 = []))) (map (fun c => (c.1.1, conforms c.1.2 c.2)) cs).

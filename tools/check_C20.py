#!/usr/bin/env python3
"""C20 — canceling a job leaves no process of its tasks behind. Proof: coq/Properties/C20.v over Proc.v.
Tie to taskctl/executor_unix.go, executor.go, runner.go, prunner.go: (1) the signal system calls of the real exec handler under
strace -f are translated and checked in Coq against the protocol of Proc.v (own group per command; SIGINT to every group at the
cancel; SIGKILL to the group of a command that returns after the cancel, before the report; SIGKILL to every group at the kill
timeout; nothing else is signalled); (2) behavioural runs of the real CLI application: generated process trees (nesting, background
jobs, pipelines, subshells, interrupt-ignoring children, redirected descriptors, separate bash processes), cancel at settled and
early instants; survivors (marker in the inherited environment, /proc scan) at the report and after the timeout; a bystander job
must stay complete."""
import json
import os
import re
import subprocess
import sys

sys.path.insert(0, os.path.dirname(os.path.abspath(__file__)))
from reallib import *  # noqa

HEADER = "From stdpp Require Import list.\nFrom Coq Require Import ZArith.\nFrom PV Require Import Corr.ProcCorr.\nLocal Open Scope Z_scope.\n"
MARK = {999999001: "SCancel", 999999002: "SReport", 999999003: "SEnd"}
RULES = {1: "signal to a group the task did not start", 2: "signal before any cancel", 3: "signal to something that is not one of the task's process groups",
         4: "a group got no SIGINT after the cancel", 5: "a command running at the cancel returned without its group being killed before the report",
         6: "SIGKILL without a preceding SIGINT", 7: "a command was started after the cancel", 8: "a group got no SIGKILL by the kill timeout", 9: "incomplete trace"}

# (script lines, kill timeout in ms or None for the default 2 s)
ZERO_SCRIPTS = [
    (["bash -c 'trap \"\" INT; sleep 300'"], 0),
    (["bash -c 'sleep 300 >/dev/null 2>&1 </dev/null & wait'"], 0),
    (["( trap '' INT; sleep 300 ) | cat"], 0),
    (["bash -c 'trap \"\" INT; sleep 300 & wait'"], 400),
]

TRACE_SCRIPTS = [
    ["sleep 300"],
    ["bash -c 'sleep 300 >/dev/null 2>&1 </dev/null & wait'"],
    ["bash -c 'trap \"\" INT; sleep 300'"],
    ["sleep 300 | cat"],
    ["sleep 300 & sleep 300; wait"],
    ["bash -c 'sleep 300 >/dev/null 2>&1 </dev/null &'", "sleep 300"],
    ["bash -c '( trap \"\" INT; sleep 300 ) | ( sleep 300 & sleep 300 >/dev/null 2>&1 & wait )'"],
    ["echo first", "bash -c '{ sleep 300 & sleep 300 & wait; }'"],
]


def parse_strace(path):
    ops, raw, spawned = [], [], set()
    for line in open(path, errors="replace"):
        m = re.match(r"^(\d+)<([^>]*)>\s+(.*)$", line)
        if not m:
            continue
        pid, comm, rest = int(m.group(1)), m.group(2), m.group(3)
        if rest.startswith("setpgid(0, 0") and comm == "realrun":
            spawned.add(pid)
            ops.append("SSpawn %d" % pid)
            raw.append(line.strip())
        elif rest.startswith("+++") and pid in spawned:
            ops.append("SLeaderGone %d" % pid)
            raw.append(line.strip())
        else:
            k = re.match(r"kill\((-?\d+), (\w+)", rest)
            if k and comm == "realrun":
                t, sig = int(k.group(1)), k.group(2)
                raw.append(line.strip())
                if t in MARK:
                    ops.append(MARK[t])
                elif t < 0 and sig in ("SIGINT", "SIGKILL"):
                    ops.append("SKillGroup %d %s" % (-t, "true" if sig == "SIGKILL" else "false"))
                else:
                    ops.append("SKillOther (%d) 0" % t)
    return ops, raw


def strace_traces(ctx, bins, scripts):
    """scripts: list of (lines, kill_timeout_ms or None)"""
    procs = []
    for i, (lines, kt) in enumerate(scripts):
        out = os.path.join(ctx.run, "strace-%d.txt" % i)
        res = os.path.join(ctx.run, "child-%d.jsonl" % i)
        mark = "tr%d_%d" % (os.getpid(), i)
        env = dict(os.environ, REALRUN_MARK=mark)
        orig = lines
        lines = ["export VERIF_MARK=%s; %s" % (mark, l) for l in lines]
        if kt is not None:
            env["REALRUN_KT_MS"] = str(kt)
        cmd = ["strace", "-f", "-Y", "-e", "trace=kill,setpgid,exit_group", "-o", out, bins["realrun"], "-mode", "procchild", "-n", "350", "-out", res] + lines
        procs.append((i, orig, kt, out, res, subprocess.Popen(cmd, cwd=ctx.run, env=env, stdout=subprocess.DEVNULL, stderr=subprocess.DEVNULL)))
    out_all = []
    for i, lines, kt, out, res, p in procs:
        try:
            p.wait(timeout=120)
        except subprocess.TimeoutExpired:
            p.kill()
        ops, raw = parse_strace(out) if os.path.exists(out) else ([], [])
        child = {}
        if os.path.exists(res):
            for l in open(res):
                child = json.loads(l)
        out_all.append({"id": i, "script": lines, "kill_timeout_ms": kt, "ops": ops, "raw": raw, "child": child})
    return out_all


def child_bad(t):
    """the property on one traced run (independent of the protocol): nothing alive after the report, report within kill timeout + latency"""
    c = t.get("child") or {}
    if not c:
        return "the traced run produced no result"
    kt = 2000 if t["kill_timeout_ms"] is None else t["kill_timeout_ms"]
    if c.get("alive_after_timeout", 0) > 0:
        return "%d process(es) alive after kill timeout + 300 ms" % c["alive_after_timeout"]
    if c.get("report_ms", 0) > kt + 1000:
        return "run reported finished %d ms after the cancel, kill timeout %d ms" % (c["report_ms"], kt)
    if c.get("alive_100ms_after_report", 0) > 0 and len(t["script"]) == 1:
        return "%d process(es) alive 100 ms after the run was reported finished" % c["alive_100ms_after_report"]
    return ""


def conforms_in_coq(ctx, traces):
    terms = ["(%d%%nat, %s, [%s])" % (t["id"], "true" if (t["kill_timeout_ms"] is not None and t["kill_timeout_ms"] <= 0) else "false", "; ".join(t["ops"])) for t in traces]
    src = HEADER + "Definition cases : list (nat * bool * list sop) := [\n" + ";\n".join(terms) + "\n].\nDefinition bad := Eval vm_compute in conforms_all cases.\nPrint bad.\n"
    path = os.path.join(ctx.run, "proc_traces.v")
    open(path, "w").write(src)
    rc, out = sh(["timeout", "600", "coqc", "-Q", COQ, "PV", "-w", "none", path], cwd=ctx.run)
    if rc != 0:
        ctx.log("coqc failed on proc traces:", out[-2000:])
        return None
    m = re.search(r"bad\s*=\s*(.*?)\s*:\s*list", out, re.S)
    body = m.group(1) if m else ""
    res = {}
    for mm in re.finditer(r"\((\d+)(?:%nat)?,\s*\[([^\]]*)\]\)", body):
        res[int(mm.group(1))] = [int(x) for x in re.findall(r"\d+", mm.group(2))]
    if body.strip() not in ("[]", "") and not res:
        ctx.log("cannot parse conforms_all output:", body[:500])
        return None
    return res


def proc_runs(ctx, bins, runs):
    procs = []
    for seed, n in runs:
        out = os.path.join(ctx.run, "real-proc-%d.jsonl" % seed)
        cmd = "%s -mode proc -seed %d -n %d -out %s 2> %s.stderr" % (bins["realrun"], seed, n, out, out)
        procs.append((seed, n, out, subprocess.Popen(cmd, shell=True, cwd=ctx.run)))
    allr = []
    for seed, n, out, p in procs:
        try:
            p.wait(timeout=3000)
        except subprocess.TimeoutExpired:
            p.kill()
        if p.returncode != 0 or not os.path.exists(out):
            ctx.log("realrun proc failed for seed", seed)
            return None
        for l in open(out):
            r = json.loads(l)
            r["seed"], r["n"] = seed, n
            allr.append(r)
    return allr


def count_nodes(t):
    return 1 + sum(count_nodes(c) for c in t.get("children") or [])


def main():
    ctx = Ctx("C20", sys.argv[1:])
    proof_ok = proof_evidence(ctx, extra_files=["Corr/ProcCorr.v"])
    bins = build_harness(ctx, ["realrun"])
    if bins is None:
        violation(ctx, {"what": "harness does not build against the repository working tree", "broken": "correspondence realrun"}, found_input=False)
        finish(ctx)
    known = {k["key"] for k in known_findings() if k["property"] == "C20"}
    if ctx.replay:
        rp = json.load(open(ctx.replay if os.path.isabs(ctx.replay) else os.path.join(VERIF, ctx.replay)))
        if rp.get("mode") == "procchild":
            tr = strace_traces(ctx, bins, [(rp["script"], rp.get("kill_timeout_ms"))])
            why = child_bad(tr[0])
            ctx.log("replay:", why, tr[0]["child"])
            if why:
                violation(ctx, rp)
            finish(ctx)
        if "seed" not in rp or "n" not in rp or "round" not in rp:
            ctx.log("replay: this replay file names a broken theorem / correspondence, not an input")
            finish(ctx)
        recs = proc_runs(ctx, bins, [(rp["seed"], rp["n"])]) or []
        bad = [r for r in recs if r.get("kind") == "proc" and r.get("round") == rp.get("round") and (not r.get("ok") or (r.get("finding") and r["finding"] not in known))]
        ctx.log("replay:", json.dumps(bad[:1])[:600])
        if bad:
            violation(ctx, rp)
        finish(ctx)
    q = ctx.tier == "quick"
    runs = [(ctx.seed + k, 9 if q else 60) for k in range(4 if q else 12)]
    recs = proc_runs(ctx, bins, runs)
    traces = strace_traces(ctx, bins, [(l, None) for l in TRACE_SCRIPTS] + ZERO_SCRIPTS)
    if recs is None:
        violation(ctx, {"what": "realrun did not complete", "broken": "correspondence realrun proc"}, found_input=False)
        finish(ctx)
    conf = conforms_in_coq(ctx, traces)
    procs = [r for r in recs if r["kind"] == "proc"]
    bad = [r for r in recs if not r.get("ok", True)]
    findings = [r for r in procs if r.get("finding") and r.get("ok")]
    shapes = {}
    for r in procs:
        k = "%s/%s" % (r["pipeline"], "early" if r.get("early") else "settled")
        shapes[k] = shapes.get(k, 0) + 1
    rep = sorted(r.get("report_ms", 0) for r in procs)
    ctx.coverage.update({
        "evaluations": len(procs) + len(traces),
        "distinct_nontrivial": len({r.get("script") for r in procs}),
        "rule": "process trees generated to depth 1-3 (sleep leaves, background groups with/without wait, pipelines, subshells, sequences, trap '' INT at any node, "
                "children redirected away from the output pipes, separate bash processes, a top-level shell that traps the interrupt and exits normally), run below bash, below the "
                "interpreter (with its own background command and pipeline, or as a background command followed by a last command that exits by itself on the interrupt), "
                "in a two-task job, and behind an earlier script line that left a process; cancel after the tree settled or 0-60 ms after the first process; "
                "survivors scanned at the report, 100 ms later and after timeout + 300 ms; bystander job's processes counted",
        "runs": len(procs), "pipelines": shapes, "tree_nodes_max": max([count_nodes(r["tree"]) for r in procs] or [0]),
        "processes_before_cancel_max": max([r.get("procs_before", 0) for r in procs] or [0]),
        "report_ms_median": rep[len(rep) // 2] if rep else None, "report_ms_max": rep[-1] if rep else None,
        "strace_traces": len(traces), "traced_runs_with_configured_kill_timeout": len(ZERO_SCRIPTS), "strace_ops": sum(len(t["ops"]) for t in traces), "strace_nonconforming": conf,
        "strace_sample": traces[1]["raw"][:12] if len(traces) > 1 else [],
        "known_finding_occurrences": len(findings),
        "samples": [{k: v for k, v in r.items() if k != "tree"} for r in procs[:2]],
        "traces_validated_against_impl": len(traces),
    })
    ctx.assumptions = ["kernel semantics of signals and process groups (SIGKILL cannot be ignored; children inherit the group; group signals are atomic w.r.t. fork)",
                       "processes that leave their group (setsid / setpgid) are excluded by the property",
                       "'alive' is read from /proc 0-100 ms after the report is observed over HTTP (2 ms polling): scheduling latency"]
    if not proof_ok:
        violation(ctx, {"what": "Coq development for C20 does not check", "broken": "Properties/C20.v or its dependencies"}, found_input=False)
    for f in sorted({r["finding"] for r in findings}):
        if f in known:
            ctx.known.append("key=%s a background process left by a script line that had already returned is alive when the canceled job is reported finished "
                             "(dead by the kill timeout); %d occurrence(s) in this run" % (f, len([r for r in findings if r["finding"] == f])))
        else:
            r = [r for r in findings if r["finding"] == f][0]
            violation(ctx, {"what": "process alive at the report: " + f, "mode": "proc", "seed": r["seed"], "n": r["n"], "round": r["round"], "case": {k: v for k, v in r.items() if k != "tree"}})
    seen = 0
    for r in bad:
        if seen >= 3:
            break
        seen += 1
        violation(ctx, {"what": "processes of a canceled job alive after it was reported finished / after the kill timeout, late report, or bystander touched",
                        "mode": "proc", "seed": r.get("seed"), "n": r.get("n"), "round": r.get("round"), "case": {k: v for k, v in r.items() if k != "tree"}})
    cbad = [(t, child_bad(t)) for t in traces if child_bad(t)]
    for t, why in cbad[:2]:
        violation(ctx, {"what": "traced run on a real TaskRunner: " + why, "mode": "procchild", "script": t["script"], "kill_timeout_ms": t["kill_timeout_ms"],
                        "result": t["child"], "syscalls": t["raw"][:30]})
    bad = bad + [t for t, _ in cbad]
    if conf is None:
        violation(ctx, {"what": "system call traces could not be obtained or checked (strace / coqc)", "broken": "translation validation for C20"}, found_input=False)
    elif conf and not bad:
        # the protocol is not followed but no survivor was seen: look harder
        more = proc_runs(ctx, bins, [(ctx.seed + 100 + k, 12) for k in range(6)]) or []
        mb = [r for r in more if r.get("kind") == "proc" and not r.get("ok", True)]
        if mb:
            r = mb[0]
            violation(ctx, {"what": "processes of a canceled job alive after it was reported finished / after the kill timeout", "mode": "proc", "seed": r["seed"], "n": r["n"],
                            "round": r["round"], "case": {k: v for k, v in r.items() if k != "tree"}})
        else:
            violation(ctx, {"what": "the exec handler's signal system calls do not follow the protocol of Proc.v, but no surviving process was observed",
                            "broken": "translation validation strace -> Corr/ProcCorr.v conforms (the theorems of Properties/C20.v are about a protocol the code no longer follows)",
                            "rules_violated": {str(i): [RULES.get(c, str(c)) for c in cs] for i, cs in conf.items()},
                            "traces": [{"script": t["script"], "syscalls": t["raw"]} for t in traces if t["id"] in conf][:3]}, found_input=False)
    finish(ctx)


if __name__ == "__main__":
    main()

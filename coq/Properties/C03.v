(** * C03 — No accepted job is lost or stranded on the wait list  (PARTIAL: no fairness / termination argument)

    Proved for every reachable state of the system model: the wait list of a pipeline is *exactly* the list of its
    waiting (not started, not canceled) jobs, each once, in acceptance order. So no event — cancel of another waiting
    job, a job that fails to start, a replacement, a reload — can drop a waiting job from the queue or leave a
    non-waiting one in it (the latter is what stranded jobs before the repair of D2), and every dequeue attempt sees
    every waiting job. Work conservation (second sentence of the property): for every history without a reload there is
    no state in which a pipeline has a free concurrency slot while the job at the head of its wait list has no pending
    start timer (C03_work_conserving) — the start happens in the very step that frees the slot or fires the timer, so the
    "bounded time" is zero steps of the runner.
    The progress measure of "eventually starts": a job that is not waiting never becomes waiting again, so the set of jobs
    that wait in front of a given job only shrinks (C03_jobs_ahead_only_shrink); when it is empty the job is the head, and
    by work conservation it does not stay waiting once its delay has passed and a slot is free.
    NOT proved: that the measure does decrease ("eventually ... provided tasks terminate") needs fairness of the Go
    scheduler and termination of tasks, which the model does not express; it is judged by the monitor at the end of every
    drained history (for pipelines that remained defined). *)
From stdpp Require Import list sorting.
From Coq Require Import ZArith.
From PV Require Import System Runner proofs.SystemProps proofs.WorkProps proofs.AheadProps.

Theorem C03_waiting_iff_queued_partial : ∀ s p,
  reach s → st_shut s = false → wl_get (st_wait s) p = sys_waiting_ids s p.
Proof. exact sys_wait_list_exact. Qed.

Theorem C03_queue_in_acceptance_order : ∀ s p, reach s → StronglySorted lt (wl_get (st_wait s) p).
Proof. exact sys_wait_sorted. Qed.

(** a job that was canceled while waiting is never started, and never gets a scheduler *)
Theorem C03_canceled_waiting_stays_out : ∀ s evs id j,
  reach s → Forall no_restart evs → get_job s id = Some j →
  ∃ j', get_job (exec s evs) id = Some j' ∧ job_snapshot j' = job_snapshot j
        ∧ (j_canceled j = true → j_canceled j' = true) ∧ (j_completed j = true → j_completed j' = true)
        ∧ (is_Some (j_start j) → is_Some (j_start j'))
        ∧ (j_canceled j = true → j_start j = None → j_start j' = None ∧ j_sched j' = None).
Proof. exact sys_snapshot_immutable. Qed.

(** unchanged definition: never a free slot together with a head job whose start delay has passed *)
Theorem C03_work_conserving : ∀ ds evs p h rest j,
  Forall no_reload evs → let s := exec (init ds) evs in
  st_shut s = false → wl_get (st_wait s) p = h :: rest → get_job s h = Some j → j_timer j = false →
  (pd_conc (def_or_zero ds p) ≤ running_count s p)%nat.
Proof. exact sys_work_conserving. Qed.

(** a job that has left the waiting state never waits again; the jobs waiting in front of a job only become fewer *)
Theorem C03_waiting_never_regained : ∀ s evs id j j',
  reach s → Forall no_restart evs → get_job s id = Some j → get_job (exec s evs) id = Some j' →
  is_waiting j' = true → is_waiting j = true ∧ j_pipe j' = j_pipe j.
Proof. exact waiting_never_regained. Qed.
Theorem C03_jobs_ahead_only_shrink : ∀ s evs id id' j j1',
  reach s → Forall no_restart evs → get_job s id = Some j → (id' < id)%nat →
  get_job (exec s evs) id' = Some j1' → is_waiting j1' = true →
  ∃ j1, get_job s id' = Some j1 ∧ is_waiting j1 = true ∧ j_pipe j1 = j_pipe j1'.
Proof. exact jobs_ahead_only_shrink. Qed.

Definition ex_defs : defs := [(0%nat, PDef 1 None false 0 false 0 0 0 [(0%nat, TaskDef [] false false 0 0)])].
Example C03_ex :
  let s := exec (init ex_defs) [EvSchedule 0 VNone 0; EvSchedule 0 VNone 0; EvSchedule 0 VNone 0; EvCancel 1] in
  wl_get (st_wait s) 0 = [2%nat] ∧ sys_waiting_ids s 0 = [2%nat].
Proof. vm_compute. done. Qed.

Print Assumptions C03_waiting_never_regained.
Print Assumptions C03_jobs_ahead_only_shrink.
Print Assumptions C03_waiting_iff_queued_partial.
Print Assumptions C03_queue_in_acceptance_order.
Print Assumptions C03_canceled_waiting_stays_out.
Print Assumptions C03_work_conserving.

package prunner

// Demonstration of defect D13 (see /verif/DESIGN.md section 5). Copy into /repo as zz_defects_test.go; run with -race.
// SaveToStore registered itself in the runner's WaitGroup (wg.Add(1)) without any ordering against the wg.Wait() of a
// concurrent Shutdown: a data race on the WaitGroup and, when they overlap, the runtime panic
// "sync: WaitGroup is reused before previous Wait has returned" (persist loop or an explicit save during shutdown).

import (
	"context"
	"sync"
	"testing"
	"time"

	"github.com/stretchr/testify/require"
	"github.com/taskctl/taskctl/pkg/task"

	"github.com/Flowpack/prunner/definition"
	"github.com/Flowpack/prunner/store"
	"github.com/Flowpack/prunner/taskctl"
	"github.com/Flowpack/prunner/test"
)

func TestDefectD13_SaveDuringShutdownIsNotARace(t *testing.T) {
	ds, err := store.NewJSONDataStore(t.TempDir())
	require.NoError(t, err)
	defs := &definition.PipelinesDef{Pipelines: map[string]definition.PipelineDef{
		"p": {Concurrency: 1, QueueLimit: nil, Tasks: map[string]definition.TaskDef{"a": {Script: []string{"x"}}}, SourcePath: "f"}}}
	for round := 0; round < 20; round++ {
		r, err := NewPipelineRunner(context.Background(), defs, func(j *PipelineJob) taskctl.Runner {
			return &test.MockRunner{OnRun: func(t *task.Task) error { time.Sleep(3 * time.Millisecond); return nil }}
		}, ds, test.NewMockOutputStore())
		require.NoError(t, err)
		r.ShutdownPollInterval = time.Millisecond
		_, err = r.ScheduleAsync("p", ScheduleOpts{})
		require.NoError(t, err)
		var wg sync.WaitGroup
		wg.Add(1)
		go func() {
			defer wg.Done()
			for i := 0; i < 60; i++ {
				r.SaveToStore() // what the persist loop or an API client does while the runner shuts down
				time.Sleep(100 * time.Microsecond)
			}
		}()
		ctx, cancel := context.WithTimeout(context.Background(), time.Millisecond)
		_ = r.Shutdown(ctx) // forced after 1 ms: the deferred wg.Wait() blocks until the job goroutine is done
		cancel()
		wg.Wait()
	}
}

(** The invariant of the abstract runner machine and its preservation by every step *)
From stdpp Require Import list sorting.
From Coq Require Import ZArith Lia.
From PV Require Import Runner proofs.RunnerBase.
Local Open Scope Z_scope.

(** [x]: a job that is exempt from "every waiting job is queued" (it has just been taken off the wait list or just been
    created, and is about to be started) *)
Record RInvX (s : rstate) (x : option nat) : Prop := {
  inv_live : ∀ id j, rs_jobs s !! id = Some j → r_live j = true →
             is_Some (r_start j) ∧ r_completed j = false ∧ r_canceled j = false;
  inv_comp : ∀ id j, rs_jobs s !! id = Some j → r_completed j = true → r_is_waiting j = false;
  inv_wl : ∀ p id, id ∈ wl_get (rs_wait s) p →
           ∃ j, rs_jobs s !! id = Some j ∧ r_pipe j = p ∧ r_is_waiting j = true ∧ r_removed j = false;
  inv_sorted : ∀ p, StronglySorted lt (wl_get (rs_wait s) p);
  inv_queued : rs_shut s = false → ∀ id j, Some id ≠ x → rs_jobs s !! id = Some j → r_is_waiting j = true → r_removed j = false →
               id ∈ wl_get (rs_wait s) (r_pipe j);
  inv_timer : ∀ id j, rs_jobs s !! id = Some j → r_is_waiting j = true → r_removed j = false → r_timer j = false →
              r_created j + Z.of_nat (r_delay j) <= rs_now s;
  inv_start : ∀ id j t, rs_jobs s !! id = Some j → r_start j = Some t →
              r_created j + Z.of_nat (r_delay j) <= t ∧ t <= rs_now s;
  inv_created : ∀ id j, rs_jobs s !! id = Some j → r_created j <= rs_now s;
  inv_x : ∀ id, x = Some id → id ∉ wl_get (rs_wait s) (default 0%nat (r_pipe <$> rs_jobs s !! id));
  inv_creq : ∀ id j, rs_jobs s !! id = Some j → r_creq j = true → r_completed j = true → r_canceled j = true;
  inv_run : ∀ id j, rs_jobs s !! id = Some j → r_is_running j = true → r_live j = true;
  inv_shutw : rs_shut s = true → ∀ id j, rs_jobs s !! id = Some j → r_removed j = false → r_is_waiting j = false
}.
Definition RInv (s : rstate) : Prop := RInvX s None.

Lemma RInv_X s x : RInv s → (∀ id, x = Some id → id ∉ wl_get (rs_wait s) (default 0%nat (r_pipe <$> rs_jobs s !! id))) → RInvX s x.
Proof.
  intros [] Hx. split; try done. intros Hs id j _. by apply inv_queued0.
Qed.

(** ** sortedness helpers *)
Lemma StronglySorted_snoc (l : list nat) x : StronglySorted lt l → Forall (fun y => (y < x)%nat) l → StronglySorted lt (l ++ [x]).
Proof.
  induction 1 as [|y l Hs IH Hall]; intros Hlt; simpl.
  - repeat constructor.
  - inversion Hlt as [|? ? Hy Hl]; subst. constructor; [by apply IH|].
    apply Forall_app. split; [done|]. by constructor.
Qed.

Lemma StronglySorted_filter (P : nat → bool) (l : list nat) : StronglySorted lt l → StronglySorted lt (List.filter P l).
Proof.
  induction 1 as [|y l Hs IH Hall]; simpl; [constructor|].
  destruct (P y); [|done]. constructor; [done|].
  rewrite Forall_forall in *. intros z Hz. apply Hall.
  apply elem_of_list_In. apply elem_of_list_In in Hz. apply filter_In in Hz. tauto.
Qed.

Lemma StronglySorted_removelast (l : list nat) : StronglySorted lt l → StronglySorted lt (removelast l).
Proof.
  induction 1 as [|y l Hs IH Hall]; simpl; [constructor|].
  destruct l as [|z l]; [constructor|]. constructor; [done|].
  rewrite Forall_forall in *. intros w Hw. apply Hall.
  apply elem_of_list_In. apply elem_of_list_In in Hw. revert Hw. clear.
  generalize (z :: l). intros l'. induction l' as [|a l' IH]; simpl; [done|].
  destruct l'; simpl in *; [done|]. intros [->|H]; [by left|right; by apply IH].
Qed.

Lemma elem_of_removelast (l : list nat) x : x ∈ removelast l → x ∈ l.
Proof.
  induction l as [|a l IH]; simpl; [done|]. destruct l; [by intros ?%elem_of_nil|].
  intros [->|H]%elem_of_cons; [by left|right; by apply IH].
Qed.

Lemma elem_of_remove_id id l x : x ∈ remove_id id l ↔ x ∈ l ∧ x ≠ id.
Proof.
  unfold remove_id. rewrite !elem_of_list_In, filter_In, negb_true_iff, Nat.eqb_neq. done.
Qed.

Lemma last_removelast (l : list nat) x : last l = Some x → l = removelast l ++ [x].
Proof.
  induction l as [|a l IH]; [done|]. destruct l as [|b l]; simpl.
  - by intros [= ->].
  - intros H. f_equal. by apply IH.
Qed.

(** ** generic preservation lemmas *)
Lemma r_find_Some s id j : r_find s id = Some j ↔ rs_jobs s !! id = Some j ∧ r_removed j = false.
Proof.
  unfold r_find. destruct (rs_jobs s !! id) as [j'|]; [|split; [done|by intros [? ?]]].
  destruct (r_removed j') eqn:E.
  - split; [done|]. intros [[= <-] ?]. congruence.
  - split; [intros [= <-]; done|]. by intros [[= <-] ?].
Qed.

Lemma waiting_inv j : r_is_waiting j = true ↔ r_start j = None ∧ r_canceled j = false.
Proof. unfold r_is_waiting. destruct (r_start j); [naive_solver|]. rewrite negb_true_iff. naive_solver. Qed.

(** updating one job *)
Lemma upd_inv s x x' id j f :
  RInvX s x → rs_jobs s !! id = Some j →
  r_pipe (f j) = r_pipe j → r_created (f j) = r_created j → r_delay (f j) = r_delay j → r_removed (f j) = r_removed j →
  (r_live (f j) = true → is_Some (r_start (f j)) ∧ r_completed (f j) = false ∧ r_canceled (f j) = false) →
  (r_completed (f j) = true → r_is_waiting (f j) = false) →
  (r_creq (f j) = true → r_completed (f j) = true → r_canceled (f j) = true) →
  (r_is_running (f j) = true → r_live (f j) = true) →
  (r_is_waiting (f j) = true → r_is_waiting j = true ∧ (r_removed j = false → r_timer (f j) = false → r_created j + Z.of_nat (r_delay j) <= rs_now s)) →
  (∀ t, r_start (f j) = Some t → r_created j + Z.of_nat (r_delay j) <= t ∧ t <= rs_now s) →
  (id ∈ wl_get (rs_wait s) (r_pipe j) → r_is_waiting (f j) = true) →
  (x' = x ∨ (x = Some id ∧ x' = None ∧ r_is_waiting (f j) = false)) →
  RInvX (r_upd s id f) x'.
Proof.
  intros [] Hj Hp Hc Hd Hr Hlive Hcomp Hcreq Hrun Hwait Hstart Hq Hx.
  split.
  - intros id' j'. rewrite r_upd_lookup. destruct (decide (id = id')) as [<-|Hne]; [|by apply inv_live0].
    rewrite Hj. intros [= <-]. done.
  - intros id' j'. rewrite r_upd_lookup. destruct (decide (id = id')) as [<-|Hne]; [|by apply inv_comp0].
    rewrite Hj. intros [= <-]. done.
  - intros q id' Hid. destruct (inv_wl0 q id' Hid) as (j' & Hj' & Hq' & Hw' & Hr').
    rewrite r_upd_lookup. destruct (decide (id = id')) as [<-|Hne]; [|eauto].
    rewrite Hj in Hj'. injection Hj' as <-. exists (f j). rewrite Hj. split; [done|]. split; [congruence|].
    split; [|congruence]. apply Hq. by rewrite Hq'.
  - done.
  - intros Hs id' j' Hx'. rewrite r_upd_lookup. destruct (decide (id = id')) as [<-|Hne].
    + rewrite Hj. intros [= <-] Hw Hr'. rewrite Hp. destruct (Hwait Hw) as [Hw0 _].
      apply inv_queued0; try done; [|congruence].
      destruct Hx as [->|(-> & -> & Hnw)]; [done|congruence].
    + intros Hj' Hw Hr'. apply inv_queued0; try done.
      destruct Hx as [->|(-> & -> & Hnw)]; [done|congruence].
  - intros id' j'. rewrite r_upd_lookup. destruct (decide (id = id')) as [<-|Hne]; [|by apply inv_timer0].
    rewrite Hj. intros [= <-] Hw Hrm Ht. rewrite Hc, Hd. rewrite Hr in Hrm. by apply Hwait.
  - intros id' j' t. rewrite r_upd_lookup. destruct (decide (id = id')) as [<-|Hne]; [|by apply inv_start0].
    rewrite Hj. intros [= <-] Ht. rewrite Hc, Hd. by apply Hstart.
  - intros id' j'. rewrite r_upd_lookup. destruct (decide (id = id')) as [<-|Hne]; [|by apply inv_created0].
    rewrite Hj. intros [= <-]. rewrite Hc. eauto.
  - intros i Hi. assert (Hxi : x = Some i) by (destruct Hx as [->|(_ & -> & _)]; done).
    specialize (inv_x0 i Hxi). rewrite r_upd_lookup. destruct (decide (id = i)) as [<-|Hne]; [|done].
    rewrite Hj in *. simpl in *. by rewrite Hp.
  - intros id' j'. rewrite r_upd_lookup. destruct (decide (id = id')) as [<-|Hne]; [|by apply inv_creq0].
    rewrite Hj. intros [= <-]. done.
  - intros id' j'. rewrite r_upd_lookup. destruct (decide (id = id')) as [<-|Hne]; [|by apply inv_run0].
    rewrite Hj. intros [= <-]. done.
  - intros Hs id' j'. rewrite r_upd_lookup. destruct (decide (id = id')) as [<-|Hne]; [|by apply inv_shutw0].
    rewrite Hj. intros [= <-] Hrm. rewrite Hr in Hrm. destruct (r_is_waiting (f j)) eqn:E; [|done].
    destruct (Hwait eq_refl) as [Hw _]. rewrite (inv_shutw0 Hs id j Hj Hrm) in Hw. done.
Qed.

(** changing one wait list: jobs may leave it (one of them becoming the exempt job) and the exempt job may join it *)
Lemma set_wait_inv s x x' p l :
  RInvX s x → StronglySorted lt l →
  (∀ i, i ∈ l → i ∈ wl_get (rs_wait s) p ∨
                (x = Some i ∧ ∃ j, rs_jobs s !! i = Some j ∧ r_pipe j = p ∧ r_is_waiting j = true ∧ r_removed j = false)) →
  (∀ i, i ∈ wl_get (rs_wait s) p → i ∈ l ∨ x' = Some i) →
  (∀ i, x = Some i → i ∈ l ∨ x' = Some i) →
  (∀ i, x' = Some i → i ∉ l ∧ (x = Some i ∨ i ∈ wl_get (rs_wait s) p ∨ r_pipe <$> rs_jobs s !! i = Some p)) →
  RInvX (r_set_wait s p l) x'.
Proof.
  intros [] Hsorted Hin Hout Hx Hx'.
  split; try done.
  - intros q id. simpl. destruct (decide (p = q)) as [<-|Hne].
    + rewrite wl_get_set_eq. intros Hid. destruct (Hin id Hid) as [?|(_ & j & ? & ? & ? & ?)]; [by apply inv_wl0|eauto].
    + rewrite wl_get_set_ne by done. apply inv_wl0.
  - intros q. simpl. destruct (decide (p = q)) as [<-|Hne].
    + by rewrite wl_get_set_eq.
    + rewrite wl_get_set_ne by done. apply inv_sorted0.
  - intros Hs id j Hne Hj Hw Hr. simpl. change (rs_jobs s !! id = Some j) in Hj. change (rs_shut s = false) in Hs.
    destruct (decide (Some id = x)) as [Hidx|Hidx].
    + symmetry in Hidx. destruct (Hx id Hidx) as [Hl|?]; [|congruence].
      destruct (Hin id Hl) as [Hq|(_ & j' & Hj' & Hp' & _)].
      * destruct (inv_wl0 p id Hq) as (j' & Hj' & Hp' & _). rewrite Hj in Hj'. injection Hj' as <-.
        by rewrite Hp', wl_get_set_eq.
      * rewrite Hj in Hj'. injection Hj' as <-. by rewrite Hp', wl_get_set_eq.
    + pose proof (inv_queued0 Hs id j Hidx Hj Hw Hr) as Hq.
      destruct (decide (p = r_pipe j)) as [Hp|Hnp].
      * rewrite <- Hp, wl_get_set_eq. rewrite <- Hp in Hq. destruct (Hout id Hq); [done|congruence].
      * by rewrite wl_get_set_ne.
  - intros i Hi. simpl. destruct (Hx' i Hi) as [Hnl Hsrc].
    destruct (decide (p = default 0%nat (r_pipe <$> rs_jobs s !! i))) as [Hp|Hnp].
    + by rewrite <- Hp, wl_get_set_eq.
    + rewrite wl_get_set_ne by done.
      destruct Hsrc as [Hxi|[Hip|Hpp]]; [by apply inv_x0| |].
      * destruct (inv_wl0 p i Hip) as (j' & Hj' & Hp' & _). rewrite Hj' in Hnp. simpl in Hnp. congruence.
      * destruct (rs_jobs s !! i) as [j'|]; simpl in *; congruence.
Qed.

(** a new job is appended: it is the exempt one *)
Lemma lookup_snoc_Some {A} (l : list A) (x y : A) i :
  (l ++ [x]) !! i = Some y ↔ l !! i = Some y ∨ (i = length l ∧ y = x).
Proof.
  rewrite lookup_app_Some. split.
  - intros [?|[Hle Hi]]; [by left|right].
    destruct (i - length l)%nat as [|k] eqn:E; simpl in Hi; [|by destruct k].
    injection Hi as <-. split; [lia|done].
  - intros [?|[-> ->]]; [by left|right]. split; [lia|]. by rewrite Nat.sub_diag.
Qed.

Lemma append_inv s j :
  RInv s → rs_shut s = false → r_start j = None → r_completed j = false → r_live j = false → r_created j = rs_now s →
  (r_timer j = false → r_delay j = 0%nat) →
  RInvX (r_set_jobs s (rs_jobs s ++ [j])) (Some (length (rs_jobs s))).
Proof.
  intros [] Hshut Hst Hco Hli Hcr Htd.
  assert (Hfresh : ∀ p, length (rs_jobs s) ∉ wl_get (rs_wait s) p).
  { intros p Hin. destruct (inv_wl0 p _ Hin) as (j' & Hj' & _). apply lookup_lt_Some in Hj'. lia. }
  split; simpl.
  - intros id j' [?|[-> ->]]%lookup_snoc_Some; [by eapply inv_live0|congruence].
  - intros id j' [?|[-> ->]]%lookup_snoc_Some; [by eapply inv_comp0|congruence].
  - intros p id Hid. destruct (inv_wl0 p id Hid) as (j' & Hj' & ?). exists j'. split; [|done].
    apply lookup_snoc_Some. by left.
  - done.
  - intros Hs id j' Hne [?|[-> ->]]%lookup_snoc_Some; [|done]. by apply inv_queued0.
  - intros id j' [?|[-> ->]]%lookup_snoc_Some; [by eapply inv_timer0|]. intros _ _ Ht. rewrite Hcr, (Htd Ht). simpl. lia.
  - intros id j' t [?|[-> ->]]%lookup_snoc_Some; [by eapply inv_start0|congruence].
  - intros id j' [?|[-> ->]]%lookup_snoc_Some; [by eapply inv_created0|lia].
  - intros id [= <-]. apply Hfresh.
  - intros id j' [?|[-> ->]]%lookup_snoc_Some; [by eapply inv_creq0|congruence].
  - intros id j' [?|[-> ->]]%lookup_snoc_Some; [by eapply inv_run0|]. unfold r_is_running. by rewrite Hst.
  - simpl. congruence.
Qed.

(** ** try_start (exempt job) *)
Lemma try_start_inv s x j :
  RInvX s (Some x) → rs_jobs s !! x = Some j → r_is_waiting j = true → r_removed j = false →
  r_created j + Z.of_nat (r_delay j) <= rs_now s →
  RInv (r_try_start s x).1.
Proof.
  intros Hinv Hj Hw Hr Hdue.
  pose proof Hw as [Hst Hcan]%waiting_inv.
  assert (Hcomp : r_completed j = false).
  { destruct (r_completed j) eqn:E; [|done]. destruct (inv_comp _ _ Hinv x j Hj E) as [? ?]. congruence. }
  assert (Hxq : x ∉ wl_get (rs_wait s) (r_pipe j)).
  { pose proof (inv_x _ _ Hinv x eq_refl) as H. by rewrite Hj in H. }
  unfold r_try_start. assert (Hf : r_find s x = Some j) by (by apply r_find_Some).
  rewrite Hf, Hcan.
  assert (Hnw1 : ∀ t, r_is_waiting (r_started t j) = false) by done.
  assert (Hnw2 : r_is_waiting (r_failed j) = false) by (unfold r_is_waiting; simpl; by destruct (r_start j)).
  destruct (r_gok j) eqn:Hg; cbn [fst].
  - eapply (upd_inv s (Some x) None x j); try done.
    all: try (simpl; intros t [= <-]; lia).
    all: try (right; by rewrite ?Hnw1).
    all: try (simpl; intros _; rewrite Hcomp, Hcan; by eauto).
    all: try (simpl; by eauto).
    all: try (by rewrite Hnw1).
  - eapply (upd_inv s (Some x) None x j); try done.
    all: try (unfold r_is_running; simpl; rewrite Hst; done).
    all: try (right; by rewrite ?Hnw2).
    all: try (simpl; intros Hl; destruct (inv_live _ _ Hinv x j Hj Hl) as ([? ?] & _); congruence).
    all: try (simpl; rewrite ?Hcomp, ?Hst; done).
    all: try (by rewrite Hnw2).
Qed.

Lemma try_start_frame s x :
  let s' := (r_try_start s x).1 in
  rs_wait s' = rs_wait s ∧ rs_defs s' = rs_defs s ∧ rs_now s' = rs_now s ∧ rs_shut s' = rs_shut s
  ∧ length (rs_jobs s') = length (rs_jobs s)
  ∧ (∀ id, id ≠ x → rs_jobs s' !! id = rs_jobs s !! id)
  ∧ (∀ j', rs_jobs s' !! x = Some j' → ∃ j, rs_jobs s !! x = Some j ∧ r_pipe j' = r_pipe j).
Proof.
  unfold r_try_start. destruct (r_find s x) as [j|] eqn:Hf; simpl.
  2:{ repeat split; try done. eauto. }
  apply r_find_Some in Hf as [Hj Hr].
  destruct (r_canceled j); simpl; [repeat split; try done; eauto|].
  destruct (r_gok j); simpl; (repeat split; try done; [by rewrite alter_length| intros id Hne; by rewrite list_lookup_alter_ne |
    intros j'; rewrite list_lookup_alter, Hj; intros [= <-]; eauto]).
Qed.

(** taking the head off the wait list makes it the exempt job *)
Lemma pop_inv s p h rest :
  RInv s → wl_get (rs_wait s) p = h :: rest → RInvX (r_set_wait s p rest) (Some h).
Proof.
  intros Hinv Hwl.
  pose proof (inv_sorted _ _ Hinv p) as Hsorted. rewrite Hwl in Hsorted.
  apply StronglySorted_inv in Hsorted as [Hsr Hall].
  eapply set_wait_inv; try done.
  - intros i Hi. left. rewrite Hwl. by right.
  - intros i. rewrite Hwl. intros [->|?]%elem_of_cons; [by right|by left].
  - intros i [= <-]. split; [|right; left; rewrite Hwl; by left].
    rewrite Forall_forall in Hall. intros Hin. specialize (Hall h Hin). lia.
Qed.

(** ** the dequeue loop *)
Lemma dequeue_step_inv s p h rest j :
  RInv s → wl_get (rs_wait s) p = h :: rest → rs_jobs s !! h = Some j → r_timer j = false →
  RInv (r_try_start (r_set_wait s p rest) h).1.
Proof.
  intros Hinv Hwl Hj Ht.
  destruct (inv_wl _ _ Hinv p h) as (jh & Hjh & Hph & Hwh & Hrh); [rewrite Hwl; by left|].
  rewrite Hj in Hjh. injection Hjh as <-.
  eapply try_start_inv; [by apply pop_inv|done|done|done|].
  simpl. by eapply (inv_timer _ _ Hinv).
Qed.

Lemma dequeue_loop_inv fuel s p : RInv s → RInv (r_dequeue_loop fuel s p).
Proof.
  revert s. induction fuel as [|x0 fuel IH]; intros s Hinv; simpl; [done|].
  destruct (wl_get (rs_wait s) p) as [|h rest] eqn:Hwl; [done|].
  destruct (rs_jobs s !! h) as [j|] eqn:Hj; [|done].
  destruct (bool_decide _ && negb (r_timer j)) eqn:Hel; [|done].
  apply andb_true_iff in Hel as [_ Ht]. apply negb_true_iff in Ht.
  apply IH. by eapply dequeue_step_inv.
Qed.

Lemma dequeue_inv s p : RInv s → RInv (r_dequeue s p).
Proof. apply dequeue_loop_inv. Qed.

(** frame facts about the dequeue loop: only jobs of the pipeline are touched, only its wait list shrinks *)
Lemma dequeue_loop_frame fuel s p :
  RInv s →
  let s' := r_dequeue_loop fuel s p in
  rs_defs s' = rs_defs s ∧ rs_now s' = rs_now s ∧ rs_shut s' = rs_shut s ∧ length (rs_jobs s') = length (rs_jobs s)
  ∧ (∀ q, q ≠ p → wl_get (rs_wait s') q = wl_get (rs_wait s) q)
  ∧ (∀ id j, rs_jobs s !! id = Some j → r_pipe j ≠ p → rs_jobs s' !! id = Some j)
  ∧ (∀ id j', rs_jobs s' !! id = Some j' → ∃ j, rs_jobs s !! id = Some j ∧ r_pipe j' = r_pipe j)
  ∧ (∀ id, id ∈ wl_get (rs_wait s') p → id ∈ wl_get (rs_wait s) p).
Proof.
  revert s. induction fuel as [|x0 fuel IH]; intros s Hinv; simpl.
  { repeat split; eauto. }
  destruct (wl_get (rs_wait s) p) as [|h rest] eqn:Hwl.
  { repeat split; eauto. by rewrite Hwl. }
  destruct (rs_jobs s !! h) as [j|] eqn:Hj.
  2:{ repeat split; eauto. by rewrite Hwl. }
  destruct (bool_decide _ && negb (r_timer j)) eqn:Hel.
  2:{ repeat split; eauto. by rewrite Hwl. }
  apply andb_true_iff in Hel as [_ Ht]. apply negb_true_iff in Ht.
  destruct (inv_wl _ _ Hinv p h) as (jh & Hjh & Hph & Hwh & Hrh); [rewrite Hwl; by left|].
  rewrite Hj in Hjh. injection Hjh as <-.
  set (s1 := (r_try_start (r_set_wait s p rest) h).1).
  assert (Hinv1 : RInv s1) by (by eapply dequeue_step_inv).
  destruct (try_start_frame (r_set_wait s p rest) h) as (Hw1 & Hd1 & Hn1 & Hs1 & Hl1 & Ho1 & Hx1).
  fold s1 in Hw1, Hd1, Hn1, Hs1, Hl1, Ho1, Hx1. simpl in *.
  destruct (IH s1 Hinv1) as (Hd & Hn & Hs & Hl & Hq & Hj' & Hp' & Hin).
  split; [congruence|]. split; [congruence|]. split; [congruence|]. split; [congruence|].
  split.
  { intros q Hne. rewrite Hq by done. rewrite Hw1. by rewrite wl_get_set_ne. }
  split.
  { intros id j0 Hj0 Hne. apply Hj'; [|done]. rewrite Ho1; [done|]. intros ->. congruence. }
  split.
  { intros id j' Hid. destruct (Hp' id j' Hid) as (j1 & Hj1 & Hpp). destruct (decide (id = h)) as [->|Hne].
    - destruct (Hx1 j1 Hj1) as (j0 & Hj0 & Hp0). exists j0. split; [done|congruence].
    - rewrite Ho1 in Hj1 by done. eauto. }
  intros id Hid. specialize (Hin id Hid). rewrite Hw1, wl_get_set_eq in Hin. by right.
Qed.

(** ** the events *)
Lemma schedule_inv s p gok sn : RInv s → RInv (r_schedule s p gok sn).1.
Proof.
  intros Hinv. unfold r_schedule.
  destruct (rs_shut s) eqn:Hshut; [done|].
  destruct (lookup_def (rs_defs s) p) as [d|] eqn:Hd; [|done].
  set (id := length (rs_jobs s)).
  set (nj := r_new_job s p d gok sn).
  set (s1 := r_set_jobs s (rs_jobs s ++ [nj])).
  assert (Hinv1 : RInvX s1 (Some id)).
  { apply append_inv; try done. subst nj. simpl. intros Ht. apply Nat.ltb_ge in Ht. lia. }
  assert (Hnj : rs_jobs s1 !! id = Some nj).
  { subst s1 id. simpl. apply lookup_snoc_Some. by right. }
  assert (Hlt : ∀ q i, i ∈ wl_get (rs_wait s) q → (i < id)%nat).
  { intros q i Hi. destruct (inv_wl _ _ Hinv q i Hi) as (j' & Hj' & _). by apply lookup_lt_Some in Hj'. }
  destruct (r_resolve_action s p false) eqn:Hact; try done; cbn [fst].
  - (* start *)
    apply resolve_start_iff in Hact as [_ [Hdel|?]]; [|done].
    unfold def_or_zero in Hdel. rewrite Hd in Hdel. simpl in Hdel.
    unfold r_start_job. destruct (r_try_start s1 id) as [s2 failed] eqn:Hts.
    assert (Hinv2 : RInv s2).
    { replace s2 with (r_try_start s1 id).1 by (by rewrite Hts).
      eapply try_start_inv; try done. subst nj. simpl. rewrite Hdel. simpl. lia. }
    destruct failed; [by apply dequeue_inv|done].
  - (* append *)
    eapply set_wait_inv; [exact Hinv1| | | | |].
    + apply StronglySorted_snoc; [apply (inv_sorted _ _ Hinv)|].
      apply Forall_forall. intros i Hi. by eapply Hlt.
    + intros i [Hi|Hi%elem_of_list_singleton]%elem_of_app; [by left|subst i; right].
      split; [done|]. exists nj. done.
    + intros i Hi. left. apply elem_of_app. by left.
    + intros i [= <-]. left. apply elem_of_app. right. by apply elem_of_list_singleton.
    + done.
  - (* replace *)
    change (rs_wait s1) with (rs_wait s).
    destruct (last (wl_get (rs_wait s) p)) as [prev|] eqn:Hlast.
    2:{ (* unreachable, but harmless: the new job would be waiting and not queued *)
      exfalso. unfold r_resolve_action in Hact. apply last_None in Hlast. rewrite Hlast in Hact.
      simpl in Hact. rewrite andb_false_r in Hact.
      repeat case_match; discriminate. }
    pose proof (last_removelast _ _ Hlast) as Hwl.
    assert (Hprev : prev ∈ wl_get (rs_wait s) p) by (rewrite Hwl; apply elem_of_app; right; by apply elem_of_list_singleton).
    destruct (inv_wl _ _ Hinv p prev Hprev) as (jp & Hjp & Hpp & Hwp & Hrp).
    assert (Hjp1 : rs_jobs s1 !! prev = Some jp).
    { subst s1. simpl. apply lookup_snoc_Some. by left. }
    pose proof (inv_sorted _ _ Hinv p) as Hsorted.
    assert (Hnd : prev ∉ removelast (wl_get (rs_wait s) p)).
    { rewrite Hwl in Hsorted. clear -Hsorted. revert Hsorted. generalize (removelast (wl_get (rs_wait s) p)).
      intros l. induction l as [|a l IH]; simpl; [intros _; apply not_elem_of_nil|].
      intros [Hs Hall]%StronglySorted_inv. apply not_elem_of_cons. split; [|by apply IH].
      rewrite Forall_forall in Hall. intros Heq. subst a.
      assert (prev < prev)%nat; [|lia]. apply Hall. apply elem_of_app. right. by apply elem_of_list_singleton. }
    (* first the wait list (the previous job becomes the exempt one), then the previous job is canceled *)
    change (r_set_wait (r_upd s1 prev r_cancel_notimer) p (removelast (wl_get (rs_wait s) p) ++ [id]))
      with (r_upd (r_set_wait s1 p (removelast (wl_get (rs_wait s) p) ++ [id])) prev r_cancel_notimer).
    assert (Hinv2 : RInvX (r_set_wait s1 p (removelast (wl_get (rs_wait s) p) ++ [id])) (Some prev)).
    { eapply set_wait_inv; [exact Hinv1| | | | |].
      - apply StronglySorted_snoc; [by apply StronglySorted_removelast|].
        apply Forall_forall. intros i Hi. eapply Hlt. by apply elem_of_removelast.
      - intros i [Hi|Hi%elem_of_list_singleton]%elem_of_app; [left; by apply elem_of_removelast|subst i; right].
        split; [done|]. exists nj. done.
      - intros i Hi. change (rs_wait s1) with (rs_wait s) in Hi. rewrite Hwl in Hi.
        apply elem_of_app in Hi as [Hi|Hi%elem_of_list_singleton]; [left; apply elem_of_app; by left|subst i; by right].
      - intros i [= <-]. left. apply elem_of_app. right. by apply elem_of_list_singleton.
      - intros i [= <-]. split; [|right; by left].
        intros [Hi|Hi%elem_of_list_singleton]%elem_of_app; [done|]. specialize (Hlt p prev Hprev). lia. }
    eapply upd_inv; [exact Hinv2|exact Hjp1|..]; simpl; try done.
    + intros Hl. destruct (inv_live _ _ Hinv prev jp Hjp Hl) as ([t Ht] & _ & Hc).
      apply waiting_inv in Hwp as [? _]. congruence.
    + intros _. unfold r_is_waiting. simpl. by destruct (r_start jp).
    + unfold r_is_running. simpl. destruct (r_start jp); [by rewrite andb_false_r|done].
    + unfold r_is_waiting. simpl. by destruct (r_start jp).
    + intros t Ht. apply waiting_inv in Hwp as [? _]. congruence.
    + rewrite Hpp, wl_get_set_eq. intros [Hi|Hi%elem_of_list_singleton]%elem_of_app; [done|].
      specialize (Hlt p prev Hprev). lia.
    + right. split; [done|]. split; [done|]. unfold r_is_waiting. simpl. by destruct (r_start jp).
Qed.


Lemma cancel_inv s id : RInv s → RInv (r_cancel s id).1.
Proof.
  intros Hinv. unfold r_cancel.
  destruct (r_find s id) as [j|] eqn:Hf; [|done].
  apply r_find_Some in Hf as [Hj Hr].
  destruct (r_canceled j) eqn:Hcan; [done|].
  destruct (r_completed j) eqn:Hcomp; [done|].
  destruct (r_start j) as [t|] eqn:Hst; cbn [fst].
  - destruct (r_live j) eqn:Hl; [|done].
    assert (Hnw : r_is_waiting (r_set_creq j) = false) by (unfold r_is_waiting; simpl; by rewrite Hst).
    eapply (upd_inv s None None id j); try done.
    all: try (simpl; rewrite ?Hst, ?Hcomp, ?Hcan; by eauto).
    all: try (simpl; intros t0 Ht0; by apply (inv_start _ _ Hinv id j t0)).
    all: try by left.
    all: try by rewrite Hnw.
    intros Hq. destruct (inv_wl _ _ Hinv _ _ Hq) as (j' & Hj' & _ & Hw' & _). rewrite Hj in Hj'. injection Hj' as <-.
    apply waiting_inv in Hw' as [? _]. congruence.
  - apply dequeue_inv.
    assert (Hw : r_is_waiting j = true) by (apply waiting_inv; done).
    assert (Hnw : r_is_waiting (r_cancel_notimer j) = false) by (unfold r_is_waiting; simpl; by rewrite Hst).
    change (rs_wait (r_upd s id r_cancel_notimer)) with (rs_wait s).
    change (r_set_wait (r_upd s id r_cancel_notimer) (r_pipe j) (remove_id id (wl_get (rs_wait s) (r_pipe j))))
      with (r_upd (r_set_wait s (r_pipe j) (remove_id id (wl_get (rs_wait s) (r_pipe j)))) id r_cancel_notimer).
    assert (Hinv1 : RInvX (r_set_wait s (r_pipe j) (remove_id id (wl_get (rs_wait s) (r_pipe j)))) (Some id)).
    { eapply set_wait_inv; [exact Hinv| | | | |].
      - apply StronglySorted_filter. apply (inv_sorted _ _ Hinv).
      - intros i Hi. left. by apply elem_of_remove_id in Hi as [? _].
      - intros i Hi. destruct (decide (i = id)) as [->|Hne]; [by right|left]. by apply elem_of_remove_id.
      - done.
      - intros i [= <-]. split.
        + intros Hi. by apply elem_of_remove_id in Hi as [_ ?].
        + right. right. by rewrite Hj. }
    eapply (upd_inv _ (Some id) None id j); [exact Hinv1|exact Hj|..]; try done.
    all: try (simpl; rewrite ?Hst, ?Hcomp; done).
    all: try (simpl; intros Hl; destruct (inv_live _ _ Hinv id j Hj Hl) as ([? ?] & _); congruence).
    all: try by rewrite Hnw.
    all: try (unfold r_is_running; simpl; by rewrite Hst).
    all: try (simpl; rewrite wl_get_set_eq; intros Hi; by apply elem_of_remove_id in Hi as [_ ?]).
    all: try (right; done).
Qed.

Lemma fire_inv s id s' : RInv s → r_fire s id = Some s' → RInv s'.
Proof.
  intros Hinv. unfold r_fire.
  destruct (rs_jobs s !! id) as [j|] eqn:Hj; [|done].
  destruct (r_timer_due s j) eqn:Hdue; [|done].
  apply andb_true_iff in Hdue as [Ht Hdue]. apply Z.leb_le in Hdue.
  assert (Hinv1 : RInv (r_upd s id r_clear_timer)).
  { eapply (upd_inv s None None id j); try done.
    all: try (simpl; by apply (inv_live _ _ Hinv id j)).
    all: try (simpl; by apply (inv_comp _ _ Hinv id j)).
    all: try (simpl; by apply (inv_creq _ _ Hinv id j)).
    all: try (by apply (inv_run _ _ Hinv id j)).
    all: try (simpl; intros t0 Ht0; by apply (inv_start _ _ Hinv id j t0)).
    - intros Hq. destruct (inv_wl _ _ Hinv _ _ Hq) as (j' & Hj' & _ & Hw' & _). rewrite Hj in Hj'. by injection Hj' as <-.
    - by left. }
  destruct (r_find s id) as [j'|]; [|by intros [= <-]].
  destruct (r_canceled j); intros [= <-]; [done|]. by apply dequeue_inv.
Qed.

Lemma complete_inv s id ec s' : RInv s → r_complete s id ec = Some s' → RInv s'.
Proof.
  intros Hinv. unfold r_complete.
  destruct (rs_jobs s !! id) as [j|] eqn:Hj; [|done].
  destruct (r_live j) eqn:Hl; [|done].
  destruct (inv_live _ _ Hinv id j Hj Hl) as ([t Ht] & Hcomp & Hcan).
  assert (Hnw : r_is_waiting (r_complete_job (rs_now s) ec j) = false) by (unfold r_is_waiting; simpl; by rewrite Ht).
  assert (Hinv1 : RInv (r_upd s id (r_complete_job (rs_now s) ec))).
  { eapply (upd_inv s None None id j); try done.
    all: try (simpl; by eauto).
    all: try (simpl; intros t0 Ht0; by apply (inv_start _ _ Hinv id j t0)).
    all: try by left.
    all: try by rewrite Hnw.
    all: try (simpl; intros Hcq _; rewrite Hcq; by rewrite orb_true_r).
    all: try (unfold r_is_running; simpl; by rewrite Ht).
    intros Hq. destruct (inv_wl _ _ Hinv _ _ Hq) as (j' & Hj' & _ & Hw' & _). rewrite Hj in Hj'. injection Hj' as <-.
    apply waiting_inv in Hw' as [? _]. congruence. }
  destruct (r_removed j); intros [= <-]; [done|]. by apply dequeue_inv.
Qed.

Lemma tick_inv s d : RInv s → RInv (RState (rs_defs s) (rs_jobs s) (rs_wait s) (rs_shut s) (rs_now s + Z.of_nat d)).
Proof.
  intros []. split; simpl; try done.
  - intros id j Hj Hw Hrm Ht. specialize (inv_timer0 id j Hj Hw Hrm Ht). lia.
  - intros id j t Hj Ht. specialize (inv_start0 id j t Hj Ht). lia.
  - intros id j Hj. specialize (inv_created0 id j Hj). lia.
Qed.

Lemma reload_inv s ds : RInv s → RInv (RState ds (rs_jobs s) (rs_wait s) (rs_shut s) (rs_now s)).
Proof. intros []. split; done. Qed.

Lemma init_inv ds : RInv (rinit ds).
Proof.
  split; simpl; try done.
  - intros p id Hid. by apply elem_of_nil in Hid.
  - intros p. constructor.
Qed.

(** ** save, restart, shutdown *)
Lemma in_ids_spec i l : in_ids i l = true ↔ i ∈ l.
Proof.
  unfold in_ids. rewrite existsb_exists. split.
  - intros (x & Hx & ->%Nat.eqb_eq). by apply elem_of_list_In.
  - intros Hi. exists i. split; [by apply elem_of_list_In|apply Nat.eqb_refl].
Qed.

Lemma wl_get_map_filter (w : list (name * list nat)) (P : nat → bool) p :
  wl_get (map (fun pl => (fst pl, List.filter P (snd pl))) w) p = List.filter P (wl_get w p).
Proof. induction w as [|[q l] w IH]; simpl; [done|]. by destruct (Nat.eqb q p). Qed.

Lemma save_lookup s rm id :
  rs_jobs (r_save s rm) !! id = (fun j => if in_ids id rm then r_remove j else j) <$> rs_jobs s !! id.
Proof. unfold r_save. simpl. by rewrite list_lookup_imap. Qed.

Lemma save_wait s rm p : wl_get (rs_wait (r_save s rm)) p = List.filter (fun i => negb (in_ids i rm)) (wl_get (rs_wait s) p).
Proof. unfold r_save. simpl. apply wl_get_map_filter. Qed.

Lemma save_inv s rm : RInv s → RInv (r_save s rm).
Proof.
  intros []. split.
  - intros id j'. rewrite save_lookup. destruct (rs_jobs s !! id) as [j|] eqn:Hj; [|done]. simpl. intros [= <-].
    destruct (in_ids id rm); simpl; by apply (inv_live0 id j).
  - intros id j'. rewrite save_lookup. destruct (rs_jobs s !! id) as [j|] eqn:Hj; [|done]. simpl. intros [= <-].
    destruct (in_ids id rm); [intros Hc; unfold r_is_waiting; simpl; by apply (inv_comp0 id j)|by apply (inv_comp0 id j)].
  - intros p id. rewrite save_wait. intros Hid.
    apply elem_of_list_In, filter_In in Hid as [Hid Hn]. apply elem_of_list_In in Hid.
    destruct (inv_wl0 p id Hid) as (j & Hj & ? & ? & ?). exists j. rewrite save_lookup, Hj. simpl.
    apply negb_true_iff in Hn. by rewrite Hn.
  - intros p. rewrite save_wait. apply StronglySorted_filter, inv_sorted0.
  - intros Hs id j' _. rewrite save_lookup, save_wait. destruct (rs_jobs s !! id) as [j|] eqn:Hj; [|done]. simpl. intros [= <-].
    destruct (in_ids id rm) eqn:Hin; simpl; [done|]. intros Hw Hr.
    apply elem_of_list_In, filter_In. split; [apply elem_of_list_In; by apply inv_queued0|]. by rewrite Hin.
  - intros id j'. rewrite save_lookup. destruct (rs_jobs s !! id) as [j|] eqn:Hj; [|done]. simpl. intros [= <-].
    destruct (in_ids id rm); simpl; [done|]. by apply (inv_timer0 id j).
  - intros id j' t. rewrite save_lookup. destruct (rs_jobs s !! id) as [j|] eqn:Hj; [|done]. simpl. intros [= <-].
    destruct (in_ids id rm); simpl; by apply (inv_start0 id j).
  - intros id j'. rewrite save_lookup. destruct (rs_jobs s !! id) as [j|] eqn:Hj; [|done]. simpl. intros [= <-].
    destruct (in_ids id rm); simpl; by apply (inv_created0 id j).
  - done.
  - intros id j'. rewrite save_lookup. destruct (rs_jobs s !! id) as [j|] eqn:Hj; [|done]. simpl. intros [= <-].
    destruct (in_ids id rm); simpl; by apply (inv_creq0 id j).
  - intros id j'. rewrite save_lookup. destruct (rs_jobs s !! id) as [j|] eqn:Hj; [|done]. simpl. intros [= <-].
    destruct (in_ids id rm); simpl; by apply (inv_run0 id j).
  - intros Hs id j'. rewrite save_lookup. destruct (rs_jobs s !! id) as [j|] eqn:Hj; [|done]. simpl. intros [= <-].
    destruct (in_ids id rm); simpl; [done|]. by apply (inv_shutw0 Hs id j).
Qed.

Lemma terminal_spec now j :
  r_terminal now j = true ↔
  r_is_running j = false ∧ r_live j = false ∧ r_is_waiting j = false ∧ r_creq j = false ∧ r_created j <= now ∧ r_timer j = false
  ∧ (∀ t, r_start j = Some t → r_created j + Z.of_nat (r_delay j) <= t ∧ t <= now).
Proof.
  unfold r_terminal. rewrite !andb_true_iff, !negb_true_iff, Z.leb_le. split.
  - intros [[[[[[H1 H2] H3] H4] H5] H6] Hs]. split; [done|]. split; [done|]. split; [done|]. split; [done|]. split; [done|].
    split; [done|]. intros t1 Ht1. rewrite Ht1 in Hs. apply andb_true_iff in Hs as [Ha Hb]. apply Z.leb_le in Ha, Hb. lia.
  - intros (H1&H2&H3&H4&H5&H6&Hs). repeat split; try done. destruct (r_start j) as [t1|]; [|done].
    destruct (Hs t1 eq_refl). apply andb_true_iff. split; by apply Z.leb_le.
Qed.

Lemma terminal_inv ds js now : forallb (r_terminal now) js = true → RInv (RState ds js [] false now).
Proof.
  intros Hall. rewrite forallb_forall in Hall.
  assert (Ht : ∀ id j, js !! id = Some j → r_terminal now j = true).
  { intros id j Hj. apply Hall, elem_of_list_In. by eapply elem_of_list_lookup_2. }
  split; simpl.
  - intros id j Hj Hl. apply Ht, terminal_spec in Hj as (_&?&_). congruence.
  - intros id j Hj _. by apply Ht, terminal_spec in Hj as (_&_&?&_).
  - intros p id Hid. by apply elem_of_nil in Hid.
  - intros p. constructor.
  - intros _ id j _ Hj Hw. apply Ht, terminal_spec in Hj as (_&_&?&_). congruence.
  - intros id j Hj Hw. apply Ht, terminal_spec in Hj as (_&_&?&_). congruence.
  - intros id j t Hj Hst. apply Ht, terminal_spec in Hj as (_&_&_&_&_&_&Hs). by apply Hs.
  - intros id j Hj. by apply Ht, terminal_spec in Hj as (_&_&_&_&?&_).
  - done.
  - intros id j Hj Hq. apply Ht, terminal_spec in Hj as (_&_&_&?&_). congruence.
  - intros id j Hj Hq. apply Ht, terminal_spec in Hj as (?&_). congruence.
  - done.
Qed.

Lemma restart_inv s js s' : r_restart s js = Some s' → RInv s'.
Proof. unfold r_restart. destruct (forallb _ js) eqn:H; [|done]. intros [= <-]. by apply terminal_inv. Qed.

Lemma shutdown_inv s : RInv s → RInv (r_shutdown s).
Proof.
  intros Hinv. pose proof Hinv as [].
  assert (Hlk : ∀ id, rs_jobs (r_shutdown s) !! id
                = (fun j => if in_ids id (wl_get (rs_wait s) (r_pipe j)) then r_set_canceled j else j) <$> rs_jobs s !! id).
  { intros id. unfold r_shutdown. simpl. by rewrite list_lookup_imap. }
  assert (Hq : ∀ id j, rs_jobs s !! id = Some j → in_ids id (wl_get (rs_wait s) (r_pipe j)) = true → r_is_waiting j = true).
  { intros id j Hj Hin. apply in_ids_spec in Hin. destruct (inv_wl0 _ _ Hin) as (j' & Hj' & _ & Hw & _). congruence. }
  split.
  - intros id j'. rewrite Hlk. destruct (rs_jobs s !! id) as [j|] eqn:Hj; [|done]. simpl. intros [= <-].
    destruct (in_ids id _) eqn:Hin; [|by apply (inv_live0 id)]. simpl. intros Hl.
    destruct (inv_live0 id j Hj Hl) as ([t Ht] & _). apply (Hq id j Hj) in Hin. apply waiting_inv in Hin as [? _]. congruence.
  - intros id j'. rewrite Hlk. destruct (rs_jobs s !! id) as [j|] eqn:Hj; [|done]. simpl. intros [= <-].
    destruct (in_ids id _); [|by apply (inv_comp0 id)]. intros _. unfold r_is_waiting. simpl. by destruct (r_start j).
  - intros p id Hid. by apply elem_of_nil in Hid.
  - intros p. constructor.
  - done.
  - intros id j'. rewrite Hlk. destruct (rs_jobs s !! id) as [j|] eqn:Hj; [|done]. simpl. intros [= <-].
    destruct (in_ids id _); [|by apply (inv_timer0 id)]. unfold r_is_waiting. simpl. by destruct (r_start j).
  - intros id j' t. rewrite Hlk. destruct (rs_jobs s !! id) as [j|] eqn:Hj; [|done]. simpl. intros [= <-].
    destruct (in_ids id _); simpl; by apply (inv_start0 id).
  - intros id j'. rewrite Hlk. destruct (rs_jobs s !! id) as [j|] eqn:Hj; [|done]. simpl. intros [= <-].
    destruct (in_ids id _); simpl; by apply (inv_created0 id).
  - done.
  - intros id j'. rewrite Hlk. destruct (rs_jobs s !! id) as [j|] eqn:Hj; [|done]. simpl. intros [= <-].
    destruct (in_ids id _); simpl; [done|]. by apply (inv_creq0 id).
  - intros id j'. rewrite Hlk. destruct (rs_jobs s !! id) as [j|] eqn:Hj; [|done]. simpl. intros [= <-].
    destruct (in_ids id _); [|by apply (inv_run0 id)]. unfold r_is_running. simpl. destruct (r_start j); [by rewrite andb_false_r|done].
  - intros _ id j'. rewrite Hlk. destruct (rs_jobs s !! id) as [j|] eqn:Hj; [|done]. simpl. intros [= <-].
    destruct (in_ids id _) eqn:Hin; [intros _; unfold r_is_waiting; simpl; by destruct (r_start j)|].
    intros Hrm. destruct (r_is_waiting j) eqn:Hw; [|done]. destruct (rs_shut s) eqn:Hs.
    + rewrite <- Hw. by apply (inv_shutw0 eq_refl id j).
    + pose proof (inv_queued0 eq_refl id j ltac:(done) Hj Hw Hrm) as Hq'. apply in_ids_spec in Hq'. congruence.
Qed.

Lemma cancel_all_inv s : RInv s → RInv (r_cancel_all s).
Proof.
  unfold r_cancel_all. generalize (seq 0 (length (rs_jobs s))). intros l. revert s.
  induction l as [|id l IH]; intros s Hinv; simpl; [done|]. apply IH. by apply cancel_inv.
Qed.

Lemma rstep_inv s e s' r : RInv s → rstep s e = Some (s', r) → RInv s'.
Proof.
  intros Hinv. destruct e as [rm|js| | |p gok sn|id|d|id|ds|id ec]; simpl.
  - intros [= <- <-]. by apply save_inv.
  - destruct (r_restart s js) as [s1|] eqn:Hf; simpl; [|done]. intros [= <- <-]. by eapply restart_inv.
  - intros [= <- <-]. by apply shutdown_inv.
  - intros [= <- <-]. by apply cancel_all_inv.
  - intros [= Heq]. replace s' with (r_schedule s p gok sn).1 by (by rewrite Heq). by apply schedule_inv.
  - intros [= Heq]. replace s' with (r_cancel s id).1 by (by rewrite Heq). by apply cancel_inv.
  - intros [= <- <-]. by apply tick_inv.
  - destruct (r_fire s id) as [s1|] eqn:Hf; simpl; [|done]. intros [= <- <-]. by eapply fire_inv.
  - intros [= <- <-]. by apply reload_inv.
  - destruct (r_complete s id ec) as [s1|] eqn:Hf; simpl; [|done]. intros [= <- <-]. by eapply complete_inv.
Qed.

Theorem rreach_inv s : rreach s → RInv s.
Proof. induction 1 as [ds|ds js Hjs|s e s' r Hr IH Hs]; [apply init_inv|by apply terminal_inv|by eapply rstep_inv]. Qed.

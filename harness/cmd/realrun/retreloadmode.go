package main

import (
	"encoding/json"
	"fmt"
	"strings"
	"time"
)

// retreload mode (C12): the retention settings in force are those of the definitions in force. The real application in
// watch mode with its own persist loop (a save at most some 3 s after a change); pipelines.yml goes
//   plain -> keep1 -> plain   (back to the start-up content: afterwards nothing may be removed any more), and
//   keep1 -> plain -> keep1   (back to the start-up content: afterwards at most one finished job remains after a save).
// "plain" has no retention settings, "keep1" has retention_count 1; the scripts differ so that the version a job ran is visible.

func retPipes(v string) map[string]PipeDef {
	p := PipeDef{Concurrency: 1, Tasks: map[string]TaskDef{"a": {Script: []string{"echo ver=" + v}}}}
	if v == "keep1" {
		p.RetentionCount = 1
	}
	return map[string]PipeDef{"r": p}
}

// finished jobs of pipeline r as the API reports them
func (a *App) finishedJobs() ([]string, bool) {
	st, b, err := a.req("GET", "/pipelines/jobs", nil)
	if err != nil || st != 200 {
		return nil, false
	}
	var out struct {
		Jobs []struct {
			ID        string `json:"id"`
			Pipeline  string `json:"pipeline"`
			Completed bool   `json:"completed"`
		} `json:"jobs"`
	}
	if json.Unmarshal(b, &out) != nil {
		return nil, false
	}
	var ids []string
	for _, j := range out.Jobs {
		if j.Pipeline == "r" && j.Completed {
			ids = append(ids, j.ID)
		}
	}
	return ids, true
}

// runs one job to its end (a job that retention removed right after it finished counts as finished); returns its output if still available
func (a *App) runOne() string {
	id, st, _ := a.Schedule("r", nil)
	if st != 202 {
		return fmt.Sprintf("<not accepted: %d>", st)
	}
	deadline := time.Now().Add(20 * time.Second)
	for time.Now().Before(deadline) {
		j, code := a.Detail(id)
		if code == 404 {
			return "<removed>"
		}
		if j != nil && j.Completed {
			if l, _ := a.Logs(id, "a"); l != nil {
				return strings.TrimSpace(l.Stdout)
			}
			return "<removed>"
		}
		time.Sleep(3 * time.Millisecond)
	}
	return "<not finished>"
}

func (a *App) switchTo(v string) (bool, string) {
	if err := a.WriteDefs(retPipes(v)); err != nil {
		return false, err.Error()
	}
	last := ""
	for tries := 0; tries < 8; tries++ {
		time.Sleep(300 * time.Millisecond)
		last = a.runOne()
		if last == "ver="+v {
			return true, last
		}
	}
	return false, last
}

func retReloadMode() {
	const settle = 4700 * time.Millisecond // persist interval 3 s + margin: a save has happened after the last job finished
	for round, walk := range [][]string{{"plain", "keep1", "plain"}, {"keep1", "plain", "keep1"}} {
		rec := map[string]interface{}{"kind": "retreload", "round": round, "walk": walk, "ok": true}
		a, err := startApp(retPipes(walk[0]), "--watch", "--poll-interval", "40ms")
		if err != nil {
			emit(map[string]interface{}{"kind": "error", "round": round, "what": err.Error()})
			continue
		}
		for i := 0; i < 3; i++ {
			a.runOne()
		}
		seen1, out1 := a.switchTo(walk[1])
		for i := 0; i < 2; i++ {
			a.runOne()
		}
		seen2, out2 := a.switchTo(walk[2])
		for i := 0; i < 3; i++ {
			a.runOne()
		}
		before, ok1 := a.finishedJobs()
		time.Sleep(settle)
		after, ok2 := a.finishedJobs()
		if walk[2] == "keep1" {
			// a slow machine: give the persist loop up to one more interval before more than one finished job counts as kept
			for extra := 0; ok2 && len(after) > 1 && extra < 12; extra++ {
				time.Sleep(300 * time.Millisecond)
				after, ok2 = a.finishedJobs()
			}
		}
		a.Stop()
		rec["first_change_seen"], rec["second_change_seen"] = seen1, seen2
		rec["finished_before"], rec["finished_after"] = len(before), len(after)
		var what, rwhat []string
		if !ok1 || !ok2 {
			emit(map[string]interface{}{"kind": "error", "round": round, "what": "job list not available"})
			continue
		}
		if !seen1 {
			what = append(what, fmt.Sprintf("the change %s->%s of the definitions file was not picked up (a job accepted afterwards printed %q)", walk[0], walk[1], out1))
		}
		if !seen2 {
			what = append(what, fmt.Sprintf("the change %s->%s (back to the start-up content) was not picked up (a job accepted afterwards printed %q)", walk[1], walk[2], out2))
		}
		if walk[2] == "plain" {
			still := map[string]bool{}
			for _, id := range after {
				still[id] = true
			}
			gone := 0
			for _, id := range before {
				if !still[id] {
					gone++
				}
			}
			if gone > 0 {
				rwhat = append(rwhat, fmt.Sprintf("the pipeline has no retention settings (definitions file %v), yet %d of its %d finished jobs were removed by a later save", walk, gone, len(before)))
			}
		} else if len(after) > 1 {
			rwhat = append(rwhat, fmt.Sprintf("the pipeline has retention_count 1 (definitions file %v), yet %d finished jobs remain %v after the last job finished", walk, len(after), settle))
		}
		if len(rwhat) > 0 {
			rec["retention_what"] = strings.Join(rwhat, "; ")
		}
		what = append(what, rwhat...)
		if len(what) > 0 {
			rec["ok"] = false
			rec["what"] = strings.Join(what, "; ")
		}
		emit(rec)
	}
}

(** * C04 — An acknowledged cancel always takes effect and is never lost *)
From stdpp Require Import list.
From Coq Require Import ZArith.
From PV Require Import Runner proofs.SystemProps.

(** answers: unknown id → not found; already canceled → ok, nothing changes; finished → error, nothing changes;
    otherwise acknowledged *)
Theorem C04_answers : ∀ s id,
  match find_job s id with
  | None => cancel_job s id true = (s, RErrNotFound)
  | Some j =>
      if j_canceled j then cancel_job s id true = (s, ROk)
      else if j_completed j then cancel_job s id true = (s, RErrCompleted)
      else (cancel_job s id true).2 = ROk
  end.
Proof. exact cancel_results. Qed.

(** a job canceled before it started never starts and never gets a scheduler (so none of its tasks runs) *)
Theorem C04_waiting_never_runs : ∀ s evs id j,
  reach s → Forall no_restart evs → get_job s id = Some j →
  ∃ j', get_job (exec s evs) id = Some j' ∧ job_snapshot j' = job_snapshot j
        ∧ (j_canceled j = true → j_canceled j' = true) ∧ (j_completed j = true → j_completed j' = true)
        ∧ (is_Some (j_start j) → is_Some (j_start j'))
        ∧ (j_canceled j = true → j_start j = None → j_start j' = None ∧ j_sched j' = None).
Proof. exact sys_snapshot_immutable. Qed.

(** the acknowledged cancel of a running job is recorded on the job ... *)
Theorem C04_running_recorded : ∀ s id j sc,
  find_job s id = Some j → j_canceled j = false → j_completed j = false → is_Some (j_start j) → j_sched j = Some sc →
  ∃ j', get_job (cancel_job s id true).1 id = Some j' ∧ j_cancel_req j' = true.
Proof. exact cancel_running_records. Qed.

(** ... and whatever happens afterwards, wherever the scheduler is interrupted, the job ends reported as canceled *)
Theorem C04_ends_canceled : ∀ s id j evs j',
  reach s → Forall no_restart evs → get_job s id = Some j → j_cancel_req j = true →
  get_job (exec s evs) id = Some j' → j_completed j' = true → j_canceled j' = true.
Proof. exact cancel_request_ends_canceled. Qed.

(** once the stop has been delivered to a job, a task whose Run is entered is refused instead of executed *)
Theorem C04_told_refuses : ∀ s id n j sc s' r,
  get_job s id = Some j → j_sched j = Some sc → sc_ctx sc = true → step s (EvRunBegin id n) = Some (s', r) →
  ∃ g, st_ghost s' = g ++ ORunRefused id n :: st_ghost s ∧ ∀ o, o ∈ g → ∀ m, o ≠ ORunBegan id m.
Proof. exact told_refuses. Qed.

(** non-vacuity: cancel between two tasks (a finished, b not launched) ends canceled; the history of defect D4 *)
Definition ex_defs : defs :=
  [(0%nat, PDef 1 None false 0 false 0 0 0 [(0%nat, TaskDef [] false false 0 0); (1%nat, TaskDef [0%nat] false false 0 0)])].
Example C04_ex_gap :
  let s := exec (init ex_defs) [EvSchedule 0 VNone 0; EvIterBegin 0; EvVisit 0 0; EvVisit 0 1; EvRunBegin 0 0; EvRunEnd 0 0 OutOk; EvNotify 0 0;
                                EvCancel 0; EvCancelDeliver 0; EvIterBegin 0; EvSchedReturn 0] in
  (fun j => (j_completed j, j_canceled j, j_lasterr j)) <$> get_job s 0 = Some (true, true, None).
Proof. vm_compute. done. Qed.

Print Assumptions C04_answers.
Print Assumptions C04_waiting_never_runs.
Print Assumptions C04_running_recorded.
Print Assumptions C04_ends_canceled.
Print Assumptions C04_told_refuses.

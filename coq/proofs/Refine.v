(** Refinement: every step of the system model is a step of the abstract runner machine on the abstraction of the
    state, or leaves the abstraction unchanged. Hence abstractions of reachable system states are reachable in the
    abstract machine, and its invariants transfer. *)
From stdpp Require Import list.
From Coq Require Import ZArith Lia.
From PV Require Import Runner proofs.RunnerBase proofs.RunnerInv.
Local Open Scope Z_scope.

Lemma filter_map_length {A B} (f : B → bool) (g : A → B) (l : list A) :
  length (List.filter f (map g l)) = length (List.filter (fun x => f (g x)) l).
Proof. induction l as [|x l IH]; simpl; [done|]. destruct (f (g x)); simpl; by rewrite IH. Qed.

Lemma abs_running_count s p : running_count s p = r_running_count (abs s) p.
Proof.
  unfold running_count, r_running_count. simpl. rewrite filter_map_length. done.
Qed.

Lemma abs_resolve s p i : resolve_action s p i = r_resolve_action (abs s) p i.
Proof. unfold resolve_action, r_resolve_action. by rewrite abs_running_count. Qed.

Lemma abs_lookup s id : rs_jobs (abs s) !! id = abs_job <$> (st_jobs s !! id).
Proof. simpl. by rewrite list_lookup_fmap. Qed.

Lemma abs_find s id : r_find (abs s) id = abs_job <$> find_job s id.
Proof.
  unfold r_find, find_job, get_job. rewrite abs_lookup.
  destruct (st_jobs s !! id) as [j|]; simpl; [|done]. by destruct (j_removed j).
Qed.

Lemma abs_upd s id f g : (∀ j, abs_job (f j) = g (abs_job j)) → abs (upd_job s id f) = r_upd (abs s) id g.
Proof.
  intros H. unfold abs, upd_job, r_upd, r_set_jobs. simpl. f_equal.
  change (map abs_job) with (fmap (M:=list) abs_job).
  apply list_alter_fmap. apply Forall_forall. intros x _. apply H.
Qed.

Lemma abs_upd_same s id f : (∀ j, abs_job (f j) = abs_job j) → abs (upd_job s id f) = abs s.
Proof.
  intros H. rewrite (abs_upd s id f (fun x => x)) by done. unfold r_upd, r_set_jobs. destruct (abs s). simpl. f_equal.
  apply list_alter_id. done.
Qed.

Lemma abs_log s o : abs (log s o) = abs s. Proof. done. Qed.
Lemma abs_req s : abs (request_persist s) = abs s. Proof. done. Qed.
Lemma abs_clear_req s : abs (clear_req s) = abs s. Proof. done. Qed.
Lemma abs_set_wait s p l : abs (set_wait s p l) = r_set_wait (abs s) p l. Proof. done. Qed.

(** the graph decision only looks at the job's variables and the names / definitions of its tasks *)
Lemma graph_ok_ext j j' :
  j_vars j' = j_vars j → map (fun t => (jt_name t, jt_def t)) (j_tasks j') = map (fun t => (jt_name t, jt_def t)) (j_tasks j) →
  graph_ok j' = graph_ok j.
Proof.
  intros Hv Ht. unfold graph_ok, job_graph. rewrite Hv, Ht.
  destruct (j_vars j); try done.
  destruct (j_tasks j') as [|a l], (j_tasks j) as [|b l']; simpl in *; try done.
Qed.

Ltac absjob :=
  unfold abs_job; simpl; f_equal;
  try done;
  try (apply graph_ok_ext; [done|simpl; rewrite ?map_map; simpl; done]);
  try (f_equal; unfold job_graph; simpl; rewrite ?map_map; simpl; done);
  try (by rewrite ?orb_true_r, ?orb_false_r).

Lemma abs_try_start s id :
  (abs (try_start s id).1, (try_start s id).2) = r_try_start (abs s) id.
Proof.
  unfold try_start, r_try_start. rewrite abs_find.
  destruct (find_job s id) as [j|] eqn:Hf; simpl; [|done].
  destruct (j_canceled j) eqn:Hc; [done|].
  destruct (graph_ok j) eqn:Hg; simpl.
  - rewrite abs_log. f_equal. erewrite abs_upd; [done|].
    intros j0. unfold r_started. absjob.
  - rewrite abs_log. f_equal. erewrite abs_upd; [done|].
    intros j0. unfold r_failed. absjob.
Qed.

Lemma abs_dequeue_loop fuel s p : abs (dequeue_loop fuel s p) = r_dequeue_loop fuel (abs s) p.
Proof.
  revert s. induction fuel as [|x0 fuel IH]; intros s; [done|].
  cbn [dequeue_loop r_dequeue_loop].
  change (rs_wait (abs s)) with (st_wait s).
  destruct (wl_get (st_wait s) p) as [|h rest]; [done|].
  unfold get_job. rewrite abs_lookup.
  destruct (st_jobs s !! h) as [j|]; [|done].
  cbn [fmap option_fmap option_map].
  unfold resolve_dequeue. rewrite abs_resolve.
  change (r_pipe (abs_job j)) with (j_pipe j). change (r_timer (abs_job j)) with (j_timer j).
  destruct (bool_decide _ && negb (j_timer j)); [|done].
  rewrite IH. f_equal.
  pose proof (abs_try_start (set_wait s p rest) h) as H. rewrite abs_set_wait in H.
  by rewrite <- H.
Qed.

Lemma abs_dequeue s p : abs (dequeue s p) = r_dequeue (abs s) p.
Proof. apply abs_dequeue_loop. Qed.

Lemma abs_start_job s id p : abs (start_job s id p) = r_start_job (abs s) id p.
Proof.
  unfold start_job, r_start_job. pose proof (abs_try_start s id) as H.
  destruct (try_start s id) as [s' failed]. destruct (r_try_start (abs s) id) as [rs' rfailed].
  simpl in H. injection H as <- <-. destruct failed; [apply abs_dequeue|done].
Qed.

Lemma abs_append s j : abs (set_jobs s (st_jobs s ++ [j])) = r_set_jobs (abs s) (rs_jobs (abs s) ++ [abs_job j]).
Proof. unfold abs, set_jobs, r_set_jobs. simpl. by rewrite map_app. Qed.

Lemma abs_schedule s p v u :
  (abs (do_schedule s p v u).1, (do_schedule s p v u).2)
  = r_schedule (abs s) p (graph_ok (new_job s p (default zero_def (lookup_def (st_defs s) p)) v u))
               (r_snap (abs_job (new_job s p (default zero_def (lookup_def (st_defs s) p)) v u))).
Proof.
  unfold do_schedule, r_schedule. change (rs_shut (abs s)) with (st_shut s). change (rs_defs (abs s)) with (st_defs s).
  destruct (st_shut s); [done|].
  destruct (lookup_def (st_defs s) p) as [d|]; [|done].
  change (default zero_def (Some d)) with d.
  rewrite <- abs_resolve.
  assert (Hlen : length (rs_jobs (abs s)) = length (st_jobs s)) by (simpl; by rewrite map_length).
  assert (Hnj : abs_job (new_job s p d v u) = r_new_job (abs s) p d (graph_ok (new_job s p d v u)) (r_snap (abs_job (new_job s p d v u)))) by done.
  destruct (resolve_action s p false) eqn:Hact; cbn [fst snd]; try done.
  - rewrite abs_start_job, abs_log, abs_req, abs_append, Hnj, Hlen. done.
  - rewrite abs_set_wait, abs_log, abs_req, abs_append, Hnj, Hlen. done.
  - change (rs_wait (r_set_jobs (abs s) (rs_jobs (abs s) ++ [r_new_job (abs s) p d (graph_ok (new_job s p d v u)) (r_snap (abs_job (new_job s p d v u)))])))
      with (st_wait s).
    change (st_wait (log (request_persist (set_jobs s (st_jobs s ++ [new_job s p d v u]))) (OAccepted (length (st_jobs s)) p)))
      with (st_wait s).
    destruct (last (wl_get (st_wait s) p)) as [prev|]; cbn [fst snd].
    + rewrite abs_log, abs_set_wait.
      rewrite (abs_upd _ prev set_canceled_notimer r_cancel_notimer).
      2:{ intros j0. unfold set_canceled_notimer, r_cancel_notimer. absjob. }
      rewrite abs_log, abs_req, abs_append, Hnj, Hlen. done.
    + rewrite abs_log, abs_req, abs_append, Hnj, Hlen. done.
Qed.

Lemma abs_cancel_request s id :
  (abs (cancel_job s id true).1, (cancel_job s id true).2) = r_cancel (abs s) id.
Proof.
  unfold cancel_job, r_cancel. rewrite abs_find.
  destruct (find_job s id) as [j|]; simpl; [|done].
  destruct (j_canceled j); [done|]. destruct (j_completed j); [done|].
  destruct (j_start j); simpl.
  - destruct (j_sched j); simpl; [|done]. f_equal. rewrite (abs_upd _ id (add_cancel true) r_set_creq); [done|].
    intros j0. unfold add_cancel, r_set_creq. absjob.
  - rewrite abs_req, abs_dequeue, abs_log, abs_set_wait. f_equal. f_equal. f_equal.
    rewrite (abs_upd _ id mark_canceled r_cancel_notimer); [done|].
    intros j0. unfold mark_canceled, r_cancel_notimer. absjob.
Qed.

(** fail-fast cancel of a job whose scheduler is alive does not change the abstraction *)
Lemma abs_cancel_failfast s id :
  RInv (abs s) → (∃ j sc, st_jobs s !! id = Some j ∧ j_sched j = Some sc) →
  abs (cancel_job s id false).1 = abs s.
Proof.
  intros Hinv (j & sc & Hj & Hsc). unfold cancel_job, find_job, get_job. rewrite Hj.
  destruct (j_removed j); [done|].
  assert (Hl : r_live (abs_job j) = true) by (simpl; by rewrite Hsc).
  destruct (inv_live _ _ Hinv id (abs_job j)) as ([t Ht] & Hcomp & Hcan); [by rewrite abs_lookup, Hj|done|].
  simpl in Ht, Hcomp, Hcan. rewrite Hcan, Hcomp, Ht, Hsc. simpl.
  apply abs_upd_same. intros j0. unfold add_cancel. absjob.
Qed.

Lemma abs_fire s id :
  abs <$> do_fire_timer s id = r_fire (abs s) id.
Proof.
  unfold do_fire_timer, r_fire, get_job. rewrite abs_lookup, abs_find.
  destruct (st_jobs s !! id) as [j|] eqn:Hj; simpl; [|done].
  change (r_timer_due (abs s) (abs_job j)) with (timer_due s j).
  destruct (timer_due s j); [|done].
  assert (Hct : ∀ j0, abs_job (clear_timer j0) = r_clear_timer (abs_job j0)).
  { intros j0. unfold clear_timer, r_clear_timer. absjob. }
  destruct (find_job s id) as [j'|]; simpl.
  - destruct (j_canceled j); simpl.
    + f_equal. by apply abs_upd.
    + f_equal. rewrite abs_dequeue. f_equal. by apply abs_upd.
  - f_equal. by apply abs_upd.
Qed.

Lemma abs_sched_return s id s' :
  do_sched_return s id = Some s' →
  ∃ ec, r_complete (abs s) id ec = Some (abs s').
Proof.
  unfold do_sched_return, with_sched, get_job. intros H.
  destruct (st_jobs s !! id) as [j|] eqn:Hj; [|done].
  destruct (j_sched j) as [sc|] eqn:Hsc; [|done].
  destruct (sc_phase sc); try done. destruct (sc_entry sc); try done. destruct (sc_running sc); try done.
  exists (bool_decide (sc_lasterr sc = Some ECanceled)).
  unfold r_complete. rewrite abs_lookup, Hj. simpl. rewrite Hsc.
  assert (Hc : ∀ j0, abs_job (complete (st_now s) (sc_lasterr sc) j0)
                     = r_complete_job (rs_now (abs s)) (bool_decide (sc_lasterr sc = Some ECanceled)) (abs_job j0)).
  { intros j0. unfold complete, r_complete_job. absjob. }
  destruct (j_removed j); injection H as <-; f_equal.
  - symmetry. by apply abs_upd.
  - rewrite abs_req, abs_dequeue, abs_log. f_equal. symmetry. by apply abs_upd.
Qed.

(** ** events inside a job: the abstraction does not move *)
Definition live (s : state) (id : nat) : Prop := ∃ j sc, st_jobs s !! id = Some j ∧ j_sched j = Some sc.

Lemma live_abs s s' id : abs s' = abs s → live s id → live s' id.
Proof.
  intros Ha (j & sc & Hj & Hsc).
  assert (H : rs_jobs (abs s') !! id = rs_jobs (abs s) !! id) by (by rewrite Ha).
  rewrite !abs_lookup, Hj in H. destruct (st_jobs s' !! id) as [j'|] eqn:Hj'; [|done].
  simpl in H. assert (Hl : r_live (abs_job j') = r_live (abs_job j)) by congruence.
  simpl in Hl. rewrite Hsc in Hl.
  destruct (j_sched j') as [sc'|] eqn:E; [|done]. by exists j', sc'.
Qed.

Lemma abs_put_sched s id sc : live s id → abs (put_sched s id sc) = abs s.
Proof.
  intros (j & sc0 & Hj & Hsc). unfold put_sched, upd_job, abs, set_jobs. simpl. f_equal.
  apply list_eq. intros i. rewrite !list_lookup_fmap. destruct (decide (id = i)) as [<-|Hne].
  - rewrite list_lookup_alter, Hj. simpl. f_equal. unfold abs_job. simpl. rewrite Hsc. f_equal.
  - by rewrite list_lookup_alter_ne.
Qed.

Lemma abs_job_upd_task j n f :
  (∀ t, jt_name (f t) = jt_name t ∧ jt_def (f t) = jt_def t) → abs_job (upd_task j n f) = abs_job j.
Proof.
  intros Hf.
  assert (Hg : job_graph (upd_task j n f) = job_graph j).
  { unfold job_graph. simpl. rewrite map_map. apply map_ext. intros t. destruct (jt_name t =? n)%nat; [|done].
    destruct (Hf t) as [-> ->]. done. }
  unfold abs_job. simpl. f_equal; [|by rewrite Hg]. by apply graph_ok_ext.
Qed.

Lemma abs_handle_stage_change s id n st : abs (handle_stage_change s id n st) = abs s.
Proof.
  unfold handle_stage_change. destruct (find_job s id) as [j|]; [|done].
  destruct (find_task j n); [|done]. rewrite abs_req. apply abs_upd_same.
  intros jx. apply abs_job_upd_task. done.
Qed.

Lemma abs_handle_task_change s id n t :
  RInv (abs s) → live s id → abs (handle_task_change s id n t) = abs s.
Proof.
  intros Hinv Hlive. unfold handle_task_change. destruct (find_job s id) as [j|] eqn:Hf; [|done].
  destruct (find_task j n); [|done]. rewrite abs_req.
  match goal with |- abs (if _ then _ else ?s1) = _ => set (s1' := s1) end.
  assert (Hs1 : abs s1' = abs s).
  { subst s1'. apply abs_upd_same. intros jx. apply abs_job_upd_task. intros t0.
    destruct (tn_err t) as [[]|]; done. }
  match goal with |- abs (if ?c then _ else _) = _ => destruct c end; [|done].
  destruct (lookup_def (st_defs s1') (j_pipe j)) as [d|]; [|done].
  destruct (pd_continue d); [done|].
  rewrite abs_cancel_failfast; [done|by rewrite Hs1|by eapply live_abs].
Qed.

Lemma abs_stage_end s id n r : abs (stage_end s id n r) = abs s.
Proof.
  unfold stage_end, get_job. destruct (st_jobs s !! id) as [j|] eqn:Hj; [|done].
  destruct (j_sched j) as [sc|] eqn:Hsc; [|done].
  assert (Hl : live s id) by (by exists j, sc).
  destruct r as [e|].
  - set (s1 := handle_stage_change _ id n Error).
    assert (H1 : abs s1 = abs s) by (subst s1; by rewrite abs_handle_stage_change, abs_put_sched).
    destruct (match find_task j n with Some t => td_allow (jt_def t) | None => false end).
    + rewrite abs_handle_stage_change, abs_put_sched; [done|by eapply live_abs].
    + rewrite abs_put_sched; [done|by eapply live_abs].
  - by rewrite abs_handle_stage_change, abs_put_sched.
Qed.

Lemma with_sched_live s id f s' : with_sched s id f = Some s' → ∃ j sc, st_jobs s !! id = Some j ∧ j_sched j = Some sc ∧ f j sc = Some s'.
Proof.
  unfold with_sched, get_job. destruct (st_jobs s !! id) as [j|]; [|done].
  destruct (j_sched j) as [sc|] eqn:Hsc; [|done]. intros H. exists j, sc. done.
Qed.

Lemma abs_iter_begin s id s' : do_iter_begin s id = Some s' → abs s' = abs s.
Proof.
  intros (j & sc & Hj & Hsc & H)%with_sched_live. destruct (sc_phase sc); try done.
  injection H as <-. apply abs_put_sched. by exists j, sc.
Qed.

Lemma abs_visit s id n s' : do_visit s id n = Some s' → abs s' = abs s.
Proof.
  intros (j & sc & Hj & Hsc & H)%with_sched_live.
  assert (Hl : live s id) by (by exists j, sc).
  destruct (sc_phase sc) as [|todo|]; try done. destruct (mem n todo); [|done].
  destruct (stage_status sc n) as [[]|]; try (injection H as <-; by apply abs_put_sched).
  destruct (check_status sc j n) as [ready cancel]. destruct ready.
  - injection H as <-. rewrite abs_put_sched; [apply abs_handle_stage_change|].
    eapply live_abs; [apply abs_handle_stage_change|done].
  - destruct cancel; injection H as <-; by apply abs_put_sched.
Qed.

Lemma abs_run_begin s id n s' : RInv (abs s) → do_run_begin s id n = Some s' → abs s' = abs s.
Proof.
  intros Hinv (j & sc & Hj & Hsc & H)%with_sched_live.
  assert (Hl : live s id) by (by exists j, sc).
  destruct (mem n (sc_entry sc)); [|done]. destruct (sc_ctx sc).
  - injection H as <-. by rewrite abs_stage_end.
  - destruct (match find_task j n with Some t => td_empty (jt_def t) | None => true end).
    + injection H as <-. by rewrite abs_stage_end.
    + injection H as <-. rewrite abs_handle_task_change.
      * by rewrite abs_put_sched.
      * by rewrite abs_put_sched.
      * eapply live_abs; [|exact Hl]. by rewrite abs_put_sched.
Qed.

Lemma abs_run_end s id n o s' : RInv (abs s) → do_run_end s id n o = Some s' → abs s' = abs s.
Proof.
  intros Hinv (j & sc & Hj & Hsc & H)%with_sched_live.
  assert (Hl : live s id) by (by exists j, sc).
  assert (Htc : ∀ o t, abs (handle_task_change (log s o) id n t) = abs s).
  { intros o0 t. etrans; [apply abs_handle_task_change; [exact Hinv|exact Hl]|done]. }
  destruct (mem n (sc_running sc)); [|done].
  destruct o as [|code|].
  - injection H as <-. by rewrite abs_stage_end.
  - destruct (match find_task j n with Some t => td_allow (jt_def t) | None => false end).
    + injection H as <-. rewrite abs_stage_end.
      rewrite abs_handle_task_change; [by rewrite Htc|by rewrite Htc|].
      eapply live_abs; [apply Htc|done].
    + injection H as <-. by rewrite abs_stage_end.
  - destruct (sc_ctx sc); [|done]. injection H as <-. by rewrite abs_stage_end.
Qed.

Lemma abs_cancel_deliver s id s' : do_cancel_deliver s id = Some s' → abs s' = abs s.
Proof.
  unfold do_cancel_deliver, get_job. destruct (st_jobs s !! id) as [j|] eqn:Hj; [|done].
  destruct (j_cancels j) as [|k]; [done|].
  match goal with |- context [upd_job s id ?f] => set (dec := f) end.
  assert (H1 : abs (upd_job s id dec) = abs s).
  { apply abs_upd_same. intros j0. unfold dec. absjob. }
  destruct (j_sched j) as [sc|] eqn:Hsc; intros [= <-]; [|done].
  rewrite abs_log, abs_put_sched; [done|]. eapply live_abs; [exact H1|]. by exists j, sc.
Qed.

(** ** the refinement theorem *)
Theorem refine_step s e s' r :
  RInv (abs s) → step s e = Some (s', r) →
  (abs s' = abs s ∧ r = RNone) ∨ ∃ re, rstep (abs s) re = Some (abs s', r) ∧ (∀ ds, re = RvReload ds → e = EvReload ds).
Proof.
  intros Hinv. unfold step.
  assert (Hinv' : RInv (abs (clear_req s))) by done.
  destruct e as [p v u|id|d|id|ds|id|id n|id n|id n o|id|id]; simpl.
  - intros [= Heq]. right. exists (RvSchedule p (graph_ok (new_job (clear_req s) p (default zero_def (lookup_def (st_defs s) p)) v u))
                       (r_snap (abs_job (new_job (clear_req s) p (default zero_def (lookup_def (st_defs s) p)) v u)))).
    split; [|done]. simpl. rewrite <- (abs_schedule (clear_req s)). simpl. by rewrite Heq.
  - intros [= Heq]. right. exists (RvCancel id). split; [|done]. simpl. rewrite <- (abs_cancel_request (clear_req s)). by rewrite Heq.
  - intros [= <- <-]. right. by exists (RvTick d).
  - destruct (do_fire_timer (clear_req s) id) as [s1|] eqn:Hf; simpl; [|done]. intros [= <- <-].
    right. exists (RvFire id). split; [|done]. simpl. rewrite <- (abs_fire (clear_req s)). by rewrite Hf.
  - intros [= <- <-]. right. exists (RvReload ds). split; [done|]. by intros ds' [= ->].
  - destruct (do_iter_begin (clear_req s) id) as [s1|] eqn:Hf; simpl; [|done]. intros [= <- <-].
    left. split; [|done]. by rewrite (abs_iter_begin _ _ _ Hf).
  - destruct (do_visit (clear_req s) id n) as [s1|] eqn:Hf; simpl; [|done]. intros [= <- <-].
    left. split; [|done]. by rewrite (abs_visit _ _ _ _ Hf).
  - destruct (do_run_begin (clear_req s) id n) as [s1|] eqn:Hf; simpl; [|done]. intros [= <- <-].
    left. split; [|done]. by rewrite (abs_run_begin _ _ _ _ Hinv' Hf).
  - destruct (do_run_end (clear_req s) id n o) as [s1|] eqn:Hf; simpl; [|done]. intros [= <- <-].
    left. split; [|done]. by rewrite (abs_run_end _ _ _ _ _ Hinv' Hf).
  - destruct (do_cancel_deliver (clear_req s) id) as [s1|] eqn:Hf; simpl; [|done]. intros [= <- <-].
    left. split; [|done]. by rewrite (abs_cancel_deliver _ _ _ Hf).
  - destruct (do_sched_return (clear_req s) id) as [s1|] eqn:Hf; simpl; [|done]. intros [= <- <-].
    right. destruct (abs_sched_return _ _ _ Hf) as [ec Hec]. exists (RvComplete id ec). split; [|done]. simpl.
    change (abs (clear_req s)) with (abs s) in Hec. by rewrite Hec.
Qed.

Theorem reach_refines s : reach s → rreach (abs s).
Proof.
  induction 1 as [ds|s e s' r Hr IH Hs]; [apply rreach_init|].
  destruct (refine_step s e s' r (rreach_inv _ IH) Hs) as [[-> _]|[re [Hre _]]]; [done|].
  by eapply rreach_step.
Qed.

Corollary reach_inv s : reach s → RInv (abs s).
Proof. intros H. by apply rreach_inv, reach_refines. Qed.

(** * C06 — Queued jobs of a pipeline start in the order they were accepted *)
From stdpp Require Import list sorting.
From Coq Require Import ZArith.
From PV Require Import System Runner proofs.SystemProps proofs.TimerProps.

(** Job ids are acceptance order. Every wait list is strictly increasing: append adds the newest job at the end,
    replace overwrites the last entry with a newer one, cancels and failures remove entries — nothing reorders. *)
Theorem C06_waitlist_in_acceptance_order : ∀ s p, reach s → StronglySorted lt (wl_get (st_wait s) p).
Proof. exact sys_wait_sorted. Qed.

(** ... and the wait list is exactly the waiting jobs, so "queued before" and "accepted before and still waiting" agree *)
Theorem C06_waitlist_is_waiting_jobs : ∀ s p,
  reach s → st_shut s = false → wl_get (st_wait s) p = sys_waiting_ids s p.
Proof. exact sys_wait_list_exact. Qed.

(** Slots are handed out from the head: whenever the dequeue loop takes job [id] off the wait list (starts it, or
    finds it unstartable), every job queued before it has left the wait list too — a job never starts from the queue
    while a job accepted before it is still waiting. *)
Theorem C06_fifo_dequeue : ∀ s p id id',
  reach s → id ∈ wl_get (st_wait s) p → id' ∈ wl_get (st_wait s) p → (id' < id)%nat →
  abs_job <$> get_job (dequeue s p) id ≠ abs_job <$> get_job s id →
  id' ∉ wl_get (st_wait (dequeue s p)) p.
Proof. exact sys_dequeue_fifo. Qed.

(** The only other way to start is at acceptance. Under an unchanged definition a request is started at once only when
    nobody is waiting in its pipeline: a waiting head without timer means every slot is taken (work conservation), a waiting
    head with a pending timer means the pipeline has a start delay, and then the new request waits as well *)
Theorem C06_immediate_start_only_when_nobody_waits : ∀ ds evs p,
  Forall no_reload evs → let s := exec (init ds) evs in
  st_shut s = false → resolve_action s p false = AStart → wl_get (st_wait s) p = [].
Proof. exact immediate_start_only_when_nobody_waits. Qed.

Definition ex_defs : defs := [(0%nat, PDef 1 None false 0 false 0 0 0 [])].
Example C06_ex :
  let s := exec (init ex_defs) [EvSchedule 0 VNone 0; EvSchedule 0 VNone 0; EvSchedule 0 VNone 0; EvSchedule 0 VNone 0; EvCancel 2] in
  wl_get (st_wait s) 0 = [1%nat; 3%nat]
  ∧ wl_get (st_wait (exec s [EvSchedReturn 0])) 0 = [3%nat]
  ∧ is_running <$> get_job (exec s [EvSchedReturn 0]) 1 = Some true.
Proof. vm_compute. done. Qed.

Print Assumptions C06_waitlist_in_acceptance_order.
Print Assumptions C06_waitlist_is_waiting_jobs.
Print Assumptions C06_fifo_dequeue.
Print Assumptions C06_immediate_start_only_when_nobody_waits.

(** Stage bookkeeping invariant of the per-job scheduler (C02: a task begins only after its dependencies are satisfied;
    C08: when a job completes no task is reported running). Over System.reach. *)
From stdpp Require Import list.
From Coq Require Import ZArith Lia.
From PV Require Import System Runner proofs.RunnerBase proofs.RunnerInv proofs.Refine proofs.SchedProps proofs.OnceProps.

Definition note_status (r : option err) (b : bool) : status := match r with Some _ => if b then Done else Error | None => Done end.

Record SJ (j : job) (sc : sched) : Prop := {
  sj_run : ∀ n, n ∈ sc_entry sc ∨ n ∈ sc_running sc → stage_status sc n = Some Running;
  sj_end : ∀ n r b, (n, r, b) ∈ sc_ending sc → stage_status sc n = Some (note_status r b);
  sj_running : ∀ n, stage_status sc n = Some Running → n ∈ sc_entry sc ∨ n ∈ sc_running sc;
  sj_deps : ∀ n, stage_status sc n = Some Running ∨ stage_status sc n = Some Done ∨ stage_status sc n = Some Error →
            forallb (dep_ok sc j) (task_deps j n) = true;
  sj_tasks : ∀ t, t ∈ j_tasks j → jt_status t = Running →
             jt_name t ∈ sc_entry sc ∨ jt_name t ∈ sc_running sc ∨ ∃ r, (jt_name t, r, false) ∈ sc_ending sc;
  sj_live : j_removed j = false }.

Definition SOK (j : job) : Prop :=
  match j_sched j with
  | Some sc => SJ j sc
  | None => j_start j = None → j_canceled j = false → ∀ t, t ∈ j_tasks j → jt_status t ≠ Running
  end.

Definition SInv (s : state) : Prop := ∀ id j, st_jobs s !! id = Some j → SOK j.

(** ** primitives *)
Lemma SInv_same s s' : st_jobs s' = st_jobs s → SInv s → SInv s'.
Proof. intros Hj H id j. rewrite Hj. apply (H id). Qed.

Lemma SInv_upd s id f : SInv s → (∀ j, st_jobs s !! id = Some j → SOK j → SOK (f j)) → SInv (upd_job s id f).
Proof.
  intros H Hf id' j'. simpl. destruct (decide (id = id')) as [<-|Hne].
  - rewrite list_lookup_alter. pose proof (H id) as Hid. pose proof (Hf) as Hf'. destruct (st_jobs s !! id) as [j|] eqn:E; [|done]. intros [= <-]. apply Hf'; [done|]. by apply Hid.
  - rewrite list_lookup_alter_ne by done. apply (H id').
Qed.

Lemma SInv_append s j : SInv s → SOK j → SInv (set_jobs s (st_jobs s ++ [j])).
Proof.
  intros H Hj id j'. simpl. intros Hl. apply lookup_app_Some in Hl as [Hl|[_ Hl]]; [by apply (H id)|].
  destruct (id - length (st_jobs s))%nat; [|done]. simpl in Hl. by injection Hl as <-.
Qed.

(** the task view the invariant depends on: names, definitions, statuses *)
Definition tview (j : job) : list (name * taskdef * status) := map (fun t => (jt_name t, jt_def t, jt_status t)) (j_tasks j).

Lemma find_task_view j j' n : tview j' = tview j →
  (fun t => (jt_def t, jt_status t)) <$> find_task j' n = (fun t => (jt_def t, jt_status t)) <$> find_task j n.
Proof.
  unfold tview, find_task. generalize (j_tasks j) (j_tasks j'). intros l l'. revert l.
  induction l' as [|t' l' IH]; intros [|t l] H; simpl in *; try done.
  injection H as H1 H2 H3 H4. rewrite H1. destruct (Nat.eqb (jt_name t) n); simpl; [by rewrite H2, H3|]. by apply IH.
Qed.

Lemma task_deps_view j j' n : tview j' = tview j → task_deps j' n = task_deps j n.
Proof.
  intros H. pose proof (find_task_view j j' n H) as Hf. unfold task_deps.
  destruct (find_task j' n), (find_task j n); simpl in Hf; try done. by injection Hf as -> _.
Qed.

Lemma task_allow_view j j' n : tview j' = tview j → task_allow j' n = task_allow j n.
Proof.
  intros H. pose proof (find_task_view j j' n H) as Hf. unfold task_allow.
  destruct (find_task j' n), (find_task j n); simpl in Hf; try done. by injection Hf as -> _.
Qed.

Lemma dep_ok_view sc j j' d : tview j' = tview j → dep_ok sc j' d = dep_ok sc j d.
Proof. intros H. unfold dep_ok. by rewrite (task_allow_view j j' d H). Qed.

Lemma running_view j j' : tview j' = tview j →
  (∀ t', t' ∈ j_tasks j' → jt_status t' = Running → ∃ t, t ∈ j_tasks j ∧ jt_status t = Running ∧ jt_name t = jt_name t').
Proof.
  unfold tview. intros H t' Hin Hst.
  assert (Hv : (jt_name t', jt_def t', jt_status t') ∈ map (fun t => (jt_name t, jt_def t, jt_status t)) (j_tasks j)).
  { rewrite <- H. apply elem_of_list_fmap. by exists t'. }
  apply elem_of_list_fmap in Hv as (t & Heq & Ht). injection Heq as H1 H2 H3. exists t. split; [done|]. split; congruence.
Qed.

Lemma forallb_ext' {A} (f g : A → bool) l : (∀ x, f x = g x) → forallb f l = forallb g l.
Proof. intros H. induction l as [|x l IH]; [done|]. simpl. by rewrite H, IH. Qed.

(** changes of a job that leave scheduler, task view, removal flag alone (and start / canceled only "upwards") *)
Lemma SOK_keep j j' :
  j_sched j' = j_sched j → tview j' = tview j → j_removed j' = j_removed j →
  (j_start j' = None → j_start j = None) → (j_canceled j' = false → j_canceled j = false) → SOK j → SOK j'.
Proof.
  intros Hs Hv Hr Hst Hc. unfold SOK. rewrite Hs. destruct (j_sched j) as [sc|].
  - intros [H1 H2 H3 H4 H5 H6]. split; try done.
    + intros n Hn. rewrite (task_deps_view j j' n Hv). rewrite <- (H4 n Hn). apply forallb_ext'. intros d. by apply dep_ok_view.
    + intros t' Hin Hrun. destruct (running_view j j' Hv t' Hin Hrun) as (t & Ht & Hrt & <-). by apply H5.
    + congruence.
  - intros H H1 H2 t' Hin Hrun. destruct (running_view j j' Hv t' Hin Hrun) as (t & Ht & Hrt & _). by apply (H (Hst H1) (Hc H2) t).
Qed.

(** ** how the stage statuses and dependency checks move *)
Lemma dep_ok_set sc j n st d :
  dep_ok (set_stage sc n st) j d =
    match stage_status sc d with
    | Some x => if Nat.eqb d n then (match st with Done | Skipped => true | Error => task_allow j d | _ => false end) else dep_ok sc j d
    | None => dep_ok sc j d
    end.
Proof.
  unfold dep_ok. rewrite stage_status_set. destruct (stage_status sc d) as [x|]; [|done]. simpl.
  destruct (Nat.eqb d n); [|done]. by destruct st.
Qed.

(** setting a stage that does not satisfy its dependents yet (waiting, running) to anything, or an allowed failure to
    done, keeps every satisfied dependency satisfied *)
Lemma dep_mono_set sc j n st d :
  (dep_ok sc j n = false ∨ st = Done) → dep_ok sc j d = true → dep_ok (set_stage sc n st) j d = true.
Proof.
  intros Hn Hd. rewrite dep_ok_set. destruct (stage_status sc d) as [x|] eqn:E; [|done].
  destruct (Nat.eqb_spec d n) as [->|]; [|done]. destruct Hn as [Hn| ->]; [congruence|done].
Qed.

Lemma forallb_mono {A} (f g : A → bool) l : (∀ x, f x = true → g x = true) → forallb f l = true → forallb g l = true.
Proof. intros H. induction l as [|x l IH]; [done|]. simpl. intros Hf. apply andb_true_iff in Hf as [H1 H2]. by rewrite (H x H1), IH. Qed.

Lemma elem_of_remove_name_iff n m l : m ∈ remove_name n l ↔ m ∈ l ∧ m ≠ n.
Proof.
  unfold remove_name. rewrite elem_of_list_In, filter_In, <- elem_of_list_In. split; intros [H1 H2]; split; try done.
  - intros ->. by rewrite Nat.eqb_refl in H2.
  - by destruct (Nat.eqb_spec m n).
Qed.

(** a scheduler that differs only in fields the invariant does not look at *)
Lemma SJ_core j sc sc' :
  sc_stages sc' = sc_stages sc → sc_entry sc' = sc_entry sc → sc_running sc' = sc_running sc → sc_ending sc' = sc_ending sc →
  SJ j sc → SJ j sc'.
Proof.
  intros H1 H2 H3 H4 [A B C D E F].
  assert (Hst : ∀ m, stage_status sc' m = stage_status sc m) by (intros m; by apply stage_status_stages).
  assert (Hdep : ∀ d, dep_ok sc' j d = dep_ok sc j d) by (intros d; unfold dep_ok; by rewrite Hst).
  split; try done.
  - intros n. rewrite H2, H3, Hst. apply A.
  - intros n r b. rewrite H4, Hst. apply B.
  - intros n. rewrite H2, H3, Hst. apply C.
  - intros n. rewrite !Hst. intros Hn. rewrite <- (D n Hn). by apply forallb_ext'.
  - intros t Ht Hr. rewrite H2, H3, H4. by apply E.
Qed.

(** the status of one task as HandleStageChange sets it *)
Definition set_tstatus (st : status) (t : jtask) : jtask :=
  JTask (jt_name t) (jt_def t) (if jt_canceled t then Canceled else st) (jt_start t) (jt_end t) (jt_skipped t)
        (jt_exit t) (jt_errored t) (jt_err t) (jt_canceled t).
Definition hsc_tasks (n : name) (st : status) (l : list jtask) : list jtask :=
  map (fun t => if Nat.eqb (jt_name t) n then set_tstatus st t else t) l.

Lemma find_hsc n st m l :
  jt_def <$> find (fun t => Nat.eqb (jt_name t) m) (hsc_tasks n st l) = jt_def <$> find (fun t => Nat.eqb (jt_name t) m) l.
Proof.
  unfold hsc_tasks. induction l as [|t l IH]; [done|]. simpl.
  destruct (Nat.eqb (jt_name t) n) eqn:E; simpl; destruct (Nat.eqb (jt_name t) m); simpl; done.
Qed.

Lemma task_deps_hsc j j' n st m : j_tasks j' = hsc_tasks n st (j_tasks j) → task_deps j' m = task_deps j m.
Proof.
  intros H. unfold task_deps, find_task. rewrite H. pose proof (find_hsc n st m (j_tasks j)) as Hf.
  destruct (find _ (hsc_tasks n st (j_tasks j))), (find _ (j_tasks j)); simpl in Hf; try done. by injection Hf as ->.
Qed.

Lemma task_allow_hsc j j' n st m : j_tasks j' = hsc_tasks n st (j_tasks j) → task_allow j' m = task_allow j m.
Proof.
  intros H. unfold task_allow, find_task. rewrite H. pose proof (find_hsc n st m (j_tasks j)) as Hf.
  destruct (find _ (hsc_tasks n st (j_tasks j))), (find _ (j_tasks j)); simpl in Hf; try done. by injection Hf as ->.
Qed.

Lemma dep_ok_hsc sc j j' n st d : j_tasks j' = hsc_tasks n st (j_tasks j) → dep_ok sc j' d = dep_ok sc j d.
Proof. intros H. unfold dep_ok. by rewrite (task_allow_hsc j j' n st d H). Qed.

Lemma hsc_tasks_running n st l t' :
  t' ∈ hsc_tasks n st l → jt_status t' = Running →
  (jt_name t' = n ∧ st = Running) ∨ (jt_name t' ≠ n ∧ t' ∈ l).
Proof.
  unfold hsc_tasks. intros Hin Hr. apply elem_of_list_fmap in Hin as (t & -> & Ht).
  destruct (Nat.eqb_spec (jt_name t) n) as [Hn|Hn].
  - left. simpl in *. split; [done|]. destruct (jt_canceled t); [done|done].
  - right. done.
Qed.

(** ** the transitions of a job's scheduler *)
Lemma SJ_stage_end j sc sc' n r :
  let st := match r with Some _ => Error | None => Done end in
  sc_stages sc' = sc_stages (set_stage sc n st) → sc_entry sc' = remove_name n (sc_entry sc) →
  sc_running sc' = remove_name n (sc_running sc) → sc_ending sc' = sc_ending sc ++ [(n, r, false)] →
  n ∈ sc_entry sc ∨ n ∈ sc_running sc → SJ j sc → SJ j sc'.
Proof.
  intros st H1 H2 H3 H4 Hn [A B C D E F].
  assert (Hrun : stage_status sc n = Some Running) by (by apply A).
  assert (Hst : ∀ m, stage_status sc' m = (fun x => if Nat.eqb m n then st else x) <$> stage_status sc m).
  { intros m. rewrite (stage_status_stages (set_stage sc n st)) by done. apply stage_status_set. }
  assert (Hstn : stage_status sc' n = Some st) by (rewrite Hst, Hrun; simpl; by rewrite Nat.eqb_refl).
  assert (Hsto : ∀ m, m ≠ n → stage_status sc' m = stage_status sc m).
  { intros m Hm. rewrite Hst. destruct (stage_status sc m); [|done]. simpl. by destruct (Nat.eqb_spec m n). }
  assert (Hne : st ≠ Running) by (unfold st; by destruct r).
  assert (Hmono : ∀ d, dep_ok sc j d = true → dep_ok sc' j d = true).
  { intros d Hd. assert (Heq : dep_ok sc' j d = dep_ok (set_stage sc n st) j d) by (unfold dep_ok; by rewrite (stage_status_stages (set_stage sc n st))).
    rewrite Heq. apply dep_mono_set; [|done]. left. unfold dep_ok. by rewrite Hrun. }
  split; try done.
  - intros m. rewrite H2, H3, !elem_of_remove_name_iff. intros [[Hm Hmn]|[Hm Hmn]]; rewrite Hsto by done; apply A; auto.
  - intros m r' b. rewrite H4, elem_of_app, elem_of_list_singleton. intros [Hm|[= -> -> ->]].
    + assert (m ≠ n). { intros ->. rewrite (B _ _ _ Hm) in Hrun. by destruct r', b. } rewrite Hsto by done. by apply B.
    + rewrite Hstn. unfold st. by destruct r.
  - intros m Hm. destruct (decide (m = n)) as [->|Hmn]; [congruence|]. rewrite Hsto in Hm by done.
    rewrite H2, H3, !elem_of_remove_name_iff. destruct (C m Hm); auto.
  - intros m Hm. eapply forallb_mono; [apply Hmono|]. apply D.
    destruct (decide (m = n)) as [->|Hmn]; [by left|]. by rewrite Hsto in Hm.
  - intros t Ht Hr. rewrite H2, H3, H4. destruct (decide (jt_name t = n)) as [->|Hne'].
    + right. right. exists r. apply elem_of_app. right. by apply elem_of_list_singleton.
    + destruct (E t Ht Hr) as [H|[H|[r' H]]].
      * left. by apply elem_of_remove_name_iff.
      * right. left. by apply elem_of_remove_name_iff.
      * right. right. exists r'. apply elem_of_app. by left.
Qed.

Lemma SJ_run_begin j sc sc' n :
  sc_stages sc' = sc_stages sc → sc_entry sc' = remove_name n (sc_entry sc) → sc_running sc' = sc_running sc ++ [n] →
  sc_ending sc' = sc_ending sc → n ∈ sc_entry sc → SJ j sc → SJ j sc'.
Proof.
  intros H1 H2 H3 H4 Hn [A B C D E F].
  assert (Hst : ∀ m, stage_status sc' m = stage_status sc m) by (intros m; by apply stage_status_stages).
  assert (Hdep : ∀ d, dep_ok sc' j d = dep_ok sc j d) by (intros d; unfold dep_ok; by rewrite Hst).
  assert (Hmem : ∀ m, m ∈ sc_entry sc ∨ m ∈ sc_running sc ↔ m ∈ sc_entry sc' ∨ m ∈ sc_running sc').
  { intros m. rewrite H2, H3, elem_of_remove_name_iff, elem_of_app, elem_of_list_singleton.
    destruct (decide (m = n)) as [->|Hmn]; [split; auto|]. split; intros [H|H]; auto. - destruct H; auto. - destruct H; auto; done. }
  split; try done.
  - intros m Hm. rewrite Hst. apply A. by apply Hmem.
  - intros m r b. rewrite H4, Hst. apply B.
  - intros m. rewrite Hst. intros Hm. apply Hmem. by apply C.
  - intros m. rewrite !Hst. intros Hm. rewrite <- (D m Hm). by apply forallb_ext'.
  - intros t Ht Hr. rewrite H4. destruct (E t Ht Hr) as [H|[H|H]]; [|right; left; rewrite H3; apply elem_of_app; by left|by right; right].
    destruct (proj1 (Hmem (jt_name t)) (or_introl H)); auto.
Qed.

Lemma SJ_launch j j' sc sc' n :
  sc_stages sc' = sc_stages (set_stage sc n Running) → sc_entry sc' = sc_entry sc ++ [n] → sc_running sc' = sc_running sc →
  sc_ending sc' = sc_ending sc → j_tasks j' = hsc_tasks n Running (j_tasks j) → j_removed j' = j_removed j →
  stage_status sc n = Some Waiting → forallb (dep_ok sc j) (task_deps j n) = true → SJ j sc → SJ j' sc'.
Proof.
  intros H1 H2 H3 H4 Ht Hrm Hw Hready [A B C D E F].
  assert (Hst : ∀ m, stage_status sc' m = (fun x => if Nat.eqb m n then Running else x) <$> stage_status sc m).
  { intros m. rewrite (stage_status_stages (set_stage sc n Running)) by done. apply stage_status_set. }
  assert (Hstn : stage_status sc' n = Some Running) by (rewrite Hst, Hw; simpl; by rewrite Nat.eqb_refl).
  assert (Hsto : ∀ m, m ≠ n → stage_status sc' m = stage_status sc m).
  { intros m Hm. rewrite Hst. destruct (stage_status sc m); [|done]. simpl. by destruct (Nat.eqb_spec m n). }
  assert (Hmono : ∀ d, dep_ok sc j d = true → dep_ok sc' j' d = true).
  { intros d Hd. rewrite (dep_ok_hsc sc' j j' n Running d Ht).
    assert (Heq : dep_ok sc' j d = dep_ok (set_stage sc n Running) j d) by (unfold dep_ok; by rewrite (stage_status_stages (set_stage sc n Running))).
    rewrite Heq. apply dep_mono_set; [|done]. left. unfold dep_ok. by rewrite Hw. }
  split.
  - intros m. rewrite H2, H3, elem_of_app, elem_of_list_singleton. intros [[Hm| ->]|Hm]; [|done|].
    + destruct (decide (m = n)) as [->|]; [done|]. rewrite Hsto by done. apply A. by left.
    + destruct (decide (m = n)) as [->|]; [done|]. rewrite Hsto by done. apply A. by right.
  - intros m r b. rewrite H4. intros Hm.
    assert (m ≠ n). { intros ->. rewrite (B _ _ _ Hm) in Hw. by destruct r, b. } rewrite Hsto by done. by apply B.
  - intros m Hm. rewrite H2, H3, elem_of_app, elem_of_list_singleton. destruct (decide (m = n)) as [->|Hmn]; [auto|].
    rewrite Hsto in Hm by done. destruct (C m Hm); auto.
  - intros m Hm. rewrite (task_deps_hsc j j' n Running m Ht). eapply forallb_mono; [apply Hmono|].
    destruct (decide (m = n)) as [->|Hmn]; [done|]. apply D. by rewrite Hsto in Hm.
  - intros t' Hin Hr. rewrite Ht in Hin. rewrite H2, H3, H4.
    destruct (hsc_tasks_running _ _ _ _ Hin Hr) as [[-> _]|[Hne Hold]].
    + left. apply elem_of_app. right. by apply elem_of_list_singleton.
    + destruct (E t' Hold Hr) as [H|[H|H]]; auto. left. apply elem_of_app. by left.
  - congruence.
Qed.

Lemma SJ_cancel_stage j sc sc' n :
  sc_stages sc' = sc_stages (set_stage sc n Canceled) → sc_entry sc' = sc_entry sc → sc_running sc' = sc_running sc →
  sc_ending sc' = sc_ending sc → stage_status sc n = Some Waiting → SJ j sc → SJ j sc'.
Proof.
  intros H1 H2 H3 H4 Hw [A B C D E F].
  assert (Hst : ∀ m, stage_status sc' m = (fun x => if Nat.eqb m n then Canceled else x) <$> stage_status sc m).
  { intros m. rewrite (stage_status_stages (set_stage sc n Canceled)) by done. apply stage_status_set. }
  assert (Hstn : stage_status sc' n = Some Canceled) by (rewrite Hst, Hw; simpl; by rewrite Nat.eqb_refl).
  assert (Hsto : ∀ m, m ≠ n → stage_status sc' m = stage_status sc m).
  { intros m Hm. rewrite Hst. destruct (stage_status sc m); [|done]. simpl. by destruct (Nat.eqb_spec m n). }
  assert (Hmono : ∀ d, dep_ok sc j d = true → dep_ok sc' j d = true).
  { intros d Hd. assert (Heq : dep_ok sc' j d = dep_ok (set_stage sc n Canceled) j d) by (unfold dep_ok; by rewrite (stage_status_stages (set_stage sc n Canceled))).
    rewrite Heq. apply dep_mono_set; [|done]. left. unfold dep_ok. by rewrite Hw. }
  assert (Hnn : ∀ m, m ∈ sc_entry sc ∨ m ∈ sc_running sc → m ≠ n) by (intros m Hm ->; rewrite (A n Hm) in Hw; done).
  split; try done.
  - intros m. rewrite H2, H3. intros Hm. rewrite Hsto by (by apply Hnn). by apply A.
  - intros m r b. rewrite H4. intros Hm.
    assert (m ≠ n). { intros ->. rewrite (B _ _ _ Hm) in Hw. by destruct r, b. } rewrite Hsto by done. by apply B.
  - intros m Hm. rewrite H2, H3. destruct (decide (m = n)) as [->|Hmn]; [congruence|]. rewrite Hsto in Hm by done. by apply C.
  - intros m Hm. eapply forallb_mono; [apply Hmono|]. destruct (decide (m = n)) as [->|Hmn].
    + rewrite Hstn in Hm. by destruct Hm as [?|[?|?]].
    + apply D. by rewrite Hsto in Hm.
  - intros t Ht Hr. rewrite H2, H3, H4. by apply E.
Qed.

Definition not_named (n : name) (x : name * option err * bool) : bool := negb (Nat.eqb x.1.1 n).

Lemma SJ_notify_drop j j' sc sc' n st :
  sc_stages sc' = sc_stages sc → sc_entry sc' = sc_entry sc → sc_running sc' = sc_running sc →
  sc_ending sc' = List.filter (not_named n) (sc_ending sc) → j_tasks j' = hsc_tasks n st (j_tasks j) → j_removed j' = j_removed j →
  st ≠ Running → SJ j sc → SJ j' sc'.
Proof.
  intros H1 H2 H3 H4 Ht Hrm Hne [A B C D E F].
  assert (Hst : ∀ m, stage_status sc' m = stage_status sc m) by (intros m; by apply stage_status_stages).
  assert (Hdep : ∀ d, dep_ok sc' j' d = dep_ok sc j d) by (intros d; rewrite (dep_ok_hsc sc' j j' n st d Ht); unfold dep_ok; by rewrite Hst).
  split.
  - intros m. rewrite H2, H3, Hst. apply A.
  - intros m r b. rewrite H4, Hst. intros Hm. apply elem_of_list_In, filter_In in Hm as [Hm _]. apply B. by apply elem_of_list_In.
  - intros m. rewrite H2, H3, Hst. apply C.
  - intros m. rewrite !Hst. intros Hm. rewrite (task_deps_hsc j j' n st m Ht). rewrite <- (D m Hm). by apply forallb_ext'.
  - intros t' Hin Hr. rewrite Ht in Hin. rewrite H2, H3, H4.
    destruct (hsc_tasks_running _ _ _ _ Hin Hr) as [[_ ?]|[Hn Hold]]; [done|].
    destruct (E t' Hold Hr) as [H|[H|[r H]]]; auto. right. right. exists r.
    apply elem_of_list_In, filter_In. split; [by apply elem_of_list_In|]. unfold not_named. simpl. by destruct (Nat.eqb_spec (jt_name t') n).
  - congruence.
Qed.

Lemma SJ_notify_allow j j' sc sc' n e :
  sc_stages sc' = sc_stages (set_stage sc n Done) → sc_entry sc' = sc_entry sc → sc_running sc' = sc_running sc →
  sc_ending sc' = List.filter (not_named n) (sc_ending sc) ++ [(n, Some e, true)] →
  j_tasks j' = hsc_tasks n Error (j_tasks j) → j_removed j' = j_removed j →
  (n, Some e, false) ∈ sc_ending sc → task_allow j n = true → SJ j sc → SJ j' sc'.
Proof.
  intros H1 H2 H3 H4 Ht Hrm Hin Hallow [A B C D E F].
  assert (Herr : stage_status sc n = Some Error) by (by apply (B n (Some e) false)).
  assert (Hst : ∀ m, stage_status sc' m = (fun x => if Nat.eqb m n then Done else x) <$> stage_status sc m).
  { intros m. rewrite (stage_status_stages (set_stage sc n Done)) by done. apply stage_status_set. }
  assert (Hstn : stage_status sc' n = Some Done) by (rewrite Hst, Herr; simpl; by rewrite Nat.eqb_refl).
  assert (Hsto : ∀ m, m ≠ n → stage_status sc' m = stage_status sc m).
  { intros m Hm. rewrite Hst. destruct (stage_status sc m); [|done]. simpl. by destruct (Nat.eqb_spec m n). }
  assert (Hmono : ∀ d, dep_ok sc j d = true → dep_ok sc' j' d = true).
  { intros d Hd. rewrite (dep_ok_hsc sc' j j' n Error d Ht).
    assert (Heq : dep_ok sc' j d = dep_ok (set_stage sc n Done) j d) by (unfold dep_ok; by rewrite (stage_status_stages (set_stage sc n Done))).
    rewrite Heq. apply dep_mono_set; [by right|done]. }
  assert (Hnn : ∀ m, m ∈ sc_entry sc ∨ m ∈ sc_running sc → m ≠ n) by (intros m Hm ->; rewrite (A n Hm) in Herr; done).
  split.
  - intros m. rewrite H2, H3. intros Hm. rewrite Hsto by (by apply Hnn). by apply A.
  - intros m r b. rewrite H4, elem_of_app, elem_of_list_singleton. intros [Hm|[= -> -> ->]]; [|done].
    apply elem_of_list_In, filter_In in Hm as [Hm Hnm]. unfold not_named in Hnm. simpl in Hnm.
    rewrite Hsto by (by destruct (Nat.eqb_spec m n)). apply B. by apply elem_of_list_In.
  - intros m Hm. rewrite H2, H3. destruct (decide (m = n)) as [->|Hmn]; [congruence|]. rewrite Hsto in Hm by done. by apply C.
  - intros m Hm. rewrite (task_deps_hsc j j' n Error m Ht). eapply forallb_mono; [apply Hmono|]. apply D.
    destruct (decide (m = n)) as [->|Hmn]; [auto|]. by rewrite Hsto in Hm.
  - intros t' Hin' Hr. rewrite Ht in Hin'. rewrite H2, H3, H4.
    destruct (hsc_tasks_running _ _ _ _ Hin' Hr) as [[_ ?]|[Hn Hold]]; [done|].
    destruct (E t' Hold Hr) as [H|[H|[r H]]]; auto. right. right. exists r. apply elem_of_app. left.
    apply elem_of_list_In, filter_In. split; [by apply elem_of_list_In|]. unfold not_named. simpl. by destruct (Nat.eqb_spec (jt_name t') n).
  - congruence.
Qed.

Lemma ending_of_in sc n r b : ending_of sc n = Some (r, b) → (n, r, b) ∈ sc_ending sc.
Proof.
  unfold ending_of. destruct (find _ _) as [[[m r'] b']|] eqn:E; [|done]. simpl. intros [= <- <-].
  apply find_some in E as [Hin Heq]. simpl in Heq. apply Nat.eqb_eq in Heq. subst m. by apply elem_of_list_In.
Qed.

(** ** effects of the callbacks on the job list *)
Lemma SInv_replace s s' id :
  SInv s → (∀ id', id' ≠ id → st_jobs s' !! id' = st_jobs s !! id') → (∀ j', st_jobs s' !! id = Some j' → SOK j') → SInv s'.
Proof.
  intros H Ho Hid id' j' Hl. destruct (decide (id' = id)) as [->|Hne]; [by apply Hid|]. rewrite Ho in Hl by done. by apply (H id').
Qed.

Lemma hsc_tasks_none n st l : find (fun t => Nat.eqb (jt_name t) n) l = None → hsc_tasks n st l = l.
Proof.
  unfold hsc_tasks. induction l as [|t l IH]; [done|]. simpl. destruct (Nat.eqb (jt_name t) n); [done|]. intros H. by rewrite IH.
Qed.

Lemma hsc_other s id n st id' : id' ≠ id → st_jobs (handle_stage_change s id n st) !! id' = st_jobs s !! id'.
Proof.
  intros Hne. unfold handle_stage_change. destruct (find_job s id) as [j|]; [|done]. destruct (find_task j n) as [t0|]; [|done].
  simpl. by rewrite list_lookup_alter_ne.
Qed.

Lemma hsc_job s id n st j :
  st_jobs s !! id = Some j → j_removed j = false →
  ∃ j', st_jobs (handle_stage_change s id n st) !! id = Some j' ∧ j_tasks j' = hsc_tasks n st (j_tasks j) ∧ j_sched j' = j_sched j
        ∧ j_removed j' = j_removed j ∧ j_start j' = j_start j ∧ j_canceled j' = j_canceled j.
Proof.
  intros Hj Hr. unfold handle_stage_change, find_job, get_job. rewrite Hj, Hr.
  destruct (find_task j n) as [t0|] eqn:Hf.
  - simpl. rewrite list_lookup_alter, Hj. simpl. eexists. split; [done|]. simpl. done.
  - exists j. split; [done|]. split; [|done]. symmetry. by apply hsc_tasks_none.
Qed.

Lemma put_lookup s id sc : st_jobs (put_sched s id sc) !! id = (fun j => set_sched j (Some sc)) <$> st_jobs s !! id.
Proof. simpl. by rewrite list_lookup_alter. Qed.
Lemma put_other s id sc id' : id' ≠ id → st_jobs (put_sched s id sc) !! id' = st_jobs s !! id'.
Proof. intros. simpl. by rewrite list_lookup_alter_ne. Qed.

Lemma cancel_started_effect s id b j :
  st_jobs s !! id = Some j → is_Some (j_start j) →
  (∀ id', id' ≠ id → st_jobs (cancel_job s id b).1 !! id' = st_jobs s !! id') ∧
  ∃ j', st_jobs (cancel_job s id b).1 !! id = Some j' ∧ j_sched j' = j_sched j ∧ j_tasks j' = j_tasks j ∧ j_removed j' = j_removed j
        ∧ j_start j' = j_start j ∧ j_canceled j' = j_canceled j.
Proof.
  intros Hj [t Ht]. unfold cancel_job, find_job, get_job. rewrite Hj.
  assert (Hsame : (∀ id', id' ≠ id → st_jobs s !! id' = st_jobs s !! id') ∧
    ∃ j', st_jobs s !! id = Some j' ∧ j_sched j' = j_sched j ∧ j_tasks j' = j_tasks j ∧ j_removed j' = j_removed j ∧ j_start j' = j_start j ∧ j_canceled j' = j_canceled j)
    by (split; [done|]; by exists j).
  destruct (j_removed j) eqn:Hr; [exact Hsame|]. destruct (j_canceled j) eqn:Hc; [exact Hsame|]. destruct (j_completed j); [exact Hsame|].
  rewrite Ht in Hsame |- *. destruct (j_sched j) eqn:Hsc; [|exact Hsame]. simpl. split.
  - intros id' Hne. by rewrite list_lookup_alter_ne.
  - rewrite list_lookup_alter, Hj. simpl. eexists. split; [done|]. simpl. by rewrite Hsc, Hr, Ht, Hc.
Qed.

Lemma htc_effect s id n t j :
  st_jobs s !! id = Some j → is_Some (j_start j) →
  (∀ id', id' ≠ id → st_jobs (handle_task_change s id n t) !! id' = st_jobs s !! id') ∧
  ∃ j', st_jobs (handle_task_change s id n t) !! id = Some j' ∧ j_sched j' = j_sched j ∧ tview j' = tview j ∧ j_removed j' = j_removed j
        ∧ j_start j' = j_start j ∧ j_canceled j' = j_canceled j.
Proof.
  intros Hj Hst. unfold handle_task_change.
  assert (Hsame : (∀ id', id' ≠ id → st_jobs s !! id' = st_jobs s !! id') ∧
    ∃ j', st_jobs s !! id = Some j' ∧ j_sched j' = j_sched j ∧ tview j' = tview j ∧ j_removed j' = j_removed j ∧ j_start j' = j_start j ∧ j_canceled j' = j_canceled j)
    by (split; [done|]; by exists j).
  destruct (find_job s id) as [jf|]; [|done]. destruct (find_task jf n) as [t0|]; [|done].
  set (upd := fun jt : jtask => _).
  set (s1 := upd_job s id (fun j => upd_task j n upd)).
  assert (Hj1 : st_jobs s1 !! id = Some (upd_task j n upd)) by (simpl; by rewrite list_lookup_alter, Hj).
  assert (Hv : tview (upd_task j n upd) = tview j).
  { unfold tview. simpl. rewrite map_map. apply map_ext. intros a. destruct (Nat.eqb (jt_name a) n); [|done].
    unfold upd. by destruct (tn_err t) as [[]|]. }
  assert (Ho1 : ∀ id', id' ≠ id → st_jobs s1 !! id' = st_jobs s !! id') by (intros; simpl; by rewrite list_lookup_alter_ne).
  change (st_jobs (request_persist ?x)) with (st_jobs x).
  assert (Hs1 : (∀ id', id' ≠ id → st_jobs s1 !! id' = st_jobs s !! id') ∧
    ∃ j', st_jobs s1 !! id = Some j' ∧ j_sched j' = j_sched j ∧ tview j' = tview j ∧ j_removed j' = j_removed j ∧ j_start j' = j_start j ∧ j_canceled j' = j_canceled j)
    by (split; [done|]; by exists (upd_task j n upd)).
  match goal with |- context [if ?c then _ else s1] => destruct c; [|done] end.
  destruct (lookup_def _ _) as [d|]; [|done]. destruct (pd_continue d); [done|].
  destruct (cancel_started_effect s1 id false (upd_task j n upd) Hj1 Hst) as [Ho (j' & Hl & H1 & H2 & H3 & H4 & H5)].
  split; [intros id' Hne; rewrite Ho by done; by apply Ho1|].
  exists j'. split; [done|]. simpl in *. repeat split; try congruence. unfold tview. rewrite H2. exact Hv.
Qed.

Lemma SInv_htc s id n t j :
  SInv s → st_jobs s !! id = Some j → is_Some (j_start j) → SInv (handle_task_change s id n t).
Proof.
  intros Hi Hj Hst. destruct (htc_effect s id n t j Hj Hst) as [Ho (j' & Hl & H1 & H2 & H3 & H4 & H5)].
  eapply SInv_replace; [exact Hi|exact Ho|]. intros j'' Hl'. assert (j'' = j') as -> by congruence.
  eapply SOK_keep; [exact H1|exact H2|exact H3| | |by apply (Hi id)]; congruence.
Qed.

(** ** the events *)
Lemma SJ_job_ext j j' sc : j_tasks j' = j_tasks j → j_removed j' = j_removed j → SJ j sc → SJ j' sc.
Proof.
  intros Ht Hr [A B C D E F].
  assert (Hd : ∀ m, task_deps j' m = task_deps j m) by (intros m; unfold task_deps, find_task; by rewrite Ht).
  assert (Hk : ∀ d, dep_ok sc j' d = dep_ok sc j d) by (intros d; unfold dep_ok, task_allow, find_task; by rewrite Ht).
  split; try done.
  - intros n Hn. rewrite Hd, <- (D n Hn). by apply forallb_ext'.
  - rewrite Ht. apply E.
  - congruence.
Qed.

Lemma mem_elem n l : mem n l = true → n ∈ l.
Proof. unfold mem. intros H. apply existsb_exists in H as (x & Hx & Heq). apply Nat.eqb_eq in Heq. subst x. by apply elem_of_list_In. Qed.

Lemma SInv_put s id j sc sc' :
  SInv s → st_jobs s !! id = Some j → j_sched j = Some sc → (SJ j sc → SJ j sc') → SInv (put_sched s id sc').
Proof.
  intros Hi Hj Hs Hsj. eapply SInv_replace; [exact Hi|intros; by apply put_other|].
  intros j'. rewrite put_lookup, Hj. simpl. intros [= <-]. unfold SOK. simpl.
  apply (SJ_job_ext j); [done|done|]. apply Hsj. pose proof (Hi id j Hj) as Hok. unfold SOK in Hok. by rewrite Hs in Hok.
Qed.

Lemma SInv_iter_begin s id s' : SInv s → do_iter_begin s id = Some s' → SInv s'.
Proof.
  intros Hi. unfold do_iter_begin, with_sched, get_job. destruct (st_jobs s !! id) as [j|] eqn:Hj; [|done].
  destruct (j_sched j) as [sc|] eqn:Hs; [|done]. destruct (sc_phase sc); try done. intros [= <-].
  eapply SInv_put; [done|exact Hj|exact Hs|]. by apply SJ_core.
Qed.

Lemma SInv_stage_end s id n r j sc :
  SInv s → st_jobs s !! id = Some j → j_sched j = Some sc → n ∈ sc_entry sc ∨ n ∈ sc_running sc → SInv (stage_end s id n r).
Proof.
  intros Hi Hj Hs Hn. unfold stage_end, get_job. rewrite Hj, Hs.
  eapply SInv_put; [done|exact Hj|exact Hs|]. intros Hsj. eapply (SJ_stage_end j sc _ n r); try done.
Qed.

Lemma SInv_visit s id n s' : SInv s → do_visit s id n = Some s' → SInv s'.
Proof.
  intros Hi. unfold do_visit, with_sched, get_job. destruct (st_jobs s !! id) as [j|] eqn:Hj; [|done].
  destruct (j_sched j) as [sc|] eqn:Hs; [|done]. destruct (sc_phase sc) as [|todo|]; try done.
  destruct (mem n todo); [|done].
  assert (Hsj : SJ j sc) by (pose proof (Hi id j Hj) as Hok; unfold SOK in Hok; by rewrite Hs in Hok).
  assert (Hsame : ∀ ph, SInv (put_sched s id (set_phase sc ph))).
  { intros ph. eapply SInv_put; [done|exact Hj|exact Hs|]. by apply SJ_core. }
  destruct (stage_status sc n) as [[]|] eqn:Hst; try (intros [= <-]; apply Hsame).
  pose proof (check_status_ready sc j n) as Hready.
  destruct (check_status sc j n) as [ready cancel]. simpl in Hready. destruct ready.
  - intros [= <-].
    destruct (hsc_job s id n Running j Hj (sj_live _ _ Hsj)) as (j1 & Hl1 & Ht1 & Hs1 & Hr1 & _).
    eapply SInv_replace; [exact Hi| |].
    + intros id' Hne. rewrite put_other by done. by apply hsc_other.
    + intros j'. rewrite put_lookup, Hl1. simpl. intros [= <-]. unfold SOK. simpl.
      eapply (SJ_launch j _ sc _ n); try done.
  - destruct cancel; intros [= <-]; [|apply Hsame].
    eapply SInv_put; [done|exact Hj|exact Hs|]. intros _. eapply (SJ_cancel_stage j sc _ n); done.
Qed.

Lemma SInv_cancel_deliver s id s' : SInv s → do_cancel_deliver s id = Some s' → SInv s'.
Proof.
  intros Hi. unfold do_cancel_deliver, get_job. destruct (st_jobs s !! id) as [j|] eqn:Hj; [|done].
  destruct (j_cancels j) as [|k]; [done|].
  set (dec := fun j : job => _).
  assert (H1 : SInv (upd_job s id dec)).
  { apply SInv_upd; [done|]. intros j0 _ Hok. eapply SOK_keep; [| | | | |exact Hok]; done. }
  destruct (j_sched j) as [sc|] eqn:Hs; intros [= <-]; [|done].
  apply (SInv_same (put_sched (upd_job s id dec) id (Sched (sc_stages sc) true true (sc_phase sc) (sc_entry sc) (sc_running sc) (sc_lasterr sc) (sc_ending sc)))); [done|].
  eapply (SInv_put (upd_job s id dec) id (dec j) sc); [done| |exact Hs|].
  - simpl. rewrite list_lookup_alter, Hj. done.
  - by apply SJ_core.
Qed.

Lemma SInv_log s o : SInv s → SInv (log s o). Proof. by apply SInv_same. Qed.

Lemma AInv_started s id j sc : AInv s → st_jobs s !! id = Some j → j_sched j = Some sc → is_Some (j_start j).
Proof. intros [H1 _] Hj Hs. destruct (H1 id j Hj) as [_ Hb]. rewrite Hs in Hb. by destruct Hb. Qed.

Lemma SInv_run_begin s id n s' : AInv s → SInv s → do_run_begin s id n = Some s' → SInv s'.
Proof.
  intros Ha Hi. unfold do_run_begin, with_sched, get_job. destruct (st_jobs s !! id) as [j|] eqn:Hj; [|done].
  destruct (j_sched j) as [sc|] eqn:Hs; [|done]. destruct (mem n (sc_entry sc)) eqn:Hmem; [|done].
  apply mem_elem in Hmem.
  assert (Hsj : SJ j sc) by (pose proof (Hi id j Hj) as Hok; unfold SOK in Hok; by rewrite Hs in Hok).
  destruct (sc_ctx sc).
  - intros [= <-]. eapply (SInv_stage_end _ id n _ j sc); [by apply SInv_log|done|done|by left].
  - destruct (match find_task j n with Some t => td_empty (jt_def t) | None => true end).
    + intros [= <-]. eapply (SInv_stage_end _ id n _ j sc); [by apply (SInv_same s)|done|done|by left].
    + intros [= <-].
      set (sc1 := Sched (sc_stages sc) (sc_cancelled sc) false (sc_phase sc) (remove_name n (sc_entry sc)) (sc_running sc ++ [n]) (sc_lasterr sc) (sc_ending sc)).
      assert (H1 : SInv (put_sched (log (add_log_dir s id) (ORunBegan id n)) id sc1)).
      { eapply (SInv_put _ id j sc); [by apply (SInv_same s)|done|done|]. intros _. eapply (SJ_run_begin j sc sc1 n); done. }
      eapply (SInv_htc _ id n _ (set_sched j (Some sc1))); [exact H1| |].
      * rewrite put_lookup. simpl. by rewrite Hj.
      * simpl. by eapply AInv_started.
Qed.

Lemma SInv_run_end s id n o s' : AInv s → SInv s → do_run_end s id n o = Some s' → SInv s'.
Proof.
  intros Ha Hi. unfold do_run_end, with_sched, get_job. destruct (st_jobs s !! id) as [j|] eqn:Hj; [|done].
  destruct (j_sched j) as [sc|] eqn:Hs; [|done]. destruct (mem n (sc_running sc)) eqn:Hmem; [|done].
  apply mem_elem in Hmem.
  assert (Hst : is_Some (j_start j)) by (by eapply AInv_started).
  (* after one or two task notifications the job still has the same scheduler *)
  assert (Hfin : ∀ s1 j1, SInv s1 → st_jobs s1 !! id = Some j1 → j_sched j1 = Some sc → ∀ r, SInv (stage_end s1 id n r)).
  { intros s1 j1 H1 Hj1 Hs1 r. eapply (SInv_stage_end s1 id n r j1 sc); [done|done|done|by right]. }
  assert (Hhtc : ∀ s0 j0 t, SInv s0 → st_jobs s0 !! id = Some j0 → j_sched j0 = Some sc → is_Some (j_start j0) →
            SInv (handle_task_change s0 id n t) ∧ ∃ j1, st_jobs (handle_task_change s0 id n t) !! id = Some j1 ∧ j_sched j1 = Some sc ∧ is_Some (j_start j1)).
  { intros s0 j0 t H0 Hj0 Hs0 Hst0. split; [by eapply SInv_htc|].
    destruct (htc_effect s0 id n t j0 Hj0 Hst0) as [_ (j1 & Hl & H1 & _ & _ & H4 & _)]. exists j1. split; [done|]. split; congruence. }
  assert (Hone : ∀ s0 j0 t r, SInv s0 → st_jobs s0 !! id = Some j0 → j_sched j0 = Some sc → is_Some (j_start j0) →
            SInv (stage_end (handle_task_change s0 id n t) id n r)).
  { intros s0 j0 t r H0 Hj0 Hs0 Hst0. destruct (Hhtc s0 j0 t H0 Hj0 Hs0 Hst0) as [H1 (j1 & Hl & Hs1 & _)]. by eapply Hfin. }
  assert (Htwo : ∀ s0 j0 t t' r, SInv s0 → st_jobs s0 !! id = Some j0 → j_sched j0 = Some sc → is_Some (j_start j0) →
            SInv (stage_end (handle_task_change (handle_task_change s0 id n t) id n t') id n r)).
  { intros s0 j0 t t' r H0 Hj0 Hs0 Hst0. destruct (Hhtc s0 j0 t H0 Hj0 Hs0 Hst0) as [H1 (j1 & Hl & Hs1 & Hst1)]. by eapply Hone. }
  assert (Hlog : ∀ o, SInv (log s o)) by (intros; by apply SInv_log).
  destruct o as [|code|].
  - intros [= <-]. by eapply (Hone _ j).
  - destruct (match find_task j n with Some t => td_allow (jt_def t) | None => false end); intros [= <-].
    + by eapply (Htwo _ j).
    + by eapply (Hone _ j).
  - destruct (sc_ctx sc); [|done]. intros [= <-]. by eapply (Hone _ j).
Qed.


Lemma SInv_notify s id n s' : SInv s → do_notify s id n = Some s' → SInv s'.
Proof.
  intros Hi. unfold do_notify, with_sched, get_job. destruct (st_jobs s !! id) as [j|] eqn:Hj; [|done].
  destruct (j_sched j) as [sc|] eqn:Hs; [|done]. destruct (ending_of sc n) as [[r second]|] eqn:He; [|done].
  apply ending_of_in in He.
  assert (Hsj : SJ j sc) by (pose proof (Hi id j Hj) as Hok; unfold SOK in Hok; by rewrite Hs in Hok).
  pose proof (sj_live _ _ Hsj) as Hlive.
  (* the "done" notification *)
  assert (Hdone : ∀ le, SInv (handle_stage_change (put_sched s id (drop_ending sc n [] le)) id n Done)).
  { intros le.
    destruct (hsc_job (put_sched s id (drop_ending sc n [] le)) id n Done (set_sched j (Some (drop_ending sc n [] le)))) as (j1 & Hl1 & Ht1 & Hs1 & Hr1 & _);
      [by rewrite put_lookup, Hj|done|].
    eapply SInv_replace; [exact Hi| |].
    - intros id' Hne. rewrite hsc_other by done. by apply put_other.
    - intros j'. rewrite Hl1. intros [= <-]. unfold SOK. rewrite Hs1. simpl.
      eapply (SJ_notify_drop j j1 sc _ n Done); try done. simpl. by rewrite app_nil_r. }
  destruct r as [e|]; [destruct second|].
  - intros [= <-]. apply Hdone.
  - destruct (hsc_job s id n Error j Hj Hlive) as (j1 & Hl1 & Ht1 & Hs1 & Hr1 & _).
    destruct (match find_task j n with Some t => td_allow (jt_def t) | None => false end) eqn:Hallow; intros [= <-].
    + eapply SInv_replace; [exact Hi| |].
      * intros id' Hne. rewrite put_other by done. by apply hsc_other.
      * intros j'. rewrite put_lookup, Hl1. simpl. intros [= <-]. unfold SOK. simpl.
        eapply (SJ_notify_allow j _ sc _ n e); try done.
    + eapply SInv_replace; [exact Hi| |].
      * intros id' Hne. rewrite put_other by done. by apply hsc_other.
      * intros j'. rewrite put_lookup, Hl1. simpl. intros [= <-]. unfold SOK. simpl.
        eapply (SJ_notify_drop j _ sc _ n Error); try done. simpl. by rewrite app_nil_r.
  - intros [= <-]. apply Hdone.
Qed.

Lemma SInv_try_start s id :
  SInv s → (∀ j, st_jobs s !! id = Some j → j_canceled j = false → j_start j = None ∧ j_sched j = None) → SInv (try_start s id).1.
Proof.
  intros Hi Hun. unfold try_start, find_job, get_job. destruct (st_jobs s !! id) as [j|] eqn:Hj; [|done].
  destruct (j_removed j) eqn:Hr; [done|]. destruct (j_canceled j) eqn:Hc; [done|].
  destruct (Hun j eq_refl Hc) as [Hst Hsc].
  pose proof (Hi id j Hj) as Hok. unfold SOK in Hok. rewrite Hsc in Hok. specialize (Hok Hst Hc).
  destruct (graph_ok j); cbn [fst].
  - apply SInv_log. apply SInv_upd; [by apply (SInv_same s)|]. simpl. intros j0. rewrite Hj. intros [= <-] _.
    unfold SOK. simpl. split; simpl.
    + intros n [H|H]; by apply elem_of_nil in H.
    + intros n r b H. by apply elem_of_nil in H.
    + intros n Hn. exfalso. unfold stage_status, init_sched in Hn. simpl in Hn.
      destruct (find _ _) as [[k x]|] eqn:E; [|done]. apply find_some in E as [Hin _]. apply in_map_iff in Hin as (t & [= <- <-] & _). done.
    + intros n Hn. exfalso. assert (Hw : stage_status (init_sched j) n = Some Waiting ∨ stage_status (init_sched j) n = None).
      { unfold stage_status, init_sched. simpl. destruct (find _ _) as [[k x]|] eqn:E; [|by right]. left.
        apply find_some in E as [Hin _]. apply in_map_iff in Hin as (t & [= <- <-] & _). done. }
      destruct Hw as [Hw|Hw]; rewrite Hw in Hn; by destruct Hn as [?|[?|?]].
    + intros t Ht Hrun. by destruct (Hok t Ht).
    + done.
  - apply SInv_log. apply SInv_upd; [by apply (SInv_same s)|]. intros j0 _ Hok0. eapply SOK_keep; [| | | | |exact Hok0]; done.
Qed.

Lemma SInv_dequeue_loop fuel s p : SInv s → Hp s p → SInv (dequeue_loop fuel s p).
Proof.
  revert s. induction fuel as [|x fuel IH]; intros s Hi [Hnd Hw]; simpl; [done|].
  destruct (wl_get (st_wait s) p) as [|h rest] eqn:Hwl; [done|].
  destruct (get_job s h) as [j|] eqn:Hj; [|done].
  destruct (bool_decide _ && negb (j_timer j)); [|done].
  apply NoDup_cons in Hnd as [Hh Hnd].
  apply IH.
  - apply SInv_try_start; [by apply (SInv_same s)|]. simpl. intros j0 Hj0 _.
    destruct (Hw h) as (jh & Hjh & H1 & H2); [by left|]. assert (j0 = jh) as -> by congruence. done.
  - split.
    + rewrite try_start_wait. simpl. by rewrite wl_get_set_eq.
    + intros id. rewrite try_start_wait. simpl. rewrite wl_get_set_eq. intros Hin.
      destruct (Hw id) as (ji & Hji & H1 & H2); [by right|]. exists ji. split; [|done].
      rewrite try_start_other; [done|]. intros ->. done.
Qed.

Lemma SInv_dequeue s p : SInv s → Hp s p → SInv (dequeue s p).
Proof. apply SInv_dequeue_loop. Qed.

Lemma SInv_cancel s id b : SInv s → (∀ p, Hp s p) → SInv (cancel_job s id b).1.
Proof.
  intros Hi HW. unfold cancel_job, find_job, get_job. destruct (st_jobs s !! id) as [j|] eqn:Hj; [|done].
  destruct (j_removed j); [done|]. destruct (j_canceled j); [done|]. destruct (j_completed j); [done|].
  destruct (j_start j) eqn:Hst.
  - destruct (j_sched j); [|done]. simpl. apply SInv_upd; [done|]. intros j0 _ Hok. eapply SOK_keep; [| | | | |exact Hok]; done.
  - cbn [fst]. apply (SInv_same (dequeue (log (set_wait (upd_job s id mark_canceled) (j_pipe j)
        (remove_id id (wl_get (st_wait (upd_job s id mark_canceled)) (j_pipe j)))) (OFinished id true None)) (j_pipe j))); [done|].
    apply SInv_dequeue.
    + apply SInv_log. apply (SInv_same (upd_job s id mark_canceled)); [done|].
      apply SInv_upd; [done|]. intros j0 _ Hok. eapply SOK_keep; [| | | | |exact Hok]; try done.
      unfold tview. simpl. by rewrite map_map.
    + eapply (Hp_mono s); [| |apply HW]; simpl; rewrite wl_get_set_eq.
      * apply NoDup_remove_id. apply HW.
      * intros i Hin. apply elem_of_remove_id in Hin as [Hin Hne]. split; [done|]. intros ji Hji.
        exists ji. rewrite list_lookup_alter_ne by done. done.
Qed.

Lemma SOK_new s p d v u : SOK (new_job s p d v u).
Proof.
  unfold SOK. simpl. intros _ _ t Ht. unfold build_tasks in Ht. apply elem_of_list_fmap in Ht as (x & -> & _). done.
Qed.

Lemma SInv_schedule s p v u : SInv s → (∀ q, Hp s q) → SInv (do_schedule s p v u).1.
Proof.
  intros Hi HW. unfold do_schedule. destruct (st_shut s); [done|]. destruct (lookup_def (st_defs s) p) as [d|]; [|by apply SInv_log].
  set (nj := new_job s p d v u).
  set (s1 := log (request_persist (set_jobs s (st_jobs s ++ [nj]))) (OAccepted (length (st_jobs s)) p)).
  assert (H1 : SInv s1).
  { apply SInv_log. apply (SInv_same (set_jobs s (st_jobs s ++ [nj]))); [done|]. apply SInv_append; [done|apply SOK_new]. }
  assert (Hstart : SInv (start_job s1 (length (st_jobs s)) p)).
  { unfold start_job. destruct (try_start s1 (length (st_jobs s))) as [s' failed] eqn:Hts.
    assert (Hs' : s' = (try_start s1 (length (st_jobs s))).1) by (by rewrite Hts).
    assert (H2 : SInv s').
    { rewrite Hs'. apply SInv_try_start; [done|]. simpl. intros j0. rewrite lookup_app_r by lia. rewrite Nat.sub_diag. simpl. intros [= <-] _. done. }
    destruct failed; [|done]. apply SInv_dequeue; [done|].
    eapply (Hp_mono s); [| |apply HW]; rewrite Hs', try_start_wait; simpl.
    - apply HW.
    - intros i Hin. split; [done|]. intros ji Hji. exists ji. split; [|done].
      rewrite try_start_other; [|apply lookup_lt_Some in Hji; lia]. simpl. by rewrite lookup_app_l by (by eapply lookup_lt_Some). }
  destruct (resolve_action s p false); cbn [fst]; try done; try (by apply SInv_log).
  destruct (last _) as [prev|]; [|done]. cbn [fst]. apply SInv_log.
  match goal with |- SInv (set_wait ?x _ _) => apply (SInv_same x); [done|] end.
  apply SInv_upd; [done|]. intros j0 _ Hok. eapply SOK_keep; [| | | | |exact Hok]; done.
Qed.

Lemma SInv_fire s id s' : SInv s → (∀ q, Hp s q) → do_fire_timer s id = Some s' → SInv s'.
Proof.
  intros Hi HW. unfold do_fire_timer. destruct (get_job s id) as [j|] eqn:Hj; [|done]. destruct (timer_due s j); [|done].
  assert (H1 : SInv (upd_job s id clear_timer)).
  { apply SInv_upd; [done|]. intros j0 _ Hok. eapply SOK_keep; [| | | | |exact Hok]; done. }
  destruct (find_job s id); [|by intros [= <-]]. destruct (j_canceled j); intros [= <-]; [done|].
  apply SInv_dequeue; [done|]. eapply (Hp_mono s); [| |apply HW]; simpl.
  - apply HW.
  - intros i Hin. split; [done|]. intros ji Hji. destruct (decide (i = id)) as [->|Hne].
    + rewrite list_lookup_alter, Hji. simpl. eexists. split; [done|]. done.
    + exists ji. by rewrite list_lookup_alter_ne.
Qed.

Lemma SInv_sched_return s id s' : AInv s → SInv s → (∀ q, Hp s q) → do_sched_return s id = Some s' → SInv s'.
Proof.
  intros Ha Hi HW. unfold do_sched_return, with_sched. destruct (get_job s id) as [j|] eqn:Hj; [|done].
  destruct (j_sched j) as [sc|] eqn:Hs; [|done].
  destruct (sc_phase sc); try done. destruct (sc_entry sc); try done. destruct (sc_running sc); try done. destruct (sc_ending sc); try done.
  assert (H1 : SInv (upd_job s id (complete (st_now s) (sc_lasterr sc)))).
  { apply SInv_upd; [done|]. intros j0 Hj0 _. unfold SOK. simpl. intros Hst _. exfalso.
    (* a job that completes has been started *) unfold get_job in Hj. assert (j0 = j) as -> by congruence.
    destruct (AInv_started s id j sc Ha Hj Hs) as [t Ht]. congruence. }
  destruct (j_removed j); intros [= <-]; [done|].
  match goal with |- SInv (request_persist ?x) => apply (SInv_same x); [done|] end.
  apply SInv_dequeue; [by apply SInv_log|].
  eapply (Hp_mono s); [| |apply HW]; simpl.
  - apply HW.
  - intros i Hin. split; [done|]. intros ji Hji. destruct (decide (i = id)) as [->|Hne].
    + destruct (HW (j_pipe j)) as [_ Hw]. destruct (Hw id Hin) as (jw & Hjw & _ & Hnone). unfold get_job in Hj. congruence.
    + exists ji. by rewrite list_lookup_alter_ne.
Qed.

Lemma SOK_keep_none j j' :
  j_sched j = None → j_sched j' = None → tview j' = tview j →
  (j_start j' = None → j_start j = None) → (j_canceled j' = false → j_canceled j = false) → SOK j → SOK j'.
Proof.
  intros Hs Hs' Hv Hst Hc. unfold SOK. rewrite Hs, Hs'.
  intros H H1 H2 t' Hin Hrun. destruct (running_view j j' Hv t' Hin Hrun) as (t & Ht & Hrt & _). by apply (H (Hst H1) (Hc H2) t).
Qed.

Lemma should_remove_running s i j : is_running j = true → should_remove s i j = false.
Proof.
  intros Hr. unfold should_remove. rewrite Hr. destruct (lookup_def _ _); [|done].
  unfold is_running in Hr. unfold is_waiting. destruct (j_start j); [|done].
  apply andb_true_iff in Hr as [H1 H2]. by rewrite H1, H2.
Qed.

Lemma SInv_save s : RInv (abs s) → SInv s → SInv (do_save s).
Proof.
  intros Hinv Hi id j'. unfold do_save. cbn [st_jobs]. rewrite list_lookup_imap.
  destruct (st_jobs s !! id) as [j|] eqn:Hj; [|done]. simpl. intros [= <-].
  pose proof (Hi id j Hj) as Hok.
  destruct (existsb _ _) eqn:Hex; [|done].
  destruct (j_sched j) as [sc|] eqn:Hs.
  - exfalso. apply existsb_exists in Hex as (x & Hx & Heq). apply Nat.eqb_eq in Heq. subst x.
    apply in_map_iff in Hx as ([i jx] & Hi' & Hx). simpl in Hi'. subst i.
    apply filter_In in Hx as [Hx Hf]. simpl in Hf. apply andb_true_iff in Hf as [_ Hrm].
    apply elem_of_list_In, elem_of_lookup_imap in Hx as (i & jy & [= <- <-] & Hl). assert (jx = j) as -> by congruence.
    rewrite should_remove_running in Hrm; [done|].
    destruct (inv_live _ _ Hinv id (abs_job j)) as ([t Ht] & Hc1 & Hc2); [simpl; by rewrite list_lookup_fmap, Hj|simpl; by rewrite Hs|].
    simpl in Ht, Hc1, Hc2. unfold is_running. by rewrite Ht, Hc1, Hc2.
  - eapply SOK_keep_none; [exact Hs| | | | |exact Hok]; done.
Qed.

Lemma SInv_restart s s' : do_restart s = Some s' → SInv s'.
Proof.
  unfold do_restart. destruct (st_shutg s); [done|]. destruct (all_quiet s); [|done]. intros [= <-].
  intros id j'. cbn [st_jobs]. rewrite list_lookup_imap. destruct (st_jobs s !! id) as [j|]; [|done]. simpl.
  destruct (find _ _) as [pj|]; intros [= <-]; unfold SOK; simpl.
  - intros Hst Hc. rewrite Hst in Hc. by rewrite !orb_true_r in Hc.
  - done.
Qed.

Lemma SInv_shutdown_begin s s' : SInv s → do_shutdown_begin s = Some s' → SInv s'.
Proof.
  intros Hi. unfold do_shutdown_begin. destruct (st_shutg s); [done|]. destruct (st_shut s); [done|]. intros [= <-].
  intros id j'. cbn [st_jobs]. rewrite list_lookup_imap. destruct (st_jobs s !! id) as [j|] eqn:Hj; [|done]. simpl. intros [= <-].
  pose proof (Hi id j Hj) as Hok. destruct (existsb _ _); [|done]. eapply SOK_keep; [| | | | |exact Hok]; done.
Qed.

Lemma scancel_nw s id b : SInv s → NW s → SInv (cancel_job s id b).1.
Proof.
  intros Hi Hnw. unfold cancel_job, find_job, get_job. destruct (st_jobs s !! id) as [j|] eqn:Hj; [|done].
  destruct (j_removed j) eqn:Hr; [done|]. destruct (j_canceled j) eqn:Hc; [done|]. destruct (j_completed j); [done|].
  destruct (Hnw id j Hj Hr Hc) as [t Ht]. rewrite Ht. destruct (j_sched j); [|done]. simpl.
  apply SInv_upd; [done|]. intros j0 _ Hok. eapply SOK_keep; [| | | | |exact Hok]; done.
Qed.

Lemma SInv_fold_cancel l s : AInv s → SInv s → NW s → SInv (fold_left (fun s id => (cancel_job s id true).1) l s).
Proof.
  revert s. induction l as [|x l IH]; intros s Ha Hi Hnw; simpl; [done|].
  destruct (cancel_nw s x true Ha Hnw) as [H1 H2]. apply IH; [done| |done]. by apply scancel_nw.
Qed.

Lemma SInv_shutdown_force s s' : AInv s → SInv s → RInv (abs s) → shutg_ok s → do_shutdown_force s = Some s' → SInv s'.
Proof.
  intros Ha Hi Hinv Hok. unfold do_shutdown_force. destruct (st_shutg s) as [[]|] eqn:Hg; try done.
  destruct (any_running s); [|done]. intros [= <-].
  set (x := fold_left (fun s id => (cancel_job s id true).1) (seq 0 (length (st_jobs s))) s).
  apply (SInv_same x); [done|].
  apply SInv_fold_cancel; [done|done|]. apply NW_of_RInv; [done|]. apply Hok. by rewrite Hg.
Qed.

Lemma SInv_shutdown_return s s' : RInv (abs s) → SInv s → do_shutdown_return s = Some s' → SInv s'.
Proof.
  intros Hinv Hi. unfold do_shutdown_return. destruct (st_shutg s); [|done]. destruct (_ && _); [|done]. intros [= <-].
  apply (SInv_same (do_save s)); [done|]. by apply SInv_save.
Qed.

Lemma SInv_step s e s' r : reach s → SInv s → step s e = Some (s', r) → SInv s'.
Proof.
  intros Hr Hi. pose proof (reach_inv s Hr) as Hinv. pose proof (reach_AInv s Hr) as Ha.
  assert (HW : ∀ q, Hp (clear_req s) q) by (intros q; by apply Hp_of_RInv).
  assert (Hi' : SInv (clear_req s)) by (by apply (SInv_same s)).
  assert (Ha' : AInv (clear_req s)) by (by apply (AInv_same s)).
  unfold step. destruct e; cbn [fmap option_fmap option_map].
  - intros [= Heq]. replace s' with (do_schedule (clear_req s) p v user).1 by (by rewrite Heq). by apply SInv_schedule.
  - intros [= Heq]. replace s' with (cancel_job (clear_req s) id true).1 by (by rewrite Heq). by apply SInv_cancel.
  - intros [= <- _]. by apply (SInv_same s).
  - destruct (do_fire_timer (clear_req s) id) as [s1|] eqn:Hf; [|done]. intros [= <- _]. by eapply SInv_fire.
  - intros [= <- _]. by apply (SInv_same s).
  - destruct (do_iter_begin (clear_req s) id) as [s1|] eqn:Hf; [|done]. intros [= <- _]. by eapply SInv_iter_begin.
  - destruct (do_visit (clear_req s) id n) as [s1|] eqn:Hf; [|done]. intros [= <- _]. by eapply SInv_visit.
  - destruct (do_run_begin (clear_req s) id n) as [s1|] eqn:Hf; [|done]. intros [= <- _]. by eapply SInv_run_begin.
  - destruct (do_run_end (clear_req s) id n o) as [s1|] eqn:Hf; [|done]. intros [= <- _]. by eapply SInv_run_end.
  - destruct (do_notify (clear_req s) id n) as [s1|] eqn:Hf; [|done]. intros [= <- _]. by eapply SInv_notify.
  - destruct (do_cancel_deliver (clear_req s) id) as [s1|] eqn:Hf; [|done]. intros [= <- _]. by eapply SInv_cancel_deliver.
  - destruct (do_sched_return (clear_req s) id) as [s1|] eqn:Hf; [|done]. intros [= <- _]. by eapply SInv_sched_return.
  - intros [= <- _]. by apply SInv_save.
  - destruct (do_restart (clear_req s)) as [s1|] eqn:Hf; [|done]. intros [= <- _]. by eapply SInv_restart.
  - destruct (do_shutdown_begin (clear_req s)) as [s1|] eqn:Hf; [|done]. intros [= <- _]. by eapply SInv_shutdown_begin.
  - destruct (do_shutdown_force (clear_req s)) as [s1|] eqn:Hf; [|done]. intros [= <- _].
    eapply SInv_shutdown_force; [exact Ha'|exact Hi'|exact Hinv| |exact Hf]. apply (reach_shutg_ok s Hr).
  - destruct (do_shutdown_return (clear_req s)) as [s1|] eqn:Hf; [|done]. intros [= <- _]. eapply (SInv_shutdown_return (clear_req s)); [exact Hinv|exact Hi'|exact Hf].
Qed.

Lemma SInv_init ds : SInv (init ds).
Proof. intros id j H. simpl in H. by destruct id. Qed.

Lemma SInv_init_from ds pjs : SInv (init_from ds pjs).
Proof.
  intros id j. simpl. rewrite list_lookup_fmap. destruct (pjs !! id) as [pj|]; [|done]. intros [= <-].
  unfold SOK. simpl. intros Hst Hc. rewrite Hst in Hc. by rewrite !orb_true_r in Hc.
Qed.

Theorem reach_SInv s : reach s → SInv s.
Proof.
  induction 1.
  - apply SInv_init.
  - apply SInv_init_from.
  - by eapply SInv_step.
Qed.

Lemma dequeue_loop_other fuel s p id :
  id ∉ wl_get (st_wait s) p → st_jobs (dequeue_loop fuel s p) !! id = st_jobs s !! id.
Proof.
  revert s. induction fuel as [|x fuel IH]; intros s Hnot; simpl; [done|].
  destruct (wl_get (st_wait s) p) as [|h rest] eqn:Hwl; [done|].
  destruct (get_job s h) as [j|]; [|done]. destruct (bool_decide _ && negb (j_timer j)); [|done].
  rewrite IH.
  - rewrite try_start_other; [done|]. intros ->. apply Hnot. by left.
  - rewrite try_start_wait. simpl. rewrite wl_get_set_eq. intros Hin. apply Hnot. by right.
Qed.

(** ** the two consequences *)
(** C02: whenever a task begins executing, every task it depends on is done or skipped, or failed while marked allow_failure *)
Theorem begins_after_deps s id n s' r j sc :
  reach s → step s (EvRunBegin id n) = Some (s', r) → get_job s id = Some j → j_sched j = Some sc →
  forallb (dep_ok sc j) (task_deps j n) = true.
Proof.
  intros Hr Hstep Hj Hs. pose proof (reach_SInv s Hr id j Hj) as Hok. unfold SOK in Hok. rewrite Hs in Hok.
  unfold step in Hstep. simpl in Hstep. unfold do_run_begin, with_sched in Hstep.
  change (get_job (clear_req s) id) with (get_job s id) in Hstep. rewrite Hj, Hs in Hstep.
  destruct (mem n (sc_entry sc)) eqn:Hmem; [|done]. apply mem_elem in Hmem.
  apply (sj_deps _ _ Hok). left. apply (sj_run _ _ Hok). by left.
Qed.

(** C08: when a job is completed (its scheduler returned), none of its tasks is reported running *)
Theorem completed_no_running s id s' r :
  reach s → step s (EvSchedReturn id) = Some (s', r) →
  ∀ j', get_job s' id = Some j' → j_completed j' = true ∧ ∀ t, t ∈ j_tasks j' → jt_status t ≠ Running.
Proof.
  intros Hr Hstep j' Hj'. pose proof (reach_SInv s Hr) as Hi. pose proof (reach_inv s Hr) as Hinv.
  unfold step in Hstep. simpl in Hstep. destruct (do_sched_return (clear_req s) id) as [s1|] eqn:Hf; [|done]. injection Hstep as <- _.
  revert Hf. unfold do_sched_return, with_sched. change (get_job (clear_req s) id) with (get_job s id).
  destruct (get_job s id) as [j|] eqn:Hj; [|done]. destruct (j_sched j) as [sc|] eqn:Hs; [|done].
  destruct (sc_phase sc); try done. destruct (sc_entry sc) eqn:He; try done. destruct (sc_running sc) eqn:Hru; try done.
  destruct (sc_ending sc) eqn:Hen; try done.
  pose proof (Hi id j Hj) as Hok. unfold SOK in Hok. rewrite Hs in Hok.
  assert (Hnr : ∀ t, t ∈ j_tasks j → jt_status t ≠ Running).
  { intros t Ht Hrun. destruct (sj_tasks _ _ Hok t Ht Hrun) as [H|[H|[r0 H]]]; rewrite ?He, ?Hru, ?Hen in H; by apply elem_of_nil in H. }
  assert (Hc : ∀ s2, get_job s2 id = Some j' → st_jobs s2 !! id = Some (complete (st_now (clear_req s)) (sc_lasterr sc) j) → j_completed j' = true ∧ ∀ t, t ∈ j_tasks j' → jt_status t ≠ Running).
  { intros s2 H1 H2. unfold get_job in H1. assert (j' = complete (st_now (clear_req s)) (sc_lasterr sc) j) as -> by congruence. done. }
  destruct (j_removed j) eqn:Hrm; intros [= <-].
  - exfalso. by rewrite (sj_live _ _ Hok) in Hrm.
  - (* the wait list is processed afterwards: it does not touch the finished job, which is not on it *)
    apply (Hc _ Hj'). change (st_jobs (request_persist ?x)) with (st_jobs x). unfold dequeue. rewrite dequeue_loop_other.
    + simpl. unfold get_job in Hj. by rewrite list_lookup_alter, Hj.
    + simpl. intros Hin. destruct (Hp_of_RInv s (j_pipe j) Hinv) as [_ Hw]. destruct (Hw id Hin) as (jw & Hjw & _ & Hnone).
      unfold get_job in Hj. congruence.
Qed.

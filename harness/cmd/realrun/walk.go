package main

import (
	"os"
	"path/filepath"
)

func walkLogs(a *App, f func(rel string)) {
	root := filepath.Join(a.Dir, ".prunner", "logs")
	_ = filepath.Walk(root, func(p string, info os.FileInfo, err error) error {
		if err != nil || info.IsDir() {
			return nil
		}
		rel, _ := filepath.Rel(root, p)
		f(rel)
		return nil
	})
}

(** The scheduler loop cannot dead-lock on a job whose graph was accepted: while a stage is waiting and none is
    running, one pass over the stages launches or cancels a stage (C02 "can run to completion", decision level).
    Also: a job built from a definition is accepted exactly when the definition's dependency relation is acyclic. *)
From stdpp Require Import list relations.
From Coq Require Import Lia.
From PV Require Import Graph System proofs.GraphProps proofs.BuildProps proofs.KahnProps proofs.SchedProps.

Lemma job_graph_build ts j : j_tasks j = build_tasks ts → job_graph j = sort_tasks ts.
Proof.
  intros H. unfold job_graph, build_tasks in *. rewrite H, map_map. clear H. simpl.
  induction (sort_tasks ts) as [|[n t] l IH]; simpl; [done|]. by f_equal.
Qed.

(** a job created from the definition [ts] (names distinct, dependencies name tasks — what validation ensures) whose
    variables do not use the reserved name: buildPipelineGraph succeeds exactly when [ts] is acyclic *)
Theorem new_job_accepted_iff_acyclic ts j :
  j_tasks j = build_tasks ts → j_vars j ≠ VReserved → NoDup (map fst ts) → deps_closed ts →
  (graph_ok j = true ↔ acyclic ts).
Proof.
  intros Ht Hv Hnd Hcl. unfold graph_ok. rewrite (job_graph_build _ _ Ht).
  assert (H : (match j_vars j, j_tasks j with VReserved, _ :: _ => false | _, _ => build_graph_ok (sort_tasks ts) end)
              = build_graph_ok (sort_tasks ts)).
  { destruct (j_vars j); done. }
  rewrite H. by apply accepted_iff_acyclic.
Qed.

(** the task list of an accepted job depends only on the definition; valid acyclic definition: every task after its dependencies *)
Lemma new_job_task_order s p d v u :
  job_graph (new_job s p d v u) = sort_tasks (pd_tasks d) ∧
  (NoDup (map fst (pd_tasks d)) → deps_closed (pd_tasks d) → acyclic (pd_tasks d) → topo (job_graph (new_job s p d v u))).
Proof.
  assert (H : job_graph (new_job s p d v u) = sort_tasks (pd_tasks d)) by (by apply job_graph_build).
  split; [done|]. intros. rewrite H. by apply sort_tasks_topo.
Qed.

(** ** no dead-lock *)
Definition terminal (st : status) : Prop := st = Done ∨ st = Skipped ∨ st = Error ∨ st = Canceled.

Lemma check_status_decides sc j n :
  (∀ d, d ∈ task_deps j n → ∃ st, stage_status sc d = Some st ∧ terminal st) →
  check_status sc j n = (true, false) ∨ check_status sc j n = (false, true).
Proof.
  unfold check_status. fold (task_deps j n). intros H.
  assert (Hgen : ∀ acc, acc = (true, false) ∨ acc = (false, true) →
    let r := fold_left (fun acc d =>
      match stage_status sc d with
      | Some Done | Some Skipped => acc
      | Some Error => let allow := match find_task j d with Some t => td_allow (jt_def t) | None => false end in
                      if allow then acc else (false, true)
      | Some Canceled => (false, true)
      | _ => (false, snd acc)
      end) (task_deps j n) acc in r = (true, false) ∨ r = (false, true)).
  { induction (task_deps j n) as [|d ds IH]; intros acc Hacc; simpl; [done|].
    apply IH; [intros d' Hd'; apply H; by right|].
    destruct (H d) as (st & Hst & Hterm); [left|]. rewrite Hst.
    destruct Hterm as [E|[E|[E|E]]]; subst st; try done; [|by right].
    destruct (find_task j d) as [t|]; [|by right]. destruct (td_allow (jt_def t)); [done|by right]. }
  apply Hgen. by left.
Qed.

Lemma find_stage_app (l1 l2 : list (name * status)) d :
  d ∈ map fst l1 → ∃ x, find (fun x => Nat.eqb (fst x) d) (l1 ++ l2) = Some x ∧ x ∈ l1.
Proof.
  induction l1 as [|a l1 IH]; [by intros H%elem_of_nil|]. intros H. rewrite <- app_comm_cons. cbn [find]. rewrite fmap_cons in H.
  match goal with |- context [Nat.eqb ?u ?v] => destruct (Nat.eqb u v) eqn:E end; [exists a; split; [done|left]|]. apply Nat.eqb_neq in E.
  apply elem_of_cons in H as [H|H]; [by subst d|]. destruct (IH H) as (x & Hx & Hin). exists x. split; [done|by right].
Qed.

Lemma first_waiting (l : list (name * status)) :
  (∃ x, x ∈ l ∧ snd x = Waiting) → ∃ l1 n l2, l = l1 ++ (n, Waiting) :: l2 ∧ ∀ x, x ∈ l1 → snd x ≠ Waiting.
Proof.
  induction l as [|[m st] l IH]; intros (x & Hx & Hw); [by apply elem_of_nil in Hx|].
  destruct (decide (st = Waiting)) as [->|Hne].
  - exists [], m, l. split; [done|]. by intros y Hy%elem_of_nil.
  - apply elem_of_cons in Hx as [->|Hx]; [done|]. destruct IH as (l1 & n & l2 & -> & Hl1); [by exists x|].
    exists ((m, st) :: l1), n, l2. split; [done|]. intros y Hy. apply elem_of_cons in Hy as [->|Hy]; [done|by apply Hl1].
Qed.

Lemma find_task_topo (ts : list jtask) t1 t t2 :
  ts = t1 ++ t :: t2 → NoDup (map jt_name ts) → find (fun t' => Nat.eqb (jt_name t') (jt_name t)) ts = Some t.
Proof.
  intros -> Hnd. induction t1 as [|a t1 IH]; simpl in *; [by rewrite Nat.eqb_refl|].
  apply NoDup_cons in Hnd as [Ha Hnd]. destruct (Nat.eqb_spec (jt_name a) (jt_name t)) as [E|E]; [|by apply IH].
  exfalso. apply Ha. rewrite E, map_app. apply elem_of_app. right. left.
Qed.

Theorem no_deadlock sc j :
  topo (job_graph j) →
  map fst (sc_stages sc) = map jt_name (j_tasks j) →
  (∃ n, stage_status sc n = Some Waiting) →
  (∀ n, stage_status sc n ≠ Some Running) →
  ∃ n, stage_status sc n = Some Waiting ∧
       (check_status sc j n = (true, false) ∨ check_status sc j n = (false, true)).
Proof.
  intros [Hnd Htopo] Hnames (n0 & Hn0) Hrun.
  assert (Hndj : NoDup (map jt_name (j_tasks j))).
  { unfold job_graph in Hnd. by rewrite map_map in Hnd. }
  destruct (first_waiting (sc_stages sc)) as (l1 & n & l2 & Hl & Hl1).
  { unfold stage_status in Hn0. destruct (find _ _) as [x|] eqn:E; [|done]. injection Hn0 as Hw.
    apply find_some in E as [Hin _]. exists x. split; [by apply elem_of_list_In|done]. }
  assert (Hstn : stage_status sc n = Some Waiting).
  { unfold stage_status. rewrite Hl.
    assert (Hnd' : NoDup (map fst (l1 ++ (n, Waiting) :: l2))) by (rewrite <- Hl, Hnames; done).
    clear -Hnd'. induction l1 as [|a l1 IH]; simpl in *; [by rewrite Nat.eqb_refl|].
    apply NoDup_cons in Hnd' as [Ha Hnd'].
    match goal with |- context [Nat.eqb ?u ?v] => destruct (Nat.eqb u v) eqn:E end; [|by apply IH]. apply Nat.eqb_eq in E.
    exfalso. apply Ha. rewrite map_app. apply elem_of_app. right. simpl. rewrite <- E. left. }
  exists n. split; [done|]. apply check_status_decides. intros d Hd.
  (* the task of n *)
  rewrite Hl, map_app in Hnames. simpl in Hnames.
  symmetry in Hnames. apply fmap_app_inv in Hnames as (t1 & tr & H1 & Hr & Hj).
  destruct tr as [|t t2]; [done|]. simpl in Hr. injection Hr as Hn H2.
  assert (Hft : find_task j n = Some t).
  { unfold find_task. rewrite Hn. by eapply find_task_topo. }
  unfold task_deps in Hd. rewrite Hft in Hd.
  assert (Hg : job_graph j = map (fun t => (jt_name t, jt_def t)) t1 ++ (jt_name t, jt_def t) :: map (fun t => (jt_name t, jt_def t)) t2).
  { unfold job_graph. rewrite Hj, map_app. done. }
  specialize (Htopo _ _ _ Hg d Hd). rewrite map_map in Htopo. simpl in Htopo.
  assert (Htopo' : d ∈ map fst l1).
  { rewrite H1. apply elem_of_list_fmap in Htopo as (y & -> & Hy). apply elem_of_list_fmap. by exists y. }
  clear Htopo. rename Htopo' into Htopo.
  destruct (find_stage_app l1 ((n, Waiting) :: l2) d Htopo) as (x & Hx & Hin).
  exists (snd x). split; [unfold stage_status; by rewrite Hl, Hx|].
  assert (Hnw := Hl1 _ Hin).
  assert (Hnr : snd x ≠ Running).
  { intros E. apply (Hrun d). unfold stage_status. rewrite Hl, Hx. simpl. by rewrite E. }
  unfold terminal. destruct (snd x) eqn:Ex; try done; auto 6.
Qed.

(** the same for a job taken from a valid acyclic definition *)
Theorem acyclic_job_no_deadlock ts sc j :
  NoDup (map fst ts) → deps_closed ts → acyclic ts →
  job_graph j = sort_tasks ts →
  map fst (sc_stages sc) = map jt_name (j_tasks j) →
  (∃ n, stage_status sc n = Some Waiting) →
  (∀ n, stage_status sc n ≠ Some Running) →
  ∃ n, stage_status sc n = Some Waiting ∧
       (check_status sc j n = (true, false) ∨ check_status sc j n = (false, true)).
Proof.
  intros Hnd Hcl Hac Hg. apply no_deadlock. rewrite Hg. by apply sort_tasks_topo.
Qed.

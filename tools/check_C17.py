#!/usr/bin/env python3
"""C17 — only valid definitions load, deterministically; every edit detected (Equals).
Proof: coq/Properties/C17.v. Correspondence: harness/cmd/defsrun against definition.LoadRecursively / Equals."""
import json
import os
import sys

sys.path.insert(0, os.path.dirname(os.path.abspath(__file__)))
from common import *  # noqa

NS = 1000000000


def env_term(m):
    m = m or {}
    return "(mk_env %s)" % cq_list(sorted(m.items()), lambda kv: cq_pair(cq_str(kv[0]), cq_str(kv[1])))


def task_term(t):
    return "(TaskDef %s %s %s %s)" % (cq_list(t.get("script") or [], cq_str), cq_list(t.get("depends_on") or [], cq_str),
                                      cq_bool(t.get("allow_failure", False)), env_term(t.get("env")))


def tasks_term(ts):
    ts = ts or {}
    return "(mk_tasks %s)" % cq_list(sorted(ts.items()), lambda kv: cq_pair(cq_str(kv[0]), task_term(kv[1])))


def raw_term(p):
    return "(RawPDef %s %s %s %s %s %s %s %s %s)" % (
        cq_z(p["concurrency"]), cq_opt(p["queue_limit"], cq_z), cq_opt(p["strategy"], cq_str), cq_z(p["start_delay_s"] * NS),
        cq_bool(p["continue"]), cq_z(p["ret_period_s"] * NS), cq_z(p["ret_count"]), env_term(p["env"]), tasks_term(p["tasks"]))


def pdef_term(d):
    return "(PDef %s %s %s %s %s %s %s %s %s %s)" % (
        cq_z(d["concurrency"]), cq_opt(d["queue_limit"], cq_z), {0: "Append", 1: "Replace"}.get(d["strategy"], "Append"),
        cq_z(d["start_delay_ns"]), cq_bool(d["continue"]), cq_z(d["ret_period_ns"]), cq_z(d["ret_count"]),
        env_term(d["env"]), tasks_term(d["tasks"]), cq_str(d["source_path"]))


def defs_term(ds):
    ds = ds or {}
    return "(mk_defs %s)" % cq_list(sorted(ds.items()), lambda kv: cq_pair(cq_str(kv[0]), pdef_term(kv[1])))


def load_case_term(c):
    # files in the order LoadRecursively processes them (sorted by path; theorem C17_order_independent makes this immaterial)
    files = sorted(c["files"], key=lambda f: f["path"].encode())
    ft = cq_list(files, lambda f: cq_pair(cq_str(f["path"]), cq_list(f["pipelines"] or [], lambda p: cq_pair(cq_str(p["name"]), raw_term(p)))))
    exp = "(Some %s)" % defs_term(c.get("defs") or {}) if c["ok"] else "None"
    return "(%s, check_load %s %s)" % (cq_nat(c["id"]), ft, exp)


def eq_case_term(c):
    return "(%s, check_equals %s %s %s)" % (cq_nat(c["id"]), defs_term(c["a"]), defs_term(c["b"]), cq_bool(c["equals"]))


HEADER = "From stdpp Require Import gmap strings.\nFrom Coq Require Import ZArith.\nFrom PV Require Import Defs Corr.DefsCorr.\nLocal Open Scope string_scope.\n"

KNOWN_PIPELINE_FIELDS = ['Concurrency:int', 'QueueLimit:*int', 'QueueStrategy:definition.QueueStrategy', 'StartDelay:time.Duration',
                         'ContinueRunningTasksAfterFailure:bool', 'RetentionPeriod:time.Duration', 'RetentionCount:int',
                         'Env:map[string]string', 'Tasks:map[string]definition.TaskDef', 'SourcePath:string']
KNOWN_TASK_FIELDS = ['Script:[]string', 'DependsOn:[]string', 'AllowFailure:bool', 'Env:map[string]string']


def run_defsrun(ctx, bins, seed, n, ne, only=None):
    out = os.path.join(ctx.run, "defs-%d.jsonl" % seed)
    scratch = os.path.join(ctx.run, "scratch")
    os.makedirs(scratch, exist_ok=True)
    cmd = [bins["defsrun"], "-seed", str(seed), "-n", str(n), "-ne", str(ne), "-out", out, "-dir", scratch]
    if only is not None:
        cmd += ["-only", str(only)]
    rc, o = sh(cmd, timeout=1200)
    if rc != 0:
        raise RuntimeError("defsrun failed: " + o[-2000:])
    return [json.loads(l) for l in open(out)]


def evaluate(ctx, recs):
    """Returns (monitor_failures, model_mismatch_ids, field_drift)"""
    mon = [r for r in recs if r["kind"] in ("load", "equals") and r["monitor"]]
    drift = []
    for r in recs:
        if r["kind"] == "fields":
            for f in r["pipeline"]:
                if f not in KNOWN_PIPELINE_FIELDS:
                    drift.append("PipelineDef." + f)
            for f in r["task"]:
                if f not in KNOWN_TASK_FIELDS:
                    drift.append("TaskDef." + f)
            for f in KNOWN_PIPELINE_FIELDS:
                if f not in r["pipeline"]:
                    drift.append("-PipelineDef." + f)
            for f in KNOWN_TASK_FIELDS:
                if f not in r["task"]:
                    drift.append("-TaskDef." + f)
    terms = []
    for r in recs:
        if r["kind"] == "load":
            terms.append(load_case_term(r))
        elif r["kind"] == "equals" and r.get("known"):
            terms.append(eq_case_term(r))
    bad = run_cases(ctx, "cases_c17", HEADER, terms)
    return mon, bad, drift


def main():
    ctx = Ctx("C17", sys.argv[1:])
    proof_ok = proof_evidence(ctx, extra_files=["Corr/DefsCorr.v"])
    bins = build_harness(ctx, ["defsrun"])
    if bins is None:
        violation(ctx, {"what": "harness does not build against the repository working tree; correspondence for C17 cannot run",
                        "broken": "correspondence defsrun"}, found_input=False)
        finish(ctx)
    if ctx.replay:
        rp = json.load(open(ctx.replay if os.path.isabs(ctx.replay) else os.path.join(VERIF, ctx.replay)))
        if "reload_walk" in rp:
            rb = build_harness(ctx, ["realrun"])
            outp = os.path.join(ctx.run, "reload.jsonl")
            rc, o = sh([rb["realrun"], "-mode", "reload", "-walk", ",".join(rp["reload_walk"]), "-out", outp], cwd=ctx.run, timeout=300)
            rl = [json.loads(l) for l in open(outp)] if rc == 0 else []
            if [r for r in rl if r.get("kind") == "reload_step" and "still print" in (r.get("what") or "")]:
                violation(ctx, rp)
            finish(ctx)
        recs = run_defsrun(ctx, bins, rp.get("run_seed", 1), rp.get("n", 0), rp.get("ne", 0), only=rp.get("case_id"))
        mon, bad, drift = evaluate(ctx, recs)
        for r in recs:
            if r["kind"] != "fields":
                ctx.log("replayed case", r["id"], "monitor:", r["monitor"], "model mismatch:", r["id"] in bad)
        if mon or bad or drift:
            violation(ctx, rp, found_input=bool(mon))
        finish(ctx)

    n, ne = (600, 900) if ctx.tier == "quick" else (6000, 9000)
    recs = run_defsrun(ctx, bins, ctx.seed, n, ne)
    mon, bad, drift = evaluate(ctx, recs)
    byid = {r["id"]: r for r in recs if "id" in r}

    # statistics for the evidence
    hist = {}
    distinct = set()
    for r in recs:
        if r["kind"] == "load":
            k = "load/%s/%s" % (r["corruption"], "ok" if r["ok"] else "err")
            nontrivial = sum(len(f["pipelines"] or []) for f in r["files"]) > 0
        elif r["kind"] == "equals":
            k = "equals/%s/%s" % (r["field"] or "identical", r["equals"])
            nontrivial = True
        else:
            continue
        hist[k] = hist.get(k, 0) + 1
        if nontrivial:
            distinct.add(json.dumps({kk: r[kk] for kk in r if kk not in ("id",)}, sort_keys=True))
    ctx.coverage.update({
        "evaluations": len(byid),
        "distinct_nontrivial": len(distinct),
        "rule": "cases from one splitmix64 stream (VERIF_SEED): definition file sets written as YAML and loaded by the real LoadRecursively "
                "(valid sets and each single-field corruption), and pairs of definition sets differing in exactly one field chosen by "
                "reflection over PipelineDef/TaskDef (plus identical and nil-vs-empty pairs) compared by the real Equals; a case is "
                "non-trivial if it contains at least one pipeline; distinct = distinct JSON of input+result",
        "samples": [byid[i] for i in sorted(byid)[:2]] + [r for r in recs if r["kind"] == "equals"][:2],
        "histogram": hist,
        "model_mismatches": bad,
        "monitor_failures": [r["id"] for r in mon],
        "field_drift": drift,
        "traces_validated_against_impl": len(byid),
    })
    ctx.assumptions = ["yaml.v2 decoding and zglob are exercised by the correspondence run, not modelled",
                       "within one YAML file pipeline names are distinct (a YAML mapping)"]

    if not proof_ok:
        violation(ctx, {"what": "Coq development for C17 does not check", "broken": "Properties/C17.v or its dependencies",
                        "log": ctx.log_lines[-5:]}, found_input=False)
    # "every edit is detected" at the place where the decision is taken: the reload loop of the real application (watch mode) while the
    # definition file walks over three versions and often returns to an earlier content
    rb = build_harness(ctx, ["realrun"])
    rl = []
    if rb:
        outp = os.path.join(ctx.run, "reload.jsonl")
        rc, o = sh([rb["realrun"], "-mode", "reload", "-seed", str(ctx.seed), "-n", "2" if ctx.tier == "quick" else "10", "-out", outp], cwd=ctx.run, timeout=900)
        if rc == 0:
            rl = [json.loads(l) for l in open(outp)]
    steps = [r for r in rl if r.get("kind") == "reload_step"]
    if not steps:
        violation(ctx, {"what": "realrun -mode reload did not complete", "broken": "the reload walk over the real application (C17: every edit detected) cannot run"}, found_input=False)
    ctx.coverage["reload_walk_steps"] = len(steps)
    ctx.coverage["reload_walk_returns_to_earlier_version"] = sum(1 for r in steps if r["to"] in r["walk"][:r["step"] + 1])
    undetected = [r for r in steps if "still print" in (r.get("what") or "")]
    for r in undetected[:2]:
        violation(ctx, {"what": "real application (watch mode): an edit of the definitions was not detected: " + r["what"], "reload_walk": r["walk"][:r["step"] + 2],
                        "step": dict(r, expected_after="ver=%s rv=%s" % (r["to"], "unset" if r["to"] == "a" else r["to"]))})
    # concrete violations: the property evaluated directly on the implementation's behaviour
    for r in mon[:5]:
        violation(ctx, {"what": r["monitor"], "case": r, "run_seed": ctx.seed, "n": n, "ne": ne, "case_id": r["id"]})
    if not mon and (bad or drift):
        # the correspondence broke but no monitor failed: search further for a failing input
        ctx.log("correspondence broken (mismatches %s, drift %s): searching for a failing input" % (bad[:5], drift))
        found = None
        for extra in range(1, 6):
            more = run_defsrun(ctx, bins, ctx.seed + 1000 * extra, 2000, 4000)
            fm = [r for r in more if r["kind"] in ("load", "equals") and r["monitor"]]
            if fm:
                found = (fm[0], ctx.seed + 1000 * extra)
                break
        if found:
            violation(ctx, {"what": found[0]["monitor"], "case": found[0], "run_seed": found[1], "n": 2000, "ne": 4000, "case_id": found[0]["id"]})
        else:
            first = byid[bad[0]] if bad else None
            violation(ctx, {"what": "model and implementation disagree but the property monitor found no failing input",
                            "broken": "correspondence defsrun vs coq/Defs.v (theorems C17_* are about a model that no longer matches the code)",
                            "field_drift": drift, "case": first, "run_seed": ctx.seed, "n": n, "ne": ne,
                            "case_id": first["id"] if first else None}, found_input=False)
    finish(ctx)


if __name__ == "__main__":
    main()

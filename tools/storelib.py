"""storerun driver shared by the C09 check and the codec part of C10"""
import json
import os
import re

from common import *  # noqa


def run_store(ctx, bins, mode, seed, n, tag=""):
    d = os.path.join(ctx.run, "store-%s-%d%s" % (mode, seed, tag))
    out = os.path.join(ctx.run, "store-%s-%d%s.jsonl" % (mode, seed, tag))
    rc, o = sh([bins["storerun"], "-mode", mode, "-dir", d, "-seed", str(seed), "-n", str(n), "-out", out], timeout=1200)
    res = [json.loads(l) for l in open(out)] if os.path.exists(out) else []
    if rc != 0:
        res.append({"kind": mode, "ok": False, "what": "storerun exited with %d: %s" % (rc, o[-800:])})
    shutil.rmtree(d, ignore_errors=True)
    return res


def strace_ops(ctx, bins, seed):
    """Run a few saves under strace and translate the system calls on the data directory into the ops of Corr/StoreCorr.v."""
    d = os.path.join(ctx.run, "store-trace-%d" % seed)
    tr = os.path.join(ctx.run, "strace-%d.txt" % seed)
    rc, o = sh(["strace", "-f", "-y", "-e", "trace=open,openat,creat,write,pwrite64,writev,close,rename,renameat,renameat2,unlink,unlinkat,truncate,ftruncate",
                "-o", tr, bins["storerun"], "-mode", "trace", "-dir", d, "-seed", str(seed)], timeout=300)
    if rc != 0 or not os.path.exists(tr):
        return None, "strace failed: " + o[-500:]
    names = {}

    def fid(path):
        base = os.path.basename(path)
        if base == "data.json":
            return 0
        return names.setdefault(base, len(names) + 1)

    ops, raw = [], []
    for line in open(tr):
        if d not in line or "unfinished" in line:
            continue
        m = re.search(r"(open|openat|creat)\((?:AT_FDCWD(?:<[^>]*>)?, )?\"([^\"]+)\"(?:, ([A-Z_|0-9]+))?", line)
        if m and m.group(2).startswith(d + "/"):
            if "= -1" in line:
                continue
            flags = m.group(3) or "O_CREAT|O_WRONLY|O_TRUNC"
            f = fid(m.group(2))
            if "O_EXCL" in flags and "O_CREAT" in flags:
                ops.append("SCreateExcl %d" % f)
            else:
                wr = any(x in flags for x in ("O_WRONLY", "O_RDWR", "O_TRUNC", "O_APPEND", "O_CREAT"))
                ops.append("SOpen %d %s" % (f, cq_bool(wr)))
            raw.append(line.strip()[:160])
            continue
        m = re.search(r"(write|pwrite64|writev|ftruncate)\(\d+<([^>]+)>", line)
        if m and m.group(2).startswith(d + "/"):
            ops.append("SWrite %d" % fid(m.group(2)))
            continue
        m = re.search(r"close\(\d+<([^>]+)>", line)
        if m and m.group(1).startswith(d + "/"):
            ops.append("SClose %d" % fid(m.group(1)))
            continue
        m = re.search(r"rename(?:at2?)?\((?:AT_FDCWD(?:<[^>]*>)?, )?\"([^\"]+)\", (?:AT_FDCWD(?:<[^>]*>)?, )?\"([^\"]+)\"", line)
        if m and (m.group(1).startswith(d + "/") or m.group(2).startswith(d + "/")):
            ops.append("SRename %d %d" % (fid(m.group(1)), fid(m.group(2))))
            raw.append(line.strip()[:200])
            continue
        m = re.search(r"(unlink|unlinkat|truncate)\((?:AT_FDCWD(?:<[^>]*>)?, )?\"([^\"]+)\"", line)
        if m and m.group(2).startswith(d + "/"):
            ops.append("SUnlink %d" % fid(m.group(2)))
            raw.append(line.strip()[:160])
    shutil.rmtree(d, ignore_errors=True)
    return ops, raw


def conforms_in_coq(ctx, ops):
    src = "From stdpp Require Import list.\nFrom PV Require Import Corr.StoreCorr.\n"
    src += "Definition ops : list sop := [%s]%%nat.\n" % "; ".join("(%s)" % o for o in ops)
    src += "Definition ok := Eval vm_compute in conforms ops [].\nPrint ok.\n"
    path = os.path.join(ctx.run, "conforms.v")
    open(path, "w").write(src)
    rc, out = sh(["timeout", "300", "coqc", "-Q", COQ, "PV", "-w", "none", path], cwd=ctx.run)
    if rc != 0:
        raise RuntimeError("conformance file does not check: " + out[-1000:])
    return "ok = true" in out

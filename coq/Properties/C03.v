(** * C03 — No accepted job is lost or stranded on the wait list  (partial: safety half proved; see below)

    Proved for every reachable state of the system model: the wait list of a pipeline is *exactly* the list of its
    waiting (not started, not canceled) jobs, each once, in acceptance order. So no event — cancel of another waiting
    job, a job that fails to start, a replacement, a reload — can drop a waiting job from the queue or leave a
    non-waiting one in it (the latter is what stranded jobs before the repair of D2), and every dequeue attempt sees
    every waiting job. The dequeue loop is proved to consume a prefix of that list.
    NOT proved here (stated as the monitor of the correspondence run instead): the liveness half — that a dequeue
    attempt follows every event that frees a slot or makes the head eligible, and hence that under fair scheduling
    every waiting job eventually starts (C03_work_conserving / C03_drains of DESIGN.md). *)
From stdpp Require Import list sorting.
From Coq Require Import ZArith.
From PV Require Import Runner proofs.SystemProps.

Theorem C03_waiting_iff_queued_partial : ∀ s p,
  reach s → st_shut s = false → wl_get (st_wait s) p = sys_waiting_ids s p.
Proof. exact sys_wait_list_exact. Qed.

Theorem C03_queue_in_acceptance_order : ∀ s p, reach s → StronglySorted lt (wl_get (st_wait s) p).
Proof. exact sys_wait_sorted. Qed.

(** a job that was canceled while waiting is never started, and never gets a scheduler *)
Theorem C03_canceled_waiting_stays_out : ∀ s evs id j,
  reach s → Forall no_restart evs → get_job s id = Some j →
  ∃ j', get_job (exec s evs) id = Some j' ∧ job_snapshot j' = job_snapshot j
        ∧ (j_canceled j = true → j_canceled j' = true) ∧ (j_completed j = true → j_completed j' = true)
        ∧ (is_Some (j_start j) → is_Some (j_start j'))
        ∧ (j_canceled j = true → j_start j = None → j_start j' = None ∧ j_sched j' = None).
Proof. exact sys_snapshot_immutable. Qed.

Definition ex_defs : defs := [(0%nat, PDef 1 None false 0 false 0 0 0 [(0%nat, TaskDef [] false false 0 0)])].
Example C03_ex :
  let s := exec (init ex_defs) [EvSchedule 0 VNone 0; EvSchedule 0 VNone 0; EvSchedule 0 VNone 0; EvCancel 1] in
  wl_get (st_wait s) 0 = [2%nat] ∧ sys_waiting_ids s 0 = [2%nat].
Proof. vm_compute. done. Qed.

Print Assumptions C03_waiting_iff_queued_partial.
Print Assumptions C03_queue_in_acceptance_order.
Print Assumptions C03_canceled_waiting_stays_out.

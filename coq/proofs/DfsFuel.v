(** The fuel of the cycle search never runs out (Graph.v cycle_dfs / add_edges / add_stages / build_graph_ok).

    [cycle_dfs] recurses on explicit fuel and reports exhaustion as [None], the value that also stands for
    ErrCycleDetected. Here: with the fuel [build_graph_ok] passes ([2 + number of tasks]) the result is the
    one every larger amount of fuel gives — for EVERY task list (duplicate names, unknown dependencies, cycles
    included), so a [None] of the model always is a visited node met again, never exhaustion. The argument is
    the one in the comment of Graph.v: a search that goes one level deeper has marked one more node, every node
    the search can reach is the target of an edge, and targets of edges are names of stages. *)
From stdpp Require Import list.
From Coq Require Import Lia.
From PV Require Import Graph BuildProps.

(** the names of [U] not yet visited *)
Definition free (U vis : list name) : nat := length (List.filter (fun n => negb (mem n vis)) U).

Lemma free_le_length U vis : free U vis ≤ length U.
Proof. unfold free. induction U as [|a U IH]; simpl; [lia|]. destruct (negb (mem a vis)); simpl; lia. Qed.

Lemma free_mono U vis vis' : (∀ x, x ∈ vis → x ∈ vis') → free U vis' ≤ free U vis.
Proof.
  intros Hsub. unfold free. induction U as [|a U IH]; simpl; [lia|].
  destruct (mem a vis) eqn:E; simpl.
  - apply mem_spec, Hsub, mem_spec in E. rewrite E. simpl. exact IH.
  - destruct (mem a vis'); simpl; lia.
Qed.

Lemma mem_cons n t vis : mem n (t :: vis) = Nat.eqb n t || mem n vis.
Proof. done. Qed.

Lemma free_cons U t vis : t ∈ U → mem t vis = false → free U (t :: vis) < free U vis.
Proof.
  intros Hin Hm. induction U as [|a U IH]; [by apply elem_of_nil in Hin|].
  assert (Hle : free U (t :: vis) ≤ free U vis) by (apply free_mono; intros x Hx; by right).
  unfold free in *. cbn [List.filter]. rewrite mem_cons.
  destruct (Nat.eqb a t) eqn:Eat.
  - apply Nat.eqb_eq in Eat. subst a. rewrite Hm. cbn [negb orb length]. lia.
  - apply elem_of_cons in Hin as [->|Hin]; [by rewrite Nat.eqb_refl in Eat|].
    specialize (IH Hin). cbn [orb]. destruct (mem a vis); cbn [negb length]; lia.
Qed.

Section fuel.
  Context (es : edges) (U : list name) (fuel k : nat).
  Context (IH : ∀ t vis, t ∈ U → free U vis < fuel → cycle_dfs (fuel + k) es t vis = cycle_dfs fuel es t vis).

  Let go (f : nat) := (fix go (nexts : list name) (visited : list name) : option (list name) :=
           match nexts with
           | [] => Some visited
           | n :: nexts => match cycle_dfs f es n visited with
                           | None => None
                           | Some v => go nexts v
                           end
           end).

  Lemma go_fuel ns v0 : (∀ y, y ∈ ns → y ∈ U) → free U v0 < fuel → go (fuel + k) ns v0 = go fuel ns v0.
  Proof.
    revert v0. induction ns as [|n ns IHns]; intros v0 Hns Hf; [done|]. simpl.
    rewrite IH; [|apply Hns; left|done].
    destruct (cycle_dfs fuel es n v0) as [v1|] eqn:E1; [|done].
    apply IHns; [intros y Hy; apply Hns; by right|].
    apply cycle_dfs_spec in E1 as (new & -> & _).
    eapply Nat.le_lt_trans; [|exact Hf]. apply free_mono. intros x Hx. apply elem_of_app. by right.
  Qed.
End fuel.

(** more fuel than there are unvisited names is never used up *)
Lemma cycle_dfs_fuel es U : (∀ x y, (x, y) ∈ es → y ∈ U) →
  ∀ fuel k t vis, t ∈ U → free U vis < fuel → cycle_dfs (fuel + k) es t vis = cycle_dfs fuel es t vis.
Proof.
  intros HU. induction fuel as [|fuel IH]; intros k t vis Ht Hf; [lia|].
  change (S fuel + k) with (S (fuel + k)). cbn [cycle_dfs].
  destruct (mem t vis) eqn:Em; [done|].
  apply (go_fuel es U fuel k (IH k)).
  - intros y Hy. apply succs_spec in Hy. by eapply HU.
  - pose proof (free_cons U t vis Ht Em). lia.
Qed.

Lemma add_edges_fuel U fuel k stage : stage ∈ U → length U < fuel →
  ∀ deps es, (∀ x y, (x, y) ∈ es → y ∈ U) → add_edges (fuel + k) es stage deps = add_edges fuel es stage deps.
Proof.
  intros Hs Hlen. induction deps as [|d deps IH]; intros es Hes; [done|]. cbn [add_edges].
  assert (Hes' : ∀ x y, (x, y) ∈ es ++ [(d, stage)] → y ∈ U).
  { intros x y He. apply elem_of_app in He as [He|He]; [by eapply Hes|]. apply elem_of_list_singleton in He. by injection He as -> ->. }
  rewrite (cycle_dfs_fuel _ U Hes'); [|done|pose proof (free_le_length U []); lia].
  destruct (cycle_dfs fuel _ stage []); [|done]. by apply IH.
Qed.

Lemma add_stages_fuel U fuel k : length U < fuel →
  ∀ ts es, (∀ n, n ∈ map fst ts → n ∈ U) → (∀ x y, (x, y) ∈ es → y ∈ U) →
  add_stages (fuel + k) es ts = add_stages fuel es ts.
Proof.
  intros Hlen. induction ts as [|[n t] ts IH]; intros es Hts Hes; [done|]. cbn [add_stages].
  assert (Hn : n ∈ U) by (apply Hts; left).
  rewrite (add_edges_fuel U fuel k n Hn Hlen _ _ Hes).
  destruct (add_edges fuel es n (td_deps t)) as [es'|] eqn:E; [|done].
  apply IH; [intros m Hm; apply Hts; by right|].
  clear IH. revert es es' Hes E. induction (td_deps t) as [|d deps IHd]; intros es es' Hes E; cbn [add_edges] in E.
  - by injection E as <-.
  - destruct (cycle_dfs fuel _ n []); [|done]. eapply IHd; [|exact E].
    intros x y He. apply elem_of_app in He as [He|He]; [by eapply Hes|]. apply elem_of_list_singleton in He. by injection He as -> ->.
Qed.

(** for every task list whatsoever: the graph builder's answer with its own fuel is its answer with any larger fuel *)
Theorem build_graph_fuel_sufficient ts k :
  add_stages (S (S (length ts)) + k) [] ts = add_stages (S (S (length ts))) [] ts.
Proof.
  apply (add_stages_fuel (map fst ts)).
  - rewrite map_length. lia.
  - done.
  - intros x y He. by apply elem_of_nil in He.
Qed.

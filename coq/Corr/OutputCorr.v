(** Correspondence functions for C19: observed log files and log requests vs the output model *)
From stdpp Require Import list strings.
From Coq Require Import NArith Ascii.
From PV Require Import Output.

(** strings with non-printable / non-ASCII bytes are emitted by the harness as byte lists *)
Definition bs (l : list N) : string := string_of_list_ascii (map ascii_of_N l).

Definition run_evs (r : string * string * list cmd) : list ev := run_events r.1.1 r.1.2 r.2.

(** one round: the task runs of all jobs (job id, task, commands with their chunks) and the two files observed for each.
    The model executes the runs one after the other into one store (any interleaving gives the same files:
    OutputProps.concurrent_runs) and every observed file must equal the model's. *)
Definition check_round (c : nat * list (string * string * list cmd * bytes * bytes)) : nat * bool :=
  let '(id, obs) := c in
  let f := exec (concat (map (fun o => run_evs o.1.1) obs)) fs0 in
  (id, forallb (fun o : string * string * list cmd * bytes * bytes =>
                  let '(j, t, _, out, err) := o in
                  bool_decide (f (j, t, Stdout) = Some out) && bool_decide (f (j, t, Stderr) = Some err)) obs).

Definition mismatches (cs : list (nat * list (string * string * list cmd * bytes * bytes))) : list nat :=
  map fst (List.filter (fun r => negb (snd r)) (map check_round cs)).

(** one log request for a task name: (id, tasks of the job, requested task, was it refused) *)
Definition check_request (c : nat * list string * string * bool) : nat * bool :=
  let '(id, tasks, t, refused) := c in
  (id, bool_decide (bool_decide (logs_request fs0 "" tasks t = None) = refused)).

Definition request_mismatches (cs : list (nat * list string * string * bool)) : list nat :=
  map fst (List.filter (fun r => negb (snd r)) (map check_request cs)).

(** where the real store put the log of (job, task, stream): (id, job, task, stream, directory, file) *)
Definition check_path (c : nat * string * string * stream * string * string) : nat * bool :=
  let '(id, j, t, s, dir, file) := c in (id, bool_decide (build_path (j, t, s) = (dir, file))).

Definition path_mismatches (cs : list (nat * string * string * stream * string * string)) : list nat :=
  map fst (List.filter (fun r => negb (snd r)) (map check_path cs)).

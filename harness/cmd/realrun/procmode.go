package main

import (
	"bytes"
	"fmt"
	"os"
	"path/filepath"
	"strconv"
	"strings"
	"syscall"
	"time"

	"verifharness/hutil"
)

// Node is a generated process tree, rendered to bash
type Node struct {
	Kind      string  `json:"kind"` // sleep | par | pipe | sub | seq
	IgnoreInt bool    `json:"ignore_int,omitempty"`
	Detach    bool    `json:"detach,omitempty"`  // (as a background child) redirected away from the task's output pipes
	NoWait    bool    `json:"no_wait,omitempty"` // par: the parent does not wait for its background children
	NewBash   bool    `json:"new_bash,omitempty"`
	Children  []*Node `json:"children,omitempty"`
}

func genTree(r *hutil.Rng, depth int) *Node {
	if depth <= 0 || r.Chance(1, 4) {
		return &Node{Kind: "sleep", IgnoreInt: r.Chance(1, 4)}
	}
	n := &Node{Kind: []string{"par", "par", "pipe", "sub", "seq"}[r.Intn(5)], IgnoreInt: r.Chance(1, 5), NewBash: r.Chance(1, 4)}
	k := 1
	switch n.Kind {
	case "par":
		k = 1 + r.Intn(3)
		n.NoWait = r.Chance(1, 3)
	case "pipe":
		k = 2
	case "seq":
		k = 1 + r.Intn(2)
	}
	for i := 0; i < k; i++ {
		c := genTree(r, depth-1)
		if n.Kind == "par" {
			c.Detach = r.Chance(1, 2)
		}
		n.Children = append(n.Children, c)
	}
	return n
}

func hasNoWait(n *Node) bool {
	if n.NoWait {
		return true
	}
	for _, c := range n.Children {
		if hasNoWait(c) {
			return true
		}
	}
	return false
}

type renderer struct {
	dir   string
	count int
}

func (rd *renderer) render(n *Node) string {
	var s string
	switch n.Kind {
	case "sleep":
		if n.IgnoreInt {
			s = "( trap '' INT; exec sleep 300 )"
		} else {
			s = "sleep 300"
		}
	case "par":
		var parts []string
		for _, c := range n.Children {
			p := rd.render(c)
			if c.Detach {
				p += " >/dev/null 2>&1 </dev/null"
			}
			parts = append(parts, p+" &")
		}
		tail := "wait"
		if n.NoWait {
			tail = "sleep 0.05"
		}
		s = "{ " + strings.Join(parts, " ") + " " + tail + "; }"
	case "pipe":
		s = rd.render(n.Children[0]) + " | " + rd.render(n.Children[1])
	case "sub":
		s = "( " + rd.render(n.Children[0]) + " )"
	case "seq":
		var parts []string
		for _, c := range n.Children {
			parts = append(parts, rd.render(c))
		}
		s = "{ echo start; " + strings.Join(parts, "; ") + "; }"
	}
	if n.IgnoreInt && n.Kind != "sleep" {
		s = "( trap '' INT; " + s + " )"
	}
	if n.NewBash {
		rd.count++
		f := filepath.Join(rd.dir, fmt.Sprintf("tree_%d.sh", rd.count))
		_ = os.WriteFile(f, []byte(s+"\n"), 0755)
		s = "bash " + f
	}
	return s
}

// procsWithMark scans /proc/*/environ for the marker; zombies have no environ and do not count
func procsWithMark(mark string) []int {
	needle := []byte("VERIF_MARK=" + mark + "\x00")
	ents, _ := os.ReadDir("/proc")
	var pids []int
	for _, e := range ents {
		pid, err := strconv.Atoi(e.Name())
		if err != nil {
			continue
		}
		b, err := os.ReadFile("/proc/" + e.Name() + "/environ")
		if err != nil || len(b) == 0 {
			continue
		}
		b = append(b, 0)
		if bytes.Contains(b, needle) {
			st, _ := os.ReadFile("/proc/" + e.Name() + "/stat")
			if i := bytes.LastIndexByte(st, ')'); i >= 0 && i+2 < len(st) && st[i+2] == 'Z' {
				continue
			}
			pids = append(pids, pid)
		}
	}
	return pids
}

// pgidOf reads the process group of a process from /proc/<pid>/stat
func pgidOf(pid int) int {
	st, err := os.ReadFile(fmt.Sprintf("/proc/%d/stat", pid))
	if err != nil {
		return -1
	}
	i := bytes.LastIndexByte(st, ')')
	if i < 0 {
		return -1
	}
	f := strings.Fields(string(st[i+1:]))
	if len(f) < 3 {
		return -1
	}
	g, _ := strconv.Atoi(f[2])
	return g
}

func settle(mark string, max time.Duration) int {
	deadline := time.Now().Add(max)
	last, since := -1, time.Now()
	for time.Now().Before(deadline) {
		n := len(procsWithMark(mark))
		if n != last {
			last, since = n, time.Now()
		} else if n > 0 && time.Since(since) > 120*time.Millisecond {
			break
		}
		time.Sleep(10 * time.Millisecond)
	}
	return last
}

func cmdline(pid int) string {
	b, _ := os.ReadFile(fmt.Sprintf("/proc/%d/cmdline", pid))
	return strings.ReplaceAll(strings.TrimRight(string(b), "\x00"), "\x00", " ")
}

const killTimeout = 2 * time.Second

func procMode(seed uint64, rounds int) {
	rng := hutil.NewRng(seed)
	dir, err := os.MkdirTemp("", "realrun-proc")
	if err != nil {
		panic(err)
	}
	defer os.RemoveAll(dir)
	rd := &renderer{dir: dir}
	// the pipelines: one task running a tree given by variable, at the interpreter level or below bash
	defs := map[string]PipeDef{
		"tree": {Concurrency: 64, Tasks: map[string]TaskDef{"t": {Script: []string{"VERIF_MARK={{.mark}} bash {{.file}}"}}}},
		// the interpreter itself runs several commands: pipeline, background, sequence
		"interp": {Concurrency: 64, Tasks: map[string]TaskDef{"t": {Script: []string{
			"export VERIF_MARK={{.mark}}; sleep 300 & bash {{.file}} | cat; wait"}}}},
		// the tree is a background command of the interpreter itself
		"interpbg": {Concurrency: 64, Tasks: map[string]TaskDef{"t": {Script: []string{
			"export VERIF_MARK={{.mark}}; bash {{.file}} & sleep 300; wait"}}}},
		// an earlier script line leaves a background process behind and returns; the cancel comes while a later line runs
		"earlier": {Concurrency: 64, Tasks: map[string]TaskDef{"t": {Script: []string{
			"VERIF_MARK={{.mark}}E bash {{.efile}}", "VERIF_MARK={{.mark}} bash {{.file}}"}}}},
		// the tree is a background command of the interpreter; the last foreground command handles the interrupt and exits by itself
		"interplast": {Concurrency: 64, Tasks: map[string]TaskDef{"t": {Script: []string{
			"VERIF_MARK={{.mark}} bash {{.file}} </dev/null >/dev/null 2>&1 &", "bash {{.tfile}}"}}}},
		"two": {Concurrency: 64, Tasks: map[string]TaskDef{
			"t": {Script: []string{"VERIF_MARK={{.mark}} bash {{.file}}"}},
			"u": {Script: []string{"VERIF_MARK={{.mark}} sleep 300"}}}},
	}
	a, err := startApp(defs)
	if err != nil {
		emit(map[string]interface{}{"kind": "error", "what": err.Error()})
		return
	}
	defer a.Stop()
	// a bystander job whose processes must never be touched
	byMark := fmt.Sprintf("by%d", os.Getpid())
	byFile := filepath.Join(dir, "bystander.sh")
	_ = os.WriteFile(byFile, []byte("sleep 300 & sleep 300 | cat\n"), 0755)
	byID, _, _ := a.Schedule("tree", map[string]interface{}{"mark": byMark, "file": byFile})
	byCount := settle(byMark, 3*time.Second)
	for round := 0; round < rounds; round++ {
		r := rng.Fork()
		tree := genTree(r, 1+r.Intn(3))
		rd.count++
		file := filepath.Join(dir, fmt.Sprintf("top_%d.sh", rd.count))
		// the top-level shell of the tree may handle the interrupt itself and exit normally (instead of dying from it)
		trapExit := r.Chance(1, 4)
		forced := ""
		switch round % 9 {
		case 2:
			// the leader handles the interrupt and exits normally; a child ignores it and does not hold the output pipes
			tree = &Node{Kind: "par", Children: []*Node{{Kind: "sleep", IgnoreInt: true, Detach: true}}}
			trapExit, forced = true, "tree"
		case 4:
			// a background command of the interpreter ignores the interrupt; the last foreground command exits by itself
			tree = &Node{Kind: "par", Children: []*Node{{Kind: "sleep"}}}
			trapExit, forced = false, "interplast"
		}
		content := rd.render(tree) + "\n"
		if forced == "interplast" {
			content = "trap '' INT\n" + content // the whole background command ignores the interrupt
		}
		if trapExit {
			content = "trap 'exit 0' INT\n" + content
		}
		_ = os.WriteFile(file, []byte(content), 0755)
		mark := fmt.Sprintf("m%d_%d_%d", os.Getpid(), seed, round)
		pipe := []string{"tree", "tree", "interp", "two", "earlier", "interpbg", "interplast"}[r.Intn(7)]
		if forced != "" {
			pipe = forced
		}
		if os.Getenv("REALRUN_PIPE") != "" {
			pipe = os.Getenv("REALRUN_PIPE")
		}
		if round == 1 {
			pipe = "earlier"
		}
		efile := filepath.Join(dir, "earlier.sh")
		_ = os.WriteFile(efile, []byte("sleep 300 >/dev/null 2>&1 </dev/null &\n"), 0755)
		tfile := filepath.Join(dir, "traplast.sh")
		_ = os.WriteFile(tfile, []byte("trap 'exit 0' INT\nsleep 300\n"), 0755)
		rec := map[string]interface{}{"kind": "proc", "round": round, "pipeline": pipe, "tree": tree, "mark": mark, "trap_exit": trapExit}
		script, _ := os.ReadFile(file)
		rec["script"] = string(script)
		id, st, msg := a.Schedule(pipe, map[string]interface{}{"mark": mark, "file": file, "efile": efile, "tfile": tfile})
		if st != 202 {
			rec["ok"], rec["what"] = false, fmt.Sprintf("schedule: %d %s", st, msg)
			emit(rec)
			continue
		}
		// cancel while the tree is still being built - only for trees in which no process exits by itself, so that
		// "the command had returned before the cancel" is never a matter of milliseconds
		early := r.Chance(1, 3) && !hasNoWait(tree) && forced == ""
		if early {
			// cancel while the tree is still being built
			for i := 0; i < 500 && len(procsWithMark(mark)) == 0; i++ {
				time.Sleep(2 * time.Millisecond)
			}
			time.Sleep(time.Duration(r.Intn(60)) * time.Millisecond)
		} else {
			settle(mark, 3*time.Second)
		}
		before := procsWithMark(mark)
		rec["early"], rec["procs_before"] = early, len(before)
		// groups whose leader is already gone before the cancel: their command has returned
		alivePid := map[int]bool{}
		for _, p := range before {
			alivePid[p] = true
		}
		orphanGroup := map[int]bool{}
		for _, p := range before {
			if g := pgidOf(p); g > 0 && !alivePid[g] {
				orphanGroup[g] = true
			}
		}
		t0 := time.Now()
		cst := a.Cancel(id)
		res, done := a.WaitDone(id, 4*killTimeout)
		report := time.Since(t0)
		at := procsWithMark(mark)
		earlierAt := len(procsWithMark(mark + "E"))
		var atCmd []string
		atOrphan := 0
		for _, p := range at {
			g := pgidOf(p)
			if orphanGroup[g] {
				atOrphan++
			}
			atCmd = append(atCmd, fmt.Sprintf("%d(pgid %d):%s", p, g, cmdline(p)))
		}
		// scheduling latency: a killed process may need a moment to be gone
		time.Sleep(100 * time.Millisecond)
		soon := procsWithMark(mark)
		soonOrphan := 0
		for _, p := range soon {
			if orphanGroup[pgidOf(p)] {
				soonOrphan++
			}
		}
		bystanders := len(procsWithMark(byMark))
		time.Sleep(killTimeout + 300*time.Millisecond - report)
		final := procsWithMark(mark)
		earlierFinal := procsWithMark(mark + "E")
		final = append(final, earlierFinal...)
		if pipe == "earlier" {
			rec["earlier_alive_at_report"], rec["earlier_alive_after_timeout"] = earlierAt, len(earlierFinal)
			if earlierAt > 0 {
				rec["finding"] = "earlier-line-leftover"
			}
		}
		rec["cancel_status"], rec["reported"], rec["report_ms"] = cst, done, report.Milliseconds()
		rec["alive_at_report"], rec["alive_at_report_cmd"], rec["alive_100ms_after_report"], rec["alive_after_timeout"] = len(at), atCmd, len(soon), len(final)
		rec["bystanders"], rec["bystanders_expected"] = bystanders, byCount
		if res != nil {
			rec["canceled"] = res.Canceled
		}
		rec["alive_at_report_returned_groups"], rec["groups_returned_before_cancel"] = atOrphan, len(orphanGroup)
		if soonOrphan > 0 && soonOrphan == len(soon) && len(final) == 0 {
			// all survivors belong to commands that had returned before the cancel (their leader was gone): the known finding
			rec["finding"] = "earlier-line-leftover"
			soon = nil
		}
		ok := done && len(soon) == 0 && len(final) == 0 && bystanders == byCount && report <= killTimeout+1500*time.Millisecond && res != nil && res.Canceled
		if res != nil && done && !res.Canceled {
			// the task had already finished by itself when the cancel arrived (the tree's leader exited and nobody held the
			// pipes): not a canceled job, outside the property
			rec["not_canceled"] = true
			ok = bystanders == byCount
		}
		rec["ok"] = ok
		emit(rec)
		for _, p := range final {
			_ = syscall.Kill(p, syscall.SIGKILL)
		}
	}
	forcedShutdownRound(rd, dir, seed, seed%2 == 1)
	// the bystander is still running and complete; cancel it at the end
	bj, _ := a.Detail(byID)
	emit(map[string]interface{}{"kind": "bystander", "completed": bj != nil && bj.Completed, "procs": len(procsWithMark(byMark)), "expected": byCount,
		"ok": bj != nil && !bj.Completed && len(procsWithMark(byMark)) == byCount})
	a.Cancel(byID)
	a.WaitDone(byID, 4*killTimeout)
	time.Sleep(150 * time.Millisecond)
	left := procsWithMark(byMark)
	emit(map[string]interface{}{"kind": "bystander_end", "alive": len(left), "ok": len(left) == 0})
	for _, p := range left {
		_ = syscall.Kill(p, syscall.SIGKILL)
	}
}

// procChild: one task on a real TaskRunner in this process (to be run under strace): script lines from the command
// line; marker system calls (kill with signal 0 to impossible pids) delimit the cancel and the report
func procChild(lines []string, settleMs int) {
	dir, err := os.MkdirTemp("", "realrun-child")
	if err != nil {
		panic(err)
	}
	defer os.RemoveAll(dir)
	runChildTask(dir, lines, settleMs)
}


// forcedShutdownRound: a job ended by a forced shutdown (the application's context ends: SIGTERM). An earlier job of the same
// pipeline has completed normally; the running job's tree contains an interrupt-ignoring detached child. When the application
// has returned nothing of the job may be alive, within the kill timeout plus latency.
func forcedShutdownRound(rd *renderer, dir string, seed uint64, trapExit bool) {
	defs := map[string]PipeDef{
		"tree": {Concurrency: 2, Tasks: map[string]TaskDef{"t": {Script: []string{"VERIF_MARK={{.mark}} bash {{.file}}"}}}},
	}
	a, err := startApp(defs)
	if err != nil {
		emit(map[string]interface{}{"kind": "error", "what": err.Error()})
		return
	}
	quick := filepath.Join(dir, "quick.sh")
	_ = os.WriteFile(quick, []byte("true\n"), 0755)
	// the only survivor of the interrupt ignores it and does not hold the output pipes: the exec handler returns at once and has
	// to kill the rest of the group itself
	tree := &Node{Kind: "par", Children: []*Node{{Kind: "sleep", IgnoreInt: true, Detach: true}}}
	file := filepath.Join(dir, "forced.sh")
	content := rd.render(tree) + "\n"
	if trapExit {
		content = "trap 'exit 0' INT\n" + content // the leader handles the interrupt and exits normally
	}
	_ = os.WriteFile(file, []byte(content), 0755)
	mark := fmt.Sprintf("f%d_%d_%v", os.Getpid(), seed, trapExit)
	rec := map[string]interface{}{"kind": "proc", "round": -1, "pipeline": "forced_shutdown", "tree": tree, "mark": mark, "script": content, "trap_exit": trapExit}
	id1, _, _ := a.Schedule("tree", map[string]interface{}{"mark": mark + "Q", "file": quick})
	a.WaitDone(id1, 10*time.Second)
	id2, st, msg := a.Schedule("tree", map[string]interface{}{"mark": mark, "file": file})
	if st != 202 {
		rec["ok"], rec["what"] = false, fmt.Sprintf("schedule: %d %s", st, msg)
		emit(rec)
		a.Stop()
		return
	}
	before := settle(mark, 3*time.Second)
	t0 := time.Now()
	a.cancel() // both shutdown contexts of the application end: a forced shutdown
	returned := false
	select {
	case <-a.done:
		returned = true
	case <-time.After(killTimeout + 4*time.Second):
	}
	report := time.Since(t0)
	time.Sleep(100 * time.Millisecond)
	soon := procsWithMark(mark)
	rec["procs_before"], rec["reported"], rec["report_ms"], rec["alive_100ms_after_report"] = before, returned, report.Milliseconds(), len(soon)
	ok := returned && len(soon) == 0 && report <= killTimeout+1500*time.Millisecond
	if !ok {
		rec["what"] = fmt.Sprintf("forced shutdown: application returned=%v after %d ms, %d processes of the running job alive 100 ms later", returned, report.Milliseconds(), len(soon))
	}
	if returned {
		// the store after the return: the running job ended canceled, the earlier one completed
		jobs, err := readStore(a.Dir)
		stored := ""
		for _, j := range jobs {
			if j.ID == id2 && !j.Canceled {
				stored = fmt.Sprintf("forced shutdown: the job that was running is stored completed=%v canceled=%v", j.Completed, j.Canceled)
			}
			if j.ID == id1 && (!j.Completed || j.Canceled) {
				stored = fmt.Sprintf("forced shutdown: the job that had finished before is stored completed=%v canceled=%v", j.Completed, j.Canceled)
			}
		}
		if err != nil || len(jobs) != 2 {
			stored = fmt.Sprintf("forced shutdown: the store holds %d jobs (%v), 2 were accepted", len(jobs), err)
		}
		if stored != "" {
			ok = false
			rec["what"] = stored
		}
	}
	rec["ok"] = ok
	emit(rec)
	for _, p := range procsWithMark(mark) {
		_ = syscall.Kill(p, syscall.SIGKILL)
	}
	_ = os.RemoveAll(a.Dir)
}

(** Work conservation (C03, second sentence): under an unchanged definition there is no state in which a pipeline has a
    free concurrency slot while its longest-waiting job has waited its start delay (its timer has fired, or it had none):
    that job is started in the same step that creates the situation. On the abstract machine, then for System.reach. *)
From stdpp Require Import list.
From Coq Require Import ZArith Lia.
From PV Require Import System Runner proofs.RunnerBase proofs.RunnerInv proofs.RunnerProps proofs.Refine proofs.SystemProps.

Definition WCp (s : rstate) (p : name) : Prop :=
  ∀ h rest j, wl_get (rs_wait s) p = h :: rest → rs_jobs s !! h = Some j → r_timer j = false →
              (conc_of s p ≤ r_running_count s p)%nat.
Definition WC (s : rstate) : Prop := rs_shut s = false → ∀ p, WCp s p.

(** what the dequeue loop needs to know about the wait list it works on *)
Definition WL (s : rstate) (p : name) : Prop :=
  NoDup (wl_get (rs_wait s) p) ∧ ∀ id, id ∈ wl_get (rs_wait s) p → ∃ j, rs_jobs s !! id = Some j ∧ r_pipe j = p.

Lemma WL_of_RInv s p : RInv s → WL s p.
Proof.
  intros Hinv. split.
  - pose proof (inv_sorted _ _ Hinv p) as Hs. induction Hs as [|x l Hs IH Hall]; constructor; [|done].
    intros Hin. rewrite Forall_forall in Hall. specialize (Hall x Hin). lia.
  - intros id Hin. destruct (inv_wl _ _ Hinv p id Hin) as (j & Hj & Hp & _). by exists j.
Qed.

Lemma try_start_lookup s h id : id ≠ h → rs_jobs (r_try_start s h).1 !! id = rs_jobs s !! id.
Proof.
  intros Hne. unfold r_try_start. destruct (r_find s h) as [j|]; [|done]. destruct (r_canceled j); [done|].
  destruct (r_gok j); simpl; by rewrite list_lookup_alter_ne.
Qed.

Lemma try_start_pipe s h j' : rs_jobs (r_try_start s h).1 !! h = Some j' → ∃ j, rs_jobs s !! h = Some j ∧ r_pipe j' = r_pipe j.
Proof.
  destruct (try_start_frame s h) as (_ & _ & _ & _ & _ & _ & H). apply H.
Qed.

Lemma try_start_defs' s h : rs_defs (r_try_start s h).1 = rs_defs s.
Proof. unfold r_try_start. destruct (r_find s h) as [j|]; [|done]. destruct (r_canceled j); [done|]. by destruct (r_gok j). Qed.

Lemma WL_step s p h rest :
  WL s p → wl_get (rs_wait s) p = h :: rest → WL (r_try_start (r_set_wait s p rest) h).1 p.
Proof.
  intros [Hnd Hw] Hwl. rewrite Hwl in Hnd. apply NoDup_cons in Hnd as [Hh Hnd]. split.
  - rewrite try_start_wait. simpl. by rewrite wl_get_set_eq.
  - intros id. rewrite try_start_wait. simpl. rewrite wl_get_set_eq. intros Hin.
    destruct (Hw id) as (j & Hj & Hp); [rewrite Hwl; by right|]. exists j. split; [|done].
    rewrite try_start_lookup; [done|]. intros ->. done.
Qed.

(** the loop stops only at an empty list, a head whose timer is pending, or a full pipeline *)
Lemma dequeue_loop_end fuel s p :
  WL s p → (length (wl_get (rs_wait s) p) ≤ length fuel)%nat → WCp (r_dequeue_loop fuel s p) p.
Proof.
  revert s. induction fuel as [|x fuel IH]; intros s Hwlp Hlen; simpl.
  - intros h rest j Hwl. rewrite Hwl in Hlen. simpl in Hlen. lia.
  - destruct (wl_get (rs_wait s) p) as [|h rest] eqn:Hwl.
    + intros h rest j Hwl'. congruence.
    + destruct (rs_jobs s !! h) as [j|] eqn:Hj.
      2:{ intros h' rest' j' Hwl' Hj'. rewrite Hwl in Hwl'. injection Hwl' as <- <-. congruence. }
      destruct (bool_decide _ && negb (r_timer j)) eqn:Hel.
      * apply IH; [by apply WL_step|]. rewrite try_start_wait. simpl. rewrite wl_get_set_eq. simpl in Hlen. lia.
      * intros h' rest' j' Hwl' Hj' Ht'. rewrite Hwl in Hwl'. injection Hwl' as <- <-. assert (j' = j) as -> by congruence.
        rewrite Ht' in Hel. simpl in Hel. rewrite andb_true_r in Hel. apply bool_decide_eq_false in Hel.
        destruct (proj2 Hwlp h) as (jh & Hjh & Hph); [rewrite Hwl; by left|]. assert (jh = j) as -> by congruence.
        rewrite Hph in Hel. unfold conc_of.
        destruct (decide (r_running_count s p < pd_conc (def_or_zero (rs_defs s) p))%nat) as [Hlt|]; [|lia].
        exfalso. apply Hel. apply resolve_start_iff. split; [done|by right].
Qed.

(** ... and leaves alone what the clause of another pipeline depends on *)
Lemma dequeue_loop_frame' fuel s p :
  WL s p →
  let s' := r_dequeue_loop fuel s p in
  rs_defs s' = rs_defs s ∧ length (rs_jobs s') = length (rs_jobs s) ∧
  (∀ q, q ≠ p → wl_get (rs_wait s') q = wl_get (rs_wait s) q) ∧
  (∀ id, id ∉ wl_get (rs_wait s) p → rs_jobs s' !! id = rs_jobs s !! id) ∧
  (∀ id j j', rs_jobs s !! id = Some j → rs_jobs s' !! id = Some j' → r_pipe j' = r_pipe j).
Proof.
  revert s. induction fuel as [|x fuel IH]; intros s Hwlp; simpl; [by repeat split; intros; simplify_eq|].
  destruct (wl_get (rs_wait s) p) as [|h rest] eqn:Hwl; [by repeat split; intros; simplify_eq|].
  destruct (rs_jobs s !! h) as [j|] eqn:Hj; [|by repeat split; intros; simplify_eq].
  destruct (bool_decide _ && negb (r_timer j)); [|by repeat split; intros; simplify_eq].
  set (s1 := (r_try_start (r_set_wait s p rest) h).1).
  destruct (IH s1 (WL_step s p h rest Hwlp Hwl)) as (Hd & Hl & Hq & Ho & Hp).
  assert (Hw1 : rs_wait s1 = wl_set (rs_wait s) p rest) by (unfold s1; by rewrite try_start_wait).
  split; [rewrite Hd; unfold s1; by rewrite try_start_defs'|].
  split; [rewrite Hl; unfold s1; destruct (try_start_frame (r_set_wait s p rest) h) as (_&_&_&_&H&_); exact H|].
  split; [intros q Hne; rewrite Hq by done; rewrite Hw1; by rewrite wl_get_set_ne|].
  split.
  - intros id Hnot. rewrite Ho.
    + unfold s1. rewrite try_start_lookup; [done|]. intros ->. apply Hnot. by left.
    + rewrite Hw1, wl_get_set_eq. intros Hin. apply Hnot. by right.
  - intros id j0 j' Hj0 Hj'. destruct (rs_jobs s1 !! id) as [j1|] eqn:Hj1.
    + rewrite (Hp id j1 j' Hj1 Hj'). destruct (decide (id = h)) as [->|Hne].
      * destruct (try_start_pipe _ _ _ Hj1) as (j2 & Hj2 & Hpp). simpl in Hj2. congruence.
      * unfold s1 in Hj1. rewrite try_start_lookup in Hj1 by done. simpl in Hj1. congruence.
    + exfalso. apply lookup_ge_None in Hj1. apply lookup_lt_Some in Hj'. lia.
Qed.

Lemma WCp_frame_head s s' q :
  (∀ h rest', wl_get (rs_wait s') q = h :: rest' → ∃ rest, wl_get (rs_wait s) q = h :: rest) →
  (∀ h rest j', wl_get (rs_wait s) q = h :: rest → rs_jobs s' !! h = Some j' → r_timer j' = false →
                ∃ j, rs_jobs s !! h = Some j ∧ r_timer j = false) →
  conc_of s' q = conc_of s q → (r_running_count s q ≤ r_running_count s' q)%nat → WCp s q → WCp s' q.
Proof.
  intros Hw Hj Hc Hr H h rest' j' Hwl Hj' Ht. destruct (Hw h rest' Hwl) as [rest Hwl0].
  destruct (Hj h rest j' Hwl0 Hj' Ht) as (j & Hjj & Htj). specialize (H h rest j Hwl0 Hjj Htj). lia.
Qed.

Lemma WCp_frame s s' q :
  wl_get (rs_wait s') q = wl_get (rs_wait s) q →
  (∀ h rest j', wl_get (rs_wait s) q = h :: rest → rs_jobs s' !! h = Some j' → r_timer j' = false →
                ∃ j, rs_jobs s !! h = Some j ∧ r_timer j = false) →
  conc_of s' q = conc_of s q → (r_running_count s q ≤ r_running_count s' q)%nat → WCp s q → WCp s' q.
Proof.
  intros Hw Hj Hc Hr H h rest j' Hwl Hj' Ht. rewrite Hw in Hwl.
  destruct (Hj h rest j' Hwl Hj' Ht) as (j & Hjj & Htj). specialize (H h rest j Hwl Hjj Htj). lia.
Qed.

(** heads of other pipelines' wait lists are not on this pipeline's wait list *)
Definition WLs (s : rstate) : Prop := ∀ p, WL s p.

Lemma dequeue_loop_other fuel s p q : WLs s → q ≠ p → WCp s q → WCp (r_dequeue_loop fuel s p) q.
Proof.
  intros Hall Hne H.
  destruct (dequeue_loop_frame' fuel s p (Hall p)) as (Hd & Hl & Hq & Ho & Hp).
  assert (Hnotin : ∀ h, h ∈ wl_get (rs_wait s) q → h ∉ wl_get (rs_wait s) p).
  { intros h Hh Hh'. destruct (proj2 (Hall q) h Hh) as (j1 & Hj1 & Hp1). destruct (proj2 (Hall p) h Hh') as (j2 & Hj2 & Hp2). congruence. }
  eapply WCp_frame; [by apply Hq| |by unfold conc_of; rewrite Hd| |exact H].
  - intros h rest j' Hwl Hj' Ht. rewrite Ho in Hj' by (apply Hnotin; rewrite Hwl; by left). by exists j'.
  - apply Nat.eq_le_incl. symmetry. apply count_pointwise; [done|].
    intros id j j' Hj Hj'. destruct (decide (id ∈ wl_get (rs_wait s) p)) as [Hin|Hnin].
    + destruct (proj2 (Hall p) id Hin) as (j0 & Hj0 & Hp0). assert (j0 = j) as -> by congruence.
      pose proof (Hp id j j' Hj Hj') as Hpp. unfold rcounts. rewrite Hpp, Hp0. destruct (Nat.eqb_spec p q); [congruence|done].
    + rewrite Ho in Hj' by done. congruence.
Qed.

Lemma dequeue_WC s p : WLs s → (∀ q, q ≠ p → WCp s q) → ∀ q, WCp (r_dequeue s p) q.
Proof.
  intros Hall H q. destruct (decide (q = p)) as [->|Hne]; [by apply dequeue_loop_end|]. apply dequeue_loop_other; auto.
Qed.

(** ** single-job updates *)
Lemma WLs_upd s id f : (∀ j, r_pipe (f j) = r_pipe j) → WLs s → WLs (r_upd s id f).
Proof.
  intros Hf Hall p. destruct (Hall p) as [Hnd Hw]. split; [done|]. intros i Hin. destruct (Hw i Hin) as (j & Hj & Hp).
  simpl. destruct (decide (i = id)) as [->|Hne].
  - exists (f j). rewrite list_lookup_alter, Hj. simpl. split; [done|]. by rewrite Hf.
  - exists j. by rewrite list_lookup_alter_ne.
Qed.

Lemma upd_WCp s id f j q :
  rs_jobs s !! id = Some j →
  (id ∈ wl_get (rs_wait s) q → r_timer (f j) = false → r_timer j = false) →
  (rcounts q j = true → rcounts q (f j) = true) → WCp s q → WCp (r_upd s id f) q.
Proof.
  intros Hj Ht Hc H. eapply (WCp_frame s); [done| |done| |exact H].
  - intros h rest j' Hwl. simpl. destruct (decide (h = id)) as [->|Hne].
    + rewrite list_lookup_alter, Hj. simpl. intros [= <-] Hf. exists j. split; [done|]. apply Ht; [rewrite Hwl; by left|done].
    + rewrite list_lookup_alter_ne by done. intros Hj' Hf. by exists j'.
  - pose proof (r_upd_count s id f q j Hj) as Hcount. destruct (rcounts q j) eqn:E.
    + rewrite (Hc eq_refl) in Hcount. lia.
    + destruct (rcounts q (f j)); lia.
Qed.

Lemma shut_try_start s h : rs_shut (r_try_start s h).1 = rs_shut s.
Proof. unfold r_try_start. destruct (r_find s h) as [j|]; [|done]. destruct (r_canceled j); [done|]. by destruct (r_gok j). Qed.

Lemma shut_dequeue_loop fuel s p : rs_shut (r_dequeue_loop fuel s p) = rs_shut s.
Proof.
  revert s. induction fuel as [|x fuel IH]; intros s; simpl; [done|].
  destruct (wl_get (rs_wait s) p) as [|h rest]; [done|]. destruct (rs_jobs s !! h) as [j|]; [|done].
  destruct (bool_decide _ && negb (r_timer j)); [|done]. rewrite IH. by rewrite shut_try_start.
Qed.

(** ** the events *)
Lemma complete_WC s id ec s' : RInv s → WC s → r_complete s id ec = Some s' → WC s'.
Proof.
  intros Hinv Hwc. unfold r_complete. destruct (rs_jobs s !! id) as [j|] eqn:Hj; [|done]. destruct (r_live j) eqn:Hl; [|done].
  set (s1 := r_upd s id (r_complete_job (rs_now s) ec)).
  assert (Hall1 : WLs s1) by (apply WLs_upd; [done|]; intros p; by apply WL_of_RInv).
  assert (Hq : rs_shut s = false → ∀ q, (q ≠ r_pipe j ∨ r_removed j = true) → WCp s1 q).
  { intros Hsh q Hq. eapply (upd_WCp s id _ j q); [done|done| |by apply Hwc].
    unfold rcounts. simpl. destruct Hq as [Hq|Hq]; [destruct (Nat.eqb_spec (r_pipe j) q); [congruence|done]|rewrite Hq; by rewrite andb_false_r]. }
  destruct (r_removed j) eqn:Hr; intros [= <-].
  - intros Hsh q. apply Hq; [done|by right].
  - intros Hsh q. unfold r_dequeue in Hsh. rewrite shut_dequeue_loop in Hsh. apply dequeue_WC; [done|]. intros q' Hne. apply Hq; [done|by left].
Qed.

Lemma not_on_list_if s id j q : RInv s → rs_jobs s !! id = Some j → (r_is_waiting j = false ∨ r_removed j = true ∨ r_pipe j ≠ q) → id ∉ wl_get (rs_wait s) q.
Proof.
  intros Hinv Hj H Hin. destruct (inv_wl _ _ Hinv q id Hin) as (j' & Hj' & Hp & Hw & Hr). assert (j' = j) as -> by congruence.
  destruct H as [H|[H|H]]; congruence.
Qed.

Lemma fire_WC s id s' : RInv s → WC s → r_fire s id = Some s' → WC s'.
Proof.
  intros Hinv Hwc. unfold r_fire. destruct (rs_jobs s !! id) as [j|] eqn:Hj; [|done]. destruct (r_timer_due s j); [|done].
  assert (Hnot : ∀ q, (r_is_waiting j = false ∨ r_removed j = true ∨ r_pipe j ≠ q) → rs_shut s = false → WCp (r_upd s id r_clear_timer) q).
  { intros q Hq Hsh. eapply (upd_WCp s id _ j q); [done| |done|by apply Hwc].
    intros Hin. exfalso. by eapply (not_on_list_if s id j q). }
  unfold r_find. rewrite Hj. destruct (r_removed j) eqn:Hr.
  - intros [= <-] Hsh q. apply Hnot; auto.
  - destruct (r_canceled j) eqn:Hc; intros [= <-].
    + intros Hsh q. apply Hnot; [|done]. left. unfold r_is_waiting. rewrite Hc. by destruct (r_start j).
    + intros Hsh q. unfold r_dequeue in Hsh. rewrite shut_dequeue_loop in Hsh. apply dequeue_WC.
      * apply WLs_upd; [done|]. intros p; by apply WL_of_RInv.
      * intros q' Hne. apply Hnot; [|done]. right. right. done.
Qed.

Lemma NoDup_remove_id' id l : NoDup l → NoDup (remove_id id l).
Proof. unfold remove_id. intros H. induction H as [|x l Hx Hl IH]; simpl; [constructor|]. destruct (negb (x =? id)); [|done].
  constructor; [|done]. intros Hin. apply Hx. apply elem_of_list_In, filter_In in Hin as [Hin _]. by apply elem_of_list_In. Qed.

Lemma cancel_WC s id : RInv s → WC s → WC (r_cancel s id).1.
Proof.
  intros Hinv Hwc. unfold r_cancel. destruct (r_find s id) as [j|] eqn:Hf; [|done]. apply r_find_Some in Hf as [Hj Hr].
  destruct (r_canceled j) eqn:Hc; [done|]. destruct (r_completed j); [done|].
  destruct (r_start j) eqn:Hst.
  - destruct (r_live j); [|done]. simpl. intros Hsh q. eapply (upd_WCp s id _ j q); [done|done|done|by apply Hwc].
  - cbn [fst]. set (p := r_pipe j). set (s1 := r_upd s id r_cancel_notimer).
    set (s2 := r_set_wait s1 p (remove_id id (wl_get (rs_wait s1) p))).
    intros Hsh. unfold r_dequeue in Hsh. rewrite shut_dequeue_loop in Hsh.
    assert (Hall1 : WLs s1) by (apply WLs_upd; [done|]; intros q; by apply WL_of_RInv).
    assert (Hall2 : WLs s2).
    { intros q. destruct (Hall1 q) as [Hnd Hw]. destruct (decide (q = p)) as [->|Hne].
      - split; simpl; rewrite wl_get_set_eq.
        + by apply NoDup_remove_id'.
        + intros i Hin. apply elem_of_remove_id in Hin as [Hin _]. by apply Hw.
      - split; simpl; rewrite wl_get_set_ne by done; done. }
    apply dequeue_WC; [done|]. intros q Hne.
    assert (H1 : WCp s1 q).
    { eapply (upd_WCp s id _ j q); [done| | |by apply Hwc].
      - intros Hin. exfalso. by eapply (not_on_list_if s id j q); [done|done|right; right|done].
      - unfold rcounts, r_is_running. simpl. by rewrite Hst. }
    eapply (WCp_frame s1); [| | | |exact H1]; simpl; try done.
    + by rewrite wl_get_set_ne.
    + intros h rest j' _ Hj' Ht. by exists j'.
Qed.

Lemma not_start_full s p d :
  lookup_def (rs_defs s) p = Some d → pd_delay d = 0%nat → r_resolve_action s p false ≠ AStart → (conc_of s p ≤ r_running_count s p)%nat.
Proof.
  intros Hd Hdel Hne. unfold conc_of. destruct (decide (r_running_count s p < pd_conc (def_or_zero (rs_defs s) p))%nat) as [Hlt|]; [|lia].
  exfalso. apply Hne. apply resolve_start_iff. split; [done|]. left. unfold def_or_zero. by rewrite Hd.
Qed.

Lemma schedule_WC s p gok sn : RInv s → WC s → WC (r_schedule s p gok sn).1.
Proof.
  intros Hinv Hwc. unfold r_schedule. destruct (rs_shut s) eqn:Hshut; [done|].
  destruct (lookup_def (rs_defs s) p) as [d|] eqn:Hd; [|done].
  set (id := length (rs_jobs s)). set (nj := r_new_job s p d gok sn). set (s1 := r_set_jobs s (rs_jobs s ++ [nj])).
  assert (Hlt : ∀ q i, i ∈ wl_get (rs_wait s) q → (i < id)%nat).
  { intros q i Hi. destruct (inv_wl _ _ Hinv q i Hi) as (j' & Hj' & _). by apply lookup_lt_Some in Hj'. }
  assert (Hold : ∀ i, (i < id)%nat → rs_jobs s1 !! i = rs_jobs s !! i) by (intros i Hi; simpl; by rewrite lookup_app_l).
  assert (Hnj : rs_jobs s1 !! id = Some nj) by (simpl; rewrite lookup_app_r by done; by rewrite Nat.sub_diag).
  assert (Hall : WLs s) by (intros q; by apply WL_of_RInv).
  assert (Hall1 : WLs s1).
  { intros q. destruct (Hall q) as [Hnd Hw]. split; [done|]. intros i Hin. destruct (Hw i Hin) as (j & Hj & Hp). exists j. split; [|done].
    rewrite Hold; [done|]. by eapply Hlt. }
  assert (Hnr : ∀ q, rcounts q nj = false) by (intros q; unfold rcounts, r_is_running; simpl; by rewrite andb_false_r).
  assert (Hc1 : ∀ q, r_running_count s1 q = r_running_count s q) by (intros q; unfold s1; rewrite count_app, Hnr; lia).
  assert (H1 : ∀ q, WCp s1 q).
  { intros q. eapply (WCp_frame s); [done| |done|rewrite Hc1; lia|by apply Hwc].
    intros h rest j' Hwl Hj' Ht. exists j'. split; [|done]. rewrite <- Hold; [done|]. eapply (Hlt q). rewrite Hwl. by left. }
  assert (Hidnot : ∀ q, id ∉ wl_get (rs_wait s1) q) by (intros q Hin; specialize (Hlt q id Hin); lia).
  (* the head of a list that just received the new job *)
  assert (Hnewhead : ∀ s' rest, r_resolve_action s p false ≠ AStart → wl_get (rs_wait s') p = id :: rest → rs_jobs s' !! id = Some nj →
            conc_of s' p = conc_of s p → r_running_count s' p = r_running_count s p → WCp s' p).
  { intros s' rest Hne Hwl Hj Hco Hcnt h rest' j Hwl' Hj' Ht. rewrite Hwl in Hwl'. injection Hwl' as <- <-. assert (j = nj) as -> by congruence.
    simpl in Ht. apply Nat.ltb_ge in Ht. rewrite Hco, Hcnt. eapply not_start_full; [done|lia|done]. }
  destruct (r_resolve_action s p false) eqn:Hact; try done; cbn [fst].
  - (* start *)
    unfold r_start_job, r_try_start, r_find. rewrite Hnj. simpl.
    assert (Hupd : ∀ f, (∀ j, r_pipe (f j) = r_pipe j) → WLs (r_upd s1 id f) ∧ ∀ q, WCp (r_upd s1 id f) q).
    { intros f Hf. split; [by apply WLs_upd|]. intros q. eapply (upd_WCp s1 id f nj q); [done| |by rewrite Hnr|done].
      intros Hin. exfalso. by apply (Hidnot q). }
    destruct gok; simpl.
    + intros _ q. by apply (Hupd (r_started (rs_now s1))).
    + intros Hsh q. destruct (Hupd r_failed) as [Hw Hq]; [done|]. apply dequeue_WC; [done|]. intros q' _. apply Hq.
  - (* append *)
    intros _ q. destruct (decide (q = p)) as [->|Hne].
    + destruct (wl_get (rs_wait s) p) as [|h rest] eqn:Hwl.
      * eapply (Hnewhead _ []); simpl; try done; [rewrite wl_get_set_eq; by rewrite Hwl|apply Hc1].
      * eapply (WCp_frame_head s1); [| | | |apply (H1 p)]; simpl; try done.
        -- intros h' rest'. change (rs_wait s1) with (rs_wait s). rewrite wl_get_set_eq, Hwl. simpl. intros [= <- <-]. eauto.
        -- intros h' rest' j' _ Hj' Ht. by exists j'.
    + eapply (WCp_frame s1); [| | | |apply (H1 q)]; simpl; try done.
      * by rewrite wl_get_set_ne.
      * intros h' rest' j' _ Hj' Ht. by exists j'.
  - (* replace *)
    change (rs_wait s1) with (rs_wait s).
    destruct (last (wl_get (rs_wait s) p)) as [prev|] eqn:Hlast; [|intros _ q; apply H1].
    cbn [fst]. pose proof (last_removelast _ _ Hlast) as Hwl.
    assert (Hprev : prev ∈ wl_get (rs_wait s) p) by (rewrite Hwl; apply elem_of_app; right; by apply elem_of_list_singleton).
    destruct (inv_wl _ _ Hinv p prev Hprev) as (jp & Hjp & Hpp & Hwp & Hrp).
    assert (Hjp1 : rs_jobs s1 !! prev = Some jp) by (rewrite Hold; [done|by eapply Hlt]).
    assert (Hcp : ∀ q, rcounts q jp = false) by (intros q; by apply rcounts_waiting).
    assert (Hcnt : ∀ q, r_running_count (r_upd s1 prev r_cancel_notimer) q = r_running_count s q).
    { intros q. pose proof (r_upd_count s1 prev r_cancel_notimer q jp Hjp1) as Hc. rewrite Hcp in Hc.
      assert (rcounts q (r_cancel_notimer jp) = false) as Hc2. { unfold rcounts, r_is_running. simpl. apply waiting_inv in Hwp as [-> _]. by rewrite andb_false_r. }
      rewrite Hc2 in Hc. rewrite <- Hc1. lia. }
    intros _ q. destruct (decide (q = p)) as [->|Hne].
    + destruct (removelast (wl_get (rs_wait s) p)) as [|h rest] eqn:Hrl.
      * eapply (Hnewhead _ []); simpl; try done; [by rewrite wl_get_set_eq|rewrite list_lookup_alter_ne; [done|]; specialize (Hlt p prev Hprev); lia|apply Hcnt].
      * assert (Hhp : h ≠ prev).
        { destruct (Hall p) as [Hnd _]. rewrite Hwl in Hnd. simpl in Hnd. apply NoDup_cons in Hnd as [Hnot _].
          intros ->. apply Hnot. apply elem_of_app. right. by apply elem_of_list_singleton. }
        eapply (WCp_frame_head s1); [| | | |apply (H1 p)]; simpl; try done.
        -- intros h' rest'. rewrite wl_get_set_eq. simpl. intros [= <- <-]. change (rs_wait s1) with (rs_wait s). rewrite Hwl. simpl. eauto.
        -- intros h' rest' j'. change (rs_wait s1) with (rs_wait s). rewrite Hwl. simpl. intros [= <- _].
           rewrite list_lookup_alter_ne by done. intros Hj' Ht. by exists j'.
        -- rewrite count_set_wait, Hcnt, Hc1. lia.
    + eapply (WCp_frame s1); [| | | |apply (H1 q)]; simpl; try done.
      * by rewrite wl_get_set_ne.
      * intros h' rest' j' Hwl' Hj' Ht. assert (h' ≠ prev).
        { intros ->. destruct (inv_wl _ _ Hinv q prev) as (jq & Hjq & Hpq & _); [change (rs_wait s1) with (rs_wait s) in Hwl'; rewrite Hwl'; by left|]. congruence. }
        rewrite list_lookup_alter_ne in Hj' by done. by exists j'.
      * rewrite count_set_wait, Hcnt, Hc1. lia.
Qed.

(** what a save may remove: nothing that waits on a list, nothing that runs *)
Definition rm_ok (s : rstate) (rm : list nat) : Prop :=
  ∀ id, in_ids id rm = true → (∀ q, id ∉ wl_get (rs_wait s) q) ∧ (∀ j q, rs_jobs s !! id = Some j → rcounts q j = false).

Lemma filter_all {A} (P : A → bool) l : (∀ x, x ∈ l → P x = true) → List.filter P l = l.
Proof. induction l as [|x l IH]; [done|]. simpl. intros H. rewrite (H x) by (by left). f_equal. apply IH. intros y Hy. apply H. by right. Qed.

Lemma save_WC s rm : rm_ok s rm → WC s → WC (r_save s rm).
Proof.
  intros Hok Hwc Hsh q.
  assert (Hwl : wl_get (rs_wait (r_save s rm)) q = wl_get (rs_wait s) q).
  { rewrite save_wait. apply filter_all. intros i Hin. destruct (in_ids i rm) eqn:E; [|done]. exfalso. by apply (proj1 (Hok i E) q). }
  eapply (WCp_frame s); [done| |done| |by apply Hwc].
  - intros h rest j' Hw. rewrite save_lookup. destruct (rs_jobs s !! h) as [j|] eqn:Hj; [|done]. simpl.
    destruct (in_ids h rm) eqn:E.
    + exfalso. apply (proj1 (Hok h E) q). rewrite Hw. by left.
    + intros [= <-] Ht. by exists j.
  - apply Nat.eq_le_incl. symmetry. apply count_pointwise; [unfold r_save; simpl; by rewrite imap_length|].
    intros id j j' Hj. rewrite save_lookup, Hj. simpl. intros [= <-]. destruct (in_ids id rm) eqn:E; [|done].
    rewrite (proj2 (Hok id E) j q Hj). unfold rcounts. simpl. by rewrite andb_false_r.
Qed.

Lemma shut_cancel s id : rs_shut (r_cancel s id).1 = rs_shut s.
Proof.
  unfold r_cancel. destruct (r_find s id) as [j|]; [|done]. destruct (r_canceled j); [done|]. destruct (r_completed j); [done|].
  destruct (r_start j); [by destruct (r_live j)|]. cbn [fst]. unfold r_dequeue. by rewrite shut_dequeue_loop.
Qed.

Lemma shut_cancel_all s : rs_shut (r_cancel_all s) = rs_shut s.
Proof.
  unfold r_cancel_all. generalize (seq 0 (length (rs_jobs s))). intros l. revert s. induction l as [|x l IH]; intros s; simpl; [done|].
  rewrite IH. apply shut_cancel.
Qed.

(** every step other than a reload keeps work conservation (a forced shutdown only happens while shutting down; a save
    removes neither waiting nor running jobs) *)
Theorem rstep_WC s e s' r :
  RInv s → WC s → rstep s e = Some (s', r) →
  (∀ ds, e ≠ RvReload ds) → (∀ rm, e = RvSave rm → rm_ok s rm) → (e = RvCancelAll → rs_shut s = true) → WC s'.
Proof.
  intros Hinv Hwc Hs Hnr Hsave Hca. destruct e; simpl in Hs.
  - injection Hs as <- _. apply save_WC; [by apply Hsave|done].
  - destruct (r_restart s js) as [s1|] eqn:Hr; [|done]. injection Hs as <- _. unfold r_restart in Hr.
    destruct (forallb _ js); [|done]. injection Hr as <-. intros _ q h rest j Hwl. done.
  - injection Hs as <- _. intros Hsh. done.
  - injection Hs as <- _. intros Hsh. rewrite shut_cancel_all, Hca in Hsh; done.
  - injection Hs as Heq. replace s' with (r_schedule s p gok sn).1 by (by rewrite Heq). by apply schedule_WC.
  - injection Hs as Heq. replace s' with (r_cancel s id).1 by (by rewrite Heq). by apply cancel_WC.
  - injection Hs as <- _. intros Hsh q. by apply Hwc.
  - destruct (r_fire s id) as [s1|] eqn:Hf; [|done]. injection Hs as <- _. by eapply fire_WC.
  - exfalso. by eapply Hnr.
  - match type of Hs with context [r_complete s ?i ?c] => destruct (r_complete s i c) as [s1|] eqn:Hf; [|done] end. injection Hs as <- _. by eapply complete_WC.
Qed.

(** ** the system model *)
(** pipelines with a non-empty wait list are defined (they were when the jobs were accepted, and nothing was reloaded) *)
Definition Dabs (s : rstate) : Prop := ∀ p, wl_get (rs_wait s) p ≠ [] → is_Some (lookup_def (rs_defs s) p).

Lemma rstep_Dabs s e s' r : RInv s → Dabs s → rstep s e = Some (s', r) → (∀ ds, e ≠ RvReload ds) → Dabs s'.
Proof.
  intros Hinv Hd Hs Hnr p Hne. rewrite (rstep_defs s e s' r Hs Hnr).
  destruct (rstep_wl_growth s e s' r p Hinv Hs) as [Hlen|(gok & sn & -> & Hsh & Hact & Hwl)].
  - apply Hd. intros Hnil. rewrite Hnil in Hlen. destruct (wl_get (rs_wait s') p); [done|simpl in Hlen; lia].
  - simpl in Hs. unfold r_schedule in Hs. rewrite Hsh in Hs. destruct (lookup_def (rs_defs s) p); [done|].
    injection Hs as <- _. exfalso. apply (f_equal length) in Hwl. rewrite app_length in Hwl. simpl in Hwl. lia.
Qed.

Lemma should_remove_running' s i j : is_running j = true → should_remove s i j = false.
Proof.
  intros Hr. unfold should_remove. rewrite Hr. destruct (lookup_def _ _); [|done].
  unfold is_running in Hr. unfold is_waiting. destruct (j_start j); [|done].
  apply andb_true_iff in Hr as [H1 H2]. by rewrite H1, H2.
Qed.

Lemma rmids_ok s : RInv (abs s) → Dabs (abs s) → rm_ok (abs s) (rmids s).
Proof.
  intros Hinv Hd id Hin. apply in_ids_spec in Hin. unfold rmids in Hin.
  apply elem_of_list_fmap in Hin as ([i j] & -> & Hin). simpl.
  apply elem_of_list_In, filter_In in Hin as [Hin Hf]. simpl in Hf. apply andb_true_iff in Hf as [Hnr Hrm].
  apply elem_of_list_In, elem_of_lookup_imap in Hin as (i' & j' & [= <- <-] & Hj).
  split.
  - intros q Hq. destruct (inv_wl _ _ Hinv q i Hq) as (rj & Hrj & Hp & Hw & _).
    simpl in Hrj. rewrite list_lookup_fmap, Hj in Hrj. injection Hrj as <-.
    destruct (Hd q) as [d Hdq]; [intros Hnil; change (wl_get (st_wait s) q = []) in Hnil; change (i ∈ wl_get (st_wait s) q) in Hq; rewrite Hnil in Hq; by apply elem_of_nil in Hq|].
    unfold should_remove in Hrm. simpl in Hp, Hdq. rewrite Hp, Hdq in Hrm.
    assert (is_waiting j = true) as Hw' by exact Hw. by rewrite Hw' in Hrm.
  - intros rj q. simpl. rewrite list_lookup_fmap, Hj. simpl. intros [= <-].
    destruct (is_running j) eqn:Hrun; [by rewrite should_remove_running' in Hrm|].
    unfold rcounts. change (r_is_running (abs_job j)) with (is_running j). rewrite Hrun. by rewrite andb_false_r.
Qed.

Definition SWC (s : state) : Prop := WC (abs s) ∧ Dabs (abs s).

Lemma sys_step_WC s e s' r : reach s → SWC s → step s e = Some (s', r) → no_reload e → SWC s'.
Proof.
  intros Hr [Hwc Hd] Hs Hnr. pose proof (reach_inv _ Hr) as Hinv.
  destruct (refine_step s e s' r Hinv (reach_store_ok _ Hr) Hs) as [[Ha _]|(re & Hre & Hrel & _ & Hsave & Hca)]; [unfold SWC; by rewrite Ha|].
  assert (Hnr' : ∀ ds, re ≠ RvReload ds) by (intros ds ->; by apply (Hnr ds), Hrel).
  split; [|by eapply rstep_Dabs].
  eapply rstep_WC; [exact Hinv|exact Hwc|exact Hre|exact Hnr'| |].
  - intros rm ->. rewrite (Hsave rm eq_refl). by apply (rmids_ok (clear_req s)).
  - intros ->. specialize (Hca eq_refl). subst e.
    (* a forced shutdown is only possible while shutting down *)
    unfold step in Hs. simpl in Hs. unfold do_shutdown_force in Hs. simpl in Hs.
    destruct (st_shutg s) as [[]|] eqn:Hg; try done. apply (reach_shutg_ok s Hr). by rewrite Hg.
Qed.

Lemma sys_exec_WC s evs : reach s → SWC s → Forall no_reload evs → SWC (exec s evs).
Proof.
  revert s. induction evs as [|e evs IH]; intros s Hr Hb Hnr; simpl; [done|].
  inversion Hnr as [|? ? He Hevs]; subst.
  destruct (step s e) as [[s' r]|] eqn:Hs; [|by apply IH].
  apply IH; [by eapply reach_step|by eapply sys_step_WC|done].
Qed.

(** under an unchanged definition: in no state does a pipeline have a free slot while the job at the head of its wait
    list has no pending start timer *)
Theorem sys_work_conserving ds evs p h rest j :
  Forall no_reload evs → let s := exec (init ds) evs in
  st_shut s = false → wl_get (st_wait s) p = h :: rest → get_job s h = Some j → j_timer j = false →
  (pd_conc (def_or_zero ds p) ≤ running_count s p)%nat.
Proof.
  intros Hnr s Hsh Hwl Hj Ht.
  assert (H0 : SWC (init ds)) by (split; [intros _ q h' rest' j' Hw; done|intros q Hne; by destruct Hne]).
  destruct (sys_exec_WC (init ds) evs (reach_init ds) H0 Hnr) as [Hwc _]. fold s in Hwc.
  specialize (Hwc Hsh p h rest (abs_job j) Hwl). pose proof (sys_exec_defs (init ds) evs (reach_init ds) Hnr) as Hdefs. fold s in Hdefs.
  change (st_defs (init ds)) with ds in Hdefs. rewrite abs_running_count. unfold conc_of in Hwc. change (rs_defs (abs s)) with (st_defs s) in Hwc. rewrite Hdefs in Hwc.
  apply Hwc; [|done]. simpl. unfold get_job in Hj. by rewrite list_lookup_fmap, Hj.
Qed.

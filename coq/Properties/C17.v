(** * C17 — Only valid definitions load, deterministically, and every edit is detected

    This file contains only the property theorems (each closed by [exact] of a lemma from
    proofs/DefsProofs.v), non-vacuity examples, and [Print Assumptions]. *)
From stdpp Require Import gmap strings.
From Coq Require Import ZArith.
From PV Require Import Defs proofs.DefsProofs.
Local Open Scope Z_scope.

(** Loading either fails or yields only valid pipelines (concurrency ≥ 1, queue limit ≥ 0, delay ≥ 0,
    delay > 0 ⇒ limit ≠ 0, dependencies on own tasks; the strategy is known by typing of [strat]). *)
Theorem C17_load_valid : ∀ fs d n p, load fs = Some d → d !! n = Some p → valid_pdef p.
Proof. exact load_valid. Qed.

(** ... and pipeline names are unique across all files *)
Theorem C17_load_unique : ∀ fs d es, load fs = Some d → all_entries fs = Some es → NoDup (es.*1).
Proof. exact load_unique_names. Qed.

(** A valid file set loads to exactly what it says (concurrency defaulted, source path set — that is
    [decode_pdef], contained in [all_entries]) *)
Theorem C17_load_exact : ∀ fs es,
  all_entries fs = Some es → NoDup (es.*1) → Forall (fun kv => valid_pdef kv.2) es →
  load fs = Some (list_to_map es).
Proof. exact load_exact. Qed.

(** Loading is independent of the order in which files are enumerated, and of the order in which the
    pipelines of one file are visited (Go map iteration) — both for success and for failure *)
Theorem C17_order_independent : ∀ fs fs', fs ≡ₚ fs' → load fs = load fs'.
Proof. exact load_perm. Qed.

Theorem C17_entry_order_independent : ∀ fs1 fs2 path es es',
  es ≡ₚ es' → load (fs1 ++ (path, es) :: fs2) = load (fs1 ++ (path, es') :: fs2).
Proof. exact load_entry_order_irrelevant. Qed.

(** Two definition sets compare equal iff they are the same configuration: every field of every record
    takes part (the proof destructs all fields), so no edit is ignored by reload. *)
Theorem C17_equals_iff : ∀ a b : pdefs, pdefs_equals a b = true ↔ a = b.
Proof. exact pdefs_equals_iff. Qed.

(** The comparison as it was before the repair of defect D8 does not have this property. *)
Theorem C17_equals_env_refuted : ∃ a b : gmap string string, a ≠ b ∧ env_equals_d8 a b = true.
Proof. exact env_equals_d8_refuted. Qed.

(** Non-vacuity: a concrete two-file set loads, with defaults applied *)
Definition ex_task : taskdef := TaskDef ["echo hi"] [] false ∅.
Definition ex_task2 : taskdef := TaskDef ["echo ho"] ["a"] true {[ "K" := "v" ]}.
Definition ex_files : list file :=
  [ ("b/pipelines.yml", [("p2", RawPDef 0 (Some 2) (Some "replace") 10 false 0 0 ∅ {[ "a" := ex_task; "b" := ex_task2 ]})]);
    ("a/pipelines.yml", [("p1", RawPDef 3 None None 0 true 5 2 {[ "E" := "1" ]} {[ "a" := ex_task ]})]) ].
Example C17_ex_loads :
  (λ d, (size d, concurrency <$> (d !! "p2"), source_path <$> (d !! "p1"))) <$> load ex_files
  = Some (2%nat, Some 1, Some "a/pipelines.yml").
Proof. vm_compute. reflexivity. Qed.
Example C17_ex_dup_fails : load (ex_files ++ [("c.yml", [("p1", RawPDef 1 None None 0 false 0 0 ∅ ∅)])]) = None.
Proof. vm_compute. reflexivity. Qed.
Example C17_ex_invalid_fails : load [("c.yml", [("p", RawPDef 1 (Some 0) None 5 false 0 0 ∅ ∅)])] = None.
Proof. vm_compute. reflexivity. Qed.

Print Assumptions C17_load_valid.
Print Assumptions C17_load_unique.
Print Assumptions C17_load_exact.
Print Assumptions C17_order_independent.
Print Assumptions C17_entry_order_independent.
Print Assumptions C17_equals_iff.
Print Assumptions C17_equals_env_refuted.

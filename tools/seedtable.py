#!/usr/bin/env python3
"""prints the markdown rows of DESIGN.md 10.5 from seeded/*/meta.json and the matrix result files given as arguments"""
import json, glob, os, re, sys
res = {}
for f in sys.argv[1:]:
    for l in open(f):
        m = re.match(r"(C\d\d-[A-Z]) vs (C\d\d) rc=(\d+) violations=(\d+) nofailinginput=(\d+)", l)
        if m:
            res[m.group(1)] = (m.group(2), int(m.group(3)), int(m.group(4)), int(m.group(5)))
for d in sorted(glob.glob("/verif/seeded/C*")):
    s = os.path.basename(d)
    meta = json.load(open(d + "/meta.json"))
    txt = meta.get("needs_to_manifest", "").strip().splitlines()
    first = txt[0] if txt else ""
    first = re.sub(r"^(Change [AB]\s*[:(-]?\s*)", "", first).strip()
    first = first.replace("|", "/")[:150]
    r = res.get(s)
    if r is None:
        caught, rep = "?", "?"
    else:
        prop, rc, v, nf = r
        caught = "`./check %s`" % prop if rc == 1 and v > 0 else "**missed**"
        rep = "concrete failing input" if v > nf else ("`no-failing-input-found` (correspondence)" if v else "-")
    print("| %s | %s | %s | %s |" % (s, first, caught, rep))

(** * C15 — What the API reports agrees with what the runner does
    The task-order clause: the task list of a new job is a function of the definition alone and, for a valid acyclic
    definition, lists every task after the tasks it depends on (C15_task_order, from proofs/KahnProps.v); the list is part of
    the immutable snapshot (C15_reported_until_removed). The HTTP layer (jobToResult, the handlers) is not modelled: it is
    compared with the runner state at every step of every executed history. *)
From stdpp Require Import list.
From Coq Require Import ZArith.
From PV Require Import Graph System Runner proofs.SystemProps proofs.BuildProps proofs.KahnProps proofs.ProgressProps.
Local Open Scope Z_scope.

(** outside shutdown a defined pipeline is listed as schedulable iff an immediate request is accepted *)
Theorem C15_schedulable_iff_accepted : ∀ s p v u,
  st_shut s = false → is_Some (lookup_def (st_defs s) p) →
  schedulable s p = true ↔ ∃ n, (do_schedule s p v u).2 = RJob n.
Proof. exact schedulable_iff_accepted. Qed.

(** it is listed as running iff one of its jobs has started and is neither completed nor canceled *)
Theorem C15_running_flag : ∀ s p,
  pipeline_running s p = true ↔ ∃ id j, get_job s id = Some j ∧ j_pipe j = p ∧ j_removed j = false ∧ is_running j = true.
Proof. exact pipeline_running_iff. Qed.

(** every accepted job stays reported (by id), with the data it was accepted with, in every later state *)
Theorem C15_reported_until_removed : ∀ s evs id j,
  reach s → Forall no_restart evs → get_job s id = Some j →
  ∃ j', get_job (exec s evs) id = Some j' ∧ job_snapshot j' = job_snapshot j
        ∧ (j_canceled j = true → j_canceled j' = true) ∧ (j_completed j = true → j_completed j' = true)
        ∧ (is_Some (j_start j) → is_Some (j_start j'))
        ∧ (j_canceled j = true → j_start j = None → j_start j' = None ∧ j_sched j' = None).
Proof. exact sys_snapshot_immutable. Qed.

(** created <= start (indeed created + delay <= start <= now) *)
Theorem C15_time_order : ∀ s id j t,
  reach s → get_job s id = Some j → j_start j = Some t → j_created j + Z.of_nat (j_delay j) <= t ∧ t <= st_now s.
Proof. exact sys_start_after_delay. Qed.

(** the task list of an accepted job depends only on the definition, and for a valid acyclic definition every task is
    listed after the tasks it depends on *)
Theorem C15_task_order : ∀ s p d v u,
  job_graph (new_job s p d v u) = sort_tasks (pd_tasks d) ∧
  (NoDup (map fst (pd_tasks d)) → deps_closed (pd_tasks d) → acyclic (pd_tasks d) → topo (job_graph (new_job s p d v u))).
Proof. exact new_job_task_order. Qed.

Print Assumptions C15_task_order.
Print Assumptions C15_schedulable_iff_accepted.
Print Assumptions C15_running_flag.
Print Assumptions C15_reported_until_removed.
Print Assumptions C15_time_order.

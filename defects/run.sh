#!/bin/bash
# usage: defects/run.sh <testfile> <pkgdir-relative-to-repo> [repo] [extra go test flags]
# copies a demonstration (and the shared helper for the root package) into the repo, runs it, removes it
export GOFLAGS=-mod=mod GOPROXY=off GOSUMDB=off GOTOOLCHAIN=local
f=$1; pkg=${2:-.}; repo=${3:-/repo}; flags=$4
here=$(cd "$(dirname "$0")" && pwd)
cp "$here/$f" "$repo/$pkg/zz_defects_test.go"
if [ "$pkg" = "." ] && grep -q "newGate" "$here/$f"; then cp "$here/gate_helper_test.go" "$repo/zz_gate_helper_test.go"; fi
(cd "$repo/$pkg" && go test $flags -vet=off -count=1 -run 'TestDefect' . 2>&1 | grep -E "^(---|ok|FAIL|panic|WARNING: DATA|\s+Error:|\s+Messages|#|\./)")
rm -f "$repo/$pkg/zz_defects_test.go" "$repo/zz_gate_helper_test.go"

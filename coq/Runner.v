(** * Runner: the abstract specification of the runner's admission / queueing / start / completion logic.

    A job is reduced to the fields the admission and dequeue decisions look at; tasks, schedulers, callbacks and
    the ghost log are gone. System.v refines this machine (proofs/Refine.v): every step of the system model is a
    step of this one (or a stutter) on the abstraction of the state, so every invariant proved here holds for
    every reachable state of the system model. *)
From stdpp Require Import list.
From Coq Require Import ZArith.
From PV Require Export System.
Local Open Scope Z_scope.

Record rjob := RJobRec {
  r_pipe : name;
  r_created : Z;
  r_start : option Z;
  r_completed : bool;
  r_canceled : bool;
  r_delay : nat;
  r_timer : bool;
  r_removed : bool;
  r_gok : bool;            (* the execution graph of the job can be built (a function of the job's snapshot) *)
  r_creq : bool;           (* a cancel was requested while the job was running *)
  r_live : bool;           (* the job's scheduler goroutine exists *)
  r_snap : nat * vkind * nat * tasks }.   (* what the job took from its pipeline definition and request when it was accepted:
                                              pipeline env, variables, user, task names/definitions *)

Record rstate := RState {
  rs_defs : defs;
  rs_jobs : list rjob;
  rs_wait : list (name * list nat);
  rs_shut : bool;
  rs_now : Z }.

Definition r_is_running (j : rjob) : bool :=
  match r_start j with Some _ => negb (r_completed j) && negb (r_canceled j) | None => false end.
Definition r_is_waiting (j : rjob) : bool :=
  match r_start j with Some _ => false | None => negb (r_canceled j) end.

Definition r_running_count (s : rstate) (p : name) : nat :=
  length (List.filter (fun j => Nat.eqb (r_pipe j) p && negb (r_removed j) && r_is_running j) (rs_jobs s)).

Definition r_resolve_action (s : rstate) (p : name) (ignore_delay : bool) : action :=
  let d := def_or_zero (rs_defs s) p in
  let wl := wl_get (rs_wait s) p in
  if Nat.leb (pd_conc d) (r_running_count s p) || (Nat.ltb 0 (pd_delay d) && negb ignore_delay) then
    match pd_qlimit d with
    | Some 0%nat => ANoQueue
    | ql =>
        if pd_replace d && negb (Nat.eqb (length wl) 0) then AReplace
        else match ql with
             | Some n => if Nat.leb n (length wl) then AQueueFull else AQueue
             | None => AQueue
             end
    end
  else AStart.

Definition r_set_jobs (s : rstate) (js : list rjob) : rstate := RState (rs_defs s) js (rs_wait s) (rs_shut s) (rs_now s).
Definition r_upd (s : rstate) (id : nat) (f : rjob → rjob) : rstate := r_set_jobs s (alter f id (rs_jobs s)).
Definition r_set_wait (s : rstate) (p : name) (l : list nat) : rstate :=
  RState (rs_defs s) (rs_jobs s) (wl_set (rs_wait s) p l) (rs_shut s) (rs_now s).
Definition r_find (s : rstate) (id : nat) : option rjob :=
  match rs_jobs s !! id with Some j => if r_removed j then None else Some j | None => None end.

Definition r_started (now : Z) (j : rjob) : rjob :=
  RJobRec (r_pipe j) (r_created j) (Some now) (r_completed j) (r_canceled j) (r_delay j) (r_timer j) (r_removed j) (r_gok j) (r_creq j) true (r_snap j).
Definition r_failed (j : rjob) : rjob :=
  RJobRec (r_pipe j) (r_created j) (r_start j) (r_completed j) true (r_delay j) (r_timer j) (r_removed j) (r_gok j) (r_creq j) (r_live j) (r_snap j).

Definition r_try_start (s : rstate) (id : nat) : rstate * bool :=
  match r_find s id with
  | None => (s, false)
  | Some j =>
      if r_canceled j then (s, false)
      else if r_gok j then (r_upd s id (r_started (rs_now s)), false)
      else (r_upd s id r_failed, true)
  end.

Fixpoint r_dequeue_loop (fuel : list nat) (s : rstate) (p : name) : rstate :=
  match fuel with
  | [] => s
  | _ :: fuel =>
      match wl_get (rs_wait s) p with
      | [] => s
      | h :: rest =>
          match rs_jobs s !! h with
          | None => s
          | Some j =>
              if bool_decide (r_resolve_action s (r_pipe j) (negb (r_timer j)) = AStart) && negb (r_timer j) then
                r_dequeue_loop fuel (fst (r_try_start (r_set_wait s p rest) h)) p
              else s
          end
      end
  end.
Definition r_dequeue (s : rstate) (p : name) : rstate := r_dequeue_loop (wl_get (rs_wait s) p) s p.

Definition r_start_job (s : rstate) (id : nat) (p : name) : rstate :=
  let '(s', failed) := r_try_start s id in if failed then r_dequeue s' p else s'.

Definition r_new_job (s : rstate) (p : name) (d : pdef) (gok : bool) (sn : nat * vkind * nat * tasks) : rjob :=
  RJobRec p (rs_now s) None false false (pd_delay d) (Nat.ltb 0 (pd_delay d)) false gok false false sn.

Definition r_cancel_notimer (j : rjob) : rjob :=
  RJobRec (r_pipe j) (r_created j) (r_start j) (r_completed j) true (r_delay j) false (r_removed j) (r_gok j) (r_creq j) (r_live j) (r_snap j).

Definition r_schedule (s : rstate) (p : name) (gok : bool) (sn : nat * vkind * nat * tasks) : rstate * result :=
  if rs_shut s then (s, RErrShutdown)
  else match lookup_def (rs_defs s) p with
  | None => (s, RErrUndefined)
  | Some d =>
      match r_resolve_action s p false with
      | ANoQueue => (s, RErrNoQueue)
      | AQueueFull => (s, RErrQueueFull)
      | act =>
          let id := length (rs_jobs s) in
          let s1 := r_set_jobs s (rs_jobs s ++ [r_new_job s p d gok sn]) in
          match act with
          | AQueue => (r_set_wait s1 p (wl_get (rs_wait s1) p ++ [id]), RJob id)
          | AReplace =>
              let wl := wl_get (rs_wait s1) p in
              match last wl with
              | Some prev => (r_set_wait (r_upd s1 prev r_cancel_notimer) p (removelast wl ++ [id]), RJob id)
              | None => (s1, RJob id)
              end
          | _ => (r_start_job s1 id p, RJob id)
          end
      end
  end.

Definition r_set_creq (j : rjob) : rjob :=
  RJobRec (r_pipe j) (r_created j) (r_start j) (r_completed j) (r_canceled j) (r_delay j) (r_timer j) (r_removed j) (r_gok j) true (r_live j) (r_snap j).

Definition r_cancel (s : rstate) (id : nat) : rstate * result :=
  match r_find s id with
  | None => (s, RErrNotFound)
  | Some j =>
      if r_canceled j then (s, ROk)
      else if r_completed j then (s, RErrCompleted)
      else match r_start j with
      | None =>
          let p := r_pipe j in
          let s1 := r_upd s id r_cancel_notimer in
          let s2 := r_set_wait s1 p (remove_id id (wl_get (rs_wait s1) p)) in
          (r_dequeue s2 p, ROk)
      | Some _ => if r_live j then (r_upd s id r_set_creq, ROk) else (s, ROk)
      end
  end.

Definition r_clear_timer (j : rjob) : rjob :=
  RJobRec (r_pipe j) (r_created j) (r_start j) (r_completed j) (r_canceled j) (r_delay j) false (r_removed j) (r_gok j) (r_creq j) (r_live j) (r_snap j).

Definition r_timer_due (s : rstate) (j : rjob) : bool := r_timer j && (r_created j + Z.of_nat (r_delay j) <=? rs_now s).

Definition r_fire (s : rstate) (id : nat) : option rstate :=
  match rs_jobs s !! id with
  | None => None
  | Some j =>
      if r_timer_due s j then
        match r_find s id with
        | None => Some (r_upd s id r_clear_timer)
        | Some _ => if r_canceled j then Some (r_upd s id r_clear_timer)
                    else Some (r_dequeue (r_upd s id r_clear_timer) (r_pipe j))
        end
      else None
  end.

Definition r_complete_job (now : Z) (ecanceled : bool) (j : rjob) : rjob :=
  RJobRec (r_pipe j) (r_created j) (r_start j) true (r_canceled j || ecanceled || r_creq j) (r_delay j) (r_timer j) (r_removed j)
          (r_gok j) (r_creq j) false (r_snap j).

Definition r_complete (s : rstate) (id : nat) (ecanceled : bool) : option rstate :=
  match rs_jobs s !! id with
  | None => None
  | Some j =>
      if r_live j then
        let s1 := r_upd s id (r_complete_job (rs_now s) ecanceled) in
        if r_removed j then Some s1 else Some (r_dequeue s1 (r_pipe j))
      else None
  end.

(** SaveToStore: the jobs [rm] leave the runner's maps (retention, or their pipeline is not defined any more); they
    are taken off the wait lists and their timers are stopped. Which jobs those are is decided by the retention
    logic of the system model (Retention); the abstract machine allows any set. *)
Definition r_remove (j : rjob) : rjob :=
  RJobRec (r_pipe j) (r_created j) (r_start j) (r_completed j) (r_canceled j) (r_delay j) false true (r_gok j) (r_creq j) (r_live j) (r_snap j).
Definition in_ids (i : nat) (l : list nat) : bool := existsb (Nat.eqb i) l.
Definition r_save (s : rstate) (rm : list nat) : rstate :=
  RState (rs_defs s) (imap (fun i j => if in_ids i rm then r_remove j else j) (rs_jobs s))
         (map (fun pl => (fst pl, List.filter (fun i => negb (in_ids i rm)) (snd pl))) (rs_wait s)) (rs_shut s) (rs_now s).

(** a new process: every job is terminal (not waiting, no scheduler), wait lists are empty. The job list is whatever
    the store held; it only has to be consistent with the clock. *)
Definition r_terminal (now : Z) (j : rjob) : bool :=
  negb (r_is_running j) && negb (r_live j) && negb (r_is_waiting j) && negb (r_creq j) && (r_created j <=? now) && negb (r_timer j)
  && match r_start j with Some t => (r_created j + Z.of_nat (r_delay j) <=? t) && (t <=? now) | None => true end.
Definition r_restart (s : rstate) (js : list rjob) : option rstate :=
  if forallb (r_terminal (rs_now s)) js then Some (RState (rs_defs s) js [] false (rs_now s)) else None.

Definition r_set_canceled (j : rjob) : rjob :=
  RJobRec (r_pipe j) (r_created j) (r_start j) (r_completed j) true (r_delay j) (r_timer j) (r_removed j) (r_gok j) (r_creq j) (r_live j) (r_snap j).
(** first critical section of Shutdown *)
Definition r_shutdown (s : rstate) : rstate :=
  RState (rs_defs s) (imap (fun i j => if in_ids i (wl_get (rs_wait s) (r_pipe j)) then r_set_canceled j else j) (rs_jobs s)) [] true (rs_now s).

(** forced shutdown: a cancel request for every job *)
Definition r_cancel_all (s : rstate) : rstate :=
  fold_left (fun s id => fst (r_cancel s id)) (seq 0 (length (rs_jobs s))) s.

Inductive revent :=
  | RvSave (rm : list nat)
  | RvRestart (js : list rjob)
  | RvShutdown
  | RvCancelAll
  | RvSchedule (p : name) (gok : bool) (sn : nat * vkind * nat * tasks)
  | RvCancel (id : nat)
  | RvTick (d : nat)
  | RvFire (id : nat)
  | RvReload (ds : defs)
  | RvComplete (id : nat) (ecanceled : bool).

Definition rstep (s : rstate) (e : revent) : option (rstate * result) :=
  match e with
  | RvSave rm => Some (r_save s rm, RNone)
  | RvRestart js => (fun s' => (s', RNone)) <$> r_restart s js
  | RvShutdown => Some (r_shutdown s, RNone)
  | RvCancelAll => Some (r_cancel_all s, RNone)
  | RvSchedule p gok sn => Some (r_schedule s p gok sn)
  | RvCancel id => Some (r_cancel s id)
  | RvTick d => Some (RState (rs_defs s) (rs_jobs s) (rs_wait s) (rs_shut s) (rs_now s + Z.of_nat d), RNone)
  | RvFire id => (fun s' => (s', RNone)) <$> r_fire s id
  | RvReload ds => Some (RState ds (rs_jobs s) (rs_wait s) (rs_shut s) (rs_now s), RNone)
  | RvComplete id ec => (fun s' => (s', RNone)) <$> r_complete s id ec
  end.

Definition rinit (ds : defs) : rstate := RState ds [] [] false 0.

Inductive rreach : rstate → Prop :=
  | rreach_init ds : rreach (rinit ds)
  | rreach_init_from ds js : forallb (r_terminal 0) js = true → rreach (RState ds js [] false 0)
  | rreach_step s e s' r : rreach s → rstep s e = Some (s', r) → rreach s'.

(** ** Abstraction of a system state *)
Definition abs_job (j : job) : rjob :=
  RJobRec (j_pipe j) (j_created j) (j_start j) (j_completed j) (j_canceled j) (j_delay j) (j_timer j) (j_removed j)
          (graph_ok j) (j_cancel_req j) (match j_sched j with Some _ => true | None => false end)
          (j_env j, j_vars j, j_user j, job_graph j).

Definition abs (s : state) : rstate :=
  RState (st_defs s) (map abs_job (st_jobs s)) (st_wait s) (st_shut s) (st_now s).

(** a stored job is consistent with the clock: created, then started, not in the future *)
Definition pjob_ok (now : Z) (pj : pjob) : Prop :=
  (pj_created pj <= now)%Z ∧ ∀ t, pj_start pj = Some t → (pj_created pj <= t)%Z ∧ (t <= now)%Z.

Inductive reach : state → Prop :=
  | reach_init ds : reach (init ds)
  | reach_init_from ds pjs : Forall (pjob_ok 0) pjs → reach (init_from ds pjs)
  | reach_step s e s' r : reach s → step s e = Some (s', r) → reach s'.

#!/bin/bash
# setup_cmd: build the Coq development from scratch (full .vo build) and warm the Go build cache for the harness.
set -e
cd "$(dirname "$0")"
export GOFLAGS=-mod=mod GOPROXY=off GOSUMDB=off GOTOOLCHAIN=local
mkdir -p work evidence replays
( cd coq && coq_makefile -f _CoqProject -o Makefile >/dev/null && timeout 3000 make -j16 )
# warm the go build cache (harness against the repository, with the verif tag, plain and with the race detector)
REPO=${VERIF_REPO:-/repo}
tmp=work/setup-hb
rm -rf $tmp && mkdir -p $tmp && cp -r harness/. $tmp/ && sed "s#@REPO@#$REPO#" harness/go.mod.tmpl > $tmp/go.mod && cp $REPO/go.sum $tmp/go.sum
( cd $tmp && go build -tags verif ./... && go build -race -tags verif ./... ) || echo "warning: warm build failed"
rm -rf $tmp
( tmp2=work/setup-lt; rm -rf $tmp2 && cp -r locktab $tmp2 && cd $tmp2 && go build -o /dev/null . ) || echo "warning: locktab warm build failed"
rm -rf work/setup-lt
echo setup done

(** * Auth: the HTTP router of the API (server/server.go NewServer) and the credentials a request can carry.
    Router terms with middleware scoping as chi implements it; the token classes jwtauth distinguishes. *)
From stdpp Require Import list strings.
From Coq Require Import String.
Local Open Scope string_scope.

Inductive method := GET | POST | PUT | DELETE | PATCH | HEAD | OPTIONS.
Global Instance method_eq_dec : EqDecision method. Proof. solve_decision. Defined.

Inductive mw := MLogger | MRecoverer | MVerifier | MAuthenticator.
Global Instance mw_eq_dec : EqDecision mw. Proof. solve_decision. Defined.

(** router construction terms: Use / Group / Route / method handlers / Mount of the profiler *)
Inductive node :=
  | NUse (m : mw)
  | NGroup (l : list node)
  | NRoute (prefix : string) (l : list node)
  | NHandle (m : method) (pat : string)
  | NMountProfiler (prefix : string).

Record endpoint := Endpoint { e_method : option method (* None: every method (mounted handler) *); e_path : string; e_chain : list mw; e_debug : bool }.

(** chi: a middleware applies to what is registered after it in the same router / group; groups and sub-routers
    inherit the chain of their parent *)
Fixpoint flatten_node (n : node) (chain : list mw) (prefix : string) (rest : list mw → list endpoint) : list endpoint :=
  match n with
  | NUse m => rest (chain ++ [m])%list
  | NGroup sub =>
      ((fix go (l : list node) (chain' : list mw) : list endpoint :=
         match l with [] => [] | n' :: l' => flatten_node n' chain' prefix (go l') end) sub chain ++ rest chain)%list
  | NRoute p sub =>
      ((fix go (l : list node) (chain' : list mw) : list endpoint :=
         match l with [] => [] | n' :: l' => flatten_node n' chain' (prefix ++ p) (go l') end) sub chain ++ rest chain)%list
  | NHandle m pat => Endpoint (Some m) (prefix ++ pat) chain false :: rest chain
  | NMountProfiler p => Endpoint None (prefix ++ p) chain true :: rest chain
  end.

Fixpoint flatten (chain : list mw) (prefix : string) (l : list node) : list endpoint :=
  match l with [] => [] | n :: l' => flatten_node n chain prefix (fun chain' => flatten chain' prefix l') end.

(** NewServer *)
Definition server_term (profiling : bool) : list node :=
  ([ NUse MLogger; NUse MRecoverer;
    NGroup [ NUse MVerifier; NUse MAuthenticator;
             NRoute "/pipelines" [ NHandle GET "/"; NHandle GET "/jobs"; NHandle POST "/schedule" ];
             NRoute "/job" [ NHandle GET "/detail"; NHandle GET "/logs"; NHandle POST "/cancel" ] ] ]
  ++ (if profiling then [NMountProfiler "/debug"] else []))%list.

Definition endpoints (profiling : bool) : list endpoint := flatten [] "" (server_term profiling).

Definition protected (e : endpoint) : bool :=
  bool_decide (MVerifier ∈ e_chain e) && bool_decide (MAuthenticator ∈ e_chain e).

(** ** credentials *)
Inductive alg := HS256 | HS384 | HS512 | RS256 | AlgNone.
Inductive tri := TPast | TFuture | TAbsent.
Inductive token :=
  | TokMissing
  | TokMalformed
  | TokJWT (a : alg) (key_ok : bool) (exp nbf : tri) (iat_future : bool).

(** jwtauth.Verifier looks for the token in the Authorization header first, then in the cookie "jwt"; the first one found
    is the one that counts *)
Definition effective (header cookie : token) : token :=
  match header with TokMissing => cookie | t => t end.

(** correctly signed with the configured secret using HS256, and currently valid *)
Definition valid (t : token) : bool :=
  match t with
  | TokJWT HS256 true exp nbf iatf =>
      match exp with TPast => false | _ => true end && match nbf with TFuture => false | _ => true end && negb iatf
  | _ => false
  end.

(** ** serving a request *)
Inductive response := R401 | RHandler | R404 | R405 | RDebug.
Global Instance response_eq_dec : EqDecision response. Proof. solve_decision. Defined.

Definition under (prefix path : string) : bool := String.eqb path prefix || String.prefix (prefix ++ "/") path.

(** the sub-routers mounted inside the authenticated group *)
Definition in_protected (path : string) : bool := under "/pipelines" path || under "/job" path.
Definition in_debug (path : string) : bool := under "/debug" path.

Definition norm_path (path : string) : string := if String.eqb path "/pipelines" then "/pipelines/" else path.

Definition serve (profiling : bool) (m : method) (path : string) (header cookie : token) : response :=
  if in_protected path then
    (* Verifier and Authenticator wrap the whole sub-router: they run before the method is looked at *)
    if negb (valid (effective header cookie)) then R401
    else
      let eps := List.filter (fun e => String.eqb (e_path e) (norm_path path)) (endpoints profiling) in
      match eps with
      | [] => R404
      | _ => if existsb (fun e => bool_decide (e_method e = Some m)) eps
             then RHandler else R405
      end
  else if in_debug path then (if profiling then RDebug else R404)
  else R404.

(** ** configuration (app/app.go): the profiling switch is a boolean command line flag with an environment fallback;
    what counts is its value, not its presence *)
Definition profiling_config (flag env : option bool) : bool :=
  match flag with Some b => b | None => match env with Some b => b | None => false end end.

package main

import (
	"io"
	"os"
	"path/filepath"

	"github.com/Flowpack/prunner/taskctl"

	"bytes"
	"crypto/sha256"
	"encoding/hex"
	"fmt"
	"sort"
	"strings"
	"sync"
	"time"
	"unicode/utf8"

	"verifharness/hutil"
)

// CmdSpec is one generated command of a task script together with what it must write
type CmdSpec struct {
	Kind   string  `json:"kind"`
	Script string  `json:"script"`
	Chunks []Chunk `json:"-"`
}

type cmdGen struct {
	kind    string
	k       int // index within the pipeline definition (part of the seed)
	n, max  int
	flavour string
	lit     string
}

func (g cmdGen) script() string {
	h := `"$VERIF_HELPER" helper out {{.s}}` + fmt.Sprintf("%02d %d %d %s", g.k, g.n, g.max, g.flavour)
	switch g.kind {
	case "helper":
		return h
	case "helper_fail":
		return h + " 3"
	case "pipe":
		return h + " | cat"
	case "seq":
		return h + "; printf '%s' 'tail-{{.s}}-" + g.lit + "' >&2"
	case "builtin":
		return "printf '%s' 'out-{{.s}}-" + g.lit + "'; printf '%s\\n' 'err-{{.s}}-" + g.lit + "' >&2"
	case "subshell":
		return "( " + h + " ) ; echo done-{{.s}}"
	case "silent":
		return "true"
	case "reopen":
		// an external process that opens /dev/stdout and /dev/stderr again (what many tools do for "-o /dev/stdout")
		return `sh -c 'printf "re-{{.s}}-` + g.lit + `" > /dev/stdout; printf "ree-{{.s}}" > /dev/stderr'`
	case "bg":
		// an external command that leaves a descendant behind which keeps writing after its parent has exited
		return `bash -c '( sleep 2.4; printf "late-{{.s}}-` + g.lit + `"; printf "lateerr-{{.s}}" >&2 ) & printf "early-{{.s}}."'`
	}
	panic("kind")
}

// expected output of the command for job seed s, as (stream, data) chunks in program order per stream
func (g cmdGen) expect(s int) []Chunk {
	seed := uint64(s*100 + g.k)
	hc := func() []Chunk { return genChunks(seed, g.n, g.max, g.flavour) }
	switch g.kind {
	case "helper", "helper_fail", "pipe":
		return hc()
	case "seq":
		return append(hc(), Chunk{2, []byte(fmt.Sprintf("tail-%d-%s", s, g.lit))})
	case "builtin":
		return []Chunk{{1, []byte(fmt.Sprintf("out-%d-%s", s, g.lit))}, {2, []byte(fmt.Sprintf("err-%d-%s\n", s, g.lit))}}
	case "subshell":
		return append(hc(), Chunk{1, []byte(fmt.Sprintf("done-%d\n", s))})
	case "silent":
		return nil
	case "reopen":
		return []Chunk{{1, []byte(fmt.Sprintf("re-%d-%s", s, g.lit))}, {2, []byte(fmt.Sprintf("ree-%d", s))}}
	case "bg":
		return []Chunk{{1, []byte(fmt.Sprintf("early-%d.", s))}, {1, []byte(fmt.Sprintf("late-%d-%s", s, g.lit))}, {2, []byte(fmt.Sprintf("lateerr-%d", s))}}
	}
	panic("kind")
}

type taskGen struct {
	name string
	cmds []cmdGen
	deps []string
	fail bool
}

type pipeGen struct {
	name  string
	tasks []taskGen
}

func sha(b []byte) string {
	h := sha256.Sum256(b)
	return hex.EncodeToString(h[:8])
}

func firstDiff(a, b []byte) int {
	n := len(a)
	if len(b) < n {
		n = len(b)
	}
	for i := 0; i < n; i++ {
		if a[i] != b[i] {
			return i
		}
	}
	if len(a) != len(b) {
		return n
	}
	return -1
}

func logMode(seed uint64, rounds int) {
	rng := hutil.NewRng(seed)
	storePaths(rng.Fork())
	canceledLogsRound(0)
	for round := 0; round < rounds; round++ {
		r := rng.Fork()
		big := round%4 == 3
		linger := round == rounds-1
		np := 1 + r.Intn(3)
		var pipes []pipeGen
		k := 0
		taskNames := []string{"a", "b", "build", "a-stdout", "b-stderr", "x.y", "t_1", "deploy", "lint:js", "lint_js", "t 1", "ünï", "a-stdout.log"}
		for p := 0; p < np; p++ {
			pg := pipeGen{name: fmt.Sprintf("p%d", p)}
			nt := 1 + r.Intn(4)
			perm := r.Fork()
			names := append([]string{}, taskNames...)
			for i := len(names) - 1; i > 0; i-- {
				j := perm.Intn(i + 1)
				names[i], names[j] = names[j], names[i]
			}
			for t := 0; t < nt; t++ {
				tg := taskGen{name: names[t]}
				if t > 0 && r.Chance(1, 3) {
					tg.deps = []string{names[r.Intn(t)]}
				}
				nc := 1 + r.Intn(4)
				for c := 0; c < nc; c++ {
					kinds := []string{"helper", "helper", "pipe", "seq", "builtin", "subshell", "silent", "reopen"}
					g := cmdGen{kind: kinds[r.Intn(len(kinds))], k: k, lit: fmt.Sprintf("L%d", k)}
					k++
					switch {
					case big && r.Chance(1, 3):
						g.flavour, g.n, g.max = "big", 1+r.Intn(3), 1<<20+r.Intn(3<<20)
					case r.Chance(1, 4):
						g.flavour, g.n, g.max = "bin", r.Intn(6), 1+r.Intn(300)
					case r.Chance(1, 6):
						g.flavour, g.n, g.max = "text", 0, 0
					default:
						g.flavour, g.n, g.max = "text", 1+r.Intn(8), 1+r.Intn(120)
					}
					if g.kind == "pipe" && g.flavour == "big" {
						g.kind = "helper"
					}
					tg.cmds = append(tg.cmds, g)
				}
				if linger && (t == 0 || r.Chance(1, 2)) {
					tg.cmds[r.Intn(len(tg.cmds))].kind = "bg"
				}
				if r.Chance(1, 8) && tg.cmds[len(tg.cmds)-1].kind != "bg" {
					// the last command fails: what was written before stays captured
					tg.cmds[len(tg.cmds)-1].kind = "helper_fail"
					tg.fail = true
				}
				pg.tasks = append(pg.tasks, tg)
			}
			pipes = append(pipes, pg)
		}
		defs := map[string]PipeDef{}
		for _, pg := range pipes {
			pd := PipeDef{Concurrency: 16, ContinueAfter: true, Tasks: map[string]TaskDef{}}
			for _, tg := range pg.tasks {
				td := TaskDef{DependsOn: tg.deps, AllowFailure: true}
				for _, c := range tg.cmds {
					td.Script = append(td.Script, c.script())
				}
				pd.Tasks[tg.name] = td
			}
			defs[pg.name] = pd
		}
		a, err := startApp(defs)
		if err != nil {
			emit(map[string]interface{}{"kind": "error", "round": round, "what": err.Error()})
			continue
		}
		nj := 2 + r.Intn(5)
		type jobRec struct {
			id   string
			s    int
			pipe pipeGen
		}
		jobs := make([]jobRec, nj)
		var wg sync.WaitGroup
		for j := 0; j < nj; j++ {
			jobs[j] = jobRec{s: 1000*(round+1) + j, pipe: pipes[r.Intn(len(pipes))]}
			wg.Add(1)
			go func(j int) {
				defer wg.Done()
				id, st, msg := a.Schedule(jobs[j].pipe.name, map[string]interface{}{"s": jobs[j].s})
				if st != 202 {
					emit(map[string]interface{}{"kind": "error", "round": round, "what": fmt.Sprintf("schedule: %d %s", st, msg)})
				}
				jobs[j].id = id
			}(j)
		}
		wg.Wait()
		for j := range jobs {
			if jobs[j].id == "" {
				continue
			}
			res, ok := a.WaitDone(jobs[j].id, 120*time.Second)
			if !ok {
				emit(map[string]interface{}{"kind": "error", "round": round, "what": "job did not finish", "job": res})
			}
		}
		for j, jr := range jobs {
			if jr.id == "" {
				continue
			}
			for _, tg := range jr.pipe.tasks {
				exp := map[int][]byte{1: nil, 2: nil}
				var cmds []interface{}
				total := 0
				for _, c := range tg.cmds {
					var cc []interface{}
					for _, ch := range c.expect(jr.s) {
						exp[ch.Stream] = append(exp[ch.Stream], ch.Data...)
						total += len(ch.Data)
						cc = append(cc, []interface{}{ch.Stream, len(ch.Data), hex.EncodeToString(ch.Data)})
					}
					cmds = append(cmds, cc)
				}
				rec := map[string]interface{}{"kind": "task", "round": round, "job": j, "job_id": jr.id, "pipeline": jr.pipe.name, "task": tg.name,
					"ncmds": len(tg.cmds), "bytes": total}
				var kinds []string
				for _, c := range tg.cmds {
					kinds = append(kinds, c.kind+"/"+c.flavour)
				}
				rec["cmd_kinds"] = kinds
				small := total <= 400
				if small {
					rec["cmds"] = cmds
				}
				ok := true
				logs, st := a.Logs(jr.id, tg.name)
				rec["api_status"] = st
				for _, s := range []int{1, 2} {
					name := map[int]string{1: "stdout", 2: "stderr"}[s]
					got, err := a.LogFile(jr.id, tg.name, name)
					m := map[string]interface{}{"exp_len": len(exp[s]), "exp_sha": sha(exp[s])}
					if err != nil {
						m["error"] = err.Error()
						ok = false
					} else {
						m["len"], m["sha"] = len(got), sha(got)
						if d := firstDiff(exp[s], got); d >= 0 {
							m["first_diff"] = d
							ok = false
						}
						if small {
							m["hex"] = hex.EncodeToString(got)
						}
					}
					if logs != nil && utf8.Valid(exp[s]) {
						api := logs.Stdout
						if s == 2 {
							api = logs.Stderr
						}
						m["api_checked"] = true
						if api != string(exp[s]) {
							m["api_first_diff"] = firstDiff(exp[s], []byte(api))
							ok = false
						}
					}
					rec[name] = m
				}
				if st != 200 {
					ok = false
				}
				// the same job addressed by another spelling of its id that the API accepts (upper case, urn:uuid:, braces)
				if logs != nil {
					spell := []string{strings.ToUpper(jr.id), "urn:uuid:" + jr.id, "{" + jr.id + "}"}[(round+j)%3]
					l2, st2 := a.Logs(spell, tg.name)
					rec["alt_id"], rec["alt_id_status"] = spell, st2
					if st2 == 200 && l2 != nil && (l2.Stdout != logs.Stdout || l2.Stderr != logs.Stderr) {
						rec["alt_id_differs"] = fmt.Sprintf("stdout %d vs %d bytes, stderr %d vs %d bytes", len(l2.Stdout), len(logs.Stdout), len(l2.Stderr), len(logs.Stderr))
						ok = false
					}
				}
				rec["ok"] = ok
				emit(rec)
			}
			// requests for tasks the job does not have
			known := map[string]bool{}
			for _, tg := range jr.pipe.tasks {
				known[tg.name] = true
			}
			var probes []string
			probes = append(probes, "nope", "..", ".")
			for _, other := range jobs {
				if other.id == "" || other.id == jr.id {
					continue
				}
				for _, tg := range other.pipe.tasks {
					if !known[tg.name] {
						probes = append(probes, tg.name)
					}
					probes = append(probes, "../"+other.id+"/"+tg.name)
				}
			}
			sort.Strings(probes)
			seen := map[string]bool{}
			for _, p := range probes {
				if seen[p] {
					continue
				}
				seen[p] = true
				l, st := a.Logs(jr.id, p)
				rec := map[string]interface{}{"kind": "unknown_task", "round": round, "job_id": jr.id, "task": p, "status": st,
					"tasks": keys(known), "ok": st == 404}
				if l != nil {
					rec["got_bytes"] = len(l.Stdout) + len(l.Stderr)
				}
				emit(rec)
			}
		}
		// nothing else was written into the log directory
		emit(extraFiles(a, round, func() map[string]bool {
			m := map[string]bool{}
			for _, jr := range jobs {
				for _, tg := range jr.pipe.tasks {
					m[jr.id+"/"+tg.name+"-stdout.log"] = true
					m[jr.id+"/"+tg.name+"-stderr.log"] = true
				}
			}
			return m
		}()))
		a.Stop()
	}
}

// canceledLogsRound: a task that has already written output is canceled; what it wrote is in the store, and the log API must return
// exactly that (the task ends with status "canceled" like a task that never ran, but it did run)
func canceledLogsRound(round int) {
	defs := map[string]PipeDef{"c": {Concurrency: 1, Tasks: map[string]TaskDef{
		"w": {Script: []string{"printf 'before-cancel-{{.s}}\\n'", "printf 'err-before-{{.s}}\\n' >&2", "sleep 30"}}}}}
	a, err := startApp(defs)
	if err != nil {
		emit(map[string]interface{}{"kind": "error", "round": round, "what": err.Error()})
		return
	}
	defer a.Stop()
	rec := map[string]interface{}{"kind": "canceled_logs", "round": round, "ok": false}
	defer func() { emit(rec) }()
	id, st, msg := a.Schedule("c", map[string]interface{}{"s": 7000 + round})
	if st != 202 {
		rec["what"] = fmt.Sprintf("schedule: %d %s", st, msg)
		return
	}
	wantOut, wantErr := fmt.Sprintf("before-cancel-%d\n", 7000+round), fmt.Sprintf("err-before-%d\n", 7000+round)
	deadline := time.Now().Add(10 * time.Second)
	for time.Now().Before(deadline) {
		o, _ := a.LogFile(id, "w", "stdout")
		e, _ := a.LogFile(id, "w", "stderr")
		if string(o) == wantOut && string(e) == wantErr {
			break
		}
		time.Sleep(10 * time.Millisecond)
	}
	a.Cancel(id)
	res, done := a.WaitDone(id, 20*time.Second)
	if !done {
		rec["what"] = "the canceled job did not finish"
		return
	}
	status := ""
	if res != nil && len(res.Tasks) > 0 {
		status = res.Tasks[0].Status
	}
	o, _ := a.LogFile(id, "w", "stdout")
	e, _ := a.LogFile(id, "w", "stderr")
	logs, lst := a.Logs(id, "w")
	rec["task_status"], rec["api_status"], rec["file_stdout"], rec["file_stderr"] = status, lst, string(o), string(e)
	if string(o) != wantOut || string(e) != wantErr {
		rec["what"] = fmt.Sprintf("the store holds stdout %q stderr %q of the canceled task, it wrote %q and %q", string(o), string(e), wantOut, wantErr)
		return
	}
	if logs == nil || logs.Stdout != wantOut || logs.Stderr != wantErr {
		got := "<no answer>"
		if logs != nil {
			got = fmt.Sprintf("stdout %q stderr %q", logs.Stdout, logs.Stderr)
		}
		rec["what"] = fmt.Sprintf("the log API (status %d) returns %s for a task that was canceled after it had written stdout %q stderr %q (task status %q)", lst, got, wantOut, wantErr, status)
		return
	}
	rec["ok"] = true
}

func keys(m map[string]bool) []string {
	var ks []string
	for k := range m {
		ks = append(ks, k)
	}
	sort.Strings(ks)
	return ks
}

func extraFiles(a *App, round int, expected map[string]bool) map[string]interface{} {
	var extra, missing []string
	found := map[string]bool{}
	walkLogs(a, func(rel string) {
		found[rel] = true
		if !expected[rel] {
			extra = append(extra, rel)
		}
	})
	for k := range expected {
		if !found[k] {
			missing = append(missing, k)
		}
	}
	sort.Strings(extra)
	sort.Strings(missing)
	return map[string]interface{}{"kind": "files", "round": round, "extra": extra, "missing": missing, "count": len(found), "ok": len(extra) == 0 && len(missing) == 0}
}

var _ = bytes.Equal
var _ = strings.Join

// storePaths: where the real FileOutputStore puts the log of (job, task, stream)
func storePaths(r *hutil.Rng) {
	dir, err := os.MkdirTemp("", "realrun-paths")
	if err != nil {
		panic(err)
	}
	defer os.RemoveAll(dir)
	st, err := taskctl.NewOutputStore(dir)
	if err != nil {
		panic(err)
	}
	alphabet := []string{"a", "b", "Z", "0", "9", "-", "_", ".", ":", " ", "*", "?", "\\", "\"", "<", ">", "|", "ü", "日", "%", "~", "+", "=", "stdout", "stderr", ".log", "-stdout", "-stderr.log"}
	names := []string{"a", "lint:js", "lint_js", "a-stdout", "a-stdout.log", "x..y", "...", "-", " "}
	for i := 0; i < 60; i++ {
		n := ""
		for k := 1 + r.Intn(5); k > 0; k-- {
			n += alphabet[r.Intn(len(alphabet))]
		}
		names = append(names, n)
	}
	jobs := []string{"0b5e4e8e-7b0a-4a52-9d1c-3f6f8d1e2a01", "0b5e4e8e-7b0a-4a52-9d1c-3f6f8d1e2a02"}
	seenName := map[string]bool{}
	for i, n := range names {
		if n == "." || n == ".." || seenName[n] {
			continue
		}
		seenName[n] = true
		for _, stream := range []string{"stdout", "stderr"} {
			job := jobs[i%2]
			before := map[string]bool{}
			_ = filepath.Walk(dir, func(p string, info os.FileInfo, err error) error {
				if err == nil && !info.IsDir() {
					before[p] = true
				}
				return nil
			})
			w, err := st.Writer(job, n, stream)
			rec := map[string]interface{}{"kind": "path", "job": job, "task": n, "stream": stream}
			if err != nil {
				rec["error"] = err.Error()
				emit(rec)
				continue
			}
			marker := fmt.Sprintf("%d-%s", i, stream)
			_, _ = w.Write([]byte(marker))
			_ = w.Close()
			var created []string
			_ = filepath.Walk(dir, func(p string, info os.FileInfo, err error) error {
				if err == nil && !info.IsDir() && !before[p] {
					rel, _ := filepath.Rel(dir, p)
					created = append(created, rel)
				}
				return nil
			})
			rec["created"] = created
			if len(created) == 1 {
				rec["dir"], rec["file"] = filepath.Split(created[0])
			}
			rd, err := st.Reader(job, n, stream)
			if err == nil {
				b, _ := io.ReadAll(rd)
				_ = rd.Close()
				rec["reads_back"] = string(b) == marker
			}
			emit(rec)
		}
	}
}

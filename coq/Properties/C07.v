(** * C07 — Start delay is a lower bound and replace debounces to the newest job
    (partial for real time: the logical clock advances by Tick events; that a timer is armed with the job's own delay
    and that Go timers do not fire early is exercised by the check's timed mode, not proved; "starts as soon as a slot is
    free" is C07_starts_as_soon_as_slot_free, "converges to the newest" C07_burst_converges + C07_newest_survives) *)
From stdpp Require Import list.
From Coq Require Import ZArith.
From PV Require Import System Runner proofs.SystemProps proofs.WorkProps.
Local Open Scope Z_scope.

(** a job never starts earlier than its start delay after it was accepted *)
Theorem C07_delay_lower_bound : ∀ s id j t,
  reach s → get_job s id = Some j → j_start j = Some t → j_created j + Z.of_nat (j_delay j) <= t ∧ t <= st_now s.
Proof. exact sys_start_after_delay. Qed.

(** a replaced (or otherwise canceled-while-waiting) job never starts, never gets a scheduler, never runs a task *)
Theorem C07_replaced_never_runs : ∀ s evs id j,
  reach s → Forall no_restart evs → get_job s id = Some j →
  ∃ j', get_job (exec s evs) id = Some j' ∧ job_snapshot j' = job_snapshot j
        ∧ (j_canceled j = true → j_canceled j' = true) ∧ (j_completed j = true → j_completed j' = true)
        ∧ (is_Some (j_start j) → is_Some (j_start j'))
        ∧ (j_canceled j = true → j_start j = None → j_start j' = None ∧ j_sched j' = None).
Proof. exact sys_snapshot_immutable. Qed.

(** replace displaces the most recently queued job by the newer request — never the other way round — and the
    displaced job is reported canceled with its timer disarmed (see also C05_effects) *)
Theorem C07_newest_survives : ∀ s p v u,
  st_shut s = false → is_Some (lookup_def (st_defs s) p) →
  let n := length (st_jobs s) in
  let s' := (do_schedule s p v u).1 in
  let r := (do_schedule s p v u).2 in
  match resolve_action s p false with
  | ANoQueue => r = RErrNoQueue ∧ st_jobs s' = st_jobs s ∧ st_wait s' = st_wait s ∧ st_defs s' = st_defs s
  | AQueueFull => r = RErrQueueFull ∧ st_jobs s' = st_jobs s ∧ st_wait s' = st_wait s ∧ st_defs s' = st_defs s
  | AQueue => r = RJob n ∧ wl_get (st_wait s') p = wl_get (st_wait s) p ++ [n]
              ∧ ∀ id j, get_job s id = Some j → get_job s' id = Some j
  | AReplace => r = RJob n ∧ ∃ prev, last (wl_get (st_wait s) p) = Some prev
                ∧ wl_get (st_wait s') p = removelast (wl_get (st_wait s) p) ++ [n]
                ∧ (∀ j, get_job s prev = Some j → get_job s' prev = Some (set_canceled_notimer j))
  | AStart => r = RJob n
  end.
Proof. exact schedule_effects. Qed.

Definition ex_defs : defs := [(0%nat, PDef 1 (Some 1%nat) true 3 false 0%Z 0 0 [])].
Example C07_ex_burst :
  let s := exec (init ex_defs) [EvSchedule 0 VNone 0; EvTick 1; EvSchedule 0 VNone 0; EvTick 1; EvSchedule 0 VNone 0; EvTick 2;
                                EvFireTimer 0; EvFireTimer 1; EvFireTimer 2; EvTick 1; EvFireTimer 2]%nat in
  (fun j => (j_canceled j, j_start j)) <$> st_jobs s = [(true, None); (true, None); (false, Some 5)].
Proof. vm_compute. done. Qed.

(** once the delay has passed the job starts as soon as a slot is free: under an unchanged definition no reachable state has a
    free slot while the head of the wait list has no pending start timer (the start happens in the step that frees the slot
    or fires the timer) *)
Theorem C07_starts_as_soon_as_slot_free : ∀ ds evs p h rest j,
  Forall no_reload evs → let s := exec (init ds) evs in
  st_shut s = false → wl_get (st_wait s) p = h :: rest → get_job s h = Some j → j_timer j = false →
  (pd_conc (def_or_zero ds p) ≤ running_count s p)%nat.
Proof. exact sys_work_conserving. Qed.

(** a burst converges: under the replace strategy (unchanged definition) at most one job waits — by C07_newest_survives the newest *)
Theorem C07_burst_converges : ∀ ds evs p d,
  Forall no_reload evs → lookup_def ds p = Some d →
  (∀ n, pd_qlimit d = Some n → (length (wl_get (st_wait (exec (init ds) evs)) p) <= n)%nat)
  ∧ (pd_replace d = true → (length (wl_get (st_wait (exec (init ds) evs)) p) <= 1)%nat).
Proof. exact sys_waiting_bounded. Qed.

Print Assumptions C07_starts_as_soon_as_slot_free.
Print Assumptions C07_burst_converges.
Print Assumptions C07_delay_lower_bound.
Print Assumptions C07_replaced_never_runs.
Print Assumptions C07_newest_survives.

(** Every change of what the store holds requests a save (C11). For every event other than the save itself, a restart
    and the two ends of Shutdown (which writes the store itself before it returns): after the step either the persist
    request flag is set, or the persisted view of every job is what it was. *)
From stdpp Require Import list.
From Coq Require Import ZArith Lia.
From PV Require Import Graph System.

(** the persisted view of a job: what SaveToStore writes for it, and whether it is written at all *)
Definition pj_same (j j' : job) : Prop := (j_removed j = false → ∀ i, to_pjob i j' = to_pjob i j) ∧ j_removed j' = j_removed j.
Definition psame (s s' : state) : Prop := Forall2 pj_same (st_jobs s) (st_jobs s').

(** [s'] requested a save, or nothing persisted changed and the flag is as before *)
Definition R (s s' : state) : Prop := st_req s' = true ∨ (psame s s' ∧ st_req s' = st_req s).

Lemma pj_same_refl j : pj_same j j. Proof. by split. Qed.
Lemma pj_same_trans j1 j2 j3 : pj_same j1 j2 → pj_same j2 j3 → pj_same j1 j3.
Proof. intros [A1 B1] [A2 B2]. split; [intros H i; rewrite A2 by congruence; by apply A1|congruence]. Qed.

Lemma psame_refl s : psame s s.
Proof. unfold psame. induction (st_jobs s); constructor; [apply pj_same_refl|done]. Qed.
Lemma psame_trans s1 s2 s3 : psame s1 s2 → psame s2 s3 → psame s1 s3.
Proof.
  unfold psame. generalize (st_jobs s1) (st_jobs s2) (st_jobs s3). intros l1 l2 l3 H. revert l3.
  induction H as [|a b l1 l2 Hab _ IH]; intros l3 H2; inversion H2; subst; constructor; [by eapply pj_same_trans|by apply IH].
Qed.
Lemma psame_jobs s s' : st_jobs s' = st_jobs s → psame s s'.
Proof. intros H. unfold psame. rewrite H. apply (psame_refl s). Qed.

Lemma R_refl s : R s s. Proof. right. split; [apply psame_refl|done]. Qed.
Lemma R_req s s' : st_req s' = true → R s s'. Proof. by left. Qed.
Lemma R_trans s1 s2 s3 : R s1 s2 → R s2 s3 → R s1 s3.
Proof.
  intros [H1|[H1 E1]] [H2|[H2 E2]]; try (by left).
  - left. congruence.
  - right. split; [by eapply psame_trans|congruence].
Qed.
Lemma R_same s s' : st_jobs s' = st_jobs s → st_req s' = st_req s → R s s'.
Proof. intros H1 H2. right. split; [by apply psame_jobs|done]. Qed.

Lemma Forall2_diag {A} (P : A → A → Prop) l : (∀ x, P x x) → Forall2 P l l.
Proof. intros H. induction l; constructor; auto. Qed.

Lemma Forall2_alter_same {A} (P : A → A → Prop) (f : A → A) id l :
  (∀ x, P x x) → (∀ x, P x (f x)) → Forall2 P l (alter f id l).
Proof.
  intros Hr Hf. revert id. induction l as [|a l IH]; intros [|id]; simpl.
  - constructor.
  - constructor.
  - constructor; [apply Hf|by apply Forall2_diag].
  - constructor; [apply Hr|apply IH].
Qed.

Lemma Forall2_alter_at {A} (P : A → A → Prop) (f : A → A) id l x :
  (∀ y, P y y) → l !! id = Some x → P x (f x) → Forall2 P l (alter f id l).
Proof.
  intros Hr. revert id. induction l as [|a l IH]; intros [|id] Hl Hx; simpl in *; try done.
  - injection Hl as ->. constructor; [done|by apply Forall2_diag].
  - constructor; [apply Hr|by apply IH].
Qed.

Lemma R_upd s id f : (∀ j, pj_same j (f j)) → R s (upd_job s id f).
Proof. intros Hf. right. split; [|done]. unfold psame. simpl. apply Forall2_alter_same; [apply pj_same_refl|done]. Qed.

Lemma R_log s o : R s (log s o). Proof. by apply R_same. Qed.
Lemma R_set_wait s p l : R s (set_wait s p l). Proof. by apply R_same. Qed.
Lemma R_put_sched s id sc : R s (put_sched s id sc). Proof. apply R_upd. intros j. by split. Qed.

Lemma R_hsc s id n st : R s (handle_stage_change s id n st).
Proof.
  unfold handle_stage_change. destruct (find_job s id) as [j|]; [|apply R_refl]. destruct (find_task j n); [|apply R_refl]. by apply R_req.
Qed.

Lemma R_htc s id n t : R s (handle_task_change s id n t).
Proof.
  unfold handle_task_change. destruct (find_job s id) as [j|]; [|apply R_refl]. destruct (find_task j n); [|apply R_refl]. by apply R_req.
Qed.

Lemma R_stage_end s id n r : R s (stage_end s id n r).
Proof.
  unfold stage_end. destruct (get_job s id) as [j|]; [|apply R_refl]. destruct (j_sched j); [|apply R_refl]. apply R_put_sched.
Qed.

Lemma R_try_start s id : R s (try_start s id).1.
Proof.
  unfold try_start. destruct (find_job s id) as [j|]; [|apply R_refl]. destruct (j_canceled j); [apply R_refl|].
  destruct (graph_ok j); by apply R_req.
Qed.

Lemma R_dequeue_loop fuel s p : R s (dequeue_loop fuel s p).
Proof.
  revert s. induction fuel as [|x fuel IH]; intros s; simpl; [apply R_refl|].
  destruct (wl_get (st_wait s) p) as [|h rest]; [apply R_refl|]. destruct (get_job s h) as [j|]; [|apply R_refl].
  destruct (bool_decide _ && negb (j_timer j)); [|apply R_refl].
  eapply R_trans; [apply (R_set_wait s p rest)|]. eapply R_trans; [apply R_try_start|apply IH].
Qed.

Lemma R_dequeue s p : R s (dequeue s p). Proof. apply R_dequeue_loop. Qed.

Lemma R_cancel s id b : R s (cancel_job s id b).1.
Proof.
  unfold cancel_job. destruct (find_job s id) as [j|]; [|apply R_refl]. destruct (j_canceled j); [apply R_refl|].
  destruct (j_completed j); [apply R_refl|]. destruct (j_start j).
  - destruct (j_sched j); [|apply R_refl]. simpl. apply R_upd. intros j0. by split.
  - by apply R_req.
Qed.

Lemma R_fold_cancel l s : R s (fold_left (fun s id => (cancel_job s id true).1) l s).
Proof. revert s. induction l as [|x l IH]; intros s; simpl; [apply R_refl|]. eapply R_trans; [apply R_cancel|apply IH]. Qed.

(** requests survive what follows *)
Lemma R_keeps s s' : st_req s = true → R s s' → st_req s' = true.
Proof. unfold R. intros H [H1|[_ E]]; congruence. Qed.

Lemma R_schedule s p v u : R s (do_schedule s p v u).1.
Proof.
  unfold do_schedule. destruct (st_shut s); [apply R_refl|]. destruct (lookup_def (st_defs s) p) as [d|]; [|apply R_log].
  set (s1 := log (request_persist (set_jobs s (st_jobs s ++ [new_job s p d v u]))) (OAccepted (length (st_jobs s)) p)).
  assert (H1 : st_req s1 = true) by done.
  assert (Hstart : st_req (start_job s1 (length (st_jobs s)) p) = true).
  { unfold start_job. destruct (try_start s1 (length (st_jobs s))) as [s' failed] eqn:E.
    assert (Hs' : st_req s' = true) by (apply (R_keeps s1); [done|]; replace s' with (try_start s1 (length (st_jobs s))).1 by (by rewrite E); apply R_try_start).
    destruct failed; [|done]. eapply R_keeps; [exact Hs'|apply R_dequeue]. }
  destruct (resolve_action s p false); cbn [fst]; try apply R_log; try (by apply R_req).
  destruct (last _); by apply R_req.
Qed.

(** ** the theorem *)
Definition writes_store (e : event) : Prop :=
  e = EvSave ∨ e = EvRestart ∨ e = EvShutdownBegin ∨ e = EvShutdownReturn.

Theorem change_requests_save s e s' r :
  step s e = Some (s', r) → ¬ writes_store e → st_req s' = true ∨ psame s s'.
Proof.
  intros Hstep Hnw.
  assert (Hgoal : R (clear_req s) s' → st_req s' = true ∨ psame s s').
  { intros [?|[H _]]; [by left|right]. exact H. }
  apply Hgoal. clear Hgoal. unfold step in Hstep. destruct e; cbn [fmap option_fmap option_map] in Hstep.
  - injection Hstep as Heq. assert (s' = (do_schedule (clear_req s) p v user).1) as -> by (by rewrite Heq). apply R_schedule.
  - injection Hstep as Heq. assert (s' = (cancel_job (clear_req s) id true).1) as -> by (by rewrite Heq). apply R_cancel.
  - injection Hstep as <- _. by apply R_same.
  - destruct (do_fire_timer (clear_req s) id) as [s1|] eqn:Hf; [|done]. injection Hstep as <- _.
    unfold do_fire_timer in Hf. destruct (get_job (clear_req s) id) as [j|]; [|done]. destruct (timer_due (clear_req s) j); [|done].
    assert (H1 : R (clear_req s) (upd_job (clear_req s) id clear_timer)) by (apply R_upd; intros j0; by split).
    destruct (find_job (clear_req s) id); [|by injection Hf as <-]. destruct (j_canceled j); injection Hf as <-; [done|].
    eapply R_trans; [exact H1|apply R_dequeue].
  - injection Hstep as <- _. by apply R_same.
  - destruct (do_iter_begin (clear_req s) id) as [s1|] eqn:Hf; [|done]. injection Hstep as <- _.
    unfold do_iter_begin, with_sched in Hf. destruct (get_job (clear_req s) id) as [j|]; [|done]. destruct (j_sched j) as [sc|]; [|done].
    destruct (sc_phase sc); try done. injection Hf as <-. apply R_put_sched.
  - destruct (do_visit (clear_req s) id n) as [s1|] eqn:Hf; [|done]. injection Hstep as <- _.
    unfold do_visit, with_sched in Hf. destruct (get_job (clear_req s) id) as [j|]; [|done]. destruct (j_sched j) as [sc|]; [|done].
    destruct (sc_phase sc); try done. destruct (mem n todo); [|done].
    destruct (stage_status sc n) as [[]|]; try (injection Hf as <-; apply R_put_sched).
    destruct (check_status sc j n) as [ready cancel]. destruct ready.
    + injection Hf as <-. eapply R_trans; [apply R_hsc|apply R_put_sched].
    + destruct cancel; injection Hf as <-; apply R_put_sched.
  - destruct (do_run_begin (clear_req s) id n) as [s1|] eqn:Hf; [|done]. injection Hstep as <- _.
    unfold do_run_begin, with_sched in Hf. destruct (get_job (clear_req s) id) as [j|]; [|done]. destruct (j_sched j) as [sc|]; [|done].
    destruct (mem n (sc_entry sc)); [|done]. destruct (sc_ctx sc).
    + injection Hf as <-. eapply R_trans; [apply R_log|apply R_stage_end].
    + destruct (match find_task j n with Some t => td_empty (jt_def t) | None => true end); injection Hf as <-.
      * eapply R_trans; [|apply R_stage_end]. by apply R_same.
      * eapply R_trans; [|apply R_htc]. eapply R_trans; [|apply R_put_sched]. by apply R_same.
  - destruct (do_run_end (clear_req s) id n o) as [s1|] eqn:Hf; [|done]. injection Hstep as <- _.
    unfold do_run_end, with_sched in Hf. destruct (get_job (clear_req s) id) as [j|]; [|done]. destruct (j_sched j) as [sc|]; [|done].
    destruct (mem n (sc_running sc)); [|done]. destruct o.
    + injection Hf as <-. eapply R_trans; [|apply R_stage_end]. eapply R_trans; [apply R_log|apply R_htc].
    + destruct (match find_task j n with Some t => td_allow (jt_def t) | None => false end); injection Hf as <-.
      * eapply R_trans; [|apply R_stage_end]. eapply R_trans; [|apply R_htc]. eapply R_trans; [apply R_log|apply R_htc].
      * eapply R_trans; [|apply R_stage_end]. eapply R_trans; [apply R_log|apply R_htc].
    + destruct (sc_ctx sc); [|done]. injection Hf as <-. eapply R_trans; [|apply R_stage_end]. eapply R_trans; [apply R_log|apply R_htc].
  - destruct (do_notify (clear_req s) id n) as [s1|] eqn:Hf; [|done]. injection Hstep as <- _.
    unfold do_notify, with_sched in Hf. destruct (get_job (clear_req s) id) as [j|]; [|done]. destruct (j_sched j) as [sc|]; [|done].
    destruct (ending_of sc n) as [[r0 second]|]; [|done].
    destruct r0 as [e|]; [destruct second|].
    + injection Hf as <-. eapply R_trans; [apply R_put_sched|apply R_hsc].
    + destruct (match find_task j n with Some t => td_allow (jt_def t) | None => false end); injection Hf as <-;
        (eapply R_trans; [apply R_hsc|apply R_put_sched]).
    + injection Hf as <-. eapply R_trans; [apply R_put_sched|apply R_hsc].
  - destruct (do_cancel_deliver (clear_req s) id) as [s1|] eqn:Hf; [|done]. injection Hstep as <- _.
    unfold do_cancel_deliver in Hf. destruct (get_job (clear_req s) id) as [j|]; [|done]. destruct (j_cancels j); [done|].
    set (dec := fun j : job => _) in Hf.
    assert (H1 : R (clear_req s) (upd_job (clear_req s) id dec)) by (apply R_upd; intros j0; by split).
    destruct (j_sched j); injection Hf as <-; [|done].
    eapply R_trans; [exact H1|]. eapply R_trans; [apply R_put_sched|apply R_log].
  - destruct (do_sched_return (clear_req s) id) as [s1|] eqn:Hf; [|done]. injection Hstep as <- _.
    unfold do_sched_return, with_sched in Hf. destruct (get_job (clear_req s) id) as [j|] eqn:Hj; [|done]. destruct (j_sched j) as [sc|]; [|done].
    destruct (sc_phase sc); try done. destruct (sc_entry sc); try done. destruct (sc_running sc); try done. destruct (sc_ending sc); try done.
    destruct (j_removed j) eqn:Hrm; injection Hf as <-; [|by apply R_req].
    (* a job that a save has already removed: it is not written any more *)
    right. split; [|done]. unfold psame. simpl. unfold get_job in Hj. simpl in Hj.
    apply (Forall2_alter_at _ _ _ _ j); [apply pj_same_refl|done|]. split; [|done]. intros H. congruence.
  - exfalso. apply Hnw. by left.
  - exfalso. apply Hnw. right. by left.
  - exfalso. apply Hnw. right. right. by left.
  - destruct (do_shutdown_force (clear_req s)) as [s1|] eqn:Hf; [|done]. injection Hstep as <- _.
    unfold do_shutdown_force in Hf. destruct (st_shutg (clear_req s)) as [[]|]; try done. destruct (any_running (clear_req s)); [|done].
    injection Hf as <-. eapply R_trans; [apply R_fold_cancel|]. by apply R_same.
  - exfalso. apply Hnw. right. right. by right.
Qed.

(** what SaveToStore would write *)
Definition pview (s : state) : list pjob :=
  omap (fun ij : nat * job => if j_removed (snd ij) then None else Some (to_pjob (fst ij) (snd ij))) (imap (fun i j => (i, j)) (st_jobs s)).

Lemma psame_pview s s' : psame s s' → pview s' = pview s.
Proof.
  unfold psame, pview. generalize (st_jobs s) (st_jobs s'). intros l l' H.
  assert (Hgen : ∀ g : nat → nat,
    omap (fun ij : nat * job => if j_removed (snd ij) then None else Some (to_pjob (fst ij) (snd ij))) (imap (fun i j => (g i, j)) l') =
    omap (fun ij : nat * job => if j_removed (snd ij) then None else Some (to_pjob (fst ij) (snd ij))) (imap (fun i j => (g i, j)) l)).
  { induction H as [|a b l l' [Hab Hr] _ IH]; intros g; [done|]. simpl. rewrite Hr.
    destruct (j_removed a) eqn:E; [apply (IH (g ∘ S))|]. rewrite (Hab eq_refl). f_equal. apply (IH (g ∘ S)). }
  apply (Hgen id).
Qed.

Corollary change_requests_save_view s e s' r :
  step s e = Some (s', r) → ¬ writes_store e → pview s' ≠ pview s → st_req s' = true.
Proof.
  intros Hs Hnw Hne. destruct (change_requests_save s e s' r Hs Hnw) as [?|H]; [done|]. by apply psame_pview in H.
Qed.

Lemma save_writes_view s : st_store (do_save s) = Some (pview (do_save s)).
Proof. reflexivity. Qed.

// persistrun: the real persist loop of NewPipelineRunner in real time (property C11, second half: every acknowledged
// change reaches the store within the persist interval without an explicit save).
// A recording store wrapper sees every Save of the loop (what the snapshot contained, when it began and ended) and can
// hold a Save open. Scenarios run concurrently on separate runners; every change is the scheduling of one more job, so
// "version" = number of jobs acknowledged and a snapshot's version = number of jobs it contains.
package main

import (
	"context"
	"flag"
	"fmt"
	"os"
	"strings"
	"sync"
	"sync/atomic"
	"time"

	"github.com/apex/log"
	"github.com/apex/log/handlers/discard"
	"github.com/taskctl/taskctl/pkg/task"

	"github.com/Flowpack/prunner"
	"github.com/Flowpack/prunner/definition"
	_ "github.com/Flowpack/prunner/server" // linked by the prunner binary: its init configures the shared JSON library
	"github.com/Flowpack/prunner/store"
	"github.com/Flowpack/prunner/taskctl"
	"github.com/Flowpack/prunner/test"

	"verifharness/hutil"
)

type Event struct {
	T       int64  `json:"t_ms"`
	Kind    string `json:"kind"` // change | save_begin | save_end
	Version int    `json:"version"`
}

type recStore struct {
	inner store.DataStore
	mu    sync.Mutex
	t0    time.Time
	ev    []Event
	hold  chan struct{} // the first Save waits for this (nil: no hold)
	held  chan struct{} // closed when the first Save is being held
	n     int
}

func (s *recStore) rec(kind string, v int) {
	s.mu.Lock()
	s.ev = append(s.ev, Event{time.Since(s.t0).Milliseconds(), kind, v})
	s.mu.Unlock()
}

func (s *recStore) Load() (*store.PersistedData, error) { return s.inner.Load() }

func (s *recStore) Save(d *store.PersistedData) error {
	s.rec("save_begin", len(d.Jobs))
	s.mu.Lock()
	s.n++
	first := s.n == 1
	s.mu.Unlock()
	if first && s.hold != nil {
		close(s.held)
		<-s.hold
	}
	err := s.inner.Save(d)
	s.rec("save_end", len(d.Jobs))
	return err
}

type scenario struct {
	name string
	// run drives the changes; change() schedules one more job and records it
	run func(s *recStore, change func())
	// the time after the last change by which the store must contain everything (ms)
	deadlineMs int64
}

func main() {
	out := flag.String("out", "", "output file")
	flag.Parse()
	log.SetHandler(discard.Default)
	w := os.Stdout
	if *out != "" {
		f, err := os.Create(*out)
		if err != nil {
			panic(err)
		}
		defer f.Close()
		w = f
	}
	const interval = 3000 // the persist interval of NewPipelineRunner in ms
	scenarios := []scenario{
		{"change_during_save", func(s *recStore, change func()) {
			change()
			<-s.held // the loop is inside Save with a snapshot of 1 job
			change()
			change()
			close(s.hold)
		}, interval + 1200},
		{"change_during_sleep", func(s *recStore, change func()) {
			change()
			time.Sleep(1200 * time.Millisecond)
			change()
		}, interval + 1200},
		{"burst", func(s *recStore, change func()) {
			for i := 0; i < 25; i++ {
				change()
				time.Sleep(time.Duration(i%5) * 7 * time.Millisecond)
			}
		}, interval + 1200},
		{"change_right_after_save", func(s *recStore, change func()) {
			change()
			time.Sleep(150 * time.Millisecond)
			change()
		}, interval + 1200},
	}
	var wg sync.WaitGroup
	results := make([]map[string]interface{}, len(scenarios))
	for i, sc := range scenarios {
		wg.Add(1)
		go func(i int, sc scenario) {
			defer wg.Done()
			dir, err := os.MkdirTemp("", "persistrun")
			if err != nil {
				panic(err)
			}
			defer os.RemoveAll(dir)
			inner, err := store.NewJSONDataStore(dir)
			if err != nil {
				panic(err)
			}
			rs := &recStore{inner: inner, t0: time.Now()}
			if sc.name == "change_during_save" {
				rs.hold, rs.held = make(chan struct{}), make(chan struct{})
			}
			defs := &definition.PipelinesDef{Pipelines: map[string]definition.PipelineDef{
				"p": {Concurrency: 1000, Tasks: map[string]definition.TaskDef{"a": {Script: []string{"x"}}}, SourcePath: "f"}}}
			gate := make(chan struct{})
			ctx, cancel := context.WithCancel(context.Background())
			r, err := prunner.NewPipelineRunner(ctx, defs, func(j *prunner.PipelineJob) taskctl.Runner {
				return &test.MockRunner{OnRun: func(t *task.Task) error { <-gate; return nil }}
			}, rs, test.NewMockOutputStore())
			if err != nil {
				panic(err)
			}
			version := 0
			var lastChange time.Time
			change := func() {
				if _, err := r.ScheduleAsync("p", prunner.ScheduleOpts{}); err != nil {
					panic(err)
				}
				version++
				lastChange = time.Now()
				rs.rec("change", version)
			}
			sc.run(rs, change)
			// wait (without any explicit save) until the store holds everything, or the deadline passes
			reached := int64(-1)
			for time.Since(lastChange).Milliseconds() <= sc.deadlineMs+500 {
				if d, err := inner.Load(); err == nil && d != nil && len(d.Jobs) == version {
					reached = time.Since(lastChange).Milliseconds()
					break
				}
				time.Sleep(20 * time.Millisecond)
			}
			cancel()
			close(gate)
			rs.mu.Lock()
			ev := append([]Event{}, rs.ev...)
			rs.mu.Unlock()
			results[i] = map[string]interface{}{"kind": "persist", "scenario": sc.name, "changes": version, "events": ev, "reached_store_ms_after_last_change": reached,
				"deadline_ms": sc.deadlineMs, "interval_ms": interval, "ok": reached >= 0 && reached <= sc.deadlineMs}
		}(i, sc)
	}
	var shut map[string]interface{}
	wg.Add(1)
	go func() {
		defer wg.Done()
		shut = shutdownDuringSave()
	}()
	var ret map[string]interface{}
	wg.Add(1)
	go func() {
		defer wg.Done()
		ret = retentionVsRunning()
	}()
	var retq, adm map[string]interface{}
	wg.Add(2)
	go func() {
		defer wg.Done()
		retq = retentionVsQueue()
	}()
	go func() {
		defer wg.Done()
		adm = removedPipelineAdmission()
	}()
	wg.Wait()
	for _, r := range results {
		hutil.JSONLine(w, r)
	}
	hutil.JSONLine(w, shut)
	hutil.JSONLine(w, ret)
	hutil.JSONLine(w, retq)
	hutil.JSONLine(w, adm)
}

// retentionVsRunning (C12, C01, in real time): a job runs longer than its pipeline's retention_period and a save happens meanwhile.
// The save must not remove it: it stays reported, keeps its slot (a second request waits), and ends normally.
func retentionVsRunning() map[string]interface{} {
	res := map[string]interface{}{"kind": "retention_running", "scenario": "retention_period_shorter_than_running_job", "ok": false}
	dir, err := os.MkdirTemp("", "persistrun")
	if err != nil {
		panic(err)
	}
	defer os.RemoveAll(dir)
	inner, err := store.NewJSONDataStore(dir)
	if err != nil {
		panic(err)
	}
	defs := &definition.PipelinesDef{Pipelines: map[string]definition.PipelineDef{
		"p": {Concurrency: 1, RetentionPeriod: 20 * time.Millisecond, Tasks: map[string]definition.TaskDef{"a": {Script: []string{"x"}}}, SourcePath: "f"}}}
	gate := make(chan struct{})
	var executing, maxExecuting int32
	ctx, cancel := context.WithCancel(context.Background())
	cancel() // no persist loop: the save is explicit
	r, err := prunner.NewPipelineRunner(ctx, defs, func(j *prunner.PipelineJob) taskctl.Runner {
		return &test.MockRunner{OnRun: func(t *task.Task) error {
			n := atomic.AddInt32(&executing, 1)
			for {
				m := atomic.LoadInt32(&maxExecuting)
				if n <= m || atomic.CompareAndSwapInt32(&maxExecuting, m, n) {
					break
				}
			}
			<-gate
			atomic.AddInt32(&executing, -1)
			return nil
		}}
	}, inner, test.NewMockOutputStore())
	if err != nil {
		panic(err)
	}
	j1, err := r.ScheduleAsync("p", prunner.ScheduleOpts{})
	if err != nil {
		res["what"] = err.Error()
		return res
	}
	time.Sleep(80 * time.Millisecond) // older than the retention period, still running
	r.SaveToStore()
	var what []string
	if err := r.ReadJob(j1.ID, func(j *prunner.PipelineJob) {}); err != nil {
		what = append(what, "the save removed a running job that is older than retention_period: "+err.Error())
	}
	j2, err := r.ScheduleAsync("p", prunner.ScheduleOpts{})
	if err != nil {
		what = append(what, "second request: "+err.Error())
	} else {
		time.Sleep(30 * time.Millisecond)
		started := false
		_ = r.ReadJob(j2.ID, func(j *prunner.PipelineJob) { started = j.Start != nil })
		if started {
			what = append(what, "a second job of the pipeline was started while the first is still executing (concurrency 1)")
		}
	}
	close(gate)
	if m := atomic.LoadInt32(&maxExecuting); m > 1 {
		what = append(what, fmt.Sprintf("%d jobs of the pipeline executed at once, concurrency 1", m))
	}
	res["max_executing"] = atomic.LoadInt32(&maxExecuting)
	if len(what) == 0 {
		res["ok"] = true
	} else {
		res["what"] = strings.Join(what, "; ")
	}
	return res
}

// shutdownDuringSave: Shutdown is called while a save of the persist loop (with an older snapshot) is still inside the
// store. When Shutdown has returned the store must hold exactly what the runner reports (first half of C11).
func shutdownDuringSave() map[string]interface{} {
	res := map[string]interface{}{"kind": "shutdown_save", "scenario": "shutdown_during_save", "ok": false}
	dir, err := os.MkdirTemp("", "persistrun")
	if err != nil {
		panic(err)
	}
	defer os.RemoveAll(dir)
	inner, err := store.NewJSONDataStore(dir)
	if err != nil {
		panic(err)
	}
	rs := &recStore{inner: inner, t0: time.Now(), hold: make(chan struct{}), held: make(chan struct{})}
	defs := &definition.PipelinesDef{Pipelines: map[string]definition.PipelineDef{
		"p": {Concurrency: 1000, Tasks: map[string]definition.TaskDef{"a": {Script: []string{"x"}}}, SourcePath: "f"}}}
	gate := make(chan struct{})
	ctx, cancel := context.WithCancel(context.Background())
	defer cancel()
	r, err := prunner.NewPipelineRunner(ctx, defs, func(j *prunner.PipelineJob) taskctl.Runner {
		return &test.MockRunner{OnRun: func(t *task.Task) error { <-gate; return nil }}
	}, rs, test.NewMockOutputStore())
	if err != nil {
		panic(err)
	}
	for i := 0; i < 3; i++ {
		if _, err := r.ScheduleAsync("p", prunner.ScheduleOpts{}); err != nil {
			panic(err)
		}
		if i == 0 {
			select {
			case <-rs.held: // the loop is inside Save with a snapshot of 1 unfinished job
			case <-time.After(8 * time.Second):
				res["what"] = "the persist loop did not save within 8 s"
				return res
			}
		}
	}
	close(gate)
	// all three jobs finish
	deadline := time.Now().Add(10 * time.Second)
	for {
		done := 0
		r.IterateJobs(func(j *prunner.PipelineJob) {
			if j.Completed {
				done++
			}
		})
		if done == 3 {
			break
		}
		if time.Now().After(deadline) {
			res["what"] = "jobs did not complete"
			return res
		}
		time.Sleep(10 * time.Millisecond)
	}
	returned := make(chan error, 1)
	go func() { returned <- r.Shutdown(context.Background()) }()
	time.Sleep(250 * time.Millisecond)
	close(rs.hold) // the old save finishes now
	select {
	case <-returned:
	case <-time.After(10 * time.Second):
		res["what"] = "Shutdown did not return within 10 s after the save in progress finished"
		return res
	}
	// at the return of Shutdown
	d, err := inner.Load()
	stored, completed := 0, 0
	if err == nil && d != nil {
		stored = len(d.Jobs)
		for _, j := range d.Jobs {
			if j.Completed {
				completed++
			}
		}
	}
	res["stored_jobs"], res["stored_completed"] = stored, completed
	rs.mu.Lock()
	res["events"] = append([]Event{}, rs.ev...)
	rs.mu.Unlock()
	if stored == 3 && completed == 3 {
		res["ok"] = true
	} else {
		res["what"] = fmt.Sprintf("Shutdown returned while the store holds %d jobs (%d completed); the runner reports 3 completed jobs (a save with an older snapshot was in progress when Shutdown was called)", stored, completed)
	}
	return res
}

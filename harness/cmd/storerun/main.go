// storerun: driver for properties C09 (the store file is always a complete snapshot) and C10 (codec round trip of job payloads).
//
//	-mode seq      sequential saves of generated snapshots (also unencodable ones); after each save the next load must return
//	               the last snapshot whose save returned successfully; payloads must come back unchanged
//	-mode overlap  overlapping saves from several goroutines while readers load and read the raw file: everything read must be
//	               one complete snapshot that was passed to a save
//	-mode kill     saves in a child process that is SIGKILLed at random instants; afterwards the file must load and be one of the
//	               child's snapshots (or absent)
//	-mode child    (internal) the child of -mode kill
//	-mode trace    a few saves, for system call tracing (strace)
package main

import (
	"encoding/json"
	"flag"
	"fmt"
	"math"
	"os"
	"os/exec"
	"path/filepath"
	"reflect"
	"strings"
	"sync"
	"sync/atomic"
	"syscall"
	"time"

	"github.com/gofrs/uuid"

	// the prunner binary links the HTTP server, whose init configures a JSON time format: the store must behave the same with it
	_ "github.com/Flowpack/prunner/server"
	"github.com/Flowpack/prunner/store"

	"verifharness/hutil"
)

type result struct {
	Kind  string      `json:"kind"`
	Case  int         `json:"case"`
	What  string      `json:"what,omitempty"`
	OK    bool        `json:"ok"`
	Info  interface{} `json:"info,omitempty"`
	Class string      `json:"class,omitempty"`
}

func genValue(rng *hutil.Rng, depth int) interface{} {
	switch rng.Intn(11) {
	case 0:
		return nil
	case 1:
		return rng.Chance(1, 2)
	case 2:
		return float64(rng.Intn(100000)) // integers arrive as float64 from the HTTP API
	case 3:
		return []float64{0.1, 1e-9, 0.1234567891, 12345678.9012, 1e21, -2.5e-7, 3.141592653589793, 1e300, 5e-324}[rng.Intn(9)]
	case 4:
		return float64(rng.Next()>>11) / float64(1<<53) * math.Pow(10, float64(rng.Intn(40)-20))
	case 5:
		return []string{"", "plain", "with \"quotes\"", "new\nline", "tab\t", "uni ü €  😀", "back\\slash", "<html>&amp;", "  ls", strings.Repeat("x", 2000)}[rng.Intn(10)]
	case 6, 7:
		if depth > 2 {
			return "deep"
		}
		n := rng.Intn(4)
		l := make([]interface{}, n)
		for i := range l {
			l[i] = genValue(rng, depth+1)
		}
		return l
	default:
		if depth > 2 {
			return float64(1)
		}
		m := map[string]interface{}{}
		for i, n := 0, rng.Intn(4); i < n; i++ {
			m[[]string{"k", "key with space", "ü", "a\"b", "", "x.y", "<k>"}[rng.Intn(7)]] = genValue(rng, depth+1)
		}
		return m
	}
}

func ptrTime(t time.Time) *time.Time { return &t }
func ptrStr(s string) *string        { return &s }

func genSnapshot(rng *hutil.Rng, marker string, big bool) *store.PersistedData {
	d := &store.PersistedData{}
	n := 1 + rng.Pick([]int{3, 3, 2, 1})
	if big {
		n = 300 + rng.Intn(300)
	}
	base := time.Now().Round(0).Add(-time.Duration(rng.Intn(100000)) * time.Second)
	for i := 0; i < n; i++ {
		id, _ := uuid.NewV4()
		j := store.PersistedJob{ID: id, Pipeline: []string{"p", "deploy", "ü"}[rng.Intn(3)], Completed: rng.Chance(1, 2), Canceled: rng.Chance(1, 4),
			Created: base.Add(time.Duration(i) * time.Millisecond), User: marker}
		if rng.Chance(2, 3) {
			j.Start = ptrTime(j.Created.Add(time.Duration(rng.Intn(1000)) * time.Microsecond))
		}
		if rng.Chance(1, 2) {
			j.End = ptrTime(j.Created.Add(time.Second))
		}
		if rng.Chance(1, 3) {
			j.LastError = ptrStr([]string{"exit status 1", "context canceled", "building execution graph: cycle detected", "multi\nline \"err\""}[rng.Intn(4)])
		}
		if rng.Chance(3, 4) {
			j.Variables = map[string]interface{}{}
			for k, nv := 0, 1+rng.Intn(4); k < nv; k++ {
				j.Variables[fmt.Sprintf("v%d", k)] = genValue(rng, 0)
			}
		}
		for k, nt := 0, rng.Intn(4); k < nt; k++ {
			t := store.PersistedTask{Name: fmt.Sprintf("t%d", k), Script: []string{"echo \"hi\"", "exit 1"}[:1+rng.Intn(2)], AllowFailure: rng.Chance(1, 4),
				Status: []string{"waiting", "running", "done", "error", "canceled"}[rng.Intn(5)], ExitCode: int16(rng.Intn(300) - 1), Errored: rng.Chance(1, 4)}
			if rng.Chance(1, 2) {
				t.DependsOn = []string{"t0"}
			}
			if rng.Chance(1, 2) {
				t.Start = ptrTime(j.Created)
			}
			if rng.Chance(1, 3) {
				t.Error = ptrStr("exit status 2")
			}
			j.Tasks = append(j.Tasks, t)
		}
		d.Jobs = append(d.Jobs, j)
	}
	return d
}

// canon brings a snapshot into a comparable form: times as UnixNano, empty and nil collections alike
func canon(d *store.PersistedData) interface{} {
	type tj struct {
		ID, Pipeline, User  string
		Completed, Canceled bool
		Created, Start, End int64
		LastError           string
		Variables           interface{}
		Tasks               []interface{}
	}
	var out []tj
	tn := func(t *time.Time) int64 {
		if t == nil {
			return -1
		}
		return t.UnixNano()
	}
	sp := func(s *string) string {
		if s == nil {
			return "<nil>"
		}
		return *s
	}
	for _, j := range d.Jobs {
		c := tj{ID: j.ID.String(), Pipeline: j.Pipeline, User: j.User, Completed: j.Completed, Canceled: j.Canceled, Created: j.Created.UnixNano(),
			Start: tn(j.Start), End: tn(j.End), LastError: sp(j.LastError)}
		if len(j.Variables) > 0 {
			c.Variables = canonValue(j.Variables)
		}
		for _, t := range j.Tasks {
			c.Tasks = append(c.Tasks, []interface{}{t.Name, strings.Join(t.Script, "\x00"), strings.Join(t.DependsOn, "\x00"), t.AllowFailure, t.Status, tn(t.Start),
				tn(t.End), t.Skipped, t.ExitCode, t.Errored, sp(t.Error)})
		}
		out = append(out, c)
	}
	return out
}

func canonValue(v interface{}) interface{} {
	switch x := v.(type) {
	case map[string]interface{}:
		m := map[string]interface{}{}
		for k, e := range x {
			m[k] = canonValue(e)
		}
		return m
	case []interface{}:
		l := make([]interface{}, len(x))
		for i, e := range x {
			l[i] = canonValue(e)
		}
		return l
	}
	return v
}

func modeSeq(dir string, seed uint64, n int, w *os.File) {
	rng := hutil.NewRng(seed)
	st, err := store.NewJSONDataStore(dir)
	if err != nil {
		panic(err)
	}
	// a load before any save must not leave a store file behind that is not a complete snapshot
	if _, err := st.Load(); err == nil {
		if b, rerr := os.ReadFile(filepath.Join(dir, "data.json")); rerr == nil {
			var probe store.PersistedData
			if json.Unmarshal(b, &probe) != nil {
				hutil.JSONLine(w, result{Kind: "seq", Case: -1, OK: false, Class: "fresh",
					What: fmt.Sprintf("after a load on a fresh directory data.json exists (%d bytes) and is not a complete snapshot", len(b))})
			}
		}
	}
	var last *store.PersistedData
	for i := 0; i < n; i++ {
		d := genSnapshot(rng.Fork(), fmt.Sprintf("snap-%d", i), rng.Chance(1, 25))
		class := "ok"
		if rng.Chance(1, 8) && len(d.Jobs) > 0 {
			// a payload the encoder rejects (the HTTP API cannot produce it, programmatic use can)
			class = "unencodable"
			k := rng.Intn(len(d.Jobs))
			if d.Jobs[k].Variables == nil {
				d.Jobs[k].Variables = map[string]interface{}{}
			}
			d.Jobs[k].Variables["bad"] = []interface{}{math.NaN(), math.Inf(1), make(chan int), json.RawMessage("{\"a\": [1, }")}[rng.Intn(4)]
		}
		err := st.Save(d)
		if err == nil && class == "ok" {
			last = d
		}
		r := result{Kind: "seq", Case: i, OK: true, Class: class}
		if err == nil && class != "ok" {
			// the encoder accepted it after all: then it has to come back like any other snapshot
			last = d
			r.Class = "accepted-odd"
		}
		st2, _ := store.NewJSONDataStore(dir)
		got, lerr := st2.Load()
		switch {
		case lerr != nil:
			r.OK, r.What = false, fmt.Sprintf("after save #%d (%s, save error: %v) the store does not load: %v", i, class, err, lerr)
		case last == nil:
			if len(got.Jobs) != 0 {
				r.OK, r.What = false, "jobs loaded although no save succeeded"
			}
		case r.Class == "accepted-odd":
			// NaN etc. do not compare equal to themselves (and an invalid raw message is stored as null); only loadability is
			// required, and what was loaded is the reference for the saves that follow
			last = got
		case !reflect.DeepEqual(canon(got), canon(last)):
			r.OK, r.What = false, fmt.Sprintf("after save #%d (%s, save error: %v) the load does not return the last successfully saved snapshot", i, class, err)
			a, _ := json.Marshal(canon(last))
			b, _ := json.Marshal(canon(got))
			if len(a) < 3000 {
				r.Info = map[string]string{"saved": string(a), "loaded": string(b)}
			}
		}
		hutil.JSONLine(w, r)
	}
}

func checkLoaded(got *store.PersistedData, sizes map[string]int) string {
	if len(got.Jobs) == 0 {
		return ""
	}
	marker := got.Jobs[0].User
	for _, j := range got.Jobs {
		if j.User != marker {
			return "mixed snapshot: jobs of " + marker + " and " + j.User
		}
	}
	want, ok := sizes[marker]
	if !ok {
		return "unknown snapshot " + marker
	}
	if want != len(got.Jobs) {
		return fmt.Sprintf("snapshot %s has %d jobs, %d were saved", marker, len(got.Jobs), want)
	}
	return ""
}

func modeOverlap(dir string, seed uint64, n int, w *os.File) {
	rng := hutil.NewRng(seed)
	st, _ := store.NewJSONDataStore(dir)
	const writers = 4
	snaps := make([][]*store.PersistedData, writers)
	sizes := map[string]int{}
	for k := 0; k < writers; k++ {
		for i := 0; i < n; i++ {
			d := genSnapshot(rng.Fork(), fmt.Sprintf("snap-%d-%d", k, i), rng.Chance(1, 6))
			snaps[k] = append(snaps[k], d)
			sizes[d.Jobs[0].User] = len(d.Jobs)
		}
	}
	var wg sync.WaitGroup
	stop := make(chan struct{})
	var mu sync.Mutex
	var problems []string
	var completed int64
	reads := 0
	for r := 0; r < 3; r++ {
		wg.Add(1)
		go func() {
			defer wg.Done()
			st2, _ := store.NewJSONDataStore(dir)
			for {
				select {
				case <-stop:
					return
				default:
				}
				before := atomic.LoadInt64(&completed)
				got, err := st2.Load()
				mu.Lock()
				reads++
				if err != nil {
					problems = append(problems, "load failed while saves were running: "+err.Error())
				} else if p := checkLoaded(got, sizes); p != "" {
					problems = append(problems, p)
				} else if len(got.Jobs) == 0 && before > 0 {
					// every snapshot has jobs: an empty load means the store file was absent although a save had completed before
					problems = append(problems, fmt.Sprintf("the store was empty / absent for a reader although %d saves had already completed", before))
				}
				mu.Unlock()
			}
		}()
	}
	var wwg sync.WaitGroup
	saveErrs := 0
	for k := 0; k < writers; k++ {
		wwg.Add(1)
		go func(k int) {
			defer wwg.Done()
			for _, d := range snaps[k] {
				if err := st.Save(d); err != nil {
					mu.Lock()
					saveErrs++
					problems = append(problems, "save failed: "+err.Error())
					mu.Unlock()
				} else {
					atomic.AddInt64(&completed, 1)
				}
			}
		}(k)
	}
	wwg.Wait()
	close(stop)
	wg.Wait()
	got, err := st.Load()
	if err != nil {
		problems = append(problems, "final load failed: "+err.Error())
	} else if p := checkLoaded(got, sizes); p != "" {
		problems = append(problems, "final: "+p)
	}
	ents, _ := os.ReadDir(dir)
	left := 0
	for _, e := range ents {
		if strings.HasSuffix(e.Name(), ".tmp") {
			left++
		}
	}
	res := result{Kind: "overlap", OK: len(problems) == 0, Info: map[string]int{"reads": reads, "saves": writers * n, "tmp_left": left}}
	if len(problems) > 0 {
		res.What = strings.Join(problems[:minInt(3, len(problems))], "; ")
	}
	hutil.JSONLine(w, res)
}

func minInt(a, b int) int {
	if a < b {
		return a
	}
	return b
}

func modeChild(dir string, seed uint64) {
	rng := hutil.NewRng(seed)
	st, _ := store.NewJSONDataStore(dir)
	for i := 0; ; i++ {
		d := genSnapshot(rng.Fork(), fmt.Sprintf("child-%d-%d", seed, i), i%3 == 0)
		// sizes are recorded before the save so that the parent can check whatever it finds
		f, _ := os.OpenFile(filepath.Join(dir, "sizes.log"), os.O_APPEND|os.O_CREATE|os.O_WRONLY, 0o666)
		fmt.Fprintf(f, "%s %d\n", d.Jobs[0].User, len(d.Jobs))
		f.Close()
		if err := st.Save(d); err != nil {
			fmt.Fprintln(os.Stderr, "child save error:", err)
			os.Exit(3)
		}
	}
}

func modeKill(dir string, seed uint64, n int, w *os.File) {
	rng := hutil.NewRng(seed)
	self, _ := os.Executable()
	for i := 0; i < n; i++ {
		cmd := exec.Command(self, "-mode", "child", "-dir", dir, "-seed", fmt.Sprint(seed*1000+uint64(i)))
		cmd.Stderr = os.Stderr
		if err := cmd.Start(); err != nil {
			panic(err)
		}
		time.Sleep(time.Duration(5+rng.Intn(60)) * time.Millisecond)
		time.Sleep(time.Duration(rng.Intn(1000)) * time.Microsecond)
		_ = cmd.Process.Signal(syscall.SIGKILL)
		_ = cmd.Wait()
		sizes := map[string]int{}
		if b, err := os.ReadFile(filepath.Join(dir, "sizes.log")); err == nil {
			for _, l := range strings.Split(string(b), "\n") {
				var m string
				var k int
				if _, err := fmt.Sscanf(l, "%s %d", &m, &k); err == nil {
					sizes[m] = k
				}
			}
		}
		st, _ := store.NewJSONDataStore(dir)
		got, err := st.Load()
		r := result{Kind: "kill", Case: i, OK: true}
		if err != nil {
			r.OK, r.What = false, "after the process was killed the store does not load: "+err.Error()
		} else if p := checkLoaded(got, sizes); p != "" {
			r.OK, r.What = false, "after the process was killed: "+p
		}
		hutil.JSONLine(w, r)
	}
}

func modeTrace(dir string, seed uint64) {
	rng := hutil.NewRng(seed)
	st, _ := store.NewJSONDataStore(dir)
	for i := 0; i < 4; i++ {
		_ = st.Save(genSnapshot(rng.Fork(), fmt.Sprintf("trace-%d", i), i == 2))
	}
	_, _ = st.Load()
}

func main() {
	mode := flag.String("mode", "seq", "seq|overlap|kill|child|trace")
	dir := flag.String("dir", "", "data directory")
	seed := flag.Uint64("seed", 1, "seed")
	n := flag.Int("n", 100, "cases")
	out := flag.String("out", "", "output file")
	flag.Parse()
	if *dir == "" {
		panic("need -dir")
	}
	w := os.Stdout
	if *out != "" {
		f, err := os.Create(*out)
		if err != nil {
			panic(err)
		}
		defer f.Close()
		w = f
	}
	switch *mode {
	case "seq":
		modeSeq(*dir, *seed, *n, w)
	case "overlap":
		modeOverlap(*dir, *seed, *n, w)
	case "kill":
		modeKill(*dir, *seed, *n, w)
	case "child":
		modeChild(*dir, *seed)
	case "trace":
		modeTrace(*dir, *seed)
	}
}

(** Start timers under an unchanged definition (C06): a job has a pending start timer only if its pipeline's definition has
    a start delay; hence a request that is started immediately finds nobody waiting. On the abstract machine, then through
    the refinement. *)
From stdpp Require Import list.
From Coq Require Import ZArith Lia.
From PV Require Import Graph System Runner proofs.RunnerBase proofs.RunnerInv proofs.Refine proofs.SystemProps proofs.WorkProps.

(** the job list changes only by jobs keeping their pipeline and losing their timer *)
Definition tshrink (l l' : list rjob) : Prop :=
  ∀ id j', l' !! id = Some j' → ∃ j, l !! id = Some j ∧ r_pipe j' = r_pipe j ∧ (r_timer j' = true → r_timer j = true).

Lemma tshrink_refl l : tshrink l l.
Proof. intros id j' H. by exists j'. Qed.
Lemma tshrink_trans l1 l2 l3 : tshrink l1 l2 → tshrink l2 l3 → tshrink l1 l3.
Proof.
  intros H1 H2 id j3 H3. destruct (H2 id j3 H3) as (j2 & Hj2 & Hp2 & Ht2). destruct (H1 id j2 Hj2) as (j1 & Hj1 & Hp1 & Ht1).
  exists j1. split; [done|]. split; [congruence|auto].
Qed.

Lemma tshrink_alter l id f :
  (∀ j, r_pipe (f j) = r_pipe j ∧ (r_timer (f j) = true → r_timer j = true)) → tshrink l (alter f id l).
Proof.
  intros Hf id' j' Hl. destruct (decide (id = id')) as [<-|Hne].
  - rewrite list_lookup_alter in Hl. destruct (l !! id) as [j|] eqn:E; [|done]. injection Hl as <-. exists j. split; [done|]. apply Hf.
  - rewrite list_lookup_alter_ne in Hl by done. by exists j'.
Qed.

Definition TS (s s' : rstate) : Prop := rs_defs s' = rs_defs s ∧ tshrink (rs_jobs s) (rs_jobs s').

Lemma TS_refl s : TS s s. Proof. split; [done|apply tshrink_refl]. Qed.
Lemma TS_trans s1 s2 s3 : TS s1 s2 → TS s2 s3 → TS s1 s3.
Proof. intros [D1 T1] [D2 T2]. split; [congruence|by eapply tshrink_trans]. Qed.
Lemma TS_upd s id f : (∀ j, r_pipe (f j) = r_pipe j ∧ (r_timer (f j) = true → r_timer j = true)) → TS s (r_upd s id f).
Proof. intros Hf. split; [done|]. simpl. by apply tshrink_alter. Qed.
Lemma TS_set_wait s p l : TS s (r_set_wait s p l). Proof. split; [done|apply tshrink_refl]. Qed.

Lemma TS_try_start s id : TS s (r_try_start s id).1.
Proof.
  unfold r_try_start. destruct (r_find s id) as [j|]; [|apply TS_refl]. destruct (r_canceled j); [apply TS_refl|].
  destruct (r_gok j); simpl; apply TS_upd; intros j0; done.
Qed.

Lemma TS_dequeue_loop fuel s p : TS s (r_dequeue_loop fuel s p).
Proof.
  revert s. induction fuel as [|x fuel IH]; intros s; simpl; [apply TS_refl|].
  destruct (wl_get (rs_wait s) p) as [|h rest]; [apply TS_refl|]. destruct (rs_jobs s !! h) as [j|]; [|apply TS_refl].
  destruct (bool_decide _ && negb (r_timer j)); [|apply TS_refl].
  eapply TS_trans; [apply (TS_set_wait s p rest)|]. eapply TS_trans; [apply TS_try_start|apply IH].
Qed.
Lemma TS_dequeue s p : TS s (r_dequeue s p). Proof. apply TS_dequeue_loop. Qed.

Lemma TS_start_job s id p : TS s (r_start_job s id p).
Proof.
  unfold r_start_job. destruct (r_try_start s id) as [s' failed] eqn:E.
  assert (H : TS s s') by (replace s' with (r_try_start s id).1 by (by rewrite E); apply TS_try_start).
  destruct failed; [|done]. eapply TS_trans; [exact H|apply TS_dequeue].
Qed.

Lemma TS_cancel s id : TS s (r_cancel s id).1.
Proof.
  unfold r_cancel. destruct (r_find s id) as [j|]; [|apply TS_refl]. destruct (r_canceled j); [apply TS_refl|].
  destruct (r_completed j); [apply TS_refl|]. destruct (r_start j).
  - destruct (r_live j); [|apply TS_refl]. simpl. apply TS_upd. intros j0. done.
  - simpl. eapply TS_trans; [|apply TS_dequeue]. eapply TS_trans; [|apply TS_set_wait]. apply TS_upd. intros j0. done.
Qed.

Lemma TS_cancel_all_fold l s : TS s (fold_left (fun s id => fst (r_cancel s id)) l s).
Proof. revert s. induction l as [|x l IH]; intros s; simpl; [apply TS_refl|]. eapply TS_trans; [apply TS_cancel|apply IH]. Qed.

(** the invariant *)
Definition TQ (s : rstate) : Prop :=
  ∀ id j, rs_jobs s !! id = Some j → r_timer j = true → (0 < pd_delay (def_or_zero (rs_defs s) (r_pipe j)))%nat.

Lemma TQ_TS s s' : TS s s' → TQ s → TQ s'.
Proof.
  intros [Hd Ht] Hq id j' Hl Htm. destruct (Ht id j' Hl) as (j & Hj & Hp & Htj). rewrite Hd, Hp. apply (Hq id j Hj). by apply Htj.
Qed.

Lemma TQ_append s j : TQ s → (r_timer j = true → (0 < pd_delay (def_or_zero (rs_defs s) (r_pipe j)))%nat) → TQ (r_set_jobs s (rs_jobs s ++ [j])).
Proof.
  intros Hq Hj id j' Hl. simpl in Hl. apply lookup_app_Some in Hl as [Hl|[_ Hl]]; [by apply (Hq id)|].
  destruct (id - length (rs_jobs s))%nat; [|done]. simpl in Hl. injection Hl as <-. exact Hj.
Qed.

Lemma rstep_TQ s e s' r : TQ s → rstep s e = Some (s', r) → (∀ ds, e ≠ RvReload ds) → TQ s'.
Proof.
  intros Hq Hs Hnr. destruct e; simpl in Hs.
  - (* save *) injection Hs as <- _. intros id j'. simpl. rewrite list_lookup_imap. destruct (rs_jobs s !! id) as [j|] eqn:E; [|done]. simpl.
    intros [= <-]. destruct (in_ids id rm); [simpl; done|]. by apply (Hq id).
  - (* restart *) destruct (r_restart s js) as [s1|] eqn:E; [|done]. injection Hs as <- _. unfold r_restart in E.
    destruct (forallb _ js) eqn:Hall; [|done]. injection E as <-. intros id j Hl Ht. simpl in Hl. exfalso.
    rewrite forallb_forall in Hall. apply elem_of_list_lookup_2, elem_of_list_In in Hl. specialize (Hall _ Hl). unfold r_terminal in Hall.
    rewrite Ht in Hall. simpl in Hall. by rewrite !andb_false_r in Hall.
  - (* shutdown *) injection Hs as <- _. intros id j'. simpl. rewrite list_lookup_imap. destruct (rs_jobs s !! id) as [j|] eqn:E; [|done]. simpl.
    intros [= <-]. destruct (in_ids _ _); simpl; intros Ht; by apply (Hq id j).
  - (* cancel all *) injection Hs as <- _. eapply TQ_TS; [apply TS_cancel_all_fold|done].
  - (* schedule *) injection Hs as Heq. assert (s' = (r_schedule s p gok sn).1) as -> by (by rewrite Heq). clear Heq.
    unfold r_schedule. destruct (rs_shut s); [done|]. destruct (lookup_def (rs_defs s) p) as [d|] eqn:Hd; [|done].
    set (s1 := r_set_jobs s (rs_jobs s ++ [r_new_job s p d gok sn])).
    assert (H1 : TQ s1).
    { apply TQ_append; [done|]. simpl. intros Ht. unfold def_or_zero. rewrite Hd. by apply Nat.ltb_lt. }
    assert (Hrep : TQ (match last (wl_get (rs_wait s1) p) with
                       | Some prev => (r_set_wait (r_upd s1 prev r_cancel_notimer) p (removelast (wl_get (rs_wait s1) p) ++ [length (rs_jobs s)]), RJob (length (rs_jobs s)))
                       | None => (s1, RJob (length (rs_jobs s))) end).1).
    { destruct (last _); [|done]. cbn [fst]. eapply TQ_TS; [|exact H1]. eapply TS_trans; [|apply TS_set_wait]. apply TS_upd. intros j0. done. }
    assert (Hq1 : TQ (r_set_wait s1 p (wl_get (rs_wait s1) p ++ [length (rs_jobs s)]))) by (eapply TQ_TS; [|exact H1]; apply TS_set_wait).
    assert (Hst : TQ (r_start_job s1 (length (rs_jobs s)) p)) by (eapply TQ_TS; [apply TS_start_job|done]).
    destruct (r_resolve_action s p false); cbn [fst]; done.
  - (* cancel *) injection Hs as Heq. assert (s' = (r_cancel s id).1) as -> by (by rewrite Heq). eapply TQ_TS; [apply TS_cancel|done].
  - (* tick *) injection Hs as <- _. done.
  - (* fire *) destruct (r_fire s id) as [s1|] eqn:E; [|done]. injection Hs as <- _. unfold r_fire in E.
    destruct (rs_jobs s !! id) as [j|]; [|done]. destruct (r_timer_due s j); [|done].
    assert (H1 : TS s (r_upd s id r_clear_timer)) by (apply TS_upd; intros j0; done).
    destruct (r_find s id); [|injection E as <-; by eapply TQ_TS]. destruct (r_canceled j); injection E as <-; [by eapply TQ_TS|].
    eapply TQ_TS; [|exact Hq]. eapply TS_trans; [exact H1|apply TS_dequeue].
  - (* reload *) exfalso. by apply (Hnr ds).
  - (* complete *) destruct (r_complete s id ecanceled) as [s1|] eqn:E; [|done]. injection Hs as <- _. unfold r_complete in E.
    destruct (rs_jobs s !! id) as [j|]; [|done]. destruct (r_live j); [|done].
    assert (H1 : TS s (r_upd s id (r_complete_job (rs_now s) ecanceled))) by (apply TS_upd; intros j0; done).
    destruct (r_removed j); injection E as <-; [by eapply TQ_TS|]. eapply TQ_TS; [|exact Hq]. eapply TS_trans; [exact H1|apply TS_dequeue].
Qed.

(** through the refinement *)
Lemma sys_step_TQ s e s' r : reach s → TQ (abs s) → step s e = Some (s', r) → no_reload e → TQ (abs s').
Proof.
  intros Hr Hq Hs Hnr. pose proof (reach_inv _ Hr) as Hinv.
  destruct (refine_step s e s' r Hinv (reach_store_ok _ Hr) Hs) as [[Ha _]|(re & Hre & Hrel & _)]; [by rewrite Ha|].
  eapply rstep_TQ; [exact Hq|exact Hre|]. intros ds ->. by apply (Hnr ds), Hrel.
Qed.

Lemma sys_exec_TQ s evs : reach s → TQ (abs s) → Forall no_reload evs → TQ (abs (exec s evs)).
Proof.
  revert s. induction evs as [|e evs IH]; intros s Hr Hb Hnr; simpl; [done|].
  inversion Hnr as [|? ? He Hevs]; subst.
  destruct (step s e) as [[s' r]|] eqn:Hs; [|by apply IH].
  apply IH; [by eapply reach_step|by eapply sys_step_TQ|done].
Qed.

Lemma resolve_start s p b :
  resolve_action s p b = AStart →
  Nat.leb (pd_conc (def_or_zero (st_defs s) p)) (running_count s p) || (Nat.ltb 0 (pd_delay (def_or_zero (st_defs s) p)) && negb b) = false.
Proof.
  unfold resolve_action. destruct (_ || _); [|done].
  destruct (pd_qlimit _) as [[|n]|]; try done; destruct (pd_replace _ && _); try done; destruct (Nat.leb _ _); done.
Qed.

(** C06: under an unchanged definition a request that is started at once (the decision is "start") finds nobody waiting *)
Theorem immediate_start_only_when_nobody_waits ds evs p :
  Forall no_reload evs → let s := exec (init ds) evs in
  st_shut s = false → resolve_action s p false = AStart → wl_get (st_wait s) p = [].
Proof.
  intros Hnr s Hsh Hact.
  destruct (wl_get (st_wait s) p) as [|h rest] eqn:Hwl; [done|]. exfalso.
  pose proof (reach_exec (init ds) evs (reach_init ds)) as Hr. fold s in Hr.
  pose proof (reach_inv s Hr) as Hinv.
  destruct (inv_wl _ _ Hinv p h) as (rj & Hrj & Hp & _); [simpl; rewrite Hwl; left|].
  simpl in Hrj. rewrite list_lookup_fmap in Hrj. destruct (st_jobs s !! h) as [j|] eqn:Hj; [|done]. simpl in Hrj. injection Hrj as <-. simpl in Hp.
  assert (Hq : TQ (abs s)).
  { apply sys_exec_TQ; [apply reach_init| |done]. intros id j0 H. simpl in H. by destruct id. }
  pose proof (sys_exec_defs (init ds) evs (reach_init ds) Hnr) as Hdefs. fold s in Hdefs. change (st_defs (init ds)) with ds in Hdefs.
  apply resolve_start in Hact. apply orb_false_iff in Hact as [Hc Hdl]. simpl in Hdl. rewrite andb_true_r in Hdl.
  destruct (j_timer j) eqn:Ht.
  - (* a pending timer: the pipeline has a start delay, so the request would not be started at once *)
    assert (Hd : (0 < pd_delay (def_or_zero (st_defs s) p))%nat).
    { specialize (Hq h (abs_job j)). simpl in Hq. rewrite list_lookup_fmap, Hj in Hq. specialize (Hq eq_refl Ht). by rewrite Hp in Hq. }
    apply Nat.ltb_lt in Hd. congruence.
  - (* no timer: work conservation says every slot is taken *)
    pose proof (sys_work_conserving ds evs p h rest j Hnr Hsh Hwl Hj Ht) as Hwc. fold s in Hwc. rewrite <- Hdefs in Hwc.
    apply Nat.leb_le in Hwc. congruence.
Qed.

(** Retention (C12), restart from the store (C10), shutdown (C11): properties of the system model *)
From stdpp Require Import list.
From Coq Require Import ZArith Lia.
From PV Require Import Runner proofs.RunnerBase proofs.RunnerInv proofs.RunnerProps proofs.Refine proofs.SystemProps.
Local Open Scope Z_scope.

(** ** indexed lists *)
Fixpoint ipairs {A} (k : nat) (l : list A) : list (nat * A) :=
  match l with [] => [] | x :: l => (k, x) :: ipairs (S k) l end.

Lemma imap_ipairs {A} (l : list A) k : imap (fun i j => ((k + i)%nat, j)) l = ipairs k l.
Proof.
  revert k. induction l as [|x l IH]; intros k; simpl; [done|]. rewrite Nat.add_0_r. f_equal.
  rewrite <- IH. apply imap_ext. intros i y _. simpl. f_equal. lia.
Qed.

Lemma imap_pair_ipairs {A} (l : list A) : imap (fun i j => (i, j)) l = ipairs 0 l.
Proof. rewrite <- imap_ipairs. by apply imap_ext. Qed.

Lemma ipairs_ge {A} (l : list A) k i x : (i, x) ∈ ipairs k l → (k <= i)%nat.
Proof.
  revert k. induction l as [|y l IH]; intros k; simpl; [by intros ?%elem_of_nil|].
  intros [[= -> ->]|Hin]%elem_of_cons; [lia|]. specialize (IH _ Hin). lia.
Qed.

Lemma ipairs_lookup {A} (l : list A) k i x : (i, x) ∈ ipairs k l ↔ (k <= i)%nat ∧ l !! (i - k)%nat = Some x.
Proof.
  revert k. induction l as [|y l IH]; intros k; simpl.
  - split; [by intros ?%elem_of_nil|by intros [_ ?]].
  - rewrite elem_of_cons, IH. split.
    + intros [[= -> ->]|[Hle Hl]]; [split; [lia|by rewrite Nat.sub_diag]|].
      split; [lia|]. replace (i - k)%nat with (S (i - S k)) by lia. done.
    + intros [Hle Hl]. destruct (decide (i = k)) as [->|Hne].
      * left. rewrite Nat.sub_diag in Hl. by injection Hl as ->.
      * right. split; [lia|]. replace (i - k)%nat with (S (i - S k)) in Hl by lia. done.
Qed.

(** the counting argument of retention_count: if only items with fewer than [n] newer P-items are kept, at most [n]
    are kept *)
Lemma count_kept_le {A} (P K : nat → A → bool) (n : nat) (l : list A) k :
  (∀ i x, (i, x) ∈ ipairs k l → K i x = true →
          P i x = true ∧ (length (List.filter (fun iy => P iy.1 iy.2 && (i <? iy.1)%nat) (ipairs k l)) < n)%nat) →
  (length (List.filter (fun ix => K ix.1 ix.2) (ipairs k l)) <= Nat.min n (length (List.filter (fun ix => P ix.1 ix.2) (ipairs k l))))%nat.
Proof.
  revert k. induction l as [|x l IH]; intros k H; simpl; [lia|].
  assert (Htail : ∀ i y, (i, y) ∈ ipairs (S k) l →
     length (List.filter (fun iy => P iy.1 iy.2 && (i <? iy.1)%nat) (ipairs k (x :: l)))
     = length (List.filter (fun iy => P iy.1 iy.2 && (i <? iy.1)%nat) (ipairs (S k) l))).
  { intros i y Hin. simpl. apply ipairs_ge in Hin. destruct (Nat.ltb_spec i k); [lia|]. by rewrite andb_false_r. }
  assert (IH' := IH (S k)). 
  assert (Hrec : (length (List.filter (fun ix => K ix.1 ix.2) (ipairs (S k) l))
                  <= Nat.min n (length (List.filter (fun ix => P ix.1 ix.2) (ipairs (S k) l))))%nat).
  { apply IH'. intros i y Hin HK. destruct (H i y) as [HP Hr]; [simpl; by right|done|]. split; [done|].
    by rewrite <- (Htail i y Hin). }
  assert (Hhead : length (List.filter (fun iy => P iy.1 iy.2 && (k <? iy.1)%nat) (ipairs (S k) l))
                  = length (List.filter (fun ix => P ix.1 ix.2) (ipairs (S k) l))).
  { f_equal. apply filter_ext_in. intros [i y] Hin. simpl. apply elem_of_list_In, ipairs_ge in Hin.
    destruct (Nat.ltb_spec k i); [by rewrite andb_true_r|lia]. }
  destruct (K k x) eqn:HK; simpl.
  - destruct (H k x) as [HP Hr]; [simpl; by left|done|]. simpl in Hr. rewrite Nat.ltb_irrefl, andb_false_r in Hr.
    rewrite Hhead in Hr. rewrite HP. simpl. lia.
  - destruct (P k x); simpl; lia.
Qed.

(** ** C12: what a save removes *)
Lemma rmids_spec s id :
  id ∈ rmids s ↔ ∃ j, get_job s id = Some j ∧ j_removed j = false ∧ should_remove s id j = true.
Proof.
  unfold rmids. rewrite elem_of_list_fmap. split.
  - intros ([i j] & -> & Hin). apply elem_of_list_In, filter_In in Hin as [Hin Hp]. simpl in *.
    apply elem_of_list_In, elem_of_lookup_imap in Hin as (i' & j' & [= <- <-] & Hj).
    apply andb_true_iff in Hp as [Hr Hs]. apply negb_true_iff in Hr. eauto.
  - intros (j & Hj & Hr & Hs). exists (id, j). split; [done|]. apply elem_of_list_In, filter_In. split.
    + apply elem_of_list_In, elem_of_lookup_imap. eauto.
    + simpl. by rewrite Hr, Hs.
Qed.

Lemma in_rmids s id : existsb (Nat.eqb id) (rmids s) = true ↔ id ∈ rmids s.
Proof. apply in_ids_spec. Qed.

Lemma save_get_job s id :
  get_job (do_save s) id = (fun j => if existsb (Nat.eqb id) (rmids s) then remove_job j else j) <$> get_job s id.
Proof. unfold do_save, get_job. simpl. rewrite list_lookup_imap. done. Qed.

(** a job is reported after the save iff it was reported before and the retention decision keeps it *)
Lemma save_keeps_iff s id j :
  get_job s id = Some j → j_removed j = false →
  (∃ j', get_job (do_save s) id = Some j' ∧ j_removed j' = false) ↔ should_remove s id j = false.
Proof.
  intros Hj Hr. rewrite save_get_job, Hj. simpl. destruct (existsb _ _) eqn:E.
  - apply in_rmids, rmids_spec in E as (j0 & Hj0 & _ & Hs). rewrite Hj in Hj0. injection Hj0 as <-.
    split; [intros (j' & [= <-] & Hr'); done|congruence].
  - split; [|eauto]. intros _. destruct (should_remove s id j) eqn:Hs; [|done].
    assert (Hin : id ∈ rmids s) by (apply rmids_spec; eauto). apply in_rmids in Hin. congruence.
Qed.

Definition finished (j : job) : bool := negb (is_waiting j) && (j_completed j || j_canceled j).

(** for a pipeline that is still defined a save never removes a waiting or running job *)
Lemma save_keeps_unfinished s id j d :
  lookup_def (st_defs s) (j_pipe j) = Some d → is_waiting j || is_running j = true → should_remove s id j = false.
Proof.
  intros Hd Hu. unfold should_remove. rewrite Hd. destruct (is_waiting j) eqn:Hw; [done|]. simpl in Hu.
  unfold is_running in Hu. destruct (j_start j); [|done]. by rewrite Hu.
Qed.

(** without retention settings nothing is removed *)
Lemma save_no_settings s id j d :
  lookup_def (st_defs s) (j_pipe j) = Some d → pd_retp d = 0 → pd_retc d = 0%nat → should_remove s id j = false.
Proof.
  intros Hd Hp Hc. unfold should_remove. rewrite Hd, Hp, Hc. simpl.
  destruct (is_waiting j); [done|]. by destruct (negb (j_completed j) && negb (j_canceled j)).
Qed.

(** jobs of pipelines that are no longer defined are purged, once they do not run any more *)
Lemma save_purges_undefined s id j :
  lookup_def (st_defs s) (j_pipe j) = None → should_remove s id j = negb (is_running j).
Proof. intros Hd. unfold should_remove. by rewrite Hd. Qed.

(** no finished job older than the retention period is kept *)
Lemma save_period s id j d :
  lookup_def (st_defs s) (j_pipe j) = Some d → finished j = true → 0 < pd_retp d → should_remove s id j = false →
  age j <= pd_retp d.
Proof.
  intros Hd Hf Hp. unfold should_remove, finished in *. rewrite Hd.
  apply andb_true_iff in Hf as [Hw Hf]. apply negb_true_iff in Hw. rewrite Hw.
  assert (Hn : negb (j_completed j) && negb (j_canceled j) = false) by (destruct (j_completed j), (j_canceled j); done).
  rewrite Hn. intros Hs. apply orb_false_iff in Hs as [Hs _]. apply andb_false_iff in Hs as [Hs|Hs].
  - apply Z.ltb_ge in Hs. lia.
  - by apply Z.ltb_ge in Hs.
Qed.

(** a kept finished job has fewer than retention_count newer jobs in its pipeline *)
Lemma save_rank s id j d :
  lookup_def (st_defs s) (j_pipe j) = Some d → finished j = true → (0 < pd_retc d)%nat → should_remove s id j = false →
  (rank s id j < pd_retc d)%nat.
Proof.
  intros Hd Hf Hp. unfold should_remove, finished in *. rewrite Hd.
  apply andb_true_iff in Hf as [Hw Hf]. apply negb_true_iff in Hw. rewrite Hw.
  assert (Hn : negb (j_completed j) && negb (j_canceled j) = false) by (destruct (j_completed j), (j_canceled j); done).
  rewrite Hn. intros Hs. apply orb_false_iff in Hs as [_ Hs]. apply andb_false_iff in Hs as [Hs|Hs].
  - apply Nat.ltb_ge in Hs. lia.
  - by apply Nat.leb_gt in Hs.
Qed.

(** hence at most retention_count finished jobs of a pipeline survive a save *)
Definition kept_finished (s : state) (p : name) : list (nat * job) :=
  List.filter (fun ij => Nat.eqb (j_pipe ij.2) p && negb (j_removed ij.2) && finished ij.2 && negb (should_remove s ij.1 ij.2))
              (imap (fun i j => (i, j)) (st_jobs s)).

Lemma save_count_bound s p d :
  lookup_def (st_defs s) p = Some d → (0 < pd_retc d)%nat → (length (kept_finished s p) <= pd_retc d)%nat.
Proof.
  intros Hd Hc. unfold kept_finished. rewrite imap_pair_ipairs.
  pose proof (count_kept_le (fun i j => Nat.eqb (j_pipe j) p && negb (j_removed j))
                (fun i j => Nat.eqb (j_pipe j) p && negb (j_removed j) && finished j && negb (should_remove s i j))
                (pd_retc d) (st_jobs s) 0) as H.
  etrans; [apply H|lia]. clear H.
  intros i j Hin HK. apply andb_true_iff in HK as [HK Hs]. apply andb_true_iff in HK as [HK Hf]. split; [done|].
  apply andb_true_iff in HK as [Hp Hr]. apply Nat.eqb_eq in Hp. apply negb_true_iff in Hs.
  assert (Hrank := save_rank s i j d ltac:(by rewrite Hp) Hf Hc Hs).
  unfold rank in Hrank. rewrite imap_pair_ipairs in Hrank. rewrite Hp in Hrank.
  erewrite filter_ext; [exact Hrank|]. intros [i' j']. simpl. done.
Qed.

(** after a save: what is reported = what is in the store; the logs of the removed jobs are gone, the others untouched *)
Lemma save_views_agree s :
  st_store (do_save s) = Some (omap (fun ij => if j_removed ij.2 then None else Some (to_pjob ij.1 ij.2))
                                    (imap (fun i j => (i, j)) (st_jobs (do_save s))))
  ∧ st_logs (do_save s) = List.filter (fun i => negb (existsb (Nat.eqb i) (rmids s))) (st_logs s).
Proof. done. Qed.

Lemma save_store_ids s id :
  (∃ pj, pj ∈ default [] (st_store (do_save s)) ∧ pj_id pj = id)
  ↔ (∃ j, get_job (do_save s) id = Some j ∧ j_removed j = false).
Proof.
  destruct (save_views_agree s) as [-> _]. simpl. split.
  - intros (pj & Hin & Hid). apply elem_of_list_omap in Hin as ([i j] & Hin & Hs). simpl in Hs.
    destruct (j_removed j) eqn:Hr; [done|]. injection Hs as <-. simpl in Hid. subst i.
    apply elem_of_lookup_imap in Hin as (i' & j' & [= <- <-] & Hj). eauto.
  - intros (j & Hj & Hr). exists (to_pjob id j). split; [|done]. apply elem_of_list_omap. exists (id, j). split.
    + apply elem_of_lookup_imap. eauto.
    + simpl. by rewrite Hr.
Qed.

(** ** C10: restart from the store *)
Definition restored (s : state) (id : nat) (j : job) : job :=
  match find (fun pj => Nat.eqb (pj_id pj) id) (default [] (st_store s)) with
  | Some pj => from_pjob pj
  | None => tombstone j
  end.

Lemma restart_get_job s s' id : do_restart s = Some s' → get_job s' id = restored s id <$> get_job s id.
Proof.
  unfold do_restart. destruct (st_shutg s); [done|]. destruct (all_quiet s); [|done]. intros [= <-].
  unfold get_job. simpl. by rewrite list_lookup_imap.
Qed.

Lemma from_pjob_terminal_job pj :
  let j := from_pjob pj in is_running j = false ∧ is_waiting j = false ∧ j_sched j = None ∧ j_cancels j = 0%nat ∧ j_timer j = false.
Proof.
  unfold from_pjob, is_running, is_waiting. simpl. destruct (pj_start pj); simpl.
  - repeat split; try done. by destruct (pj_completed pj), (pj_canceled pj).
  - rewrite orb_true_r. done.
Qed.

(** every job is terminal after a restart, nothing waits, nothing runs *)
Lemma restart_all_terminal s s' id j :
  do_restart s = Some s' → get_job s' id = Some j → j_removed j = false →
  is_running j = false ∧ is_waiting j = false ∧ j_sched j = None ∧ j_cancels j = 0%nat ∧ j_timer j = false.
Proof.
  intros Hr. rewrite (restart_get_job s s' id Hr). destruct (get_job s id) as [j0|]; [|done]. simpl. intros [= <-].
  unfold restored. destruct (find _ _) as [pj|]; [intros _; apply from_pjob_terminal_job|done].
Qed.

Lemma restart_state s s' : do_restart s = Some s' → st_wait s' = [] ∧ st_shut s' = false ∧ st_defs s' = st_defs s ∧ st_store s' = st_store s.
Proof. unfold do_restart. destruct (st_shutg s); [done|]. destruct (all_quiet s); [|done]. by intros [= <-]. Qed.

Lemma restart_nothing_running s s' p : do_restart s = Some s' → running_count s' p = 0%nat.
Proof.
  intros Hr. unfold running_count.
  assert (H : ∀ j, j ∈ st_jobs s' → Nat.eqb (j_pipe j) p && negb (j_removed j) && is_running j = false).
  { intros j [id Hid]%elem_of_list_lookup. destruct (j_removed j) eqn:Hrm; [by rewrite andb_false_r|].
    destruct (restart_all_terminal s s' id j Hr Hid Hrm) as (-> & _). by rewrite andb_false_r. }
  induction (st_jobs s') as [|j l IH]; simpl; [done|]. rewrite H; [|by left]. apply IH. intros j0 Hj0. apply H. by right.
Qed.

(** no capacity is held by ghosts: every validly defined pipeline is schedulable and not running *)
Lemma restart_pipelines_free s s' p d :
  do_restart s = Some s' → lookup_def (st_defs s) p = Some d → (1 <= pd_conc d)%nat →
  ¬ ((0 < pd_delay d)%nat ∧ pd_qlimit d = Some 0%nat) →
  schedulable s' p = true ∧ pipeline_running s' p = false.
Proof.
  intros Hr Hd Hc Hq. destruct (restart_state s s' Hr) as (Hw & _ & Hds & _).
  unfold schedulable, pipeline_running, resolve_action. rewrite (restart_nothing_running s s' p Hr), Hw, Hds.
  unfold def_or_zero. rewrite Hd. simpl. split; [|done].
  destruct (Nat.leb_spec (pd_conc d) 0); [lia|]. simpl.
  destruct (Nat.ltb_spec 0 (pd_delay d)); simpl; [|done].
  destruct (pd_qlimit d) as [[|n]|]; [exfalso; by apply Hq| |]; by rewrite andb_false_r.
Qed.

(** no job is lost or duplicated: the reported jobs are exactly the stored ones (job ids are list positions) *)
Lemma restart_no_loss s s' id :
  do_restart s = Some s' → (id < length (st_jobs s))%nat →
  (∃ j, get_job s' id = Some j ∧ j_removed j = false) ↔ (∃ pj, pj ∈ default [] (st_store s) ∧ pj_id pj = id).
Proof.
  intros Hr Hlt. rewrite (restart_get_job s s' id Hr). apply lookup_lt_is_Some in Hlt as [j0 Hj0].
  unfold get_job. rewrite Hj0. simpl. unfold restored. split.
  - intros (j & [= <-] & Hrm). destruct (find _ _) as [pj|] eqn:Hf; [|done].
    apply find_some in Hf as [Hin Hid]. apply Nat.eqb_eq in Hid. exists pj. split; [by apply elem_of_list_In|done].
  - intros (pj & Hin & Hid). destruct (find _ _) as [pj'|] eqn:Hf.
    + eexists. split; [done|]. done.
    + exfalso. apply elem_of_list_In in Hin. apply (find_none _ _ Hf) in Hin. apply Nat.eqb_neq in Hin. done.
Qed.

(** what the API reports about a job (server.jobToResult) *)
Definition reported_task (t : jtask) :=
  (jt_name t, td_deps (jt_def t), jt_status t, jt_start t, jt_end t, jt_skipped t, jt_exit t, jt_errored t, jt_err t).
Definition reported (j : job) :=
  (j_pipe j, j_completed j, j_canceled j, j_created j, j_start j, j_end j, j_vars j, j_user j, j_lasterr j, map reported_task (j_tasks j)).

(** a finished job comes back from the store exactly as it was reported: flags, times, tasks with results and errors,
    variables, user, last error *)
Lemma restart_faithful id j : finished j = true → reported (from_pjob (to_pjob id j)) = reported j.
Proof.
  intros Hf. unfold finished, is_waiting in Hf. unfold reported, from_pjob, to_pjob. simpl.
  assert (Hrun : match j_start j with Some _ => negb (j_completed j) && negb (j_canceled j) | None => false end = false).
  { destruct (j_start j); [|done]. apply andb_true_iff in Hf as [_ Hf]. by destruct (j_completed j), (j_canceled j). }
  rewrite Hrun. rewrite orb_false_r.
  assert (Hcan : j_canceled j || match j_start j with Some _ => false | None => true end = j_canceled j).
  { destruct (j_start j); [by rewrite orb_false_r|]. apply andb_true_iff in Hf as [Hw _]. apply negb_true_iff, negb_false_iff in Hw.
    by rewrite Hw. }
  rewrite Hcan. f_equal. rewrite !map_map. apply map_ext. intros t. done.
Qed.

(** jobs that were running or waiting come back canceled *)
Lemma restart_unfinished_canceled id j : finished j = false → j_canceled (from_pjob (to_pjob id j)) = true.
Proof.
  unfold finished, is_waiting, from_pjob, to_pjob. simpl. destruct (j_start j); simpl.
  - rewrite orb_false_r. destruct (j_completed j), (j_canceled j); done.
  - intros _. by rewrite orb_true_r.
Qed.

(** ** C11: shutdown *)
Lemma shutdown_no_admission s p v u : st_shut s = true → do_schedule s p v u = (s, RErrShutdown).
Proof. intros H. unfold do_schedule. by rewrite H. Qed.

(** the first step of a shutdown marks the waiting jobs canceled and touches nothing else: running jobs are left alone *)
Lemma shutdown_begin_effect s s' id j :
  reach s → do_shutdown_begin s = Some s' → get_job s id = Some j →
  get_job s' id = Some (if existsb (Nat.eqb id) (wl_get (st_wait s) (j_pipe j)) then set_canceled j else j)
  ∧ (is_waiting j = false → get_job s' id = Some j)
  ∧ st_shut s' = true ∧ st_wait s' = [].
Proof.
  intros Hr. unfold do_shutdown_begin. destruct (st_shutg s); [done|]. destruct (st_shut s); [done|]. intros [= <-] Hj.
  unfold get_job in *. simpl. rewrite list_lookup_imap, Hj. simpl. split; [done|]. split; [|done].
  intros Hw. destruct (existsb _ _) eqn:E; [|done]. exfalso. apply in_ids_spec in E.
  destruct (inv_wl _ _ (reach_inv _ Hr) _ _ E) as (rj & Hrj & _ & Hw' & _).
  rewrite abs_lookup, Hj in Hrj. injection Hrj as <-. unfold r_is_waiting in Hw'. simpl in Hw'. unfold is_waiting in Hw. congruence.
Qed.

(** when Shutdown returns no job is running or waiting, and the store holds exactly what is reported *)
Lemma shutdown_return_terminal s s' id j :
  reach s → do_shutdown_return s = Some s' → get_job s' id = Some j → j_removed j = false →
  is_running j = false ∧ is_waiting j = false ∧ j_sched j = None.
Proof.
  intros Hr. pose proof (reach_shutg_ok _ Hr) as Hshut. unfold shutg_ok in Hshut.
  unfold do_shutdown_return. destruct (st_shutg s) as [f|]; [|done]. specialize (Hshut ltac:(eauto)).
  destruct (_ && all_quiet s) eqn:Hen; [|done]. apply andb_true_iff in Hen as [_ Hq]. intros [= <-].
  change (get_job _ id) with (get_job (do_save s) id). rewrite save_get_job.
  destruct (get_job s id) as [j0|] eqn:Hj0; [|done]. simpl. intros [= <-].
  assert (Hsched : j_sched j0 = None).
  { unfold all_quiet in Hq. rewrite forallb_forall in Hq. specialize (Hq j0).
    unfold get_job in Hj0. apply elem_of_list_lookup_2, elem_of_list_In in Hj0. specialize (Hq Hj0). by destruct (j_sched j0). }
  pose proof (reach_inv _ Hr) as Hinv.
  assert (Hrj : rs_jobs (abs s) !! id = Some (abs_job j0)) by (unfold get_job in Hj0; by rewrite abs_lookup, Hj0).
  destruct (existsb _ _); simpl; [done|]. intros Hrm. split; [|split; [|done]].
  - destruct (is_running j0) eqn:E; [|done]. pose proof (inv_run _ _ Hinv id (abs_job j0) Hrj E) as Hl. simpl in Hl. by rewrite Hsched in Hl.
  - apply (inv_shutw _ _ Hinv Hshut id (abs_job j0) Hrj Hrm).
Qed.

(** when Shutdown returns, the store holds exactly the final state of the reported jobs *)
Lemma shutdown_return_store s s' :
  do_shutdown_return s = Some s' →
  st_store s' = Some (omap (fun ij => if j_removed ij.2 then None else Some (to_pjob ij.1 ij.2)) (imap (fun i j => (i, j)) (st_jobs s')))
  ∧ st_shutg s' = None ∧ st_shut s' = st_shut s.
Proof.
  unfold do_shutdown_return. destruct (st_shutg s) as [f|]; [|done]. destruct (_ && _); [|done]. intros [= <-]. done.
Qed.

(** a forced shutdown leaves no running job without a cancel request (which makes it end canceled, C04) *)
Lemma shutdown_force_requests s s' id j :
  reach s → do_shutdown_force s = Some s' → get_job s' id = Some j → j_removed j = false → is_running j = true →
  j_cancel_req j = true.
Proof.
  intros Hr Hf Hj Hrm Hrun. pose proof (abs_shutdown_force s s' Hf) as Ha.
  assert (Hrj : rs_jobs (r_cancel_all (abs s)) !! id = Some (abs_job j)).
  { rewrite <- Ha, abs_lookup. unfold get_job in Hj. by rewrite Hj. }
  destruct (cancel_all_done (abs s) id (abs_job j) (reach_inv _ Hr) Hrj) as [H|[H|[H|H]]]; simpl in H; try done; try congruence.
  - unfold is_running in Hrun. destruct (j_start j); [|done]. rewrite H in Hrun. by rewrite andb_false_r in Hrun.
  - unfold is_running in Hrun. destruct (j_start j); [|done]. by rewrite H in Hrun.
Qed.

(** the deadline of Shutdown matters as long as ANY job runs — also a job whose pipeline a reload has removed from the
    definitions (the poll of Shutdown ranges over jobsByPipeline, not over the defined pipelines; seeded change C11-I) *)
Lemma shutdown_force_enabled s id j :
  st_shutg s = Some false → get_job s id = Some j → j_removed j = false → is_running j = true →
  ∃ s', do_shutdown_force s = Some s'.
Proof.
  intros Hg Hj Hrm Hrun. unfold do_shutdown_force. rewrite Hg.
  assert (Ha : any_running s = true).
  { unfold any_running. apply existsb_exists. exists j. split.
    - apply elem_of_list_In. unfold get_job in Hj. by eapply elem_of_list_lookup_2.
    - by rewrite Hrm, Hrun. }
  rewrite Ha. eauto.
Qed.

(** and while a job runs an unforced Shutdown cannot return *)
Lemma shutdown_no_return_while_running s id j :
  st_shutg s = Some false → get_job s id = Some j → j_removed j = false → is_running j = true →
  do_shutdown_return s = None.
Proof.
  intros Hg Hj Hrm Hrun. unfold do_shutdown_return. rewrite Hg.
  assert (Ha : any_running s = true).
  { unfold any_running. apply existsb_exists. exists j. split.
    - apply elem_of_list_In. unfold get_job in Hj. by eapply elem_of_list_lookup_2.
    - by rewrite Hrm, Hrun. }
  rewrite Ha. done.
Qed.

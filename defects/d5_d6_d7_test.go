package prunner

// Demonstrations of defects D5, D6, D7 (see /verif/DESIGN.md section 5). Copy into /repo as zz_defects_test.go to run
// (D7 needs -race): go test -race -vet=off -count=1 -run 'TestDefect' .

import (
	"context"
	"sync"
	"testing"
	"time"

	"github.com/stretchr/testify/assert"
	"github.com/stretchr/testify/require"
	"github.com/taskctl/taskctl/pkg/task"

	"github.com/Flowpack/prunner/definition"
	"github.com/Flowpack/prunner/store"
	"github.com/Flowpack/prunner/taskctl"
	"github.com/Flowpack/prunner/test"
)

func defectDefs() *definition.PipelinesDef {
	return &definition.PipelinesDef{Pipelines: map[string]definition.PipelineDef{
		"p": {Concurrency: 1, RetentionCount: 1, Tasks: map[string]definition.TaskDef{"a": {Script: []string{"x"}}}, SourcePath: "f"},
	}}
}

func TestDefectD5_FloatVariablesTruncatedByStore(t *testing.T) {
	dir := t.TempDir()
	st, err := store.NewJSONDataStore(dir)
	require.NoError(t, err)
	r, err := NewPipelineRunner(context.Background(), defectDefs(), func(j *PipelineJob) taskctl.Runner {
		return &test.MockRunner{}
	}, st, test.NewMockOutputStore())
	require.NoError(t, err)
	vars := map[string]interface{}{"tiny": 1e-9, "precise": 0.1234567891, "big": 12345678.9012}
	j, err := r.ScheduleAsync("p", ScheduleOpts{Variables: vars})
	require.NoError(t, err)
	waitForCompletedJob(t, r, j.ID)
	r.SaveToStore()
	r2, err := NewPipelineRunner(context.Background(), defectDefs(), nil, st, test.NewMockOutputStore())
	require.NoError(t, err)
	var got map[string]interface{}
	require.NoError(t, r2.ReadJob(j.ID, func(j *PipelineJob) { got = j.Variables }))
	assert.Equal(t, vars, got)
}

func TestDefectD6_JobLastErrorNotPersisted(t *testing.T) {
	dir := t.TempDir()
	st, err := store.NewJSONDataStore(dir)
	require.NoError(t, err)
	r, err := NewPipelineRunner(context.Background(), defectDefs(), func(j *PipelineJob) taskctl.Runner {
		return &test.MockRunner{OnRun: func(tk *task.Task) error {
			tk.Errored = true
			tk.Error = assert.AnError
			return tk.Error
		}}
	}, st, test.NewMockOutputStore())
	require.NoError(t, err)
	j, err := r.ScheduleAsync("p", ScheduleOpts{})
	require.NoError(t, err)
	waitForCompletedJob(t, r, j.ID)
	require.NotNil(t, j.LastError)
	r.SaveToStore()
	r2, err := NewPipelineRunner(context.Background(), defectDefs(), nil, st, test.NewMockOutputStore())
	require.NoError(t, err)
	var got error
	require.NoError(t, r2.ReadJob(j.ID, func(j *PipelineJob) { got = j.LastError }))
	if assert.NotNil(t, got, "last error of the job must survive a restart") {
		assert.Equal(t, j.LastError.Error(), got.Error())
	}
}

func TestDefectD7_SaveWithRetentionRacesWithReaders(t *testing.T) {
	r, err := NewPipelineRunner(context.Background(), defectDefs(), func(j *PipelineJob) taskctl.Runner {
		return &test.MockRunner{}
	}, test.NewMockStore(), test.NewMockOutputStore())
	require.NoError(t, err)
	var wg sync.WaitGroup
	stop := make(chan struct{})
	wg.Add(1)
	go func() {
		defer wg.Done()
		for {
			select {
			case <-stop:
				return
			default:
				r.IterateJobs(func(j *PipelineJob) {})
				_ = r.ListPipelines()
			}
		}
	}()
	for i := 0; i < 30; i++ {
		j, err := r.ScheduleAsync("p", ScheduleOpts{})
		require.NoError(t, err)
		waitForCompletedJob(t, r, j.ID)
		r.SaveToStore()
	}
	close(stop)
	wg.Wait()
	time.Sleep(10 * time.Millisecond)
}

// defsrun: correspondence driver for property C17 (definition loader, validation, Equals).
//
// Generates definition file sets (valid ones, and single-field corruptions of them), writes them as YAML files into a
// scratch directory tree, loads them with the real definition.LoadRecursively and prints one JSON line per case with
// the input as written and the observed result. A second stream exercises Equals on pairs of definitions that differ in
// exactly one field, the fields being enumerated by reflection over PipelineDef / TaskDef.
//
// usage: defsrun -seed N -n CASES -out FILE -dir SCRATCH [-replay CASEFILE]
package main

import (
	"flag"
	"fmt"
	"os"
	"path/filepath"
	"reflect"
	"sort"
	"strings"
	"time"

	"github.com/Flowpack/prunner/definition"

	"verifharness/hutil"
)

// ---- generated input (what is written to YAML) ----

type RawTask struct {
	Script    []string          `json:"script"`
	DependsOn []string          `json:"depends_on"`
	Allow     bool              `json:"allow_failure"`
	Env       map[string]string `json:"env"`
}

type RawPipeline struct {
	Name        string             `json:"name"`
	Concurrency int                `json:"concurrency"`
	QueueLimit  *int               `json:"queue_limit"`
	Strategy    *string            `json:"strategy"`
	StartDelayS int                `json:"start_delay_s"`
	Continue    bool               `json:"continue"`
	RetPeriodS  int                `json:"ret_period_s"`
	RetCount    int                `json:"ret_count"`
	Env         map[string]string  `json:"env"`
	Tasks       map[string]RawTask `json:"tasks"`
}

type RawFile struct {
	Path      string        `json:"path"` // relative to the scratch dir
	Pipelines []RawPipeline `json:"pipelines"`
}

type LoadCase struct {
	Kind       string             `json:"kind"` // "load"
	ID         int                `json:"id"`
	Corruption string             `json:"corruption"`
	Files      []RawFile          `json:"files"`
	OK         bool               `json:"ok"`
	Err        string             `json:"err,omitempty"`
	Defs       map[string]OutPDef `json:"defs,omitempty"`
	Monitor    []string           `json:"monitor"` // failures of the property evaluated directly on the result
}

type OutTask struct {
	Script    []string          `json:"script"`
	DependsOn []string          `json:"depends_on"`
	Allow     bool              `json:"allow_failure"`
	Env       map[string]string `json:"env"`
}

type OutPDef struct {
	Concurrency int                `json:"concurrency"`
	QueueLimit  *int               `json:"queue_limit"`
	Strategy    int                `json:"strategy"`
	StartDelay  int64              `json:"start_delay_ns"`
	Continue    bool               `json:"continue"`
	RetPeriod   int64              `json:"ret_period_ns"`
	RetCount    int                `json:"ret_count"`
	Env         map[string]string  `json:"env"`
	Tasks       map[string]OutTask `json:"tasks"`
	SourcePath  string             `json:"source_path"`
}

var nameAlphabet = []string{"a", "b", "c", "build", "deploy", "lint", "t_1", "x-y", "Ünï", "with space", "q\"uote", "0", "-", "z.z"}
var envKeys = []string{"A", "B", "PATH", "K_1", "lower", "Ünï"}
var envVals = []string{"", "1", "v", "two words", "q\"x", "x=y", "$HOME", "é"}

func yq(s string) string {
	// JSON-style double quoted scalar, valid YAML
	var b strings.Builder
	b.WriteByte('"')
	for _, r := range s {
		switch r {
		case '"':
			b.WriteString(`\"`)
		case '\\':
			b.WriteString(`\\`)
		case '\n':
			b.WriteString(`\n`)
		default:
			b.WriteRune(r)
		}
	}
	b.WriteByte('"')
	return b.String()
}

func sortedKeys(m interface{}) []string {
	v := reflect.ValueOf(m)
	var ks []string
	for _, k := range v.MapKeys() {
		ks = append(ks, k.String())
	}
	sort.Strings(ks)
	return ks
}

func renderYAML(f RawFile, rng *hutil.Rng) string {
	var b strings.Builder
	b.WriteString("pipelines:\n")
	for _, p := range f.Pipelines {
		fmt.Fprintf(&b, "  %s:\n", yq(p.Name))
		// concurrency 0 is written or omitted (both mean: default)
		if p.Concurrency != 0 || rng.Chance(1, 2) {
			fmt.Fprintf(&b, "    concurrency: %d\n", p.Concurrency)
		}
		if p.QueueLimit != nil {
			fmt.Fprintf(&b, "    queue_limit: %d\n", *p.QueueLimit)
		}
		if p.Strategy != nil {
			fmt.Fprintf(&b, "    queue_strategy: %s\n", yq(*p.Strategy))
		}
		if p.StartDelayS != 0 || rng.Chance(1, 3) {
			fmt.Fprintf(&b, "    start_delay: %ds\n", p.StartDelayS)
		}
		if p.Continue || rng.Chance(1, 3) {
			fmt.Fprintf(&b, "    continue_running_tasks_after_failure: %v\n", p.Continue)
		}
		if p.RetPeriodS != 0 {
			fmt.Fprintf(&b, "    retention_period: %ds\n", p.RetPeriodS)
		}
		if p.RetCount != 0 {
			fmt.Fprintf(&b, "    retention_count: %d\n", p.RetCount)
		}
		if len(p.Env) > 0 {
			b.WriteString("    env:\n")
			for _, k := range sortedKeys(p.Env) {
				fmt.Fprintf(&b, "      %s: %s\n", yq(k), yq(p.Env[k]))
			}
		}
		if len(p.Tasks) == 0 {
			b.WriteString("    tasks: {}\n")
			continue
		}
		b.WriteString("    tasks:\n")
		for _, tn := range sortedKeys(p.Tasks) {
			t := p.Tasks[tn]
			fmt.Fprintf(&b, "      %s:\n", yq(tn))
			b.WriteString("        script:")
			if len(t.Script) == 0 {
				b.WriteString(" []\n")
			} else {
				b.WriteString("\n")
				for _, s := range t.Script {
					fmt.Fprintf(&b, "          - %s\n", yq(s))
				}
			}
			if len(t.DependsOn) > 0 {
				b.WriteString("        depends_on: [")
				for i, d := range t.DependsOn {
					if i > 0 {
						b.WriteString(", ")
					}
					b.WriteString(yq(d))
				}
				b.WriteString("]\n")
			}
			if t.Allow {
				b.WriteString("        allow_failure: true\n")
			}
			if len(t.Env) > 0 {
				b.WriteString("        env:\n")
				for _, k := range sortedKeys(t.Env) {
					fmt.Fprintf(&b, "          %s: %s\n", yq(k), yq(t.Env[k]))
				}
			}
		}
	}
	return b.String()
}

func genEnv(rng *hutil.Rng) map[string]string {
	n := rng.Pick([]int{5, 3, 2, 1})
	if n == 0 {
		return nil
	}
	m := map[string]string{}
	for i := 0; i < n; i++ {
		m[envKeys[rng.Intn(len(envKeys))]] = envVals[rng.Intn(len(envVals))]
	}
	return m
}

func genPipeline(rng *hutil.Rng, name string) RawPipeline {
	p := RawPipeline{Name: name}
	p.Concurrency = []int{0, 1, 1, 2, 3, 7}[rng.Intn(6)]
	switch rng.Intn(4) {
	case 0:
	case 1:
		v := 0
		p.QueueLimit = &v
	default:
		v := 1 + rng.Intn(4)
		p.QueueLimit = &v
	}
	switch rng.Intn(3) {
	case 1:
		s := "append"
		p.Strategy = &s
	case 2:
		s := "replace"
		p.Strategy = &s
	}
	if rng.Chance(1, 3) && !(p.QueueLimit != nil && *p.QueueLimit == 0) {
		p.StartDelayS = 1 + rng.Intn(100)
	}
	p.Continue = rng.Chance(1, 3)
	if rng.Chance(1, 3) {
		p.RetPeriodS = 60 * (1 + rng.Intn(100))
	}
	if rng.Chance(1, 3) {
		p.RetCount = 1 + rng.Intn(10)
	}
	p.Env = genEnv(rng)
	nt := rng.Pick([]int{1, 4, 4, 3, 2})
	p.Tasks = map[string]RawTask{}
	var names []string
	for len(names) < nt {
		n := nameAlphabet[rng.Intn(len(nameAlphabet))]
		if _, dup := p.Tasks[n]; dup {
			continue
		}
		t := RawTask{Allow: rng.Chance(1, 4), Env: genEnv(rng)}
		for i, ns := 0, rng.Pick([]int{1, 4, 2}); i < ns; i++ {
			t.Script = append(t.Script, []string{"echo hi", "exit 1", "sleep 1", "echo \"q\"", "true"}[rng.Intn(5)])
		}
		// dependencies on already generated tasks, on itself or (cycles are legal for the loader) on any task later
		for _, o := range names {
			if rng.Chance(1, 3) {
				t.DependsOn = append(t.DependsOn, o)
			}
		}
		if rng.Chance(1, 12) {
			t.DependsOn = append(t.DependsOn, n)
		}
		if len(t.DependsOn) > 0 && rng.Chance(1, 8) {
			t.DependsOn = append(t.DependsOn, t.DependsOn[0]) // duplicate entry
		}
		p.Tasks[n] = t
		names = append(names, n)
	}
	return p
}

var filePaths = []string{"pipelines.yml", "a/pipelines.yml", "a/b/pipelines.yaml", "b/pipelines.yml", "z/pipelines.yaml", "a/c/d/pipelines.yml", "0/pipelines.yml"}

var corruptions = []string{"none", "none", "none", "neg_concurrency", "neg_queue_limit", "neg_delay", "delay_noqueue", "missing_dep", "bad_strategy", "dup_name", "dup_name_same_content"}

func genLoadCase(rng *hutil.Rng, id int) LoadCase {
	c := LoadCase{Kind: "load", ID: id}
	nf := 1 + rng.Pick([]int{3, 4, 2, 1})
	perm := rng.Intn(1000)
	used := map[string]bool{}
	pnames := []string{"p1", "p2", "deploy", "Build", "x y", "p-3", "ü", "p10", "p9"}
	for i := 0; i < nf; i++ {
		path := filePaths[(perm+i*3)%len(filePaths)]
		dupPath := false
		for _, f := range c.Files {
			if f.Path == path {
				dupPath = true
			}
		}
		if dupPath {
			continue
		}
		f := RawFile{Path: path}
		np := rng.Pick([]int{1, 5, 3, 1})
		for j := 0; j < np; j++ {
			n := pnames[rng.Intn(len(pnames))]
			if used[n] {
				continue
			}
			used[n] = true
			f.Pipelines = append(f.Pipelines, genPipeline(rng, n))
		}
		c.Files = append(c.Files, f)
	}
	c.Corruption = corruptions[rng.Intn(len(corruptions))]
	// pick a victim pipeline
	var locs [][2]int
	for fi, f := range c.Files {
		for pi := range f.Pipelines {
			locs = append(locs, [2]int{fi, pi})
		}
	}
	if len(locs) == 0 {
		c.Corruption = "none"
		return c
	}
	l := locs[rng.Intn(len(locs))]
	p := &c.Files[l[0]].Pipelines[l[1]]
	switch c.Corruption {
	case "neg_concurrency":
		p.Concurrency = -1 - rng.Intn(3)
	case "neg_queue_limit":
		v := -1 - rng.Intn(3)
		p.QueueLimit = &v
	case "neg_delay":
		p.StartDelayS = -1 - rng.Intn(50)
	case "delay_noqueue":
		v := 0
		p.QueueLimit = &v
		p.StartDelayS = 1 + rng.Intn(50)
	case "missing_dep":
		if len(p.Tasks) == 0 {
			p.Tasks = map[string]RawTask{"a": {Script: []string{"true"}}}
		}
		ks := sortedKeys(p.Tasks)
		k := ks[rng.Intn(len(ks))]
		t := p.Tasks[k]
		t.DependsOn = append(t.DependsOn, "no_such_task")
		p.Tasks[k] = t
	case "bad_strategy":
		s := []string{"prepend", "", "Replace", "APPEND"}[rng.Intn(4)]
		p.Strategy = &s
	case "dup_name", "dup_name_same_content":
		if len(c.Files) < 2 {
			c.Files = append(c.Files, RawFile{Path: "dup/pipelines.yml"})
		}
		other := (l[0] + 1) % len(c.Files)
		q := genPipeline(rng, p.Name)
		if c.Corruption == "dup_name_same_content" {
			q = *p
		}
		c.Files[other].Pipelines = append(c.Files[other].Pipelines, q)
	}
	return c
}

func convertDefs(d *definition.PipelinesDef, root string) map[string]OutPDef {
	out := map[string]OutPDef{}
	for name, p := range d.Pipelines {
		o := OutPDef{
			Concurrency: p.Concurrency, QueueLimit: p.QueueLimit, Strategy: int(p.QueueStrategy),
			StartDelay: int64(p.StartDelay), Continue: p.ContinueRunningTasksAfterFailure,
			RetPeriod: int64(p.RetentionPeriod), RetCount: p.RetentionCount, Env: p.Env, Tasks: map[string]OutTask{},
		}
		rel, err := filepath.Rel(root, p.SourcePath)
		if err != nil {
			rel = p.SourcePath
		}
		o.SourcePath = rel
		for tn, t := range p.Tasks {
			o.Tasks[tn] = OutTask{Script: t.Script, DependsOn: t.DependsOn, Allow: t.AllowFailure, Env: t.Env}
		}
		out[name] = o
	}
	return out
}

// monitorLoad evaluates the property directly on what was written and what came back (independent of the Coq model)
func monitorLoad(c *LoadCase) {
	if !c.OK {
		if c.Corruption == "none" {
			c.Monitor = append(c.Monitor, "a valid file set was rejected: "+c.Err)
		}
		return
	}
	if c.Corruption != "none" {
		c.Monitor = append(c.Monitor, "a corrupted file set ("+c.Corruption+") was accepted")
	}
	seen := map[string]string{}
	for _, f := range c.Files {
		for _, p := range f.Pipelines {
			if prev, dup := seen[p.Name]; dup {
				c.Monitor = append(c.Monitor, fmt.Sprintf("pipeline %q declared in %s and %s but loading succeeded", p.Name, prev, f.Path))
			}
			seen[p.Name] = f.Path
			d, ok := c.Defs[p.Name]
			if !ok {
				c.Monitor = append(c.Monitor, "pipeline missing from result: "+p.Name)
				continue
			}
			wantC := p.Concurrency
			if wantC == 0 {
				wantC = 1
			}
			if d.Concurrency != wantC || d.Concurrency < 1 {
				c.Monitor = append(c.Monitor, fmt.Sprintf("%s: concurrency %d, written %d", p.Name, d.Concurrency, p.Concurrency))
			}
			if (d.QueueLimit == nil) != (p.QueueLimit == nil) || (d.QueueLimit != nil && (*d.QueueLimit != *p.QueueLimit || *d.QueueLimit < 0)) {
				c.Monitor = append(c.Monitor, p.Name+": queue_limit differs or negative")
			}
			if d.StartDelay != int64(p.StartDelayS)*int64(time.Second) || d.StartDelay < 0 {
				c.Monitor = append(c.Monitor, p.Name+": start_delay differs or negative")
			}
			if d.StartDelay > 0 && d.QueueLimit != nil && *d.QueueLimit == 0 {
				c.Monitor = append(c.Monitor, p.Name+": start_delay with queue_limit 0")
			}
			wantS := 0
			if p.Strategy != nil && *p.Strategy == "replace" {
				wantS = 1
			}
			if d.Strategy != wantS {
				c.Monitor = append(c.Monitor, p.Name+": strategy differs")
			}
			if d.Continue != p.Continue || d.RetCount != p.RetCount || d.RetPeriod != int64(p.RetPeriodS)*int64(time.Second) {
				c.Monitor = append(c.Monitor, p.Name+": continue/retention differs")
			}
			if !reflect.DeepEqual(normEnv(d.Env), normEnv(p.Env)) {
				c.Monitor = append(c.Monitor, p.Name+": env differs")
			}
			if d.SourcePath != f.Path {
				c.Monitor = append(c.Monitor, p.Name+": source path "+d.SourcePath+" != "+f.Path)
			}
			if len(d.Tasks) != len(p.Tasks) {
				c.Monitor = append(c.Monitor, p.Name+": task set differs")
			}
			for tn, t := range p.Tasks {
				dt, ok := d.Tasks[tn]
				if !ok {
					c.Monitor = append(c.Monitor, p.Name+": task missing "+tn)
					continue
				}
				if !reflect.DeepEqual(normSlice(dt.Script), normSlice(t.Script)) || !reflect.DeepEqual(normSlice(dt.DependsOn), normSlice(t.DependsOn)) || dt.Allow != t.Allow || !reflect.DeepEqual(normEnv(dt.Env), normEnv(t.Env)) {
					c.Monitor = append(c.Monitor, p.Name+"/"+tn+": task differs")
				}
				for _, dep := range dt.DependsOn {
					if _, ok := d.Tasks[dep]; !ok {
						c.Monitor = append(c.Monitor, p.Name+"/"+tn+": dependency on foreign task "+dep)
					}
				}
			}
		}
	}
	if len(seen) != len(c.Defs) {
		c.Monitor = append(c.Monitor, "result has pipelines that no file declares")
	}
}

func normEnv(m map[string]string) map[string]string {
	if len(m) == 0 {
		return map[string]string{}
	}
	return m
}
func normSlice(s []string) []string {
	if len(s) == 0 {
		return []string{}
	}
	return s
}

func runLoadCase(c *LoadCase, scratch string, rng *hutil.Rng) {
	root := filepath.Join(scratch, fmt.Sprintf("case%d", c.ID))
	_ = os.RemoveAll(root)
	for _, f := range c.Files {
		full := filepath.Join(root, f.Path)
		if err := os.MkdirAll(filepath.Dir(full), 0o777); err != nil {
			panic(err)
		}
		if err := os.WriteFile(full, []byte(renderYAML(f, rng)), 0o666); err != nil {
			panic(err)
		}
	}
	_ = os.MkdirAll(root, 0o777)
	defs, err := definition.LoadRecursively(filepath.Join(root, "**/pipelines.{yml,yaml}"))
	if err != nil {
		c.OK = false
		c.Err = strings.ReplaceAll(err.Error(), root, "")
	} else {
		c.OK = true
		c.Defs = convertDefs(defs, root)
	}
	c.Monitor = []string{}
	monitorLoad(c)
	_ = os.RemoveAll(root)
}

// ---- Equals ----

type EqCase struct {
	Kind    string             `json:"kind"` // "equals"
	ID      int                `json:"id"`
	Field   string             `json:"field"` // which field was changed ("" = none, "ctor" = nil vs empty)
	Known   bool               `json:"known"` // is the field known to the model translator
	A       map[string]OutPDef `json:"a"`
	B       map[string]OutPDef `json:"b"`
	Equals  bool               `json:"equals"`
	Same    bool               `json:"same"` // ground truth by construction
	Monitor []string           `json:"monitor"`
}

var knownPipelineFields = map[string]bool{"Concurrency": true, "QueueLimit": true, "QueueStrategy": true, "StartDelay": true,
	"ContinueRunningTasksAfterFailure": true, "RetentionPeriod": true, "RetentionCount": true, "Env": true, "Tasks": true, "SourcePath": true}
var knownTaskFields = map[string]bool{"Script": true, "DependsOn": true, "AllowFailure": true, "Env": true}

func toDef(p RawPipeline, src string) definition.PipelineDef {
	d := definition.PipelineDef{Concurrency: p.Concurrency, QueueLimit: p.QueueLimit, StartDelay: time.Duration(p.StartDelayS) * time.Second,
		ContinueRunningTasksAfterFailure: p.Continue, RetentionPeriod: time.Duration(p.RetPeriodS) * time.Second, RetentionCount: p.RetCount,
		Env: p.Env, Tasks: map[string]definition.TaskDef{}, SourcePath: src}
	if p.Concurrency == 0 {
		d.Concurrency = 1
	}
	if p.Strategy != nil && *p.Strategy == "replace" {
		d.QueueStrategy = definition.QueueStrategyReplace
	}
	for n, t := range p.Tasks {
		d.Tasks[n] = definition.TaskDef{Script: t.Script, DependsOn: t.DependsOn, AllowFailure: t.Allow, Env: t.Env}
	}
	return d
}

func cloneDefs(d definition.PipelinesDef) definition.PipelinesDef {
	out := definition.PipelinesDef{Pipelines: map[string]definition.PipelineDef{}}
	for n, p := range d.Pipelines {
		q := p
		if p.QueueLimit != nil {
			v := *p.QueueLimit
			q.QueueLimit = &v
		}
		q.Env = cloneEnv(p.Env)
		q.Tasks = map[string]definition.TaskDef{}
		for tn, t := range p.Tasks {
			u := t
			u.Script = append([]string(nil), t.Script...)
			u.DependsOn = append([]string(nil), t.DependsOn...)
			u.Env = cloneEnv(t.Env)
			q.Tasks[tn] = u
		}
		out.Pipelines[n] = q
	}
	return out
}

func cloneEnv(m map[string]string) map[string]string {
	if m == nil {
		return nil
	}
	o := map[string]string{}
	for k, v := range m {
		o[k] = v
	}
	return o
}

// mutateValue changes a reflect.Value of any supported kind so that it denotes a different configuration value.
// variant selects among several mutations for maps / slices. Returns false if the kind is not supported.
func mutateValue(v reflect.Value, rng *hutil.Rng) bool {
	switch v.Kind() {
	case reflect.Bool:
		v.SetBool(!v.Bool())
	case reflect.Int, reflect.Int64, reflect.Int32, reflect.Int16, reflect.Int8:
		if v.Type().Name() == "QueueStrategy" {
			// an enumeration: only 0 (append) and 1 (replace) are configurations
			v.SetInt(1 - v.Int())
		} else {
			v.SetInt(v.Int() + int64(1+rng.Intn(3)))
		}
	case reflect.String:
		v.SetString(v.String() + "x")
	case reflect.Ptr:
		if v.IsNil() {
			nv := reflect.New(v.Type().Elem())
			v.Set(nv)
			if rng.Chance(1, 2) {
				return mutateValue(nv.Elem(), rng)
			}
		} else if rng.Chance(1, 2) {
			v.Set(reflect.Zero(v.Type()))
		} else {
			return mutateValue(v.Elem(), rng)
		}
	case reflect.Slice:
		if v.Type().Elem().Kind() != reflect.String {
			return false
		}
		n := v.Len()
		switch {
		case n == 0 || rng.Chance(1, 4):
			v.Set(reflect.Append(v, reflect.ValueOf("extra")))
		case n >= 2 && v.Index(0).String() != v.Index(1).String() && rng.Chance(1, 3):
			a, b := v.Index(0).String(), v.Index(1).String()
			v.Index(0).SetString(b)
			v.Index(1).SetString(a)
		case rng.Chance(1, 2):
			v.Set(v.Slice(0, n-1))
		default:
			i := rng.Intn(n)
			v.Index(i).SetString(v.Index(i).String() + "x")
		}
	case reflect.Map:
		if v.Type().Key().Kind() != reflect.String {
			return false
		}
		if v.IsNil() {
			v.Set(reflect.MakeMap(v.Type()))
		}
		keys := v.MapKeys()
		sort.Slice(keys, func(i, j int) bool { return keys[i].String() < keys[j].String() })
		elemT := v.Type().Elem()
		switch {
		case len(keys) == 0 || rng.Chance(1, 5):
			nv := reflect.New(elemT).Elem()
			v.SetMapIndex(reflect.ValueOf("new_key"), nv)
		case rng.Chance(1, 4):
			v.SetMapIndex(keys[rng.Intn(len(keys))], reflect.Value{}) // delete
		case rng.Chance(1, 3):
			// rename a key, keeping its value (this is the shape of defect D8 when the value is "")
			k := keys[rng.Intn(len(keys))]
			val := v.MapIndex(k)
			v.SetMapIndex(k, reflect.Value{})
			v.SetMapIndex(reflect.ValueOf(k.String()+"_renamed"), val)
		default:
			k := keys[rng.Intn(len(keys))]
			nv := reflect.New(elemT).Elem()
			nv.Set(v.MapIndex(k))
			if elemT.Kind() == reflect.Struct {
				// change one field of the element, chosen by reflection
				fi := rng.Intn(elemT.NumField())
				if !mutateValue(nv.Field(fi), rng) {
					return false
				}
			} else if !mutateValue(nv, rng) {
				return false
			}
			v.SetMapIndex(k, nv)
		}
	default:
		return false
	}
	return true
}

func genEqCase(rng *hutil.Rng, id int) EqCase {
	c := EqCase{Kind: "equals", ID: id, Monitor: []string{}}
	base := definition.PipelinesDef{Pipelines: map[string]definition.PipelineDef{}}
	np := 1 + rng.Intn(3)
	for i := 0; i < np; i++ {
		n := []string{"p1", "p2", "deploy", "x y"}[rng.Intn(4)]
		base.Pipelines[n] = toDef(genPipeline(rng, n), []string{"a/pipelines.yml", "pipelines.yml"}[rng.Intn(2)])
	}
	// make sure env values "" occur with some frequency (D8 shape)
	other := cloneDefs(base)
	c.Same = true
	mode := rng.Intn(10)
	names := sortedKeys(base.Pipelines)
	victim := names[rng.Intn(len(names))]
	switch {
	case mode == 0: // identical
		c.Field = ""
	case mode == 1: // nil vs empty collections: the same configuration
		c.Field = "ctor"
		p := other.Pipelines[victim]
		if len(p.Env) == 0 {
			if p.Env == nil {
				p.Env = map[string]string{}
			} else {
				p.Env = nil
			}
		}
		for tn, t := range p.Tasks {
			if len(t.DependsOn) == 0 {
				if t.DependsOn == nil {
					t.DependsOn = []string{}
				} else {
					t.DependsOn = nil
				}
			}
			if len(t.Env) == 0 && t.Env == nil {
				t.Env = map[string]string{}
			}
			p.Tasks[tn] = t
		}
		other.Pipelines[victim] = p
	case mode == 2: // pipeline added / removed / renamed
		c.Same = false
		c.Field = "Pipelines"
		switch rng.Intn(3) {
		case 0:
			delete(other.Pipelines, victim)
		case 1:
			other.Pipelines["added"] = toDef(genPipeline(rng, "added"), "pipelines.yml")
		default:
			other.Pipelines[victim+"_renamed"] = other.Pipelines[victim]
			delete(other.Pipelines, victim)
		}
	case mode <= 6: // one pipeline-level field, enumerated by reflection
		c.Same = false
		p := other.Pipelines[victim]
		pv := reflect.ValueOf(&p).Elem()
		fi := rng.Intn(pv.NumField())
		c.Field = pv.Type().Field(fi).Name
		c.Known = knownPipelineFields[c.Field]
		if !mutateValue(pv.Field(fi), rng) {
			c.Monitor = append(c.Monitor, "harness cannot mutate field "+c.Field+" of kind "+pv.Field(fi).Kind().String())
		}
		other.Pipelines[victim] = p
	default: // one task-level field, enumerated by reflection
		p := other.Pipelines[victim]
		tnames := sortedKeys(p.Tasks)
		if len(tnames) == 0 {
			c.Field = ""
			break
		}
		c.Same = false
		tn := tnames[rng.Intn(len(tnames))]
		t := p.Tasks[tn]
		tv := reflect.ValueOf(&t).Elem()
		fi := rng.Intn(tv.NumField())
		c.Field = "Tasks." + tv.Type().Field(fi).Name
		c.Known = knownTaskFields[tv.Type().Field(fi).Name]
		if !mutateValue(tv.Field(fi), rng) {
			c.Monitor = append(c.Monitor, "harness cannot mutate field "+c.Field)
		}
		p.Tasks[tn] = t
		other.Pipelines[victim] = p
	}
	if c.Field == "" || c.Field == "ctor" || c.Field == "Pipelines" {
		c.Known = true
	}
	if rng.Chance(1, 2) {
		base, other = other, base
	}
	c.Equals = base.Equals(other)
	c.A = convertDefs(&base, "")
	c.B = convertDefs(&other, "")
	if c.Same && !c.Equals {
		c.Monitor = append(c.Monitor, "identical configurations compare unequal")
	}
	if !c.Same && c.Equals {
		c.Monitor = append(c.Monitor, "configurations differing in "+c.Field+" compare equal: the edit would be ignored by reload")
	}
	return c
}

func main() {
	seed := flag.Uint64("seed", 1, "seed")
	n := flag.Int("n", 300, "number of load cases")
	ne := flag.Int("ne", 300, "number of equals cases")
	out := flag.String("out", "", "output file (JSON lines)")
	dir := flag.String("dir", "", "scratch directory")
	only := flag.Int("only", -1, "run only the case with this id")
	flag.Parse()
	w := os.Stdout
	if *out != "" {
		f, err := os.Create(*out)
		if err != nil {
			panic(err)
		}
		defer f.Close()
		w = f
	}
	if *dir == "" {
		panic("need -dir")
	}
	master := hutil.NewRng(*seed)
	for i := 0; i < *n; i++ {
		rng := master.Fork()
		if *only >= 0 && *only != i {
			continue
		}
		c := genLoadCase(rng, i)
		runLoadCase(&c, *dir, rng)
		hutil.JSONLine(w, c)
	}
	// the field list itself (by reflection), so the orchestrator can tell when the model is behind the code
	var pf, tf []string
	pt := reflect.TypeOf(definition.PipelineDef{})
	for i := 0; i < pt.NumField(); i++ {
		pf = append(pf, pt.Field(i).Name+":"+pt.Field(i).Type.String())
	}
	tt := reflect.TypeOf(definition.TaskDef{})
	for i := 0; i < tt.NumField(); i++ {
		tf = append(tf, tt.Field(i).Name+":"+tt.Field(i).Type.String())
	}
	hutil.JSONLine(w, map[string]interface{}{"kind": "fields", "pipeline": pf, "task": tf})
	for i := 0; i < *ne; i++ {
		rng := master.Fork()
		if *only >= 0 && *only != *n+i {
			continue
		}
		hutil.JSONLine(w, genEqCase(rng, *n+i))
	}
}

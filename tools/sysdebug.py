#!/usr/bin/env python3
"""Developer tool: run sysrun for a profile, replay in Coq, print the first divergences with diagnosis."""
import sys, os, json
sys.path.insert(0, os.path.dirname(os.path.abspath(__file__)))
from syslib import *

prof = sys.argv[1] if len(sys.argv) > 1 else "mixed"
n = int(sys.argv[2]) if len(sys.argv) > 2 else 64
seed = int(sys.argv[3]) if len(sys.argv) > 3 else 1
ctx = Ctx("DBG", [])
bins = build_harness(ctx, ["sysrun"])
hs = run_sysrun(ctx, bins, prof, seed, n)
print("histories", len(hs), "steps", sum(len(h["steps"]) for h in hs), "failures", [h["failure"][:200] for h in hs if h["failure"]][:3])
ok = True
bad = replay_in_coq(ctx, hs)
print("mismatching histories:", len(bad))
for i, (step, d) in sorted(bad.items())[:int(os.environ.get("SHOW", "2"))]:
    h = hs[i]
    print("=== history", i, h["src"], "step", step, d)
    for k in range(max(0, step - 6), step + 1):
        print("  ", k, json.dumps(h["steps"][k]["ev"]), h["steps"][k]["res"])
    if os.environ.get("WHERE"):
        o = model_obs_at(ctx, h, step)
        import re
        m = re.search(r"Some\s*\(\s*(\w+(?: \d+)?),\s*\((\[[^\]]*\]),\s*(\[[^\]]*\])\)", o)
        print("   where:", m.groups() if m else o[:300])
        print("   impl store:", json.dumps(h["steps"][step]["snap"].get("store")), "logs", h["steps"][step]["snap"].get("logs"))
    if os.environ.get("FULL"):
        print("impl snap:", json.dumps(h["steps"][step]["snap"]))
        print("model:", model_obs_at(ctx, h, step)[-6000:])
        print("sets:", json.dumps(h["sets"]))
if os.environ.get("KEEP"):
    print(ctx.run)
else:
    ctx.cleanup()

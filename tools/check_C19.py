#!/usr/bin/env python3
"""C19 — task output is captured completely and attributed correctly. Proof: coq/Properties/C19.v over Output.v.
Tie to taskctl/runner.go, executor.go, output_store.go, server/server.go: realrun starts the real CLI application with generated
pipelines whose commands write generated output (helper processes, shell builtins, pipelines, subshells; empty, partial lines,
binary, multi-megabyte; several commands per task), schedules several jobs at once, and compares every log file byte for byte
and the log API with what the commands wrote; small runs are also replayed through the Coq model (Corr/OutputCorr.v).
Requests for tasks the job does not have (including other jobs' tasks and path-like names) must be refused."""
import json
import os
import sys

sys.path.insert(0, os.path.dirname(os.path.abspath(__file__)))
from reallib import *  # noqa

HEADER = "From stdpp Require Import list strings.\nFrom Coq Require Import NArith.\nFrom PV Require Import Output Corr.OutputCorr.\n"
STREAM = {1: "Stdout", 2: "Stderr"}


def cq_cmds(cmds):
    return cq_list(cmds, lambda c: cq_list(c or [], lambda ch: "(%s, %s)" % (STREAM[ch[0]], cq_bytes_hex(ch[2]))))


def main():
    ctx = Ctx("C19", sys.argv[1:])
    proof_ok = proof_evidence(ctx, extra_files=["Corr/OutputCorr.v"])
    bins = build_harness(ctx, ["realrun"])
    if bins is None:
        violation(ctx, {"what": "harness does not build against the repository working tree", "broken": "correspondence realrun"}, found_input=False)
        finish(ctx)
    if ctx.replay:
        rp = json.load(open(ctx.replay if os.path.isabs(ctx.replay) else os.path.join(VERIF, ctx.replay)))
        recs = run_real(ctx, bins, "log", rp["seed"], rp["n"], "rp") or []
        bad = [r for r in recs if not r.get("ok", True) and r.get("round") == rp.get("round")]
        ctx.log("replay:", json.dumps(bad[:1])[:500])
        if bad:
            violation(ctx, rp)
        finish(ctx)
    q = ctx.tier == "quick"
    runs = [(ctx.seed, 12 if q else 80), (ctx.seed + 1, 8 if q else 80)] + ([] if q else [(ctx.seed + k, 60) for k in range(2, 6)])
    recs_all, bad = [], []
    round_terms, req_terms, path_terms, path_recs = [], [], [], []
    for seed, n in runs:
        recs = run_real(ctx, bins, "log", seed, n)
        if recs is None:
            violation(ctx, {"what": "realrun did not complete", "broken": "correspondence realrun log"}, found_input=False)
            finish(ctx)
        recs_all += recs
        rounds = {}
        for r in recs:
            if not r.get("ok", True) or r["kind"] == "error":
                bad.append((seed, n, r))
            if r["kind"] == "task" and "cmds" in r and "hex" in r.get("stdout", {}) and "hex" in r.get("stderr", {}):
                rounds.setdefault(r["round"], []).append(r)
            if r["kind"] == "path":
                path_recs.append(r)
                if r.get("error") or len(r.get("created") or []) != 1 or not r.get("reads_back"):
                    bad.append((seed, n, dict(r, what="the store did not create exactly one readable file for (job, task, stream)")))
                else:
                    path_terms.append("(%d%%nat, %s, %s, %s, %s, %s)" % (len(path_terms), cq_str(r["job"]), cq_str(r["task"]), "Stdout" if r["stream"] == "stdout" else "Stderr",
                                                                       cq_str(r["dir"].rstrip("/")), cq_str(r["file"])))
            if r["kind"] == "unknown_task":
                req_terms.append("(%d%%nat, %s, %s, %s)" % (len(req_terms), cq_list(r["tasks"], cq_str), cq_str(r["task"]), cq_bool(r["status"] == 404)))
        for rd, ts in sorted(rounds.items()):
            obs = cq_list(ts, lambda r: "(%s, %s, %s, %s, %s)" % (cq_str(r["job_id"]), cq_str(r["task"]), cq_cmds(r["cmds"]),
                                                                 cq_bytes_hex(r["stdout"]["hex"]), cq_bytes_hex(r["stderr"]["hex"])))
            round_terms.append((seed, n, rd, "(%d%%nat, %s)" % (len(round_terms), obs)))
    bad_rounds = run_cases(ctx, "rounds", HEADER, [t[3] for t in round_terms], case_type="(nat * list (string * string * list cmd * bytes * bytes))")
    bad_reqs = run_cases(ctx, "reqs", HEADER, req_terms[:4000], case_type="(nat * list string * string * bool)", mism="request_mismatches")
    bad_paths = run_cases(ctx, "paths", HEADER, path_terms, case_type="(nat * string * string * stream * string * string)", mism="path_mismatches")
    tasks = [r for r in recs_all if r["kind"] == "task"]
    kinds = {}
    for r in tasks:
        for k in r["cmd_kinds"]:
            kinds[k] = kinds.get(k, 0) + 1
    sizes = sorted(r["bytes"] for r in tasks)
    ctx.coverage.update({
        "evaluations": len(tasks) + len([r for r in recs_all if r["kind"] == "unknown_task"]),
        "distinct_nontrivial": len({(r["round"], r["job_id"], r["task"]) for r in tasks}),
        "rule": "rounds of 1-3 pipelines x 1-4 tasks x 1-4 commands (helper process, pipeline through cat, command list, shell builtins, subshell, "
                "silent, failing last command; text / binary / empty / 1-4 MB flavours), 2-6 jobs scheduled at once (same and different pipelines, "
                "output seeded per job; the last round of each run has commands leaving a background writer behind for 2.4 s); the store's file naming for generated task names (special characters, unicode); every file compared byte for byte, API compared on valid UTF-8; log requests for every foreign / path-like task name",
        "task_runs": len(tasks), "bytes_total": sum(sizes), "bytes_max": sizes[-1] if sizes else 0, "bytes_median": sizes[len(sizes) // 2] if sizes else 0,
        "command_kinds": kinds,
        "unknown_task_requests": len(req_terms),
        "rounds_replayed_in_coq": len(round_terms),
        "model_mismatches": {"rounds": len(bad_rounds), "requests": len(bad_reqs), "paths": len(bad_paths)},
        "store_paths_compared": len(path_terms),
        "samples": [{k: v for k, v in r.items() if k != "cmds"} for r in tasks[:2]],
        "traces_validated_against_impl": len(round_terms) + min(len(req_terms), 4000),
    })
    ctx.assumptions = ["the log API is compared on outputs that are valid UTF-8 (JSON cannot carry other bytes; the store is compared on raw bytes)",
                       "task names without path separators (definitions are operator-controlled); job ids are UUIDs",
                       "pipes, file system and process scheduling are exercised, not modelled"]
    if not proof_ok:
        violation(ctx, {"what": "Coq development for C19 does not check", "broken": "Properties/C19.v or its dependencies"}, found_input=False)
    for seed, n, r in bad[:3]:
        r = {k: v for k, v in r.items() if k != "cmds"}
        violation(ctx, {"what": "captured output / log request differs from what the commands wrote", "mode": "log", "seed": seed, "n": n, "round": r.get("round"), "case": r})
    if bad_paths:
        # the store names files differently from the model: look for two keys that now share a file
        byfile = {}
        for r in path_recs:
            if r.get("created"):
                byfile.setdefault(r["created"][0], set()).add((r["job"], r["task"], r["stream"]))
        clash = [(f, sorted(ks)) for f, ks in byfile.items() if len(ks) > 1]
        p = path_recs and [r for r in path_recs if r.get("created")]
        if clash:
            violation(ctx, {"what": "two different (job, task, stream) share one log file", "file": clash[0][0], "keys": clash[0][1], "mode": "log", "n": 1})
        else:
            violation(ctx, {"what": "the store's file naming differs from build_path of Output.v; no two generated keys collided",
                            "broken": "correspondence Corr/OutputCorr.v check_path (C19_path_injective is about a naming the code no longer uses)",
                            "cases": [path_recs[i] for i in bad_paths[:5] if i < len(path_recs)]}, found_input=False)
    if not bad and not bad_paths and (bad_rounds or bad_reqs):
        violation(ctx, {"what": "observed log files or log requests differ from the output model",
                        "broken": "correspondence Corr/OutputCorr.v (check_round / check_request)",
                        "rounds": [round_terms[i][:3] for i in bad_rounds[:3]], "requests": bad_reqs[:5]}, found_input=False)
    finish(ctx)


if __name__ == "__main__":
    main()

(** Properties of the environment model (C18) *)
From stdpp Require Import gmap strings.
From PV Require Import Env.

Lemma lookup_last_app name l1 l2 :
  lookup_last name (l1 ++ l2) = match lookup_last name l2 with Some v => Some v | None => lookup_last name l1 end.
Proof.
  induction l1 as [|[k v] l1 IH]; simpl.
  - by destruct (lookup_last name l2).
  - rewrite IH. by destruct (lookup_last name l2).
Qed.

Lemma lookup_last_not_in name l : name ∉ l.*1 → lookup_last name l = None.
Proof.
  induction l as [|[k v] l IH]; simpl; [done|]. intros Hn.
  apply not_elem_of_cons in Hn as [Hk Hl]. rewrite (IH Hl). by rewrite bool_decide_eq_false_2.
Qed.

Lemma lookup_last_nodup name v l : NoDup l.*1 → (name, v) ∈ l → lookup_last name l = Some v.
Proof.
  induction l as [|[k v0] l IH]; simpl; intros Hnd Hin.
  - by apply elem_of_nil in Hin.
  - apply NoDup_cons in Hnd as [Hk Hnd]. apply elem_of_cons in Hin as [[= -> ->]|Hin].
    + rewrite (lookup_last_not_in _ _ Hk). by rewrite bool_decide_eq_true_2.
    + by rewrite (IH Hnd Hin).
Qed.

Lemma lookup_last_filter name l : name ≠ "" → lookup_last name (List.filter entry_ok l) = lookup_last name l.
Proof.
  intros Hne. induction l as [|[k v] l IH]; [done|]. simpl. unfold entry_ok at 1. simpl.
  destruct (decide (k = "")) as [->|Hk].
  - rewrite bool_decide_eq_true_2 by done. simpl. rewrite IH.
    rewrite (bool_decide_eq_false_2 ("" = name)) by done. by destruct (lookup_last name l).
  - rewrite bool_decide_eq_false_2 by done. simpl. by rewrite IH.
Qed.

(** what a command sees for a name, whatever the order in which the container lists the job environment *)
Lemma sees_spec name proc (m : vmap) l :
  name ≠ "" → l ≡ₚ map_to_list m →
  sees name proc l = match m !! name with Some v => Some v | None => lookup_last name proc end.
Proof.
  intros Hne Hp. unfold sees. rewrite lookup_last_filter by done. rewrite lookup_last_app.
  destruct (m !! name) as [v|] eqn:E.
  - rewrite (lookup_last_nodup name v); [done| |].
    + rewrite Hp. apply NoDup_fst_map_to_list.
    + rewrite Hp. by apply elem_of_map_to_list.
  - rewrite lookup_last_not_in; [done|].
    rewrite Hp. intros Hin. apply elem_of_list_fmap in Hin as ([k v] & Hk & Hin). simpl in Hk. subst k.
    apply elem_of_map_to_list in Hin. congruence.
Qed.

Lemma job_env_lookup pipe tn task name :
  name ≠ "TASK_NAME" →
  job_env pipe ∅ tn task !! name = match task !! name with Some v => Some v | None => pipe !! name end.
Proof.
  intros Hne. unfold job_env, merge, with_.
  destruct (task !! name) as [v|] eqn:E.
  - rewrite lookup_union_l'; [done|by rewrite E].
  - rewrite lookup_union_r by done. rewrite lookup_insert_ne by done.
    rewrite lookup_union_r by apply lookup_empty. done.
Qed.

Lemma job_env_task_name pipe tn task :
  job_env pipe ∅ tn task !! "TASK_NAME" = Some (default tn (task !! "TASK_NAME")).
Proof.
  unfold job_env, merge, with_.
  destruct (task !! "TASK_NAME") as [v|] eqn:E.
  - rewrite lookup_union_l'; [by rewrite E|by rewrite E].
  - rewrite lookup_union_r by done. by rewrite lookup_insert.
Qed.

(** precedence: task level, else pipeline level, else the prunner process *)
Lemma precedence name proc pipe task tn l :
  name ≠ "" → name ≠ "TASK_NAME" → l ≡ₚ map_to_list (job_env pipe ∅ tn task) →
  sees name proc l =
    match task !! name with
    | Some v => Some v
    | None => match pipe !! name with Some v => Some v | None => lookup_last name proc end
    end.
Proof.
  intros Hne Htn Hp. rewrite (sees_spec _ _ _ _ Hne Hp). rewrite (job_env_lookup pipe tn task name Htn).
  by destruct (task !! name).
Qed.

Lemma sees_run_spec name proc pipe task tn :
  name ≠ "" → name ≠ "TASK_NAME" →
  sees_run name proc pipe task tn =
    match task !! name with
    | Some v => Some v
    | None => match pipe !! name with Some v => Some v | None => lookup_last name proc end
    end.
Proof. intros Hne Htn. unfold sees_run. by apply (precedence name proc pipe task tn). Qed.

(** ** variables *)
Lemma task_vars_reserved {V} (idv : V) vars : reserved ∈ dom vars → task_vars idv vars = None.
Proof. intros H. unfold task_vars. by rewrite bool_decide_eq_true_2. Qed.

Lemma task_vars_spec {V} (idv : V) vars tv :
  task_vars idv vars = Some tv → tv !! reserved = Some idv ∧ ∀ n, n ≠ reserved → tv !! n = vars !! n.
Proof.
  unfold task_vars. case_bool_decide; [done|]. intros [= <-]. split.
  - apply lookup_insert.
  - intros n Hn. by rewrite lookup_insert_ne.
Qed.

Lemma task_vars_accepts {V} (idv : V) vars : reserved ∉ dom vars → is_Some (task_vars idv vars).
Proof. intros H. unfold task_vars. by rewrite bool_decide_eq_false_2. Qed.

(** ** isolation: what (job, task) gets depends on that job's own data only *)
Lemma env_of_own jobs jobs' proc j task name : jobs !! j = jobs' !! j → env_of jobs proc j task name = env_of jobs' proc j task name.
Proof. intros H. unfold env_of. by rewrite H. Qed.

Lemma vars_of_own jobs jobs' j : jobs !! j = jobs' !! j → vars_of jobs j = vars_of jobs' j.
Proof. intros H. unfold vars_of. by rewrite H. Qed.

Lemma vars_of_identity jobs j d tv :
  jobs !! j = Some d → vars_of jobs j = Some tv → tv !! reserved = Some (jd_id d) ∧ ∀ n, n ≠ reserved → tv !! n = jd_vars d !! n.
Proof. intros Hj. unfold vars_of. rewrite Hj. apply task_vars_spec. Qed.

(** * C02 — Tasks run at most once and only after their dependencies succeeded  (PARTIAL)

    Proved over every reachable state / every history of the system model (all interleavings at the park points,
    any surrounding history of other jobs, restarts included): no task of a job begins executing twice
    (C02_at_most_once); whenever a task begins, every task it depends on is done or skipped, or failed while marked
    allow_failure (C02_begins_after_dependencies). As decision rules: a stage goroutine is created only by a visit, only
    for a stage that is still waiting and whose dependencies are satisfied; a dependent of a failed or canceled stage is
    never ready; a job whose graph cannot be built gets no scheduler, is reported canceled with the error and does not
    stop the wait list.
    NOT proved (decided by the monitor on every executed history instead): "a job reported successful executed each
    task exactly once", "every acyclic graph can run to completion" (liveness), and for the pure functions of Graph.v
    that the Kahn order is topological / that graph construction fails exactly on cyclic relations. *)
From stdpp Require Import list.
From Coq Require Import ZArith.
From PV Require Import Graph System Runner proofs.GraphProps proofs.SchedProps proofs.OnceProps proofs.StageProps.

(** over every history: the number of times task [n] of job [id] began executing is at most one *)
Theorem C02_at_most_once : ∀ s id n, reach s → (began (st_ghost s) id n ≤ 1)%nat.
Proof. exact at_most_once. Qed.

(** over every history: at the step in which a task begins executing, all its dependencies are satisfied *)
Theorem C02_begins_after_dependencies : ∀ s id n s' r j sc,
  reach s → step s (EvRunBegin id n) = Some (s', r) → get_job s id = Some j → j_sched j = Some sc →
  forallb (dep_ok sc j) (task_deps j n) = true.
Proof. exact begins_after_deps. Qed.

(** the task list a job takes from its definition (sortTasksByDependencies) is a permutation of the defined tasks — none
    lost, none duplicated — ordered by (Kahn rank, name) *)
Theorem C02_job_tasks_are_the_defined_tasks : ∀ ts, sort_tasks ts ≡ₚ ts.
Proof. exact sort_tasks_perm. Qed.
Theorem C02_job_tasks_ordered_by_rank_and_name : ∀ ts, sorted_by (task_ranks ts) (sort_tasks ts).
Proof. exact sort_tasks_sorted. Qed.

Theorem C02_launch_only_when_deps_satisfied_partial : ∀ s id n s' j sc,
  do_visit s id n = Some s' → get_job s id = Some j → j_sched j = Some sc →
  ∃ sc', sched_of s' id = Some sc' ∧ sc_entry sc' = sc_entry sc ++ (if launches sc j n then [n] else [])
         ∧ sc_running sc' = sc_running sc ∧ sc_ctx sc' = sc_ctx sc ∧ sc_cancelled sc' = sc_cancelled sc.
Proof. exact visit_entry. Qed.

Theorem C02_failed_dependency_blocks : ∀ sc j n d,
  d ∈ task_deps j n →
  (stage_status sc d = Some Error ∧ task_allow j d = false) ∨ stage_status sc d = Some Canceled →
  fst (check_status sc j n) = false.
Proof. exact failed_dep_blocks. Qed.

Theorem C02_cyclic_job_harmless : ∀ s id j,
  find_job s id = Some j → j_canceled j = false → graph_ok j = false →
  (try_start s id).2 = true ∧
  ∃ j', get_job (try_start s id).1 id = Some j' ∧ j_canceled j' = true ∧ j_lasterr j' = Some EGraph
        ∧ j_sched j' = j_sched j ∧ j_start j' = j_start j.
Proof. exact unbuildable_job_harmless. Qed.

(** the graph builder on concrete shapes: diamonds are accepted, self-loops and longer cycles rejected *)
Definition td (deps : list name) : taskdef := TaskDef deps false false 0 0.
Example C02_ex_diamond : build_graph_ok (sort_tasks [(3%nat, td [1;2]%nat); (1%nat, td [0%nat]); (2%nat, td [0%nat]); (0%nat, td [])]) = true.
Proof. vm_compute. done. Qed.
Example C02_ex_order : map fst (sort_tasks [(3%nat, td [1;2]%nat); (1%nat, td [0%nat]); (2%nat, td [0%nat]); (0%nat, td [])]) = [0;1;2;3]%nat.
Proof. vm_compute. done. Qed.
Example C02_ex_selfloop : build_graph_ok (sort_tasks [(0%nat, td [0%nat])]) = false.
Proof. vm_compute. done. Qed.
Example C02_ex_cycle3 : build_graph_ok (sort_tasks [(0%nat, td [2%nat]); (1%nat, td [0%nat]); (2%nat, td [1%nat]); (3%nat, td [])]) = false.
Proof. vm_compute. done. Qed.

Print Assumptions C02_at_most_once.
Print Assumptions C02_begins_after_dependencies.
Print Assumptions C02_job_tasks_are_the_defined_tasks.
Print Assumptions C02_job_tasks_ordered_by_rank_and_name.
Print Assumptions C02_launch_only_when_deps_satisfied_partial.
Print Assumptions C02_failed_dependency_blocks.
Print Assumptions C02_cyclic_job_harmless.

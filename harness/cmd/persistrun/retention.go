package main

import (
	"context"
	"fmt"
	"os"
	"strings"
	"time"

	"github.com/taskctl/taskctl/pkg/task"

	"github.com/Flowpack/prunner"
	"github.com/Flowpack/prunner/definition"
	"github.com/Flowpack/prunner/store"
	"github.com/Flowpack/prunner/taskctl"
	"github.com/Flowpack/prunner/test"
)

// gatedRunner: a runner on a real JSON store whose tasks block until the gate is closed; no persist loop (saves are explicit)
func gatedRunner(defs *definition.PipelinesDef) (*prunner.PipelineRunner, chan struct{}, func()) {
	dir, err := os.MkdirTemp("", "persistrun")
	if err != nil {
		panic(err)
	}
	inner, err := store.NewJSONDataStore(dir)
	if err != nil {
		panic(err)
	}
	gate := make(chan struct{})
	ctx, cancel := context.WithCancel(context.Background())
	cancel()
	r, err := prunner.NewPipelineRunner(ctx, defs, func(j *prunner.PipelineJob) taskctl.Runner {
		return &test.MockRunner{OnRun: func(t *task.Task) error { <-gate; return nil }}
	}, inner, test.NewMockOutputStore())
	if err != nil {
		panic(err)
	}
	return r, gate, func() { os.RemoveAll(dir) }
}

type jobView struct {
	found     bool
	started   bool
	completed bool
	canceled  bool
	start     time.Time
}

func viewJob(r *prunner.PipelineRunner, j *prunner.PipelineJob) jobView {
	var v jobView
	if j == nil {
		return v
	}
	if r.ReadJob(j.ID, func(j *prunner.PipelineJob) {
		v.started, v.completed, v.canceled = j.Start != nil, j.Completed, j.Canceled
		if j.Start != nil {
			v.start = *j.Start
		}
	}) == nil {
		v.found = true
	}
	return v
}

func waitFor(cond func() bool, d time.Duration) bool {
	end := time.Now().Add(d)
	for time.Now().Before(end) {
		if cond() {
			return true
		}
		time.Sleep(5 * time.Millisecond)
	}
	return cond()
}

// retentionVsQueue (C06, in real time): a job runs longer than its pipeline's retention_period while another job waits behind it;
// a save happens and a third request arrives. The third job must not start while the second, accepted earlier, still waits,
// and the start order must be the acceptance order.
func retentionVsQueue() map[string]interface{} {
	res := map[string]interface{}{"kind": "retention_queue", "scenario": "retention_period_shorter_than_running_job_with_queue", "ok": false}
	defs := &definition.PipelinesDef{Pipelines: map[string]definition.PipelineDef{
		"p": {Concurrency: 1, RetentionPeriod: 20 * time.Millisecond, Tasks: map[string]definition.TaskDef{"a": {Script: []string{"x"}}}, SourcePath: "f"}}}
	r, gate, cleanup := gatedRunner(defs)
	defer cleanup()
	var what []string
	j1, err1 := r.ScheduleAsync("p", prunner.ScheduleOpts{})
	j2, err2 := r.ScheduleAsync("p", prunner.ScheduleOpts{})
	if err1 != nil || err2 != nil {
		res["what"] = fmt.Sprint("requests refused: ", err1, err2)
		close(gate)
		return res
	}
	time.Sleep(80 * time.Millisecond) // the running job is now older than the retention period
	r.SaveToStore()
	j3, err3 := r.ScheduleAsync("p", prunner.ScheduleOpts{})
	if err3 != nil {
		what = append(what, "third request: "+err3.Error())
	}
	time.Sleep(30 * time.Millisecond)
	v2, v3 := viewJob(r, j2), viewJob(r, j3)
	if !v2.found {
		what = append(what, "the save removed a waiting job")
	}
	if v3.started && !v2.started {
		what = append(what, "the job accepted third started while the job accepted second is still waiting")
	}
	close(gate)
	_ = j1
	done := waitFor(func() bool {
		a, b := viewJob(r, j2), viewJob(r, j3)
		return (!a.found || a.completed) && (j3 == nil || !b.found || b.completed)
	}, 5*time.Second)
	v2, v3 = viewJob(r, j2), viewJob(r, j3)
	if !done {
		what = append(what, fmt.Sprintf("not all jobs finished after the tasks were released (second: %+v, third: %+v)", v2, v3))
	} else if v2.found && v3.found && v2.started && v3.started && v3.start.Before(v2.start) {
		what = append(what, "start order differs from acceptance order: the third job started before the second")
	}
	if len(what) == 0 {
		res["ok"] = true
	} else {
		res["what"] = strings.Join(what, "; ")
	}
	return res
}

// removedPipelineAdmission (C05, explicit saves): a pipeline with one running and one waiting job disappears from the definitions,
// a save happens (the waiting job is purged), the pipeline comes back. Now nothing waits, so with queue_limit 1 a new request
// must be accepted (it waits for the slot of the job that is still running) and it must be the next job to start.
func removedPipelineAdmission() map[string]interface{} {
	res := map[string]interface{}{"kind": "removed_pipeline_admission", "scenario": "waiting_job_purged_then_pipeline_back", "ok": false}
	one := 1
	mk := func(with bool) *definition.PipelinesDef {
		d := &definition.PipelinesDef{Pipelines: map[string]definition.PipelineDef{
			"other": {Concurrency: 1, Tasks: map[string]definition.TaskDef{"a": {Script: []string{"x"}}}, SourcePath: "f"}}}
		if with {
			d.Pipelines["p"] = definition.PipelineDef{Concurrency: 1, QueueLimit: &one, Tasks: map[string]definition.TaskDef{"a": {Script: []string{"x"}}}, SourcePath: "f"}
		}
		return d
	}
	r, gate, cleanup := gatedRunner(mk(true))
	defer cleanup()
	var what []string
	j1, err1 := r.ScheduleAsync("p", prunner.ScheduleOpts{})
	j2, err2 := r.ScheduleAsync("p", prunner.ScheduleOpts{})
	if err1 != nil || err2 != nil {
		res["what"] = fmt.Sprint("requests refused: ", err1, err2)
		close(gate)
		return res
	}
	r.ReplaceDefinitions(mk(false))
	r.SaveToStore()
	r.ReplaceDefinitions(mk(true))
	v1, v2 := viewJob(r, j1), viewJob(r, j2)
	res["running_job_kept"], res["waiting_job_kept"] = v1.found, v2.found
	waiting := 0
	r.IterateJobs(func(j *prunner.PipelineJob) {
		if j.Pipeline == "p" && j.Start == nil && !j.Canceled && !j.Completed {
			waiting++
		}
	})
	res["waiting_reported"] = waiting
	j3, err3 := r.ScheduleAsync("p", prunner.ScheduleOpts{})
	if v1.found && !v1.completed {
		// the slot is taken, nothing is reported waiting: the request has to be queued
		if waiting == 0 && err3 != nil {
			what = append(what, fmt.Sprintf("no job of the pipeline is reported waiting (queue_limit 1), yet the request was refused: %v", err3))
		}
		if waiting >= 1 && err3 == nil {
			what = append(what, fmt.Sprintf("%d job is reported waiting (queue_limit 1), yet one more request was accepted", waiting))
		}
	} else if err3 != nil {
		what = append(what, fmt.Sprintf("nothing of the pipeline runs or waits, yet the request was refused: %v", err3))
	}
	close(gate)
	if j3 != nil {
		if !waitFor(func() bool { v := viewJob(r, j3); return v.found && v.completed }, 5*time.Second) {
			what = append(what, fmt.Sprintf("the accepted request never finished after the tasks were released: %+v", viewJob(r, j3)))
		}
	}
	// the purged job must not come back to life
	time.Sleep(30 * time.Millisecond)
	if !v2.found {
		ghost := false
		r.IterateJobs(func(j *prunner.PipelineJob) {
			if j.ID == j2.ID {
				ghost = true
			}
		})
		if ghost {
			what = append(what, "the job purged by the save is reported again")
		}
	}
	if len(what) == 0 {
		res["ok"] = true
	} else {
		res["what"] = strings.Join(what, "; ")
	}
	return res
}

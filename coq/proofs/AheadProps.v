(** The jobs ahead of a waiting job (C03): a job that is not waiting never becomes waiting again, so the set of jobs that
    wait in front of a given job (accepted before it, same pipeline) can only shrink; with work conservation
    (WorkProps) this is the progress measure of "eventually starts". *)
From stdpp Require Import list.
From Coq Require Import ZArith Lia.
From PV Require Import System Runner proofs.SystemProps.

Theorem waiting_never_regained s evs id j j' :
  reach s → Forall no_restart evs → get_job s id = Some j → get_job (exec s evs) id = Some j' →
  is_waiting j' = true → is_waiting j = true ∧ j_pipe j' = j_pipe j.
Proof.
  intros Hr Hnr Hj Hj' Hw.
  destruct (sys_snapshot_immutable s evs id j Hr Hnr Hj) as (j2 & Hj2 & Hsn & Hc & _ & Hst & _).
  assert (j2 = j') as -> by congruence.
  unfold is_waiting in *. split.
  - destruct (j_start j') eqn:Es'; [done|]. destruct (j_start j) eqn:Es.
    + destruct Hst as [x Hx]; [by eexists|]. congruence.
    + destruct (j_canceled j) eqn:Ec; [|done]. rewrite (Hc eq_refl) in Hw. done.
  - unfold job_snapshot in Hsn. by injection Hsn.
Qed.

(** every job that waits in front of [id] later was already waiting in front of it before *)
Corollary jobs_ahead_only_shrink s evs id id' j j1' :
  reach s → Forall no_restart evs → get_job s id = Some j → (id' < id)%nat →
  get_job (exec s evs) id' = Some j1' → is_waiting j1' = true →
  ∃ j1, get_job s id' = Some j1 ∧ is_waiting j1 = true ∧ j_pipe j1 = j_pipe j1'.
Proof.
  intros Hr Hnr Hj Hlt Hj1' Hw.
  assert (Hex : is_Some (get_job s id')).
  { unfold get_job in *. apply lookup_lt_is_Some. apply lookup_lt_Some in Hj. lia. }
  destruct Hex as [j1 Hj1]. exists j1. split; [done|].
  destruct (waiting_never_regained s evs id' j1 j1' Hr Hnr Hj1 Hj1' Hw) as [H1 H2]. done.
Qed.

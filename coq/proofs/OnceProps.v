(** At most once (C02): over every history no task of a job begins executing twice.
    Invariant over System.reach; the fact that only unstarted jobs are started comes from the abstract invariants
    (RunnerInv through the refinement) at the beginning of every event. *)
From stdpp Require Import list.
From Coq Require Import ZArith Lia.
From PV Require Import System Runner proofs.RunnerBase proofs.RunnerInv proofs.Refine proofs.SchedProps.

Definition is_began (id : nat) (n : name) (o : obs) : bool :=
  match o with ORunBegan j m => Nat.eqb j id && Nat.eqb m n | _ => false end.
Definition began (g : list obs) (id : nat) (n : name) : nat := length (List.filter (is_began id n) g).

Definition quiet_obs (o : obs) : Prop := ∀ id n, is_began id n o = false.

Lemma began_cons g o id n : began (o :: g) id n = ((if is_began id n o then 1 else 0) + began g id n)%nat.
Proof. unfold began. simpl. by destruct (is_began id n o). Qed.

(** what the invariant says about one job *)
Definition jok (g : list obs) (id : nat) (j : job) : Prop :=
  (∀ n, (began g id n ≤ 1)%nat) ∧
  match j_sched j with
  | Some sc => is_Some (j_start j) ∧
               ∀ n, (n ∈ sc_entry sc → began g id n = 0%nat) ∧ (stage_status sc n = Some Waiting → began g id n = 0%nat ∧ n ∉ sc_entry sc)
  | None => j_start j = None → j_canceled j = false → ∀ n, began g id n = 0%nat
  end.

Definition AInv (s : state) : Prop :=
  (∀ id j, st_jobs s !! id = Some j → jok (st_ghost s) id j) ∧
  (∀ id n, (length (st_jobs s) ≤ id)%nat → began (st_ghost s) id n = 0%nat).

(** ** primitives *)
Lemma AInv_same s s' : st_jobs s' = st_jobs s → st_ghost s' = st_ghost s → AInv s → AInv s'.
Proof. intros Hj Hg [H1 H2]. split; rewrite ?Hj, ?Hg; done. Qed.

Lemma AInv_upd s id f :
  AInv s → (∀ j, st_jobs s !! id = Some j → jok (st_ghost s) id j → jok (st_ghost s) id (f j)) → AInv (upd_job s id f).
Proof.
  intros [H1 H2] Hf. split; simpl.
  - intros id' j' Hl. destruct (decide (id = id')) as [<-|Hne].
    + rewrite list_lookup_alter in Hl. destruct (st_jobs s !! id) as [j|] eqn:E; [|done]. injection Hl as <-. by apply Hf, H1.
    + rewrite list_lookup_alter_ne in Hl by done. by apply H1.
  - intros id' n. rewrite alter_length. apply H2.
Qed.

Lemma jok_log g o id j : quiet_obs o → jok g id j → jok (o :: g) id j.
Proof.
  intros Hq [Ha Hb]. unfold jok. assert (He : ∀ n, began (o :: g) id n = began g id n) by (intros n; by rewrite began_cons, Hq).
  split; [intros n; by rewrite He|]. destruct (j_sched j) as [sc|].
  - destruct Hb as [Hs Hb]. split; [done|]. intros n. rewrite He. apply Hb.
  - intros H1 H2 n. rewrite He. by apply Hb.
Qed.

Lemma AInv_log s o : quiet_obs o → AInv s → AInv (log s o).
Proof.
  intros Hq [H1 H2]. split; simpl.
  - intros id j Hl. apply jok_log; [done|by apply H1].
  - intros id n Hlen. rewrite began_cons, Hq. by apply H2.
Qed.

Lemma AInv_append s j : AInv s → j_sched j = None → AInv (set_jobs s (st_jobs s ++ [j])).
Proof.
  intros [H1 H2] Hs. split; simpl.
  - intros id j' Hl. apply lookup_app_Some in Hl as [Hl|[Hlen Hl]]; [by apply H1|].
    destruct (id - length (st_jobs s))%nat eqn:E; [|done]. simpl in Hl. injection Hl as <-.
    unfold jok. rewrite Hs. split; [intros n; rewrite H2; lia|]. intros _ _ n. apply H2. lia.
  - intros id n Hlen. rewrite app_length in Hlen. simpl in Hlen. apply H2. lia.
Qed.

(** ** changes of a job that do not concern the invariant *)
Lemma jok_keep g id j j' :
  j_sched j' = j_sched j → (j_start j' = j_start j) →
  (j_canceled j' = false → j_canceled j = false) →
  jok g id j → jok g id j'.
Proof.
  intros Hs Hst Hc [Ha Hb]. split; [done|]. rewrite Hs, Hst. destruct (j_sched j) as [sc|]; [exact Hb|].
  intros H1 H2. apply Hb; auto.
Qed.

(** the scheduler changes: no stage goes back to waiting, and only stages that leave "waiting" enter *)
Definition sched_le (sc sc' : sched) : Prop :=
  ∀ n, (n ∈ sc_entry sc' → n ∈ sc_entry sc ∨ (stage_status sc n = Some Waiting ∧ stage_status sc' n ≠ Some Waiting)) ∧
       (stage_status sc' n = Some Waiting → stage_status sc n = Some Waiting).

Lemma jok_put g id j sc sc' :
  j_sched j = Some sc → sched_le sc sc' → jok g id j → jok g id (set_sched j (Some sc')).
Proof.
  intros Hs Hle [Ha Hb]. rewrite Hs in Hb. destruct Hb as [Hst Hb]. split; [done|]. simpl. split; [done|].
  intros n. destruct (Hle n) as [He Hw]. destruct (Hb n) as [Hb1 Hb2]. split.
  - intros Hin. destruct (He Hin) as [H|[H _]]; [by apply Hb1|by apply Hb2].
  - intros Hwait. pose proof (Hw Hwait) as H1. destruct (Hb2 H1) as [H0 Hnot]. split; [done|].
    intros Hin. destruct (He Hin) as [H|[_ H]]; [done|by apply H].
Qed.

Lemma AInv_put s id j sc sc' :
  AInv s → get_job s id = Some j → j_sched j = Some sc → sched_le sc sc' → AInv (put_sched s id sc').
Proof.
  intros Hi Hj Hs Hle. unfold put_sched. apply AInv_upd; [done|]. intros j0 Hj0 Hok.
  unfold get_job in Hj. assert (j0 = j) as -> by congruence. by eapply jok_put.
Qed.

Lemma stage_status_set sc n st m :
  stage_status (set_stage sc n st) m = (fun x => if Nat.eqb m n then st else x) <$> stage_status sc m.
Proof.
  unfold stage_status, set_stage. simpl. induction (sc_stages sc) as [|[k x] l IH]; [done|]. simpl.
  destruct (Nat.eqb_spec k n) as [->|Hkn]; simpl.
  - destruct (Nat.eqb_spec n m) as [->|Hnm]; simpl; [by rewrite Nat.eqb_refl|]. rewrite IH. done.
  - destruct (Nat.eqb_spec k m) as [->|Hkm]; simpl; [|by rewrite IH].
    destruct (Nat.eqb_spec m n); [congruence|done].
Qed.

Lemma set_stage_not_waiting sc n st m :
  st ≠ Waiting → stage_status (set_stage sc n st) m = Some Waiting → stage_status sc m = Some Waiting.
Proof.
  intros Hst. rewrite stage_status_set. destruct (stage_status sc m) as [x|]; [|done]. simpl.
  destruct (Nat.eqb m n); [congruence|done].
Qed.

(** a generic way to show sched_le: the entry list does not grow and the stages only change through set_stage to a
    non-waiting status *)
Lemma sched_le_shrink sc sc' :
  (∀ m, m ∈ sc_entry sc' → m ∈ sc_entry sc) → (∀ m, stage_status sc' m = Some Waiting → stage_status sc m = Some Waiting) → sched_le sc sc'.
Proof. intros H1 H2 n. split; [intros Hin; left; by apply H1|apply H2]. Qed.

Lemma elem_of_remove_name n m l : m ∈ remove_name n l → m ∈ l.
Proof. unfold remove_name. intros H. apply elem_of_list_In, filter_In in H as [H _]. by apply elem_of_list_In. Qed.

(** ** the pieces of the events *)
Lemma AInv_hsc s id n st : AInv s → AInv (handle_stage_change s id n st).
Proof.
  intros Hi. unfold handle_stage_change. destruct (find_job s id) as [j|]; [|done]. destruct (find_task j n) as [jt0|]; [|done].
  match goal with |- AInv (request_persist ?x) => apply (AInv_same x); [done|done|] end.
  apply AInv_upd; [exact Hi|].
  intros j0 _ Hok. eapply jok_keep; [| | |exact Hok]; done.
Qed.

Lemma AInv_cancel_started s id b :
  AInv s → (∀ j, st_jobs s !! id = Some j → is_Some (j_start j)) → AInv (cancel_job s id b).1.
Proof.
  intros Hi Hst. unfold cancel_job, find_job, get_job. destruct (st_jobs s !! id) as [j|] eqn:Hj; [|done].
  destruct (j_removed j); [done|]. destruct (j_canceled j); [done|]. destruct (j_completed j); [done|].
  destruct (Hst j eq_refl) as [t Ht]. rewrite Ht. destruct (j_sched j); [|done]. simpl.
  apply AInv_upd; [done|]. intros j0 _ Hok. eapply jok_keep; [| | |exact Hok]; done.
Qed.

Lemma AInv_htc s id n t :
  AInv s → (∀ j, st_jobs s !! id = Some j → is_Some (j_start j)) → AInv (handle_task_change s id n t).
Proof.
  intros Hi Hst. unfold handle_task_change. destruct (find_job s id) as [j|]; [|done]. destruct (find_task j n) as [jt0|]; [|done].
  set (upd := fun jt : jtask => _).
  assert (H1 : AInv (upd_job s id (fun j => upd_task j n upd))).
  { apply AInv_upd; [done|]. intros j0 _ Hok. eapply jok_keep; [| | |exact Hok]; done. }
  assert (Hst1 : ∀ j, st_jobs (upd_job s id (fun j => upd_task j n upd)) !! id = Some j → is_Some (j_start j)).
  { simpl. intros j1. rewrite list_lookup_alter. destruct (st_jobs s !! id) as [j0|] eqn:E; [|done]. intros [= <-]. simpl. by apply Hst. }
  match goal with |- AInv (request_persist ?x) => apply (AInv_same x); [done|done|] end.
  match goal with |- AInv (if ?c then _ else _) => destruct c; [|done] end.
  destruct (lookup_def _ _) as [d|]; [|done]. destruct (pd_continue d); [done|].
  by apply AInv_cancel_started.
Qed.

Lemma AInv_stage_end s id n r : AInv s → AInv (stage_end s id n r).
Proof.
  intros Hi. unfold stage_end. destruct (get_job s id) as [j|] eqn:Hj; [|done]. destruct (j_sched j) as [sc|] eqn:Hs; [|done].
  eapply AInv_put; [done|exact Hj|exact Hs|]. apply sched_le_shrink; simpl.
  - intros m Hm. by apply elem_of_remove_name in Hm.
  - intros m. apply set_stage_not_waiting. by destruct r.
Qed.

Lemma AInv_notify s id n s' : AInv s → do_notify s id n = Some s' → AInv s'.
Proof.
  intros Hi. unfold do_notify, with_sched. destruct (get_job s id) as [j|] eqn:Hj; [|done].
  destruct (j_sched j) as [sc|] eqn:Hs; [|done]. destruct (ending_of sc n) as [[r second]|]; [|done].
  assert (Hj1 : ∀ st, get_job (handle_stage_change s id n st) id = Some (default j (get_job (handle_stage_change s id n st) id))).
  { intros st. destruct (get_job (handle_stage_change s id n st) id) eqn:E; [done|].
    assert (Hsome : is_Some (get_job s id)) by (by exists j).
    apply (proj2 (SchedProps.handle_stage_change_is_Some s id n st id)) in Hsome. rewrite E in Hsome. by destruct Hsome. }
  assert (Hdone : ∀ sc', sched_le sc sc' → AInv (handle_stage_change (put_sched s id sc') id n Done)).
  { intros sc' Hle. apply AInv_hsc. by eapply AInv_put. }
  destruct r as [e|]; [destruct second|].
  - intros [= <-]. apply Hdone. apply sched_le_shrink; simpl; done.
  - destruct (match find_task j n with Some t => td_allow (jt_def t) | None => false end); intros [= <-].
    + (* the job's scheduler is unchanged by the error notification *)
      unfold put_sched. apply AInv_upd; [by apply AInv_hsc|]. intros j0 Hj0 Hok.
      assert (Hs0 : j_sched j0 = Some sc).
      { revert Hj0. unfold handle_stage_change. destruct (find_job s id) as [jf|]; [|unfold get_job in Hj; congruence].
        destruct (find_task jf n) as [jt0|]; [|unfold get_job in Hj; congruence]. simpl. rewrite list_lookup_alter.
        unfold get_job in Hj. rewrite Hj. intros [= <-]. done. }
      eapply jok_put; [exact Hs0| |exact Hok]. apply sched_le_shrink; simpl; [done|]. intros m. by apply set_stage_not_waiting.
    + unfold put_sched. apply AInv_upd; [by apply AInv_hsc|]. intros j0 Hj0 Hok.
      assert (Hs0 : j_sched j0 = Some sc).
      { revert Hj0. unfold handle_stage_change. destruct (find_job s id) as [jf|]; [|unfold get_job in Hj; congruence].
        destruct (find_task jf n) as [jt0|]; [|unfold get_job in Hj; congruence]. simpl. rewrite list_lookup_alter.
        unfold get_job in Hj. rewrite Hj. intros [= <-]. done. }
      eapply jok_put; [exact Hs0| |exact Hok]. apply sched_le_shrink; simpl; done.
  - intros [= <-]. apply Hdone. apply sched_le_shrink; simpl; done.
Qed.

Lemma stage_status_stages sc sc' m : sc_stages sc' = sc_stages sc → stage_status sc' m = stage_status sc m.
Proof. unfold stage_status. by intros ->. Qed.

Lemma AInv_iter_begin s id s' : AInv s → do_iter_begin s id = Some s' → AInv s'.
Proof.
  intros Hi. unfold do_iter_begin, with_sched. destruct (get_job s id) as [j|] eqn:Hj; [|done].
  destruct (j_sched j) as [sc|] eqn:Hs; [|done]. destruct (sc_phase sc); try done. intros [= <-].
  eapply AInv_put; [done|exact Hj|exact Hs|]. by apply sched_le_shrink.
Qed.

Lemma AInv_visit s id n s' : AInv s → do_visit s id n = Some s' → AInv s'.
Proof.
  intros Hi. unfold do_visit, with_sched. destruct (get_job s id) as [j|] eqn:Hj; [|done].
  destruct (j_sched j) as [sc|] eqn:Hs; [|done]. destruct (sc_phase sc) as [|todo|]; try done.
  destruct (mem n todo); [|done].
  assert (Hsame : ∀ ph, AInv (put_sched s id (set_phase sc ph))).
  { intros ph. eapply AInv_put; [done|exact Hj|exact Hs|]. by apply sched_le_shrink. }
  destruct (stage_status sc n) as [[]|] eqn:Hst; try (intros [= <-]; apply Hsame).
  destruct (check_status sc j n) as [[] []]; intros [= <-].
  1,2: (unfold put_sched; apply AInv_upd; [by apply AInv_hsc|]; intros j0 Hj0 Hok;
    assert (Hs0 : j_sched j0 = Some sc) by
      (revert Hj0; unfold handle_stage_change; destruct (find_job s id) as [jf|]; [|unfold get_job in Hj; congruence];
       destruct (find_task jf n) as [jt0|]; [|unfold get_job in Hj; congruence]; simpl; rewrite list_lookup_alter;
       unfold get_job in Hj; rewrite Hj; intros [= <-]; done);
    eapply jok_put; [exact Hs0| |exact Hok]; intros m; split;
    [ cbn [sc_entry set_phase]; intros Hin; apply elem_of_app in Hin as [Hin|Hin]; [by left|]; apply elem_of_list_singleton in Hin as ->; right;
      split; [done|]; rewrite (stage_status_stages (set_stage sc n Running)) by done; rewrite stage_status_set, Hst; simpl; rewrite Nat.eqb_refl; done
    | rewrite (stage_status_stages (set_stage sc n Running)) by done; apply set_stage_not_waiting; done ]).
  - eapply AInv_put; [done|exact Hj|exact Hs|]. apply sched_le_shrink; simpl; [done|]. intros m. by apply set_stage_not_waiting.
  - apply Hsame.
Qed.

Lemma AInv_cancel_deliver s id s' : AInv s → do_cancel_deliver s id = Some s' → AInv s'.
Proof.
  intros Hi. unfold do_cancel_deliver. destruct (get_job s id) as [j|] eqn:Hj; [|done].
  destruct (j_cancels j) as [|k]; [done|].
  set (dec := fun j : job => _).
  assert (H1 : AInv (upd_job s id dec)).
  { apply AInv_upd; [done|]. intros j0 _ Hok. eapply jok_keep; [| | |exact Hok]; done. }
  destruct (j_sched j) as [sc|] eqn:Hs; intros [= <-]; [|done].
  apply AInv_log; [done|]. unfold put_sched. apply AInv_upd; [done|]. intros j0 Hj0 Hok.
  assert (Hs0 : j_sched j0 = Some sc).
  { revert Hj0. simpl. rewrite list_lookup_alter. unfold get_job in Hj. rewrite Hj. intros [= <-]. done. }
  eapply jok_put; [exact Hs0| |exact Hok]. by apply sched_le_shrink.
Qed.

(** the one event that makes a task begin: it needs the stage goroutine parked at the entry of Run, and takes it from there *)
Lemma jok_began g id n j sc sc' :
  j_sched j = Some sc → n ∈ sc_entry sc → n ∉ sc_entry sc' →
  (∀ m, m ∈ sc_entry sc' → m ∈ sc_entry sc) → (∀ m, stage_status sc' m = Some Waiting → stage_status sc m = Some Waiting) →
  jok g id j → jok (ORunBegan id n :: g) id (set_sched j (Some sc')).
Proof.
  intros Hs Hin Hnot Hent Hw [Ha Hb]. rewrite Hs in Hb. destruct Hb as [Hst Hb].
  assert (Hn0 : began g id n = 0%nat) by (destruct (Hb n) as [H _]; by apply H).
  assert (He : ∀ m, began (ORunBegan id n :: g) id m = ((if Nat.eqb m n then 1 else 0) + began g id m)%nat).
  { intros m. rewrite began_cons. simpl. rewrite Nat.eqb_refl. simpl. by rewrite (Nat.eqb_sym n m). }
  split.
  - intros m. rewrite He. destruct (Nat.eqb_spec m n) as [->|]; [rewrite Hn0; lia|apply Ha].
  - simpl. split; [done|]. intros m. rewrite He. destruct (Hb m) as [Hb1 Hb2]. split.
    + intros Hm. destruct (Nat.eqb_spec m n) as [->|]; [done|]. simpl. apply Hb1. by apply Hent.
    + intros Hm. destruct (Hb2 (Hw _ Hm)) as [H0 Hne]. destruct (Nat.eqb_spec m n) as [->|]; [done|]. simpl. split; [done|].
      intros Hm'. by apply Hne, Hent.
Qed.

Lemma not_in_remove_name n l : n ∉ remove_name n l.
Proof.
  unfold remove_name. intros H. apply elem_of_list_In, filter_In in H as [_ H]. by rewrite Nat.eqb_refl in H.
Qed.

Lemma jok_ext g g' id j : (∀ m, began g' id m = began g id m) → jok g id j → jok g' id j.
Proof.
  intros He [Ha Hb]. split; [intros m; by rewrite He|]. destruct (j_sched j) as [sc|].
  - destruct Hb as [Hs Hb]. split; [done|]. intros m. rewrite He. apply Hb.
  - intros H1 H2 m. rewrite He. by apply Hb.
Qed.

Lemma began_other g id n id' m : id ≠ id' → began (ORunBegan id n :: g) id' m = began g id' m.
Proof. intros Hne. rewrite began_cons. simpl. destruct (Nat.eqb_spec id id'); [done|]. done. Qed.

Lemma AInv_began s id n j sc sc' :
  AInv s → st_jobs s !! id = Some j → j_sched j = Some sc → n ∈ sc_entry sc → n ∉ sc_entry sc' →
  (∀ m, m ∈ sc_entry sc' → m ∈ sc_entry sc) → (∀ m, stage_status sc' m = Some Waiting → stage_status sc m = Some Waiting) →
  AInv (put_sched (log s (ORunBegan id n)) id sc').
Proof.
  intros [H1 H2] Hj Hs Hin Hnot Hent Hw. split; simpl.
  - intros id' j' Hl. destruct (decide (id = id')) as [<-|Hne].
    + rewrite list_lookup_alter, Hj in Hl. injection Hl as <-. eapply jok_began; try done. by apply H1.
    + rewrite list_lookup_alter_ne in Hl by done. eapply jok_ext; [|by apply H1]. intros m. by apply began_other.
  - intros id' m Hlen. rewrite alter_length in Hlen. apply lookup_lt_Some in Hj.
    rewrite began_other by lia. by apply H2.
Qed.

Lemma AInv_run_begin s id n s' : AInv s → do_run_begin s id n = Some s' → AInv s'.
Proof.
  intros Hi. unfold do_run_begin, with_sched. destruct (get_job s id) as [j|] eqn:Hj; [|done].
  destruct (j_sched j) as [sc|] eqn:Hs; [|done]. destruct (mem n (sc_entry sc)) eqn:Hmem; [|done].
  assert (Hin : n ∈ sc_entry sc).
  { unfold mem in Hmem. apply existsb_exists in Hmem as (x & Hx & Heq). apply Nat.eqb_eq in Heq. subst x. by apply elem_of_list_In. }
  destruct (sc_ctx sc).
  - intros [= <-]. apply AInv_stage_end. by apply AInv_log.
  - destruct (match find_task j n with Some t => td_empty (jt_def t) | None => true end).
    + intros [= <-].
      (* the task has no command: it "begins" and ends at once; the goroutine leaves the entry in the same step *)
      unfold stage_end.
      change (get_job (log (log (add_log_dir s id) (ORunBegan id n)) (ORunEnded id n true)) id) with (get_job s id).
      rewrite Hj, Hs.
      match goal with |- AInv (put_sched _ id ?sc') =>
        change (AInv (log (put_sched (log (add_log_dir s id) (ORunBegan id n)) id sc') (ORunEnded id n true))) end.
      apply AInv_log; [done|].
      eapply (AInv_began (add_log_dir s id) id n j sc); try done.
      * change (n ∉ remove_name n (sc_entry sc)). apply not_in_remove_name.
      * intros m Hm. change (m ∈ remove_name n (sc_entry sc)) in Hm. by apply elem_of_remove_name in Hm.
      * intros m. rewrite (stage_status_stages (set_stage sc n Done)) by done. by apply set_stage_not_waiting.
    + intros [= <-]. apply AInv_htc.
      * eapply (AInv_began (add_log_dir s id) id n j sc); try done.
        -- change (n ∉ remove_name n (sc_entry sc)). apply not_in_remove_name.
        -- intros m Hm. change (m ∈ remove_name n (sc_entry sc)) in Hm. by apply elem_of_remove_name in Hm.
      * simpl. intros j1. rewrite list_lookup_alter. unfold get_job in Hj. rewrite Hj. intros [= <-]. simpl.
        destruct Hi as [H1 _]. destruct (H1 id j Hj) as [_ Hb]. rewrite Hs in Hb. by destruct Hb.
Qed.

Lemma cancel_started_start s id b :
  (∀ j, st_jobs s !! id = Some j → is_Some (j_start j)) → ∀ j', st_jobs (cancel_job s id b).1 !! id = Some j' → is_Some (j_start j').
Proof.
  intros Hst j'. pose proof (Hst j') as Hsame. unfold cancel_job, find_job, get_job.
  destruct (st_jobs s !! id) as [j|] eqn:Hj; simpl; [|rewrite Hj; done].
  destruct (j_removed j); [simpl; try rewrite Hj; exact Hsame|]. destruct (j_canceled j); [simpl; try rewrite Hj; exact Hsame|].
  destruct (j_completed j); [simpl; try rewrite Hj; exact Hsame|].
  destruct (Hst j eq_refl) as [t Ht]. rewrite Ht. destruct (j_sched j); [|simpl; try rewrite Hj; exact Hsame]. simpl.
  rewrite list_lookup_alter, Hj. intros [= <-]. simpl. by rewrite Ht.
Qed.

Lemma htc_started s id n t :
  (∀ j, st_jobs s !! id = Some j → is_Some (j_start j)) → ∀ j', st_jobs (handle_task_change s id n t) !! id = Some j' → is_Some (j_start j').
Proof.
  intros Hst. unfold handle_task_change. destruct (find_job s id) as [j|]; [|done]. destruct (find_task j n) as [jt0|]; [|done].
  set (upd := fun jt : jtask => _).
  assert (Hst1 : ∀ j, st_jobs (upd_job s id (fun j => upd_task j n upd)) !! id = Some j → is_Some (j_start j)).
  { simpl. intros j1. rewrite list_lookup_alter. destruct (st_jobs s !! id) as [j0|] eqn:E; [|done]. intros [= <-]. simpl. by apply Hst. }
  change (st_jobs (request_persist ?x)) with (st_jobs x).
  match goal with |- ∀ j', st_jobs (if ?c then _ else _) !! id = _ → _ => destruct c; [|done] end.
  destruct (lookup_def _ _) as [d|]; [|done]. destruct (pd_continue d); [done|].
  by apply cancel_started_start.
Qed.

Lemma AInv_run_end s id n o s' : AInv s → do_run_end s id n o = Some s' → AInv s'.
Proof.
  intros Hi. unfold do_run_end, with_sched. destruct (get_job s id) as [j|] eqn:Hj; [|done].
  destruct (j_sched j) as [sc|] eqn:Hs; [|done]. destruct (mem n (sc_running sc)); [|done].
  assert (Hst : ∀ s0, st_jobs s0 = st_jobs s → ∀ j1, st_jobs s0 !! id = Some j1 → is_Some (j_start j1)).
  { intros s0 Heq j1. rewrite Heq. unfold get_job in Hj. rewrite Hj. intros [= <-].
    destruct Hi as [H1 _]. destruct (H1 id j Hj) as [_ Hb]. rewrite Hs in Hb. by destruct Hb. }
  assert (Hhtc : ∀ ok t, AInv (handle_task_change (log s (ORunEnded id n ok)) id n t)).
  { intros ok t. apply AInv_htc; [by apply AInv_log|]. by apply Hst. }
  destruct o as [|code|].
  - intros [= <-]. apply AInv_stage_end, Hhtc.
  - destruct (match find_task j n with Some t => td_allow (jt_def t) | None => false end); intros [= <-].
    + apply AInv_stage_end. apply AInv_htc; [apply Hhtc|]. apply htc_started. by apply Hst.
    + apply AInv_stage_end, Hhtc.
  - destruct (sc_ctx sc); [|done]. intros [= <-]. apply AInv_stage_end, Hhtc.
Qed.

(** ** starting jobs *)
Lemma AInv_try_start s id :
  AInv s → (∀ j, st_jobs s !! id = Some j → j_canceled j = false → j_start j = None ∧ j_sched j = None) → AInv (try_start s id).1.
Proof.
  intros Hi Hun. unfold try_start, find_job, get_job. destruct (st_jobs s !! id) as [j|] eqn:Hj; [|done].
  destruct (j_removed j); [done|]. destruct (j_canceled j) eqn:Hc; [done|].
  destruct (Hun j eq_refl Hc) as [Hst Hsc].
  destruct (graph_ok j); cbn [fst].
  - apply AInv_log; [done|]. apply AInv_upd; [by apply (AInv_same s)|]. simpl. intros j0. rewrite Hj. intros [= <-] [Ha Hb].
    rewrite Hsc in Hb. specialize (Hb Hst Hc). split; [done|]. simpl. split; [done|]. intros n. split; [intros H; by apply elem_of_nil in H|].
    intros _. split; [done|]. apply not_elem_of_nil.
  - apply AInv_log; [done|]. apply AInv_upd; [by apply (AInv_same s)|]. intros j0 _ Hok. eapply jok_keep; [| | |exact Hok]; done.
Qed.

Lemma try_start_wait s id : st_wait (try_start s id).1 = st_wait s.
Proof. unfold try_start. destruct (find_job s id) as [j|]; [|done]. destruct (j_canceled j); [done|]. by destruct (graph_ok j). Qed.

Lemma try_start_other s id id' : id' ≠ id → st_jobs (try_start s id).1 !! id' = st_jobs s !! id'.
Proof.
  intros Hne. unfold try_start. destruct (find_job s id) as [j|]; [|done]. destruct (j_canceled j); [done|].
  destruct (graph_ok j); simpl; by rewrite list_lookup_alter_ne.
Qed.

(** the wait list of a pipeline holds each job once, and only jobs that have not been started *)
Definition Hp (s : state) (p : name) : Prop :=
  NoDup (wl_get (st_wait s) p) ∧
  ∀ id, id ∈ wl_get (st_wait s) p → ∃ j, st_jobs s !! id = Some j ∧ j_start j = None ∧ j_sched j = None.

Lemma AInv_dequeue_loop fuel s p : AInv s → Hp s p → AInv (dequeue_loop fuel s p).
Proof.
  revert s. induction fuel as [|x fuel IH]; intros s Hi [Hnd Hw]; simpl; [done|].
  destruct (wl_get (st_wait s) p) as [|h rest] eqn:Hwl; [done|].
  destruct (get_job s h) as [j|] eqn:Hj; [|done].
  destruct (bool_decide _ && negb (j_timer j)); [|done].
  apply NoDup_cons in Hnd as [Hh Hnd].
  apply IH.
  - apply AInv_try_start; [by apply (AInv_same s)|]. simpl. intros j0 Hj0 _.
    destruct (Hw h) as (jh & Hjh & H1 & H2); [by left|]. assert (j0 = jh) as -> by congruence. done.
  - split.
    + rewrite try_start_wait. simpl. by rewrite wl_get_set_eq.
    + intros id. rewrite try_start_wait. simpl. rewrite wl_get_set_eq. intros Hin.
      destruct (Hw id) as (ji & Hji & H1 & H2); [by right|]. exists ji. split; [|done].
      rewrite try_start_other; [done|]. intros ->. done.
Qed.

Lemma AInv_dequeue s p : AInv s → Hp s p → AInv (dequeue s p).
Proof. apply AInv_dequeue_loop. Qed.

Lemma Hp_mono s s' p :
  NoDup (wl_get (st_wait s') p) →
  (∀ id, id ∈ wl_get (st_wait s') p → id ∈ wl_get (st_wait s) p ∧
         ∀ j, st_jobs s !! id = Some j → ∃ j', st_jobs s' !! id = Some j' ∧ j_start j' = j_start j ∧ j_sched j' = j_sched j) →
  Hp s p → Hp s' p.
Proof.
  intros Hnd Hsub [_ Hw]. split; [done|]. intros id Hin. destruct (Hsub id Hin) as [Hin0 Hj].
  destruct (Hw id Hin0) as (j & Hl & H1 & H2). destruct (Hj j Hl) as (j' & Hl' & H1' & H2'). exists j'. split; [done|]. split; congruence.
Qed.

Lemma Hp_of_RInv s p : RInv (abs s) → Hp s p.
Proof.
  intros Hinv. split.
  - pose proof (inv_sorted _ _ Hinv p) as Hs. simpl in Hs.
    induction Hs as [|x l Hs IH Hall]; constructor; [|done].
    intros Hin. rewrite Forall_forall in Hall. specialize (Hall x Hin). lia.
  - intros id Hin. destruct (inv_wl _ _ Hinv p id Hin) as (rj & Hrj & _ & Hw & _).
    simpl in Hrj. rewrite list_lookup_fmap in Hrj. destruct (st_jobs s !! id) as [j|] eqn:Hj; [|done]. injection Hrj as <-.
    exists j. split; [done|]. apply waiting_inv in Hw as [Hst Hc]. simpl in Hst. split; [done|].
    destruct (j_sched j) as [sc|] eqn:Hsc; [|done].
    assert (Hl : r_live (abs_job j) = true) by (simpl; by rewrite Hsc).
    destruct (inv_live _ _ Hinv id (abs_job j)) as ([t Ht] & _); [simpl; by rewrite list_lookup_fmap, Hj|done|]. simpl in Ht. congruence.
Qed.

(** ** the events that touch wait lists *)
Lemma NoDup_remove_id id l : NoDup l → NoDup (remove_id id l).
Proof. unfold remove_id. intros H. induction H as [|x l Hx Hl IH]; simpl; [constructor|]. destruct (negb (x =? id)); [|done].
  constructor; [|done]. intros Hin. apply Hx. apply elem_of_list_In, filter_In in Hin as [Hin _]. by apply elem_of_list_In. Qed.

Lemma AInv_cancel s id b : AInv s → (∀ p, Hp s p) → AInv (cancel_job s id b).1.
Proof.
  intros Hi HW. unfold cancel_job, find_job, get_job. destruct (st_jobs s !! id) as [j|] eqn:Hj; [|done].
  destruct (j_removed j); [done|]. destruct (j_canceled j); [done|]. destruct (j_completed j); [done|].
  destruct (j_start j) eqn:Hst.
  - destruct (j_sched j); [|done]. simpl. apply AInv_upd; [done|]. intros j0 _ Hok. eapply jok_keep; [| | |exact Hok]; done.
  - cbn [fst]. apply (AInv_same (dequeue (log (set_wait (upd_job s id mark_canceled) (j_pipe j)
        (remove_id id (wl_get (st_wait (upd_job s id mark_canceled)) (j_pipe j)))) (OFinished id true None)) (j_pipe j))); [done|done|].
    apply AInv_dequeue.
    + apply AInv_log; [done|]. apply (AInv_same (upd_job s id mark_canceled)); [done|done|].
      apply AInv_upd; [done|]. intros j0 _ Hok. eapply jok_keep; [| | |exact Hok]; done.
    + eapply (Hp_mono s); [| |apply HW]; simpl; rewrite wl_get_set_eq.
      * apply NoDup_remove_id. apply HW.
      * intros i Hin. apply elem_of_remove_id in Hin as [Hin Hne]. split; [done|]. intros ji Hji.
        exists ji. rewrite list_lookup_alter_ne by done. done.
Qed.

Lemma AInv_schedule s p v u : AInv s → (∀ q, Hp s q) → AInv (do_schedule s p v u).1.
Proof.
  intros Hi HW. unfold do_schedule. destruct (st_shut s); [done|]. destruct (lookup_def (st_defs s) p) as [d|]; [|by apply AInv_log].
  set (nj := new_job s p d v u).
  set (s1 := log (request_persist (set_jobs s (st_jobs s ++ [nj]))) (OAccepted (length (st_jobs s)) p)).
  assert (H1 : AInv s1).
  { apply AInv_log; [done|]. apply (AInv_same (set_jobs s (st_jobs s ++ [nj]))); [done|done|]. by apply AInv_append. }
  assert (Hstart : AInv (start_job s1 (length (st_jobs s)) p)).
  { unfold start_job. destruct (try_start s1 (length (st_jobs s))) as [s' failed] eqn:Hts.
    assert (Hs' : s' = (try_start s1 (length (st_jobs s))).1) by (by rewrite Hts). 
    assert (H2 : AInv s').
    { rewrite Hs'. apply AInv_try_start; [done|]. simpl. intros j0. rewrite lookup_app_r by lia. rewrite Nat.sub_diag. simpl. intros [= <-] _. done. }
    destruct failed; [|done]. apply AInv_dequeue; [done|].
    eapply (Hp_mono s); [| |apply HW]; rewrite Hs', try_start_wait; simpl.
    - apply HW.
    - intros i Hin. split; [done|]. intros ji Hji. exists ji. split; [|done].
      rewrite try_start_other; [|apply lookup_lt_Some in Hji; lia]. simpl. by rewrite lookup_app_l by (by eapply lookup_lt_Some). }
  destruct (resolve_action s p false); cbn [fst]; try done; try (by apply AInv_log).
  destruct (last _) as [prev|]; [|done]. cbn [fst]. apply AInv_log; [done|].
  match goal with |- AInv (set_wait ?x _ _) => apply (AInv_same x); [done|done|] end.
  apply AInv_upd; [done|]. intros j0 _ Hok. eapply jok_keep; [| | |exact Hok]; done.
Qed.

Lemma AInv_fire s id s' : AInv s → (∀ q, Hp s q) → do_fire_timer s id = Some s' → AInv s'.
Proof.
  intros Hi HW. unfold do_fire_timer. destruct (get_job s id) as [j|] eqn:Hj; [|done]. destruct (timer_due s j); [|done].
  assert (H1 : AInv (upd_job s id clear_timer)).
  { apply AInv_upd; [done|]. intros j0 _ Hok. eapply jok_keep; [| | |exact Hok]; done. }
  destruct (find_job s id); [|by intros [= <-]]. destruct (j_canceled j); intros [= <-]; [done|].
  apply AInv_dequeue; [done|]. eapply (Hp_mono s); [| |apply HW]; simpl.
  - apply HW.
  - intros i Hin. split; [done|]. intros ji Hji. destruct (decide (i = id)) as [->|Hne].
    + rewrite list_lookup_alter, Hji. simpl. eexists. split; [done|]. done.
    + exists ji. by rewrite list_lookup_alter_ne.
Qed.

Lemma AInv_sched_return s id s' : AInv s → (∀ q, Hp s q) → do_sched_return s id = Some s' → AInv s'.
Proof.
  intros Hi HW. unfold do_sched_return, with_sched. destruct (get_job s id) as [j|] eqn:Hj; [|done].
  destruct (j_sched j) as [sc|] eqn:Hs; [|done].
  destruct (sc_phase sc); try done. destruct (sc_entry sc); try done. destruct (sc_running sc); try done. destruct (sc_ending sc); try done.
  assert (H1 : AInv (upd_job s id (complete (st_now s) (sc_lasterr sc)))).
  { apply AInv_upd; [done|]. intros j0 Hj0 [Ha Hb]. unfold get_job in Hj. assert (j0 = j) as -> by congruence.
    rewrite Hs in Hb. destruct Hb as [[t Ht] _]. split; [done|]. simpl. rewrite Ht. done. }
  destruct (j_removed j); intros [= <-]; [done|].
  match goal with |- AInv (request_persist ?x) => apply (AInv_same x); [done|done|] end.
  apply AInv_dequeue; [by apply AInv_log|].
  eapply (Hp_mono s); [| |apply HW]; simpl.
  - apply HW.
  - intros i Hin. split; [done|]. intros ji Hji. destruct (decide (i = id)) as [->|Hne].
    + (* the finishing job has a scheduler: it is not on a wait list *)
      destruct (HW (j_pipe j)) as [_ Hw]. destruct (Hw id Hin) as (jw & Hjw & _ & Hnone). unfold get_job in Hj. congruence.
    + exists ji. by rewrite list_lookup_alter_ne.
Qed.

Lemma began_quiet_app os g id n : Forall quiet_obs os → began (os ++ g) id n = began g id n.
Proof. induction 1 as [|o os Ho Hos IH]; [done|]. simpl. rewrite began_cons, IH. by rewrite (Ho id n). Qed.

(** changes of the whole job list that keep every job's scheduler, start and canceledness (or cancel it) *)
Lemma AInv_imap s s' (F : nat → job → job) os :
  st_jobs s' = imap F (st_jobs s) → st_ghost s' = os ++ st_ghost s → Forall quiet_obs os →
  (∀ id j, jok (st_ghost s) id j → jok (st_ghost s) id (F id j)) → AInv s → AInv s'.
Proof.
  intros Hj Hg Hq HF [H1 H2].
  assert (Hb : ∀ id n, began (os ++ st_ghost s) id n = began (st_ghost s) id n) by (intros; by apply began_quiet_app).
  split; rewrite Hj, Hg.
  - intros id j'. rewrite list_lookup_imap. destruct (st_jobs s !! id) as [j|] eqn:E; [|done]. simpl. intros [= <-].
    eapply jok_ext; [intros m; apply Hb|]. apply HF. by apply H1.
  - intros id n. rewrite imap_length. intros Hlen. rewrite Hb. by apply H2.
Qed.

Lemma AInv_save s : AInv s → AInv (do_save s).
Proof.
  intros Hi. unfold do_save.
  eapply (AInv_imap s); [reflexivity|reflexivity| | |done].
  - apply Forall_fmap. apply Forall_forall. intros x _. done.
  - intros id j Hok. cbv beta zeta. match goal with |- jok _ _ (if ?c then _ else _) => destruct c; [|done] end. eapply jok_keep; [| | |exact Hok]; done.
Qed.

Lemma AInv_restart s s' : AInv s → do_restart s = Some s' → AInv s'.
Proof.
  intros Hi. unfold do_restart. destruct (st_shutg s); [done|]. destruct (all_quiet s); [|done]. intros [= <-].
  eapply (AInv_imap s _ _ []); [reflexivity|reflexivity|constructor| |done].
  intros id j [Ha _]. cbv beta zeta. match goal with |- jok _ _ (match ?c with _ => _ end) => destruct c as [pj|] end.
  - split; [done|]. unfold from_pjob. simpl. intros Hst Hc. rewrite Hst in Hc. by rewrite !orb_true_r in Hc.
  - split; [done|]. simpl. done.
Qed.

Lemma AInv_shutdown_begin s s' : AInv s → do_shutdown_begin s = Some s' → AInv s'.
Proof.
  intros Hi. unfold do_shutdown_begin. destruct (st_shutg s); [done|]. destruct (st_shut s); [done|]. intros [= <-].
  eapply (AInv_imap s _ _ []); [reflexivity|reflexivity|constructor| |done].
  intros id j Hok. cbv beta zeta. match goal with |- jok _ _ (if ?c then _ else _) => destruct c; [|done] end. eapply jok_keep; [| | |exact Hok]; done.
Qed.

(** forced shutdown: no job is waiting any more, so every cancel goes the "started" way *)
Definition NW (s : state) : Prop :=
  ∀ id j, st_jobs s !! id = Some j → j_removed j = false → j_canceled j = false → is_Some (j_start j).

Lemma cancel_nw s id b : AInv s → NW s → AInv (cancel_job s id b).1 ∧ NW (cancel_job s id b).1.
Proof.
  intros Hi Hnw. unfold cancel_job, find_job, get_job. destruct (st_jobs s !! id) as [j|] eqn:Hj; [|done].
  destruct (j_removed j) eqn:Hr; [done|]. destruct (j_canceled j) eqn:Hc; [done|]. destruct (j_completed j); [done|].
  destruct (Hnw id j Hj Hr Hc) as [t Ht]. rewrite Ht. destruct (j_sched j); [|done]. simpl. split.
  - apply AInv_upd; [done|]. intros j0 _ Hok. eapply jok_keep; [| | |exact Hok]; done.
  - intros id' j'. simpl. destruct (decide (id = id')) as [<-|Hne].
    + rewrite list_lookup_alter, Hj. intros [= <-]. simpl. intros _ _. by rewrite Ht.
    + rewrite list_lookup_alter_ne by done. apply Hnw.
Qed.

Lemma AInv_fold_cancel l s : AInv s → NW s → AInv (fold_left (fun s id => (cancel_job s id true).1) l s).
Proof.
  revert s. induction l as [|x l IH]; intros s Hi Hnw; simpl; [done|].
  destruct (cancel_nw s x true Hi Hnw) as [H1 H2]. by apply IH.
Qed.

Lemma NW_of_RInv s : RInv (abs s) → st_shut s = true → NW s.
Proof.
  intros Hinv Hsh id j Hj Hr Hc. destruct (j_start j) eqn:Hst; [done|]. exfalso.
  assert (Hw : r_is_waiting (abs_job j) = false).
  { eapply (inv_shutw _ _ Hinv); [done| |done]. simpl. by rewrite list_lookup_fmap, Hj. }
  unfold r_is_waiting in Hw. simpl in Hw. rewrite Hst, Hc in Hw. done.
Qed.

Lemma AInv_shutdown_force s s' : AInv s → RInv (abs s) → shutg_ok s → do_shutdown_force s = Some s' → AInv s'.
Proof.
  intros Hi Hinv Hok. unfold do_shutdown_force. destruct (st_shutg s) as [[]|] eqn:Hg; try done.
  destruct (any_running s); [|done]. intros [= <-].
  set (x := fold_left (fun s id => (cancel_job s id true).1) (seq 0 (length (st_jobs s))) s).
  apply (AInv_same x); [done|done|].
  apply AInv_fold_cancel; [done|]. apply NW_of_RInv; [done|]. apply Hok. by rewrite Hg.
Qed.

Lemma AInv_shutdown_return s s' : AInv s → do_shutdown_return s = Some s' → AInv s'.
Proof.
  intros Hi. unfold do_shutdown_return. destruct (st_shutg s); [|done]. destruct (_ && _); [|done]. intros [= <-].
  apply (AInv_same (do_save s)); [done|done|]. by apply AInv_save.
Qed.

(** ** every step keeps the invariant *)
Lemma AInv_step s e s' r : reach s → AInv s → step s e = Some (s', r) → AInv s'.
Proof.
  intros Hr Hi. pose proof (reach_inv s Hr) as Hinv.
  assert (HW : ∀ q, Hp (clear_req s) q) by (intros q; by apply Hp_of_RInv).
  assert (Hi' : AInv (clear_req s)) by (by apply (AInv_same s)).
  unfold step. destruct e; cbn [fmap option_fmap option_map].
  - intros [= Heq]. replace s' with (do_schedule (clear_req s) p v user).1 by (by rewrite Heq). by apply AInv_schedule.
  - intros [= Heq]. replace s' with (cancel_job (clear_req s) id true).1 by (by rewrite Heq). by apply AInv_cancel.
  - intros [= <- _]. by apply (AInv_same s).
  - destruct (do_fire_timer (clear_req s) id) as [s1|] eqn:Hf; [|done]. intros [= <- _]. by eapply AInv_fire.
  - intros [= <- _]. by apply (AInv_same s).
  - destruct (do_iter_begin (clear_req s) id) as [s1|] eqn:Hf; [|done]. intros [= <- _]. by eapply AInv_iter_begin.
  - destruct (do_visit (clear_req s) id n) as [s1|] eqn:Hf; [|done]. intros [= <- _]. by eapply AInv_visit.
  - destruct (do_run_begin (clear_req s) id n) as [s1|] eqn:Hf; [|done]. intros [= <- _]. by eapply AInv_run_begin.
  - destruct (do_run_end (clear_req s) id n o) as [s1|] eqn:Hf; [|done]. intros [= <- _]. by eapply AInv_run_end.
  - destruct (do_notify (clear_req s) id n) as [s1|] eqn:Hf; [|done]. intros [= <- _]. by eapply AInv_notify.
  - destruct (do_cancel_deliver (clear_req s) id) as [s1|] eqn:Hf; [|done]. intros [= <- _]. by eapply AInv_cancel_deliver.
  - destruct (do_sched_return (clear_req s) id) as [s1|] eqn:Hf; [|done]. intros [= <- _]. by eapply AInv_sched_return.
  - intros [= <- _]. by apply AInv_save.
  - destruct (do_restart (clear_req s)) as [s1|] eqn:Hf; [|done]. intros [= <- _]. by eapply AInv_restart.
  - destruct (do_shutdown_begin (clear_req s)) as [s1|] eqn:Hf; [|done]. intros [= <- _]. by eapply AInv_shutdown_begin.
  - destruct (do_shutdown_force (clear_req s)) as [s1|] eqn:Hf; [|done]. intros [= <- _].
    eapply AInv_shutdown_force; [exact Hi'|exact Hinv| |exact Hf]. apply (reach_shutg_ok s Hr).
  - destruct (do_shutdown_return (clear_req s)) as [s1|] eqn:Hf; [|done]. intros [= <- _]. by eapply AInv_shutdown_return.
Qed.

Lemma AInv_init ds : AInv (init ds).
Proof. split; [intros id j H; simpl in H; by destruct id|done]. Qed.

Lemma AInv_init_from ds pjs : AInv (init_from ds pjs).
Proof.
  split; simpl; [|done]. intros id j Hj. rewrite list_lookup_fmap in Hj. destruct (pjs !! id) as [pj|]; [|done]. injection Hj as <-.
  split; [intros n; unfold began; simpl; lia|]. unfold from_pjob. simpl. intros Hst Hc. rewrite Hst in Hc. by rewrite !orb_true_r in Hc.
Qed.

Theorem reach_AInv s : reach s → AInv s.
Proof.
  induction 1.
  - apply AInv_init.
  - apply AInv_init_from.
  - by eapply AInv_step.
Qed.

(** over every history, whatever the interleaving: no task of any job begins executing twice *)
Theorem at_most_once s id n : reach s → (began (st_ghost s) id n ≤ 1)%nat.
Proof.
  intros Hr. destruct (reach_AInv s Hr) as [H1 H2].
  destruct (st_jobs s !! id) as [j|] eqn:Hj.
  - by destruct (H1 id j Hj) as [Ha _].
  - rewrite H2; [lia|]. by apply lookup_ge_None.
Qed.

(** * StoreFS: the write protocol of the JSON data store (store/store.go, JsonDataStore.Save / Load) as a machine over a
    directory. A save creates a temp file with a fresh name (os.CreateTemp: O_EXCL), writes the encoding in chunks,
    closes it and renames it over data.json. Saves may overlap; a crash stops a save between any two steps; a reader may
    look at any time. *)
From stdpp Require Import list.
From Coq Require Import Lia.

Definition bytes := list nat.

Record proc := Proc {
  p_tmp : nat;                 (* name of its temp file *)
  p_content : bytes;           (* the complete encoding it is writing *)
  p_todo : list bytes;         (* chunks still to be written *)
  p_closed : bool }.

Record dir := Dir {
  d_data : option bytes;                (* data.json *)
  d_tmps : list (nat * bytes);          (* temp files *)
  d_procs : list proc;                  (* saves in progress *)
  d_renamed : list bytes }.             (* ghost: the encodings whose save has reached its rename *)

Definition tmp_get (d : dir) (n : nat) : option bytes := snd <$> find (fun x => Nat.eqb (fst x) n) (d_tmps d).
Definition tmp_set (ts : list (nat * bytes)) (n : nat) (b : bytes) : list (nat * bytes) :=
  (n, b) :: List.filter (fun x => negb (Nat.eqb (fst x) n)) ts.
Definition tmp_del (ts : list (nat * bytes)) (n : nat) : list (nat * bytes) :=
  List.filter (fun x => negb (Nat.eqb (fst x) n)) ts.

Inductive fsevent :=
  | FStart (n : nat) (chunks : list bytes)     (* os.CreateTemp: [n] must not exist; the encoder will write [chunks] *)
  | FStep (n : nat)                            (* the save with temp file [n] performs its next system call *)
  | FCrash (n : nat).                          (* that save stops for good (process killed) *)

Definition fsstep (d : dir) (e : fsevent) : option dir :=
  match e with
  | FStart n chunks =>
      match tmp_get d n with
      | Some _ => None                         (* O_EXCL: the name is taken *)
      | None => Some (Dir (d_data d) (tmp_set (d_tmps d) n []) (Proc n (concat chunks) chunks false :: d_procs d) (d_renamed d))
      end
  | FStep n =>
      match find (fun p => Nat.eqb (p_tmp p) n) (d_procs d) with
      | None => None
      | Some p =>
          let others := List.filter (fun q => negb (Nat.eqb (p_tmp q) n)) (d_procs d) in
          match p_todo p, p_closed p with
          | c :: rest, _ =>                    (* write(2) of the next chunk *)
              Some (Dir (d_data d) (tmp_set (d_tmps d) n (default [] (tmp_get d n) ++ c))
                        (Proc n (p_content p) rest false :: others) (d_renamed d))
          | [], false =>                       (* close(2) *)
              Some (Dir (d_data d) (d_tmps d) (Proc n (p_content p) [] true :: others) (d_renamed d))
          | [], true =>                        (* rename(2) over data.json: atomic *)
              Some (Dir (tmp_get d n) (tmp_del (d_tmps d) n) others (p_content p :: d_renamed d))
          end
      end
  | FCrash n => Some (Dir (d_data d) (d_tmps d) (List.filter (fun q => negb (Nat.eqb (p_tmp q) n)) (d_procs d)) (d_renamed d))
  end.

Definition fsrun (d : dir) (es : list fsevent) : dir :=
  fold_left (fun d e => match fsstep d e with Some d' => d' | None => d end) es d.

Definition dir0 : dir := Dir None [] [] [].

(** ** the alternative protocol the code does not use: truncate data.json and write it in place *)
Inductive ipevent := IPTrunc | IPWrite (c : bytes).
Definition ipstep (data : option bytes) (e : ipevent) : option bytes :=
  match e with IPTrunc => Some [] | IPWrite c => Some (default [] data ++ c) end.

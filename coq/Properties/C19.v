(** * C19 — Task output is captured completely and attributed correctly
    PARTIAL: pipes, the file system, process scheduling and the interpreter's hand-over of the writers are exercised by
    the check (real processes, real files), not modelled; the theorems are about the store and capture protocol. *)
From stdpp Require Import list strings.
From Coq Require Import NArith.
From PV Require Import Output proofs.OutputProps.

(** one file per job, task and stream: different (job, task, stream) never share a path *)
Theorem C19_path_injective : ∀ k1 k2 : key, build_path k1 = build_path k2 → k1 = k2.
Proof. exact build_path_inj. Qed.

(** for every trace of store events — any number of other runs, removals, anything, interleaved in any way — in which
    the events concerning (job, task) are those of one run of that task: each of its two files holds exactly the bytes
    its commands wrote to that stream, all of them, in order, across all commands, the two streams apart *)
Theorem C19_stream_content : ∀ tr f j t cmds s,
  List.filter (of_run j t) tr = run_events j t cmds → exec tr f (j, t, s) = Some (stream_of s cmds).
Proof. exact content_of_run. Qed.

(** any set of runs of pairwise different (job, task), writing at once in any interleaving: output never mixes *)
Theorem C19_concurrent_runs : ∀ (runs : list (string * string * list cmd)) tr f,
  NoDup (map run_id runs) → interleave (map run_evs runs) tr →
  ∀ j t cmds s, (j, t, cmds) ∈ runs → exec tr f (j, t, s) = Some (stream_of s cmds).
Proof. exact concurrent_runs. Qed.

(** what no event touches does not change *)
Theorem C19_frame : ∀ tr f k, Forall (fun e => touches k e = false) tr → exec tr f k = f k.
Proof. exact untouched_unchanged. Qed.

(** the log request returns exactly those two files for a task of the job, and is refused for any other name *)
Theorem C19_request : ∀ tr f j t cmds tasks,
  t ∈ tasks → List.filter (of_run j t) tr = run_events j t cmds →
  logs_request (exec tr f) j tasks t = Some (stream_of Stdout cmds, stream_of Stderr cmds).
Proof. exact logs_of_run. Qed.
Theorem C19_unknown_task_refused : ∀ f job tasks t, t ∉ tasks → logs_request f job tasks t = None.
Proof. exact logs_unknown_refused. Qed.

Example C19_ex :
  let cmds := [[(Stdout, [1;2]%N); (Stderr, [9]%N); (Stdout, [3]%N)]; [(Stderr, [8]%N); (Stdout, [4]%N)]] in
  let tr := [EOpen ("j","a",Stdout); EOpen ("k","a",Stdout); EOpen ("j","a",Stderr); EWrite ("k","a",Stdout) [7]%N;
             EWrite ("j","a",Stdout) [1;2]%N; EWrite ("j","a",Stderr) [9]%N; EWrite ("j","a",Stdout) [3]%N; ERemove "z";
             EWrite ("j","a",Stderr) [8]%N; EWrite ("j","a",Stdout) [4]%N] in
  List.filter (of_run "j" "a") tr = run_events "j" "a" cmds
  ∧ exec tr fs0 ("j","a",Stdout) = Some [1;2;3;4]%N ∧ exec tr fs0 ("j","a",Stderr) = Some [9;8]%N
  ∧ exec tr fs0 ("k","a",Stdout) = Some [7]%N.
Proof. vm_compute. done. Qed.

Print Assumptions C19_path_injective.
Print Assumptions C19_stream_content.
Print Assumptions C19_concurrent_runs.
Print Assumptions C19_frame.
Print Assumptions C19_request.
Print Assumptions C19_unknown_task_refused.

#!/bin/bash
# runs every seeded change of the given properties against that property's check (sequentially); appends to work/seedmatrix.txt
cd /verif
for s in "$@"; do
  prop=${s%%-*}
  patch=/verif/seeded/$s/patch.diff
  git -C /repo apply $patch || { echo "$s APPLY-FAILED" >> work/seedmatrix.txt; continue; }
  ./check $prop --tier quick > work/seed-$s.log 2>&1; rc=$?
  git -C /repo checkout -- .
  v=$(grep -c "^VIOLATION" work/seed-$s.log); nf=$(grep -c "no-failing-input-found" work/seed-$s.log)
  echo "$s rc=$rc violations=$v nofailinginput=$nf" >> work/seedmatrix.txt
done
echo DONE >> work/seedmatrix.txt

(** * C14 — No API route works without a valid token, and rejected requests do nothing
    (JWT parsing / HMAC verification (lestrrat-go/jwx) and chi's pattern matching are exercised by the exhaustive
    enumeration of the check, not modelled) *)
From stdpp Require Import list strings.
From Coq Require Import String.
From PV Require Import Auth proofs.AuthProps.

(** the router term of NewServer: for both profiling settings every endpoint outside the profiler mount has the JWT
    verifier and the authenticator in its middleware chain and lies under an authenticated sub-router *)
Theorem C14_all_endpoints_protected : ∀ profiling e,
  e ∈ endpoints profiling → e_debug e = false → protected e = true ∧ in_protected (e_path e) = true.
Proof. exact all_endpoints_protected. Qed.

(** a handler of the API runs only if the request's effective credential is valid ... *)
Theorem C14_protected : ∀ profiling m path header cookie,
  serve profiling m path header cookie = RHandler → valid (effective header cookie) = true.
Proof. exact handler_requires_valid. Qed.

(** ... where valid means: signed with the configured secret using HS256, not expired, not before its time, not issued
    in the future — unsigned (alg none), differently signed, other algorithms, malformed and missing tokens are not *)
Theorem C14_valid_means : ∀ t, valid t = true ↔ ∃ exp nbf, t = TokJWT HS256 true exp nbf false ∧ exp ≠ TPast ∧ nbf ≠ TFuture.
Proof. exact valid_spec. Qed.

(** otherwise every path under the API answers 401, whatever the method *)
Theorem C14_rejected_401 : ∀ profiling m path header cookie,
  in_protected path = true → valid (effective header cookie) = false → serve profiling m path header cookie = R401.
Proof. exact invalid_gets_401. Qed.

(** with profiling disabled the profiling routes do not exist *)
Theorem C14_no_debug_when_off : ∀ e, e ∈ endpoints false → e_debug e = false ∧ in_debug (e_path e) = false.
Proof. exact no_debug_when_off. Qed.
Theorem C14_no_debug_response_when_off : ∀ m path header cookie, serve false m path header cookie ≠ RDebug.
Proof. exact debug_absent_when_off. Qed.

(** ... and profiling is on only when it was explicitly enabled (flag value, else environment value, else off) *)
Theorem C14_profiling_only_explicit : ∀ flag env m path h c,
  ¬ (flag = Some true ∨ (flag = None ∧ env = Some true)) → serve (profiling_config flag env) m path h c ≠ RDebug.
Proof. exact config_off_no_debug. Qed.

Example C14_ex_routes : map e_path (endpoints true)
  = ["/pipelines/"; "/pipelines/jobs"; "/pipelines/schedule"; "/job/detail"; "/job/logs"; "/job/cancel"; "/debug"]%string.
Proof. vm_compute. done. Qed.
Example C14_ex_none : serve true POST "/pipelines/schedule" (TokJWT AlgNone true TAbsent TAbsent false) TokMissing = R401.
Proof. vm_compute. done. Qed.
Example C14_ex_cookie : serve false POST "/pipelines/schedule" TokMissing (TokJWT HS256 true TFuture TAbsent false) = RHandler.
Proof. vm_compute. done. Qed.

Print Assumptions C14_all_endpoints_protected.
Print Assumptions C14_protected.
Print Assumptions C14_valid_means.
Print Assumptions C14_rejected_401.
Print Assumptions C14_no_debug_when_off.
Print Assumptions C14_no_debug_response_when_off.
Print Assumptions C14_profiling_only_explicit.

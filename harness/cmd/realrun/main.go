package main

import (
	"flag"
	"fmt"
	"os"

	"github.com/apex/log"

	"verifharness/hutil"
)

var outFile *os.File

func emit(v interface{}) { hutil.JSONLine(outFile, v) }

func main() {
	if len(os.Args) > 1 && os.Args[1] == "helper" {
		helperMain(os.Args[2:])
		return
	}
	mode := flag.String("mode", "log", "log | env | proc | reload")
	seed := flag.Uint64("seed", 1, "seed")
	n := flag.Int("n", 4, "rounds")
	out := flag.String("out", "", "output file")
	defsFile := flag.String("defs", "", "probe mode: JSON file with pipeline definitions")
	walk := flag.String("walk", "", "reload mode: one round with this walk over the definition versions (a,b,c), comma separated")
	flag.Parse()
	outFile = os.Stdout
	if *out != "" {
		f, err := os.Create(*out)
		if err != nil {
			panic(err)
		}
		defer f.Close()
		outFile = f
	}
	// the application installs its own log handler on start; its output goes to stderr
	log.SetLevel(log.ErrorLevel)
	self, err := os.Executable()
	if err != nil {
		panic(err)
	}
	os.Setenv("VERIF_HELPER", self)
	switch *mode {
	case "log":
		logMode(*seed, *n)
	case "env":
		envMode(*seed, *n)
	case "procchild":
		procChild(flag.Args(), *n)
	case "probe":
		probeMode(*defsFile)
	case "proc":
		procMode(*seed, *n)
	case "reload":
		reloadMode(*seed, *n, *walk)
	case "fail":
		failMode(*seed, *n)
	case "shutdown":
		shutdownMode(*seed)
	case "retreload":
		retReloadMode()
	default:
		fmt.Fprintln(os.Stderr, "unknown mode")
		os.Exit(2)
	}
}

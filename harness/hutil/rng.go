// Package hutil: shared helpers of the verification harness (deterministic PRNG, JSON lines output)
package hutil

import (
	"encoding/json"
	"os"
	"strconv"
)

// Rng is a splitmix64 generator: every random choice of a run derives from one seed, so a disagreement replays exactly.
type Rng struct{ s uint64 }

func NewRng(seed uint64) *Rng {
	// scramble the seed so that consecutive seeds do not give shifted copies of the same stream
	z := seed + 0x632BE59BD9B4E019
	z = (z ^ (z >> 30)) * 0xBF58476D1CE4E5B9
	z = (z ^ (z >> 27)) * 0x94D049BB133111EB
	return &Rng{s: z ^ (z >> 31)}
}

func (r *Rng) Next() uint64 {
	r.s += 0x9E3779B97F4A7C15
	z := r.s
	z = (z ^ (z >> 30)) * 0xBF58476D1CE4E5B9
	z = (z ^ (z >> 27)) * 0x94D049BB133111EB
	return z ^ (z >> 31)
}

// Intn returns a number in [0,n)
func (r *Rng) Intn(n int) int {
	if n <= 0 {
		return 0
	}
	return int(r.Next() % uint64(n))
}

// Chance returns true with probability num/den
func (r *Rng) Chance(num, den int) bool { return r.Intn(den) < num }

// Pick picks an index according to integer weights
func (r *Rng) Pick(weights []int) int {
	total := 0
	for _, w := range weights {
		total += w
	}
	if total == 0 {
		return -1
	}
	x := r.Intn(total)
	for i, w := range weights {
		if x < w {
			return i
		}
		x -= w
	}
	return len(weights) - 1
}

// Fork derives an independent generator (e.g. one per case, so that cases can be re-run alone)
func (r *Rng) Fork() *Rng { return NewRng(r.Next()) }

func EnvInt(name string, def int) int {
	if v := os.Getenv(name); v != "" {
		if i, err := strconv.Atoi(v); err == nil {
			return i
		}
	}
	return def
}

// JSONLine writes v as one line of JSON to w
func JSONLine(w *os.File, v interface{}) {
	b, err := json.Marshal(v)
	if err != nil {
		panic(err)
	}
	b = append(b, '\n')
	if _, err := w.Write(b); err != nil {
		panic(err)
	}
}

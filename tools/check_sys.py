#!/usr/bin/env python3
"""Generic check for the properties decided on the system model (C01-C08, C15, C16):
Coq theorems (Properties/<id>.v) + controlled-mode correspondence (sysrun vs System.v replayed in Coq) + monitors."""
import glob
import json
import os
import sys

sys.path.insert(0, os.path.dirname(os.path.abspath(__file__)))
from syslib import *  # noqa
import monitors

# property -> (projection code, [(profile, histories quick, histories thorough)])
CONF = {
    "C01": (1, [("conc", 96, 1200), ("mixed", 64, 800), ("admit", 48, 600)]),
    "C02": (2, [("graph", 104, 1300), ("fail", 56, 700), ("mixed", 24, 300), ("shutdown", 24, 300)]),
    "C03": (3, [("live", 96, 1200), ("delay", 64, 800), ("reload", 48, 600)]),
    "C04": (4, [("cancel", 112, 1400), ("mixed", 64, 700), ("shutdown", 40, 400)]),
    "C05": (5, [("admit", 112, 1400), ("mixed", 64, 700), ("retain", 32, 400)]),
    "C06": (6, [("fifo", 128, 1600), ("mixed", 80, 800)]),
    "C07": (7, [("delay", 128, 1600), ("mixed", 80, 800)]),
    "C08": (8, [("fail", 128, 1600), ("graph", 80, 800)]),
    "C10": (10, [("restart", 112, 1400), ("retain", 64, 800)]),
    "C11": (11, [("shutdown", 144, 1800), ("restart", 48, 600)]),
    "C12": (12, [("retain", 128, 1600), ("restart", 64, 800)]),
    "C15": (15, [("mixed", 96, 1200), ("admit", 56, 600), ("graph", 56, 600)]),
    "C16": (16, [("reload", 128, 1600), ("mixed", 80, 800)]),
}


def history_replay_payload(h, upto=None):
    steps = h["steps"] if upto is None else h["steps"][:upto + 1]
    return {"sets": h["sets"], "pre": h.get("pre") or [], "events": [st["ev"] for st in steps], "profile": h.get("profile")}


def rerun(ctx, bins, payload, tag="rp"):
    """Execute a recorded event list on the implementation (events that are not enabled are skipped)."""
    path = os.path.join(ctx.run, "%s-%d.json" % (tag, rerun.n))
    out = os.path.join(ctx.run, "%s-%d.jsonl" % (tag, rerun.n))
    rerun.n += 1
    json.dump(payload, open(path, "w"))
    rc, o = sh([bins["sysrun"], "-replay", path, "-out", out, "-dir", ctx.run], timeout=120)
    hs = parse_histories(out)
    if not hs:
        return None
    hs[0]["drained"] = False
    return hs[0]


rerun.n = 0


def shrink(ctx, bins, payload, still_bad, budget=60):
    """Delta debugging on the event list: keep removing chunks while the failure persists."""
    evs = list(payload["events"])
    n = 2
    tries = 0
    while len(evs) >= 2 and tries < budget:
        chunk = max(1, len(evs) // n)
        reduced = False
        for i in range(0, len(evs), chunk):
            cand = evs[:i] + evs[i + chunk:]
            tries += 1
            h = rerun(ctx, bins, dict(payload, events=cand), "shr")
            if h is not None and still_bad(h):
                evs = cand
                n = max(n - 1, 2)
                reduced = True
                break
            if tries >= budget:
                break
        if not reduced:
            if chunk == 1:
                break
            n = min(len(evs), n * 2)
    return dict(payload, events=evs)


PERSIST_KINDS = {"C01": ["retention_running"], "C12": ["retention_running"], "C06": ["retention_queue"], "C05": ["removed_pipeline_admission"]}


def main():
    prop = sys.argv[1]
    ctx = Ctx(prop, sys.argv[2:])
    code, profiles = CONF[prop]
    mon = monitors.MONITORS[prop]
    proof_ok = proof_evidence(ctx, extra_files=["Corr/SysCorr.v"])
    if prop in ("C02", "C08"):
        pass
    bins = build_harness(ctx, ["sysrun"])
    if bins is None:
        violation(ctx, {"what": "harness does not build against the repository working tree; the correspondence for %s cannot run" % prop,
                        "broken": "correspondence sysrun vs coq/System.v"}, found_input=False)
        finish(ctx)

    def mon_bad(h):
        return bool(mon(h))

    if ctx.replay:
        rp = json.load(open(ctx.replay if os.path.isabs(ctx.replay) else os.path.join(VERIF, ctx.replay)))
        if "schedtab_row" in rp:
            tb = build_harness(ctx, ["schedtab"])
            outp = os.path.join(ctx.run, "schedtab.jsonl")
            rc, o = sh([tb["schedtab"], "-out", outp], cwd=ctx.run, timeout=120)
            rows = [json.loads(l) for l in open(outp)] if rc == 0 else []
            same = [r for r in rows if r["deps"] == rp["schedtab_row"]["deps"]]
            if same and (same[0]["ready"], same[0]["canceled"]) == (rp["schedtab_row"]["ready"], rp["schedtab_row"]["canceled"]):
                violation(ctx, rp)
            finish(ctx)
        if "persist_scenario" in rp:
            pb = build_harness(ctx, ["persistrun"])
            outp = os.path.join(ctx.run, "persist.jsonl")
            rc, o = sh([pb["persistrun"], "-out", outp], cwd=ctx.run, timeout=120)
            recs = [json.loads(l) for l in open(outp)] if rc == 0 else []
            if [r for r in recs if r["scenario"] == rp["persist_scenario"] and not r["ok"]]:
                violation(ctx, rp)
            finish(ctx)
        if "proc_case" in rp:
            rb = build_harness(ctx, ["realrun"])
            outp = os.path.join(ctx.run, "proc.jsonl")
            rc, o = sh([rb["realrun"], "-mode", "proc", "-seed", str(rp["proc_case"]["seed"]), "-n", "5", "-out", outp], cwd=ctx.run, timeout=600)
            recs = [json.loads(l) for l in open(outp)] if rc == 0 else []
            if [r for r in recs if r.get("kind") == "proc" and not r.get("ok", True)]:
                violation(ctx, rp)
            finish(ctx)
        if "shutdown_round" in rp:
            rb = build_harness(ctx, ["realrun"])
            outp = os.path.join(ctx.run, "shutdown.jsonl")
            rc, o = sh([rb["realrun"], "-mode", "shutdown", "-seed", str(rp.get("seed", 1)), "-out", outp], cwd=ctx.run, timeout=300)
            recs = [json.loads(l) for l in open(outp)] if rc == 0 else []
            if [r for r in recs if not r.get("ok", True)]:
                violation(ctx, rp)
            finish(ctx)
        if "fail_case" in rp:
            rb = build_harness(ctx, ["realrun"])
            outp = os.path.join(ctx.run, "fail.jsonl")
            rc, o = sh([rb["realrun"], "-mode", "fail", "-seed", str(rp["fail_case"]["seed"]), "-n", str(rp["fail_case"]["n"]), "-out", outp], cwd=ctx.run, timeout=600)
            recs = [json.loads(l) for l in open(outp)] if rc == 0 else []
            if [r for r in recs if r.get("kind") == "failcase" and not r.get("ok") and r.get("round") == rp["fail_case"]["round"] and r.get("graph") == rp["fail_case"]["graph"]]:
                violation(ctx, rp)
            finish(ctx)
        if "retreload_round" in rp:
            rb = build_harness(ctx, ["realrun"])
            outp = os.path.join(ctx.run, "retreload.jsonl")
            rc, o = sh([rb["realrun"], "-mode", "retreload", "-out", outp], cwd=ctx.run, timeout=300)
            recs = [json.loads(l) for l in open(outp)] if rc == 0 else []
            if [r for r in recs if r.get("retention_what")]:
                violation(ctx, rp)
            finish(ctx)
        if "reload_walk" in rp:
            rb = build_harness(ctx, ["realrun"])
            outp = os.path.join(ctx.run, "reload.jsonl")
            rc, o = sh([rb["realrun"], "-mode", "reload", "-walk", ",".join(rp["reload_walk"]), "-out", outp], cwd=ctx.run, timeout=300)
            recs = [json.loads(l) for l in open(outp)] if rc == 0 else []
            if [r for r in recs if not r.get("ok")]:
                violation(ctx, rp)
            finish(ctx)
        if "mode" in rp:
            import storelib
            sb = build_harness(ctx, ["storerun"])
            res = storelib.run_store(ctx, sb, rp["mode"], rp["seed"], rp["n"], "rp")
            if [r for r in res if not r["ok"]]:
                violation(ctx, rp)
            finish(ctx)
        h = rerun(ctx, bins, rp["history"])
        fails = mon(h) if h else [(-1, "replay could not be executed")]
        bad = replay_in_coq(ctx, [h], prop_code=code) if h else {}
        ctx.log("replay: monitor failures %s; model divergence %s" % (fails[:3], bad))
        if fails or any(d != "DOther" for _, d in bad.values()):
            violation(ctx, rp, found_input=bool(fails))
        finish(ctx)

    # 1. corpus first
    hs = []
    for f in sorted(glob.glob(os.path.join(VERIF, "corpus", prop, "*.json")) + glob.glob(os.path.join(VERIF, "corpus", "sys", "*.json"))):
        h = rerun(ctx, bins, json.load(open(f))["history"], "corpus")
        if h is not None:
            h["src"] = {"corpus": os.path.basename(f)}
            hs.append(h)
    ncorpus = len(hs)
    # 2. generated histories
    for prof, nq, nt in profiles:
        hs += run_sysrun(ctx, bins, prof, ctx.seed, nq if ctx.tier == "quick" else nt)
    harness_fail = [h for h in hs if h.get("failure")]
    # 3. monitors on everything
    monfail = []
    for i, h in enumerate(hs):
        f = mon(h)
        if f:
            monfail.append((i, f))
    # 4. replay in Coq
    bad = replay_in_coq(ctx, hs, prop_code=code)
    relevant = {i: v for i, v in bad.items() if v[1] != "DOther"}
    truncated = {i: v for i, v in bad.items() if v[1] == "DOther"}

    # evidence
    evk, steps = {}, 0
    distinct = set()
    for h in hs:
        steps += len(h["steps"])
        for st in h["steps"]:
            k = st["ev"]["t"] + ("/" + st["res"].split(":")[0] + (":" + st["res"].split(":")[1] if st["res"].startswith("err") else "") if st["ev"]["t"] in ("schedule", "cancel") else "")
            evk[k] = evk.get(k, 0) + 1
        if len(h["steps"]) >= 5:
            distinct.add(json.dumps([(st["ev"], st["res"]) for st in h["steps"]], sort_keys=True))
    sample = None
    for h in hs[ncorpus:]:
        if 8 <= len(h["steps"]) <= 40:
            sample = {"sets": h["sets"][:1], "events": [(st["ev"], st["res"]) for st in h["steps"]]}
            break
    ctx.coverage.update({
        "evaluations": len(hs),
        "distinct_nontrivial": len(distinct),
        "rule": "event histories generated online from the states the implementation reaches (one splitmix64 stream per history, profiles %s), "
                "executed step by step on the real PipelineRunner under full schedule control and replayed through the Coq model's step "
                "function; non-trivial = at least 5 executed events; distinct = distinct (event, result) sequences" % [p for p, _, _ in profiles],
        "samples": [sample] if sample else [{"events": []}],
        "traces_validated_against_impl": len(hs) - len(bad),
        "steps_compared": steps,
        "event_histogram": evk,
        "corpus_histories": ncorpus,
        "model_divergences_in_projection": len(relevant),
        "truncated": len(truncated),
        "monitor_failures": len(monfail),
        "harness_failures": len(harness_fail),
    })
    ctx.assumptions = [
        "event atomicity (DESIGN 2.1): the task-change, status store and stage-change critical sections of one task end are one step; "
        "the flag store and context cancel of Scheduler.Cancel are one step",
        "the controlled runner implements the contract of taskctl.TaskRunner (checked against real processes by the C18-C20 checks)",
        "logical clock: timers fire only when the harness' clock has passed created+delay (Go timers do not fire early)",
    ]

    if prop == "C10":
        # the codec: payloads of every JSON type through the real JsonDataStore (the round trip is a hypothesis of the model)
        import storelib
        sb = build_harness(ctx, ["storerun"])
        n = 250 if ctx.tier == "quick" else 2500
        res = storelib.run_store(ctx, sb, "seq", ctx.seed, n) if sb else [{"ok": False, "what": "storerun does not build"}]
        ctx.coverage["codec_round_trips"] = len(res)
        for r in [r for r in res if not r["ok"]][:2]:
            violation(ctx, {"what": r.get("what"), "mode": "seq", "seed": ctx.seed, "n": n, "case": r})
    if prop in ("C02", "C08"):
        # the dependency check of the scheduling loop as a complete decision table (0-3 dependencies, every status x allow_failure, in order)
        tb = build_harness(ctx, ["schedtab"])
        outp = os.path.join(ctx.run, "schedtab.jsonl")
        rows = []
        if tb:
            rc, o = sh([tb["schedtab"], "-out", outp], cwd=ctx.run, timeout=120)
            if rc == 0:
                rows = [json.loads(l) for l in open(outp)]
        if not rows:
            violation(ctx, {"what": "schedtab did not complete", "broken": "correspondence schedtab vs System.check_status"}, found_input=False)
        ST = ["Waiting", "Running", "Skipped", "Done", "Error", "Canceled"]
        terms = ["(%d%%nat, %s, %s, %s)" % (i, cq_list(r["deps"], lambda d: "(%s, %s)" % (ST[d["status"]], cq_bool(d["allow"]))), cq_bool(r["ready"]), cq_bool(r["canceled"]))
                 for i, r in enumerate(rows)]
        tbad = run_cases(ctx, "schedtab", "From stdpp Require Import list.\nFrom PV Require Import System Corr.SysCorr.\n", terms,
                         case_type="(nat * list (status * bool) * bool * bool)", mism="check_status_mismatches") if terms else []
        ctx.coverage["check_status_table_rows"] = len(rows)
        ctx.coverage["check_status_table_mismatches"] = len(tbad)
        # the property on the table: ready only if every dependency is done, skipped, or failed with allow_failure;
        # canceled iff some dependency was canceled or failed without allow_failure
        def want(r):
            ok = all(ST[d["status"]] in ("Done", "Skipped") or (ST[d["status"]] == "Error" and d["allow"]) for d in r["deps"])
            canc = any(ST[d["status"]] == "Canceled" or (ST[d["status"]] == "Error" and not d["allow"]) for d in r["deps"])
            return ok, canc
        wrong = [r for r in rows if (r["ready"], r["canceled"]) != want(r)]
        for r in wrong[:2]:
            deps = [(ST[d["status"]], "allow_failure" if d["allow"] else "") for d in r["deps"]]
            violation(ctx, {"what": "dependency check of the scheduling loop: a stage with dependencies %s (in depends_on order) is %s and %s" %
                                    (deps, "launched" if r["ready"] else "not launched", "canceled" if r["canceled"] else "not canceled"),
                            "schedtab_row": r})
        if tbad and not wrong:
            violation(ctx, {"what": "checkStatus differs from System.check_status", "broken": "correspondence schedtab vs coq/System.v check_status",
                            "rows": [rows[i] for i in tbad[:3]]}, found_input=False)
    if prop == "C01":
        # "a changed limit governs the jobs started after the change", through the reload path of the real application: the
        # definition file walks over versions with different concurrency; after each change three requests at once
        rb = build_harness(ctx, ["realrun"])
        outp = os.path.join(ctx.run, "reload.jsonl")
        recs = []
        if rb:
            rc, o = sh([rb["realrun"], "-mode", "reload", "-seed", str(ctx.seed), "-n", "2" if ctx.tier == "quick" else "10", "-out", outp], cwd=ctx.run, timeout=900)
            if rc == 0:
                recs = [json.loads(l) for l in open(outp)]
        steps = [r for r in recs if r.get("kind") == "reload_step"]
        if not steps:
            violation(ctx, {"what": "realrun -mode reload did not complete", "broken": "the reload walk over the real application (C01: changed limit) cannot run"}, found_input=False)
        ctx.coverage["reload_walk_limit_probes"] = [[r["limit"], r["max_executing"]] for r in steps]
        for r in [r for r in steps if r.get("limit_what")][:2]:
            violation(ctx, {"what": "real application, definitions file rewritten (watch mode): " + r["limit_what"], "reload_walk": r["walk"][:r["step"] + 2], "step": r})
    if prop in PERSIST_KINDS:
        # explicit-save scenarios on a real runner with a real store (persistrun): retention against a running job (C01, C12), against a
        # running job with a queue behind it (C06), and admission after a waiting job was purged with its pipeline (C05)
        pb = build_harness(ctx, ["persistrun"])
        outp = os.path.join(ctx.run, "persist.jsonl")
        prec = []
        if pb:
            rc, o = sh([pb["persistrun"], "-out", outp], cwd=ctx.run, timeout=120)
            if rc == 0:
                prec = [json.loads(l) for l in open(outp)]
        rr = [r for r in prec if r.get("kind") in PERSIST_KINDS[prop]]
        if len(rr) != len(PERSIST_KINDS[prop]):
            violation(ctx, {"what": "persistrun did not complete", "broken": "the explicit-save scenarios %s cannot run" % PERSIST_KINDS[prop]}, found_input=False)
        ctx.coverage["explicit_save_scenarios"] = [{k: v for k, v in r.items() if k != "events"} for r in rr]
        for r in [r for r in rr if not r["ok"]]:
            violation(ctx, {"what": "real runner and store, scenario %s: %s" % (r["scenario"], r.get("what")), "persist_scenario": r["scenario"]})
    if prop == "C12":
        # the retention settings in force are those of the definitions in force: the real application in watch mode, the definitions file
        # goes plain -> retention_count 1 -> plain and the other way round; judged after the application's own persist loop has saved
        rb = build_harness(ctx, ["realrun"])
        outp = os.path.join(ctx.run, "retreload.jsonl")
        recs = []
        if rb:
            rc, o = sh([rb["realrun"], "-mode", "retreload", "-out", outp], cwd=ctx.run, timeout=300)
            if rc == 0:
                recs = [json.loads(l) for l in open(outp)]
        rounds = [r for r in recs if r.get("kind") == "retreload"]
        if len(rounds) < 2:
            violation(ctx, {"what": "realrun -mode retreload did not complete: %s" % [r.get("what") for r in recs if r.get("kind") == "error"][:2],
                            "broken": "the retention-across-reload rounds on the real application (C12) cannot run"}, found_input=False)
        ctx.coverage["retention_across_reload_rounds"] = [{k: r.get(k) for k in ("walk", "first_change_seen", "second_change_seen", "finished_before", "finished_after", "ok")} for r in rounds]
        for r in [r for r in rounds if r.get("retention_what")]:
            violation(ctx, {"what": "real application (watch mode, own persist loop): " + r["retention_what"], "retreload_round": r["round"], "round": r})
    if prop == "C04":
        # an acknowledged cancel takes effect on real processes too: generated process trees under the real application; the canceled job is
        # reported finished within the kill timeout and nothing of it survives
        rb = build_harness(ctx, ["realrun"])
        outp = os.path.join(ctx.run, "proc.jsonl")
        recs = []
        if rb:
            rc, o = sh([rb["realrun"], "-mode", "proc", "-seed", str(ctx.seed), "-n", "5" if ctx.tier == "quick" else "30", "-out", outp], cwd=ctx.run, timeout=1200)
            if rc == 0:
                recs = [json.loads(l) for l in open(outp)]
        procs = [r for r in recs if r.get("kind") == "proc"]
        if not procs:
            violation(ctx, {"what": "realrun -mode proc did not complete", "broken": "the cancel rounds on real processes (C04) cannot run"}, found_input=False)
        ctx.coverage["real_process_cancel_rounds"] = len(procs)
        for r in [r for r in procs if not r.get("ok", True)][:2]:
            violation(ctx, {"what": "real application, cancel of a job with real processes: not reported canceled within the kill timeout, or processes of it still alive: %s"
                                    % {k: r.get(k) for k in ("pipeline", "report_ms", "canceled", "reported", "alive_100ms_after_report", "alive_after_timeout", "what")},
                            "proc_case": {"seed": ctx.seed, "round": r.get("round")}, "case": {k: v for k, v in r.items() if k != "tree"}})
    if prop == "C05":
        # the admission rule follows the definition in force, through the reload path of the real application (queue_limit and concurrency
        # differ between the versions of the walk; five requests at once after each change)
        rb = build_harness(ctx, ["realrun"])
        outp = os.path.join(ctx.run, "reload.jsonl")
        recs = []
        if rb:
            rc, o = sh([rb["realrun"], "-mode", "reload", "-seed", str(ctx.seed), "-n", "2" if ctx.tier == "quick" else "10", "-out", outp], cwd=ctx.run, timeout=900)
            if rc == 0:
                recs = [json.loads(l) for l in open(outp)]
        steps = [r for r in recs if r.get("kind") == "reload_step"]
        if not steps:
            violation(ctx, {"what": "realrun -mode reload did not complete", "broken": "the reload walk over the real application (C05: admission under the definition in force) cannot run"}, found_input=False)
        ctx.coverage["reload_walk_admission_probes"] = [[r["accepted_expected"], r["accepted_of_5"]] for r in steps]
        for r in [r for r in steps if r.get("admit_what")][:2]:
            violation(ctx, {"what": "real application, definitions file rewritten (watch mode): " + r["admit_what"], "reload_walk": r["walk"][:r["step"] + 2], "step": r})
    if prop == "C08":
        # the real task runner (real processes) on generated graphs with tasks that succeed, exit non-zero, are killed by a signal or
        # cannot be parsed, allow_failure and both fail-fast settings; marker files say what actually ran
        rb = build_harness(ctx, ["realrun"])
        outp = os.path.join(ctx.run, "fail.jsonl")
        nr = 6 if ctx.tier == "quick" else 40
        recs = []
        if rb:
            rc, o = sh([rb["realrun"], "-mode", "fail", "-seed", str(ctx.seed), "-n", str(nr), "-out", outp], cwd=ctx.run, timeout=1200)
            if rc == 0:
                recs = [json.loads(l) for l in open(outp)]
        cases = [r for r in recs if r.get("kind") == "failcase"]
        if not cases or [r for r in recs if r.get("kind") == "error"]:
            violation(ctx, {"what": "realrun -mode fail did not complete: %s" % [r.get("what") for r in recs if r.get("kind") == "error"][:2],
                            "broken": "the failure scenarios on the real task runner (C08) cannot run"}, found_input=False)
        outc = {}
        for r in cases:
            for t in r["tasks"]:
                k = t["outcome"] + ("/allow_failure" if t["allow"] else "")
                outc[k] = outc.get(k, 0) + 1
        ctx.coverage["real_runner_failure_graphs"] = len(cases)
        ctx.coverage["real_runner_task_outcomes"] = outc
        for r in [r for r in cases if not r["ok"]][:2]:
            violation(ctx, {"what": "real task runner, pipeline %s (continue_running_tasks_after_failure=%s): %s" % (r["graph"], r["continue"], r["what"]),
                            "fail_case": {"seed": ctx.seed, "n": nr, "round": r["round"], "graph": r["graph"]}, "case": r})
    if prop == "C16":
        # the reload path of the real application (--watch): a random walk over definition versions that often returns to an
        # earlier content; jobs running / queued / accepted around each change must use the version of their accept time
        rb = build_harness(ctx, ["realrun"])
        outp = os.path.join(ctx.run, "reload.jsonl")
        recs = []
        if rb:
            rc, o = sh([rb["realrun"], "-mode", "reload", "-seed", str(ctx.seed), "-n", "3" if ctx.tier == "quick" else "12", "-out", outp],
                       cwd=ctx.run, timeout=900)
            if rc == 0:
                recs = [json.loads(l) for l in open(outp)]
        steps = [r for r in recs if r.get("kind") == "reload_step"]
        if not steps or [r for r in recs if r.get("kind") == "error"]:
            violation(ctx, {"what": "realrun -mode reload did not complete: %s" % [r.get("what") for r in recs if r.get("kind") == "error"][:2],
                            "broken": "the reload walk over the real application (C16) cannot run"}, found_input=False)
        ctx.coverage["reload_walk_steps"] = len(steps)
        ctx.coverage["reload_walk_returns_to_earlier_version"] = sum(1 for r in steps if r["to"] in r["walk"][:r["step"] + 1])
        ctx.coverage["reload_walk_empty_env_rename_steps"] = sum(1 for r in steps if {r["from"], r["to"]} == {"d", "e"})
        ctx.coverage["reload_walk_max_tries"] = max([r["tries"] for r in steps] or [0])
        for r in [r for r in steps if not r["ok"]][:2]:
            violation(ctx, {"what": "real application, definitions file rewritten (watch mode): " + r["what"], "reload_walk": r["walk"][:r["step"] + 2], "step": r})
    if prop == "C11":
        # the real persist loop in real time (3 s interval): every acknowledged change reaches the store without an explicit save
        pb = build_harness(ctx, ["persistrun"])
        outp = os.path.join(ctx.run, "persist.jsonl")
        recs = []
        if pb:
            rc, o = sh([pb["persistrun"], "-out", outp], cwd=ctx.run, timeout=120)
            if rc == 0:
                recs = [json.loads(l) for l in open(outp)]
        if not recs:
            violation(ctx, {"what": "persistrun did not complete", "broken": "correspondence persistrun vs coq/PersistLoop.v"}, found_input=False)
        # the real application: SIGINT (graceful) with a running and a waiting job, then a forced shutdown with a running job whose
        # tree holds an interrupt-ignoring child; the store file is read after the application has returned
        rb = build_harness(ctx, ["realrun"])
        souts = []
        if rb:
            outp2 = os.path.join(ctx.run, "shutdown.jsonl")
            rc, o = sh([rb["realrun"], "-mode", "shutdown", "-seed", str(ctx.seed), "-out", outp2], cwd=ctx.run, timeout=300)
            if rc == 0:
                souts = [json.loads(l) for l in open(outp2)]
        if len(souts) < 2 or [r for r in souts if r.get("kind") == "error"]:
            violation(ctx, {"what": "realrun -mode shutdown did not complete", "broken": "the shutdown rounds on the real application (C11) cannot run"}, found_input=False)
        ctx.coverage["application_shutdown_rounds"] = [{k: r.get(k) for k in ("round", "pipeline", "ok", "return_ms", "report_ms", "schedule_during_shutdown_status", "what")} for r in souts]
        for r in [r for r in souts if not r.get("ok", True)]:
            violation(ctx, {"what": "real application: " + str(r.get("what")), "shutdown_round": r.get("round"), "seed": ctx.seed, "case": {k: v for k, v in r.items() if k != "tree"}})
        shut = [r for r in recs if r.get("kind") == "shutdown_save"]
        recs = [r for r in recs if r.get("kind") == "persist"]
        ctx.coverage["shutdown_during_save"] = [{k: r.get(k) for k in ("ok", "stored_jobs", "stored_completed", "what")} for r in shut]
        for r in [r for r in shut if not r["ok"]]:
            violation(ctx, {"what": r.get("what"), "persist_scenario": r["scenario"], "events": r.get("events")})
        terms = []
        for i, r in enumerate(recs):
            evs = ["OChange" if e["kind"] == "change" else "OSave %d%%nat" % e["version"] for e in r["events"] if e["kind"] in ("change", "save_begin")]
            terms.append("(%d%%nat, [%s], %d%%nat, %s)" % (i, "; ".join(evs), r["changes"], cq_bool(r["ok"])))
        pbad = run_cases(ctx, "persist", "From stdpp Require Import list.\nFrom PV Require Import PersistLoop Corr.PersistCorr.\n", terms,
                         case_type="(nat * list oev * nat * bool)", shards=1) if terms else []
        ctx.coverage["persist_loop_scenarios"] = [{k: r[k] for k in ("scenario", "changes", "reached_store_ms_after_last_change", "ok")} for r in recs]
        ctx.coverage["persist_loop_model_mismatches"] = pbad
        late = [r for r in recs if not r["ok"]]
        for r in late[:2]:
            violation(ctx, {"what": "an acknowledged change did not reach the store within the persist interval (no explicit save): scenario %s, %d changes, store complete after %s ms (deadline %d)"
                                    % (r["scenario"], r["changes"], r["reached_store_ms_after_last_change"], r["deadline_ms"]),
                            "persist_scenario": r["scenario"], "events": r["events"]})
        if pbad and not late:
            violation(ctx, {"what": "the real persist loop does not follow PersistLoop.pstep", "broken": "correspondence Corr/PersistCorr.v (C11_change_reaches_store is about a loop the code no longer has)",
                            "scenarios": [recs[i] for i in pbad[:2]]}, found_input=False)
    if not proof_ok:
        violation(ctx, {"what": "Coq development for %s does not check" % prop, "broken": "Properties/%s.v or its dependencies" % prop,
                        "log": ctx.log_lines[-5:]}, found_input=False)
    for h in harness_fail[:2]:
        violation(ctx, {"what": "the implementation got stuck or the harness failed: " + h["failure"][:1500], "history": history_replay_payload(h),
                        "src": h.get("src")}, found_input=True)
    reported = 0
    for i, f in monfail:
        if reported >= 3:
            break
        h = hs[i]
        payload = history_replay_payload(h, upto=f[0][0])
        small = shrink(ctx, bins, payload, mon_bad)
        hh = rerun(ctx, bins, small)
        msgs = mon(hh) if hh else f
        violation(ctx, {"what": [m for _, m in (msgs or f)][:3], "history": small, "src": h.get("src"), "original_length": len(payload["events"])})
        reported += 1
    if not monfail and relevant:
        ctx.log("correspondence broken in %d histories (projection of %s); searching for a failing input" % (len(relevant), prop))
        found = None
        for extra in range(1, 4):
            more = []
            for prof, nq, nt in profiles:
                more += run_sysrun(ctx, bins, prof, ctx.seed + 7919 * extra, 2 * nq)
            for h in more:
                f = mon(h)
                if f:
                    found = (h, f)
                    break
            if found:
                break
        if found:
            h, f = found
            small = shrink(ctx, bins, history_replay_payload(h, upto=f[0][0]), mon_bad)
            violation(ctx, {"what": [m for _, m in f][:3], "history": small, "src": h.get("src")})
        else:
            i = sorted(relevant)[0]
            h = hs[i]
            step, d = relevant[i]
            violation(ctx, {"what": "model and implementation disagree at step %d (%s) on the observables of %s, but the property monitor found no failing input" % (step, d, prop),
                            "broken": "correspondence sysrun vs coq/System.v: the theorems of Properties/%s.v are about a model that no longer matches the code" % prop,
                            "history": history_replay_payload(h, upto=step), "src": h.get("src"),
                            "impl_snapshot": h["steps"][step]["snap"]}, found_input=False)
    finish(ctx)


if __name__ == "__main__":
    main()

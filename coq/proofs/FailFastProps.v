(** Fail-fast (C08): the task-change callback of a failed task that may not fail requests the cancel of its job unless the
    pipeline continues after failures; the request is what Scheduler.Cancel later delivers to the running tasks. *)
From stdpp Require Import list.
From Coq Require Import ZArith Lia.
From PV Require Import Graph System proofs.SchedProps proofs.OnceProps proofs.StageProps proofs.VerdictProps.

Theorem failfast_requests_cancel s id n t j t0 d :
  st_jobs s !! id = Some j → j_removed j = false → find_task j n = Some t0 →
  tn_err t ≠ Some ECanceled → tn_errored t = true →
  lookup_def (st_defs s) (j_pipe j) = Some d →
  j_canceled j = false → j_completed j = false → is_Some (j_start j) → is_Some (j_sched j) →
  ∃ j', st_jobs (handle_task_change s id n t) !! id = Some j' ∧ j_sched j' = j_sched j ∧
        j_cancels j' = (if pd_continue d then j_cancels j else S (j_cancels j)) ∧
        (∃ t', find_task j' n = Some t' ∧ jt_errored t' = true).
Proof.
  intros Hj Hrm Hft Hne Herr Hd Hc Hcomp [st Hst] [sc Hsc].
  unfold handle_task_change.
  assert (Hfj : find_job s id = Some j) by (unfold find_job, get_job; by rewrite Hj, Hrm).
  rewrite Hfj, Hft.
  set (upd := fun jt : jtask => _).
  set (s1 := upd_job s id (fun j => upd_task j n upd)).
  assert (Hj1 : st_jobs s1 !! id = Some (upd_task j n upd)) by (simpl; by rewrite list_lookup_alter, Hj).
  assert (Hname : ∀ x, jt_name (upd x) = jt_name x) by (intros x; unfold upd; by destruct (tn_err t) as [[]|]).
  assert (Hfind : find_task (upd_task j n upd) n = Some (upd t0)).
  { unfold find_task in *. simpl. rewrite (find_upd_task _ _ _ Hname). by rewrite Hft. }
  assert (Hfj1 : find_job s1 id = Some (upd_task j n upd)).
  { unfold find_job, get_job. rewrite Hj1. simpl. by rewrite Hrm. }
  assert (Hue : jt_errored (upd t0) = true).
  { unfold upd. destruct (tn_err t) as [[]|]; simpl; done. }
  rewrite Hfj1, Hfind, Hue.
  change (st_defs s1) with (st_defs s). rewrite Hd.
  change (st_jobs (request_persist ?x)) with (st_jobs x).
  destruct (pd_continue d).
  - exists (upd_task j n upd). split; [done|]. split; [done|]. split; [done|]. by exists (upd t0).
  - unfold cancel_job. rewrite Hfj1. simpl. rewrite Hc, Hcomp, Hst, Hsc. simpl.
    change (alter (fun j0 : job => upd_task j0 n upd) id (st_jobs s)) with (st_jobs s1).
    rewrite list_lookup_alter, Hj1. simpl. eexists. split; [done|]. simpl. split; [done|]. split; [done|].
    exists (upd t0). split; [|done]. exact Hfind.
Qed.

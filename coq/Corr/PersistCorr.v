(** Correspondence for the persist loop (C11): what the real loop of NewPipelineRunner did (changes, saves with the version
    their snapshot contained) replayed through PersistLoop.pstep *)
From stdpp Require Import list.
From PV Require Import PersistLoop.

Inductive oev := OChange | OSave (v : nat).

(** returns the indices of the observed events the model cannot follow: a save although no request was pending, or a
    snapshot that does not contain exactly the changes acknowledged so far *)
Fixpoint replay (s : pstate) (i : nat) (l : list oev) : list nat * pstate :=
  match l with
  | [] => ([], s)
  | OChange :: l' => match pstep s PChange with Some s' => replay s' (S i) l' | None => ([i], s) end
  | OSave v :: l' =>
      let s1 := match phase s with LSleeping => default s (pstep s PSleepDone) | _ => s end in
      match pstep s1 PTake with
      | Some s2 => match pstep s2 PSnapshot with
                   | Some s3 => let '(bad, sf) := replay s3 (S i) l' in ((if Nat.eqb (saved s3) v then bad else i :: bad), sf)
                   | None => ([i], s)
                   end
      | None => ([i], s)
      end
  end.

(** one scenario: (id, events, number of changes, did the store reach that version in time) *)
Definition check_persist (c : nat * list oev * nat * bool) : nat * bool :=
  let '(id, evs, changes, reached) := c in
  let '(bad, sf) := replay pinit 0 evs in
  (id, bool_decide (bad = []) && Nat.eqb (version sf) changes
       && (* the model says: three loop events later the store has everything (ploop_catches_up) *)
          bool_decide (Nat.eqb (saved (loop_run 3 sf)) changes = reached)).

Definition mismatches (cs : list (nat * list oev * nat * bool)) : list nat :=
  map fst (List.filter (fun r => negb (snd r)) (map check_persist cs)).

(** Properties of the store write protocol (C09) *)
From stdpp Require Import list.
From Coq Require Import Lia.
From PV Require Import StoreFS.

(** every save in progress owns its temp file: distinct saves have distinct temp names, and the file holds exactly what
    has been written so far (content = written ++ remaining chunks) *)
Record fsinv (d : dir) : Prop := {
  fi_nodup : NoDup (map p_tmp (d_procs d));
  fi_file : ∀ p, p ∈ d_procs d → ∃ b, tmp_get d (p_tmp p) = Some b ∧ p_content p = b ++ concat (p_todo p);
  fi_closed : ∀ p, p ∈ d_procs d → p_closed p = true → p_todo p = [];
  fi_data : ∀ b, d_data d = Some b → b ∈ d_renamed d }.

Lemma tmp_get_set ts data procs ren n b m :
  tmp_get (Dir data (tmp_set ts n b) procs ren) m = if Nat.eqb n m then Some b else tmp_get (Dir data ts procs ren) m.
Proof.
  unfold tmp_get, tmp_set. simpl. rewrite (Nat.eqb_sym n m). destruct (Nat.eqb_spec m n) as [->|Hne]; [done|]. f_equal.
  induction ts as [|[k c] ts IH]; simpl; [done|]. destruct (Nat.eqb_spec k n) as [->|Hkn]; simpl.
  - destruct (Nat.eqb_spec n m); [congruence|done].
  - destruct (Nat.eqb k m); [done|apply IH].
Qed.

Lemma tmp_get_del ts data procs ren n m :
  n ≠ m → tmp_get (Dir data (tmp_del ts n) procs ren) m = tmp_get (Dir data ts procs ren) m.
Proof.
  intros Hne. unfold tmp_get, tmp_del. simpl. f_equal.
  induction ts as [|[k c] ts IH]; simpl; [done|]. destruct (Nat.eqb_spec k n) as [->|Hkn]; simpl.
  - destruct (Nat.eqb_spec n m); [congruence|done].
  - destruct (Nat.eqb k m); [done|apply IH].
Qed.

Lemma find_proc_spec procs n p :
  find (fun p => Nat.eqb (p_tmp p) n) procs = Some p → p ∈ procs ∧ p_tmp p = n.
Proof. intros H. apply find_some in H as [Hin Hn]. apply Nat.eqb_eq in Hn. split; [by apply elem_of_list_In|done]. Qed.

Lemma others_spec procs n q :
  q ∈ List.filter (fun q => negb (Nat.eqb (p_tmp q) n)) procs ↔ q ∈ procs ∧ p_tmp q ≠ n.
Proof. rewrite !elem_of_list_In, filter_In, negb_true_iff, Nat.eqb_neq. done. Qed.

Lemma nodup_others procs n : NoDup (map p_tmp procs) → NoDup (map p_tmp (List.filter (fun q => negb (Nat.eqb (p_tmp q) n)) procs)).
Proof.
  induction procs as [|p procs IH]; simpl; [done|]. intros [Hnin Hnd]%NoDup_cons.
  destruct (Nat.eqb (p_tmp p) n); simpl; [by apply IH|]. apply NoDup_cons. split; [|by apply IH].
  intros Hin. apply Hnin. apply elem_of_list_fmap in Hin as (q & Hq & Hin). apply others_spec in Hin as [Hin _].
  apply elem_of_list_fmap. eauto.
Qed.

Lemma others_notin procs n : n ∉ map p_tmp (List.filter (fun q => negb (Nat.eqb (p_tmp q) n)) procs).
Proof. intros Hin. apply elem_of_list_fmap in Hin as (q & Hq & Hin). apply others_spec in Hin as [_ Hne]. congruence. Qed.

Lemma fsinv_init : fsinv dir0.
Proof. split; simpl; try done; try constructor; intros p Hp; by apply elem_of_nil in Hp. Qed.

Lemma fsinv_step d e d' : fsinv d → fsstep d e = Some d' → fsinv d'.
Proof.
  intros [Hnd Hfile Hclosed Hdata]. destruct e as [n chunks|n|n]; simpl.
  - destruct (tmp_get d n) eqn:Hn; [done|]. intros [= <-]. split; simpl.
    + apply NoDup_cons. split; [|done]. intros Hin. apply elem_of_list_fmap in Hin as (p & Hp & Hin).
      destruct (Hfile p Hin) as (b & Hb & _). rewrite <- Hp in Hb. destruct d. simpl in *. congruence.
    + intros p [->|Hp]%elem_of_cons; simpl.
      * exists []. split; [|done]. destruct d. rewrite tmp_get_set. by rewrite Nat.eqb_refl.
      * destruct (Hfile p Hp) as (b & Hb & Hc). exists b. split; [|done]. destruct d. rewrite tmp_get_set.
        destruct (Nat.eqb_spec n (p_tmp p)) as [Heq|]; [|done]. simpl in *. rewrite <- Heq in Hb. congruence.
    + intros p [->|Hp]%elem_of_cons; simpl; [done|by apply Hclosed].
    + done.
  - destruct (find _ (d_procs d)) as [p|] eqn:Hf; [|done]. apply find_proc_spec in Hf as [Hp Hpn].
    destruct (Hfile p Hp) as (b & Hb & Hc). rewrite Hpn in Hb.
    destruct (p_todo p) as [|c rest] eqn:Htodo.
    + destruct (p_closed p) eqn:Hcl; intros [= <-].
      * (* rename *) split; simpl.
        -- by apply nodup_others.
        -- intros q Hq. apply others_spec in Hq as [Hq Hne]. destruct (Hfile q Hq) as (b' & Hb' & Hc'). exists b'. split; [|done].
           destruct d. rewrite tmp_get_del by congruence. done.
        -- intros q Hq. apply others_spec in Hq as [Hq _]. by apply Hclosed.
        -- intros b0 Hb0. rewrite Hb in Hb0. injection Hb0 as <-. rewrite Hc. simpl. rewrite app_nil_r. by left.
      * (* close *) split; simpl.
        -- apply NoDup_cons. split; [apply others_notin|by apply nodup_others].
        -- intros q [->|Hq]%elem_of_cons; simpl.
           ++ exists b. destruct d. simpl in *. split; [done|]. by rewrite Hc.
           ++ apply others_spec in Hq as [Hq _]. destruct (Hfile q Hq) as (b' & Hb' & Hc'). exists b'. by destruct d.
        -- intros q [->|Hq]%elem_of_cons; simpl; [done|]. apply others_spec in Hq as [Hq _]. by apply Hclosed.
        -- done.
    + intros [= <-]. split; simpl.
      * apply NoDup_cons. split; [apply others_notin|by apply nodup_others].
      * intros q [->|Hq]%elem_of_cons; simpl.
        -- exists (b ++ c). destruct d. rewrite tmp_get_set, Nat.eqb_refl. simpl in *. rewrite Hb. simpl. split; [done|].
           rewrite Hc. simpl. by rewrite app_assoc.
        -- apply others_spec in Hq as [Hq Hne]. destruct (Hfile q Hq) as (b' & Hb' & Hc'). exists b'. split; [|done].
           destruct d. rewrite tmp_get_set. destruct (Nat.eqb_spec n (p_tmp q)); [congruence|done].
      * intros q [->|Hq]%elem_of_cons; simpl; [done|]. apply others_spec in Hq as [Hq _]. by apply Hclosed.
      * done.
  - intros [= <-]. split; simpl.
    + by apply nodup_others.
    + intros q Hq. apply others_spec in Hq as [Hq _]. destruct (Hfile q Hq) as (b' & Hb' & Hc'). exists b'. by destruct d.
    + intros q Hq. apply others_spec in Hq as [Hq _]. by apply Hclosed.
    + done.
Qed.

Lemma fsinv_run d es : fsinv d → fsinv (fsrun d es).
Proof.
  revert d. induction es as [|e es IH]; intros d Hinv; simpl; [done|].
  destruct (fsstep d e) as [d'|] eqn:Hs; [|by apply IH]. apply IH. by eapply fsinv_step.
Qed.

(** the renamed encodings are complete encodings handed to some save (never a prefix) *)
Lemma renamed_are_started d e d' b :
  fsstep d e = Some d' → b ∈ d_renamed d' → b ∈ d_renamed d ∨ ∃ p, p ∈ d_procs d ∧ p_content p = b.
Proof.
  destruct e as [n chunks|n|n]; simpl.
  - destruct (tmp_get d n); [done|]. intros [= <-]. by left.
  - destruct (find _ (d_procs d)) as [p|] eqn:Hf; [|done]. apply find_proc_spec in Hf as [Hp _].
    destruct (p_todo p); [destruct (p_closed p)|]; intros [= <-]; simpl; try by left.
    intros [->|?]%elem_of_cons; [right; eauto|by left].
  - intros [= <-]. by left.
Qed.

(** at every instant — hence at every point where the process can be killed or a reader may look — data.json is either
    absent or the complete encoding of a snapshot whose save has reached its rename; whatever the chunking, however
    saves overlap *)
Theorem always_complete es b : d_data (fsrun dir0 es) = Some b → b ∈ d_renamed (fsrun dir0 es).
Proof. apply (fi_data _ (fsinv_run dir0 es fsinv_init)). Qed.

(** a save that has run to its rename, with no rename of another save after it, is what data.json holds *)
Theorem load_after_save d n p :
  fsinv d → find (fun p => Nat.eqb (p_tmp p) n) (d_procs d) = Some p → p_todo p = [] → p_closed p = true →
  ∃ d', fsstep d (FStep n) = Some d' ∧ d_data d' = Some (p_content p).
Proof.
  intros Hinv Hf Htodo Hcl. simpl. rewrite Hf, Htodo, Hcl. eexists. split; [done|]. simpl.
  apply find_proc_spec in Hf as [Hp Hpn]. destruct (fi_file _ Hinv p Hp) as (b & Hb & Hc).
  rewrite Hpn in Hb. rewrite Hb, Hc, Htodo. simpl. by rewrite app_nil_r.
Qed.

Section codec.
  (** the JSON codec is not modelled: its round trip is an assumption of this section, validated by the check on the
      real store with generated payloads *)
  Context {A : Type} (encode : A → bytes) (decode : bytes → option A).
  Hypothesis decode_encode : ∀ a, decode (encode a) = Some a.

  Theorem loadable_when_present es b (snaps : list A) :
    (∀ c, c ∈ d_renamed (fsrun dir0 es) → ∃ a, a ∈ snaps ∧ c = encode a) →
    d_data (fsrun dir0 es) = Some b → ∃ a, a ∈ snaps ∧ decode b = Some a.
  Proof.
    intros Hsn Hb. apply always_complete in Hb. destruct (Hsn b Hb) as (a & Ha & ->). exists a. by rewrite decode_encode.
  Qed.
End codec.

(** writing data.json in place has a crash point with a truncated file *)
Theorem direct_write_refuted :
  ∃ (content : bytes) (es : list ipevent) (data : option bytes),
    fold_left (fun d e => ipstep d e) es (Some [1;2;3]) = data ∧ concat [[4]; [5]] = content
    ∧ data ≠ Some [1;2;3] ∧ data ≠ Some content.
Proof. exists [4;5], [IPTrunc; IPWrite [4]], (Some [4]). simpl. repeat split; congruence. Qed.

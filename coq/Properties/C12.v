(** * C12 — Retention removes only finished jobs, oldest first, with their logs *)
From stdpp Require Import list.
From Coq Require Import ZArith.
From PV Require Import Runner proofs.Refine proofs.PersistProps.
Local Open Scope Z_scope.

(** a reported job stays reported after the save iff the retention decision keeps it *)
Theorem C12_kept_iff : ∀ s id j,
  get_job s id = Some j → j_removed j = false →
  (∃ j', get_job (do_save s) id = Some j' ∧ j_removed j' = false) ↔ should_remove s id j = false.
Proof. exact save_keeps_iff. Qed.

(** for a pipeline that is still defined a save never removes a waiting or running job *)
Theorem C12_never_removes_unfinished : ∀ s id j d,
  lookup_def (st_defs s) (j_pipe j) = Some d → is_waiting j || is_running j = true → should_remove s id j = false.
Proof. exact save_keeps_unfinished. Qed.

(** afterwards at most retention_count finished jobs of the pipeline remain ... *)
Theorem C12_count_bound : ∀ s p d,
  lookup_def (st_defs s) p = Some d → (0 < pd_retc d)%nat → (length (kept_finished s p) <= pd_retc d)%nat.
Proof. exact save_count_bound. Qed.

(** ... each of them with fewer than retention_count newer jobs in its pipeline (so a finished job is kept only if
    every newer finished one is: fewer jobs are newer than a newer job) ... *)
Theorem C12_kept_are_the_newest : ∀ s id j d,
  lookup_def (st_defs s) (j_pipe j) = Some d → finished j = true → (0 < pd_retc d)%nat → should_remove s id j = false →
  (rank s id j < pd_retc d)%nat.
Proof. exact save_rank. Qed.

(** ... and none older than retention_period *)
Theorem C12_period_bound : ∀ s id j d,
  lookup_def (st_defs s) (j_pipe j) = Some d → finished j = true → 0 < pd_retp d → should_remove s id j = false →
  age j <= pd_retp d.
Proof. exact save_period. Qed.

(** without retention settings nothing is removed *)
Theorem C12_no_settings_no_removal : ∀ s id j d,
  lookup_def (st_defs s) (j_pipe j) = Some d → pd_retp d = 0 → pd_retc d = 0%nat → should_remove s id j = false.
Proof. exact save_no_settings. Qed.

(** jobs of pipelines that are no longer defined are purged (a job that still runs: once it has finished) *)
Theorem C12_undefined_purged : ∀ s id j,
  lookup_def (st_defs s) (j_pipe j) = None → should_remove s id j = negb (is_running j).
Proof. exact save_purges_undefined. Qed.

(** after every save the jobs reported by the API are exactly the jobs in the store; the logs of the removed jobs are
    gone and the logs of the kept jobs are untouched *)
Theorem C12_store_is_what_is_reported : ∀ s id,
  (∃ pj, pj ∈ default [] (st_store (do_save s)) ∧ pj_id pj = id)
  ↔ (∃ j, get_job (do_save s) id = Some j ∧ j_removed j = false).
Proof. exact save_store_ids. Qed.

Theorem C12_logs : ∀ s,
  st_store (do_save s) = Some (omap (fun ij => if j_removed ij.2 then None else Some (to_pjob ij.1 ij.2))
                                    (imap (fun i j => (i, j)) (st_jobs (do_save s))))
  ∧ st_logs (do_save s) = List.filter (fun i => negb (existsb (Nat.eqb i) (rmids s))) (st_logs s).
Proof. exact save_views_agree. Qed.

(** a concrete population: five finished jobs of ages 10..2, retention_count 2 and retention_period 7 *)
Definition pj (id : nat) (a : Z) : pjob := PJob id 0%nat true false (- a) (Some (- a)) (Some (- a)) VNone 0%nat None [].
Definition ex_s : state := init_from [(0%nat, PDef 1 None false 0 false 7 2 0 [])] [pj 0 10; pj 1 8; pj 2 6; pj 3 4; pj 4 2]%nat.
Example C12_ex : map pj_id (default [] (st_store (do_save ex_s))) = [3; 4]%nat ∧ st_logs (do_save ex_s) = [3; 4]%nat.
Proof. vm_compute. done. Qed.

Print Assumptions C12_kept_iff.
Print Assumptions C12_never_removes_unfinished.
Print Assumptions C12_count_bound.
Print Assumptions C12_kept_are_the_newest.
Print Assumptions C12_period_bound.
Print Assumptions C12_no_settings_no_removal.
Print Assumptions C12_undefined_purged.
Print Assumptions C12_store_is_what_is_reported.
Print Assumptions C12_logs.

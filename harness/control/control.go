// Package control: schedule control for the real PipelineRunner.
//
// Every goroutine the runner spawns is parked at a small set of points (the verif hooks of the taskctl scheduler and the
// entry / body of the controlled task runner's Run). The driver releases exactly one parked goroutine (or performs one API
// call) per event and then waits, by inspecting a full goroutine dump, until every other goroutine is blocked at a park
// point or in a wait derived from one (quiescence). Histories are therefore executed deterministically.
package control

import (
	"bytes"
	"context"
	"errors"
	"fmt"
	"runtime"
	"sort"
	"strings"
	"sync"
	"time"

	"github.com/taskctl/taskctl/pkg/scheduler"
	"github.com/taskctl/taskctl/pkg/task"

	"github.com/Flowpack/prunner"
	"github.com/Flowpack/prunner/taskctl"
)

type Kind int

const (
	KTop Kind = iota
	KVisit
	KCancel
	KReturn
	KRunEntry
	KRunBody
	KNotify
)

func (k Kind) String() string {
	return [...]string{"top", "visit", "cancel", "return", "runentry", "runbody", "notify"}[k]
}

type OutcomeKind int

const (
	OutOk OutcomeKind = iota
	OutFail
	OutCtx
)

type Outcome struct {
	Kind OutcomeKind
	Code int16
}

var ErrExit = errors.New("exit status (controlled)")

type Parked struct {
	Kind  Kind
	Job   *JobH
	Stage string
	// for KNotify: the status about to be notified is "error" (otherwise "done")
	Err bool
	ch  chan Outcome
}

// JobH is the harness' view of one job
type JobH struct {
	Idx      int
	UUID     string
	Pipeline string
	Runner   *CtlRunner
	Sched    *taskctl.Scheduler
	// scan bookkeeping of the harness: stages not yet visited in the current scan
	Todo map[string]bool
	// Runs as seen by the task runner
	RunBegan   map[string]int
	RunRefused map[string]int
	RunEnded   map[string]int
	Told       bool
	// what the runner was given for each task at Run (script, env) — C16 / C18
	Seen map[string]string
}

type H struct {
	// OutputStore, if set, is used by the controlled runner like the real runner uses it: the output files of a task
	// are created when its Run passes the context check
	OutputStore taskctl.OutputStore
	mu          sync.Mutex
	parked      []*Parked
	Jobs        []*JobH
	ByUUID      map[string]*JobH
	bySch       map[*taskctl.Scheduler]*JobH
	// index to assign to a job whose runner is created before ScheduleAsync returned
	Stuck string
}

func New() *H {
	h := &H{ByUUID: map[string]*JobH{}, bySch: map[*taskctl.Scheduler]*JobH{}}
	taskctl.VerifHooks.NewScheduler = func(s *taskctl.Scheduler) {
		s.VerifSetPause(0)
		if c, ok := s.VerifRunner().(*CtlRunner); ok {
			h.mu.Lock()
			c.job.Sched = s
			h.bySch[s] = c.job
			h.mu.Unlock()
		}
	}
	taskctl.VerifHooks.LoopTop = func(s *taskctl.Scheduler, g *scheduler.ExecutionGraph) {
		if j := h.jobOf(s); j != nil {
			h.park(KTop, j, "")
		}
	}
	taskctl.VerifHooks.Visit = func(s *taskctl.Scheduler, st *scheduler.Stage) {
		if j := h.jobOf(s); j != nil {
			h.park(KVisit, j, st.Name)
		}
	}
	taskctl.VerifHooks.Cancel = func(s *taskctl.Scheduler) {
		if j := h.jobOf(s); j != nil {
			h.park(KCancel, j, "")
		}
	}
	taskctl.VerifHooks.Return = func(s *taskctl.Scheduler) {
		if j := h.jobOf(s); j != nil {
			h.park(KReturn, j, "")
		}
	}
	taskctl.VerifHooks.Notify = func(s *taskctl.Scheduler, st *scheduler.Stage) {
		// the notifications of a stage goroutine after Run returned ("error", "done"); the "running" notification of the
		// scheduling loop stays part of the visit event
		status := st.ReadStatus()
		if status == scheduler.StatusRunning {
			return
		}
		if j := h.jobOf(s); j != nil {
			h.parkP(&Parked{Kind: KNotify, Job: j, Stage: st.Name, Err: status == scheduler.StatusError, ch: make(chan Outcome)})
		}
	}
	return h
}

func (h *H) Close() {
	taskctl.VerifHooks.NewScheduler = nil
	taskctl.VerifHooks.LoopTop = nil
	taskctl.VerifHooks.Visit = nil
	taskctl.VerifHooks.Cancel = nil
	taskctl.VerifHooks.Return = nil
	taskctl.VerifHooks.Notify = nil
}

func (h *H) jobOf(s *taskctl.Scheduler) *JobH {
	h.mu.Lock()
	defer h.mu.Unlock()
	return h.bySch[s]
}

func (h *H) park(k Kind, j *JobH, stage string) Outcome {
	return h.parkP(&Parked{Kind: k, Job: j, Stage: stage, ch: make(chan Outcome)})
}

func (h *H) parkP(p *Parked) Outcome {
	h.mu.Lock()
	h.parked = append(h.parked, p)
	h.mu.Unlock()
	return <-p.ch
}

// ParkedList returns the currently parked goroutines in a canonical order
func (h *H) ParkedList() []*Parked {
	h.mu.Lock()
	defer h.mu.Unlock()
	out := append([]*Parked(nil), h.parked...)
	sort.SliceStable(out, func(a, b int) bool {
		if out[a].Job.Idx != out[b].Job.Idx {
			return out[a].Job.Idx < out[b].Job.Idx
		}
		if out[a].Kind != out[b].Kind {
			return out[a].Kind < out[b].Kind
		}
		return out[a].Stage < out[b].Stage
	})
	return out
}

// Release lets one parked goroutine continue (unbuffered send: returns once the goroutine has taken the value)
func (h *H) Release(p *Parked, o Outcome) {
	h.mu.Lock()
	for i, q := range h.parked {
		if q == p {
			h.parked = append(h.parked[:i], h.parked[i+1:]...)
			break
		}
	}
	h.mu.Unlock()
	p.ch <- o
}

// CreateTaskRunner is the createTaskRunner callback handed to NewPipelineRunner
func (h *H) CreateTaskRunner(j *prunner.PipelineJob) taskctl.Runner {
	id := j.ID.String()
	h.mu.Lock()
	jh, ok := h.ByUUID[id]
	if !ok {
		// the job is being scheduled right now and starts immediately: its index is the next one
		jh = h.newJobLocked(id, j.Pipeline)
	}
	c := &CtlRunner{h: h, job: jh}
	c.ctx, c.cancel = context.WithCancel(context.Background())
	jh.Runner = c
	h.mu.Unlock()
	return c
}

func (h *H) newJobLocked(uuid, pipeline string) *JobH {
	jh := &JobH{Idx: len(h.Jobs), UUID: uuid, Pipeline: pipeline, RunBegan: map[string]int{}, RunRefused: map[string]int{},
		RunEnded: map[string]int{}, Seen: map[string]string{}}
	h.Jobs = append(h.Jobs, jh)
	h.ByUUID[uuid] = jh
	return jh
}

// Accepted registers a job returned by ScheduleAsync
func (h *H) Accepted(uuid, pipeline string) *JobH {
	h.mu.Lock()
	defer h.mu.Unlock()
	if jh, ok := h.ByUUID[uuid]; ok {
		return jh
	}
	return h.newJobLocked(uuid, pipeline)
}

// ---- controlled runner ----

type CtlRunner struct {
	h            *H
	job          *JobH
	onTaskChange func(t *task.Task)
	ctx          context.Context
	cancel       context.CancelFunc
	mu           sync.Mutex
	canceling    bool
	wg           sync.WaitGroup
}

var _ taskctl.Runner = &CtlRunner{}

func (c *CtlRunner) SetOnTaskChange(f func(t *task.Task)) { c.onTaskChange = f }

func (c *CtlRunner) notify(t *task.Task) {
	if c.onTaskChange != nil {
		c.onTaskChange(t)
	}
}

// Run behaves towards its caller as taskctl.TaskRunner.Run does (see cmd/procrun for the check of that contract)
func (c *CtlRunner) Run(t *task.Task) error {
	c.wg.Add(1)
	defer c.wg.Done()

	c.h.park(KRunEntry, c.job, t.Name)

	if err := c.ctx.Err(); err != nil {
		c.h.mu.Lock()
		c.job.RunRefused[t.Name]++
		c.h.mu.Unlock()
		return err
	}
	c.h.mu.Lock()
	c.job.RunBegan[t.Name]++
	env := ""
	if t.Env != nil {
		env = fmt.Sprint(t.Env.Get("E"))
	}
	c.job.Seen[t.Name] = strings.Join(t.Commands, ";") + "|" + env
	c.h.mu.Unlock()
	if c.h.OutputStore != nil {
		for _, stream := range []string{"stdout", "stderr"} {
			if w, err := c.h.OutputStore.Writer(c.job.UUID, t.Name, stream); err == nil {
				_, _ = w.Write([]byte(c.job.UUID + "/" + t.Name + "/" + stream + "\n"))
				_ = w.Close()
			}
		}
	}
	if len(t.Commands) == 0 {
		c.h.mu.Lock()
		c.job.RunEnded[t.Name]++
		c.h.mu.Unlock()
		return nil
	}
	t.Start = time.Now()
	c.notify(t)

	out := c.h.park(KRunBody, c.job, t.Name)
	c.h.mu.Lock()
	c.job.RunEnded[t.Name]++
	c.h.mu.Unlock()
	switch out.Kind {
	case OutFail:
		t.ExitCode = out.Code
		if t.AllowFailure {
			c.notify(t)
			break
		}
		t.Errored = true
		t.Error = ErrExit
		c.notify(t)
		return t.Error
	case OutCtx:
		t.Errored = true
		t.Error = c.ctx.Err()
		if t.Error == nil {
			t.Error = context.Canceled
		}
		c.notify(t)
		return t.Error
	}
	t.End = time.Now()
	c.notify(t)
	return nil
}

func (c *CtlRunner) Cancel() {
	c.mu.Lock()
	if !c.canceling {
		c.canceling = true
		c.cancel()
	}
	c.mu.Unlock()
	c.h.mu.Lock()
	c.job.Told = true
	c.h.mu.Unlock()
	c.waitRuns()
}

// waitRuns is a separate function so that the quiescence detector can recognise this wait by name
func (c *CtlRunner) waitRuns() { c.wg.Wait() }

func (c *CtlRunner) Finish() {}

func (c *CtlRunner) CtxCanceled() bool { return c.ctx.Err() != nil }

// ---- quiescence ----

var stackBuf = make([]byte, 1<<20)

// goroutine states in which a goroutine can make progress without the driver, or is about to
func blockedState(st string) bool {
	for _, p := range []string{"chan receive", "chan send", "select", "semacquire", "sync.WaitGroup.Wait", "sync.Cond.Wait", "sleep", "IO wait"} {
		if strings.HasPrefix(st, p) {
			return true
		}
	}
	return false
}

// Quiesce waits until every goroutine other than the caller is blocked at a park point or in a wait derived from one.
// extraOK lists additional function-name fragments that identify goroutines allowed to be in any blocked state
// (e.g. the Shutdown poll loop). Returns a description of the offending goroutine on timeout.
func (h *H) Quiesce(timeout time.Duration, extraOK ...string) error {
	deadline := time.Now().Add(timeout)
	var last string
	for i := 0; ; i++ {
		n := runtime.Stack(stackBuf, true)
		for n == len(stackBuf) {
			stackBuf = make([]byte, 2*len(stackBuf))
			n = runtime.Stack(stackBuf, true)
		}
		ok := true
		blocks := bytes.Split(stackBuf[:n], []byte("\n\n"))
		for bi, b := range blocks {
			if bi == 0 {
				continue // the calling goroutine comes first
			}
			s := string(b)
			nl := strings.IndexByte(s, '\n')
			if nl < 0 {
				continue
			}
			head := s[:nl]
			lb, rb := strings.IndexByte(head, '['), strings.LastIndexByte(head, ']')
			if lb < 0 || rb < lb {
				continue
			}
			state := head[lb+1 : rb]
			body := s[nl:]
			good := false
			if blockedState(state) {
				switch {
				case strings.Contains(body, "control.(*H).parkP("):
					good = strings.HasPrefix(state, "chan receive")
				case strings.Contains(body, "(*CtlRunner).waitRuns("):
					good = true
				case strings.Contains(body, "sync.(*WaitGroup).Wait(") && strings.Contains(body, "taskctl.(*Scheduler).Schedule("):
					good = true
				case strings.Contains(body, "os/signal.") || strings.Contains(body, "runtime.ensureSigM"):
					good = true
				default:
					for _, f := range extraOK {
						if strings.Contains(body, f) {
							good = true
						}
					}
				}
			}
			if !good {
				ok = false
				last = s
				break
			}
		}
		if ok {
			return nil
		}
		if time.Now().After(deadline) {
			return fmt.Errorf("no quiescence after %v; offending goroutine:\n%s", timeout, last)
		}
		if i < 50 {
			runtime.Gosched()
		} else {
			time.Sleep(50 * time.Microsecond)
		}
	}
}

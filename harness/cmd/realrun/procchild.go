package main

import (
	"os"
	"syscall"
	"time"

	"verifharness/hutil"

	"github.com/taskctl/taskctl/pkg/task"
	"github.com/taskctl/taskctl/pkg/variables"

	"github.com/Flowpack/prunner/taskctl"
)

const (
	markCancel = 999999001
	markReport = 999999002
	markEnd    = 999999003
)

func runChildTask(dir string, lines []string, settleMs int) {
	st, err := taskctl.NewOutputStore(dir)
	if err != nil {
		panic(err)
	}
	var opts []taskctl.Opts
	ktms := hutil.EnvInt("REALRUN_KT_MS", -1)
	if ktms >= 0 {
		// an embedder configuring the kill timeout (0 = no grace period)
		opts = append(opts, taskctl.WithKillTimeout(time.Duration(ktms)*time.Millisecond))
	}
	r, err := taskctl.NewTaskRunner(st, opts...)
	if err != nil {
		panic(err)
	}
	t := task.FromCommands(lines...)
	t.Name = "t"
	t.Variables = variables.FromMap(map[string]string{taskctl.JobIDVariableName: "job"})
	done := make(chan error, 1)
	go func() { done <- r.Run(t) }()
	time.Sleep(time.Duration(settleMs) * time.Millisecond)
	mark := os.Getenv("REALRUN_MARK") // the script lines export VERIF_MARK=<this> themselves
	before := len(procsWithMark(mark))
	_ = syscall.Kill(markCancel, 0)
	t0 := time.Now()
	r.Cancel()
	<-done
	_ = syscall.Kill(markReport, 0)
	report := time.Since(t0)
	time.Sleep(100 * time.Millisecond)
	soon := procsWithMark(mark)
	wait := 2*time.Second + 300*time.Millisecond
	if ktms >= 0 {
		wait = time.Duration(ktms)*time.Millisecond + 300*time.Millisecond
	}
	time.Sleep(wait)
	final := procsWithMark(mark)
	_ = syscall.Kill(markEnd, 0)
	for _, p := range final {
		_ = syscall.Kill(p, syscall.SIGKILL)
	}
	emit(map[string]interface{}{"kind": "child", "kill_timeout_ms": ktms, "script": lines, "procs_before": before, "report_ms": report.Milliseconds(),
		"alive_100ms_after_report": len(soon), "alive_after_timeout": len(final)})
}

#!/bin/bash
# usage: seedone.sh <seed> [prop] — one seeded change against one check on a private scratch worktree; prints the verdict
cd /verif
s=$1; prop=${2:-${s%%-*}}
WT=/tmp/seedone-$$
git -C /repo worktree add --detach $WT HEAD >/dev/null 2>&1 || exit 2
trap 'git -C /repo worktree remove --force $WT >/dev/null 2>&1' EXIT
git -C $WT apply /verif/seeded/$s/patch.diff || { echo "$s APPLY-FAILED"; exit 2; }
VERIF_REPO=$WT VERIF_NO_EVIDENCE=1 ./check $prop --tier quick > work/seedone-$s-$prop.log 2>&1; rc=$?
echo "$s vs $prop rc=$rc $(grep -c '^VIOLATION' work/seedone-$s-$prop.log) violations, $(grep -c no-failing-input-found work/seedone-$s-$prop.log) without input"
grep "^VIOLATION" work/seedone-$s-$prop.log | head -2

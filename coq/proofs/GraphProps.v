(** Properties of the task ordering (Graph.v): the Kahn-based sort only reorders *)
From stdpp Require Import list sorting.
From Coq Require Import Lia.
From PV Require Import Graph.

Lemma insert_task_perm ranks x l : insert_task ranks x l ≡ₚ x :: l.
Proof.
  induction l as [|y l IH]; simpl; [done|].
  destruct (key_le _ _); [done|]. rewrite IH. apply Permutation_swap.
Qed.

(** the job's task list is a permutation of the definition's tasks: none lost, none duplicated *)
Lemma sort_tasks_perm ts : sort_tasks ts ≡ₚ ts.
Proof.
  unfold sort_tasks. generalize (task_ranks ts). intros ranks.
  induction ts as [|x ts IH]; simpl; [done|]. rewrite insert_task_perm. by rewrite IH.
Qed.

Lemma sort_tasks_lookup ts n t : NoDup (map fst ts) → (n, t) ∈ sort_tasks ts ↔ (n, t) ∈ ts.
Proof. intros _. by rewrite sort_tasks_perm. Qed.

(** the order is decided by (rank, name) only: the result is sorted by that key *)
Definition key_of (ranks : list (name * nat)) (x : name * taskdef) : nat * name := (rank_of ranks (fst x), fst x).

Lemma key_le_total k1 k2 : key_le k1 k2 = false → key_le k2 k1 = true.
Proof.
  unfold key_le. destruct k1 as [r1 n1], k2 as [r2 n2]. simpl.
  destruct (Nat.eqb_spec r1 r2) as [->|Hne].
  - rewrite Nat.eqb_refl. intros H. apply Nat.leb_gt in H. apply Nat.leb_le. lia.
  - destruct (Nat.eqb_spec r2 r1); [congruence|]. intros H. apply Nat.ltb_ge in H. apply Nat.ltb_lt. lia.
Qed.

Lemma key_le_trans k1 k2 k3 : key_le k1 k2 = true → key_le k2 k3 = true → key_le k1 k3 = true.
Proof.
  unfold key_le. destruct k1 as [r1 n1], k2 as [r2 n2], k3 as [r3 n3]. simpl.
  destruct (Nat.eqb_spec r1 r2) as [->|H12], (Nat.eqb_spec r2 r3) as [->|H23]; rewrite ?Nat.eqb_refl.
  - intros H1 H2. apply Nat.leb_le in H1, H2. apply Nat.leb_le. lia.
  - destruct (Nat.eqb_spec r2 r3); [done|]. done.
  - destruct (Nat.eqb_spec r1 r3); [done|]. intros. done.
  - intros H1 H2. apply Nat.ltb_lt in H1, H2. destruct (Nat.eqb_spec r1 r3); [lia|]. apply Nat.ltb_lt. lia.
Qed.

Definition sorted_by (ranks : list (name * nat)) (l : tasks) : Prop :=
  StronglySorted (fun x y => key_le (key_of ranks x) (key_of ranks y) = true) l.

Lemma insert_task_sorted ranks x l : sorted_by ranks l → sorted_by ranks (insert_task ranks x l).
Proof.
  induction 1 as [|y l Hs IH Hall]; simpl; [repeat constructor|].
  destruct (key_le (rank_of ranks x.1, x.1) (rank_of ranks y.1, y.1)) eqn:E.
  - constructor; [by constructor|]. constructor; [done|].
    eapply Forall_impl; [exact Hall|]. intros z Hz. eapply key_le_trans; [exact E|exact Hz].
  - constructor; [done|]. rewrite insert_task_perm. constructor; [by apply key_le_total|done].
Qed.

Lemma sort_tasks_sorted ts : sorted_by (task_ranks ts) (sort_tasks ts).
Proof.
  unfold sort_tasks. generalize (task_ranks ts). intros ranks.
  induction ts as [|x ts IH]; simpl; [constructor|]. by apply insert_task_sorted.
Qed.

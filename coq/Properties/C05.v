(** * C05 — Wait-list admission follows queue_limit and queue_strategy exactly *)
From stdpp Require Import list.
From Coq Require Import ZArith.
From PV Require Import Runner proofs.SystemProps.

(** The decision is the table of the property, evaluated on the number of executing jobs and the number of jobs
    that are still waiting (not started, not canceled/replaced) — not on internal bookkeeping. *)
Theorem C05_decision_table : ∀ s p d,
  reach s → st_shut s = false → lookup_def (st_defs s) p = Some d →
  resolve_action s p false
  = decision (pd_conc d) (pd_delay d) (pd_qlimit d) (pd_replace d) (running_count s p) (length (sys_waiting_ids s p)).
Proof. exact resolve_is_decision. Qed.

(** What each decision does: rejections leave no trace (jobs, wait lists and definitions unchanged); append adds the
    new job at the end; replace overwrites the most recently queued job, which is reported canceled with its timer
    disarmed; otherwise the job is handed to the start path. *)
Theorem C05_effects : ∀ s p v u,
  st_shut s = false → is_Some (lookup_def (st_defs s) p) →
  let n := length (st_jobs s) in
  let s' := (do_schedule s p v u).1 in
  let r := (do_schedule s p v u).2 in
  match resolve_action s p false with
  | ANoQueue => r = RErrNoQueue ∧ st_jobs s' = st_jobs s ∧ st_wait s' = st_wait s ∧ st_defs s' = st_defs s
  | AQueueFull => r = RErrQueueFull ∧ st_jobs s' = st_jobs s ∧ st_wait s' = st_wait s ∧ st_defs s' = st_defs s
  | AQueue => r = RJob n ∧ wl_get (st_wait s') p = wl_get (st_wait s) p ++ [n]
              ∧ ∀ id j, get_job s id = Some j → get_job s' id = Some j
  | AReplace => r = RJob n ∧ ∃ prev, last (wl_get (st_wait s) p) = Some prev
                ∧ wl_get (st_wait s') p = removelast (wl_get (st_wait s) p) ++ [n]
                ∧ (∀ j, get_job s prev = Some j → get_job s' prev = Some (set_canceled_notimer j))
  | AStart => r = RJob n
  end.
Proof. exact schedule_effects. Qed.

(** Only jobs that are still waiting occupy queue slots (the wait list is exactly the waiting jobs) ... *)
Theorem C05_only_waiting_jobs_count : ∀ s p,
  reach s → st_shut s = false → wl_get (st_wait s) p = sys_waiting_ids s p.
Proof. exact sys_wait_list_exact. Qed.

(** ... so under unchanged definitions the number of waiting jobs never exceeds queue_limit, nor 1 under replace. *)
Theorem C05_waiting_bounded : ∀ ds evs p d,
  Forall no_reload evs → lookup_def ds p = Some d →
  (∀ n, pd_qlimit d = Some n → (length (wl_get (st_wait (exec (init ds) evs)) p) <= n)%nat)
  ∧ (pd_replace d = true → (length (wl_get (st_wait (exec (init ds) evs)) p) <= 1)%nat).
Proof. exact sys_waiting_bounded. Qed.

Definition ex_defs : defs := [(0%nat, PDef 1 (Some 1%nat) false 0 false 0 0 0 [(0%nat, TaskDef [] false false 0 0)])].
Example C05_ex_cancel_frees_slot :
  let evs := [EvSchedule 0 VNone 0; EvSchedule 0 VNone 0; EvCancel 1] in
  (do_schedule (exec (init ex_defs) (evs ++ [EvSchedule 0 VNone 0])) 0 VNone 0).2 = RErrQueueFull
  ∧ (do_schedule (exec (init ex_defs) evs) 0 VNone 0).2 = RJob 2.
Proof. vm_compute. done. Qed.

Print Assumptions C05_decision_table.
Print Assumptions C05_effects.
Print Assumptions C05_only_waiting_jobs_count.
Print Assumptions C05_waiting_bounded.

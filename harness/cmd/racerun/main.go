// racerun: search engine for property C13 (the runner's public API is free of data races under concurrent use).
// Built with -race. Many goroutines overlap schedule, cancel, read, list, reload, save (with retention) and the HTTP
// handlers on one real PipelineRunner with a real JSON store while jobs run and call back; finally shutdown. A report of
// the race detector or a runtime fatal error is the finding (exit code 66 / 2; the report goes to stderr / GORACE log_path).
package main

import (
	"bytes"
	"context"
	"encoding/json"
	"errors"
	"flag"
	"fmt"
	"net/http"
	"net/http/httptest"
	"os"
	"sync"
	"sync/atomic"
	"time"

	"github.com/apex/log"
	"github.com/apex/log/handlers/discard"
	"github.com/go-chi/jwtauth/v5"
	"github.com/gofrs/uuid"
	"github.com/lestrrat-go/jwx/jwa"
	"github.com/lestrrat-go/jwx/jwt"
	"github.com/taskctl/taskctl/pkg/task"

	"github.com/Flowpack/prunner"
	"github.com/Flowpack/prunner/definition"
	"github.com/Flowpack/prunner/server"
	"github.com/Flowpack/prunner/store"
	"github.com/Flowpack/prunner/taskctl"

	"verifharness/hutil"
)

const secret = "0123456789abcdef0123456789abcdef"

// stressRunner is a task runner whose tasks take 0-3 ms, fail sometimes and stop on cancel
type stressRunner struct {
	onTaskChange func(t *task.Task)
	stop         chan struct{}
	once         sync.Once
	seed         uint64
	n            uint64
}

func (m *stressRunner) SetOnTaskChange(f func(t *task.Task)) { m.onTaskChange = f }

func (m *stressRunner) Run(t *task.Task) error {
	k := atomic.AddUint64(&m.n, 1)
	r := hutil.NewRng(m.seed ^ k*0x9e3779b97f4a7c15)
	t.Start = time.Now()
	if m.onTaskChange != nil {
		m.onTaskChange(t)
	}
	var err error
	select {
	case <-m.stop:
		err = context.Canceled
	case <-time.After(time.Duration(r.Intn(3000)) * time.Microsecond):
		if r.Chance(1, 6) {
			err = errors.New("task failed")
			t.ExitCode = 1
		}
	}
	if err != nil {
		t.Errored = true
		t.Error = err
	} else {
		t.End = time.Now()
	}
	if m.onTaskChange != nil {
		m.onTaskChange(t)
	}
	return err
}

func (m *stressRunner) Cancel() { m.once.Do(func() { close(m.stop) }) }
func (m *stressRunner) Finish() {}

func intp(i int) *int { return &i }

func mkDefs(variant int) *definition.PipelinesDef {
	tasks := func(n int) map[string]definition.TaskDef {
		m := map[string]definition.TaskDef{}
		for i := 0; i < n; i++ {
			td := definition.TaskDef{Script: []string{fmt.Sprintf("sleep 0.0%d", 1+(i+variant)%3), []string{"true", "true", "exit 1"}[(i+variant)%3]}, AllowFailure: i%3 == 2}
			if i > 0 && i%2 == 1 {
				td.DependsOn = []string{fmt.Sprintf("t%d", i-1)}
			}
			m[fmt.Sprintf("t%d", i)] = td
		}
		return m
	}
	d := &definition.PipelinesDef{Pipelines: map[string]definition.PipelineDef{
		"a": {Concurrency: 2, QueueLimit: intp(3), RetentionCount: 3, Tasks: tasks(3), SourcePath: "gen"},
		"b": {Concurrency: 1, QueueLimit: intp(1), QueueStrategy: definition.QueueStrategyReplace, RetentionCount: 2, Tasks: tasks(1 + variant), SourcePath: "gen"},
		"c": {Concurrency: 3, QueueLimit: nil, RetentionPeriod: 30 * time.Millisecond, ContinueRunningTasksAfterFailure: true, Tasks: tasks(4), SourcePath: "gen"},
		"d": {Concurrency: 1, QueueLimit: intp(2), StartDelay: 4 * time.Millisecond, QueueStrategy: definition.QueueStrategyReplace, RetentionCount: 1, Tasks: tasks(2), SourcePath: "gen"},
	}}
	// jobs of this pipeline always run on the real task runner; they are canceled several times at once (see below)
	d.Pipelines["real"] = definition.PipelineDef{Concurrency: 4, QueueLimit: intp(0), RetentionCount: 2, Tasks: map[string]definition.TaskDef{
		"x": {Script: []string{"sleep 0.3"}}, "y": {Script: []string{"sleep 0.3"}}}, SourcePath: "gen"}
	if variant == 1 {
		delete(d.Pipelines, "d")
		d.Pipelines["e"] = definition.PipelineDef{Concurrency: 2, QueueLimit: intp(0), RetentionCount: 1, Tasks: tasks(2), SourcePath: "gen"}
	}
	return d
}

func main() {
	seed := flag.Uint64("seed", 1, "seed")
	ms := flag.Int("ms", 1500, "duration of the overlap phase in milliseconds")
	workers := flag.Int("workers", 12, "number of concurrent callers")
	out := flag.String("out", "", "summary output file")
	flag.Parse()
	log.SetHandler(discard.Default)
	dir, err := os.MkdirTemp("", "racerun")
	if err != nil {
		panic(err)
	}
	defer os.RemoveAll(dir)
	ds, err := store.NewJSONDataStore(dir)
	if err != nil {
		panic(err)
	}
	os_, err := taskctl.NewOutputStore(dir + "/logs")
	if err != nil {
		panic(err)
	}
	ctx, cancelCtx := context.WithCancel(context.Background())
	defer cancelCtx()
	var created uint64
	r, err := prunner.NewPipelineRunner(ctx, mkDefs(0), func(j *prunner.PipelineJob) taskctl.Runner {
		n := atomic.AddUint64(&created, 1)
		if n%5 == 0 || j.Pipeline == "real" {
			// every fifth job runs on the real task runner (real processes): its Cancel / Run / callbacks are part of the race surface
			if tr, err := taskctl.NewTaskRunner(os_, taskctl.WithKillTimeout(200*time.Millisecond)); err == nil {
				return tr
			}
		}
		return &stressRunner{stop: make(chan struct{}), seed: *seed + n}
	}, ds, os_)
	if err != nil {
		panic(err)
	}
	r.ShutdownPollInterval = 5 * time.Millisecond
	srv := server.NewServer(r, os_, func(h http.Handler) http.Handler { return h }, jwtauth.New("HS256", []byte(secret), nil), false)
	tok := jwt.New()
	_ = tok.Set("sub", "racer")
	signed, _ := jwt.Sign(tok, jwa.HS256, []byte(secret))
	do := func(method, path string, body []byte) int {
		req := httptest.NewRequest(method, path, bytes.NewReader(body))
		req.Header.Set("Authorization", "Bearer "+string(signed))
		rec := httptest.NewRecorder()
		srv.ServeHTTP(rec, req)
		return rec.Code
	}

	var idsMx sync.Mutex
	var ids []uuid.UUID
	addID := func(id uuid.UUID) { idsMx.Lock(); ids = append(ids, id); idsMx.Unlock() }
	pickID := func(rng *hutil.Rng) (uuid.UUID, bool) {
		idsMx.Lock()
		defer idsMx.Unlock()
		if len(ids) == 0 {
			return uuid.UUID{}, false
		}
		// mostly recent jobs
		k := len(ids) - 1 - rng.Intn(minInt(len(ids), 12))
		return ids[k], true
	}
	// "every operation sees a consistent state": invariants evaluated inside one read-locked iteration
	var invMx sync.Mutex
	invFails := map[string]string{}
	invFail := func(key, detail string) {
		invMx.Lock()
		if _, ok := invFails[key]; !ok {
			invFails[key] = detail
		}
		invMx.Unlock()
	}
	conc := map[string]int{"a": 2, "b": 1, "c": 3} // the same in both definition sets
	checkSnapshot := func() {
		running := map[string]int{}
		r.IterateJobs(func(j *prunner.PipelineJob) {
			if j.Start != nil && !j.Completed && !j.Canceled {
				running[j.Pipeline]++
			}
			if j.Completed {
				if j.Start == nil {
					invFail("completed-without-start", j.ID.String())
				}
				if j.End == nil {
					invFail("completed-without-end", j.ID.String())
				}
				for _, t := range j.Tasks {
					if t.Status == "running" {
						invFail("completed-job-with-running-task", j.ID.String()+" task "+t.Name)
					}
				}
			}
			for _, t := range j.Tasks {
				// (an allow_failure task that was refused after a cancel is "done" without ever having started: System.v do_run_begin / do_notify)
				if t.Status == "done" && t.Start == nil && !t.AllowFailure {
					invFail("done-task-without-start", j.ID.String()+" task "+t.Name)
				}
				if t.Status != "waiting" && t.Status != "running" && t.Status != "done" && t.Status != "error" && t.Status != "canceled" && t.Status != "skipped" {
					invFail("unknown-task-status", t.Status)
				}
			}
		})
		for p, n := range running {
			if c, ok := conc[p]; ok && n > c {
				invFail("more-running-jobs-than-concurrency", fmt.Sprintf("pipeline %s: %d running, concurrency %d", p, n, c))
			}
		}
	}
	names := []string{"a", "b", "c", "d", "e", "nope"}
	counts := make([]int64, 12)
	deadline := time.Now().Add(time.Duration(*ms) * time.Millisecond)
	var wg sync.WaitGroup
	// one caller cancels a running job of the real task runner from three goroutines at once (a client that repeats its request,
	// the fail-fast path and a shutdown do the same)
	wg.Add(1)
	go func() {
		defer wg.Done()
		for time.Now().Before(deadline) {
			j, err := r.ScheduleAsync("real", prunner.ScheduleOpts{User: "u"})
			if err != nil {
				time.Sleep(10 * time.Millisecond)
				continue
			}
			addID(j.ID)
			id := j.ID
			time.Sleep(30 * time.Millisecond)
			var cw sync.WaitGroup
			for k := 0; k < 3; k++ {
				cw.Add(1)
				go func() { defer cw.Done(); _ = r.CancelJob(id) }()
			}
			cw.Wait()
			time.Sleep(20 * time.Millisecond)
		}
	}()
	for w := 0; w < *workers; w++ {
		wg.Add(1)
		go func(w int) {
			defer wg.Done()
			rng := hutil.NewRng(*seed*1000 + uint64(w))
			var sink int
			for time.Now().Before(deadline) {
				op := rng.Pick([]int{6, 3, 4, 3, 2, 1, 2, 2, 2, 2, 1})
				atomic.AddInt64(&counts[op], 1)
				switch op {
				case 0:
					j, err := r.ScheduleAsync(names[rng.Intn(len(names))], prunner.ScheduleOpts{Variables: map[string]interface{}{"k": w}, User: "u"})
					if err == nil {
						addID(j.ID)
					}
				case 1:
					if id, ok := pickID(rng); ok {
						_ = r.CancelJob(id)
					}
				case 2:
					if id, ok := pickID(rng); ok {
						_ = r.ReadJob(id, func(j *prunner.PipelineJob) {
							// read everything a client of the job may look at
							b, _ := json.Marshal(struct {
								P                   string
								C, X                bool
								S, E                *time.Time
								T                   interface{}
								V                   map[string]interface{}
								Env                 map[string]string
								LastErr             string
							}{j.Pipeline, j.Completed, j.Canceled, j.Start, j.End, len(j.Tasks), j.Variables, j.Env, fmt.Sprint(j.LastError)})
							sink += len(b)
							for _, t := range j.Tasks {
								sink += len(t.Status) + int(t.ExitCode) + len(t.Name)
								if t.Start != nil && t.End != nil && t.Errored {
									sink++
								}
							}
						})
					}
				case 3:
					checkSnapshot()
					r.IterateJobs(func(j *prunner.PipelineJob) {
						sink += len(j.Tasks)
						if j.Completed || j.Canceled || j.Start != nil || j.LastError != nil {
							sink++
						}
						for _, t := range j.Tasks {
							sink += len(t.Status)
						}
					})
				case 4:
					for _, p := range r.ListPipelines() {
						if p.Running || p.Schedulable {
							sink++
						}
					}
				case 5:
					r.ReplaceDefinitions(mkDefs(rng.Intn(2)))
				case 6:
					r.SaveToStore()
				case 7:
					do("GET", "/pipelines/jobs", nil)
				case 8:
					if id, ok := pickID(rng); ok {
						do("GET", "/job/detail?id="+id.String(), nil)
						do("GET", "/job/logs?id="+id.String()+"&task=t0", nil)
					}
				case 9:
					b, _ := json.Marshal(map[string]interface{}{"pipeline": names[rng.Intn(len(names))], "variables": map[string]interface{}{"w": w}})
					do("POST", "/pipelines/schedule", b)
				case 10:
					if id, ok := pickID(rng); ok {
						do("POST", "/job/cancel?id="+id.String(), nil)
					}
				}
				if rng.Chance(1, 4) {
					time.Sleep(time.Duration(rng.Intn(400)) * time.Microsecond)
				}
			}
			_ = sink
		}(w)
	}
	wg.Wait()
	// shutdown overlapping with readers and a late scheduler
	var wg2 sync.WaitGroup
	stopReaders := make(chan struct{})
	for w := 0; w < 4; w++ {
		wg2.Add(1)
		go func(w int) {
			defer wg2.Done()
			for {
				select {
				case <-stopReaders:
					return
				default:
				}
				r.IterateJobs(func(j *prunner.PipelineJob) { _ = j.Completed })
				_ = r.ListPipelines()
				_, _ = r.ScheduleAsync("a", prunner.ScheduleOpts{})
				if w == 0 {
					r.SaveToStore()
				}
				time.Sleep(500 * time.Microsecond)
			}
		}(w)
	}
	sctx, scancel := context.WithTimeout(context.Background(), time.Duration(20+*seed%3*40)*time.Millisecond)
	serr := r.Shutdown(sctx)
	scancel()
	close(stopReaders)
	wg2.Wait()
	r.SaveToStore()
	summary := map[string]interface{}{"kind": "race", "seed": *seed, "ms": *ms, "workers": *workers, "jobs": len(ids), "shutdown_err": fmt.Sprint(serr), "invariant_failures": invFails,
		"ops": map[string]int64{"schedule": counts[0], "cancel": counts[1], "read": counts[2], "iterate": counts[3], "list": counts[4], "reload": counts[5],
			"save": counts[6], "http_jobs": counts[7], "http_detail_logs": counts[8], "http_schedule": counts[9], "http_cancel": counts[10]}}
	f := os.Stdout
	if *out != "" {
		if ff, err := os.Create(*out); err == nil {
			f = ff
			defer ff.Close()
		}
	}
	hutil.JSONLine(f, summary)
	if len(invFails) > 0 {
		f.Close()
		os.Exit(3)
	}
}

func minInt(a, b int) int {
	if a < b {
		return a
	}
	return b
}

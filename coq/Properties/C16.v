(** * C16 — A definition reload affects only jobs scheduled afterwards *)
From stdpp Require Import list.
From Coq Require Import ZArith.
From PV Require Import Runner proofs.SystemProps.

(** what a job took from its pipeline definition when it was accepted — pipeline, start delay, pipeline environment,
    variables, user, and the names, scripts, dependencies, allow_failure flags and environments of its tasks — is the
    same in every later state, whatever reloads (or other events) happen; it is not canceled, restarted or lost *)
Theorem C16_snapshot_immutable : ∀ s evs id j,
  reach s → Forall no_restart evs → get_job s id = Some j →
  ∃ j', get_job (exec s evs) id = Some j' ∧ job_snapshot j' = job_snapshot j
        ∧ (j_canceled j = true → j_canceled j' = true) ∧ (j_completed j = true → j_completed j' = true)
        ∧ (is_Some (j_start j) → is_Some (j_start j'))
        ∧ (j_canceled j = true → j_start j = None → j_start j' = None ∧ j_sched j' = None).
Proof. exact sys_snapshot_immutable. Qed.

(** a reload changes the definitions and nothing else *)
Theorem C16_reload_changes_only_defs : ∀ s ds s' r,
  step s (EvReload ds) = Some (s', r) →
  st_defs s' = ds ∧ st_jobs s' = st_jobs s ∧ st_wait s' = st_wait s ∧ st_shut s' = st_shut s ∧ st_now s' = st_now s.
Proof. intros s ds s' r [= <- <-]. done. Qed.

(** jobs accepted afterwards are built from the new definitions *)
Theorem C16_new_jobs_new_defs : ∀ s p d v u,
  job_snapshot (new_job s p d v u) = (p, pd_delay d, pd_env d, v, u, sort_tasks (pd_tasks d)).
Proof.
  intros. unfold job_snapshot, new_job, job_graph, build_tasks. simpl. f_equal. rewrite map_map. simpl.
  induction (sort_tasks (pd_tasks d)) as [|[n t] l IH]; simpl; [done|]. by rewrite IH.
Qed.

(** the graph a job runs is built from its own snapshot (not from the current definitions): its stages are its tasks *)
Theorem C16_runs_from_snapshot : ∀ j, map fst (sc_stages (init_sched j)) = map fst (job_graph j).
Proof. intros j. unfold init_sched, job_graph. simpl. by rewrite !map_map. Qed.

Definition d1 : defs := [(0%nat, PDef 1 None false 0 false 0 0 1 [(0%nat, TaskDef [] false false 1 1)])].
Definition d2 : defs := [(0%nat, PDef 1 None false 2 false 0 0 2 [(0%nat, TaskDef [] false false 2 2); (1%nat, TaskDef [0%nat] false false 2 2)])].
Example C16_ex :
  let s := exec (init d1) [EvSchedule 0 VNone 0; EvSchedule 0 VNone 0; EvReload d2; EvSchedule 0 VNone 0] in
  (fun j => (j_env j, length (j_tasks j), j_delay j)) <$> st_jobs s = [(1, 1, 0); (1, 1, 0); (2, 2, 2)]%nat.
Proof. vm_compute. done. Qed.

Print Assumptions C16_snapshot_immutable.
Print Assumptions C16_reload_changes_only_defs.
Print Assumptions C16_new_jobs_new_defs.
Print Assumptions C16_runs_from_snapshot.

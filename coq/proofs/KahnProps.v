(** Kahn's algorithm as written in sortTasksByDependencies (Graph.v kahn / task_ranks): on an acyclic, closed
    dependency relation every task gets a rank and every dependency has a strictly smaller rank than its dependent *)
From stdpp Require Import list relations sorting.
From Coq Require Import Lia.
From PV Require Import Graph proofs.GraphProps proofs.BuildProps.

(** ** small facts about the list helpers *)
Lemma remove_name_spec n s x : x ∈ remove_name n s ↔ x ∈ s ∧ x ≠ n.
Proof.
  unfold remove_name. rewrite elem_of_list_In, filter_In, <- elem_of_list_In, negb_true_iff, Nat.eqb_neq. done.
Qed.

Lemma dedup_spec l x : x ∈ dedup l ↔ x ∈ l.
Proof.
  unfold dedup. revert x. induction l as [|a l IH]; intros x; simpl; [done|]. destruct (mem a _) eqn:E.
  - rewrite IH. apply mem_spec in E. rewrite IH in E. rewrite elem_of_cons. split; [by right|]. intros [->|H]; done.
  - rewrite !elem_of_cons, IH. done.
Qed.

Lemma insert_sorted_perm n l : insert_sorted n l ≡ₚ n :: l.
Proof.
  induction l as [|m l IH]; simpl; [done|]. destruct (Nat.leb n m); [done|]. rewrite IH. apply Permutation_swap.
Qed.

Lemma sort_names_perm l : sort_names l ≡ₚ l.
Proof. induction l as [|n l IH]; simpl; [done|]. rewrite insert_sorted_perm. by rewrite IH. Qed.

Lemma filter_fst_elem {A} (f : name * A → bool) (l : list (name * A)) x :
  x ∈ List.filter f l ↔ x ∈ l ∧ f x = true.
Proof. by rewrite elem_of_list_In, filter_In, <- elem_of_list_In. Qed.

Lemma filter_fst_NoDup {A} (f : name * A → bool) (l : list (name * A)) :
  NoDup (map fst l) → NoDup (map fst (List.filter f l)).
Proof.
  induction l as [|a l IH]; simpl; [done|]. intros Hnd. apply NoDup_cons in Hnd as [Ha Hnd].
  destruct (f a); [|by apply IH]. simpl. apply NoDup_cons. split; [|by apply IH].
  intros Hin. apply Ha. apply elem_of_list_fmap in Hin as (y & -> & Hy). apply filter_fst_elem in Hy as [Hy _].
  apply elem_of_list_fmap. by exists y.
Qed.

Lemma assoc_unique {A} (l : list (name * A)) m s1 s2 :
  NoDup (map fst l) → (m, s1) ∈ l → (m, s2) ∈ l → s1 = s2.
Proof.
  induction l as [|a l IH]; simpl; intros Hnd H1 H2; [by apply elem_of_nil in H1|].
  apply NoDup_cons in Hnd as [Ha Hnd].
  apply elem_of_cons in H1 as [E1|H1]; apply elem_of_cons in H2 as [E2|H2].
  - congruence.
  - subst a. exfalso. apply Ha. apply elem_of_list_fmap. by exists (m, s2).
  - subst a. exfalso. apply Ha. apply elem_of_list_fmap. by exists (m, s1).
  - by apply IH.
Qed.

Definition procd (order : list (name * nat)) : list name := map fst order.

Lemma rank_of_elem order d : d ∈ procd order → (d, rank_of order d) ∈ order.
Proof.
  induction order as [|[m r] o IH]; simpl; [by intros H%elem_of_nil|].
  intros H. destruct (Nat.eqb_spec m d) as [->|Hne]; [left|].
  right. apply IH. apply elem_of_cons in H as [H|H]; [congruence|done].
Qed.

(** ** a finite relation in which every element of a non-empty set has a successor in the set has a cycle *)
Lemma dup_indices (c : list name) : ¬ NoDup c → ∃ i j x, i < j ∧ c !! i = Some x ∧ c !! j = Some x.
Proof.
  induction c as [|a c IH]; intros Hnd; [by destruct Hnd; constructor|].
  destruct (decide (a ∈ c)) as [Hin|Hnin].
  - apply elem_of_list_lookup in Hin as [j Hj]. exists 0, (S j), a. split; [lia|done].
  - destruct IH as (i & j & x & Hij & Hi & Hj).
    + intros H. apply Hnd. by constructor.
    + exists (S i), (S j), x. split; [lia|done].
Qed.

Lemma no_sink_cycle (R : relation name) (U : list name) u0 :
  u0 ∈ U → (∀ u, u ∈ U → ∃ d, d ∈ U ∧ R u d) → ∃ x, tc R x x.
Proof.
  intros Hu0 Hsucc.
  assert (Hchain : ∀ k u, u ∈ U → ∃ c, length c = S k ∧ c !! 0 = Some u ∧ (∀ x, x ∈ c → x ∈ U) ∧
                                  ∀ i j x y, i < j → c !! i = Some x → c !! j = Some y → tc R x y).
  { induction k as [|k IHk]; intros u Hu.
    - exists [u]. split; [done|]. split; [done|]. split; [by intros x ->%elem_of_list_singleton|].
      intros i j x y Hij Hi Hj. destruct j; [lia|]. done.
    - destruct (Hsucc _ Hu) as (d & Hd & Hr). destruct (IHk _ Hd) as (c & Hlen & H0 & Hall & Hc).
      exists (u :: c). split; [simpl; lia|]. split; [done|]. split.
      + intros x Hx. apply elem_of_cons in Hx as [->|Hx]; [done|by apply Hall].
      + intros i j x y Hij Hi Hj. destruct j as [|j]; [lia|]. simpl in Hj. destruct i as [|i]; simpl in Hi.
        * injection Hi as <-. destruct j as [|j].
          -- rewrite H0 in Hj. injection Hj as <-. by apply tc_once.
          -- eapply tc_l; [exact Hr|]. eapply (Hc 0 (S j)); [lia|done|done].
        * eapply (Hc i j); [lia|done|done]. }
  destruct (Hchain (length U) _ Hu0) as (c & Hlen & _ & Hall & Hc).
  destruct (decide (NoDup c)) as [Hnd|Hnd].
  - assert (Hle : length c ≤ length U) by (apply submseteq_length, NoDup_submseteq; done). lia.
  - destruct (dup_indices _ Hnd) as (i & j & x & Hij & Hi & Hj). exists x. by eapply Hc.
Qed.

  Lemma inc_keys (ts : tasks) (inc : list (name * list name)) order :
    Forall2 (fun mi nt => fst mi = fst nt ∧ ∀ d, d ∈ snd mi ↔ d ∈ td_deps (snd nt) ∧ d ∉ procd order) inc ts →
    map fst inc = map fst ts.
  Proof. induction 1 as [|mi nt inc' ts' [H _] _ IH]; simpl; [done|]. by rewrite H, IH. Qed.

  (** the entry of a task in [inc] *)
  Lemma inc_entry (ts : tasks) (inc : list (name * list name)) order m t :
    Forall2 (fun mi nt => fst mi = fst nt ∧ ∀ d, d ∈ snd mi ↔ d ∈ td_deps (snd nt) ∧ d ∉ procd order) inc ts →
    (m, t) ∈ ts → ∃ s, (m, s) ∈ inc ∧ ∀ d, d ∈ s ↔ d ∈ td_deps t ∧ d ∉ procd order.
  Proof.
    intros HF Hin. apply elem_of_list_lookup in Hin as [k Hk].
    destruct (Forall2_lookup_r _ _ _ _ _ HF Hk) as ([m' s] & Hk' & Hm & Hs). simpl in *. subst m'.
    exists s. split; [by eapply elem_of_list_lookup_2|done].
  Qed.

  Lemma inc_entry_rev (ts : tasks) (inc : list (name * list name)) order m s :
    Forall2 (fun mi nt => fst mi = fst nt ∧ ∀ d, d ∈ snd mi ↔ d ∈ td_deps (snd nt) ∧ d ∉ procd order) inc ts →
    (m, s) ∈ inc → ∃ t, (m, t) ∈ ts ∧ ∀ d, d ∈ s ↔ d ∈ td_deps t ∧ d ∉ procd order.
  Proof.
    intros HF Hin. apply elem_of_list_lookup in Hin as [k Hk].
    destruct (Forall2_lookup_l _ _ _ _ _ HF Hk) as ([m' t] & Hk' & Hm & Hs). simpl in *. subst m'.
    exists t. split; [by eapply elem_of_list_lookup_2|done].
  Qed.


(** ** the loop invariant *)
Section kahn.
  Context (ts : tasks).
  Context (Hnd : NoDup (map fst ts)) (Hclosed : deps_closed ts) (Hacyc : acyclic ts).

  Record KInv (inc : list (name * list name)) (queue : list name) (i : nat) (order : list (name * nat)) : Prop := {
    k_inc : Forall2 (fun mi nt => fst mi = fst nt ∧ ∀ d, d ∈ snd mi ↔ d ∈ td_deps (snd nt) ∧ d ∉ procd order) inc ts;
    k_queue_nd : NoDup queue;
    k_queue_fresh : ∀ n, n ∈ queue → n ∉ procd order;
    k_empty : ∀ m s, (m, s) ∈ inc → (s = [] ↔ m ∈ procd order ∨ m ∈ queue);
    k_names : ∀ n, n ∈ procd order ∨ n ∈ queue → n ∈ map fst ts;
    k_nd : NoDup (procd order);
    k_bound : ∀ m r, (m, r) ∈ order → r < i;
    k_len : length order = i;
    k_rank : ∀ m t d, (m, t) ∈ ts → m ∈ procd order → d ∈ td_deps t →
             d ∈ procd order ∧ rank_of order d < rank_of order m }.

  Definition newly_of (n : name) (inc : list (name * list name)) : list name :=
    map fst (List.filter (fun mi => mem n (snd mi) && match remove_name n (snd mi) with [] => true | _ => false end) inc).

  Lemma newly_spec n inc m : m ∈ newly_of n inc ↔ ∃ s, (m, s) ∈ inc ∧ n ∈ s ∧ remove_name n s = [].
  Proof.
    unfold newly_of. rewrite elem_of_list_fmap. split.
    - intros ([m' s] & -> & H). apply filter_fst_elem in H as [Hin Hf]. simpl in *.
      apply andb_true_iff in Hf as [Hm Hr]. apply mem_spec in Hm. exists s. split; [done|]. split; [done|].
      by destruct (remove_name n s).
    - intros (s & Hin & Hn & Hr). exists (m, s). split; [done|]. apply filter_fst_elem. split; [done|]. simpl.
      apply andb_true_iff. split; [by apply mem_spec|]. by rewrite Hr.
  Qed.

  Lemma kinv_step inc n q i order :
    KInv inc (n :: q) i order →
    KInv (map (fun mi => (fst mi, remove_name n (snd mi))) inc) (sort_names (q ++ newly_of n inc)) (S i) ((n, i) :: order).
  Proof.
    intros [Hinc Hqnd Hqf Hemp Hnames HndP Hbound Hlen Hrank].
    assert (Hkeys := inc_keys _ _ _ Hinc).
    assert (Hndinc : NoDup (map fst inc)) by (by rewrite Hkeys).
    apply NoDup_cons in Hqnd as [Hnq Hqnd].
    assert (HnP : n ∉ procd order) by (apply Hqf; left).
    assert (Hnew_fresh : ∀ m, m ∈ newly_of n inc → m ∉ procd order ∧ m ∉ n :: q).
    { intros m (s & Hin & Hns & _)%newly_spec.
      assert (Hne : s ≠ []) by (intros ->; by apply elem_of_nil in Hns).
      split; intros H; apply Hne; apply (Hemp _ _ Hin); [by left|by right]. }
    assert (Hq' : ∀ m, m ∈ sort_names (q ++ newly_of n inc) ↔ m ∈ q ∨ m ∈ newly_of n inc).
    { intros m. by rewrite sort_names_perm, elem_of_app. }
    split.
    - (* inc *)
      apply Forall2_fmap_l. eapply Forall2_impl; [exact Hinc|]. intros [m s] [m' t] [Hm Hs]. simpl in *. split; [done|].
      intros d. rewrite remove_name_spec, Hs, not_elem_of_cons. naive_solver.
    - (* queue NoDup *)
      rewrite sort_names_perm. apply NoDup_app. split; [done|]. split.
      + intros m Hm Hm'. apply Hnew_fresh in Hm' as [_ Hm']. apply Hm'. by right.
      + by apply filter_fst_NoDup.
    - (* queue fresh *)
      intros m Hm. apply Hq' in Hm. simpl. rewrite not_elem_of_cons. destruct Hm as [Hm|Hm].
      + split; [by intros ->|]. apply Hqf. by right.
      + apply Hnew_fresh in Hm as [Hm1 Hm2]. split; [|done]. intros ->. apply Hm2. left.
    - (* empty *)
      intros m s' Hin'. apply elem_of_list_fmap in Hin' as ([m0 s] & Heq & Hin). simpl in Heq. injection Heq as Hm0 Hs0. subst m0 s'.
      rewrite Hq'. simpl. rewrite elem_of_cons. split.
      + intros Hs'. destruct s as [|x s0] eqn:Es.
        * destruct (proj1 (Hemp _ _ Hin) eq_refl) as [H|H]; [by left; right|].
          apply elem_of_cons in H as [->|H]; [by left; left|by right; left].
        * right. right. apply newly_spec. exists (x :: s0). split; [done|]. split; [|done].
          destruct (decide (x = n)) as [->|Hne]; [left|]. exfalso.
          assert (Hx : x ∈ remove_name n (x :: s0)) by (apply remove_name_spec; split; [left|done]).
          rewrite Hs' in Hx. by apply elem_of_nil in Hx.
      + intros H.
        assert (Hold : m ∈ procd order ∨ m ∈ n :: q → remove_name n s = []).
        { intros Hm. by rewrite (proj2 (Hemp _ _ Hin) Hm). }
        destruct H as [[->|H]|[H|H]].
        * apply Hold. right. left.
        * apply Hold. by left.
        * apply Hold. right. by right.
        * apply newly_spec in H as (s2 & Hin2 & _ & Hr). by rewrite (assoc_unique _ _ _ _ Hndinc Hin Hin2).
    - (* names *)
      intros m. simpl. rewrite elem_of_cons, Hq'. intros [[->|H]|[H|H]].
      + apply Hnames. right. left.
      + apply Hnames. by left.
      + apply Hnames. right. by right.
      + apply newly_spec in H as (s & Hin & _). rewrite <- Hkeys. apply elem_of_list_fmap. by exists (m, s).
    - (* NoDup processed *)
      simpl. by apply NoDup_cons.
    - (* bound *)
      intros m r Hin. apply elem_of_cons in Hin as [Heq|Hin]; [injection Heq as -> ->; lia|].
      apply Hbound in Hin. lia.
    - simpl. by rewrite Hlen.
    - (* ranks *)
      intros m t d Hmt Hm Hd. simpl in Hm. apply elem_of_cons in Hm as [->|Hm].
      + destruct (inc_entry _ _ _ _ _ Hinc Hmt) as (s & Hin & Hs).
        assert (Hse : s = []) by (apply (Hemp _ _ Hin); right; left). subst s.
        assert (HdP : d ∈ procd order).
        { destruct (decide (d ∈ procd order)) as [H|H]; [done|]. exfalso.
          assert (Hx : d ∈ ([] : list name)) by (apply Hs; done). by apply elem_of_nil in Hx. }
        split; [by right|]. simpl. rewrite Nat.eqb_refl.
        destruct (Nat.eqb_spec n d) as [->|Hne]; [done|].
        eapply Hbound. by apply rank_of_elem.
      + destruct (Hrank _ _ _ Hmt Hm Hd) as [HdP Hlt]. split; [by right|]. simpl.
        destruct (Nat.eqb_spec n m) as [->|_]; [done|]. destruct (Nat.eqb_spec n d) as [->|_]; [done|]. done.
  Qed.

  (** all tasks processed: when the queue runs empty (acyclicity) or the fuel runs out (counting) *)
  Lemma kinv_stuck inc i order : KInv inc [] i order → ∀ m, m ∈ map fst ts → m ∈ procd order.
  Proof.
    intros [Hinc _ _ Hemp _ _ _ _ _] m Hm.
    destruct (decide (m ∈ procd order)) as [H|Hm']; [done|]. exfalso.
    set (U := List.filter (fun x => negb (mem x (procd order))) (map fst ts)).
    assert (HU : ∀ x, x ∈ U ↔ x ∈ map fst ts ∧ x ∉ procd order).
    { intros x. unfold U. rewrite elem_of_list_In, filter_In, <- elem_of_list_In, negb_true_iff.
      split; intros [H1 H2]; (split; [done|]).
      - intros H. apply mem_spec in H. congruence.
      - destruct (mem x (procd order)) eqn:E; [|done]. by apply mem_spec in E. }
    destruct (no_sink_cycle (dep_on ts) U m) as (x & Hx); [by apply HU| |by apply (Hacyc x)].
    intros u [Hu HuP]%HU. apply elem_of_list_fmap in Hu as ([u' t] & -> & Hut). simpl in *.
    destruct (inc_entry _ _ _ _ _ Hinc Hut) as (s & Hin & Hs).
    destruct s as [|d s0].
    { exfalso. destruct (proj1 (Hemp _ _ Hin) eq_refl) as [H|H]; [done|by apply elem_of_nil in H]. }
    assert (Hd : d ∈ td_deps t ∧ d ∉ procd order) by (apply Hs; left). destruct Hd as [Hd HdP].
    exists d. split.
    - apply HU. split; [|done]. destruct (Hclosed _ _ _ Hut Hd) as (t' & Ht').
      apply lookup_task_elem in Ht'. apply elem_of_list_fmap. by exists (d, t').
    - exists t. split; [by apply lookup_task_NoDup|done].
  Qed.

  Lemma kahn_final fuel : ∀ inc queue i order,
    KInv inc queue i order → length ts ≤ fuel + length order →
    let order' := kahn fuel inc queue i order in
    (∀ m, m ∈ map fst ts → m ∈ procd order') ∧
    (∀ m t d, (m, t) ∈ ts → m ∈ procd order' → d ∈ td_deps t → d ∈ procd order' ∧ rank_of order' d < rank_of order' m).
  Proof.
    induction fuel as [|fuel IH]; intros inc queue i order HI Hlen; simpl.
    - split; [|by destruct HI]. destruct HI as [_ _ _ _ Hnames HndP _ _ _].
      assert (Hsub : procd order ⊆+ map fst ts).
      { apply NoDup_submseteq; [done|]. intros x Hx. apply Hnames. by left. }
      assert (Hp : procd order ≡ₚ map fst ts).
      { apply submseteq_Permutation_length_le; [|done]. unfold procd. rewrite !map_length. simpl in Hlen. lia. }
      intros m Hm. by rewrite Hp.
    - destruct queue as [|n q].
      + split; [by eapply kinv_stuck|by destruct HI].
      + apply IH; [by apply kinv_step|]. simpl. lia.
  Qed.

  (** the initial state of the loop *)
  Lemma kinv_init :
    let inc := map (fun nt => (fst nt, dedup (td_deps (snd nt)))) ts in
    KInv inc (sort_names (map fst (List.filter (fun mi => match snd mi with [] => true | _ => false end) inc))) 0 [].
  Proof.
    intros inc.
    assert (Hkeys : map fst inc = map fst ts).
    { unfold inc. rewrite map_map. done. }
    assert (Hq : ∀ m, m ∈ sort_names (map fst (List.filter (fun mi : name * list name => match snd mi with [] => true | _ => false end) inc))
                      ↔ (m, []) ∈ inc).
    { intros m. rewrite sort_names_perm, elem_of_list_fmap. split.
      - intros ([m' s] & -> & [Hin Hf]%filter_fst_elem). simpl in *. by destruct s.
      - intros Hin. exists (m, []). split; [done|]. by apply filter_fst_elem. }
    split.
    - unfold inc. apply Forall2_fmap_l. apply Forall_Forall2_diag. apply Forall_forall. intros [m t] _. simpl.
      split; [done|]. intros d. rewrite dedup_spec. split; [|by intros [? _]]. intros H. split; [done|]. by intros ?%elem_of_nil.
    - rewrite sort_names_perm. apply filter_fst_NoDup. by rewrite Hkeys.
    - intros n _ H. by apply elem_of_nil in H.
    - intros m s Hin. rewrite Hq. split.
      + intros ->. by right.
      + intros [H|H]; [by apply elem_of_nil in H|].
        eapply assoc_unique; [|exact Hin|exact H]. by rewrite Hkeys.
    - intros n [H|H]; [by apply elem_of_nil in H|]. apply Hq in H. rewrite <- Hkeys. apply elem_of_list_fmap. by exists (n, []).
    - constructor.
    - intros m r H. by apply elem_of_nil in H.
    - done.
    - intros m t d _ H. by apply elem_of_nil in H.
  Qed.

  (** every task is ranked, and a dependency has a strictly smaller rank than its dependent *)
  Theorem kahn_ranks m t d : (m, t) ∈ ts → d ∈ td_deps t → rank_of (task_ranks ts) d < rank_of (task_ranks ts) m.
  Proof.
    intros Hmt Hd. destruct (kahn_final (length ts) _ _ _ _ kinv_init) as [Hall Hrank]; [simpl; lia|].
    unfold task_ranks. eapply Hrank; [done| |done]. apply Hall. apply elem_of_list_fmap. by exists (m, t).
  Qed.

  (** hence the job's task list has every task after the tasks it depends on *)
  Theorem sort_tasks_topo : topo (sort_tasks ts).
  Proof.
    split; [by rewrite sort_tasks_perm|].
    intros l1 [m t] l2 Heq d Hd. simpl in Hd.
    assert (Hmt : (m, t) ∈ ts).
    { rewrite <- sort_tasks_perm, Heq. apply elem_of_app. right. left. }
    assert (Hlt := kahn_ranks _ _ _ Hmt Hd).
    destruct (Hclosed _ _ _ Hmt Hd) as (t' & Ht'). apply lookup_task_elem in Ht'.
    rewrite <- sort_tasks_perm, Heq in Ht'.
    apply elem_of_app in Ht' as [H|H]; [apply elem_of_list_fmap; by exists (d, t')|]. exfalso.
    apply elem_of_cons in H as [H|H]; [injection H as -> ->; lia|].
    assert (Hs := sort_tasks_sorted ts). unfold sorted_by in Hs. rewrite Heq in Hs.
    apply StronglySorted_app_inv_r in Hs. apply StronglySorted_inv in Hs as [_ Hall].
    rewrite Forall_forall in Hall. specialize (Hall _ H). unfold key_le, key_of in Hall. simpl in Hall.
    destruct (Nat.eqb_spec (rank_of (task_ranks ts) m) (rank_of (task_ranks ts) d)) as [E|E]; [lia|].
    apply Nat.ltb_lt in Hall. lia.
  Qed.
End kahn.

(** ** accepted exactly when acyclic *)
Lemma acyclic_perm l1 l2 : l1 ≡ₚ l2 → NoDup (map fst l1) → acyclic l1 → acyclic l2.
Proof.
  intros Hp Hnd Hac n Hn. apply (Hac n).
  assert (Hnd2 : NoDup (map fst l2)) by (by rewrite <- Hp).
  refine (tc_congruence (fun x => x) (dep_on l1) n n _ Hn).
  intros x y (t & Ht & Hd). exists t. split; [|done]. apply lookup_task_NoDup; [done|].
  rewrite Hp. by apply lookup_task_elem.
Qed.

Theorem accepted_iff_acyclic ts :
  NoDup (map fst ts) → deps_closed ts → (build_graph_ok (sort_tasks ts) = true ↔ acyclic ts).
Proof.
  intros Hnd Hcl. split.
  - intros H. apply accepted_acyclic in H. eapply acyclic_perm; [apply sort_tasks_perm| |done]. by rewrite sort_tasks_perm.
  - intros Hac. apply topo_accepted. by apply sort_tasks_topo.
Qed.

package main

import (
	"fmt"
	"os"
	"path/filepath"
	"sort"
	"strings"

	"time"

	"verifharness/hutil"
)

// fail mode (C08): the real application with the real task runner runs generated task graphs in which tasks succeed, exit
// non-zero, are killed by a signal nobody of prunner sent, or have an unparsable script; allow_failure and both
// fail-fast settings are drawn. Every task leaves a marker file when its first command starts, so what actually ran is known
// independently of what is reported. The verdict rules of the property are evaluated on (what ran, what is reported).

type failTask struct {
	Name    string   `json:"name"`
	Deps    []string `json:"deps"`
	Allow   bool     `json:"allow"`
	Outcome string   `json:"outcome"` // ok | exit | kill | parse
}

func failScript(t failTask) []string {
	mark := "touch {{.dir}}/{{.job}}-" + t.Name + ".ran"
	switch t.Outcome {
	case "ok":
		return []string{mark, "sleep 0.05", "true"}
	case "exit":
		return []string{mark, "sleep 0.05", "exit 3"}
	case "kill":
		return []string{mark, "sh -c 'kill -KILL $$'"}
	default: // parse: the second line cannot be parsed by the shell interpreter
		return []string{mark, "if then"}
	}
}

func failMode(seed uint64, rounds int) {
	r := hutil.NewRng(seed)
	dir, err := os.MkdirTemp("", "realrun-fail")
	if err != nil {
		panic(err)
	}
	defer os.RemoveAll(dir)
	for round := 0; round < rounds; round++ {
		// a few graphs per application instance, both fail-fast settings
		defs := map[string]PipeDef{}
		graphs := map[string][]failTask{}
		for g := 0; g < 6; g++ {
			n := 2 + r.Intn(4)
			var ts []failTask
			for i := 0; i < n; i++ {
				t := failTask{Name: fmt.Sprintf("t%d", i), Allow: r.Chance(1, 3), Outcome: []string{"ok", "ok", "ok", "exit", "kill", "parse"}[r.Intn(6)]}
				for d := 0; d < i; d++ {
					if r.Chance(1, 3) {
						t.Deps = append(t.Deps, fmt.Sprintf("t%d", d))
					}
				}
				ts = append(ts, t)
			}
			name := fmt.Sprintf("g%d", g)
			pd := PipeDef{Concurrency: 4, ContinueAfter: g%2 == 0, Tasks: map[string]TaskDef{}}
			for _, t := range ts {
				pd.Tasks[t.Name] = TaskDef{Script: failScript(t), DependsOn: t.Deps, AllowFailure: t.Allow}
			}
			defs[name], graphs[name] = pd, ts
		}
		a, err := startApp(defs)
		if err != nil {
			emit(map[string]interface{}{"kind": "error", "round": round, "what": err.Error()})
			return
		}
		names := make([]string, 0, len(graphs))
		for n := range graphs {
			names = append(names, n)
		}
		sort.Strings(names)
		ids := map[string]string{}
		for _, n := range names {
			id, st, msg := a.Schedule(n, map[string]interface{}{"dir": dir, "job": fmt.Sprintf("r%d%s", round, n)})
			if st != 202 {
				emit(map[string]interface{}{"kind": "error", "round": round, "what": fmt.Sprintf("schedule %s: %d %s", n, st, msg)})
				continue
			}
			ids[n] = id
		}
		for _, n := range names {
			id := ids[n]
			if id == "" {
				continue
			}
			res, done := a.WaitDone(id, 30*time.Second)
			rec := map[string]interface{}{"kind": "failcase", "round": round, "graph": n, "continue": defs[n].ContinueAfter, "tasks": graphs[n], "ok": true}
			if !done || res == nil {
				rec["ok"], rec["what"] = false, "the job did not finish"
				emit(rec)
				continue
			}
			time.Sleep(20 * time.Millisecond)
			ran := map[string]bool{}
			for _, t := range graphs[n] {
				if _, err := os.Stat(filepath.Join(dir, fmt.Sprintf("r%d%s-%s.ran", round, n, t.Name))); err == nil {
					ran[t.Name] = true
				}
			}
			rec["ran"], rec["report"] = ran, res
			if what := judgeFail(graphs[n], defs[n].ContinueAfter, ran, res); len(what) > 0 {
				rec["ok"], rec["what"] = false, strings.Join(what, "; ")
			}
			emit(rec)
		}
		a.Stop()
	}
}

func judgeFail(ts []failTask, cont bool, ran map[string]bool, res *JobResult) []string {
	by := map[string]failTask{}
	for _, t := range ts {
		by[t.Name] = t
	}
	// hardFail: the task cannot have succeeded; blocks: a failure that is not allowed
	blocked := map[string]bool{} // transitively depends on a failed task that may not fail
	var isBlocked func(n string) bool
	isBlocked = func(n string) bool {
		if v, ok := blocked[n]; ok {
			return v
		}
		blocked[n] = false
		for _, d := range by[n].Deps {
			dt := by[d]
			if (dt.Outcome != "ok" && !dt.Allow) || isBlocked(d) {
				blocked[n] = true
			}
		}
		return blocked[n]
	}
	var what []string
	anyHard := false
	for _, t := range ts {
		if t.Outcome != "ok" && !t.Allow && !isBlocked(t.Name) {
			anyHard = true // a failure that may not fail and whose dependencies allow it to run
		}
	}
	status := map[string]string{}
	for _, t := range res.Tasks {
		status[t.Name] = t.Status
		if res.Completed && t.Status == "running" {
			what = append(what, fmt.Sprintf("job completed but task %s is reported running", t.Name))
		}
	}
	for _, t := range ts {
		if isBlocked(t.Name) && ran[t.Name] {
			what = append(what, fmt.Sprintf("task %s ran although it (transitively) depends on a failed task that is not marked allow_failure", t.Name))
		}
		if cont && !isBlocked(t.Name) && !ran[t.Name] {
			what = append(what, fmt.Sprintf("continue_running_tasks_after_failure: task %s is independent of every failure but did not run", t.Name))
		}
	}
	success := res.Completed && !res.Canceled && !res.Errored && res.LastError == nil
	if success {
		for _, t := range ts {
			if !ran[t.Name] {
				what = append(what, fmt.Sprintf("the job is reported completed, not canceled, without error, but task %s never ran", t.Name))
			} else if t.Outcome != "ok" && !t.Allow {
				what = append(what, fmt.Sprintf("the job is reported completed, not canceled, without error, but task %s failed (%s) and is not marked allow_failure", t.Name, t.Outcome))
			}
		}
	}
	if anyHard && success {
		what = append(what, "a task that may not fail failed, but the job is reported successful")
	}
	if !anyHard && !success {
		// only allow_failure tasks failed (or none): the job must not be failed by them
		what = append(what, fmt.Sprintf("no task failed except allow_failure ones, but the job is reported completed=%v canceled=%v errored=%v lastError=%v",
			res.Completed, res.Canceled, res.Errored, res.LastError != nil))
	}
	if !anyHard {
		for _, t := range ts {
			if !ran[t.Name] {
				what = append(what, fmt.Sprintf("no failure blocks task %s (only allow_failure tasks failed), but it did not run", t.Name))
			}
		}
	}
	return what
}

(** * C02 — Tasks run at most once and only after their dependencies succeeded  (PARTIAL)

    Proved over every reachable state / every history of the system model (all interleavings at the park points,
    any surrounding history of other jobs, restarts included): no task of a job begins executing twice
    (C02_at_most_once); whenever a task begins, every task it depends on is done or skipped, or failed while marked
    allow_failure (C02_begins_after_dependencies). As decision rules: a stage goroutine is created only by a visit, only
    for a stage that is still waiting and whose dependencies are satisfied; a dependent of a failed or canceled stage is
    never ready; a job whose graph cannot be built gets no scheduler, is reported canceled with the error and does not
    stop the wait list.
    For the pure functions of Graph.v (Kahn ranking, final sort, edge-by-edge graph construction with the shared-visited
    depth-first search): the job's task list is a permutation of the defined tasks sorted by (rank, name); on a valid
    definition (distinct names, dependencies name tasks) graph construction succeeds EXACTLY when the dependency relation
    is acyclic (C02_accepted_iff_acyclic: no false cycle for any diamond, every self-loop and longer cycle rejected);
    and the scheduler loop of an accepted job cannot dead-lock: while a stage waits and none runs, one pass launches or
    cancels a stage (C02_no_deadlock).
    A job reported successfully completed has executed each of its tasks exactly once (C02_successful_job_ran_each_task_once,
    from the verdict invariant of proofs/VerdictProps.v and C02_at_most_once).
    The fuel of the model's cycle search is sufficient on every input (C02_cycle_search_never_out_of_fuel).
    NOT proved (decided by the monitor on every executed history instead): the liveness half of "can run to completion"
    beyond the no-dead-lock step. *)
From stdpp Require Import list.
From Coq Require Import ZArith.
From PV Require Import Graph System Runner proofs.GraphProps proofs.BuildProps proofs.KahnProps proofs.ProgressProps proofs.SchedProps proofs.OnceProps proofs.StageProps proofs.VerdictProps proofs.SuccessPathProps proofs.DfsFuel.

(** over every history: the number of times task [n] of job [id] began executing is at most one *)
Theorem C02_at_most_once : ∀ s id n, reach s → (began (st_ghost s) id n ≤ 1)%nat.
Proof. exact at_most_once. Qed.

(** over every history: at the step in which a task begins executing, all its dependencies are satisfied *)
Theorem C02_begins_after_dependencies : ∀ s id n s' r j sc,
  reach s → step s (EvRunBegin id n) = Some (s', r) → get_job s id = Some j → j_sched j = Some sc →
  forallb (dep_ok sc j) (task_deps j n) = true.
Proof. exact begins_after_deps. Qed.

(** over every history: when a job's scheduler returns with the verdict "not canceled, no error", every one of its tasks
    began executing exactly once *)
Theorem C02_successful_job_ran_each_task_once : ∀ s id s' r j sc,
  reach s → step s (EvSchedReturn id) = Some (s', r) → get_job s id = Some j → j_sched j = Some sc →
  j_canceled j = false → j_cancel_req j = false → sc_lasterr sc = None →
  ∀ t, t ∈ j_tasks j → began (st_ghost s) id (jt_name t) = 1%nat.
Proof. exact successful_job_ran_each_task_once. Qed.

(** the task list a job takes from its definition (sortTasksByDependencies) is a permutation of the defined tasks — none
    lost, none duplicated — ordered by (Kahn rank, name) *)
Theorem C02_job_tasks_are_the_defined_tasks : ∀ ts, sort_tasks ts ≡ₚ ts.
Proof. exact sort_tasks_perm. Qed.
Theorem C02_job_tasks_ordered_by_rank_and_name : ∀ ts, sorted_by (task_ranks ts) (sort_tasks ts).
Proof. exact sort_tasks_sorted. Qed.

(** a valid definition (distinct task names; every dependency names a task — Defs.validate) is accepted by the graph
    builder exactly when its dependency relation is acyclic *)
Theorem C02_accepted_iff_acyclic : ∀ ts,
  NoDup (map fst ts) → deps_closed ts → (build_graph_ok (sort_tasks ts) = true ↔ acyclic ts).
Proof. exact accepted_iff_acyclic. Qed.

(** every dependency of a task has a strictly smaller Kahn rank, and the job's task list has every task after the tasks
    it depends on *)
Theorem C02_ranks_respect_dependencies : ∀ ts, NoDup (map fst ts) → deps_closed ts → acyclic ts →
  ∀ m t d, (m, t) ∈ ts → d ∈ td_deps t → (rank_of (task_ranks ts) d < rank_of (task_ranks ts) m)%nat.
Proof. exact kahn_ranks. Qed.
Theorem C02_job_tasks_topological : ∀ ts, NoDup (map fst ts) → deps_closed ts → acyclic ts → topo (sort_tasks ts).
Proof. exact sort_tasks_topo. Qed.

(** for the job record: buildPipelineGraph succeeds exactly on acyclic definitions (unless the reserved variable is used) *)
Theorem C02_new_job_accepted_iff_acyclic : ∀ ts j,
  j_tasks j = build_tasks ts → j_vars j ≠ VReserved → NoDup (map fst ts) → deps_closed ts →
  (graph_ok j = true ↔ acyclic ts).
Proof. exact new_job_accepted_iff_acyclic. Qed.

(** no dead-lock: in any scheduler state of a job taken from a valid acyclic definition, if some stage is waiting and none
    is running, some waiting stage is decided by checkStatus in this pass — launched (true, false) or canceled (false, true) *)
Theorem C02_no_deadlock : ∀ ts sc j,
  NoDup (map fst ts) → deps_closed ts → acyclic ts →
  job_graph j = sort_tasks ts →
  map fst (sc_stages sc) = map jt_name (j_tasks j) →
  (∃ n, stage_status sc n = Some Waiting) →
  (∀ n, stage_status sc n ≠ Some Running) →
  ∃ n, stage_status sc n = Some Waiting ∧
       (check_status sc j n = (true, false) ∨ check_status sc j n = (false, true)).
Proof. exact acyclic_job_no_deadlock. Qed.

(** ... and as long as nothing has failed or been canceled that stage is launched, never canceled: with tasks that succeed the
    number of waiting stages goes down to zero ("every acyclic graph can run to completion", decision level) *)
Theorem C02_success_path_progress : ∀ ts sc j,
  NoDup (map fst ts) → deps_closed ts → acyclic ts →
  job_graph j = sort_tasks ts →
  map fst (sc_stages sc) = map jt_name (j_tasks j) →
  (∃ n, stage_status sc n = Some Waiting) →
  (∀ n, stage_status sc n ≠ Some Running) →
  (∀ n, stage_status sc n ≠ Some Error ∧ stage_status sc n ≠ Some Canceled) →
  ∃ n, stage_status sc n = Some Waiting ∧ check_status sc j n = (true, false).
Proof. exact success_path_progress. Qed.

Theorem C02_launch_only_when_deps_satisfied_partial : ∀ s id n s' j sc,
  do_visit s id n = Some s' → get_job s id = Some j → j_sched j = Some sc →
  ∃ sc', sched_of s' id = Some sc' ∧ sc_entry sc' = sc_entry sc ++ (if launches sc j n then [n] else [])
         ∧ sc_running sc' = sc_running sc ∧ sc_ctx sc' = sc_ctx sc ∧ sc_cancelled sc' = sc_cancelled sc.
Proof. exact visit_entry. Qed.

Theorem C02_failed_dependency_blocks : ∀ sc j n d,
  d ∈ task_deps j n →
  (stage_status sc d = Some Error ∧ task_allow j d = false) ∨ stage_status sc d = Some Canceled →
  fst (check_status sc j n) = false.
Proof. exact failed_dep_blocks. Qed.

Theorem C02_cyclic_job_harmless : ∀ s id j,
  find_job s id = Some j → j_canceled j = false → graph_ok j = false →
  (try_start s id).2 = true ∧
  ∃ j', get_job (try_start s id).1 id = Some j' ∧ j_canceled j' = true ∧ j_lasterr j' = Some EGraph
        ∧ j_sched j' = j_sched j ∧ j_start j' = j_start j.
Proof. exact unbuildable_job_harmless. Qed.

(** the graph builder on concrete shapes: diamonds are accepted, self-loops and longer cycles rejected *)
Definition td (deps : list name) : taskdef := TaskDef deps false false 0 0.
Example C02_ex_diamond : build_graph_ok (sort_tasks [(3%nat, td [1;2]%nat); (1%nat, td [0%nat]); (2%nat, td [0%nat]); (0%nat, td [])]) = true.
Proof. vm_compute. done. Qed.
Example C02_ex_order : map fst (sort_tasks [(3%nat, td [1;2]%nat); (1%nat, td [0%nat]); (2%nat, td [0%nat]); (0%nat, td [])]) = [0;1;2;3]%nat.
Proof. vm_compute. done. Qed.
Example C02_ex_selfloop : build_graph_ok (sort_tasks [(0%nat, td [0%nat])]) = false.
Proof. vm_compute. done. Qed.
Example C02_ex_cycle3 : build_graph_ok (sort_tasks [(0%nat, td [2%nat]); (1%nat, td [0%nat]); (2%nat, td [1%nat]); (3%nat, td [])]) = false.
Proof. vm_compute. done. Qed.

(** the hypotheses of the acyclicity theorems are satisfiable: the diamond is a valid acyclic definition *)
Definition diamond : tasks := [(3%nat, td [1;2]%nat); (1%nat, td [0%nat]); (2%nat, td [0%nat]); (0%nat, td [])].
Example C02_ex_diamond_valid : NoDup (map fst diamond) ∧ deps_closed diamond ∧ acyclic diamond.
Proof.
  assert (Hnd : NoDup (map fst diamond)) by (apply (bool_decide_unpack _); vm_compute; done).
  assert (Hcl : deps_closed diamond) by (apply closedb_spec; vm_compute; done).
  split; [done|]. split; [done|]. apply C02_accepted_iff_acyclic; [done|done|]. vm_compute. done.
Qed.

(** for EVERY task list (duplicate names, unknown dependencies and cycles included): the fuel the graph builder gives
    the cycle search is never used up — its answer is the answer with any larger fuel, so a refusal of the model always
    is a visited stage met again (ErrCycleDetected), never exhaustion (proofs/DfsFuel.v) *)
Theorem C02_cycle_search_never_out_of_fuel : ∀ ts k,
  add_stages (S (S (length ts)) + k) [] ts = add_stages (S (S (length ts))) [] ts.
Proof. exact build_graph_fuel_sufficient. Qed.
Example C02_ex_fuel_cycle_with_unknown_dep :
  add_stages (4 + 7) [] [(0%nat, td [1;9]%nat); (1%nat, td [0%nat])] = None ∧ add_stages 4 [] [(0%nat, td [1;9]%nat); (1%nat, td [0%nat])] = None.
Proof. vm_compute. done. Qed.

Print Assumptions C02_at_most_once.
Print Assumptions C02_begins_after_dependencies.
Print Assumptions C02_successful_job_ran_each_task_once.
Print Assumptions C02_job_tasks_are_the_defined_tasks.
Print Assumptions C02_job_tasks_ordered_by_rank_and_name.
Print Assumptions C02_accepted_iff_acyclic.
Print Assumptions C02_ranks_respect_dependencies.
Print Assumptions C02_job_tasks_topological.
Print Assumptions C02_new_job_accepted_iff_acyclic.
Print Assumptions C02_no_deadlock.
Print Assumptions C02_success_path_progress.
Print Assumptions C02_launch_only_when_deps_satisfied_partial.
Print Assumptions C02_failed_dependency_blocks.
Print Assumptions C02_cyclic_job_harmless.
Print Assumptions C02_cycle_search_never_out_of_fuel.

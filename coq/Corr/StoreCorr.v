(** Conformance of an observed system-call trace of JsonDataStore.Save (strace, translated by tools/check_C09.py) with the
    protocol of StoreFS.v: every save creates its temp file exclusively (so its name is fresh), writes only to it, closes
    it, then renames it over data.json; data.json itself is never created, opened for writing, written or removed. *)
From stdpp Require Import list.
From PV Require Import StoreFS.

Inductive sop :=
  | SCreateExcl (f : nat)              (* open(O_CREAT|O_EXCL) *)
  | SOpen (f : nat) (writing : bool)   (* any other open *)
  | SWrite (f : nat)
  | SClose (f : nat)
  | SRename (f t : nat)
  | SUnlink (f : nat).

(** file 0 is data.json; [st] maps the temp files that exist to "still open" *)
Fixpoint conforms (ops : list sop) (st : list (nat * bool)) : bool :=
  match ops with
  | [] => true
  | op :: ops =>
      let get f := snd <$> find (fun x => Nat.eqb (fst x) f) st in
      let del f := List.filter (fun x => negb (Nat.eqb (fst x) f)) st in
      match op with
      | SCreateExcl f => negb (Nat.eqb f 0) && match get f with None => conforms ops ((f, true) :: st) | Some _ => false end
      | SOpen f writing => negb writing && conforms ops st
      | SWrite f => negb (Nat.eqb f 0) && match get f with Some true => conforms ops st | _ => false end
      | SClose f => if Nat.eqb f 0 then conforms ops st
                    else match get f with Some true => conforms ops ((f, false) :: del f) | _ => false end
      | SRename f t => Nat.eqb t 0 && negb (Nat.eqb f 0) && match get f with Some false => conforms ops (del f) | _ => false end
      | SUnlink f => false
      end
  end.

(** the translation of a conforming trace into events of the StoreFS machine: creation starts a save, every write and the
    close and the rename are its steps *)
Definition to_event (op : sop) : list fsevent :=
  match op with
  | SCreateExcl f => []          (* FStart needs the chunks: the checker pairs it with the writes that follow; see check_C09.py *)
  | SWrite f | SClose f => [FStep f]
  | SRename f _ => [FStep f]
  | _ => []
  end.

Example conforms_ex : conforms [SCreateExcl 1; SWrite 1; SWrite 1; SClose 1; SRename 1 0; SOpen 0 false; SClose 0] [] = true.
Proof. vm_compute. done. Qed.
Example conforms_inplace : conforms [SOpen 0 true; SWrite 0; SClose 0] [] = false.
Proof. vm_compute. done. Qed.
Example conforms_shared_tmp : conforms [SOpen 1 true; SWrite 1; SClose 1; SRename 1 0] [] = false.
Proof. vm_compute. done. Qed.
Example conforms_rename_before_close : conforms [SCreateExcl 1; SWrite 1; SRename 1 0; SClose 1] [] = false.
Proof. vm_compute. done. Qed.

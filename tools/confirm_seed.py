#!/usr/bin/env python3
"""Confirm a seeded change produced by a sub-agent and keep it under /verif/seeded/<prop>-<X>/.
usage: confirm_seed.py <prop> <A|B> [srcdir]   (srcdir default /tmp/mut/out/<prop>)
Checks, in a scratch worktree of /repo outside /repo and /verif: the patch applies; the tree builds; the pinned suite passes
with it; the demonstration fails with it and passes without it. Writes patch.diff, demo, meta.json."""
import json, os, re, shutil, subprocess, sys, tempfile

ENV = dict(os.environ, GOFLAGS="-mod=mod", GOPROXY="off", GOSUMDB="off", GOTOOLCHAIN="local")


def sh(cmd, cwd=None):
    p = subprocess.run(cmd, cwd=cwd, env=ENV, shell=True, stdout=subprocess.PIPE, stderr=subprocess.STDOUT, text=True)
    return p.returncode, p.stdout


def main():
    prop, x = sys.argv[1], sys.argv[2]
    src = sys.argv[3] if len(sys.argv) > 3 else "/tmp/mut/out/" + prop
    patch = os.path.join(src, x + ".patch.diff")
    demo = os.path.join(src, x + ".demo_test.go")
    meta_txt = open(os.path.join(src, x + ".meta.txt")).read() if os.path.exists(os.path.join(src, x + ".meta.txt")) else ""
    first = open(demo).readline()
    head = open(demo).read(1500)
    m = re.search(r"(?:copy|copied|place|put)[^\n]*?(?:into|in|to|under)\s+(?:the\s+)?(?:package\s+)?(?:directory\s+)?[`'\"]?(/?[\w./-]*?)[`'\"]?[\s,;:(]", head, re.I)
    pkgdir = None
    pm = re.search(r"^package\s+(\w+)", open(demo).read(), re.M)
    pkg = pm.group(1)
    guess = {"prunner": ".", "prunner_test": ".", "taskctl": "taskctl", "taskctl_test": "taskctl", "server": "server", "server_test": "server",
             "definition": "definition", "definition_test": "definition", "store": "store", "store_test": "store", "app": "app", "helper": "helper",
             "config": "config", "main": None}
    pkgdir = guess.get(pkg)
    if len(sys.argv) > 4:
        pkgdir = sys.argv[4]
    if pkgdir is None:
        print("cannot determine package dir for", demo, "package", pkg)
        sys.exit(2)
    wt = tempfile.mkdtemp(prefix="seedcheck-", dir="/tmp")
    os.rmdir(wt)
    rc, o = sh("git -C /repo worktree add --detach %s HEAD" % wt)
    assert rc == 0, o
    res = {"property": prop, "variant": x, "package_dir": pkgdir}
    try:
        dst = os.path.join(wt, pkgdir, "zz_seed_demo_test.go")
        shutil.copy(demo, dst)
        rc, o = sh("go test -vet=off -count=1 -run 'Test' ./%s 2>&1 | tail -30" % pkgdir, cwd=wt)
        # run only the demo's tests
        tests = re.findall(r"^func (Test\w+)\(", open(demo).read(), re.M)
        runre = "^(" + "|".join(tests) + ")$"
        rc0, o0 = sh("go test %s -vet=off -count=1 -run '%s' ./%s" % (os.environ.get('DEMOFLAGS',''), runre, pkgdir), cwd=wt)
        res["demo_without_change"] = "pass" if rc0 == 0 else "FAIL"
        os.remove(dst)
        rc, o = sh("git apply %s" % patch, cwd=wt)
        res["applies"] = rc == 0
        rcb, ob = sh("go build ./... && go vet ./... >/dev/null 2>&1; go build ./...", cwd=wt)
        res["builds"] = rcb == 0
        rcs, os_ = sh("go test -vet=off -count=1 ./...", cwd=wt)
        res["suite_with_change"] = "pass" if rcs == 0 else "FAIL"
        rcs2, _ = sh("go test -vet=off -count=1 ./...", cwd=wt)
        res["suite_with_change_2"] = "pass" if rcs2 == 0 else "FAIL"
        shutil.copy(demo, dst)
        rc1, o1 = sh("go test %s -vet=off -count=1 -run '%s' ./%s" % (os.environ.get('DEMOFLAGS',''), runre, pkgdir), cwd=wt)
        res["demo_with_change"] = "fail" if rc1 != 0 else "PASS"
        res["demo_output_with_change"] = "\n".join([l for l in o1.splitlines() if re.search(r"---|Error|FAIL|panic|expected|actual", l)][:12])
        res["demo_cmd"] = "cp demo_test.go <repo>/%s/zz_seed_demo_test.go && go test -vet=off -count=1 -run '%s' ./%s" % (pkgdir, runre, pkgdir)
    finally:
        sh("git -C /repo worktree remove --force %s" % wt)
    ok = res.get("applies") and res.get("builds") and res["suite_with_change"] == "pass" and res["suite_with_change_2"] == "pass" \
        and res["demo_with_change"] == "fail" and res["demo_without_change"] == "pass"
    res["confirmed"] = bool(ok)
    res["needs_to_manifest"] = meta_txt.strip()
    print(json.dumps({k: v for k, v in res.items() if k not in ("needs_to_manifest", "demo_output_with_change")}))
    if ok:
        out = "/verif/seeded/%s-%s" % (prop, x)
        os.makedirs(out, exist_ok=True)
        shutil.copy(patch, os.path.join(out, "patch.diff"))
        shutil.copy(demo, os.path.join(out, "demo_test.go"))
        res["what_i_ran"] = "tools/confirm_seed.py: scratch worktree of /repo HEAD; demo without change; git apply; go build; pinned suite twice; demo with change"
        json.dump(res, open(os.path.join(out, "meta.json"), "w"), indent=1)
    sys.exit(0 if ok else 1)


main()

(** "Every acyclic graph can run to completion" (C02), the decision-level half: as long as no stage has failed or been canceled,
    a pass of the scheduler loop over an accepted job with a waiting stage and nothing running LAUNCHES a stage (it never cancels
    one), so with tasks that succeed the number of waiting stages strictly decreases down to zero. *)
From stdpp Require Import list relations.
From Coq Require Import Lia.
From PV Require Import Graph System proofs.GraphProps proofs.BuildProps proofs.KahnProps proofs.SchedProps proofs.ProgressProps
  proofs.OnceProps proofs.StageProps proofs.VerdictProps.

Theorem success_path_progress ts sc j :
  NoDup (map fst ts) → deps_closed ts → acyclic ts →
  job_graph j = sort_tasks ts →
  map fst (sc_stages sc) = map jt_name (j_tasks j) →
  (∃ n, stage_status sc n = Some Waiting) →
  (∀ n, stage_status sc n ≠ Some Running) →
  (∀ n, stage_status sc n ≠ Some Error ∧ stage_status sc n ≠ Some Canceled) →
  ∃ n, stage_status sc n = Some Waiting ∧ check_status sc j n = (true, false).
Proof.
  intros Hnd Hcl Hac Hg Hnames Hw Hrun Hgood.
  destruct (acyclic_job_no_deadlock ts sc j Hnd Hcl Hac Hg Hnames Hw Hrun) as (n & Hn & [Hc|Hc]); [by exists n|].
  exfalso. destruct (check_status_cancel sc j n) as (d & [[Hd _]|Hd]); [by rewrite Hc| |]; by destruct (Hgood d).
Qed.

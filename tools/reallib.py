"""helpers for the checks that drive real task processes through realrun (C18, C19, C20)"""
import json
import os

from common import *  # noqa


def run_real(ctx, bins, mode, seed, n, tag="", extra=(), timeout=3000):
    out = os.path.join(ctx.run, "real-%s-%d-%s.jsonl" % (mode, seed, tag))
    err = out + ".stderr"
    cmd = "%s -mode %s -seed %d -n %d -out %s %s 2> %s" % (bins["realrun"], mode, seed, n, out, " ".join(extra), err)
    rc, o = sh(cmd, cwd=ctx.run, timeout=timeout)
    if rc != 0:
        ctx.log("realrun failed (%d):" % rc, o[-1500:], open(err).read()[-1500:] if os.path.exists(err) else "")
        return None
    return [json.loads(l) for l in open(out)]


def cq_bytes_hex(h):
    b = bytes.fromhex(h)
    return "[" + ";".join(str(x) for x in b) + "]%N"

(** * C02 — Tasks run at most once and only after their dependencies succeeded  (PARTIAL)

    Proved here, as decision rules of the scheduler model that the correspondence run ties to taskctl/scheduler.go:
    a stage goroutine is created only by a visit, only for a stage that is still waiting, and only when every
    dependency is done/skipped (or errored while marked allow_failure); a dependent of a failed or canceled stage is
    never ready; a job whose graph cannot be built (cycle, reserved variable) gets no scheduler, is reported canceled
    with the error and does not stop the wait list from being processed.
    NOT yet proved as theorems over whole histories (decided by the monitor on every executed history instead):
    at-most-once over a history, "successful ⇒ every task ran exactly once", acyclic ⇒ completes; and, for the pure
    functions, that the Kahn order is topological / that graph construction fails exactly on cyclic relations. *)
From stdpp Require Import list.
From Coq Require Import ZArith.
From PV Require Import System proofs.SchedProps.

Theorem C02_launch_only_when_deps_satisfied_partial : ∀ s id n s' j sc,
  do_visit s id n = Some s' → get_job s id = Some j → j_sched j = Some sc →
  ∃ sc', sched_of s' id = Some sc' ∧ sc_entry sc' = sc_entry sc ++ (if launches sc j n then [n] else [])
         ∧ sc_running sc' = sc_running sc ∧ sc_ctx sc' = sc_ctx sc ∧ sc_cancelled sc' = sc_cancelled sc.
Proof. exact visit_entry. Qed.

Theorem C02_failed_dependency_blocks : ∀ sc j n d,
  d ∈ task_deps j n →
  (stage_status sc d = Some Error ∧ task_allow j d = false) ∨ stage_status sc d = Some Canceled →
  fst (check_status sc j n) = false.
Proof. exact failed_dep_blocks. Qed.

Theorem C02_cyclic_job_harmless : ∀ s id j,
  find_job s id = Some j → j_canceled j = false → graph_ok j = false →
  (try_start s id).2 = true ∧
  ∃ j', get_job (try_start s id).1 id = Some j' ∧ j_canceled j' = true ∧ j_lasterr j' = Some EGraph
        ∧ j_sched j' = j_sched j ∧ j_start j' = j_start j.
Proof. exact unbuildable_job_harmless. Qed.

(** the graph builder on concrete shapes: diamonds are accepted, self-loops and longer cycles rejected *)
Definition td (deps : list name) : taskdef := TaskDef deps false false 0 0.
Example C02_ex_diamond : build_graph_ok (sort_tasks [(3%nat, td [1;2]%nat); (1%nat, td [0%nat]); (2%nat, td [0%nat]); (0%nat, td [])]) = true.
Proof. vm_compute. done. Qed.
Example C02_ex_order : map fst (sort_tasks [(3%nat, td [1;2]%nat); (1%nat, td [0%nat]); (2%nat, td [0%nat]); (0%nat, td [])]) = [0;1;2;3]%nat.
Proof. vm_compute. done. Qed.
Example C02_ex_selfloop : build_graph_ok (sort_tasks [(0%nat, td [0%nat])]) = false.
Proof. vm_compute. done. Qed.
Example C02_ex_cycle3 : build_graph_ok (sort_tasks [(0%nat, td [2%nat]); (1%nat, td [0%nat]); (2%nat, td [1%nat]); (3%nat, td [])]) = false.
Proof. vm_compute. done. Qed.

Print Assumptions C02_launch_only_when_deps_satisfied_partial.
Print Assumptions C02_failed_dependency_blocks.
Print Assumptions C02_cyclic_job_harmless.

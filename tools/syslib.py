"""Controlled-mode system correspondence: run harness/cmd/sysrun, replay in Coq (Corr/SysCorr.v), monitors."""
import json
import os
import re
import subprocess

from common import *  # noqa

ERR = {"none": "None", "canceled": "(Some ECanceled)", "fail": "(Some EFail)", "graph": "(Some EGraph)"}
STATUS = {"waiting": "Waiting", "running": "Running", "skipped": "Skipped", "done": "Done", "error": "Error", "canceled": "Canceled"}
RES = {"none": "RNone", "ok": "ROk", "err:shutdown": "RErrShutdown", "err:undefined": "RErrUndefined", "err:noqueue": "RErrNoQueue",
       "err:queuefull": "RErrQueueFull", "err:notfound": "RErrNotFound", "err:completed": "RErrCompleted"}


def n_(i):
    return "%d%%nat" % i


def names(l):
    return "[" + "; ".join(n_(x) for x in l) + "]"


def taskdef_term(t):
    return "(TaskDef %s %s %s %s %s)" % (names(t["deps"]), cq_bool(t["allow"]), cq_bool(t["empty"]), n_(0 if t["empty"] else t["script"]), n_(t.get("env", t.get("tenv", 0))))


def pdef_term(p):
    ql = "None" if p["qlimit"] is None else "(Some %s)" % n_(p["qlimit"])
    tasks = "[" + "; ".join("(%s, %s)" % (n_(t["name"]), taskdef_term(t)) for t in (p["tasks"] or [])) + "]"
    return "(PDef %s %s %s %s %s %s %s %s %s)" % (n_(p["conc"]), ql, cq_bool(p["replace"]), n_(p["delay"]), cq_bool(p["continue"]),
                                                  cq_z(p["retp"]), n_(p["retc"]), n_(p["env"]), tasks)


def defs_term(ds):
    return "[" + "; ".join("(%s, %s)" % (n_(p["name"]), pdef_term(p)) for p in (ds["pipes"] or [])) + "]"


def vkind(v, vn):
    return {"none": "VNone", "plain": "(VPlain %s)" % n_(vn), "reserved": "VReserved"}[v]


def event_term(ev, sets):
    t = ev["t"]
    if t == "schedule":
        return "(EvSchedule %s %s %s)" % (n_(ev.get("p", 0)), vkind(ev.get("v", "none"), ev.get("vn", 0)), n_(ev.get("u", 0)))
    if t == "cancel":
        return "(EvCancel %s)" % n_(ev["id"])
    if t == "tick":
        return "(EvTick %s)" % n_(ev.get("d", 0))
    if t == "fire":
        return "(EvFireTimer %s)" % n_(ev["id"])
    if t == "reload":
        return "(EvReload d%d)" % ev.get("ds", 0)
    if t == "iter":
        return "(EvIterBegin %s)" % n_(ev["id"])
    if t == "visit":
        return "(EvVisit %s %s)" % (n_(ev["id"]), n_(ev.get("n", 0)))
    if t == "runbegin":
        return "(EvRunBegin %s %s)" % (n_(ev["id"]), n_(ev.get("n", 0)))
    if t == "runend":
        o = {"ok": "OutOk", "fail": "(OutFail %s)" % cq_z(ev.get("code", 0)), "ctx": "OutCtx"}[ev["o"]]
        return "(EvRunEnd %s %s %s)" % (n_(ev["id"]), n_(ev.get("n", 0)), o)
    if t == "notify":
        return "(EvNotify %s %s)" % (n_(ev["id"]), n_(ev.get("n", 0)))
    if t == "deliver":
        return "(EvCancelDeliver %s)" % n_(ev["id"])
    if t == "return":
        return "(EvSchedReturn %s)" % n_(ev["id"])
    if t == "save":
        return "EvSave"
    if t == "restart":
        return "EvRestart"
    if t == "shutdown":
        return "EvShutdownBegin"
    if t == "force":
        return "EvShutdownForce"
    if t == "shutdown_return":
        return "EvShutdownReturn"
    raise ValueError("unknown event " + t)


def res_term(r):
    if r.startswith("job:"):
        return "(RJob %s)" % n_(int(r[4:]))
    return RES.get(r, "RNone")


def tsnap_term(t):
    return "(TSnap %s %s %s %s %s %s %s %s %s %s)" % (
        n_(t["name"]), STATUS.get(t["status"], "Waiting"), cq_bool(t["start"]), cq_bool(t["end"]), cq_bool(t["skipped"]), cq_z(t["exit"]),
        cq_bool(t["errored"]), ERR[t["err"]], cq_bool(t["canceled"]), taskdef_term(t))


def jsnap_term(j):
    sc = "None"
    if j["sched"]:
        s = j["sched"]
        sc = "(Some (SSnap %s %s %s %s %s %s))" % ({"top": "KTop", "scan": "KScan", "exited": "KExited"}[s["phase"]], names(s["todo"]),
                                                   names(s["entry"]), names(s["running"]), names(s.get("nerr") or []), names(s.get("ndone") or []))
    return "(JSnap %s %s %s %s %s %s %s %s %s %s %s %s %s %s %s %s)" % (
        n_(j["id"]), n_(j["pipe"]), cq_bool(j["start"]), cq_bool(j["end"]), cq_bool(j["completed"]), cq_bool(j["canceled"]), ERR[j["lasterr"]],
        cq_bool(j["timer"]), n_(j["delay"]), n_(j["env"]), vkind(j["vars"], j["vn"]), n_(j["user"]),
        "[" + "; ".join(tsnap_term(t) for t in j["tasks"]) + "]", sc, n_(j["cancels"]), cq_bool(j["ctx"]))


def ptsnap_term(t):
    return "(PTSnap %s %s %s %s %s %s %s %s %s %s %s %s)" % (
        n_(t["name"]), names(t["deps"]), cq_bool(t["allow"]), cq_bool(t["empty"]), n_(t["script"]), STATUS.get(t["status"], "Waiting"),
        cq_bool(t["start"]), cq_bool(t["end"]), cq_bool(t["skipped"]), cq_z(t["exit"]), cq_bool(t["errored"]), ERR[t["err"]])


def pjsnap_term(j):
    return "(PJSnap %s %s %s %s %s %s %s %s %s [%s])" % (
        n_(j["id"]), n_(j["pipe"]), cq_bool(j["completed"]), cq_bool(j["canceled"]), cq_bool(j["start"]), cq_bool(j["end"]),
        vkind(j["vars"], j["vn"]), n_(j["user"]), ERR[j["lasterr"]], "; ".join(ptsnap_term(t) for t in j["tasks"]))


def pjob_term(j):
    """a preloaded job as the model's pjob: created = -age; start/end one resp. two 'seconds' later (only Some/None matters)"""
    def ts(flag, off):
        return "(Some (%d)%%Z)" % (-j["age"]) if flag else "None"
    tasks = "; ".join("(PTask %s %s %s %s %s %s %s %s %s %s %s %s)" % (
        n_(t["name"]), names(t["deps"]), cq_bool(t["allow"]), cq_bool(t["empty"]), n_(t["script"]), STATUS.get(t["status"], "Waiting"),
        ts(t["start"], 1), ts(t["end"], 2), cq_bool(t["skipped"]), cq_z(t["exit"]), cq_bool(t["errored"]), ERR[t["err"]]) for t in j["tasks"])
    return "(PJob %s %s %s %s (%d)%%Z %s %s %s %s %s [%s])" % (
        n_(j["id"]), n_(j["pipe"]), cq_bool(j["completed"]), cq_bool(j["canceled"]), -j["age"], ts(j["start"], 1), ts(j["end"], 2),
        vkind(j["vars"], j["vn"]), n_(j["user"]), ERR[j["lasterr"]], tasks)


def snap_term(sn):
    wait = "[" + "; ".join("(%s, %s)" % (n_(int(p)), names(ids)) for p, ids in sorted(sn["wait"].items(), key=lambda kv: int(kv[0]))) + "]"
    pipes = "[" + "; ".join("(%s, %s, %s)" % (n_(p["p"]), cq_bool(p["schedulable"]), cq_bool(p["running"])) for p in sn["pipes"]) + "]"
    store = "None" if sn.get("store") is None else "(Some [%s])" % "; ".join(pjsnap_term(j) for j in sn["store"])
    return "(Snap [%s] %s %s %s %s %s)" % ("; ".join(jsnap_term(j) for j in sn["jobs"]), wait, pipes, cq_bool(sn["req"]),
                                         names(sn.get("logs") or []), store)


def history_term(h, key):
    """A Coq term for one history. Definition sets are let-bound as d0..dk."""
    lets = "".join("let d%d : defs := %s in " % (i, defs_term(ds)) for i, ds in enumerate(h["sets"]))
    steps = ";\n   ".join("(%s, %s, %s)" % (event_term(st["ev"], h["sets"]), res_term(st["res"]),
                                            "None" if st.get("skip") else "(Some %s)" % snap_term(st["snap"])) for st in h["steps"])
    pre = "[" + "; ".join(pjob_term(j) for j in (h.get("pre") or [])) + "]"
    return "(%sHistory %s d0 %s [\n   %s])" % (lets, n_(key), pre, steps)


def parse_histories(path):
    hs, cur = [], None
    for line in open(path):
        r = json.loads(line)
        if r["kind"] == "begin":
            cur = {"hid": r["hid"], "seed": r["seed"], "profile": r["profile"], "sets": r["sets"], "pre": r.get("pre") or [], "snap0": r.get("snap0"), "steps": [], "failure": ""}
        elif r["kind"] == "step":
            cur["steps"].append(r)
        elif r["kind"] == "end":
            cur["failure"] = r.get("failure", "")
            hs.append(cur)
            cur = None
    if cur is not None:
        cur["failure"] = "history was not finished (harness crashed?)"
        hs.append(cur)
    return hs


def run_sysrun(ctx, bins, profile, seed, n, steps=60, procs=16, extra=()):
    """Run n histories of a profile spread over several processes. Returns list of histories (each tagged with 'src')."""
    procs = max(1, min(procs, n))
    per = (n + procs - 1) // procs
    ps = []
    for k in range(procs):
        out = os.path.join(ctx.run, "sys-%s-%d-%d.jsonl" % (profile, seed, k))
        cmd = [bins["sysrun"], "-seed", str(seed * 1000 + k), "-n", str(per), "-profile", profile, "-out", out, "-steps", str(steps),
               "-dir", ctx.run] + list(extra)
        ps.append((k, out, subprocess.Popen(cmd, stdout=subprocess.PIPE, stderr=subprocess.STDOUT, text=True)))
    hs = []
    for k, out, p in ps:
        o, _ = p.communicate(timeout=1800)
        if p.returncode != 0:
            ctx.log("sysrun exited with %d: %s" % (p.returncode, o[-1500:]))
        for h in parse_histories(out):
            h["src"] = {"profile": profile, "proc_seed": seed * 1000 + k, "hid": h["hid"], "steps_arg": steps}
            hs.append(h)
    return hs


SYS_HEADER = "From stdpp Require Import list.\nFrom Coq Require Import ZArith.\nFrom PV Require Import System Corr.SysCorr.\n"


def replay_in_coq(ctx, hs, name="cases_sys", shards=16, prop_code=0, per_file=24):
    """Returns {index_in_hs: (step, diff)} for the histories where model and implementation differ.
    At most `per_file` histories per generated file (memory of one coqc grows with the file), `shards` coqc at a time."""
    terms = [history_term(h, i) for i, h in enumerate(hs)]
    if not terms:
        return {}
    nfiles = max(1, (len(terms) + per_file - 1) // per_file)
    files = []
    for k in range(nfiles):
        part = terms[k::nfiles]
        src = SYS_HEADER + "Definition cases : list history := [\n" + ";\n".join(part) + "\n].\n"
        src += "Definition bad := Eval vm_compute in mismatches_for %d cases.\nPrint bad.\n" % prop_code
        path = os.path.join(ctx.run, "%s_%d.v" % (name, k))
        open(path, "w").write(src)
        files.append(path)
    bad = {}
    pending = list(files)
    running = []

    def reap(path, p):
        out, _ = p.communicate()
        if p.returncode != 0:
            ctx.log("coqc failed on %s:\n%s" % (path, out[-3000:]))
            for _, q in running:
                q.kill()
            raise RuntimeError("generated cases file does not check: " + path)
        m = re.search(r"bad\s*=\s*(.*?)\s*:\s*list", out, re.S)
        if not m:
            raise RuntimeError("cannot parse coqc output: " + out[-500:])
        for hid, step, d in re.findall(r"\((\d+),\s*(\d+),\s*(D\w+)\)", m.group(1)):
            bad[int(hid)] = (int(step), d)

    while pending or running:
        while pending and len(running) < shards:
            path = pending.pop(0)
            running.append((path, subprocess.Popen(["timeout", "1500", "coqc", "-Q", COQ, "PV", "-w", "none", path], cwd=ctx.run,
                                                   stdout=subprocess.PIPE, stderr=subprocess.STDOUT, text=True)))
        path, p = running.pop(0)
        reap(path, p)
    return bad


def model_obs_at(ctx, h, step):
    """For diagnosis: the model's observation after the given step of the history (as printed by Coq)."""
    term = history_term(h, 0)
    src = SYS_HEADER + "Definition h := %s.\n" % term
    src += ("Definition o := Eval vm_compute in match state_at (h_init h) %d (h_steps h) with\n"
            "  | Some (s, Some (s', r)) => let sn := default (Snap [] [] [] false [] None) (snd (nth %d (h_steps h) (EvTick 0, RNone, None))) in\n"
            "       Some (r, diff_where (obs_state s' (map fst (sn_wait sn)) (is_some (sn_store sn))) (norm_snap sn), obs_state s' (map fst (sn_wait sn)) (is_some (sn_store sn))) | _ => None end.\nPrint o.\n") % (step, step)
    path = os.path.join(ctx.run, "diag.v")
    open(path, "w").write(src)
    rc, out = sh(["timeout", "300", "coqc", "-Q", COQ, "PV", "-w", "none", path], cwd=ctx.run)
    return out

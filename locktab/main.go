// locktab: translator for property C13. Loads the prunner package of the repository working tree (go/packages, full type
// information) and computes, interprocedurally, the mode in which the runner mutex is held at every read and write of a
// guarded field (fields of PipelineRunner, PipelineJob and jobTask). Emits the access table as JSON; tools/check_C13.py turns
// it into coq/gen/LockTable.v on every run.
//
// Abstract interpretation: statements are walked in order with the current mode (N none, R read-locked, W write-locked);
// r.mx.Lock / RLock / Unlock / RUnlock change it; calls to functions and methods of the package are analysed with the
// caller's mode as entry mode (memoised per function and mode); `go` statements and time.AfterFunc callbacks start with N;
// other function literals run in the mode of the place where they appear; deferred calls run in the mode at function exit
// (or N when a deferred unlock registered later runs before them). Entry points analysed with mode N: every exported
// function and method (NewPipelineRunner excepted: it runs before the runner is shared).
package main

import (
	"encoding/json"
	"fmt"
	"go/ast"
	"go/token"
	"go/types"
	"os"
	"sort"
	"strings"

	"golang.org/x/tools/go/packages"
)

type Row struct {
	Func   string `json:"func"`   // function containing the access
	Entry  string `json:"entry"`  // entry point and its mode, e.g. "SaveToStore/N"
	Pos    string `json:"pos"`    // file:line
	Object string `json:"object"` // Struct.field
	Write  bool   `json:"write"`
	Mode   string `json:"mode"`   // N | R | W
	Async  string `json:"async,omitempty"` // the access is inside a goroutine / timer body started in Func
}

type analyzer struct {
	fset   *token.FileSet
	info   *types.Info
	pkg    *types.Package
	owner  map[*types.Var]string // field -> "Struct.field"
	decls  map[*types.Func]*ast.FuncDecl
	rows   map[string]Row
	seen   map[string]bool
	mxVar  *types.Var
	notes  []string
}

func main() {
	dir := "/repo"
	if len(os.Args) > 1 {
		dir = os.Args[1]
	}
	cfg := &packages.Config{Mode: packages.NeedName | packages.NeedSyntax | packages.NeedTypes | packages.NeedTypesInfo | packages.NeedFiles | packages.NeedImports | packages.NeedDeps, Dir: dir}
	pkgs, err := packages.Load(cfg, ".")
	if err != nil || len(pkgs) != 1 || len(pkgs[0].Errors) > 0 {
		fmt.Fprintln(os.Stderr, "load failed:", err, pkgs)
		os.Exit(2)
	}
	p := pkgs[0]
	a := &analyzer{fset: p.Fset, info: p.TypesInfo, pkg: p.Types, owner: map[*types.Var]string{}, decls: map[*types.Func]*ast.FuncDecl{},
		rows: map[string]Row{}, seen: map[string]bool{}}
	for _, name := range []string{"PipelineRunner", "PipelineJob", "jobTask"} {
		obj := p.Types.Scope().Lookup(name)
		if obj == nil {
			fmt.Fprintln(os.Stderr, "type not found:", name)
			os.Exit(2)
		}
		st, ok := obj.Type().Underlying().(*types.Struct)
		if !ok {
			os.Exit(2)
		}
		for i := 0; i < st.NumFields(); i++ {
			f := st.Field(i)
			a.owner[f] = name + "." + f.Name()
			if name == "PipelineRunner" && f.Name() == "mx" {
				a.mxVar = f
			}
			// embedded structs (jobTask embeds definition.TaskDef): their fields are set at creation only
		}
	}
	if a.mxVar == nil {
		fmt.Fprintln(os.Stderr, "PipelineRunner.mx not found")
		os.Exit(2)
	}
	var entries []*ast.FuncDecl
	for _, f := range p.Syntax {
		for _, d := range f.Decls {
			fd, ok := d.(*ast.FuncDecl)
			if !ok || fd.Body == nil {
				continue
			}
			if strings.HasSuffix(a.fset.Position(fd.Pos()).Filename, "_test.go") {
				continue
			}
			if fn, ok := a.info.Defs[fd.Name].(*types.Func); ok {
				a.decls[fn] = fd
				if fd.Name.IsExported() && fd.Name.Name != "NewPipelineRunner" {
					entries = append(entries, fd)
				}
			}
		}
	}
	sort.Slice(entries, func(i, j int) bool { return entries[i].Name.Name < entries[j].Name.Name })
	var entryNames []string
	for _, fd := range entries {
		entryNames = append(entryNames, fd.Name.Name)
		a.analyzeFunc(fd, "N", fd.Name.Name+"/N")
	}
	// the callbacks of ReadJob / IterateJobs run client code in the mode recorded below
	var rows []Row
	for _, r := range a.rows {
		rows = append(rows, r)
	}
	sort.Slice(rows, func(i, j int) bool {
		if rows[i].Pos != rows[j].Pos {
			return rows[i].Pos < rows[j].Pos
		}
		if rows[i].Object != rows[j].Object {
			return rows[i].Object < rows[j].Object
		}
		return rows[i].Mode+rows[i].Entry < rows[j].Mode+rows[j].Entry
	})
	out := map[string]interface{}{"rows": rows, "entries": entryNames, "notes": a.notes}
	enc := json.NewEncoder(os.Stdout)
	enc.SetIndent("", " ")
	_ = enc.Encode(out)
}

type fctx struct {
	a        *analyzer
	name     string
	entry    string
	mode     string
	async    string
	deferred []deferredCall
}

type deferredCall struct {
	call *ast.CallExpr
	idx  int // order of registration
}

func (a *analyzer) analyzeFunc(fd *ast.FuncDecl, mode, entry string) string {
	key := fd.Name.Name + "/" + mode + "@" + a.fset.Position(fd.Pos()).String()
	if a.seen[key] {
		// the exit mode of a function that was already analysed: functions of this package leave the mode as they found it
		// unless they lock themselves, in which case they are entered with N and return with N
		return mode
	}
	a.seen[key] = true
	c := &fctx{a: a, name: fd.Name.Name, entry: entry, mode: mode}
	c.block(fd.Body.List)
	c.runDeferred()
	return c.mode
}

func (c *fctx) runDeferred() {
	// deferred calls run in reverse order; a deferred unlock changes the mode for those registered before it
	for i := len(c.deferred) - 1; i >= 0; i-- {
		c.call(c.deferred[i].call, false)
	}
	c.deferred = nil
}

func (c *fctx) block(stmts []ast.Stmt) {
	for _, s := range stmts {
		c.stmt(s)
	}
}

func join(a, b string) string {
	if a == b {
		return a
	}
	return "N" // modes differ on the two paths: assume the weaker one
}

func (c *fctx) stmt(s ast.Stmt) {
	switch s := s.(type) {
	case nil:
	case *ast.BlockStmt:
		c.block(s.List)
	case *ast.ExprStmt:
		c.expr(s.X, false)
	case *ast.AssignStmt:
		for _, r := range s.Rhs {
			c.expr(r, false)
		}
		for _, l := range s.Lhs {
			c.lhs(l)
		}
	case *ast.IncDecStmt:
		c.lhs(s.X)
	case *ast.DeclStmt:
		if gd, ok := s.Decl.(*ast.GenDecl); ok {
			for _, sp := range gd.Specs {
				if vs, ok := sp.(*ast.ValueSpec); ok {
					for _, v := range vs.Values {
						c.expr(v, false)
					}
				}
			}
		}
	case *ast.ReturnStmt:
		for _, r := range s.Results {
			c.expr(r, false)
		}
	case *ast.IfStmt:
		c.stmt(s.Init)
		c.expr(s.Cond, false)
		m0 := c.mode
		c.block(s.Body.List)
		m1 := c.mode
		c.mode = m0
		if s.Else != nil {
			c.stmt(s.Else)
		}
		if endsWithReturn(s.Body.List) {
			// the then-branch leaves the function: what follows is reached from the else path only
		} else {
			c.mode = join(m1, c.mode)
		}
	case *ast.ForStmt:
		c.stmt(s.Init)
		if s.Cond != nil {
			c.expr(s.Cond, false)
		}
		m0 := c.mode
		c.block(s.Body.List)
		c.stmt(s.Post)
		c.mode = join(m0, c.mode)
	case *ast.RangeStmt:
		c.expr(s.X, false)
		m0 := c.mode
		c.block(s.Body.List)
		c.mode = join(m0, c.mode)
	case *ast.SwitchStmt:
		c.stmt(s.Init)
		if s.Tag != nil {
			c.expr(s.Tag, false)
		}
		c.clauses(s.Body.List)
	case *ast.TypeSwitchStmt:
		c.stmt(s.Init)
		c.stmt(s.Assign)
		c.clauses(s.Body.List)
	case *ast.SelectStmt:
		c.clauses(s.Body.List)
	case *ast.GoStmt:
		c.spawn(s.Call, "go")
	case *ast.DeferStmt:
		if c.isLockCall(s.Call) != "" {
			c.deferred = append(c.deferred, deferredCall{s.Call, len(c.deferred)})
			return
		}
		for _, arg := range s.Call.Args {
			c.expr(arg, false)
		}
		c.deferred = append(c.deferred, deferredCall{s.Call, len(c.deferred)})
	case *ast.LabeledStmt:
		c.stmt(s.Stmt)
	case *ast.SendStmt:
		c.expr(s.Chan, false)
		c.expr(s.Value, false)
	case *ast.BranchStmt, *ast.EmptyStmt:
	default:
		c.a.notes = append(c.a.notes, fmt.Sprintf("unhandled statement %T at %s", s, c.a.fset.Position(s.Pos())))
	}
}

func endsWithReturn(l []ast.Stmt) bool {
	if len(l) == 0 {
		return false
	}
	switch s := l[len(l)-1].(type) {
	case *ast.ReturnStmt:
		return true
	case *ast.BranchStmt:
		return s.Tok == token.CONTINUE || s.Tok == token.BREAK
	}
	return false
}

func (c *fctx) clauses(l []ast.Stmt) {
	m0 := c.mode
	out := ""
	for _, cl := range l {
		c.mode = m0
		var body []ast.Stmt
		switch cl := cl.(type) {
		case *ast.CaseClause:
			for _, e := range cl.List {
				c.expr(e, false)
			}
			body = cl.Body
		case *ast.CommClause:
			c.stmt(cl.Comm)
			body = cl.Body
		}
		c.block(body)
		if endsWithReturn(body) {
			continue
		}
		if out == "" {
			out = c.mode
		} else {
			out = join(out, c.mode)
		}
	}
	if out == "" {
		out = m0
	}
	c.mode = join(out, m0)
	if out == m0 {
		c.mode = m0
	}
}

// isLockCall: "Lock", "RLock", "Unlock", "RUnlock" on the runner mutex, else ""
func (c *fctx) isLockCall(call *ast.CallExpr) string {
	sel, ok := call.Fun.(*ast.SelectorExpr)
	if !ok {
		return ""
	}
	inner, ok := sel.X.(*ast.SelectorExpr)
	if !ok {
		return ""
	}
	if s, ok := c.a.info.Selections[inner]; ok && s.Obj() == c.a.mxVar {
		switch sel.Sel.Name {
		case "Lock", "RLock", "Unlock", "RUnlock":
			return sel.Sel.Name
		}
	}
	return ""
}

func (c *fctx) spawn(call *ast.CallExpr, how string) {
	for _, arg := range call.Args {
		c.expr(arg, false)
	}
	if fl, ok := call.Fun.(*ast.FuncLit); ok {
		sub := &fctx{a: c.a, name: c.name, entry: c.entry, mode: "N", async: how + " in " + c.name}
		sub.block(fl.Body.List)
		sub.runDeferred()
		return
	}
	// go r.method(...): analysed with N
	if fn := c.callee(call); fn != nil {
		if fd := c.a.decls[fn]; fd != nil {
			c.a.analyzeFunc(fd, "N", c.entry)
		}
	}
}

func (c *fctx) callee(call *ast.CallExpr) *types.Func {
	switch f := call.Fun.(type) {
	case *ast.Ident:
		if fn, ok := c.a.info.Uses[f].(*types.Func); ok && fn.Pkg() == c.a.pkg {
			return fn
		}
	case *ast.SelectorExpr:
		if s, ok := c.a.info.Selections[f]; ok {
			if fn, ok := s.Obj().(*types.Func); ok && fn.Pkg() == c.a.pkg {
				return fn
			}
		}
		if fn, ok := c.a.info.Uses[f.Sel].(*types.Func); ok && fn.Pkg() == c.a.pkg {
			return fn
		}
	}
	return nil
}

func (c *fctx) call(call *ast.CallExpr, evalArgs bool) {
	switch c.isLockCall(call) {
	case "Lock":
		c.mode = "W"
		return
	case "RLock":
		c.mode = "R"
		return
	case "Unlock", "RUnlock":
		c.mode = "N"
		return
	}
	// delete(m, k) writes m
	if id, ok := call.Fun.(*ast.Ident); ok && id.Name == "delete" && len(call.Args) == 2 {
		if _, isBuiltin := c.a.info.Uses[id].(*types.Builtin); isBuiltin {
			c.lhs(call.Args[0])
			c.expr(call.Args[1], false)
			return
		}
	}
	// time.AfterFunc(d, func() {...}): the callback runs later on its own goroutine
	if sel, ok := call.Fun.(*ast.SelectorExpr); ok && sel.Sel.Name == "AfterFunc" {
		if id, ok := sel.X.(*ast.Ident); ok && id.Name == "time" && len(call.Args) == 2 {
			c.expr(call.Args[0], false)
			if fl, ok := call.Args[1].(*ast.FuncLit); ok {
				sub := &fctx{a: c.a, name: c.name, entry: c.entry, mode: "N", async: "timer in " + c.name}
				sub.block(fl.Body.List)
				sub.runDeferred()
			}
			return
		}
	}
	if evalArgs {
		c.expr(call.Fun, true)
		for _, arg := range call.Args {
			c.expr(arg, false)
		}
	}
	if fl, ok := call.Fun.(*ast.FuncLit); ok {
		// immediately invoked (or deferred) function literal: runs here
		c.block(fl.Body.List)
		return
	}
	if fn := c.callee(call); fn != nil {
		if fd := c.a.decls[fn]; fd != nil {
			c.mode = c.a.analyzeFuncFrom(c, fd)
		}
	}
}

// analyzeFuncFrom analyses the callee with the caller's mode; rows are attributed to the callee, the entry stays
func (a *analyzer) analyzeFuncFrom(c *fctx, fd *ast.FuncDecl) string {
	key := fd.Name.Name + "/" + c.mode + "/" + c.async + "@" + a.fset.Position(fd.Pos()).String()
	if a.seen[key] {
		return c.mode
	}
	a.seen[key] = true
	sub := &fctx{a: a, name: fd.Name.Name, entry: c.entry, mode: c.mode, async: c.async}
	sub.block(fd.Body.List)
	sub.runDeferred()
	return sub.mode
}

func (c *fctx) record(sel *ast.SelectorExpr, write bool) {
	s, ok := c.a.info.Selections[sel]
	if !ok || s.Kind() != types.FieldVal {
		return
	}
	v, ok := s.Obj().(*types.Var)
	if !ok {
		return
	}
	name, ok := c.a.owner[v]
	if !ok || v == c.a.mxVar {
		return
	}
	pos := c.a.fset.Position(sel.Sel.Pos())
	r := Row{Func: c.name, Entry: c.entry, Pos: fmt.Sprintf("%s:%d", shortFile(pos.Filename), pos.Line), Object: name, Write: write, Mode: c.mode, Async: c.async}
	key := fmt.Sprintf("%s|%s|%v|%s|%s", r.Pos, r.Object, r.Write, r.Mode, r.Async)
	if old, ok := c.a.rows[key]; !ok || r.Entry < old.Entry {
		c.a.rows[key] = r
	}
}

func shortFile(f string) string {
	if i := strings.LastIndex(f, "/"); i >= 0 {
		return f[i+1:]
	}
	return f
}

// lhs: the expression is assigned to (or deleted from)
func (c *fctx) lhs(e ast.Expr) {
	switch e := e.(type) {
	case *ast.SelectorExpr:
		c.expr(e.X, false)
		c.record(e, true)
	case *ast.IndexExpr:
		// m[k] = v / s[i] = v writes the container
		c.lhs(e.X)
		c.expr(e.Index, false)
	case *ast.StarExpr:
		c.expr(e.X, false)
	case *ast.ParenExpr:
		c.lhs(e.X)
	case *ast.Ident:
	default:
		c.expr(e, false)
	}
}

func (c *fctx) expr(e ast.Expr, isCallee bool) {
	switch e := e.(type) {
	case nil:
	case *ast.SelectorExpr:
		c.expr(e.X, false)
		if !isCallee {
			c.record(e, false)
		} else if s, ok := c.a.info.Selections[e]; ok && s.Kind() == types.FieldVal {
			c.record(e, false) // calling a function stored in a field reads the field
		}
	case *ast.CallExpr:
		c.call(e, true)
	case *ast.FuncLit:
		// a function literal used as a value (callback, sort comparator): runs synchronously in the current mode
		c.block(e.Body.List)
	case *ast.UnaryExpr:
		c.expr(e.X, false)
	case *ast.BinaryExpr:
		c.expr(e.X, false)
		c.expr(e.Y, false)
	case *ast.IndexExpr:
		c.expr(e.X, false)
		c.expr(e.Index, false)
	case *ast.SliceExpr:
		c.expr(e.X, false)
		c.expr(e.Low, false)
		c.expr(e.High, false)
		c.expr(e.Max, false)
	case *ast.StarExpr:
		c.expr(e.X, false)
	case *ast.ParenExpr:
		c.expr(e.X, false)
	case *ast.TypeAssertExpr:
		c.expr(e.X, false)
	case *ast.KeyValueExpr:
		c.expr(e.Value, false)
	case *ast.CompositeLit:
		for _, el := range e.Elts {
			c.expr(el, false)
		}
	case *ast.Ident, *ast.BasicLit, *ast.ArrayType, *ast.MapType, *ast.FuncType, *ast.InterfaceType, *ast.StructType, *ast.ChanType, *ast.Ellipsis:
	default:
		c.a.notes = append(c.a.notes, fmt.Sprintf("unhandled expression %T at %s", e, c.a.fset.Position(e.Pos())))
	}
}

package prunner

// Demonstration of defect D15 (see /verif/DESIGN.md section 5). Copy into /repo as zz_defects_test.go.
// taskctl/runner.go execute: allow_failure only tolerated exit statuses. A command of an allow_failure task that could not
// be run at all (a script line the shell cannot parse) made the task count as errored: with fail-fast the job was canceled
// by its own allow_failure task, the dependent tasks never ran, and the job still ended "completed, not canceled, no error"
// with tasks waiting.

import (
	"context"
	"os"
	"testing"
	"time"

	"github.com/stretchr/testify/require"
	"github.com/taskctl/taskctl/pkg/variables"

	"github.com/Flowpack/prunner/definition"
	"github.com/Flowpack/prunner/taskctl"
)

func TestDefectD15_AllowFailureCoversACommandThatCannotBeRun(t *testing.T) {
	dir := t.TempDir()
	outputStore, err := taskctl.NewOutputStore(dir)
	require.NoError(t, err)
	defs := &definition.PipelinesDef{Pipelines: map[string]definition.PipelineDef{
		"p": {Concurrency: 1, QueueLimit: nil, Tasks: map[string]definition.TaskDef{
			"a": {Script: []string{"if then"}, AllowFailure: true},
			"b": {Script: []string{"echo ran"}, DependsOn: []string{"a"}},
		}, SourcePath: "f"},
	}}
	r, err := NewPipelineRunner(context.Background(), defs, func(j *PipelineJob) taskctl.Runner {
		tr, _ := taskctl.NewTaskRunner(outputStore, taskctl.WithEnv(variables.FromMap(j.Env)))
		tr.Stdout, tr.Stderr = os.Stderr, os.Stderr
		return tr
	}, nil, outputStore)
	require.NoError(t, err)
	j, err := r.ScheduleAsync("p", ScheduleOpts{})
	require.NoError(t, err)
	done := false
	for i := 0; i < 2000 && !done; i++ {
		_ = r.ReadJob(j.ID, func(j *PipelineJob) { done = j.Completed })
		time.Sleep(5 * time.Millisecond)
	}
	require.True(t, done, "job did not finish")
	var canceled bool
	var lastErr error
	status := map[string]string{}
	errored := map[string]bool{}
	_ = r.ReadJob(j.ID, func(j *PipelineJob) {
		canceled, lastErr = j.Canceled, j.LastError
		for _, t := range j.Tasks {
			status[t.Name], errored[t.Name] = t.Status, t.Errored
		}
	})
	require.False(t, canceled)
	require.NoError(t, lastErr)
	require.Equal(t, "done", status["b"], "the dependent of a failed allow_failure task must run")
	b, _ := os.ReadFile(dir + "/" + j.ID.String() + "/b-stdout.log")
	require.Equal(t, "ran\n", string(b))
	require.False(t, errored["a"], "the failure of an allow_failure task must not count as an error of the job")
}

(** * C08 — Failure handling and the reported job verdict are sound  (PARTIAL)

    Proved over every reachable state of the system model: when a job is completed (its scheduler has returned and
    JobCompleted ran) none of its tasks is reported running (C08_completed_no_task_running; this needs the final
    stage-change notification to be delivered before the scheduler returns, which the model has at notification
    granularity). As decision rules: a dependent of a failed (not allow_failure) or canceled stage is never launched; a
    stage is ready exactly when every dependency is done, skipped or failed with allow_failure; an acknowledged cancel
    (also the fail-fast one) makes the job end canceled (C04_ends_canceled).
    The verdict clause is proved over every history (C08_verdict_sound, C08_reported_verdict_sound): when a job's
    scheduler returns and the job is reported completed, not canceled and without error, every stage is done and every
    task's commands began and ended successfully — or failed while marked allow_failure — in this history, each exactly
    once (proofs/VerdictProps.v: an invariant over System.reach relating stage statuses, pending notifications, the
    recorded error, the cancel causes and the ghost log).
    Fail-fast is proved as a decision rule (C08_failfast_requests_cancel: the failure notification requests the job's cancel
    iff the pipeline does not continue after failures; delivery and refusal of later runs: C04).
    NOT proved (decided by the monitor on every executed history and by the step-exact comparison of all task / job
    fields): with continue_running_tasks_after_failure all independent tasks run to completion (liveness). *)
From stdpp Require Import list.
From Coq Require Import ZArith.
From PV Require Import System Runner proofs.SchedProps proofs.OnceProps proofs.StageProps proofs.SystemProps proofs.VerdictProps proofs.FailFastProps.

(** over every history: the step that completes a job leaves it completed with no task reported running *)
Theorem C08_completed_no_task_running : ∀ s id s' r,
  reach s → step s (EvSchedReturn id) = Some (s', r) →
  ∀ j', get_job s' id = Some j' → j_completed j' = true ∧ ∀ t, t ∈ j_tasks j' → jt_status t ≠ Running.
Proof. exact completed_no_running. Qed.

(** over every history: the verdict "completed, not canceled, no error" is only given when every stage is done and every
    task began and ended successfully (ORunEnded .. true is logged for success and for a failure marked allow_failure) *)
Theorem C08_verdict_sound : ∀ s id s' r j sc,
  reach s → step s (EvSchedReturn id) = Some (s', r) → get_job s id = Some j → j_sched j = Some sc →
  j_canceled j = false → j_cancel_req j = false → sc_lasterr sc = None →
  ∀ t, t ∈ j_tasks j → stage_status sc (jt_name t) = Some Done ∧ ran_ok (st_ghost s) id (jt_name t).
Proof. exact verdict_sound. Qed.

(** the same on the job record the API reports afterwards; each task began exactly once *)
Theorem C08_reported_verdict_sound : ∀ s id s' r j j',
  reach s → step s (EvSchedReturn id) = Some (s', r) → get_job s id = Some j → get_job s' id = Some j' →
  j_completed j' = true ∧
  (j_canceled j' = false → j_lasterr j' = None →
   ∀ t, t ∈ j_tasks j' → ran_ok (st_ghost s) id (jt_name t) ∧ began (st_ghost s) id (jt_name t) = 1%nat).
Proof. exact reported_verdict_sound. Qed.

(** fail-fast as a decision rule: the task-change notification of a failed task (not a cancellation) of a running job requests
    the cancel of the job (one more pending Scheduler.Cancel, which tells the running tasks: C04) exactly when the pipeline
    does not continue after failures; with continue_running_tasks_after_failure nothing is canceled *)
Theorem C08_failfast_requests_cancel : ∀ s id n t j t0 d,
  st_jobs s !! id = Some j → j_removed j = false → find_task j n = Some t0 →
  tn_err t ≠ Some ECanceled → tn_errored t = true →
  lookup_def (st_defs s) (j_pipe j) = Some d →
  j_canceled j = false → j_completed j = false → is_Some (j_start j) → is_Some (j_sched j) →
  ∃ j', st_jobs (handle_task_change s id n t) !! id = Some j' ∧ j_sched j' = j_sched j ∧
        j_cancels j' = (if pd_continue d then j_cancels j else S (j_cancels j)) ∧
        (∃ t', find_task j' n = Some t' ∧ jt_errored t' = true).
Proof. exact failfast_requests_cancel. Qed.

Theorem C08_dependents_never_launched_partial : ∀ sc j n d,
  d ∈ task_deps j n →
  (stage_status sc d = Some Error ∧ task_allow j d = false) ∨ stage_status sc d = Some Canceled →
  fst (check_status sc j n) = false.
Proof. exact failed_dep_blocks. Qed.

Theorem C08_ready_iff_deps_ok : ∀ sc j n, fst (check_status sc j n) = forallb (dep_ok sc j) (task_deps j n).
Proof. exact check_status_ready. Qed.

(** concrete histories: fail-fast tells the sibling and the job ends errored; allow_failure does neither *)
Definition t (deps : list name) (allow : bool) : taskdef := TaskDef deps allow false 0 0.
Definition ex_defs (cont : bool) : defs :=
  [(0%nat, PDef 1 None false 0 cont 0 0 0 [(0%nat, t [] false); (1%nat, t [] false); (2%nat, t [0%nat] false)])].
Definition run2 : list event :=
  [EvSchedule 0 VNone 0; EvIterBegin 0; EvVisit 0 0; EvVisit 0 1; EvVisit 0 2; EvRunBegin 0 0; EvRunBegin 0 1; EvRunEnd 0 0 (OutFail 1); EvNotify 0 0].
Example C08_ex_failfast :
  (fun j => (j_cancels j, map jt_errored (j_tasks j))) <$> get_job (exec (init (ex_defs false)) run2) 0 = Some (1%nat, [true; false; false]).
Proof. vm_compute. done. Qed.
Example C08_ex_continue :
  (fun j => (j_cancels j, map jt_errored (j_tasks j))) <$> get_job (exec (init (ex_defs true)) run2) 0 = Some (0%nat, [true; false; false]).
Proof. vm_compute. done. Qed.
Example C08_ex_dependent_never_runs :
  let s := exec (init (ex_defs true)) (run2 ++ [EvIterBegin 0; EvVisit 0 0; EvVisit 0 1; EvVisit 0 2; EvRunEnd 0 1 OutOk; EvNotify 0 1;
                                               EvIterBegin 0; EvVisit 0 0; EvVisit 0 1; EvVisit 0 2; EvSchedReturn 0]) in
  (fun j => (j_completed j, j_canceled j, j_lasterr j, map jt_status (j_tasks j), map jt_start (j_tasks j)))
    <$> get_job s 0 = Some (true, false, Some EFail, [Error; Done; Waiting], [Some 0%Z; Some 0%Z; None]).
Proof. vm_compute. done. Qed.

(** the verdict theorem is not vacuous: a job with a dependent task and a failing allow_failure task ends successful *)
Definition ok_defs : defs :=
  [(0%nat, PDef 1 None false 0 false 0 0 0 [(0%nat, t [] false); (1%nat, t [0%nat] true)])].
Definition ok_run : list event :=
  [EvSchedule 0 VNone 0; EvIterBegin 0; EvVisit 0 0; EvVisit 0 1; EvRunBegin 0 0; EvRunEnd 0 0 OutOk; EvNotify 0 0;
   EvIterBegin 0; EvVisit 0 0; EvVisit 0 1; EvRunBegin 0 1; EvRunEnd 0 1 (OutFail 3); EvNotify 0 1;
   EvIterBegin 0; EvVisit 0 0; EvVisit 0 1].
Example C08_ex_verdict_premises :
  let s := exec (init ok_defs) ok_run in
  reach s ∧ is_Some (step s (EvSchedReturn 0)) ∧
  (fun j => (j_canceled j, j_cancel_req j, sc_lasterr <$> j_sched j, map jt_name (j_tasks j))) <$> get_job s 0
    = Some (false, false, Some None, [0; 1]%nat).
Proof. split; [apply reach_exec, reach_init|]. split; vm_compute; [by eexists|done]. Qed.

Print Assumptions C08_failfast_requests_cancel.
Print Assumptions C08_verdict_sound.
Print Assumptions C08_reported_verdict_sound.
Print Assumptions C08_completed_no_task_running.
Print Assumptions C08_dependents_never_launched_partial.
Print Assumptions C08_ready_iff_deps_ok.

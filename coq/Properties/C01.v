(** * C01 — Per-pipeline concurrency limit is never exceeded

    Statements are about the system model (System.v), for every reachable state, i.e. every configuration and every
    finite history of events in every interleaving at the model's event granularity. They are obtained from the
    abstract runner machine (Runner.v) through the refinement theorem (proofs/Refine.v). *)
From stdpp Require Import list.
From Coq Require Import ZArith.
From PV Require Import Runner proofs.SystemProps.

(** In every step, the number of executing jobs of a pipeline either does not grow, or ends up within the
    concurrency limit of the definition in force after the step ("a changed limit governs the jobs started after
    the change"). A job counts as executing from its start until it is reported completed or canceled. *)
Theorem C01_start_respects_limit : ∀ s e s' r p,
  reach s → step s e = Some (s', r) →
  (running_count s' p <= running_count s p)%nat ∨ (running_count s' p <= pd_conc (def_or_zero (st_defs s') p))%nat.
Proof. exact sys_count_ok. Qed.

(** Without definition reloads the limit holds in every state of every history. *)
Theorem C01_bounded_unchanged_defs : ∀ ds evs p,
  Forall no_reload evs →
  (running_count (exec (init ds) evs) p <= pd_conc (def_or_zero ds p))%nat.
Proof. exact sys_bounded_unchanged_defs. Qed.

(** Every interval in which a task of a job runs lies inside the job's executing span: a job with a scheduler —
    in particular one with a stage goroutine at the entry of, or inside, the task runner — is executing ... *)
Theorem C01_runs_inside_span : ∀ s id j sc,
  reach s → get_job s id = Some j → j_sched j = Some sc → is_running j = true.
Proof. exact sched_is_running. Qed.

(** ... and the slot is released (the job reported finished) only once all its stage goroutines have returned. *)
Theorem C01_slot_released_after_runs : ∀ s id s' r,
  step s (EvSchedReturn id) = Some (s', r) →
  ∃ j sc, get_job s id = Some j ∧ j_sched j = Some sc ∧ sc_entry sc = [] ∧ sc_running sc = [] ∧ sc_ending sc = [] ∧ sc_phase sc = PExited.
Proof. exact sched_return_no_runs. Qed.

(** Non-vacuity: a history in which two jobs run at concurrency 2 and a third is queued *)
Definition ex_defs : defs := [(0%nat, PDef 2 None false 0 false 0 0 0 [(0%nat, TaskDef [] false false 0 0)])].
Definition ex_hist : list event := [EvSchedule 0 VNone 0; EvSchedule 0 VNone 0; EvSchedule 0 VNone 0; EvIterBegin 0; EvVisit 0 0; EvRunBegin 0 0].
Example C01_ex : running_count (exec (init ex_defs) ex_hist) 0 = 2%nat
                 ∧ wl_get (st_wait (exec (init ex_defs) ex_hist)) 0 = [2%nat].
Proof. vm_compute. done. Qed.

Print Assumptions C01_start_respects_limit.
Print Assumptions C01_bounded_unchanged_defs.
Print Assumptions C01_runs_inside_span.
Print Assumptions C01_slot_released_after_runs.

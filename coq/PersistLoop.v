(** * PersistLoop: the debounce protocol between requestPersist and the persist loop of NewPipelineRunner
    (prunner.go: persistRequests is a channel with one slot; the loop takes a token, saves, sleeps the persist interval).

    [version]: number of acknowledged changes so far; [saved]: the version the last snapshot contained. *)
From stdpp Require Import list.
From Coq Require Import Lia.

Inductive lphase := LIdle | LSaving | LSleeping.
Record pstate := PState { version : nat; saved : nat; pending : bool; phase : lphase }.

Inductive pevent :=
  | PChange          (* a critical section changes the state and calls requestPersist: token put iff the slot is free *)
  | PTake            (* the loop receives the token *)
  | PSnapshot        (* SaveToStore takes its snapshot under the lock *)
  | PSleepDone.      (* the persist interval has passed *)

Definition pstep (s : pstate) (e : pevent) : option pstate :=
  match e, phase s with
  | PChange, _ => Some (PState (S (version s)) (saved s) true (phase s))
  | PTake, LIdle => if pending s then Some (PState (version s) (saved s) false LSaving) else None
  | PSnapshot, LSaving => Some (PState (version s) (version s) (pending s) LSleeping)
  | PSleepDone, LSleeping => Some (PState (version s) (saved s) (pending s) LIdle)
  | _, _ => None
  end.

Definition pinit : pstate := PState 0 0 false LIdle.

(** an unsaved change is never forgotten: a token is pending, or the loop is about to take its snapshot *)
Definition pinv (s : pstate) : Prop :=
  saved s <= version s ∧ (saved s < version s → pending s = true ∨ phase s = LSaving).

Lemma pinv_init : pinv pinit. Proof. split; simpl; [lia|lia]. Qed.

Lemma pinv_step s e s' : pinv s → pstep s e = Some s' → pinv s'.
Proof.
  intros [Hle Hp] Hs. destruct s as [v sv pe ph]. simpl in *.
  destruct e, ph; simpl in Hs; try discriminate.
  all: try (injection Hs as <-; split; simpl; [lia|by auto]).
  - destruct pe; [|discriminate]. injection Hs as <-. split; simpl; [lia|by auto].
  - injection Hs as <-. split; simpl; [lia|]. lia.
  - injection Hs as <-. split; simpl; [lia|]. intros Hlt. destruct (Hp Hlt) as [?|?]; [by left|discriminate].
Qed.

(** the loop is never stuck with an unsaved change: some loop event is enabled *)
Lemma ploop_enabled s : pinv s → saved s < version s → ∃ e s', e ≠ PChange ∧ pstep s e = Some s'.
Proof.
  intros [_ Hp] Hlt. destruct (phase s) eqn:Hph.
  - destruct (Hp Hlt) as [Hpe|?]; [|congruence]. exists PTake. eexists. split; [done|]. simpl. by rewrite Hph, Hpe.
  - exists PSnapshot. eexists. split; [done|]. simpl. by rewrite Hph.
  - exists PSleepDone. eexists. split; [done|]. simpl. by rewrite Hph.
Qed.

(** ... and after at most: end of the current sleep, take, snapshot — three loop events without further changes — the
    store holds everything that was acknowledged (one persist interval plus one save) *)
Fixpoint loop_run (n : nat) (s : pstate) : pstate :=
  match n with
  | 0 => s
  | S n =>
      match phase s with
      | LIdle => match pstep s PTake with Some s' => loop_run n s' | None => s end
      | LSaving => match pstep s PSnapshot with Some s' => loop_run n s' | None => s end
      | LSleeping => match pstep s PSleepDone with Some s' => loop_run n s' | None => s end
      end
  end.

Lemma ploop_catches_up s : pinv s → saved (loop_run 3 s) = version s ∧ version (loop_run 3 s) = version s.
Proof.
  intros [Hle Hp]. destruct s as [v sv pe ph]. simpl in *.
  destruct ph, pe; simpl; try done.
  - split; [|done]. destruct (decide (sv < v)) as [Hlt|Hge]; [|lia]. destruct (Hp Hlt); done.
  - split; [|done]. destruct (decide (sv < v)) as [Hlt|Hge]; [|lia]. destruct (Hp Hlt); done.
Qed.

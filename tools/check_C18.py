#!/usr/bin/env python3
"""C18 — environment and job variables reach exactly the right task commands. Proof: coq/Properties/C18.v over Env.v.
Tie to app/app.go, prunner.go, taskctl/runner.go, executor.go: realrun starts the real CLI application with generated pipelines in
which names are assigned to the process, pipeline and task level (values with spaces, quotes, newlines, $, =, backslashes,
non-ASCII); every task dumps its environment NUL-separated and renders its job's variables; jobs of the same and of different
pipelines run at once. Every dumped environment is compared in full with the precedence rule, and on the generated names with
the Coq model (Corr/EnvCorr.v); jobs bringing the reserved variable name must never run."""
import json
import os
import sys

sys.path.insert(0, os.path.dirname(os.path.abspath(__file__)))
from reallib import *  # noqa

HEADER = "From stdpp Require Import gmap strings.\nFrom Coq Require Import NArith.\nFrom PV Require Import Env Corr.EnvCorr.\n"
POOL = ["VA", "VB", "VC", "VD", "VE", "VF", "V_G", "v_lower", "V9", "HOME", "PATH_EXTRA", "TASK_NAME", "ARGS"]


def cq_env(m):
    return cq_list(sorted(m.items()), lambda kv: "(%s, %s)" % (cq_str(kv[0]), cq_str(kv[1])))


def main():
    ctx = Ctx("C18", sys.argv[1:])
    proof_ok = proof_evidence(ctx, extra_files=["Corr/EnvCorr.v"])
    bins = build_harness(ctx, ["realrun"])
    if bins is None:
        violation(ctx, {"what": "harness does not build against the repository working tree", "broken": "correspondence realrun"}, found_input=False)
        finish(ctx)
    if ctx.replay:
        rp = json.load(open(ctx.replay if os.path.isabs(ctx.replay) else os.path.join(VERIF, ctx.replay)))
        recs = run_real(ctx, bins, "env", rp["seed"], rp["n"], "rp") or []
        bad = [r for r in recs if not r.get("ok", True) and r.get("round") == rp.get("round")]
        ctx.log("replay:", json.dumps(bad[:1])[:500])
        if bad:
            violation(ctx, rp)
        finish(ctx)
    q = ctx.tier == "quick"
    runs = [(ctx.seed, 40 if q else 300), (ctx.seed + 1, 40 if q else 300)] + ([] if q else [(ctx.seed + k, 200) for k in range(2, 6)])
    recs_all, bad, env_terms, var_terms = [], [], [], []
    for seed, n in runs:
        recs = run_real(ctx, bins, "env", seed, n)
        if recs is None:
            violation(ctx, {"what": "realrun did not complete", "broken": "correspondence realrun env"}, found_input=False)
            finish(ctx)
        recs_all += recs
        for r in recs:
            if not r.get("ok", True) or r["kind"] == "error":
                bad.append((seed, n, r))
            if r["kind"] == "env" and "seen" in r:
                seen = dict(r["seen"])
                obs = [(nm, seen.get(nm)) for nm in POOL]
                env_terms.append("(%d%%nat, %s, %s, %s, %s, %s)" % (len(env_terms), cq_env(r["proc"]), cq_env(r["pipe"] or {}), cq_env(r["tenv"] or {}), cq_str(r["task"]),
                                                                  cq_list(obs, lambda o: "(%s, %s)" % (cq_str(o[0]), cq_opt(o[1], cq_str)))))
            if r["kind"] == "vars":
                var_terms.append("(%d%%nat, %s, %s)" % (len(var_terms), cq_list(r["names"], cq_str), cq_bool(r["refused"])))
    T = "(nat * list (string * string) * list (string * string) * list (string * string) * string * list (string * option string))"
    bad_env = run_cases(ctx, "envs", HEADER, env_terms[:3000], case_type=T)
    bad_vars = run_cases(ctx, "vars", HEADER, var_terms[:3000], case_type="(nat * list string * bool)", mism="vars_mismatches")
    envs = [r for r in recs_all if r["kind"] == "env"]
    levels = {}
    for r in envs:
        for nm in POOL:
            k = "".join(c for c, m in (("P", r["proc"]), ("L", r["pipe"] or {}), ("T", r["tenv"] or {})) if nm in m) or "-"
            levels[k] = levels.get(k, 0) + 1
    ctx.coverage.update({
        "evaluations": len(envs) + len(var_terms),
        "distinct_nontrivial": len({(r["round"], r["job_id"], r["task"]) for r in envs}),
        "rule": "rounds: 13 names each independently defined at process / pipeline / task level (values from an alphabet of spaces, quotes, newlines, $, "
                "${X}, $(id), `id`, =, backslashes, tabs, non-ASCII, empty), 1-3 pipelines x 1-3 tasks, 2-5 jobs at once with own variables (strings, numbers, "
                "booleans, nested map, list); every task dumps `env -0` and renders its variables through a here-document; full environment compared "
                "(all names, not only generated ones; PWD/OLDPWD/SHLVL/_ are the interpreter's); variable-name sets with and near the reserved name",
        "task_runs": len(envs), "names_compared_total": sum(r.get("names_compared", 0) for r in envs),
        "level_combinations(P=process,L=pipeline,T=task)": levels,
        "reserved_name_jobs": len([r for r in recs_all if r["kind"] == "reserved"]), "variable_name_sets": len(var_terms),
        "model_mismatches": {"env": len(bad_env), "vars": len(bad_vars)},
        "samples": [{k: v for k, v in r.items() if k not in ("proc",)} for r in envs[:1]],
        "traces_validated_against_impl": min(len(env_terms), 3000) + min(len(var_terms), 3000),
    })
    ctx.assumptions = ["variable values are observed through a here-document of the interpreter, which does not preserve backslashes: variable values are generated without them (environment values include them)",
                       "variable values containing template syntax ({{ }}) are expanded by taskctl's compiler (variables may reference variables); values are generated without it",
                       "names are shell identifiers; mvdan/sh, text/template and exec are exercised, not modelled"]
    if not proof_ok:
        violation(ctx, {"what": "Coq development for C18 does not check", "broken": "Properties/C18.v or its dependencies"}, found_input=False)
    for seed, n, r in bad[:3]:
        r = {k: v for k, v in r.items() if k not in ("proc",)}
        violation(ctx, {"what": "a task command saw a different environment / rendering than precedence prescribes, or a reserved-name job was not refused",
                        "mode": "env", "seed": seed, "n": n, "round": r.get("round"), "case": r})
    if not bad and (bad_env or bad_vars):
        violation(ctx, {"what": "observed environments or variable-name decisions differ from the model",
                        "broken": "correspondence Corr/EnvCorr.v (check_env / check_vars)", "env_cases": bad_env[:5], "vars_cases": bad_vars[:5]}, found_input=False)
    finish(ctx)


if __name__ == "__main__":
    main()
